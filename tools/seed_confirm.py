"""Confirm a seeded change (patch.diff + demo.py + meta.json in <src>) against /repo's HEAD and run our check on it.

usage: seed_confirm.py <srcdir> [--tier quick|thorough] [--checks C03,C10]
Writes /verif/seeded/<prop>-<n>/ {patch.diff, demo.py, meta.json} where meta.json gains the keys
"confirmed" (what we observed ourselves) and "detected_by" (result of our checks on the changed tree).
The change is applied in a scratch worktree outside /repo and /verif which is removed afterwards."""
from __future__ import annotations

import json
import pathlib
import re
import shutil
import subprocess
import sys
import tempfile

VERIF = pathlib.Path(__file__).resolve().parent.parent
ALWAYS_FAIL = {"test_gitfilehandler_can_read_remote_files_no_revision", "test_gitfilehandler_can_read_remote_files_with_revision",
               "test_Capabilities_conditions_markup_escapes"}


def sh(cmd, **kw):
    p = subprocess.run(cmd, stdout=subprocess.PIPE, stderr=subprocess.STDOUT, text=True, errors="replace", **kw)
    return p.returncode, p.stdout


def main():
    src = pathlib.Path(sys.argv[1])
    tier = "quick"
    checks = None
    tag = ""
    args = sys.argv[2:]
    while args:
        a = args.pop(0)
        if a == "--tier":
            tier = args.pop(0)
        elif a == "--checks":
            checks = args.pop(0).split(",")
        elif a == "--tag":
            tag = args.pop(0) + "-"
    meta = json.loads((src / "meta.json").read_text())
    prop = meta.get("property") or src.parent.name
    n = src.name
    wt = pathlib.Path(tempfile.mkdtemp(prefix=f"confirm-{prop}-{n}-"))
    wt.rmdir()
    res: dict = {}
    try:
        rc, out = sh(["git", "-C", "/repo", "worktree", "add", "-q", str(wt), "HEAD"])
        if rc:
            raise SystemExit("cannot create worktree: " + out)
        rc, out = sh(["git", "-C", str(wt), "apply", str(src / "patch.diff")])
        res["patch_applies"] = rc == 0
        if rc:
            res["apply_error"] = out[-500:]
        else:
            rc, out = sh(["/venv/bin/python", "-m", "pytest", "-q", "-p", "no:cacheprovider", "--timeout=900", "--continue-on-collection-errors", "-x", "--maxfail=10"],
                         cwd=str(wt), timeout=1200)
            failed = set(re.findall(r"^FAILED \S+::(\w+)", out, re.M)) | set(re.findall(r"^ERROR \S+::(\w+)", out, re.M))
            res["new_failing_tests"] = sorted(failed - ALWAYS_FAIL)
            res["tests_still_pass"] = not (failed - ALWAYS_FAIL) and " passed" in out
            rc1, o1 = sh(["/venv/bin/python", str(src / "demo.py"), str(wt)], timeout=900)
            rc0, o0 = sh(["/venv/bin/python", str(src / "demo.py"), "/repo"], timeout=900)
            res["demo_fails_with_change"] = rc1 != 0
            res["demo_passes_without_change"] = rc0 == 0
            res["demo_output_with_change"] = o1[-600:]
            det = {}
            for c in (checks or [prop]):
                env = dict(**__import__("os").environ, VERIF_REPO=str(wt))
                rc, out = sh([str(VERIF / "check"), c, "--tier", tier], env=env, cwd=str(VERIF), timeout=3600)
                viol = [l for l in out.splitlines() if l.startswith("VIOLATION")]
                det[c] = {"exit": rc, "violation_lines": len(viol), "no_failing_input_found": any("no-failing-input-found" in l for l in viol),
                          "summary": next((l for l in out.splitlines() if l.startswith(f"[{c}] tier")), ""),
                          "broken": [l for l in out.splitlines() if "BROKEN" in l][:4]}
            res["detected_by"] = det
    finally:
        sh(["git", "-C", "/repo", "worktree", "remove", "--force", str(wt)])
        shutil.rmtree(wt, ignore_errors=True)
    dst = VERIF / "seeded" / f"{prop}-{tag}{n}"
    confirmed = bool(res.get("patch_applies") and res.get("tests_still_pass") and res.get("demo_fails_with_change") and res.get("demo_passes_without_change"))
    res["confirmed"] = confirmed
    print(json.dumps({"seed": f"{prop}-{tag}{n}", **{k: v for k, v in res.items() if k != "demo_output_with_change"}}, indent=1))
    if confirmed:
        dst.mkdir(parents=True, exist_ok=True)
        shutil.copy(src / "patch.diff", dst / "patch.diff")
        shutil.copy(src / "demo.py", dst / "demo.py")
        meta["confirmation"] = {k: res[k] for k in ("patch_applies", "tests_still_pass", "new_failing_tests", "demo_fails_with_change", "demo_passes_without_change")}
        meta["what_we_ran"] = ("git worktree of /repo HEAD + git apply patch.diff; full pytest suite (failing set compared with the three always-failing tests); "
                               "demo.py on the changed and on the unchanged tree; ./check <id> --tier %s with VERIF_REPO=<worktree>" % tier)
        meta["detected_by"] = res.get("detected_by")
        (dst / "meta.json").write_text(json.dumps(meta, indent=1))


if __name__ == "__main__":
    main()
