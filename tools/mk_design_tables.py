"""Regenerate the FINDINGS and SEEDED tables inside DESIGN.md from known_findings*.json and seeded/*/meta.json."""
import glob, json, pathlib, re
V = pathlib.Path(__file__).resolve().parent.parent
fixed, opened = [], []
for f in [V / "known_findings.json"] + sorted((V / "known_findings.d").glob("*.json")):
    for x in json.loads(f.read_text())["findings"]:
        (opened if x.get("status", "open") == "open" else fixed).append(x)
def esc(s): return str(s).replace("|", "\\|").replace("\n", " ")
out = [f"**Repaired ({len(fixed)} entries; every one is a `fix:` commit in `/repo`, test-suite unchanged):**", "", "| prop | commit | what failed |", "|---|---|---|"]
for x in sorted(fixed, key=lambda x: x["property"]):
    w = re.sub(r"^fixed: property=C\d+ (\w+ )?", "", x["what"])
    out.append(f"| {x['property']} | `{esc(x.get('commit',''))[:24]}` | {esc(w)} |")
out += ["", f"**Open known findings ({len(opened)}; printed as `KNOWN-FINDING:` lines, never suppress other violations):**", "", "| prop | key | what fails |", "|---|---|---|"]
for x in sorted(opened, key=lambda x: x["property"]):
    out.append(f"| {x['property']} | `{esc(x['key'])}` | {esc(x['what'])[:420]} |")
findings = "\n".join(out)
rows = ["| seed | breaks | needs to manifest | caught by (quick tier, current checks) | how | at first run |", "|---|---|---|---|---|---|"]
for m in sorted(glob.glob(str(V / "seeded" / "*" / "meta.json"))):
    d = json.loads(pathlib.Path(m).read_text())
    name = pathlib.Path(m).parent.name
    det = d.get("detected_by") or {}
    caught, how = [], []
    for c, r in det.items():
        if r.get("exit"):
            caught.append(c)
            how.append("failing input on the implementation" if r.get("violation_lines") and not r.get("no_failing_input_found") else "proof/correspondence break (no failing input found)")
    fr = (d.get("first_run") or {}).get("detected_by")
    first = "" if fr is None else ("caught" if any(r.get("exit") for r in fr.values()) else "missed")
    status = ', '.join(caught) or ('— (neutralised by a later fix: commit; no longer breaks the property)' if d.get('neutralised') else '**missed**')
    rows.append(f"| {name} | {esc(d.get('title') or d.get('what_changed',''))[:110]} | {esc(d.get('needs_to_manifest',''))[:140]} | {status} | {'; '.join(sorted(set(how)))} | {first} |")
seeded = "\n".join(rows)
p = V / "DESIGN.md"
s = p.read_text()
s = re.sub(r"<!-- FINDINGS:BEGIN -->.*?<!-- FINDINGS:END -->", "<!-- FINDINGS:BEGIN -->\n" + findings.replace("\\", "\\\\") + "\n<!-- FINDINGS:END -->", s, flags=re.S)
s = re.sub(r"<!-- SEEDED:BEGIN -->.*?<!-- SEEDED:END -->", "<!-- SEEDED:BEGIN -->\n" + seeded.replace("\\", "\\\\") + "\n<!-- SEEDED:END -->", s, flags=re.S)
# per-property "as built" paragraphs
for mf in sorted((V / "manifest.d").glob("C*.json")):
    d = json.loads(mf.read_text())
    pid = d["property_id"]
    props = V / "coq" / "Props" / f"{pid}.v"
    names = re.findall(r"^Theorem ([A-Za-z0-9_']+)", props.read_text(), re.M) if props.exists() else []
    n_open = sum(1 for x in opened if x["property"] == pid)
    n_fixed = sum(1 for x in fixed if x["property"] == pid)
    text = (f"*As built (level claimed: {d.get('category', 'proof')}).* {d['text']}\n\n"
            f"*Theorems in `coq/Props/{pid}.v` ({len(names)}):* " + ", ".join(f"`{n}`" for n in names) + ".\n\n"
            f"*Trusted / assumed:* {d['note']}\n\n*Findings:* {n_fixed} repaired, {n_open} open (section 7). "
            f"Files: `harness/{pid.lower()}.py`, `coq/Props/{pid}.v`.")
    s = re.sub(rf"<!-- ASBUILT:{pid}:BEGIN -->.*?<!-- ASBUILT:{pid}:END -->",
               lambda m_: f"<!-- ASBUILT:{pid}:BEGIN -->\n{text}\n<!-- ASBUILT:{pid}:END -->", s, flags=re.S)
p.write_text(s)
print(len(fixed), "fixed,", len(opened), "open,", len(rows) - 2, "seeded")
