"""Gen/SvgTables.v: the tables and constants the SVG pipeline of /repo works from (property C18).

Everything is read from the tree under check on every run, from two sources:

* reflection in a subprocess (computed tables): ``capstyle.STYLES`` (colours as the hex text
  that ``RGB.tohex`` gives), the marker factory registry, the symbol registry of
  ``diagram/_icons.py`` with, for every symbol, its declared dependencies and the ids /
  ``url(#..)`` / ``href="#.."`` references found in the XML the factory really returns, and
  the class sets of ``svg/decorations.py``;
* the source, read by MEANING rather than by shape (``gen_reqif.Reader``: the function is
  executed symbolically, local names are replaced by what they were assigned, if/else joins
  become conditional expressions, module constants are looked up): ``_json_enc._intround``,
  what the JSON encoder puts into x / y / width / height / contents / class of a diagram, the
  padding arithmetic of ``DiagramMetadata.__init__``, the type -> (draw method, style prefix)
  dispatch of ``Drawing.draw_object``.  Each of these is ALSO probed on the real functions in
  the subprocess; the probe must agree with what was read from the source, else the generator
  raises.

Anything that cannot be determined with certainty raises, which the build reports as a broken tie.
"""
from __future__ import annotations

import ast
import json
import pathlib
import re
import subprocess
import sys

sys.path.insert(0, str(pathlib.Path(__file__).resolve().parent))
from gen_reqif import Reader, S, Shape, cond_leaves, norm_test, param_names, to_tpl  # noqa: E402

OUTPUTS = ["SvgTables.v"]

REFLECT = r"""
import json, re, sys
sys.path.insert(0, sys.argv[1])
import logging; logging.disable(logging.CRITICAL)
import xml.etree.ElementTree as ET
from capellambse.diagram import capstyle, _icons
from capellambse.svg import decorations, symbols  # symbols registers the marker factories

URL = re.compile(r"url\(\s*[\"']?#([^\"')]*)[\"']?\s*\)")
def scan(elem):
    root = ET.fromstring('<r xmlns:xlink="http://www.w3.org/1999/xlink" xmlns:ev="http://www.w3.org/2001/xml-events">'
                         + elem.tostring() + "</r>")[0]
    ids, refs = [], []
    for e in root.iter():
        for k, v in e.attrib.items():
            if k == "id":
                ids.append(v)
            refs.extend(URL.findall(v))
            if k.endswith("href") and v.startswith("#"):
                refs.append(v[1:])
    return root.get("id"), sorted(set(ids)), sorted(set(refs))

def enc(v):
    if v is None:
        return ["none"]
    if isinstance(v, bool):
        raise TypeError("bool style value")
    if isinstance(v, int):
        return ["int", v]
    if isinstance(v, str):
        return ["str", v]
    if isinstance(v, capstyle.RGB):
        return ["rgb", v.tohex()]
    if isinstance(v, (list, tuple)) and all(isinstance(i, capstyle.RGB) for i in v):
        return ["grad", [i.tohex() for i in v]]
    raise TypeError(f"style value {v!r}")

styles = [[dc, [[oc, [[k, enc(v)] for k, v in st.items()]] for oc, st in tbl.items()]]
          for dc, tbl in capstyle.STYLES.items()]
markers = []
for name, fac in decorations.marker_factories.items():
    rid, ids, refs = scan(fac.function("PROBE_ID", stroke="#000000"))
    markers.append([name, rid == "PROBE_ID", ids, refs, list(fac.dependencies)])
syms = []
for key, fd in _icons._FACTORIES.items():
    rid, ids, refs = scan(fd.function())
    syms.append([key, rid, ids, refs, list(fd.dependencies)])
sets = {n: sorted(getattr(decorations, n)) for n in (
    "function_ports", "component_ports", "all_ports", "all_directed_ports", "only_icons",
    "needs_feature_line", "always_top_label")}

# ---- probes of the real functions (cross-checked against what the generator reads from the source)
ask = json.loads(sys.argv[2])
from capellambse import diagram
from capellambse.diagram import _json_enc
from capellambse.svg import drawing as svgdrawing, generate as svggenerate, style as svgstyle
probe = {}
probe["intround"] = [[repr(v), _json_enc._intround(v)] for v in ask["intround_values"]]
probe["vector_fields"] = list(diagram.Vector2D._fields)
enc = _json_enc.DiagramJSONEncoder()
cases = []
for boxes in ask["encoder_boxes"]:
    d = diagram.Diagram("probe", styleclass="Probe Class", uuid="probe-uuid")
    for i, (pos, size, hidden) in enumerate(boxes):
        d.add_element(diagram.Box(tuple(pos), tuple(size), uuid=f"b{i}", styleclass="ProbeBox", hidden=hidden))
    r = enc.default(d)
    vp = d.viewport
    cases.append({
        "viewport": None if vp is None else [repr(vp.pos.x), repr(vp.pos.y), repr(vp.size.x), repr(vp.size.y)],
        "vec": None if vp is None else [type(vp.pos) is diagram.Vector2D, type(vp.size) is diagram.Vector2D],
        "xywh": [r["x"], r["y"], r["width"], r["height"]],
        "int": [type(r[k]) is int for k in ("x", "y", "width", "height")],
        "contents": [e.uuid for e in r["contents"]], "visible": [f"b{i}" for i, b in enumerate(boxes) if not b[2]],
        "class": r["class"],
    })
probe["encoder"] = cases
md = svggenerate.DiagramMetadata(tuple(ask["metadata"][0]), tuple(ask["metadata"][1]), "probe", None)
probe["metadata"] = {"pos": list(md.pos), "size": list(md.size), "viewbox": md.viewbox}
dr = svgdrawing.Drawing(md)
calls = []
def recorder(name):
    def f(*a, **kw):
        pre = sorted({s[: -len(".ProbeClass")] for v in list(a) + list(kw.values()) if isinstance(v, svgstyle.Styling)
                      for s in vars(v).values() if isinstance(s, str) and s.endswith(".ProbeClass")})
        calls.append([name, pre])
    return f
for name, v in vars(svgdrawing.Drawing).items():
    if name.startswith("_draw_") and callable(v):
        setattr(dr, name, recorder(name))
dispatch = []
for kind in ask["kinds"]:
    del calls[:]
    dr.draw_object({"type": kind, "class": "ProbeClass", "id": "probe-" + kind})
    dispatch.append([kind, [list(c) for c in calls]])
probe["dispatch"] = dispatch
try:
    dr.draw_object({"type": "no such type", "class": "ProbeClass", "id": "probe-x"})
    probe["dispatch_unknown"] = "accepted"
except ValueError:
    probe["dispatch_unknown"] = "ValueError"
json.dump({"styles": styles, "markers": markers, "symbols": syms, "sets": sets, "probe": probe}, sys.stdout)
"""


def cstr(s: str) -> str:
    return "[" + ";".join(str(ord(c)) for c in s) + "]%N" if s else "(@nil N)"


def clist(items: list[str]) -> str:
    return "[" + "; ".join(items) + "]"


def sval(v: list) -> str:
    tag = v[0]
    if tag == "none":
        return "SvNone"
    if tag == "int":
        return f"(SvInt ({v[1]})%Z)"
    if tag == "str":
        return f"(SvStr {cstr(v[1])})"
    if tag == "rgb":
        return f"(SvRGB {cstr(v[1])})"
    if tag == "grad":
        return f"(SvGrad {clist([cstr(h) for h in v[1]])})"
    raise ValueError(tag)


# ------------------------------------------------------------------ what the source means
def _num(e: ast.expr) -> int | float | None:
    """numeric literal (possibly negated), bool excluded"""
    if isinstance(e, ast.UnaryOp) and isinstance(e.op, (ast.USub, ast.UAdd)):
        v = _num(e.operand)
        return None if v is None else (-v if isinstance(e.op, ast.USub) else v)
    if isinstance(e, ast.Constant) and isinstance(e.value, (int, float)) and not isinstance(e.value, bool):
        return e.value
    return None


def intround_half(repo: pathlib.Path):
    """_intround(val) == int(val + c): returns c (the Python number of the source)"""
    rd = Reader(ast.parse((repo / "capellambse/diagram/_json_enc.py").read_text()))
    fn = rd.find("_intround")
    if len(param_names(fn)) != 1:
        raise Shape("_intround: expected one parameter")
    e = rd.run(fn).value
    if isinstance(e, ast.Call) and S(e.func) == "int" and "int" not in rd.modbind and len(e.args) == 1 and not e.keywords \
            and isinstance(e.args[0], ast.BinOp) and isinstance(e.args[0].op, ast.Add):
        l, r = rd.resolve_const(e.args[0].left), rd.resolve_const(e.args[0].right)
        for x, c in ((l, r), (r, l)):
            if S(x) == "P0" and _num(c) is not None:
                return _num(c)
    raise Shape(f"_intround means {S(e)}, the model assumes int(val + c)")


def encoder_shape(repo: pathlib.Path) -> dict[str, object]:
    """What the JSON encoder emits for a diagram: x / y / width / height are 0 without a viewport and
    _intround of viewport.pos.x / .pos.y / .size.x / .size.y otherwise; contents are the elements that
    are not hidden; class is the styleclass.  Returns {"by_position": bool} - whether the source takes
    the components of pos / size by position (unpacking, [0]) rather than by the names x / y, which is
    the same only if they are Vector2D(x, y) (checked by the caller through reflection)."""
    tree = ast.parse((repo / "capellambse/diagram/_json_enc.py").read_text())
    rd = Reader(tree, opaque=("_intround",))
    if rd.modfunc("_intround") is None:
        raise Shape("_json_enc._intround is not a plain module-level function")
    # the method JSONEncoder.default() hands a Diagram to
    dflt = rd.run(rd.find("DiagramJSONEncoder", "default"))
    targets = set()
    for conds, leaf in cond_leaves(dflt.value):
        if any(pol and S(norm_test(t, pol)[0]) == "isinstance(P1, diagram.Diagram)" for t, pol in conds):
            targets.add(S(leaf))
            break
    m = re.fullmatch(r"P0\.(\w+)\(P1\)", targets.pop()) if len(targets) == 1 else None
    if m is None:
        raise Shape("DiagramJSONEncoder.default: the call that encodes a diagram.Diagram was not found")
    fn = rd.find("DiagramJSONEncoder", m.group(1))
    static = any(S(d) == "staticmethod" for d in fn.decorator_list)
    if len(param_names(fn)) != (1 if static else 2):
        raise Shape(f"DiagramJSONEncoder.{fn.name}: unexpected parameters")
    o = "P0" if static else "P1"
    v = rd.run(fn).value
    if isinstance(v, ast.IfExp) and isinstance(v.body, ast.Dict) and isinstance(v.orelse, ast.Dict) \
            and [S(k) for k in v.body.keys if k] == [S(k) for k in v.orelse.keys if k] \
            and None not in v.body.keys and None not in v.orelse.keys:
        # `if ..: return {..}` / `return {..}`: the same keys both ways -> one dict of conditional values
        v = ast.Dict(keys=v.body.keys, values=[a if S(a) == S(b) else ast.IfExp(test=v.test, body=a, orelse=b)
                                               for a, b in zip(v.body.values, v.orelse.values)])
    if not isinstance(v, ast.Dict) or not all(isinstance(k, ast.Constant) and isinstance(k.value, str) for k in v.keys):
        raise Shape(f"DiagramJSONEncoder.{fn.name}: does not return a dict with literal keys: {S(v)[:200]}")
    d = {k.value: val for k, val in zip(v.keys, v.values)}
    if len(d) != len(v.keys):
        raise Shape(f"DiagramJSONEncoder.{fn.name}: duplicate keys")
    by_position = False
    for key, vec, comp, idx in (("x", "pos", "x", 0), ("y", "pos", "y", 1), ("width", "size", "x", 0), ("height", "size", "y", 1)):
        e = d.get(key)
        ok = False
        if isinstance(e, ast.IfExp):
            t, pol = norm_test(e.test, True)
            none, some = (e.body, e.orelse) if pol else (e.orelse, e.body)
            base = f"{o}.viewport.{vec}"
            if S(t) == f"{o}.viewport is None" and isinstance(none, ast.Constant) and type(none.value) is int \
                    and none.value == 0 and isinstance(some, ast.Call) and S(some.func) == "_intround" \
                    and len(some.args) == 1 and not some.keywords:
                arg = S(some.args[0])
                if arg == f"{base}.{comp}":
                    ok = True
                elif arg in (f"UNPACK({base}, 2)[{idx}]", f"{base}[{idx}]"):
                    ok = by_position = True
        if not ok:
            raise Shape(f"diagram encoder [{key!r}] is {S(e) if e is not None else None}, the model assumes "
                        f"_intround({o}.viewport.{vec}.{comp}) if {o}.viewport is not None else 0")
    want = {"contents": f"[ITER({o}) for _ in {o} if not ITER({o}).hidden]", "class": f"{o}.styleclass"}
    for k, w in want.items():
        if k not in d or S(d[k]) != w:
            raise Shape(f"diagram encoder [{k!r}] is {S(d[k]) if k in d else None}, the model assumes {w!r}")
    return {"by_position": by_position}


def metadata_padding(repo: pathlib.Path) -> tuple[int, int, int, int]:
    """self.pos = (pos[0] + a, pos[1] + b); self.size = (size[0] + c, size[1] + d);
    self.viewbox = the four numbers joined by blanks.  Returns (a, b, c, d)."""
    rd = Reader(ast.parse((repo / "capellambse/svg/generate.py").read_text()))
    fn = rd.find("DiagramMetadata", "__init__")
    params = param_names(fn)
    if "pos" not in params or "size" not in params or params[0] != "self":
        raise Shape("DiagramMetadata.__init__: parameters pos / size not found")
    par = {"pos": f"P{params.index('pos')}", "size": f"P{params.index('size')}"}
    res = rd.run(fn)
    stores: dict[str, dict[int, ast.expr]] = {}
    for ev in res.events:
        if ev.kind == "setattr" and S(ev.recv) == "P0" and ev.attr in ("pos", "size", "viewbox"):
            stores.setdefault(ev.attr, {})[id(ev.node)] = ev.val
    found: dict[str, tuple[int, int]] = {}
    for name in ("pos", "size"):
        vals = {S(v): v for v in stores.get(name, {}).values()}
        if len(stores.get(name, {})) != 1 or len(vals) != 1:
            raise Shape(f"DiagramMetadata.{name}: expected exactly one assignment, found {sorted(vals)}")
        v = next(iter(vals.values()))
        if not (isinstance(v, ast.Tuple) and len(v.elts) == 2):
            raise Shape(f"DiagramMetadata.{name}: not a pair: {S(v)}")
        offs = []
        for i, el in enumerate(v.elts):
            comp = (f"{par[name]}[{i}]", f"UNPACK({par[name]}, 2)[{i}]")
            off = None
            if isinstance(el, ast.BinOp) and isinstance(el.op, (ast.Add, ast.Sub)):
                l, r = rd.resolve_const(el.left), rd.resolve_const(el.right)
                if S(l) in comp and isinstance(_num(r), int):
                    off = _num(r) if isinstance(el.op, ast.Add) else -_num(r)
                elif isinstance(el.op, ast.Add) and S(r) in comp and isinstance(_num(l), int):
                    off = _num(l)
            if off is None:
                raise Shape(f"DiagramMetadata.{name}[{i}] is {S(el)}, the model assumes {comp[0]} + constant")
            offs.append(off)
        found[name] = (offs[0], offs[1])
    vb = {S(v) for v in stores.get("viewbox", {}).values()}
    if len(stores.get("viewbox", {})) != 1 or vb != {"' '.join(map(str, P0.pos + P0.size))"}:
        raise Shape(f"DiagramMetadata.viewbox: {sorted(vb)}")
    return (*found["pos"], *found["size"])


def type_mapping(repo: pathlib.Path) -> list[tuple[str, str, str]]:
    """Drawing.draw_object: the draw method and the style prefix are selected by obj["type"] from one
    table (a dict literal in the function or a module-level constant) of either bound methods
    ``self._draw_x`` or method names resolved with ``getattr(self, name)``.
    Returns [(type, method name, style prefix)] in table order."""
    rd = Reader(ast.parse((repo / "capellambse/svg/drawing.py").read_text()))
    fn = rd.find("Drawing", "draw_object")
    if len(param_names(fn)) != 2:
        raise Shape("Drawing.draw_object: unexpected parameters")
    res = rd.run(fn)
    key = r"(?:copy\.deepcopy\(P1\)|P1)\['type'\]"
    hits: dict[str, tuple[ast.expr, str, bool]] = {}
    for ev in res.events:
        if ev.kind != "call":
            continue
        f = ev.call.func
        by_name = False
        if isinstance(f, ast.Call) and S(f.func) == "getattr" and len(f.args) == 2 and not f.keywords and S(f.args[0]) == "P0":
            f, by_name = f.args[1], True
        # f must be: first component of TABLE[obj["type"]]
        if isinstance(f, ast.Subscript) and S(f.slice) == "0" and isinstance(f.value, ast.Call) \
                and S(f.value.func) == "UNPACK" and S(f.value.args[1]) == "2" \
                and isinstance(f.value.args[0], ast.Subscript) and re.fullmatch(key, S(f.value.args[0].slice)):
            entry = f.value.args[0]
            hits[S(ev.call.func)] = (rd.resolve_const(entry.value), S(entry), by_name)
    if len(hits) != 1:
        raise Shape(f"Drawing.draw_object: the one call dispatched on obj['type'] was not found ({sorted(hits)})")
    table, entry_s, by_name = next(iter(hits.values()))
    if not isinstance(table, ast.Dict):
        raise Shape(f"Drawing.draw_object: the dispatch table is not a dict literal: {S(table)[:120]}")
    style_expr = f"UNPACK({entry_s}, 2)[1]"
    styled = 0
    for ev in res.events:
        if ev.kind == "call" and S(ev.call.func) in ("capstyle.get_style", "style.Styling") and len(ev.call.args) >= 2:
            first = to_tpl(ev.call.args[1], rd).parts[:1]
            if not first or first[0][0] != "hole" or S(first[0][1]) != style_expr:
                raise Shape(f"Drawing.draw_object: {S(ev.call.func)} is not given a class that starts with the "
                            f"style prefix of the table: {S(ev.call.args[1])[:160]}")
            styled += 1
    if styled == 0:
        raise Shape("Drawing.draw_object: no style lookup uses the style prefix of the table")
    out = []
    for k, v in zip(table.keys, table.values):
        if not (isinstance(k, ast.Constant) and isinstance(k.value, str) and isinstance(v, ast.Tuple) and len(v.elts) == 2
                and isinstance(v.elts[1], ast.Constant) and isinstance(v.elts[1].value, str)):
            raise Shape(f"Drawing.draw_object: dispatch table entry {S(k) if k else None}: {S(v)}")
        m = v.elts[0]
        if by_name and isinstance(m, ast.Constant) and isinstance(m.value, str):
            method = m.value
        elif not by_name and isinstance(m, ast.Attribute) and S(m.value) == "P0":
            method = m.attr
        else:
            raise Shape(f"Drawing.draw_object: dispatch table entry {k.value!r} names {S(m)}")
        out.append((k.value, method, v.elts[1].value))
    if len({k for k, _, _ in out}) != len(out):
        raise Shape("Drawing.draw_object: duplicate keys in the dispatch table")
    return out


KIND_FUNCS = {"box": "_draw_box", "edge": "_draw_edge", "circle": "_draw_circle", "symbol": "_draw_symbol",
              "box_symbol": "_draw_box_symbol"}

INTROUND_VALUES = [-3, -2.5, -2.49, -1.5, -0.51, -0.5, -0.49, 0, 0.25, 0.49, 0.5, 0.75, 1.5, 2.5, 7, 1000000.5,
                   10 ** 12, -10 ** 12, 123456.499]
ENCODER_BOXES = [
    [],
    [[[3.25, 5.5], [7.75, 11.49], False]],
    [[[3.25, 5.5], [7.75, 11.49], False], [[1.5, 2.5], [100.5, 200.25], True]],
    [[[-20.5, -7.25], [40, 30.5], True], [[10, 20], [30, 40], False], [[0.5, 0.5], [2.5, 3.5], False]],
]
METADATA = [[100, 200], [300, 400]]


def cross_check(probe: dict, c, enc: dict, pad: tuple[int, int, int, int], tm: list[tuple[str, str, str]]) -> None:
    """the real functions of the tree under check must behave as the source was read"""
    for (rv, got), v in zip(probe["intround"], INTROUND_VALUES):
        if rv != repr(v) or got != int(v + c) or type(got) is not int:
            raise Shape(f"_intround({rv}) = {got!r} but the source was read as int(val + {c!r})")
    if enc["by_position"] and probe["vector_fields"] != ["x", "y"]:
        raise Shape(f"the encoder takes pos/size by position but Vector2D has fields {probe['vector_fields']}")
    for boxes, case in zip(ENCODER_BOXES, probe["encoder"]):
        if case["viewport"] is None:
            want = [0, 0, 0, 0]
            if boxes:
                raise Shape("probe: a diagram with elements has no viewport")
        else:
            if case["vec"] != [True, True]:
                raise Shape("probe: viewport.pos / viewport.size are not Vector2D")
            want = [int(float(s) + c) for s in case["viewport"]]
        if case["xywh"] != want or case["int"] != [True] * 4:
            raise Shape(f"probe: the encoder gives x/y/width/height {case['xywh']} for viewport {case['viewport']}, "
                        f"the source was read as {want}")
        if case["contents"] != case["visible"] or case["class"] != "Probe Class":
            raise Shape(f"probe: the encoder gives contents {case['contents']} (visible {case['visible']}), "
                        f"class {case['class']!r}")
    (px, py), (sx, sy) = METADATA
    want_md = {"pos": [px + pad[0], py + pad[1]], "size": [sx + pad[2], sy + pad[3]]}
    want_md["viewbox"] = " ".join(map(str, want_md["pos"] + want_md["size"]))
    if probe["metadata"] != want_md:
        raise Shape(f"probe: DiagramMetadata gives {probe['metadata']}, the source was read as {want_md}")
    want_dispatch = [[k, [[f, [t]]]] for k, f, t in tm]
    if probe["dispatch"] != want_dispatch or probe["dispatch_unknown"] != "ValueError":
        raise Shape(f"probe: draw_object dispatches {probe['dispatch']} / unknown type: {probe['dispatch_unknown']}, "
                    f"the source was read as {want_dispatch}")


def generate(repo: pathlib.Path) -> dict[str, str]:
    c = intround_half(repo)
    enc = encoder_shape(repo)
    px, py, sx, sy = metadata_padding(repo)
    tm = type_mapping(repo)
    ask = {"intround_values": INTROUND_VALUES, "encoder_boxes": ENCODER_BOXES, "metadata": METADATA,
           "kinds": [k for k, _, _ in tm]}
    p = subprocess.run([sys.executable, "-c", REFLECT, str(repo), json.dumps(ask)], capture_output=True, text=True,
                       timeout=120, env={"PYTHONHASHSEED": "0", "PATH": "/usr/bin:/bin", "HOME": "/tmp"})
    if p.returncode != 0:
        raise RuntimeError("reflection failed: " + p.stderr[-800:])
    data = json.loads(p.stdout)
    cross_check(data["probe"], c, enc, (px, py, sx, sy), tm)
    from fractions import Fraction
    fr = Fraction(c)
    num, den = fr.numerator, fr.denominator
    if sorted(k for k, _, _ in tm) != sorted(KIND_FUNCS):
        raise ValueError(f"type_mapping kinds changed: {[k for k, _, _ in tm]}")
    for k, f, _ in tm:
        if KIND_FUNCS[k] != f:
            raise ValueError(f"type_mapping[{k!r}] now dispatches to {f}")
    out = ["(* GENERATED by tools/gen_svgtables.py from /repo's capellambse/{diagram,svg} — do not edit *)",
           "From Coq Require Import ZArith NArith QArith List.", "Import ListNotations.",
           "From V Require Import Model.Val Model.SvgTypes.", "Open Scope N_scope.", ""]
    out.append(f"Definition INTROUND_ADD : Q := ({num} # {den}).")
    out.append(f"Definition PAD_POS_X : Z := ({px})%Z.\nDefinition PAD_POS_Y : Z := ({py})%Z.")
    out.append(f"Definition PAD_SIZE_X : Z := ({sx})%Z.\nDefinition PAD_SIZE_Y : Z := ({sy})%Z.")
    out.append("(* Drawing.draw_object type_mapping: JSON type -> style type *)")
    out.append("Definition KIND_STYLE_TYPE : list (str * str) := " +
               clist([f"({cstr(k)}, {cstr(t)})" for k, _, t in tm]) + ".")
    out.append("")
    out.append("Definition STYLES : style_table := [")
    rows = []
    for dc, tbl in data["styles"]:
        ocs = []
        for oc, st in tbl:
            kv = clist([f"({cstr(k)}, {sval(v)})" for k, v in st])
            ocs.append(f"    ({cstr(oc)} (* {oc} *), {kv})")
        rows.append(f"  ({cstr(dc)} (* {dc} *), [\n" + ";\n".join(ocs) + "])")
    out.append(";\n".join(rows) + "].")
    out.append("")
    out.append("(* marker factory registry: name, factory puts the requested id on its root, ids inside, refs inside, deps *)")
    out.append("Definition MARKERS : list marker_row := " + clist(
        [f"\n  (mk_marker {cstr(n)} {'true' if ok else 'false'} {clist([cstr(i) for i in ids])} "
         f"{clist([cstr(r) for r in refs])} {clist([cstr(d) for d in deps])})" for n, ok, ids, refs, deps in data["markers"]]) + ".")
    out.append("")
    out.append("(* symbol registry (_icons._FACTORIES): key, id of the element the factory returns, all ids inside, "
               "all references inside, declared dependencies (names without the Symbol suffix) *)")
    out.append("Definition SYMBOLS : list symbol_row := " + clist(
        [f"\n  (mk_symbol {cstr(k)} {cstr(rid) if rid is not None else '(@nil N)'} {clist([cstr(i) for i in ids])} "
         f"{clist([cstr(r) for r in refs])} {clist([cstr(d) for d in deps])}) (* {k} *)"
         for k, rid, ids, refs, deps in data["symbols"]]) + ".")
    out.append("")
    for n, vals in data["sets"].items():
        out.append(f"Definition {n.upper()} : list str := {clist([cstr(v) for v in vals])}.")
    out.append("")
    return {"SvgTables.v": "\n".join(out) + "\n"}


if __name__ == "__main__":
    print(generate(pathlib.Path(sys.argv[1] if len(sys.argv) > 1 else "/repo"))["SvgTables.v"])
