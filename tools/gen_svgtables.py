"""Gen/SvgTables.v: the tables and constants the SVG pipeline of /repo works from (property C18).

Two sources, both read from the tree under check on every run:

* reflection in a subprocess (computed tables): ``capstyle.STYLES`` (colours as the hex text
  that ``RGB.tohex`` gives), the marker factory registry, the symbol registry of
  ``diagram/_icons.py`` with, for every symbol, its declared dependencies and the ids /
  ``url(#..)`` / ``href="#.."`` references found in the XML the factory really returns, and
  the class sets of ``svg/decorations.py``;
* the AST (literal shapes, fail closed): ``_json_enc._intround``, the hidden filter of the
  encoder, the padding arithmetic of ``DiagramMetadata.__init__``, the ``type_mapping`` of
  ``Drawing.draw_object``.

Anything that no longer has the expected shape raises, which the build reports as a broken tie.
"""
from __future__ import annotations

import ast
import json
import pathlib
import subprocess
import sys

OUTPUTS = ["SvgTables.v"]

REFLECT = r"""
import json, re, sys
sys.path.insert(0, sys.argv[1])
import logging; logging.disable(logging.CRITICAL)
import xml.etree.ElementTree as ET
from capellambse.diagram import capstyle, _icons
from capellambse.svg import decorations, symbols  # symbols registers the marker factories

URL = re.compile(r"url\(\s*[\"']?#([^\"')]*)[\"']?\s*\)")
def scan(elem):
    root = ET.fromstring('<r xmlns:xlink="http://www.w3.org/1999/xlink" xmlns:ev="http://www.w3.org/2001/xml-events">'
                         + elem.tostring() + "</r>")[0]
    ids, refs = [], []
    for e in root.iter():
        for k, v in e.attrib.items():
            if k == "id":
                ids.append(v)
            refs.extend(URL.findall(v))
            if k.endswith("href") and v.startswith("#"):
                refs.append(v[1:])
    return root.get("id"), sorted(set(ids)), sorted(set(refs))

def enc(v):
    if v is None:
        return ["none"]
    if isinstance(v, bool):
        raise TypeError("bool style value")
    if isinstance(v, int):
        return ["int", v]
    if isinstance(v, str):
        return ["str", v]
    if isinstance(v, capstyle.RGB):
        return ["rgb", v.tohex()]
    if isinstance(v, (list, tuple)) and all(isinstance(i, capstyle.RGB) for i in v):
        return ["grad", [i.tohex() for i in v]]
    raise TypeError(f"style value {v!r}")

styles = [[dc, [[oc, [[k, enc(v)] for k, v in st.items()]] for oc, st in tbl.items()]]
          for dc, tbl in capstyle.STYLES.items()]
markers = []
for name, fac in decorations.marker_factories.items():
    rid, ids, refs = scan(fac.function("PROBE_ID", stroke="#000000"))
    markers.append([name, rid == "PROBE_ID", ids, refs, list(fac.dependencies)])
syms = []
for key, fd in _icons._FACTORIES.items():
    rid, ids, refs = scan(fd.function())
    syms.append([key, rid, ids, refs, list(fd.dependencies)])
sets = {n: sorted(getattr(decorations, n)) for n in (
    "function_ports", "component_ports", "all_ports", "all_directed_ports", "only_icons",
    "needs_feature_line", "always_top_label")}
json.dump({"styles": styles, "markers": markers, "symbols": syms, "sets": sets}, sys.stdout)
"""


def cstr(s: str) -> str:
    return "[" + ";".join(str(ord(c)) for c in s) + "]%N" if s else "(@nil N)"


def clist(items: list[str]) -> str:
    return "[" + "; ".join(items) + "]"


def sval(v: list) -> str:
    tag = v[0]
    if tag == "none":
        return "SvNone"
    if tag == "int":
        return f"(SvInt ({v[1]})%Z)"
    if tag == "str":
        return f"(SvStr {cstr(v[1])})"
    if tag == "rgb":
        return f"(SvRGB {cstr(v[1])})"
    if tag == "grad":
        return f"(SvGrad {clist([cstr(h) for h in v[1]])})"
    raise ValueError(tag)


# ------------------------------------------------------------------ AST shapes
def _fn(tree: ast.Module, *path: str) -> ast.AST:
    cur: list[ast.stmt] = tree.body
    node = None
    for p in path:
        node = next((n for n in cur if isinstance(n, (ast.FunctionDef, ast.ClassDef)) and n.name == p), None)
        if node is None:
            raise ValueError(f"{'.'.join(path)}: {p} not found")
        cur = node.body
    return node


def _body(fn: ast.FunctionDef) -> list[ast.stmt]:
    b = list(fn.body)
    if b and isinstance(b[0], ast.Expr) and isinstance(b[0].value, ast.Constant) and isinstance(b[0].value.value, str):
        b = b[1:]
    return b


def intround_half(repo: pathlib.Path) -> tuple[int, int]:
    """`def _intround(val): return int(val + <c>)` -> c as a fraction."""
    tree = ast.parse((repo / "capellambse/diagram/_json_enc.py").read_text())
    fn = _fn(tree, "_intround")
    b = _body(fn)
    if len(fn.args.args) != 1 or len(b) != 1 or not isinstance(b[0], ast.Return):
        raise ValueError("_intround: unexpected shape")
    arg = fn.args.args[0].arg
    e = b[0].value
    if not (isinstance(e, ast.Call) and isinstance(e.func, ast.Name) and e.func.id == "int" and len(e.args) == 1
            and not e.keywords and isinstance(e.args[0], ast.BinOp) and isinstance(e.args[0].op, ast.Add)
            and isinstance(e.args[0].left, ast.Name) and e.args[0].left.id == arg
            and isinstance(e.args[0].right, ast.Constant) and isinstance(e.args[0].right.value, (int, float))):
        raise ValueError(f"_intround: body is {ast.unparse(e)!r}, expected the shape int({arg} + c)")
    from fractions import Fraction
    fr = Fraction(e.args[0].right.value)
    return fr.numerator, fr.denominator


def encoder_shape(repo: pathlib.Path) -> dict[str, str]:
    """The encoder's dict for a diagram: which expression feeds x/y/width/height/contents."""
    tree = ast.parse((repo / "capellambse/diagram/_json_enc.py").read_text())
    fn = _fn(tree, "DiagramJSONEncoder", "__encode_diagram")
    b = _body(fn)
    if len(b) != 1 or not isinstance(b[0], ast.Return) or not isinstance(b[0].value, ast.Dict):
        raise ValueError("__encode_diagram: unexpected shape")
    d = {k.value: ast.unparse(v) for k, v in zip(b[0].value.keys, b[0].value.values) if isinstance(k, ast.Constant)}
    o = fn.args.args[0].arg
    want = {
        "x": f"_intround({o}.viewport.pos.x) if {o}.viewport is not None else 0",
        "y": f"_intround({o}.viewport.pos.y) if {o}.viewport is not None else 0",
        "width": f"_intround({o}.viewport.size.x) if {o}.viewport is not None else 0",
        "height": f"_intround({o}.viewport.size.y) if {o}.viewport is not None else 0",
        "contents": f"[e for e in {o} if not e.hidden]",
        "class": f"{o}.styleclass",
    }
    for k, w in want.items():
        if d.get(k) != w:
            raise ValueError(f"__encode_diagram[{k!r}] is {d.get(k)!r}, the model assumes {w!r}")
    return d


def metadata_padding(repo: pathlib.Path) -> tuple[int, int, int, int]:
    """self.pos = (pos[0] - a, pos[1] - b); self.size = (size[0] + c, size[1] + d)."""
    tree = ast.parse((repo / "capellambse/svg/generate.py").read_text())
    fn = _fn(tree, "DiagramMetadata", "__init__")
    found: dict[str, tuple[int, int]] = {}
    for st in ast.walk(fn):
        if isinstance(st, ast.Assign) and len(st.targets) == 1 and isinstance(st.targets[0], ast.Attribute) \
                and isinstance(st.targets[0].value, ast.Name) and st.targets[0].value.id == "self" \
                and st.targets[0].attr in ("pos", "size"):
            name = st.targets[0].attr
            v = st.value
            if not (isinstance(v, ast.Tuple) and len(v.elts) == 2):
                raise ValueError(f"DiagramMetadata.{name}: not a pair")
            offs = []
            for i, el in enumerate(v.elts):
                if not (isinstance(el, ast.BinOp) and isinstance(el.op, (ast.Add, ast.Sub))
                        and ast.unparse(el.left) == f"{name}[{i}]"
                        and isinstance(el.right, ast.Constant) and isinstance(el.right.value, int)):
                    raise ValueError(f"DiagramMetadata.{name}[{i}] is {ast.unparse(el)!r}")
                offs.append(el.right.value if isinstance(el.op, ast.Add) else -el.right.value)
            if name in found:
                raise ValueError(f"DiagramMetadata.{name} assigned twice")
            found[name] = (offs[0], offs[1])
        if isinstance(st, ast.Assign) and len(st.targets) == 1 and ast.unparse(st.targets[0]) == "self.viewbox":
            if ast.unparse(st.value) != "' '.join(map(str, self.pos + self.size))":
                raise ValueError("DiagramMetadata.viewbox: " + ast.unparse(st.value))
            found["viewbox"] = (0, 0)
    if set(found) != {"pos", "size", "viewbox"}:
        raise ValueError(f"DiagramMetadata.__init__: found only {sorted(found)}")
    return (*found["pos"], *found["size"])


def type_mapping(repo: pathlib.Path) -> list[tuple[str, str, str]]:
    tree = ast.parse((repo / "capellambse/svg/drawing.py").read_text())
    fn = _fn(tree, "Drawing", "draw_object")
    for st in ast.walk(fn):
        if isinstance(st, ast.AnnAssign) and isinstance(st.target, ast.Name) and st.target.id == "type_mapping":
            if not isinstance(st.value, ast.Dict):
                break
            out = []
            for k, v in zip(st.value.keys, st.value.values):
                if not (isinstance(k, ast.Constant) and isinstance(v, ast.Tuple) and len(v.elts) == 2
                        and isinstance(v.elts[1], ast.Constant) and isinstance(v.elts[0], ast.Attribute)):
                    raise ValueError("type_mapping entry shape")
                out.append((k.value, v.elts[0].attr, v.elts[1].value))
            return out
    raise ValueError("Drawing.draw_object: type_mapping literal not found")


KIND_FUNCS = {"box": "_draw_box", "edge": "_draw_edge", "circle": "_draw_circle", "symbol": "_draw_symbol",
              "box_symbol": "_draw_box_symbol"}


def generate(repo: pathlib.Path) -> dict[str, str]:
    p = subprocess.run([sys.executable, "-c", REFLECT, str(repo)], capture_output=True, text=True, timeout=120,
                       env={"PYTHONHASHSEED": "0", "PATH": "/usr/bin:/bin", "HOME": "/tmp"})
    if p.returncode != 0:
        raise RuntimeError("reflection failed: " + p.stderr[-800:])
    data = json.loads(p.stdout)
    num, den = intround_half(repo)
    encoder_shape(repo)
    px, py, sx, sy = metadata_padding(repo)
    tm = type_mapping(repo)
    if sorted(k for k, _, _ in tm) != sorted(KIND_FUNCS):
        raise ValueError(f"type_mapping kinds changed: {[k for k, _, _ in tm]}")
    for k, f, _ in tm:
        if KIND_FUNCS[k] != f:
            raise ValueError(f"type_mapping[{k!r}] now dispatches to {f}")
    out = ["(* GENERATED by tools/gen_svgtables.py from /repo's capellambse/{diagram,svg} — do not edit *)",
           "From Coq Require Import ZArith NArith QArith List.", "Import ListNotations.",
           "From V Require Import Model.Val Model.SvgTypes.", "Open Scope N_scope.", ""]
    out.append(f"Definition INTROUND_ADD : Q := ({num} # {den}).")
    out.append(f"Definition PAD_POS_X : Z := ({px})%Z.\nDefinition PAD_POS_Y : Z := ({py})%Z.")
    out.append(f"Definition PAD_SIZE_X : Z := ({sx})%Z.\nDefinition PAD_SIZE_Y : Z := ({sy})%Z.")
    out.append("(* Drawing.draw_object type_mapping: JSON type -> style type *)")
    out.append("Definition KIND_STYLE_TYPE : list (str * str) := " +
               clist([f"({cstr(k)}, {cstr(t)})" for k, _, t in tm]) + ".")
    out.append("")
    out.append("Definition STYLES : style_table := [")
    rows = []
    for dc, tbl in data["styles"]:
        ocs = []
        for oc, st in tbl:
            kv = clist([f"({cstr(k)}, {sval(v)})" for k, v in st])
            ocs.append(f"    ({cstr(oc)} (* {oc} *), {kv})")
        rows.append(f"  ({cstr(dc)} (* {dc} *), [\n" + ";\n".join(ocs) + "])")
    out.append(";\n".join(rows) + "].")
    out.append("")
    out.append("(* marker factory registry: name, factory puts the requested id on its root, ids inside, refs inside, deps *)")
    out.append("Definition MARKERS : list marker_row := " + clist(
        [f"\n  (mk_marker {cstr(n)} {'true' if ok else 'false'} {clist([cstr(i) for i in ids])} "
         f"{clist([cstr(r) for r in refs])} {clist([cstr(d) for d in deps])})" for n, ok, ids, refs, deps in data["markers"]]) + ".")
    out.append("")
    out.append("(* symbol registry (_icons._FACTORIES): key, id of the element the factory returns, all ids inside, "
               "all references inside, declared dependencies (names without the Symbol suffix) *)")
    out.append("Definition SYMBOLS : list symbol_row := " + clist(
        [f"\n  (mk_symbol {cstr(k)} {cstr(rid) if rid is not None else '(@nil N)'} {clist([cstr(i) for i in ids])} "
         f"{clist([cstr(r) for r in refs])} {clist([cstr(d) for d in deps])}) (* {k} *)"
         for k, rid, ids, refs, deps in data["symbols"]]) + ".")
    out.append("")
    for n, vals in data["sets"].items():
        out.append(f"Definition {n.upper()} : list str := {clist([cstr(v) for v in vals])}.")
    out.append("")
    return {"SvgTables.v": "\n".join(out) + "\n"}
