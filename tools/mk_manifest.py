"""Assemble /verif/MANIFEST.json from manifest.d/*.json (one file per claimed property).
A property without a fragment (or whose fragment has "not_applicable": reason) is listed under not_applicable."""
import json, pathlib
V = pathlib.Path(__file__).resolve().parent.parent
props = [json.loads(l) for l in (V / "properties.jsonl").read_text().splitlines() if l.strip()]
frags = {}
for f in sorted((V / "manifest.d").glob("*.json")):
    d = json.loads(f.read_text()); frags[d["property_id"]] = d
checks, na = [], []
for p in props:
    pid = p["id"]; m = frags.get(pid)
    if not m or m.get("not_applicable"):
        na.append({"property_id": pid, "reason": (m or {}).get("not_applicable", "check not built yet (construction order: DESIGN.md section 6)")})
        continue
    checks.append({
        "property_id": pid, "quick_cmd": f"./check {pid} --tier quick", "thorough_cmd": f"./check {pid} --tier thorough",
        "evidence_file": f"/verif/evidence/{pid}.json", "replay_cmd_template": f"./check {pid} --replay {{path}}", "engine": "coq",
        "level_claimed": {"category": m.get("category", "proof"), "text": m["text"], "design_ref": m.get("design_ref", "")},
        "level_note": m["note"], "technique": m["technique"]})
man = {"version": 1, "setup_cmd": "./setup.sh",
  "hooks": {"guard": "CAPELLAMBSE_VERIF",
            "enable": "no source hooks are needed; checks set CAPELLAMBSE_VERIF=1 and instrument by monkeypatching in their own process",
            "baseline_off_cmd": "cd /repo && /venv/bin/python -m pytest -ra -q -p no:cacheprovider --timeout=900 --continue-on-collection-errors",
            "source_commits": [], "add_only": True},
  "engines": [{"name": "coq", "path": "/verif/coq", "serves_properties": [c["property_id"] for c in checks],
               "kind_free_text": "Coq 8.16.1 development (Model/Proofs/Props/Gen) + Python harness (harness/*.py) running the models (vm_compute) against the implementation"}],
  "checks": checks,
  "notes": "Every check: regenerate Gen/ from /repo, rebuild and re-check the property theorems (Print Assumptions), run model-vs-implementation correspondence, run an independent oracle on the implementation. known_findings.json (+ known_findings.d/) lists genuine defects.",
  "not_applicable": na}
(V / "MANIFEST.json").write_text(json.dumps(man, indent=1))
print(len(checks), "checks,", len(na), "not applicable")
