"""Re-run the current checks against every confirmed seeded change under seeded/ and refresh meta.json["detected_by"].

usage: seed_recheck.py [--jobs N] [--tier quick] [seed-dir-name ...]
The patch is applied in a scratch worktree of /repo's HEAD (outside /repo and /verif, removed afterwards); the check runs
in private mode (VERIF_REPO).  The demonstration and the test-suite are not re-run (seed_confirm.py did that)."""
from __future__ import annotations

import concurrent.futures as cf
import json
import os
import pathlib
import shutil
import subprocess
import sys
import tempfile

VERIF = pathlib.Path(__file__).resolve().parent.parent


def sh(cmd, **kw):
    p = subprocess.run(cmd, stdout=subprocess.PIPE, stderr=subprocess.STDOUT, text=True, errors="replace", **kw)
    return p.returncode, p.stdout


def one(d: pathlib.Path, tier: str):
    meta = json.loads((d / "meta.json").read_text())
    prop = meta.get("property") or d.name.split("-")[0]
    wt = pathlib.Path(tempfile.mkdtemp(prefix=f"recheck-{d.name}-"))
    wt.rmdir()
    head = sh(["git", "-C", "/repo", "rev-parse", "--short", "HEAD"])[1].strip()
    try:
        rc, out = sh(["git", "-C", "/repo", "worktree", "add", "-q", str(wt), "HEAD"])
        if rc:
            return d.name, "worktree failed: " + out[-200:]
        rc, out = sh(["git", "-C", str(wt), "apply", str(d / "patch.diff")])
        if rc:
            meta["recheck"] = {"head": head, "patch_applies": False, "note": out[-300:]}
            (d / "meta.json").write_text(json.dumps(meta, indent=1))
            return d.name, "patch no longer applies"
        checks = list((meta.get("detected_by") or {prop: 0}).keys()) or [prop]
        det = {}
        for c in checks:
            env = dict(os.environ, VERIF_REPO=str(wt))
            rc, out = sh([str(VERIF / "check"), c, "--tier", tier], env=env, cwd=str(VERIF), timeout=3600)
            viol = [l for l in out.splitlines() if l.startswith("VIOLATION")]
            det[c] = {"exit": rc, "violation_lines": len(viol), "no_failing_input_found": bool(viol) and all("no-failing-input-found" in l for l in viol),
                      "summary": next((l for l in out.splitlines() if l.startswith(f"[{c}] tier")), ""),
                      "broken": [l for l in out.splitlines() if "BROKEN" in l][:4]}
        meta["detected_by"] = det
        meta["recheck"] = {"head": head, "patch_applies": True, "tier": tier}
        (d / "meta.json").write_text(json.dumps(meta, indent=1))
        return d.name, " ".join(f"{c}:exit={v['exit']},viol={v['violation_lines']}" for c, v in det.items())
    finally:
        sh(["git", "-C", "/repo", "worktree", "remove", "--force", str(wt)])
        shutil.rmtree(wt, ignore_errors=True)


def main():
    args = sys.argv[1:]
    jobs, tier, names = 4, "quick", []
    while args:
        a = args.pop(0)
        if a == "--jobs":
            jobs = int(args.pop(0))
        elif a == "--tier":
            tier = args.pop(0)
        else:
            names.append(a)
    dirs = sorted(p for p in (VERIF / "seeded").iterdir() if (p / "meta.json").exists() and (not names or p.name in names))
    with cf.ThreadPoolExecutor(jobs) as ex:
        for name, res in ex.map(lambda d: one(d, tier), dirs):
            print(name, res, flush=True)


if __name__ == "__main__":
    main()
