"""Run the current checks against every behaviour-preserving change under harmless/ (patch.diff + meta.json, written by fresh
sub-agents who were asked for refactorings that do NOT change behaviour) and record the outcome in meta.json["check"].
A check that exits 1 here raises an alarm on code where the property still holds; the only alarms that are acceptable are
`no-failing-input-found` ones (a generator/translator/tie lemma that can no longer rebuild or re-prove the model from the
restructured source) — an alarm with a failing input would be a false alarm of an oracle and must be fixed in the machinery.

usage: harmless_check.py [--jobs N] [name ...]"""
from __future__ import annotations

import concurrent.futures as cf
import json
import os
import pathlib
import shutil
import subprocess
import sys
import tempfile

VERIF = pathlib.Path(__file__).resolve().parent.parent


def sh(cmd, **kw):
    p = subprocess.run(cmd, stdout=subprocess.PIPE, stderr=subprocess.STDOUT, text=True, errors="replace", **kw)
    return p.returncode, p.stdout


def one(d: pathlib.Path):
    meta = json.loads((d / "meta.json").read_text())
    prop = d.name.split("-")[0]
    wt = pathlib.Path(tempfile.mkdtemp(prefix=f"harmless-{d.name}-"))
    wt.rmdir()
    head = sh(["git", "-C", "/repo", "rev-parse", "--short", "HEAD"])[1].strip()
    try:
        rc, out = sh(["git", "-C", "/repo", "worktree", "add", "-q", str(wt), "HEAD"])
        if rc:
            return d.name, "worktree failed"
        rc, out = sh(["git", "-C", str(wt), "apply", str(d / "patch.diff")])
        if rc:
            meta["check"] = {"head": head, "patch_applies": False}
        else:
            rc, out = sh([str(VERIF / "check"), prop, "--tier", "quick"], env=dict(os.environ, VERIF_REPO=str(wt)), cwd=str(VERIF), timeout=3600)
            viol = [l for l in out.splitlines() if l.startswith("VIOLATION")]
            meta["check"] = {"head": head, "patch_applies": True, "exit": rc, "violation_lines": len(viol),
                             "with_failing_input": sum(1 for l in viol if "no-failing-input-found" not in l),
                             "broken": [l[:300] for l in out.splitlines() if "BROKEN" in l][:3]}
        (d / "meta.json").write_text(json.dumps(meta, indent=1))
        c = meta["check"]
        return d.name, ("patch no longer applies" if not c["patch_applies"] else f"exit={c['exit']} with_failing_input={c['with_failing_input']} {' | '.join(c['broken'])[:200]}")
    finally:
        sh(["git", "-C", "/repo", "worktree", "remove", "--force", str(wt)])
        shutil.rmtree(wt, ignore_errors=True)


def main():
    args = sys.argv[1:]
    jobs, names = 4, []
    while args:
        a = args.pop(0)
        if a == "--jobs":
            jobs = int(args.pop(0))
        else:
            names.append(a)
    dirs = sorted(p for p in (VERIF / "harmless").iterdir() if (p / "meta.json").exists() and (not names or p.name in names))
    with cf.ThreadPoolExecutor(jobs) as ex:
        for name, res in ex.map(one, dirs):
            print(name, res, flush=True)


if __name__ == "__main__":
    main()
