"""Gen/Decl_consts.v: constants of capellambse/decl.py read from the source with `ast`.

  OPERATIONS      order of the instruction operations in `_OPERATIONS` (op codes, see OPCODES)
  DUMP_TAGS       YDMDumper.add_representer(<Type>, YDMDumper.<method>) + the tag literal used by that method
  LOAD_TAGS       YDMLoader.add_constructor("<tag>", YDMLoader.<method>) + the marker type the method returns
  NEWOBJ_*        shape facts about represent_newobj / construct_newobj (which key carries the type hint,
                  whether the dumper writes it only for a truthy hint, whether the loader requires it)
Fails closed (raises) when the source no longer has the expected shape.
"""
from __future__ import annotations

import ast
import pathlib

OUTPUTS = ["Decl_consts.v"]
OPCODES = {"create": 0, "extend": 1, "set": 2, "sync": 3, "delete": 4}
MARKERS = {"Promise": 0, "UUIDReference": 1, "NewObject": 2, "FindBy": 3}


def coq_str(s: str) -> str:
    return "[" + ";".join(str(ord(c)) for c in s) + "]%N" if s else "(@nil N)"


class Shape(Exception):
    pass


def _find_assign(mod: ast.Module, name: str) -> ast.expr:
    for n in mod.body:
        if isinstance(n, ast.Assign) and len(n.targets) == 1 and isinstance(n.targets[0], ast.Name) and n.targets[0].id == name:
            return n.value
    raise Shape(f"no top-level assignment to {name}")


def _class(mod: ast.Module, name: str) -> ast.ClassDef:
    for n in mod.body:
        if isinstance(n, ast.ClassDef) and n.name == name:
            return n
    raise Shape(f"no class {name}")


def _method(cls: ast.ClassDef, name: str) -> ast.FunctionDef:
    for n in cls.body:
        if isinstance(n, ast.FunctionDef) and n.name == name:
            return n
    raise Shape(f"no method {cls.name}.{name}")


def _func(mod: ast.Module, name: str) -> ast.FunctionDef:
    for n in mod.body:
        if isinstance(n, ast.FunctionDef) and n.name == name:
            return n
    raise Shape(f"no function {name}")


def generate(repo: pathlib.Path) -> dict[str, str]:
    src = (repo / "capellambse" / "decl.py").read_text()
    mod = ast.parse(src)

    # ---- _OPERATIONS
    v = _find_assign(mod, "_OPERATIONS")
    if not (isinstance(v, ast.Call) and ast.unparse(v.func) == "collections.OrderedDict" and len(v.args) == 1
            and isinstance(v.args[0], ast.Tuple)):
        raise Shape("_OPERATIONS is not collections.OrderedDict((...))")
    ops = []
    for el in v.args[0].elts:
        if not (isinstance(el, ast.Tuple) and len(el.elts) == 2 and isinstance(el.elts[0], ast.Constant)
                and isinstance(el.elts[1], ast.Name)):
            raise Shape("_OPERATIONS entry shape")
        name, fn = el.elts[0].value, el.elts[1].id
        if name not in OPCODES:
            raise Shape(f"unknown operation {name!r}")
        if fn != f"_operate_{name}":
            raise Shape(f"operation {name!r} is bound to {fn}")
        ops.append(OPCODES[name])
    if len(set(ops)) != len(ops):
        raise Shape("duplicate operation")
    # `create` must still be an alias of `extend`
    fc = _func(mod, "_operate_create")
    body = [s for s in fc.body if not (isinstance(s, ast.Expr) and isinstance(s.value, ast.Constant))]
    if not (len(body) == 1 and isinstance(body[0], ast.Expr) and isinstance(body[0].value, ast.YieldFrom)
            and ast.unparse(body[0].value.value) == "_operate_extend(promises, parent, creations)"):
        raise Shape("_operate_create is no longer `yield from _operate_extend(...)`")

    # ---- dumper: representer registrations + tag literal of each method
    dumper = _class(mod, "YDMDumper")
    loader = _class(mod, "YDMLoader")
    dump_tags: list[tuple[int, str]] = []
    load_tags: list[tuple[str, int]] = []
    for n in mod.body:
        if not (isinstance(n, ast.Expr) and isinstance(n.value, ast.Call)):
            continue
        call = n.value
        f = ast.unparse(call.func)
        if f == "YDMDumper.add_representer":
            ty, meth = call.args
            if not (isinstance(ty, ast.Name) and ty.id in MARKERS and isinstance(meth, ast.Attribute)):
                raise Shape("add_representer arguments")
            m = _method(dumper, meth.attr)
            tags = [c.args[0].value for c in ast.walk(m) if isinstance(c, ast.Call) and isinstance(c.func, ast.Attribute)
                    and c.func.attr in ("represent_scalar", "represent_mapping") and c.args and isinstance(c.args[0], ast.Constant)]
            kinds = [c.func.attr for c in ast.walk(m) if isinstance(c, ast.Call) and isinstance(c.func, ast.Attribute)
                     and c.func.attr in ("represent_scalar", "represent_mapping")]
            if len(tags) != 1:
                raise Shape(f"{meth.attr}: expected exactly one represent_* call with a literal tag")
            want = "represent_scalar" if ty.id in ("Promise", "UUIDReference") else "represent_mapping"
            if kinds != [want]:
                raise Shape(f"{meth.attr}: expected {want}")
            dump_tags.append((MARKERS[ty.id], tags[0]))
        elif f == "YDMLoader.add_constructor":
            tag, meth = call.args
            if not (isinstance(tag, ast.Constant) and isinstance(meth, ast.Attribute)):
                raise Shape("add_constructor arguments")
            m = _method(loader, meth.attr)
            rets = [r.value for r in ast.walk(m) if isinstance(r, ast.Return) and r.value is not None]
            if len(rets) != 1 or not isinstance(rets[0], ast.Call) or not isinstance(rets[0].func, ast.Name) \
                    or rets[0].func.id not in MARKERS:
                raise Shape(f"{meth.attr}: expected a single `return <Marker>(...)`")
            load_tags.append((tag.value, MARKERS[rets[0].func.id]))
    if sorted(k for k, _ in dump_tags) != [0, 1, 2, 3] or sorted(k for _, k in load_tags) != [0, 1, 2, 3]:
        raise Shape("expected one representer and one constructor per marker type")

    # ---- new-object type hint handling
    rn = _method(dumper, "represent_newobj")
    guarded = None
    key_d = None
    for s in ast.walk(rn):
        if isinstance(s, ast.Assign) and isinstance(s.targets[0], ast.Subscript) and ast.unparse(s.targets[0].value) == "attrs" \
                and ast.unparse(s.value) == "data._type_hint":
            key_d = s.targets[0].slice.value
    for s in rn.body:
        if isinstance(s, ast.If) and any(isinstance(x, ast.Assign) and ast.unparse(x.value) == "data._type_hint" for x in s.body):
            if ast.unparse(s.test) != "data._type_hint":
                raise Shape("represent_newobj: unexpected guard on the type hint")
            guarded = True
        elif isinstance(s, ast.Assign) and ast.unparse(s.value) == "data._type_hint":
            guarded = False
    if key_d is None or guarded is None:
        raise Shape("represent_newobj: cannot find `attrs[<key>] = data._type_hint`")
    cn = _method(loader, "construct_newobj")
    key_l = None
    required = False
    for s in ast.walk(cn):
        if isinstance(s, ast.Try):
            for x in s.body:
                if isinstance(x, ast.Assign) and isinstance(x.value, ast.Call) and ast.unparse(x.value.func) == "data.pop" \
                        and len(x.value.args) == 1 and isinstance(x.value.args[0], ast.Constant):
                    key_l = x.value.args[0].value
                    required = any(isinstance(h.type, ast.Name) and h.type.id == "KeyError"
                                   and any(isinstance(r, ast.Raise) for r in h.body) for h in s.handlers)
    if key_l is None:
        for s in ast.walk(cn):
            if isinstance(s, ast.Call) and ast.unparse(s.func) == "data.pop" and s.args and isinstance(s.args[0], ast.Constant):
                key_l = s.args[0].value
                required = len(s.args) == 1
    if key_l is None:
        raise Shape("construct_newobj: cannot find data.pop(<key>)")

    # ---- helpers.RE_VALID_UUID: a single character class repeated with +
    hsrc = (repo / "capellambse" / "helpers.py").read_text()
    hv = _find_assign(ast.parse(hsrc), "RE_VALID_UUID")
    if not (isinstance(hv, ast.Call) and ast.unparse(hv.func) == "re.compile" and len(hv.args) == 1
            and isinstance(hv.args[0], ast.Constant) and isinstance(hv.args[0].value, str)):
        raise Shape("RE_VALID_UUID is not re.compile(<literal>)")
    pat = hv.args[0].value
    if not (pat.startswith("[") and pat.endswith("]+") and "[" not in pat[1:] and "]" not in pat[1:-2]
            and "\\" not in pat and not pat.startswith("[^")):
        raise Shape(f"RE_VALID_UUID pattern {pat!r} is not a plain character class with +")
    body_, ranges, i = pat[1:-2], [], 0
    while i < len(body_):
        if i + 2 < len(body_) and body_[i + 1] == "-":
            ranges.append((ord(body_[i]), ord(body_[i + 2])))
            i += 3
        else:
            ranges.append((ord(body_[i]), ord(body_[i])))
            i += 1
    mfn = _func(ast.parse(hsrc), "is_uuid_string")
    if "RE_VALID_UUID.fullmatch(string)" not in ast.unparse(mfn) or "isinstance(string, str)" not in ast.unparse(mfn):
        raise Shape("is_uuid_string no longer is `isinstance(str) and RE_VALID_UUID.fullmatch`")

    out = ["(* GENERATED by tools/gen_decl.py from capellambse/decl.py — do not edit *)",
           "From Coq Require Import NArith List Bool.", "Import ListNotations.", "Open Scope N_scope.",
           "(* op codes: create=0 extend=1 set=2 sync=3 delete=4 *)",
           "Definition OPERATIONS : list N := [" + ";".join(str(o) for o in ops) + "].",
           "(* marker codes: Promise=0 UUIDReference=1 NewObject=2 FindBy=3 *)",
           "Definition DUMP_TAGS : list (N * list N) := [" + ";".join(f"({k}, {coq_str(t)})" for k, t in dump_tags) + "].",
           "Definition LOAD_TAGS : list (list N * N) := [" + ";".join(f"({coq_str(t)}, {k})" for t, k in load_tags) + "].",
           f"Definition NEWOBJ_DUMP_KEY : list N := {coq_str(key_d)}.",
           f"Definition NEWOBJ_LOAD_KEY : list N := {coq_str(key_l)}.",
           f"Definition NEWOBJ_DUMP_ONLY_IF_TRUTHY : bool := {'true' if guarded else 'false'}.",
           f"Definition NEWOBJ_LOAD_REQUIRED : bool := {'true' if required else 'false'}.",
           "(* helpers.RE_VALID_UUID = [ranges]+ *)",
           "Definition UUID_RANGES : list (N * N) := [" + ";".join(f"({a}, {b})" for a, b in ranges) + "].",
           ""]
    return {"Decl_consts.v": "\n".join(out)}
