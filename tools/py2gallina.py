"""Fail-closed Python-AST -> Gallina translator for small pure functions.

Subset (anything else raises Untranslatable and the tie is reported broken):
  statements : x = e | x: T = e | for v in e: ... | if/elif/else | x.append(e)
               | x.pop() (only under `with contextlib.suppress(IndexError)` or right
               after a truthiness test of x) | return e (last statement)
               | raise E(...) / yield e  (function is then translated in the
               result monad:  state = Ok vars | Err code ; yields accumulate)
  expressions: names, str/int/bool/None constants, ==, !=, in (substring on str),
               and/or/not, truthiness of typed names, f-strings of str values,
               and the primitive patterns listed in PRIMS (matched structurally).
Loops become [fold_left] over the tuple of variables assigned in the body.
Types of locals are supplied per target (TYPES) — unknown type => fail closed.
"""
from __future__ import annotations

import ast
import hashlib
import textwrap


class Untranslatable(Exception):
    pass


def _parse_expr(src: str) -> ast.AST:
    return ast.parse(src, mode="eval").body


def _match(pat: ast.AST, node: ast.AST, env: dict) -> bool:
    if isinstance(pat, ast.Name) and pat.id.startswith("_h_"):
        key = pat.id[3:]
        if key in env:
            return ast.dump(env[key]) == ast.dump(node)
        env[key] = node
        return True
    if type(pat) is not type(node):
        return False
    for f in pat._fields:
        a, b = getattr(pat, f, None), getattr(node, f, None)
        if f == "ctx":
            continue
        if isinstance(a, list):
            if not isinstance(b, list) or len(a) != len(b):
                return False
            if not all(_match(x, y, env) if isinstance(x, ast.AST) else x == y for x, y in zip(a, b)):
                return False
        elif isinstance(a, ast.AST):
            if not isinstance(b, ast.AST) or not _match(a, b, env):
                return False
        elif a != b:
            return False
    return True


# (python pattern with _h_<name> holes, gallina template, result type)
PRIMS = [
    ("pathlib.PurePosixPath('/', _h_a, _h_b)", "(py_join_root {a} {b})", "ppath"),
    ("_h_x.parts[1:]", "(py_parts1 {x})", "list[str]"),
    ("_h_x.parts", "(py_parts {x})", "list[str]"),
    ("pathlib.PurePosixPath(*reversed(_h_x))", "(py_of_parts (rev {x}))", "ppath"),
    ("pathlib.PurePosixPath(*_h_x)", "(py_of_parts {x})", "ppath"),
    ("list(reversed(_h_x.parts))", "(rev (py_parts {x}))", "list[str]"),
    ("_h_x[-1]", "(py_last {x})", "str"),
    ("_h_x.split()", "(py_split_ws {x})", "list[str]"),
    ("CROSS_FRAGMENT_LINK.fullmatch(_h_x)", "(py_link_fullmatch {x})", "bool"),
]
PRIMS = [(_parse_expr(p), g, ty) for p, g, ty in PRIMS]

ERRCODES = {"ValueError": "E_ValueError", "KeyError": "E_KeyError", "IndexError": "E_IndexError",
            "TypeError": "E_TypeError", "RuntimeError": "E_RuntimeError"}


class Tr:
    def __init__(self, fn: ast.FunctionDef, types: dict[str, str]):
        self.fn = fn
        self.types = dict(types)
        self.monadic = any(isinstance(n, (ast.Raise, ast.Yield)) for n in ast.walk(fn))
        self.yields = any(isinstance(n, ast.Yield) for n in ast.walk(fn))
        self.nonempty: set[str] = set()

    # ---------------- expressions
    def ty(self, e: ast.AST) -> str:
        if isinstance(e, ast.Constant):
            return {str: "str", bool: "bool", int: "int", type(None): "none"}[type(e.value)]
        if isinstance(e, ast.Name):
            if e.id not in self.types:
                raise Untranslatable(f"no type for {e.id}")
            return self.types[e.id]
        if isinstance(e, ast.JoinedStr):
            return "str"
        if isinstance(e, (ast.Compare, ast.BoolOp)) or (isinstance(e, ast.UnaryOp) and isinstance(e.op, ast.Not)):
            return "bool"
        for pat, _, ty in PRIMS:
            if _match(pat, e, {}):
                return ty
        raise Untranslatable("type of " + ast.dump(e)[:80])

    def truth(self, e: ast.AST) -> str:
        ty = self.ty(e)
        if ty == "bool":
            return self.expr(e)
        if ty == "str":
            return f"(negb (str_eqb {self.expr(e)} []))"
        if ty.startswith("list"):
            return f"(py_nonempty {self.expr(e)})"
        raise Untranslatable("truthiness of " + ty)

    def expr(self, e: ast.AST) -> str:
        for pat, tmpl, _ in PRIMS:
            env: dict = {}
            if _match(pat, e, env):
                return tmpl.format(**{k: self.expr(v) for k, v in env.items()})
        if isinstance(e, ast.Name):
            if e.id not in self.types:
                raise Untranslatable(f"unknown name {e.id}")
            return "v_" + e.id
        if isinstance(e, ast.Constant):
            v = e.value
            if isinstance(v, bool):
                return "true" if v else "false"
            if isinstance(v, str):
                return "[" + ";".join(str(ord(c)) for c in v) + "]%N" if v else "(@nil N)"
            if isinstance(v, int):
                return f"({v})%Z"
            raise Untranslatable("constant " + repr(v))
        if isinstance(e, ast.Compare) and len(e.ops) == 1:
            a, b, op = e.left, e.comparators[0], e.ops[0]
            ta, tb = self.ty(a), self.ty(b)
            if isinstance(op, (ast.Eq, ast.NotEq)) and ta == tb == "str":
                r = f"(str_eqb {self.expr(a)} {self.expr(b)})"
                return r if isinstance(op, ast.Eq) else f"(negb {r})"
            if isinstance(op, (ast.In, ast.NotIn)) and ta == tb == "str":
                r = f"(py_str_contains {self.expr(b)} {self.expr(a)})"
                return r if isinstance(op, ast.In) else f"(negb {r})"
            raise Untranslatable("compare " + ast.dump(e)[:80])
        if isinstance(e, ast.BoolOp):
            op = "&&" if isinstance(e.op, ast.And) else "||"
            return "(" + f" {op} ".join(self.truth(v) for v in e.values) + ")"
        if isinstance(e, ast.UnaryOp) and isinstance(e.op, ast.Not):
            return f"(negb {self.truth(e.operand)})"
        if isinstance(e, ast.JoinedStr):
            parts = []
            for v in e.values:
                if isinstance(v, ast.Constant) and isinstance(v.value, str):
                    parts.append(self.expr(v))
                elif isinstance(v, ast.FormattedValue) and v.conversion == -1 and v.format_spec is None and self.ty(v.value) == "str":
                    parts.append(self.expr(v.value))
                else:
                    raise Untranslatable("f-string part")
            return "(" + " ++ ".join(parts) + ")"
        raise Untranslatable("expression " + ast.dump(e)[:100])

    # ---------------- statements
    def assigned(self, body: list[ast.stmt]) -> list[str]:
        out: list[str] = []

        def add(n):
            if n not in out:
                out.append(n)
        for s in body:
            for n in ast.walk(s):
                if isinstance(n, (ast.Assign, ast.AnnAssign)):
                    tg = n.targets[0] if isinstance(n, ast.Assign) else n.target
                    if not isinstance(tg, ast.Name):
                        raise Untranslatable("assignment target")
                    add(tg.id)
                elif isinstance(n, ast.Expr) and isinstance(n.value, ast.Call) and isinstance(n.value.func, ast.Attribute) \
                        and isinstance(n.value.func.value, ast.Name) and n.value.func.attr in ("append", "pop"):
                    add(n.value.func.value.id)
                elif isinstance(n, ast.Yield):
                    add("_out")
                elif isinstance(n, ast.For):
                    pass
        return out

    def tup(self, names: list[str]) -> str:
        if not names:
            return "tt"
        return "(" + ", ".join("v_" + n for n in names) + ")"

    def pat(self, names: list[str]) -> str:
        if not names:
            return "_"
        if len(names) == 1:
            return "v_" + names[0]
        return "'" + self.tup(names)

    def mpat(self, names: list[str]) -> str:
        return self.pat(names).lstrip("'")

    def ret_state(self, names: list[str]) -> str:
        return f"(Ok {self.tup(names)})" if self.monadic else self.tup(names)

    def block(self, body: list[ast.stmt], names: list[str], k: str | None = None) -> str:
        """Translate statements; the value is the tuple of `names` after the block
        (or `k`, a continuation expression, when given)."""
        if not body:
            return k if k is not None else self.ret_state(names)
        s, rest = body[0], body[1:]
        cont = lambda: self.block(rest, names, k)
        if isinstance(s, (ast.Assign, ast.AnnAssign)):
            tg = s.targets[0] if isinstance(s, ast.Assign) else s.target
            if isinstance(s, ast.AnnAssign):
                self.types.setdefault(tg.id, ast.unparse(s.annotation))
            if s.value is None:
                raise Untranslatable("bare annotation")
            if isinstance(s.value, ast.List) and not s.value.elts:
                val = "[]"
            else:
                val = self.expr(s.value)
                self.types.setdefault(tg.id, self.ty(s.value))
            self.nonempty.discard(tg.id)
            return f"let v_{tg.id} := {val} in\n{cont()}"
        if isinstance(s, ast.Expr) and isinstance(s.value, ast.Call) and isinstance(s.value.func, ast.Attribute) \
                and isinstance(s.value.func.value, ast.Name):
            x, m = s.value.func.value.id, s.value.func.attr
            if m == "append" and len(s.value.args) == 1:
                self.nonempty.add(x)
                return f"let v_{x} := v_{x} ++ [{self.expr(s.value.args[0])}] in\n{cont()}"
            if m == "pop" and not s.value.args:
                if x not in self.nonempty:
                    raise Untranslatable(f"{x}.pop() may raise IndexError here")
                self.nonempty.discard(x)
                return f"let v_{x} := removelast v_{x} in\n{cont()}"
            raise Untranslatable("method call " + m)
        if isinstance(s, ast.Expr) and isinstance(s.value, ast.Yield):
            return f"let v__out := v__out ++ [{self.expr(s.value.value)}] in\n{cont()}"
        if isinstance(s, ast.Expr) and isinstance(s.value, ast.Constant) and isinstance(s.value.value, str):
            return cont()  # docstring
        if isinstance(s, ast.With):
            it = s.items[0].context_expr
            if len(s.items) == 1 and ast.unparse(it) == "contextlib.suppress(IndexError)" and len(s.body) == 1:
                b = s.body[0]
                if isinstance(b, ast.Expr) and isinstance(b.value, ast.Call) and ast.unparse(b.value.func).endswith(".pop") \
                        and isinstance(b.value.func.value, ast.Name) and not b.value.args:
                    x = b.value.func.value.id
                    return f"let v_{x} := removelast v_{x} in (* pop, IndexError suppressed *)\n{cont()}"
            raise Untranslatable("with-statement")
        if isinstance(s, ast.Raise):
            if not (isinstance(s.exc, ast.Call) and isinstance(s.exc.func, ast.Name) and s.exc.func.id in ERRCODES):
                raise Untranslatable("raise form")
            return f"(Err {ERRCODES[s.exc.func.id]})"
        if isinstance(s, ast.If):
            mod = [n for n in names if n in self.assigned(s.body + s.orelse)]
            saved = set(self.nonempty)
            test = self.truth(s.test)
            ne = set(saved)
            if isinstance(s.test, ast.Name) and self.types.get(s.test.id, "").startswith("list"):
                ne.add(s.test.id)
            if isinstance(s.test, ast.BoolOp) and isinstance(s.test.op, ast.And):
                for v in s.test.values:
                    if isinstance(v, ast.Name) and self.types.get(v.id, "").startswith("list"):
                        ne.add(v.id)
            self.nonempty = set(ne)
            a = self.block(s.body, mod)
            self.nonempty = set(saved)
            b = self.block(s.orelse, mod)
            self.nonempty = {n for n in saved if n not in mod}
            if self.monadic:
                return (f"match (if {test} then\n{textwrap.indent(a, '  ')}\nelse\n{textwrap.indent(b, '  ')}) with\n"
                        f"| Err e => Err e\n| Ok {self.mpat(mod)} =>\n{cont()}\nend")
            return (f"let {self.pat(mod)} := (if {test} then\n{textwrap.indent(a, '  ')}\nelse\n{textwrap.indent(b, '  ')}) in\n{cont()}")
        if isinstance(s, ast.For):
            if s.orelse or not isinstance(s.target, ast.Name):
                raise Untranslatable("for form")
            for n in ast.walk(s):
                if isinstance(n, (ast.Break, ast.Continue, ast.Return)):
                    raise Untranslatable("break/continue/return in loop")
            mod = [n for n in names if n in self.assigned(s.body)]
            it = self.expr(s.iter)
            ity = self.ty(s.iter)
            if not ity.startswith("list["):
                raise Untranslatable("loop over " + ity)
            self.types[s.target.id] = ity[5:-1]
            saved = set(self.nonempty)
            self.nonempty = set()
            mod = [n for n in mod if n != s.target.id]   # the loop variable is local to one iteration
            body = self.block(s.body, mod + [s.target.id], k=self.ret_state(mod))
            self.nonempty = {n for n in saved if n not in mod}
            v = "v_" + s.target.id
            vt = GTYPES[self.types[s.target.id]]
            st_ty = " * ".join(GTYPES[self.types[n]] for n in mod) if mod else "unit"
            if self.monadic:
                return (f"match fold_left (fun (st : result ({st_ty})) ({v} : {vt}) => match st with Err e => Err e | Ok {self.mpat(mod)} =>\n"
                        f"{textwrap.indent(body, '  ')}\n  end) {it} (Ok {self.tup(mod)}) with\n"
                        f"| Err e => Err e\n| Ok {self.mpat(mod)} =>\n{cont()}\nend")
            return (f"let {self.pat(mod)} := fold_left (fun (st : {st_ty}) ({v} : {vt}) => let {self.pat(mod)} := st in\n"
                    f"{textwrap.indent(body, '  ')}) {it} {self.tup(mod)} in\n{cont()}")
        if isinstance(s, ast.Return) and not rest and k is None:
            r = self.expr(s.value)
            return f"(Ok {r})" if self.monadic else r
        raise Untranslatable("statement " + type(s).__name__)

    def function(self, name: str) -> str:
        args = [a.arg for a in self.fn.args.args + self.fn.args.kwonlyargs]
        for a in args:
            if a not in self.types:
                raise Untranslatable(f"no type for parameter {a}")
        body = list(self.fn.body)
        all_names = self.assigned(body)
        for n in all_names:
            if n != "_out" and n not in self.types:
                # may be set by annotation/inference during translation
                pass
        if self.yields:
            self.types["_out"] = "list[str]"
            text = "let v__out := [] in\n" + self.block(body, all_names, k="(Ok v__out)")
        else:
            text = self.block(body, all_names)
        params = " ".join(f"(v_{a} : {GTYPES[self.types[a]]})" for a in args)
        return f"Definition {name} {params} :=\n{textwrap.indent(text, '  ')}."


GTYPES = {"str": "str", "list[str]": "list str", "bool": "bool", "ppath": "ppath", "int": "Z"}


def find_function(tree: ast.Module, qual: str) -> ast.FunctionDef:
    cur: list[ast.stmt] = tree.body
    node = None
    for part in qual.split("."):
        node = None
        stack = list(cur)
        while stack:
            n = stack.pop(0)
            if isinstance(n, (ast.FunctionDef, ast.ClassDef)) and n.name == part:
                node = n
                break
            if isinstance(n, (ast.If, ast.Try)):  # e.g. platform switches
                stack.extend(getattr(n, "body", []) + getattr(n, "orelse", []))
        if node is None:
            raise Untranslatable(f"{qual}: {part} not found")
        cur = node.body
    if not isinstance(node, ast.FunctionDef):
        raise Untranslatable(f"{qual} is not a function")
    return node


def translate(source: str, qual: str, gname: str, types: dict[str, str]) -> str:
    fn = find_function(ast.parse(source), qual)
    digest = hashlib.sha1(ast.dump(fn).encode()).hexdigest()[:12]
    return f"(* translated from {qual} (ast sha1 {digest}) *)\n" + Tr(fn, types).function(gname)
