"""Fail-closed Python-AST -> Gallina translator for small pure functions.

Anything outside the subset below raises Untranslatable; the generator then fails and the
tie is reported broken.  The output is a *normal form*: every function becomes a decision
tree (if/else) whose leaves are the outcomes, every assignment a `let`, every loop one loop
combinator applied to an explicit step function over an explicit state tuple, so that
differently written but equivalent sources give terms whose step functions are equal by
case analysis + computation (what Proofs/Ties.v relies on).

Subset
  statements : x = e | x: T = e | a, b = e1, e2 | x += e | for <target> in <iterable>: ...
               (target: name or nested tuple of names; `continue` and `break` allowed)
               | if/elif/else | x.append(e) | x.extend(e) | x.pop() (only where x is known to be
               non-empty, or under `with contextlib.suppress(IndexError)` / `try..except
               IndexError: pass` as the only statement) | return e | raise E(...) | yield e
               | pass | docstrings | a nested `def h(..): return e` / `h = lambda ..: e` /
               `def h(..): raise E(..)` helper (inlined at its call sites)
  expressions: local names, module-level string constants, str/int/bool constants, ==, != (str,
               int), <,<=,>,>= (int), in / not in (substring on str), and/or/not (truthiness of
               typed operands), e1 if c else e2, +, - (int), + (str, list), list * int,
               len(), max(,), min(,), list()/tuple(), x[a:], x[:b], x[a:b], x[-1] (x known
               non-empty), [..] literals with *splices, f-strings and "..".format(..) of str
               values, calls of nested helpers, and the library patterns in PRIMS.
  iterables  : a list value, reversed(..), zip(a, b[, strict=False]), enumerate(x[, k]).
Loops (state = the variables that exist before the loop and are assigned in its body, ordered
canonically by Gallina type, then by first definition):
  pure function, no break : fold_left step xs init           step : S -> X -> S
  pure function, break    : py_forb  step xs init            step : S -> X -> S * bool(stop)
  function that may raise
  or yields               : py_for   step xs init            step : S -> X -> ctl S ; result S
Functions that raise or yield are translated in the result monad (Ok v | Err code); yields
accumulate in the list `_out`.
Types of parameters are supplied per target; locals are inferred (flow-sensitively).
"""
from __future__ import annotations

import ast
import hashlib
import string
import textwrap


class Untranslatable(Exception):
    pass


# ----------------------------------------------------------------------------- types
# atoms "str" "bool" "int" "ppath" | ("list", T) | ("tuple", T1, .., Tn) | ("var", n)
LSTR = ("list", "str")


def parse_type(src: str):
    try:
        node = ast.parse(src, mode="eval").body
    except SyntaxError as e:
        raise Untranslatable(f"type {src!r}") from e
    return _type_of_ann(node)


def _type_of_ann(n: ast.AST):
    if isinstance(n, ast.Name) and n.id in ("str", "bool", "int", "ppath"):
        return n.id
    if isinstance(n, ast.Attribute) and ast.unparse(n) == "pathlib.PurePosixPath":
        return "ppath"
    if isinstance(n, ast.Subscript) and isinstance(n.value, ast.Name) and n.value.id in ("list", "tuple"):
        sl = n.slice
        if n.value.id == "list":
            return ("list", _type_of_ann(sl))
        if isinstance(sl, ast.Tuple) and len(sl.elts) == 2 and isinstance(sl.elts[1], ast.Constant) and sl.elts[1].value is Ellipsis:
            return ("list", _type_of_ann(sl.elts[0]))      # tuple[T, ...] used as an immutable sequence
        if isinstance(sl, ast.Tuple) and len(sl.elts) >= 2:
            return ("tuple", *[_type_of_ann(x) for x in sl.elts])
    raise Untranslatable("type annotation " + ast.unparse(n)[:60])


def _parse_expr(src: str) -> ast.AST:
    return ast.parse(src, mode="eval").body


def _match(pat: ast.AST, node: ast.AST, env: dict) -> bool:
    if isinstance(pat, ast.Name) and pat.id.startswith("_h_"):
        key = pat.id[3:]
        if key in env:
            return ast.dump(env[key]) == ast.dump(node)
        env[key] = node
        return True
    if type(pat) is not type(node):
        return False
    for f in pat._fields:
        a, b = getattr(pat, f, None), getattr(node, f, None)
        if f == "ctx":
            continue
        if isinstance(a, list):
            if not isinstance(b, list) or len(a) != len(b):
                return False
            if not all(_match(x, y, env) if isinstance(x, ast.AST) else x == y for x, y in zip(a, b)):
                return False
        elif isinstance(a, ast.AST):
            if not isinstance(b, ast.AST) or not _match(a, b, env):
                return False
        elif a != b:
            return False
    return True


# (python pattern with _h_<name> holes, gallina template, result type, required hole types)
PRIMS = [
    ("pathlib.PurePosixPath('/', _h_a, _h_b)", "(py_join_root {a} {b})", "ppath", {"a": "str", "b": "str"}),
    ("_h_x.parts[1:]", "(py_parts1 {x})", LSTR, {"x": "ppath"}),
    ("_h_x.parts", "(py_parts {x})", LSTR, {"x": "ppath"}),
    ("_h_x.split()", "(py_split_ws {x})", LSTR, {"x": "str"}),
    ("CROSS_FRAGMENT_LINK.fullmatch(_h_x)", "(py_link_fullmatch {x})", "bool", {"x": "str"}),
]
PRIMS = [(_parse_expr(p), g, ty, holes) for p, g, ty, holes in PRIMS]

ERRCODES = {"ValueError": "E_ValueError", "KeyError": "E_KeyError", "IndexError": "E_IndexError",
            "TypeError": "E_TypeError", "RuntimeError": "E_RuntimeError"}
# global names the translation gives a fixed meaning to: must be neither locals of the translated
# function nor rebound at module level
BUILTINS_USED = {"len", "max", "min", "list", "tuple", "zip", "enumerate", "reversed", "str", *ERRCODES}
MODULES_USED = {"pathlib", "contextlib"}
MAX_TEXT = 200_000


def strlit(v: str) -> str:
    return "[" + ";".join(str(ord(c)) for c in v) + "]%N" if v else "(@nil N)"


def walk_scope(node: ast.AST):
    """ast.walk that does not enter nested function/lambda/class bodies"""
    yield node
    for ch in ast.iter_child_nodes(node):
        if isinstance(ch, (ast.FunctionDef, ast.AsyncFunctionDef, ast.Lambda, ast.ClassDef)):
            if not isinstance(ch, ast.Lambda):
                yield ch      # the def statement itself (it binds a name), not its body
            continue
        yield from walk_scope(ch)


def target_names(t: ast.AST) -> list[str]:
    if isinstance(t, ast.Name):
        return [t.id]
    if isinstance(t, (ast.Tuple, ast.List)):
        out: list[str] = []
        for e in t.elts:
            out.extend(target_names(e))
        return out
    raise Untranslatable("assignment/loop target " + ast.dump(t)[:60])


class Helper:
    def __init__(self, name: str, params: list[str], kind: str, body: ast.AST, module_level: bool):
        self.name, self.params, self.kind, self.body, self.module_level = name, params, kind, body, module_level


def helper_of_def(fn: ast.FunctionDef, module_level: bool) -> Helper | None:
    a = fn.args
    if fn.decorator_list or a.vararg or a.kwarg or a.kwonlyargs or a.defaults or a.posonlyargs:
        return None
    body = [s for s in fn.body if not (isinstance(s, ast.Expr) and isinstance(s.value, ast.Constant) and isinstance(s.value.value, str))]
    if len(body) != 1:
        return None
    s = body[0]
    params = [x.arg for x in a.args]
    if isinstance(s, ast.Return) and s.value is not None:
        return Helper(fn.name, params, "expr", s.value, module_level)
    if isinstance(s, ast.Raise) and s.exc is not None and (s.cause is None or isinstance(s.cause, (ast.Name, ast.Constant))):
        return Helper(fn.name, params, "raise", s.exc, module_level)
    return None


class Module:
    """what the translated function may use from its module"""

    def __init__(self, tree: ast.Module):
        bound: dict[str, int] = {}
        self.consts: dict[str, str] = {}
        self.funcs: dict[str, Helper] = {}
        self.imports: set[str] = set()

        def bind(n: str):
            bound[n] = bound.get(n, 0) + 1
        for s in tree.body:
            if isinstance(s, ast.FunctionDef):
                h = helper_of_def(s, True)
                if h is not None:
                    self.funcs[s.name] = h
            if isinstance(s, (ast.FunctionDef, ast.AsyncFunctionDef, ast.ClassDef)):
                bind(s.name)
                continue
            for n in walk_scope(s):      # every binding at module level, also inside if/try/with/for
                if isinstance(n, (ast.FunctionDef, ast.AsyncFunctionDef, ast.ClassDef)):
                    bind(n.name)
                elif isinstance(n, (ast.Import, ast.ImportFrom)):
                    for al in n.names:
                        bind((al.asname or al.name).split(".")[0])
                        if isinstance(n, ast.Import) and al.asname is None and n is s:
                            self.imports.add(al.name)
                elif isinstance(n, ast.Name) and isinstance(n.ctx, (ast.Store, ast.Del)):
                    bind(n.id)
                elif isinstance(n, ast.ExceptHandler) and n.name:
                    bind(n.name)
                elif isinstance(n, (ast.Assign, ast.AnnAssign)) and n is s:
                    tgs = n.targets if isinstance(n, ast.Assign) else [n.target]
                    if len(tgs) == 1 and isinstance(tgs[0], ast.Name) \
                            and isinstance(n.value, ast.Constant) and isinstance(n.value.value, str):
                        self.consts[tgs[0].id] = n.value.value
        # `global X` inside any function may rebind a module name
        self.globals_written = {n for f in ast.walk(tree) if isinstance(f, ast.Global) for n in f.names}
        self.bound = bound
        self.consts = {k: v for k, v in self.consts.items() if bound.get(k) == 1 and k not in self.globals_written}
        self.funcs = {k: v for k, v in self.funcs.items() if bound.get(k) == 1 and k not in self.globals_written}


class LoopCtx:
    def __init__(self, state: list[str], entry: dict, mode: str):
        self.state, self.entry, self.mode = state, entry, mode


class Tr:
    def __init__(self, fn: ast.FunctionDef, types: dict[str, str], module: Module):
        self.fn = fn
        self.mod = module
        self.param_types = {k: parse_type(v) for k, v in types.items()}
        self.yields = any(isinstance(n, (ast.Yield, ast.YieldFrom)) for s in fn.body for n in walk_scope(s))
        self.monadic = self.yields or any(isinstance(n, ast.Raise) for n in ast.walk(fn))
        self.subst: dict[int, object] = {}
        self.saw_unresolved = False
        self.reset()

    def reset(self):
        self.vars: dict[str, tuple[str, object]] = {}     # python name -> (gallina name, type)
        self.nonempty: set[str] = set()
        self.order: dict[str, int] = {}
        self.helpers: dict[str, Helper] = {}
        self.ctx: list[LoopCtx | None] = [None]
        self.counter = 0
        self.depth = 0
        self.nvars = 0      # type variables are numbered by creation order, which is the same in every pass
        self.saw_unresolved = False

    # ---------------- environment
    def save(self):
        return dict(self.vars), set(self.nonempty), dict(self.helpers)

    def restore(self, snap):
        self.vars, self.nonempty, self.helpers = dict(snap[0]), set(snap[1]), dict(snap[2])

    def fresh(self):
        self.nvars += 1
        return ("var", self.nvars)

    def resolve(self, ty):
        while isinstance(ty, tuple) and ty[0] == "var" and ty[1] in self.subst:
            ty = self.subst[ty[1]]
        if isinstance(ty, tuple) and ty[0] in ("list", "tuple"):
            return (ty[0], *[self.resolve(x) for x in ty[1:]])
        return ty

    def unify(self, a, b, what: str):
        a, b = self.resolve(a), self.resolve(b)
        if a == b:
            return a
        if isinstance(a, tuple) and a[0] == "var":
            self.subst[a[1]] = b
            return b
        if isinstance(b, tuple) and b[0] == "var":
            self.subst[b[1]] = a
            return a
        if isinstance(a, tuple) and isinstance(b, tuple) and a[0] == b[0] and len(a) == len(b):
            return (a[0], *[self.unify(x, y, what) for x, y in zip(a[1:], b[1:])])
        raise Untranslatable(f"type mismatch in {what}: {a} vs {b}")

    def gty(self, ty, top=True) -> str:
        ty = self.resolve(ty)
        if isinstance(ty, str):
            return {"str": "str", "bool": "bool", "int": "Z", "ppath": "ppath"}[ty]
        if ty[0] == "var":
            self.saw_unresolved = True      # translate() runs another pass with what was learnt in this one
            return "_"
        if ty[0] == "list":
            r = "list " + self.gty(ty[1], False)
        else:
            r = " * ".join(self.gty(x, False) for x in ty[1:])
        return r if top else f"({r})"

    def is_list(self, ty) -> bool:
        ty = self.resolve(ty)
        return isinstance(ty, tuple) and ty[0] == "list"

    def define(self, name: str, gname: str, ty):
        self.vars[name] = (gname, ty)
        self.order.setdefault(name, len(self.order))

    # ---------------- scope analysis
    def assigned(self, body: list[ast.stmt]) -> list[str]:
        """names (re)bound or mutated by these statements, in source order"""
        out: list[str] = []

        def add(n):
            if n not in out:
                out.append(n)
        for s in body:
            for n in walk_scope(s):
                if isinstance(n, ast.Assign):
                    for tg in n.targets:
                        for x in target_names(tg):
                            add(x)
                elif isinstance(n, (ast.AnnAssign, ast.AugAssign)):
                    for x in target_names(n.target):
                        add(x)
                elif isinstance(n, ast.For):
                    for x in target_names(n.target):
                        add(x)
                elif isinstance(n, (ast.FunctionDef, ast.AsyncFunctionDef, ast.ClassDef)):
                    add(n.name)
                elif isinstance(n, ast.Call) and isinstance(n.func, ast.Attribute) and isinstance(n.func.value, ast.Name) \
                        and n.func.attr in ("append", "pop", "extend"):
                    add(n.func.value.id)
                elif isinstance(n, (ast.Yield, ast.YieldFrom)):
                    add("_out")
                elif isinstance(n, (ast.NamedExpr, ast.Global, ast.Nonlocal, ast.Delete, ast.With, ast.Import, ast.ImportFrom)) \
                        and not (isinstance(n, ast.With) and all(i.optional_vars is None for i in n.items)):
                    raise Untranslatable("binding form " + type(n).__name__)
        return out

    def mutated(self, body: list[ast.stmt]) -> set[str]:
        out: set[str] = set()
        for s in body:
            for n in walk_scope(s):
                if isinstance(n, ast.Call) and isinstance(n.func, ast.Attribute) and isinstance(n.func.value, ast.Name):
                    if n.func.attr not in ("split", "format", "fullmatch"):
                        out.add(n.func.value.id)      # any other method call on a name may mutate it
                elif isinstance(n, ast.AugAssign) and isinstance(n.target, ast.Name):
                    out.add(n.target.id)
        return out

    # ---------------- expressions
    def name_is_global(self, n: str) -> bool:
        return n not in self.vars and n not in self.locals

    def prim(self, e: ast.AST):
        for pat, tmpl, ty, holes in PRIMS:
            env: dict = {}
            if _match(pat, e, env):
                root = next((n.id for n in ast.walk(pat) if isinstance(n, ast.Name) and not n.id.startswith("_h_")), None)
                if root is not None and not self.name_is_global(root):
                    raise Untranslatable(f"{root} is a local name here")
                if root is not None and root not in MODULES_USED and \
                        (self.mod.bound.get(root, 0) != 1 or root in self.mod.globals_written):
                    raise Untranslatable(f"{root} is not bound exactly once in the module")
                texts = {}
                for k, v in env.items():
                    t, vty = self.ex(v)
                    self.unify(vty, holes[k], "argument of " + ast.unparse(e)[:40])
                    texts[k] = t
                return tmpl.format(**texts), ty
        return None

    def truth(self, e: ast.AST) -> str:
        if isinstance(e, ast.BoolOp):
            saved = set(self.nonempty)
            parts = []
            for v in e.values:
                parts.append(self.truth(v))
                self.assume(v, isinstance(e.op, ast.And))
            self.nonempty = saved
            return "(" + (" && " if isinstance(e.op, ast.And) else " || ").join(parts) + ")"
        if isinstance(e, ast.UnaryOp) and isinstance(e.op, ast.Not):
            return f"(negb {self.truth(e.operand)})"
        t, ty = self.ex(e)
        ty = self.resolve(ty)
        if ty == "bool":
            return t
        if ty == "str":
            return f"(negb (str_eqb {t} []))"
        if ty == "int":
            return f"(negb (Z.eqb {t} 0%Z))"
        if self.is_list(ty):
            return f"(py_nonempty {t})"
        raise Untranslatable(f"truthiness of {ty}")

    def assume(self, test: ast.AST, val: bool) -> None:
        """record what is known once `test` evaluated to `val`"""
        if isinstance(test, ast.Name) and test.id in self.vars and self.is_list(self.vars[test.id][1]):
            if val:
                self.nonempty.add(test.id)
        elif isinstance(test, ast.UnaryOp) and isinstance(test.op, ast.Not):
            self.assume(test.operand, not val)
        elif (x := self.len_of(test)) is not None:
            if val:
                self.nonempty.add(x)      # len(x) is truthy
        elif isinstance(test, ast.Compare) and len(test.ops) == 1:
            # len(x) <op> k  /  k <op> len(x)  with an integer literal k
            a, op, b = test.left, type(test.ops[0]), test.comparators[0]
            flip = {ast.Lt: ast.Gt, ast.Gt: ast.Lt, ast.LtE: ast.GtE, ast.GtE: ast.LtE, ast.Eq: ast.Eq, ast.NotEq: ast.NotEq}
            if self.len_of(a) is None and self.len_of(b) is not None and op in flip:
                a, op, b = b, flip[op], a
            x = self.len_of(a)
            if x is not None and isinstance(b, ast.Constant) and type(b.value) is int and op in flip:
                k = b.value
                if not val:      # the negation of the comparison holds
                    op = {ast.Lt: ast.GtE, ast.GtE: ast.Lt, ast.Gt: ast.LtE, ast.LtE: ast.Gt, ast.Eq: ast.NotEq, ast.NotEq: ast.Eq}[op]
                if (op is ast.Gt and k >= 0) or (op is ast.GtE and k >= 1) or (op is ast.NotEq and k == 0) \
                        or (op is ast.Eq and k >= 1):
                    self.nonempty.add(x)
        elif isinstance(test, ast.BoolOp) and isinstance(test.op, ast.And if val else ast.Or):
            for v in test.values:
                self.assume(v, val)

    def len_of(self, e: ast.AST) -> str | None:
        """x when e is len(x) for a list variable x (and len is the builtin)"""
        if isinstance(e, ast.Call) and isinstance(e.func, ast.Name) and e.func.id == "len" and self.name_is_global("len") \
                and "len" not in self.mod.bound and len(e.args) == 1 and not e.keywords and isinstance(e.args[0], ast.Name) \
                and e.args[0].id in self.vars and self.is_list(self.vars[e.args[0].id][1]):
            return e.args[0].id
        return None

    def it(self, e: ast.AST):
        """an expression in a position that consumes an iterable once: (gallina list, list type)"""
        if isinstance(e, ast.Call) and isinstance(e.func, ast.Name) and self.name_is_global(e.func.id) \
                and e.func.id not in self.mod.bound:
            f, args, kws = e.func.id, e.args, e.keywords
            if f == "reversed" and len(args) == 1 and not kws:
                t, ty = self.it(args[0])
                return f"(rev {t})", ty
            if f == "zip" and len(args) == 2 and all(
                    k.arg == "strict" and isinstance(k.value, ast.Constant) and k.value.value is False for k in kws):
                (ta, tya), (tb, tyb) = self.it(args[0]), self.it(args[1])
                return f"(combine {ta} {tb})", ("list", ("tuple", self.resolve(tya)[1], self.resolve(tyb)[1]))
            if f == "enumerate" and 1 <= len(args) + len(kws) <= 2 and all(k.arg == "start" for k in kws) and args:
                t, ty = self.it(args[0])
                st = args[1] if len(args) == 2 else (kws[0].value if kws else None)
                if st is None:
                    s_t = "0%Z"
                else:
                    s_t, s_ty = self.ex(st)
                    self.unify(s_ty, "int", "enumerate start")
                return f"(py_enumerate {s_t} {t})", ("list", ("tuple", "int", self.resolve(ty)[1]))
            if f in ("list", "tuple") and len(args) == 1 and not kws:
                return self.it(args[0])
        t, ty = self.ex(e)
        if not self.is_list(ty):
            raise Untranslatable(f"iteration over {self.resolve(ty)}")
        return t, self.resolve(ty)

    def fmt(self, tmpl: str, args: list[tuple[str, object]]) -> str:
        parts: list[str] = []
        auto, manual = 0, False
        try:
            fields = list(string.Formatter().parse(tmpl))
        except ValueError as e:
            raise Untranslatable("format template") from e
        for lit, field, spec, conv in fields:
            if lit:
                parts.append(strlit(lit))
            if field is None:
                continue
            if spec or conv:
                raise Untranslatable("format spec/conversion")
            if field == "":
                if manual:
                    raise Untranslatable("mixed format numbering")
                idx, auto = auto, auto + 1
            elif field.isdigit():
                if auto:
                    raise Untranslatable("mixed format numbering")
                idx, manual = int(field), True
            else:
                raise Untranslatable("format field " + field)
            if idx >= len(args):
                raise Untranslatable("format index out of range")
            t, ty = args[idx]
            self.unify(ty, "str", "format argument")
            parts.append(t)
        return "(" + " ++ ".join(parts) + ")" if parts else "(@nil N)"

    def static_str(self, e: ast.AST) -> str | None:
        if isinstance(e, ast.Constant) and isinstance(e.value, str):
            return e.value
        if isinstance(e, ast.Name) and self.name_is_global(e.id) and e.id in self.mod.consts:
            return self.mod.consts[e.id]
        return None

    def ex(self, e: ast.AST) -> tuple[str, object]:
        r = self.prim(e)
        if r is not None:
            return r
        if isinstance(e, ast.Name):
            if e.id in self.vars:
                return self.vars[e.id]
            if self.name_is_global(e.id) and e.id in self.mod.consts:
                return strlit(self.mod.consts[e.id]), "str"
            raise Untranslatable(f"unknown or possibly unbound name {e.id}")
        if isinstance(e, ast.Constant):
            v = e.value
            if isinstance(v, bool):
                return ("true" if v else "false"), "bool"
            if isinstance(v, str):
                return strlit(v), "str"
            if isinstance(v, int):
                return f"({v})%Z", "int"
            raise Untranslatable("constant " + repr(v))
        if isinstance(e, ast.Compare):
            if len(e.ops) != 1:
                raise Untranslatable("chained comparison")
            op = e.ops[0]
            (ta, tya), (tb, tyb) = self.ex(e.left), self.ex(e.comparators[0])
            tya, tyb = self.resolve(tya), self.resolve(tyb)
            if isinstance(op, (ast.Eq, ast.NotEq)) and tya == tyb and tya in ("str", "int"):
                r = f"({'str_eqb' if tya == 'str' else 'Z.eqb'} {ta} {tb})"
                return (r if isinstance(op, ast.Eq) else f"(negb {r})"), "bool"
            if isinstance(op, (ast.In, ast.NotIn)) and tya == tyb == "str":
                r = f"(py_str_contains {tb} {ta})"
                return (r if isinstance(op, ast.In) else f"(negb {r})"), "bool"
            if tya == tyb == "int" and isinstance(op, (ast.Lt, ast.LtE, ast.Gt, ast.GtE)):
                f = {ast.Lt: "Z.ltb", ast.LtE: "Z.leb", ast.Gt: "Z.gtb", ast.GtE: "Z.geb"}[type(op)]
                return f"({f} {ta} {tb})", "bool"
            raise Untranslatable("comparison " + ast.unparse(e)[:80])
        if isinstance(e, ast.BoolOp):
            # as a value: only when every operand is a bool (otherwise Python returns an operand)
            for v in e.values:
                if isinstance(v, ast.BoolOp) or (isinstance(v, ast.UnaryOp) and isinstance(v.op, ast.Not)):
                    continue
                if self.resolve(self.ex(v)[1]) != "bool":
                    raise Untranslatable("and/or of non-bool operands used as a value")
            return self.truth(e), "bool"
        if isinstance(e, ast.UnaryOp):
            if isinstance(e.op, ast.Not):
                return self.truth(e), "bool"
            if isinstance(e.op, ast.USub):
                if isinstance(e.operand, ast.Constant) and type(e.operand.value) is int:
                    return f"({-e.operand.value})%Z", "int"
                t, ty = self.ex(e.operand)
                self.unify(ty, "int", "unary minus")
                return f"(Z.opp {t})", "int"
            raise Untranslatable("unary operator")
        if isinstance(e, ast.IfExp):
            c = self.truth(e.test)
            saved = set(self.nonempty)
            self.assume(e.test, True)
            ta, tya = self.ex(e.body)
            self.nonempty = set(saved)
            self.assume(e.test, False)
            tb, tyb = self.ex(e.orelse)
            self.nonempty = saved
            return f"(if {c} then {ta} else {tb})", self.unify(tya, tyb, "conditional expression")
        if isinstance(e, ast.JoinedStr):
            parts = []
            for v in e.values:
                if isinstance(v, ast.Constant) and isinstance(v.value, str):
                    parts.append(strlit(v.value))
                elif isinstance(v, ast.FormattedValue) and v.conversion in (-1, 115) and v.format_spec is None:
                    t, ty = self.ex(v.value)
                    self.unify(ty, "str", "f-string value")
                    parts.append(t)
                else:
                    raise Untranslatable("f-string part")
            return ("(" + " ++ ".join(parts) + ")" if parts else "(@nil N)"), "str"
        if isinstance(e, ast.BinOp):
            (ta, tya), (tb, tyb) = self.ex(e.left), self.ex(e.right)
            tya, tyb = self.resolve(tya), self.resolve(tyb)
            if isinstance(e.op, (ast.Add, ast.Sub, ast.Mult)) and tya == tyb == "int":
                f = {ast.Add: "Z.add", ast.Sub: "Z.sub", ast.Mult: "Z.mul"}[type(e.op)]
                return f"({f} {ta} {tb})", "int"
            if isinstance(e.op, ast.Add) and (tya == tyb == "str" or (self.is_list(tya) and self.is_list(tyb))):
                return f"({ta} ++ {tb})", self.unify(tya, tyb, "+")
            if isinstance(e.op, ast.Mult) and self.is_list(tya) and tyb == "int":
                return f"(py_list_mul {ta} {tb})", tya
            if isinstance(e.op, ast.Mult) and tya == "int" and self.is_list(tyb):
                return f"(py_list_mul {tb} {ta})", tyb
            raise Untranslatable("operator " + ast.unparse(e)[:80])
        if isinstance(e, ast.List):
            segs: list[str] = []
            cur: list[str] = []
            ety: object = self.fresh()
            for x in e.elts:
                if isinstance(x, ast.Starred):
                    if cur:
                        segs.append("[" + "; ".join(cur) + "]")
                        cur = []
                    t, ty = self.it(x.value)
                    ety = self.unify(ety, self.resolve(ty)[1], "list literal")
                    segs.append(t)
                else:
                    t, ty = self.ex(x)
                    if self.is_list(ty):
                        raise Untranslatable("list of lists")
                    ety = self.unify(ety, ty, "list literal")
                    cur.append(t)
            if cur or not segs:
                segs.append("[" + "; ".join(cur) + "]")
            return ("(" + " ++ ".join(segs) + ")" if len(segs) > 1 else segs[0]), ("list", ety)
        if isinstance(e, ast.Subscript):
            t, ty = self.ex(e.value)
            if not self.is_list(ty):
                raise Untranslatable("subscript of " + str(self.resolve(ty)))
            sl = e.slice
            if isinstance(sl, ast.Slice):
                if sl.step is not None:
                    raise Untranslatable("slice step")
                lo = hi = None
                if sl.lower is not None:
                    lo, lty = self.ex(sl.lower)
                    self.unify(lty, "int", "slice bound")
                if sl.upper is not None:
                    hi, hty = self.ex(sl.upper)
                    self.unify(hty, "int", "slice bound")
                if lo is not None and hi is None:
                    return f"(py_slice_from {t} {lo})", ty
                if lo is None and hi is not None:
                    return f"(py_slice_to {t} {hi})", ty
                if lo is not None and hi is not None:
                    return f"(py_slice {t} {lo} {hi})", ty
                return t, ty
            if ast.unparse(sl) == "-1" and isinstance(e.value, ast.Name) and e.value.id in self.nonempty \
                    and self.resolve(ty) == LSTR:
                return f"(py_last {t})", "str"
            raise Untranslatable("subscript " + ast.unparse(e)[:60] + " (may raise IndexError here)")
        if isinstance(e, ast.Call):
            return self.call(e)
        raise Untranslatable("expression " + ast.dump(e)[:100])

    def call(self, e: ast.Call) -> tuple[str, object]:
        f = e.func
        if isinstance(f, ast.Name):
            h = self.lookup_helper(f.id)
            if h is not None:
                if h.kind != "expr":
                    raise Untranslatable(f"helper {f.id} used as a value")
                return self.inline_ex(h, e)
            if not self.name_is_global(f.id) or f.id in self.mod.bound:
                raise Untranslatable(f"call of {f.id}")
            if e.keywords:
                raise Untranslatable("keyword arguments")
            if f.id == "len" and len(e.args) == 1:
                t, ty = self.ex(e.args[0])
                if self.resolve(ty) != "str" and not self.is_list(ty):
                    raise Untranslatable("len of " + str(self.resolve(ty)))
                return f"(Z.of_nat (List.length {t}))", "int"
            if f.id in ("max", "min") and len(e.args) == 2:
                (ta, tya), (tb, tyb) = self.ex(e.args[0]), self.ex(e.args[1])
                self.unify(tya, "int", f.id)
                self.unify(tyb, "int", f.id)
                return f"(Z.{f.id} {ta} {tb})", "int"
            if f.id in ("list", "tuple") and len(e.args) == 1:
                return self.it(e)
            if f.id == "str" and len(e.args) == 1:
                t, ty = self.ex(e.args[0])
                self.unify(ty, "str", "str()")
                return t, "str"
            raise Untranslatable("call " + ast.unparse(e)[:60])
        if isinstance(f, ast.Attribute) and f.attr == "format" and not e.keywords:
            tmpl = self.static_str(f.value)
            if tmpl is None:
                raise Untranslatable("format on a non-constant template")
            return self.fmt(tmpl, [self.ex(a) for a in e.args]), "str"
        if ast.unparse(f) == "pathlib.PurePosixPath" and self.name_is_global("pathlib") and e.args and not e.keywords \
                and all(isinstance(a, ast.Starred) for a in e.args):
            segs = []
            for a in e.args:
                t, ty = self.it(a.value)
                self.unify(ty, LSTR, "PurePosixPath(*parts)")
                segs.append(t)
            return "(py_of_parts " + (segs[0] if len(segs) == 1 else "(" + " ++ ".join(segs) + ")") + ")", "ppath"
        raise Untranslatable("call " + ast.unparse(e)[:60])

    # ---------------- helpers (nested defs / lambdas / simple module-level functions), inlined
    def lookup_helper(self, name: str) -> Helper | None:
        if name in self.helpers:
            return self.helpers[name]
        if self.name_is_global(name) and name in self.mod.funcs:
            return self.mod.funcs[name]
        return None

    def inline(self, h: Helper, call: ast.Call, body_fn):
        if call.keywords or len(call.args) != len(h.params) or any(isinstance(a, ast.Starred) for a in call.args):
            raise Untranslatable(f"call shape of helper {h.name}")
        if self.depth > 6:
            raise Untranslatable("helper nesting too deep (recursion?)")
        args = [self.ex(a) for a in call.args]
        saved = self.save()
        saved_locals = self.locals
        if h.module_level:
            # a module-level function sees its parameters and module globals only
            self.vars = {}
            self.nonempty = set()
            self.locals = set(h.params)
            self.helpers = {}
        binds = []
        for p, (t, ty) in zip(h.params, args):
            self.counter += 1
            g = f"v_{p}__{self.counter}"
            self.vars[p] = (g, ty)
            self.nonempty.discard(p)
            binds.append((g, t))
        self.depth += 1
        try:
            r = body_fn(h.body)
        finally:
            self.depth -= 1
            self.restore(saved)
            self.locals = saved_locals
        return binds, r

    def inline_ex(self, h: Helper, call: ast.Call):
        binds, (t, ty) = self.inline(h, call, self.ex)
        for g, a in reversed(binds):
            t = f"(let {g} := {a} in {t})"
        return t, ty

    def exc_code(self, e: ast.AST) -> str:
        """the class of the exception value `e` evaluates to; its arguments must be expressions that cannot raise"""
        if isinstance(e, ast.Name) and e.id in ERRCODES and self.name_is_global(e.id) and e.id not in self.mod.bound:
            return ERRCODES[e.id]
        if isinstance(e, ast.Call) and isinstance(e.func, ast.Name):
            n = e.func.id
            if n in ERRCODES and self.name_is_global(n) and n not in self.mod.bound and not e.keywords:
                for a in e.args:
                    _, ty = self.ex(a)
                    if self.resolve(ty) not in ("str", "int", "bool"):
                        raise Untranslatable("exception argument")
                return ERRCODES[n]
            h = self.lookup_helper(n)
            if h is not None and h.kind == "expr":
                _, code = self.inline(h, e, self.exc_code)
                return code
        raise Untranslatable("exception value " + ast.unparse(e)[:60])

    # ---------------- outcomes
    def tup(self, names: list[str]) -> str:
        if not names:
            return "tt"
        if len(names) == 1:
            return self.vars[names[0]][0]
        return "(" + ", ".join(self.vars[n][0] for n in names) + ")"

    @staticmethod
    def pat(names: list[str]) -> str:
        if not names:
            return "_"
        if len(names) == 1:
            return "v_" + names[0]
        return "'(" + ", ".join("v_" + n for n in names) + ")"

    def sty(self, names: list[str], entry: dict) -> str:
        if not names:
            return "unit"
        return " * ".join(self.gty(entry[n][1], len(names) == 1) for n in names)

    def state_out(self) -> str:
        c = self.ctx[-1]
        for n in c.state:
            if n not in self.vars:
                raise Untranslatable(f"{n} may be unbound at the end of an iteration")
            self.unify(self.vars[n][1], c.entry[n][1], f"loop variable {n}")
        return self.tup(c.state)

    def out_next(self) -> str:
        c = self.ctx[-1]
        s = self.state_out()
        return {"fold": s, "forb": f"({s}, false)", "for": f"(Next {s})"}[c.mode]

    def out_break(self) -> str:
        c = self.ctx[-1]
        if c is None:
            raise Untranslatable("break outside a loop")
        s = self.state_out()
        return {"forb": f"({s}, true)", "for": f"(Break {s})"}[c.mode]

    def out_err(self, code: str) -> str:
        if not self.monadic:
            raise Untranslatable("raise in a function translated as pure")
        return f"(Raise {code})" if self.ctx[-1] is not None else f"(Err {code})"

    def out_return(self, t: str) -> str:
        if self.ctx[-1] is not None:
            raise Untranslatable("return inside a loop")
        return f"(Ok {t})" if self.monadic else t

    # ---------------- statements
    def bind(self, name: str, text: str, ty, cont) -> str:
        g = "v_" + name
        self.define(name, g, ty)
        return f"let {g} := {text} in\n{cont()}"

    def pop_target(self, call: ast.AST) -> str | None:
        if isinstance(call, ast.Expr):
            call = call.value
        if isinstance(call, ast.Call) and isinstance(call.func, ast.Attribute) and call.func.attr == "pop" \
                and isinstance(call.func.value, ast.Name) and not call.args and not call.keywords:
            x = call.func.value.id
            if x in self.vars and self.is_list(self.vars[x][1]):
                return x
        return None

    def block(self, body: list[ast.stmt], k) -> str:
        """statements, then k() (evaluated in the environment reached at the end of `body`)"""
        if not body:
            return k()
        s, rest = body[0], body[1:]
        cont = lambda: self.block(rest, k)      # noqa: E731
        if isinstance(s, ast.Pass) or (isinstance(s, ast.Expr) and isinstance(s.value, ast.Constant) and isinstance(s.value.value, str)):
            return cont()
        if isinstance(s, ast.FunctionDef):
            h = helper_of_def(s, False)
            if h is None or s.name in self.rebound_helpers:
                raise Untranslatable(f"nested function {s.name} is not a one-expression helper")
            self.helpers[s.name] = h
            return cont()
        if isinstance(s, ast.Assign) and len(s.targets) == 1 and isinstance(s.targets[0], ast.Name) and isinstance(s.value, ast.Lambda):
            a = s.value.args
            if a.vararg or a.kwarg or a.kwonlyargs or a.defaults or a.posonlyargs or s.targets[0].id in self.rebound_helpers:
                raise Untranslatable("lambda form")
            self.helpers[s.targets[0].id] = Helper(s.targets[0].id, [x.arg for x in a.args], "expr", s.value.body, False)
            return cont()
        if isinstance(s, (ast.Assign, ast.AnnAssign)):
            if isinstance(s, ast.Assign) and len(s.targets) != 1:
                raise Untranslatable("chained assignment")
            tg = s.targets[0] if isinstance(s, ast.Assign) else s.target
            if s.value is None:
                raise Untranslatable("bare annotation")
            if isinstance(tg, ast.Tuple) and isinstance(s.value, ast.Tuple) and len(tg.elts) == len(s.value.elts) \
                    and all(isinstance(x, ast.Name) for x in tg.elts) and len({x.id for x in tg.elts}) == len(tg.elts):
                vals = [self.ex(v) for v in s.value.elts]      # all right-hand sides first
                for v, (_, ty) in zip(s.value.elts, vals):
                    self.check_alias(None, v, ty)
                for x, (_, ty) in zip(tg.elts, vals):
                    self.define(x.id, "v_" + x.id, ty)
                    self.nonempty.discard(x.id)
                return (f"let '({', '.join('v_' + x.id for x in tg.elts)}) := ({', '.join(t for t, _ in vals)}) in\n{cont()}")
            if not isinstance(tg, ast.Name):
                raise Untranslatable("assignment target")
            if tg.id in self.helpers:
                raise Untranslatable(f"helper {tg.id} rebound")
            if isinstance(s.value, ast.List) and not s.value.elts:
                ty: object = None
                if isinstance(s, ast.AnnAssign):
                    try:
                        ty = _type_of_ann(s.annotation)
                    except Untranslatable:
                        ty = None
                if ty is None or not self.is_list(ty):
                    ty = ("list", self.fresh())
                text = "[]"
            else:
                text, ty = self.ex(s.value)
                self.check_alias(tg.id, s.value, ty)
            self.nonempty.discard(tg.id)
            if isinstance(s.value, ast.List) and any(not isinstance(x, ast.Starred) for x in s.value.elts):
                self.nonempty.add(tg.id)
            return self.bind(tg.id, text, ty, cont)
        if isinstance(s, ast.AugAssign):
            if not (isinstance(s.target, ast.Name) and s.target.id in self.vars and isinstance(s.op, (ast.Add, ast.Sub))):
                raise Untranslatable("augmented assignment")
            x = s.target.id
            g, ty = self.vars[x]
            ty = self.resolve(ty)
            if ty == "int":
                t, vty = self.ex(s.value)
                self.unify(vty, "int", "+=")
                return self.bind(x, f"({'Z.add' if isinstance(s.op, ast.Add) else 'Z.sub'} {g} {t})", "int", cont)
            if isinstance(s.op, ast.Add) and ty == "str":
                t, vty = self.ex(s.value)
                self.unify(vty, "str", "+=")
                return self.bind(x, f"({g} ++ {t})", "str", cont)
            if isinstance(s.op, ast.Add) and self.is_list(ty):
                t, vty = self.it(s.value)
                ty = self.unify(ty, vty, "+=")
                return self.bind(x, f"({g} ++ {t})", ty, cont)
            raise Untranslatable("augmented assignment on " + str(ty))
        if isinstance(s, ast.Expr) and isinstance(s.value, ast.Call) and isinstance(s.value.func, ast.Attribute) \
                and isinstance(s.value.func.value, ast.Name):
            c = s.value
            x, m = c.func.value.id, c.func.attr
            if x not in self.vars or not self.is_list(self.vars[x][1]) or c.keywords:
                raise Untranslatable("method call statement " + ast.unparse(c)[:60])
            g, ty = self.vars[x]
            if m == "append" and len(c.args) == 1:
                t, ety = self.ex(c.args[0])
                if self.is_list(ety):
                    raise Untranslatable("list of lists")
                ty = self.unify(ty, ("list", ety), "append")
                self.define(x, "v_" + x, ty)
                self.nonempty.add(x)
                return f"let v_{x} := {g} ++ [{t}] in\n{cont()}"
            if m == "extend" and len(c.args) == 1:
                t, vty = self.it(c.args[0])
                ty = self.unify(ty, vty, "extend")
                return self.bind(x, f"({g} ++ {t})", ty, cont)
            if m == "pop" and not c.args:
                if x not in self.nonempty:
                    raise Untranslatable(f"{x}.pop() may raise IndexError here")
                self.nonempty.discard(x)
                return self.bind(x, f"removelast {g}", ty, cont)
            raise Untranslatable("method call " + m)
        if isinstance(s, ast.Expr) and isinstance(s.value, ast.Call) and isinstance(s.value.func, ast.Name) \
                and (h := self.lookup_helper(s.value.func.id)) is not None and h.kind == "raise":
            _, code = self.inline(h, s.value, self.exc_code)
            return self.out_err(code)
        if isinstance(s, ast.Expr) and isinstance(s.value, ast.Yield):
            if s.value.value is None:
                raise Untranslatable("bare yield")
            t, ety = self.ex(s.value.value)
            g, ty = self.vars["_out"]
            ty = self.unify(ty, ("list", ety), "yield")
            return self.bind("_out", f"{g} ++ [{t}]", ty, cont)
        if isinstance(s, ast.With):
            if len(s.items) == 1 and s.items[0].optional_vars is None and self.name_is_global("contextlib") \
                    and ast.unparse(s.items[0].context_expr) == "contextlib.suppress(IndexError)" \
                    and self.name_is_global("IndexError") and "IndexError" not in self.mod.bound \
                    and len(s.body) == 1 and (x := self.pop_target(s.body[0])) is not None and isinstance(s.body[0], ast.Expr):
                g, ty = self.vars[x]
                self.nonempty.discard(x)
                return self.bind(x, f"removelast {g} (* pop, IndexError suppressed *)", ty, cont)
            raise Untranslatable("with-statement")
        if isinstance(s, ast.Try):
            if len(s.body) == 1 and isinstance(s.body[0], ast.Expr) and (x := self.pop_target(s.body[0])) is not None \
                    and not s.orelse and not s.finalbody and len(s.handlers) == 1 \
                    and isinstance(s.handlers[0].type, ast.Name) and s.handlers[0].type.id == "IndexError" \
                    and self.name_is_global("IndexError") and "IndexError" not in self.mod.bound \
                    and s.handlers[0].name is None and len(s.handlers[0].body) == 1 and isinstance(s.handlers[0].body[0], ast.Pass):
                g, ty = self.vars[x]
                self.nonempty.discard(x)
                return self.bind(x, f"removelast {g} (* pop, IndexError suppressed *)", ty, cont)
            raise Untranslatable("try-statement")
        if isinstance(s, ast.Raise):
            if s.exc is None or not (s.cause is None or isinstance(s.cause, (ast.Name, ast.Constant))):
                raise Untranslatable("raise form")
            return self.out_err(self.exc_code(s.exc))
        if isinstance(s, ast.Return):
            if self.yields:
                if s.value is not None:
                    raise Untranslatable("return with a value in a generator")
                return self.out_return(self.vars["_out"][0])
            if s.value is None:
                raise Untranslatable("return without a value")
            return self.out_return(self.ex(s.value)[0])
        if isinstance(s, ast.Continue):
            if self.ctx[-1] is None:
                raise Untranslatable("continue outside a loop")
            return self.out_next()
        if isinstance(s, ast.Break):
            return self.out_break()
        if isinstance(s, ast.If):
            test = self.truth(s.test)
            snap = self.save()
            self.assume(s.test, True)
            a = self.block(s.body, cont)
            self.restore(snap)
            self.assume(s.test, False)
            b = self.block(s.orelse, cont)
            return f"(if {test} then\n{textwrap.indent(a, '  ')}\nelse\n{textwrap.indent(b, '  ')})"
        if isinstance(s, ast.For):
            return self.loop(s, cont)
        raise Untranslatable("statement " + type(s).__name__)

    def check_alias(self, target: str | None, value: ast.AST, ty) -> None:
        """a second name for an existing list object is only sound when neither name is mutated"""
        if not self.is_list(ty):
            return
        names = []
        stack = [value]
        while stack:
            v = stack.pop()
            if isinstance(v, ast.Name):
                names.append(v.id)
            elif isinstance(v, ast.IfExp):
                stack += [v.body, v.orelse]
            elif isinstance(v, ast.BoolOp):
                stack += v.values
        if names and (any(n in self.fn_mutated for n in names) or target in self.fn_mutated or target is None):
            raise Untranslatable("alias of a list that is mutated")

    def bind_target(self, t: ast.AST, ty) -> str:
        ty = self.resolve(ty)
        if isinstance(t, ast.Name):
            self.define(t.id, "v_" + t.id, ty)
            self.nonempty.discard(t.id)
            return "v_" + t.id
        if isinstance(t, (ast.Tuple, ast.List)):
            if not (isinstance(ty, tuple) and ty[0] == "tuple" and len(ty) - 1 == len(t.elts)):
                raise Untranslatable("unpacking " + str(ty))
            return "(" + ", ".join(self.bind_target(x, y) for x, y in zip(t.elts, ty[1:])) + ")"
        raise Untranslatable("loop target")

    def loop(self, s: ast.For, cont) -> str:
        if s.orelse:
            raise Untranslatable("for-else")
        it_text, it_ty = self.it(s.iter)
        elt = self.resolve(it_ty)[1]
        tnames = target_names(s.target)
        if len(set(tnames)) != len(tnames):
            raise Untranslatable("repeated loop target")
        assigned = self.assigned(s.body)
        mut = self.mutated(s.body)
        for n in ast.walk(s.iter):
            if isinstance(n, ast.Name) and n.id in mut:
                raise Untranslatable(f"{n.id} is mutated while it is iterated over")
        state = [n for n in assigned if n in self.vars and n not in tnames]
        state.sort(key=lambda n: (self.gty(self.vars[n][1]), self.order[n]))
        entry = {n: self.vars[n] for n in state}
        for n in state:
            if entry[n][0] != "v_" + n:
                raise Untranslatable(f"helper parameter {n} assigned in a loop")
        local = [n for n in assigned if n not in state] + tnames

        def own(stmts, kind):      # break/continue of *this* loop (not of nested loops)
            for st in stmts:
                if isinstance(st, kind):
                    return True
                for f in ("body", "orelse", "handlers", "finalbody"):
                    if not isinstance(st, (ast.For, ast.While, ast.FunctionDef)) and own(getattr(st, f, []) or [], kind):
                        return True
            return False
        mode = "for" if self.monadic else ("forb" if own(s.body, ast.Break) else "fold")
        snap = self.save()
        self.ctx.append(LoopCtx(state, entry, mode))
        self.nonempty -= set(state)
        self.counter += 1
        k = self.counter
        tp = self.bind_target(s.target, elt)
        body = self.block(s.body, self.out_next)
        self.ctx.pop()
        self.restore(snap)
        for n in local:
            self.vars.pop(n, None)        # their value after the loop depends on whether it ran: not modelled
        self.nonempty -= set(state) | set(local)
        init = self.tup(state)
        pat = self.pat(state)
        sty = self.sty(state, entry)
        if isinstance(s.target, ast.Name):
            xb, tb = f"({tp} : {self.gty(elt)})", ""
        else:
            xb, tb = f"(x__{k} : {self.gty(elt)})", f" let '{tp} := x__{k} in"
        fun = f"(fun (st : {sty}) {xb} => let {pat} := st in{tb}\n{textwrap.indent(body, '  ')})"
        if mode == "for":
            mp = pat.lstrip("'")
            err = f"(Raise e__{k})" if self.ctx[-1] is not None else f"(Err e__{k})"
            return (f"match py_for {fun} {it_text} {init} with\n| Err e__{k} => {err}\n| Ok {mp} =>\n{cont()}\nend")
        comb = "fold_left" if mode == "fold" else "py_forb"
        return f"let {pat} := {comb} {fun} {it_text} {init} in\n{cont()}"

    def function(self, name: str) -> str:
        fn = self.fn
        a = fn.args
        if fn.decorator_list or a.vararg or a.kwarg:
            raise Untranslatable("decorated function / *args / **kwargs")
        args = [x.arg for x in a.posonlyargs + a.args + a.kwonlyargs]
        body = list(fn.body)
        assigned = self.assigned(body)
        self.locals = set(args) | set(assigned)
        self.fn_mutated = self.mutated(body)
        # helper names must be bound exactly once in the function
        counts: dict[str, int] = {}
        for st in body:
            for n in walk_scope(st):
                tgs = []
                if isinstance(n, ast.FunctionDef):
                    tgs = [n.name]
                elif isinstance(n, ast.Assign):
                    tgs = [x for tg in n.targets for x in target_names(tg)]
                elif isinstance(n, (ast.AnnAssign, ast.AugAssign, ast.For)):
                    tgs = target_names(n.target)
                for x in tgs:
                    counts[x] = counts.get(x, 0) + 1
        self.rebound_helpers = {x for x, c in counts.items() if c > 1} | set(args)
        for g in BUILTINS_USED:
            if g in self.mod.bound and any(isinstance(n, ast.Name) and n.id == g for n in ast.walk(fn)):
                raise Untranslatable(f"builtin {g} is rebound in the module")
        for m in MODULES_USED:
            if any(isinstance(n, ast.Name) and n.id == m for n in ast.walk(fn)) and \
                    (m not in self.mod.imports or self.mod.bound.get(m, 0) != 1 or m in self.mod.globals_written):
                raise Untranslatable(f"{m} is not the plainly imported module")
        for x in args:
            if x not in self.param_types:
                raise Untranslatable(f"no type for parameter {x}")
            if self.is_list(self.param_types[x]) and x in self.fn_mutated:
                raise Untranslatable(f"the caller's list {x} is mutated")
            self.define(x, "v_" + x, self.param_types[x])
        self.ctx = [None]
        if self.yields:
            if any(isinstance(n, ast.YieldFrom) for n in ast.walk(fn)):
                raise Untranslatable("yield from")
            self.define("_out", "v__out", ("list", self.fresh()))
            text = "let v__out := [] in\n" + self.block(body, lambda: self.out_return(self.vars["_out"][0]))
        else:
            def fell_off():
                raise Untranslatable("the function may end without a return statement")
            text = self.block(body, fell_off)
        if len(text) > MAX_TEXT:
            raise Untranslatable("translation too large")
        params = " ".join(f"(v_{x} : {self.gty(self.param_types[x])})" for x in args)
        return f"Definition {name} {params} :=\n{textwrap.indent(text, '  ')}."


def find_function(tree: ast.Module, qual: str) -> ast.FunctionDef:
    cur: list[ast.stmt] = tree.body
    node = None
    for part in qual.split("."):
        node = None
        stack = list(cur)
        while stack:
            n = stack.pop(0)
            if isinstance(n, (ast.FunctionDef, ast.ClassDef)) and n.name == part:
                node = n
                break
            if isinstance(n, (ast.If, ast.Try)):  # e.g. platform switches
                stack.extend(getattr(n, "body", []) + getattr(n, "orelse", []))
        if node is None:
            raise Untranslatable(f"{qual}: {part} not found")
        cur = node.body
    if not isinstance(node, ast.FunctionDef):
        raise Untranslatable(f"{qual} is not a function")
    return node


def translate(source: str, qual: str, gname: str, types: dict[str, str]) -> str:
    tree = ast.parse(source)
    fn = find_function(tree, qual)
    module = Module(tree)
    if "." not in qual and module.bound.get(qual, 0) != 1:
        raise Untranslatable(f"{qual} is bound more than once in the module")
    digest = hashlib.sha1(ast.dump(fn).encode()).hexdigest()[:12]
    tr = Tr(fn, types, module)
    text = None
    for _ in range(4):      # element types of `x = []` are learnt from later statements: repeat until none is missing
        before = dict(tr.subst)
        tr.reset()
        t = tr.function(gname)
        if not tr.saw_unresolved:
            text = t
            break
        if tr.subst == before:
            raise Untranslatable("a list's element type could not be inferred")
    if text is None:
        raise Untranslatable("type inference did not settle")
    return f"(* translated from {qual} (ast sha1 {digest}) *)\n" + text
