"""Gen/ExsConsts.v: constants and small tables of the Eclipse-style XML writer, read from
/repo's *current* source with `ast` on every run (capellambse/loader/exs.py, loader/core.py,
_namespaces.py).  Fails closed (raises) when the source no longer has the expected shape.

What is extracted
  exs.py   INDENT, LINE_LENGTH, ESCAPE_CHARS/P_ESCAPE_TEXT/P_ESCAPE_COMMENTS (regex character
           classes, parsed by the small class parser below), the pattern `_serialize_comment`
           hands to `_serialize_text`, `_escape_char`'s ord_low/ord_high defaults, the entity
           names the members of the classes map to (html.entities of the running interpreter),
           ALWAYS_EXPANDED_TAGS, the priority attribute tuple of `_unmapped_attrs`, the rank
           table of `_ns_sortkey`, the prefix `xmlns:` of namespace declarations, and two shape
           flags: whether `_serialize_text` rewrites "]]>" and whether `_serialize_element`
           keeps whitespace-only text of leaf elements (see proposed_fixes/C02-*.diff).
  core.py  SEMANTIC_EXTS, VISUAL_EXTS, the two line lengths chosen in ModelFile.write_xml.
  _namespaces.py  NAMESPACES_PLUGINS (name, version, viewpoint, version_precision).
  interpreter     the code points for which str.isspace() holds (what str.strip() removes),
                  sys.maxsize.
"""
from __future__ import annotations

import ast
import html.entities
import pathlib
import sys

OUTPUTS = ["ExsConsts.v"]


class Shape(Exception):
    pass


def _need(cond, msg):
    if not cond:
        raise Shape(msg)


# ------------------------------------------------------------------ regex character classes
def parse_class(src: str) -> list[tuple[int, int]]:
    """`[...]` with literal characters, \\xHH escapes and a-b ranges, or one literal character.
    Returns a list of inclusive code point ranges.  Anything else: fail closed."""
    special = set(".^$*+?{}()|\\[]")
    if len(src) == 1 and src not in special:
        return [(ord(src), ord(src))]
    _need(len(src) >= 2 and src[0] == "[" and src[-1] == "]", f"not a character class: {src!r}")
    body = src[1:-1]
    _need(not body.startswith("^"), "negated class")
    items: list[int | str] = []
    i = 0
    while i < len(body):
        c = body[i]
        if c == "\\":
            _need(i + 3 < len(body) + 0 and body[i + 1] == "x", f"unsupported escape in {src!r}")
            items.append(int(body[i + 2:i + 4], 16))
            i += 4
        elif c == "-" and items and i + 1 < len(body):
            items.append("-")
            i += 1
        else:
            _need(c not in "[]", f"nested bracket in {src!r}")
            items.append(ord(c))
            i += 1
    out: list[tuple[int, int]] = []
    j = 0
    while j < len(items):
        if j + 2 < len(items) and items[j + 1] == "-":
            lo, hi = items[j], items[j + 2]
            _need(isinstance(lo, int) and isinstance(hi, int) and lo <= hi, "bad range")
            out.append((lo, hi))
            j += 3
        else:
            _need(isinstance(items[j], int), "dangling '-'")
            out.append((items[j], items[j]))
            j += 1
    return out


def _members(cls):
    for lo, hi in cls:
        yield from range(lo, hi + 1)


# ------------------------------------------------------------------ ast helpers
def _assign(mod: ast.Module, name: str) -> ast.expr:
    for s in mod.body:
        if isinstance(s, ast.Assign) and len(s.targets) == 1 and isinstance(s.targets[0], ast.Name) and s.targets[0].id == name:
            return s.value
        if isinstance(s, ast.AnnAssign) and isinstance(s.target, ast.Name) and s.target.id == name and s.value is not None:
            return s.value
    raise Shape(f"no module-level assignment of {name}")


def _func(mod: ast.AST, name: str) -> ast.FunctionDef:
    for n in ast.walk(mod):
        if isinstance(n, ast.FunctionDef) and n.name == name:
            return n
    raise Shape(f"no function {name}")


def _const(e: ast.expr, ty):
    _need(isinstance(e, ast.Constant) and isinstance(e.value, ty), f"expected {ty} literal, got {ast.dump(e)[:60]}")
    return e.value


def _strset(e: ast.expr) -> list[str]:
    if isinstance(e, ast.Call) and isinstance(e.func, ast.Name) and e.func.id == "frozenset" and len(e.args) == 1:
        e = e.args[0]
    _need(isinstance(e, (ast.Set, ast.Tuple, ast.List)), "expected a set literal")
    return sorted(_const(x, str) for x in e.elts)


def _compiled_format(mod: ast.Module, name: str, template: str) -> str:
    """P_X = re.compile(ESCAPE_CHARS.format('...'))  ->  regex source"""
    e = _assign(mod, name)
    _need(isinstance(e, ast.Call) and ast.unparse(e.func) == "re.compile" and len(e.args) == 1, f"{name}: not re.compile(..)")
    a = e.args[0]
    if isinstance(a, ast.Constant):
        return _const(a, str)
    _need(isinstance(a, ast.Call) and ast.unparse(a.func) == "ESCAPE_CHARS.format" and len(a.args) == 1 and not a.keywords,
          f"{name}: not ESCAPE_CHARS.format(..)")
    return template.format(_const(a.args[0], str))


def _ord_default(e: ast.expr) -> int:
    if isinstance(e, ast.Constant) and isinstance(e.value, int):
        return e.value
    _need(isinstance(e, ast.Call) and isinstance(e.func, ast.Name) and e.func.id == "ord" and len(e.args) == 1, "ord(..) default expected")
    s = _const(e.args[0], str)
    _need(len(s) == 1, "ord of one char")
    return ord(s)


# ------------------------------------------------------------------ Gallina rendering
def g_str(s: str | bytes) -> str:
    pts = list(s) if isinstance(s, (bytes, bytearray)) else [ord(c) for c in s]
    return "[" + ";".join(map(str, pts)) + "]%N" if pts else "(@nil N)"


def g_ranges(cls) -> str:
    return "[" + "; ".join(f"({lo}, {hi})" for lo, hi in cls) + "]%N"


def split_qname(s: str) -> tuple[str, str]:
    if s.startswith("{"):
        uri, _, local = s[1:].partition("}")
        _need(uri and local, f"bad qualified name {s!r}")
        return uri, local
    return "", s


def generate(repo: pathlib.Path) -> dict[str, str]:
    exs_src = (repo / "capellambse" / "loader" / "exs.py").read_text()
    core_src = (repo / "capellambse" / "loader" / "core.py").read_text()
    ns_src = (repo / "capellambse" / "_namespaces.py").read_text()
    exs, core, nsm = ast.parse(exs_src), ast.parse(core_src), ast.parse(ns_src)
    L: list[str] = [
        "(* GENERATED by tools/gen_exs.py from capellambse/loader/exs.py, loader/core.py, _namespaces.py — do not edit *)",
        "From Coq Require Import ZArith NArith List Bool.",
        "Import ListNotations.",
        "From V Require Import Model.Val.",
        "",
    ]
    # --- simple constants
    indent = _const(_assign(exs, "INDENT"), bytes)
    _need(indent and set(indent) <= {0x20}, "INDENT must consist of spaces")
    L.append(f"Definition INDENT : str := {g_str(indent)}.")
    L.append(f"Definition LINE_LENGTH : N := {_const(_assign(exs, 'LINE_LENGTH'), int)}%N.")
    linesep = _assign(exs, "LINESEP")
    _need(ast.unparse(linesep) == "os.linesep.encode('ascii')", "LINESEP is no longer os.linesep")
    L.append("Definition LINESEP : str := [10]%N.   (* os.linesep on the platform the check runs on (POSIX) *)")
    # --- escape classes
    template = _const(_assign(exs, "ESCAPE_CHARS"), str)
    text_cls = parse_class(_compiled_format(exs, "P_ESCAPE_TEXT", template))
    comm_cls = parse_class(_compiled_format(exs, "P_ESCAPE_COMMENTS", template))
    L.append(f"Definition TEXT_CLASS : list (N * N) := {g_ranges(text_cls)}.       (* P_ESCAPE_TEXT *)")
    L.append(f"Definition COMMENTS_CLASS : list (N * N) := {g_ranges(comm_cls)}.   (* P_ESCAPE_COMMENTS (declared) *)")
    # pattern used by _serialize_comment
    fc = _func(exs, "_serialize_comment")
    pats = []
    for n in ast.walk(fc):
        if isinstance(n, ast.Call) and ast.unparse(n.func) == "_serialize_text":
            for kw in n.keywords:
                if kw.arg == "pattern":
                    pats.append(kw.value)
    _need(len(pats) <= 1, "_serialize_comment: several pattern= arguments")
    if pats:
        p = pats[0]
        if isinstance(p, ast.Name):
            _need(p.id in ("P_ESCAPE_TEXT", "P_ESCAPE_COMMENTS"), f"unknown pattern {p.id}")
            used = text_cls if p.id == "P_ESCAPE_TEXT" else comm_cls
        else:
            _need(isinstance(p, ast.Call) and ast.unparse(p.func) == "re.compile" and len(p.args) == 1, "pattern= is not re.compile(..)")
            used = parse_class(_const(p.args[0], str))
    else:
        used = text_cls
    L.append(f"Definition COMMENT_TEXT_CLASS : list (N * N) := {g_ranges(used)}.   (* pattern passed by _serialize_comment *)")
    # default pattern of _escape / _serialize_text must be P_ESCAPE_TEXT
    for fn in ("_escape", "_serialize_text"):
        f = _func(exs, fn)
        kws = {a.arg: d for a, d in zip(f.args.kwonlyargs, f.args.kw_defaults)}
        _need("pattern" in kws and isinstance(kws["pattern"], ast.Name) and kws["pattern"].id == "P_ESCAPE_TEXT",
              f"{fn}: default pattern is not P_ESCAPE_TEXT")
    fe = _func(exs, "_escape_char")
    kws = {a.arg: d for a, d in zip(fe.args.kwonlyargs, fe.args.kw_defaults)}
    lo, hi = _ord_default(kws["ord_low"]), _ord_default(kws["ord_high"])
    L.append(f"Definition ORD_LOW : N := {lo}%N.")
    L.append(f"Definition ORD_HIGH : N := {hi}%N.")
    names = {}
    for c in set(_members(text_cls)) | set(_members(comm_cls)) | set(_members(used)):
        if lo <= c <= hi:
            _need(c in html.entities.codepoint2name, f"class member {c} has no entity name (KeyError at run time)")
            names[c] = html.entities.codepoint2name[c]
    L.append("Definition ENTITY_NAMES : list (N * str) := [" + "; ".join(f"({c}%N, {g_str(n)})" for c, n in sorted(names.items())) + "].")
    # --- always expanded
    L.append("Definition ALWAYS_EXPANDED_TAGS : list str := [" + "; ".join(g_str(s) for s in _strset(_assign(exs, "ALWAYS_EXPANDED_TAGS"))) + "].")
    # --- priority attributes
    fu = _func(exs, "_unmapped_attrs")
    prio = None
    for n in ast.walk(fu):
        if isinstance(n, ast.For) and isinstance(n.iter, ast.Tuple) and all(isinstance(x, ast.Constant) for x in n.iter.elts):
            _need(prio is None, "_unmapped_attrs: two constant loops")
            prio = [_const(x, str) for x in n.iter.elts]
    _need(prio, "_unmapped_attrs: priority attribute tuple not found")
    L.append("Definition PRIORITY_ATTRS : list (str * str) := [" + "; ".join(
        "(%s, %s)" % tuple(g_str(x) for x in split_qname(a)) for a in prio) + "].")
    nsdecl = [n for n in ast.walk(fu) if isinstance(n, ast.JoinedStr)]
    _need(len(nsdecl) == 1 and isinstance(nsdecl[0].values[0], ast.Constant), "_unmapped_attrs: xmlns f-string not found")
    L.append(f"Definition XMLNS_PREFIX : str := {g_str(nsdecl[0].values[0].value)}.")
    # --- the root attribute after which a line break is forced
    fel0 = _func(exs, "_serialize_element")
    brk = [n for n in ast.walk(fel0) if isinstance(n, ast.Compare) and ast.unparse(n.left) == "attr" and len(n.ops) == 1
           and isinstance(n.ops[0], ast.Eq) and isinstance(n.comparators[0], ast.Constant)]
    _need(len(brk) == 1, "_serialize_element: forced-break attribute test not found")
    L.append(f"Definition ROOT_BREAK_ATTR : str := {g_str(_const(brk[0].comparators[0], str))}.")
    # --- _ns_sortkey rank table
    fk = _func(exs, "_ns_sortkey")
    ranks, default = [], None
    for s in fk.body:
        if isinstance(s, ast.If):
            t = s.test
            _need(isinstance(t, ast.Compare) and len(t.ops) == 1 and isinstance(t.ops[0], ast.Eq) and ast.unparse(t.left) == "ns"
                  and not s.orelse and len(s.body) == 1 and isinstance(s.body[0], ast.Return), "_ns_sortkey: unexpected if")
            r = s.body[0].value
            _need(isinstance(r, ast.Tuple) and len(r.elts) == 2 and ast.unparse(r.elts[1]) == "ns", "_ns_sortkey: unexpected key")
            ranks.append((_const(t.comparators[0], str), _const(r.elts[0], int)))
        elif isinstance(s, ast.Return):
            r = s.value
            _need(isinstance(r, ast.Tuple) and len(r.elts) == 2 and ast.unparse(r.elts[1]) == "ns", "_ns_sortkey: unexpected default key")
            default = _const(r.elts[0], int)
        elif isinstance(s, ast.Assign):
            _need(ast.unparse(s) == "ns, _ = v", "_ns_sortkey: unexpected assignment")
        else:
            _need(isinstance(s, ast.Expr) and isinstance(s.value, ast.Constant), "_ns_sortkey: unexpected statement")
    _need(default is not None and all(r >= 0 for _, r in ranks) and default >= 0, "_ns_sortkey: no default rank")
    L.append("Definition NS_RANKS : list (str * N) := [" + "; ".join(f"({g_str(p)}, {r}%N)" for p, r in ranks) + "].")
    L.append(f"Definition NS_DEFAULT_RANK : N := {default}%N.")
    # --- shape flags for the two proposed repairs
    ft = _func(exs, "_serialize_text")
    repl = [n for n in ast.walk(ft) if isinstance(n, ast.Call) and isinstance(n.func, ast.Attribute) and n.func.attr == "replace"]
    if not repl:
        cdata = False
    else:
        _need(len(repl) == 1 and [ast.literal_eval(a) for a in repl[0].args] == ["]]>", "]]&gt;"]
              and ast.unparse(repl[0].func.value).startswith("_escape("), "_serialize_text: unknown .replace(..)")
        cdata = True
    L.append(f"Definition FIX_CDATA_END : bool := {'true' if cdata else 'false'}.   (* _serialize_text rewrites \"]]>\" to \"]]&gt;\" *)")
    fel = _func(exs, "_serialize_element")
    tests = [ast.unparse(n.test) for n in ast.walk(fel) if isinstance(n, ast.If) and "element.text" in ast.unparse(n.test)
             and "ALWAYS_EXPANDED_TAGS" not in ast.unparse(n.test)]
    _need(len(tests) == 1, "_serialize_element: text test not found")
    known = {"(element.text or '').strip()": False,
             "element.text and (len(element) == 0 or element.text.strip())": True}
    _need(tests[0] in known, f"_serialize_element: unknown text test {tests[0]!r}")
    L.append(f"Definition FIX_BLANK_LEAF : bool := {'true' if known[tests[0]] else 'false'}.   (* whitespace-only text of a leaf element is written *)")
    # --- interpreter facts
    spaces, start = [], None
    prev = None
    for c in range(0x110000):
        if chr(c).isspace():
            if start is None:
                start = c
            prev = c
        elif start is not None:
            spaces.append((start, prev))
            start = None
    L.append(f"Definition PY_SPACE : list (N * N) := {g_ranges(spaces)}.   (* str.isspace of the running interpreter *)")
    L.append(f"Definition MAXSIZE : N := {sys.maxsize}%N.")
    # --- core.py
    L.append("Definition SEMANTIC_EXTS : list str := [" + "; ".join(g_str(s) for s in _strset(_assign(core, "SEMANTIC_EXTS"))) + "].")
    L.append("Definition VISUAL_EXTS : list str := [" + "; ".join(g_str(s) for s in _strset(_assign(core, "VISUAL_EXTS"))) + "].")
    fw = _func(core, "write_xml")
    ifs = [s for s in fw.body if isinstance(s, ast.If)]
    _need(len(ifs) == 1 and ast.unparse(ifs[0].test) == "self.fragment_type == FragmentType.SEMANTIC"
          and ast.unparse(ifs[0].body[0]) == "line_length = exs.LINE_LENGTH"
          and ast.unparse(ifs[0].orelse[0]) == "line_length = sys.maxsize", "write_xml: unexpected line length selection")
    call = [n for n in ast.walk(fw) if isinstance(n, ast.Call) and ast.unparse(n.func) == "exs.write"]
    _need(len(call) == 1, "write_xml: exs.write call not found")
    kw = {k.arg: ast.unparse(k.value) for k in call[0].keywords}
    _need(kw.get("line_length") == "line_length" and kw.get("siblings") == "True", "write_xml: unexpected exs.write arguments")
    # --- plugins
    d = _assign(nsm, "NAMESPACES_PLUGINS")
    _need(isinstance(d, ast.Dict), "NAMESPACES_PLUGINS is not a dict literal")
    rows = []
    for k, v in zip(d.keys, d.values):
        key = _const(k, str)
        _need(isinstance(v, ast.Call) and ast.unparse(v.func) == "Plugin", f"plugin {key}: not Plugin(..)")
        args = [ast.literal_eval(a) for a in v.args]
        kwargs = {x.arg: ast.literal_eval(x.value) for x in v.keywords}
        fields = ["name", "version", "viewpoint", "version_precision"]
        vals = {"version": None, "viewpoint": None, "version_precision": 1}
        for f, a in zip(fields, args):
            vals[f] = a
        vals.update(kwargs)
        _need(isinstance(vals.get("name"), str) and isinstance(vals["version_precision"], int) and vals["version_precision"] > 0, f"plugin {key}")
        versioned = vals["version"] is not None
        _need(not versioned or isinstance(vals["viewpoint"], str), f"plugin {key}: versioned without viewpoint")
        rows.append((key, vals["name"], versioned, vals["viewpoint"] or "", vals["version_precision"]))
    L.append("(* prefix, name, versioned?, viewpoint, version_precision *)")
    L.append("Definition NS_PLUGINS : list (str * (str * (bool * (str * N)))) := [")
    L.append(";\n".join(f"  ({g_str(k)}, ({g_str(n)}, ({'true' if ver else 'false'}, ({g_str(vp)}, {pr}%N))))" for k, n, ver, vp, pr in rows))
    L.append("].")
    fun = _func(core, "update_namespaces")   # first one: ModelFile.update_namespaces
    seeds = [n for n in ast.walk(fun) if isinstance(n, ast.Dict) and n.keys and all(isinstance(k, ast.Constant) for k in n.keys)]
    _need(len(seeds) == 1, "update_namespaces: seed dict not found")
    seed = []
    for k, v in zip(seeds[0].keys, seeds[0].values):
        _need(ast.unparse(v) == f"_n.NAMESPACES[{k.value!r}]", "update_namespaces: unexpected seed value")
        seed.append(k.value)
        row = [r for r in rows if r[0] == k.value]
        _need(len(row) == 1 and not row[0][2], f"update_namespaces: seed namespace {k.value} is versioned or unknown")
    L.append("Definition NS_SEED : list str := [" + "; ".join(g_str(s) for s in seed) + "].")
    return {"ExsConsts.v": "\n".join(L) + "\n"}


if __name__ == "__main__":
    import os
    print(generate(pathlib.Path(os.environ.get("VERIF_REPO", "/repo")))["ExsConsts.v"])
