"""Gen/ExsConsts.v: constants and small tables of the Eclipse-style XML writer, read from the
*current* source of the tree under check (VERIF_REPO, default /repo) with `ast` on every run
(capellambse/loader/exs.py, loader/core.py, _namespaces.py).  Nothing is cached, nothing is
defaulted: a value that cannot be determined with certainty raises `Shape` (fail closed).

How the source is read (robust against behaviour-preserving refactorings, not against changes
of meaning)
  * names are resolved through single assignments: a module-level name that is bound exactly
    once (and is not declared `global` anywhere), or a local that is bound exactly once in its
    function, stands for the expression it was assigned; a small static evaluator folds
    literals, tuples/sets/dicts, `+ - *`, `len`, `ord`, `frozenset(..)`, `str.format`,
    f-strings, `.encode`, `re.compile(<str>)`, `os.linesep`, `sys.maxsize`;
  * the characteristic statement of a function is searched in its whole body, nested blocks
    included, and in the same-module helpers it calls (two levels), not at a fixed statement
    index; exactly one match is required everywhere;
  * equivalent expression forms are accepted where the meaning is unambiguous (conditional
    expression / if-else / `{..}.get`, comprehension / loop, chained / and-ed comparisons,
    parameter default / module constant / literal); the text condition of `_serialize_element`
    is classified by evaluating it over the complete case table of the atoms it may use;
  * every behaviourally observable value is ALSO probed on the real code: the modules are
    imported from the tree under check in a subprocess, the serializer is run on a few
    purpose-built inputs (attribute order, wrap column, indentation, forced break, escape
    classes, "]]>" handling, blank leaf text, line length per file type, namespace seed, plugin
    table) and the observation is compared with what the AST result predicts.  A disagreement
    or a probe that cannot run raises.

What is extracted
  exs.py   INDENT, LINE_LENGTH, LINESEP, ESCAPE_CHARS/P_ESCAPE_TEXT/P_ESCAPE_COMMENTS (regex
           character classes, parsed by the small class parser below), the pattern
           `_serialize_comment` hands to `_serialize_text`, the bounds of `_escape_char`'s
           named-entity range, the entity names the members of the classes map to
           (html.entities of the running interpreter), ALWAYS_EXPANDED_TAGS, the priority
           attribute tuple of `_unmapped_attrs`, the rank table of `_ns_sortkey`, the prefix
           `xmlns:` of namespace declarations, and two shape flags: whether `_serialize_text`
           rewrites "]]>" and whether `_serialize_element` keeps whitespace-only text of leaf
           elements (see proposed_fixes/C02-*.diff).
  core.py  SEMANTIC_EXTS, VISUAL_EXTS, the two line lengths chosen in ModelFile.write_xml, the
           seed of ModelFile.update_namespaces.
  _namespaces.py  NAMESPACES_PLUGINS (name, version, viewpoint, version_precision).
  interpreter     the code points for which str.isspace() holds (what str.strip() removes),
                  sys.maxsize.
"""
from __future__ import annotations

import ast
import collections
import html.entities
import json
import os
import pathlib
import subprocess
import sys
import typing as t

OUTPUTS = ["ExsConsts.v"]


class Shape(Exception):
    pass


class NotStatic(Shape):
    """An expression that the static evaluator cannot fold to a value."""


def _need(cond, msg):
    if not cond:
        raise Shape(msg)


# ------------------------------------------------------------------ regex character classes
def parse_class(src: str) -> list[tuple[int, int]]:
    """`[...]` with literal characters, \\xHH escapes and a-b ranges, or one literal character.
    Returns a list of inclusive code point ranges.  Anything else: fail closed."""
    special = set(".^$*+?{}()|\\[]")
    if len(src) == 1 and src not in special:
        return [(ord(src), ord(src))]
    _need(len(src) >= 2 and src[0] == "[" and src[-1] == "]", f"not a character class: {src!r}")
    body = src[1:-1]
    _need(not body.startswith("^"), "negated class")
    items: list[int | str] = []
    i = 0
    while i < len(body):
        c = body[i]
        if c == "\\":
            _need(i + 3 < len(body) + 0 and body[i + 1] == "x", f"unsupported escape in {src!r}")
            items.append(int(body[i + 2:i + 4], 16))
            i += 4
        elif c == "-" and items and i + 1 < len(body):
            items.append("-")
            i += 1
        else:
            _need(c not in "[]", f"nested bracket in {src!r}")
            items.append(ord(c))
            i += 1
    out: list[tuple[int, int]] = []
    j = 0
    while j < len(items):
        if j + 2 < len(items) and items[j + 1] == "-":
            lo, hi = items[j], items[j + 2]
            _need(isinstance(lo, int) and isinstance(hi, int) and lo <= hi, "bad range")
            out.append((lo, hi))
            j += 3
        else:
            _need(isinstance(items[j], int), "dangling '-'")
            out.append((items[j], items[j]))
            j += 1
    return out


def _members(cls):
    for lo, hi in cls:
        yield from range(lo, hi + 1)


def _in_class(c: int, cls) -> bool:
    return any(lo <= c <= hi for lo, hi in cls)


# ------------------------------------------------------------------ reading a module
class Regex(t.NamedTuple):
    """`re.compile(<source>)` without flags"""
    source: str


_FUNCS = (ast.FunctionDef, ast.AsyncFunctionDef)
_SCOPES = (ast.FunctionDef, ast.AsyncFunctionDef, ast.ClassDef, ast.Lambda)
_COMPS = (ast.ListComp, ast.SetComp, ast.DictComp, ast.GeneratorExp)


def walk_scope(node: ast.AST, *, comps: bool = True) -> t.Iterator[ast.AST]:
    """The nodes that belong to the scope of `node` (a module, function or any statement):
    nested function / class / lambda nodes are yielded but not entered; comprehensions are
    entered only if `comps`.  Document order."""
    todo = list(reversed(list(ast.iter_child_nodes(node))))
    while todo:
        n = todo.pop()
        yield n
        if isinstance(n, _SCOPES) or (not comps and isinstance(n, _COMPS)):
            continue
        todo.extend(reversed(list(ast.iter_child_nodes(n))))


def _pos(n: ast.AST) -> tuple[int, int]:
    return (getattr(n, "lineno", 0), getattr(n, "col_offset", 0))


def body_of(fn: ast.AST) -> list[ast.stmt]:
    """statements of a function without its docstring"""
    b = list(fn.body)
    if b and isinstance(b[0], ast.Expr) and isinstance(b[0].value, ast.Constant) and isinstance(b[0].value.value, str):
        b = b[1:]
    return b


def params_of(fn) -> list[str]:
    a = fn.args
    return [x.arg for x in a.posonlyargs + a.args + a.kwonlyargs] + [x.arg for x in (a.vararg, a.kwarg) if x]


def param_default(fn, name: str) -> ast.expr | None:
    a = fn.args
    pos = a.posonlyargs + a.args
    for p, d in zip(pos[len(pos) - len(a.defaults):], a.defaults):
        if p.arg == name:
            return d
    for p, d in zip(a.kwonlyargs, a.kw_defaults):
        if p.arg == name:
            return d
    return None


def bind_call(fn, call: ast.Call, *, method: bool = False) -> dict[str, ast.expr]:
    """parameter name -> argument expression of `call` to `fn` (no defaults filled in)"""
    a = fn.args
    pos = [x.arg for x in a.posonlyargs + a.args]
    if method:
        pos = pos[1:]
    _need(not any(isinstance(x, ast.Starred) for x in call.args) and all(k.arg for k in call.keywords),
          f"call of {fn.name} with * or ** arguments")
    _need(len(call.args) <= len(pos), f"call of {fn.name}: too many positional arguments")
    out = dict(zip(pos, call.args))
    names = set(pos) | {x.arg for x in a.kwonlyargs}
    for k in call.keywords:
        _need(k.arg in names and k.arg not in out, f"call of {fn.name}: unexpected argument {k.arg}")
        out[k.arg] = k.value
    return out


class Src:
    """One module of the tree under check: parsed source, single-assignment name resolution,
    static evaluation, function lookup and call closure."""

    def __init__(self, path: pathlib.Path):
        self.path = path
        self.mod = ast.parse(path.read_text(), filename=str(path))
        self._bind: dict[int, dict[str, list[ast.AST]]] = {}
        self._globals = {x for n in ast.walk(self.mod) if isinstance(n, (ast.Global, ast.Nonlocal)) for x in n.names}
        self.functions: dict[str, list[ast.AST]] = collections.defaultdict(list)     # module level
        self.methods: dict[tuple[str, str], list[ast.AST]] = collections.defaultdict(list)
        self.owner: dict[int, str | None] = {}                                       # id(def) -> class name
        for s in self.mod.body:
            if isinstance(s, _FUNCS):
                self.functions[s.name].append(s)
                self.owner[id(s)] = None
            elif isinstance(s, ast.ClassDef):
                for m in s.body:
                    if isinstance(m, _FUNCS):
                        self.methods[(s.name, m.name)].append(m)
                        self.owner[id(m)] = s.name

    # ---- functions
    def func(self, name: str, cls: str | None = None):
        """the function `name` (module level, or method of `cls`); exactly one definition"""
        found = self.methods.get((cls, name), []) if cls else self.functions.get(name, [])
        where = f"{cls}.{name}" if cls else name
        _need(found, f"{self.path.name}: no function {where}")
        _need(len(found) == 1, f"{self.path.name}: {where} is defined {len(found)} times")
        fn = found[0]
        _need(not any(isinstance(n, (ast.Global, ast.Nonlocal)) for n in walk_scope(fn)),
              f"{where}: global/nonlocal declaration")
        return fn

    def callee(self, fn, call: ast.Call):
        """the same-module function a call inside `fn` goes to (module function called by name,
        or method of fn's class called through its first parameter), else None"""
        f = call.func
        if isinstance(f, ast.Name):
            if f.id in self.bindings(fn):            # a local shadows the module function
                return None
            defs = self.functions.get(f.id, [])
            if len(defs) == 1 and len(self.bindings(self.mod).get(f.id, [])) == 1:
                return defs[0]
            return None
        cls = self.owner.get(id(fn))
        if cls and isinstance(f, ast.Attribute) and isinstance(f.value, ast.Name):
            a = fn.args.posonlyargs + fn.args.args
            if a and f.value.id == a[0].arg:
                defs = self.methods.get((cls, f.attr), [])
                if len(defs) == 1:
                    return defs[0]
        return None

    def calls_in(self, fn) -> list[tuple[ast.Call, t.Any]]:
        return [(n, self.callee(fn, n)) for n in walk_scope(fn) if isinstance(n, ast.Call)]

    def closure(self, fn, depth: int = 2) -> list:
        """`fn` and the same-module functions it calls, `depth` levels deep (fn first)"""
        out, frontier = [fn], [fn]
        for _ in range(depth):
            nxt = []
            for f in frontier:
                for _c, g in self.calls_in(f):
                    if g is not None and all(g is not h for h in out):
                        out.append(g)
                        nxt.append(g)
            frontier = nxt
        return out

    # ---- bindings
    def bindings(self, scope) -> dict[str, list[ast.AST]]:
        """name -> the nodes that bind it in `scope` (the module or one function)"""
        if id(scope) in self._bind:
            return self._bind[id(scope)]
        b: dict[str, list[ast.AST]] = collections.defaultdict(list)
        if isinstance(scope, _FUNCS):
            a = scope.args
            for x in a.posonlyargs + a.args + a.kwonlyargs + [y for y in (a.vararg, a.kwarg) if y]:
                b[x.arg].append(x)
        for n in walk_scope(scope, comps=False):
            if isinstance(n, ast.Name) and isinstance(n.ctx, (ast.Store, ast.Del)):
                b[n.id].append(n)
            elif isinstance(n, (ast.FunctionDef, ast.AsyncFunctionDef, ast.ClassDef)):
                b[n.name].append(n)
            elif isinstance(n, (ast.Import, ast.ImportFrom)):
                for al in n.names:
                    b[(al.asname or al.name).split(".")[0]].append(n)
            elif isinstance(n, ast.ExceptHandler) and n.name:
                b[n.name].append(n)
            elif isinstance(n, (ast.Global, ast.Nonlocal)):
                for x in n.names:
                    b[x].append(n)
            elif type(n).__name__.startswith("Match"):
                raise Shape(f"{self.path.name}: match statement in a scope that is read statically")
        for n in walk_scope(scope, comps=True):          # walrus inside a comprehension binds outside
            if isinstance(n, ast.NamedExpr) and isinstance(n.target, ast.Name) and all(n.target is not x for x in b[n.target.id]):
                b[n.target.id].append(n.target)
        self._bind[id(scope)] = b
        return b

    def _single_assignment(self, scope, name: str) -> ast.expr:
        """the expression `name` was bound to, if `name` is bound exactly once in `scope` and
        that binding is a plain `name = expr` / `name: T = expr`"""
        bs = self.bindings(scope).get(name, [])
        _need(len(bs) == 1, f"{name}: bound {len(bs)} times" if not isinstance(scope, ast.Module) or bs
              else f"no module-level assignment of {name}")
        tgt = bs[0]
        for n in walk_scope(scope, comps=False):
            if isinstance(n, ast.Assign) and len(n.targets) == 1 and n.targets[0] is tgt:
                return n.value
            if isinstance(n, ast.AnnAssign) and n.target is tgt and n.value is not None:
                return n.value
        raise NotStatic(f"{name}: not bound by a plain assignment")

    def is_module_import(self, name: str, module: str) -> bool:
        bs = self.bindings(self.mod).get(name, [])
        return (len(bs) == 1 and isinstance(bs[0], ast.Import) and name not in self._globals
                and any((al.asname or al.name) == name and al.name == module for al in bs[0].names))

    def is_builtin(self, name: str, fn=None) -> bool:
        return name not in self.bindings(self.mod) and not (fn is not None and name in self.bindings(fn))

    def value_of(self, name: ast.Name, fn=None, *, defaults: bool = False) -> tuple[ast.expr, t.Any]:
        """(expression, scope it must be read in) a Name stands for at the place it is used"""
        if fn is not None and name.id in self.bindings(fn):
            if name.id in params_of(fn):
                _need(len(self.bindings(fn)[name.id]) == 1, f"{fn.name}: parameter {name.id} is rebound")
                d = param_default(fn, name.id) if defaults else None
                if d is None:
                    raise NotStatic(f"{fn.name}: {name.id} is a parameter")
                return d, None
            v = self._single_assignment(fn, name.id)
            tgt = self.bindings(fn)[name.id][0]
            if not _pos(tgt) < _pos(name):
                raise NotStatic(f"{fn.name}: {name.id} is used before it is bound")
            return v, fn
        if name.id in self._globals:
            raise NotStatic(f"{name.id} is declared global somewhere")
        if self._mutated(name.id):
            raise NotStatic(f"{name.id} is modified in place somewhere")
        try:
            v = self._single_assignment(self.mod, name.id)
        except NotStatic:
            raise
        except Shape as e:
            raise NotStatic(str(e)) from None
        tgt = self.bindings(self.mod)[name.id][0]
        if not any(isinstance(s, (ast.Assign, ast.AnnAssign)) and any(x is tgt for x in ast.walk(s)) for s in self.mod.body):
            raise NotStatic(f"{name.id} is bound inside a nested block")
        return v, None

    _MUTATORS = frozenset({"append", "extend", "insert", "remove", "pop", "clear", "sort", "reverse", "update", "add", "discard",
                           "setdefault", "popitem", "difference_update", "intersection_update", "symmetric_difference_update",
                           "__setitem__", "__delitem__", "__iadd__", "__ior__"})

    def _mutated(self, name: str) -> bool:
        """is the object a module-level name stands for modified in place anywhere in this module
        (x.append(..), x[k] = .., del x[k], x[k] += ..)?  Scopes in which the name is rebound are
        already excluded by the binding count / by `callee`."""
        for n in ast.walk(self.mod):
            if isinstance(n, ast.Attribute) and isinstance(n.value, ast.Name) and n.value.id == name:
                if n.attr in self._MUTATORS or isinstance(n.ctx, (ast.Store, ast.Del)):
                    return True
            if isinstance(n, ast.Subscript) and isinstance(n.value, ast.Name) and n.value.id == name and isinstance(n.ctx, (ast.Store, ast.Del)):
                return True
        return False

    def assigned(self, name: str) -> ast.expr:
        """value expression of a module-level constant"""
        try:
            return self.value_of(ast.Name(id=name, ctx=ast.Load(), lineno=10 ** 9, col_offset=0))[0]
        except NotStatic as e:
            raise Shape(f"{self.path.name}: {e}") from None

    def const(self, name: str, ty):
        v = self.ev(self.assigned(name))
        _need(isinstance(v, ty) and not (ty is int and isinstance(v, bool)), f"{self.path.name}: {name} is not a {ty.__name__} constant")
        return v

    # ---- static evaluation
    def ev(self, e: ast.expr, fn=None, *, defaults: bool = False, _d: int = 0):
        """Value of a constant expression.  Raises NotStatic for anything it does not know."""
        if _d > 25:
            raise NotStatic("resolution too deep")

        def r(x, scope=fn):
            return self.ev(x, scope, defaults=defaults, _d=_d + 1)

        if isinstance(e, ast.Constant):
            if isinstance(e.value, (str, bytes, int, bool, type(None))):
                return e.value
        elif isinstance(e, ast.Tuple):
            return tuple(r(x) for x in e.elts)
        elif isinstance(e, ast.List):
            return [r(x) for x in e.elts]
        elif isinstance(e, ast.Set):
            return frozenset(r(x) for x in e.elts)
        elif isinstance(e, ast.Dict):
            if all(k is not None for k in e.keys):
                return {r(k): r(v) for k, v in zip(e.keys, e.values)}
        elif isinstance(e, ast.Name):
            v, scope = self.value_of(e, fn, defaults=defaults)
            return r(v, scope)
        elif isinstance(e, ast.UnaryOp) and isinstance(e.op, ast.USub):
            v = r(e.operand)
            if type(v) is int:
                return -v
        elif isinstance(e, ast.BinOp):
            a, b = r(e.left), r(e.right)
            if type(a) is int and type(b) is int:
                if isinstance(e.op, ast.Add):
                    return a + b
                if isinstance(e.op, ast.Sub):
                    return a - b
                if isinstance(e.op, ast.Mult):
                    return a * b
            if isinstance(e.op, ast.Add) and type(a) is type(b) and isinstance(a, (str, bytes, tuple, list)):
                return a + b
            if isinstance(e.op, ast.Mult) and isinstance(a, (str, bytes)) and type(b) is int:
                return a * b
        elif isinstance(e, ast.JoinedStr):
            out = ""
            for p in e.values:
                if isinstance(p, ast.Constant) and isinstance(p.value, str):
                    out += p.value
                elif isinstance(p, ast.FormattedValue) and p.conversion == -1 and p.format_spec is None:
                    v = r(p.value)
                    if type(v) not in (str, int):
                        raise NotStatic("f-string part is not str/int")
                    out += str(v)
                else:
                    raise NotStatic("f-string with conversion or format spec")
            return out
        elif isinstance(e, ast.Attribute) and isinstance(e.value, ast.Name) and not (fn is not None and e.value.id in self.bindings(fn)):
            if e.attr == "maxsize" and self.is_module_import(e.value.id, "sys"):
                return sys.maxsize
            if e.attr == "linesep" and self.is_module_import(e.value.id, "os"):
                return os.linesep
        elif isinstance(e, ast.Call) and not any(isinstance(x, ast.Starred) for x in e.args):
            f = e.func
            if isinstance(f, ast.Name) and self.is_builtin(f.id, fn) and not e.keywords:
                if f.id in ("frozenset", "set", "tuple", "list") and len(e.args) <= 1:
                    v = r(e.args[0]) if e.args else ()
                    if isinstance(v, (tuple, list, frozenset)):
                        return {"frozenset": frozenset, "set": frozenset, "tuple": tuple, "list": list}[f.id](v)
                if f.id == "len" and len(e.args) == 1:
                    v = r(e.args[0])
                    if isinstance(v, (str, bytes, tuple, list, frozenset, dict)):
                        return len(v)
                if f.id == "ord" and len(e.args) == 1:
                    v = r(e.args[0])
                    if isinstance(v, str) and len(v) == 1:
                        return ord(v)
                if f.id == "chr" and len(e.args) == 1:
                    v = r(e.args[0])
                    if type(v) is int and 0 <= v < 0x110000:
                        return chr(v)
            if isinstance(f, ast.Attribute) and not e.keywords:
                if (f.attr == "compile" and isinstance(f.value, ast.Name) and self.is_module_import(f.value.id, "re")
                        and not (fn is not None and f.value.id in self.bindings(fn)) and len(e.args) == 1):
                    v = r(e.args[0])
                    if isinstance(v, str):
                        return Regex(v)
                if f.attr == "format":
                    s, args = r(f.value), [r(x) for x in e.args]
                    if isinstance(s, str) and all(type(x) in (str, int) for x in args):
                        try:
                            return s.format(*args)
                        except (IndexError, KeyError, ValueError) as ex:
                            raise NotStatic(f"str.format: {ex}") from None
                if f.attr == "encode" and len(e.args) <= 1:
                    s = r(f.value)
                    enc = r(e.args[0]) if e.args else "utf-8"
                    if isinstance(s, str) and isinstance(enc, str) and enc.lower().replace("_", "-") in ("ascii", "utf-8", "utf8"):
                        try:
                            return s.encode(enc)
                        except UnicodeError as ex:
                            raise NotStatic(str(ex)) from None
                if f.attr == "join" and len(e.args) == 1:
                    s, parts = r(f.value), r(e.args[0])
                    if isinstance(s, (str, bytes)) and isinstance(parts, (tuple, list)) and all(type(x) is type(s) for x in parts):
                        return s.join(parts)
        raise NotStatic(f"not a static constant: {ast.unparse(e)[:70]}")

    def try_ev(self, e, fn=None, **kw):
        try:
            return True, self.ev(e, fn, **kw)
        except NotStatic:
            return False, None

    def inline(self, e: ast.expr, fn, _d: int = 0) -> ast.expr:
        """`e` with the locals of `fn` that are bound exactly once replaced by what they were bound to"""
        if _d > 10:
            return e
        src = self

        class Sub(ast.NodeTransformer):
            def visit_Name(self, n):
                if isinstance(n.ctx, ast.Load) and n.id in src.bindings(fn) and n.id not in params_of(fn):
                    try:
                        v, _scope = src.value_of(n, fn)
                    except Shape:
                        return n
                    return src.inline(v, fn, _d + 1)
                return n
        import copy
        return Sub().visit(copy.deepcopy(e))


# ------------------------------------------------------------------ Gallina rendering
def g_str(s: str | bytes) -> str:
    pts = list(s) if isinstance(s, (bytes, bytearray)) else [ord(c) for c in s]
    return "[" + ";".join(map(str, pts)) + "]%N" if pts else "(@nil N)"


def g_ranges(cls) -> str:
    return "[" + "; ".join(f"({lo}, {hi})" for lo, hi in cls) + "]%N"


def split_qname(s: str) -> tuple[str, str]:
    if s.startswith("{"):
        uri, _, local = s[1:].partition("}")
        _need(uri and local, f"bad qualified name {s!r}")
        return uri, local
    return "", s


def _strs(v, what: str) -> list[str]:
    _need(isinstance(v, (tuple, list, frozenset)) and all(isinstance(x, str) for x in v), f"{what}: not a collection of strings")
    return sorted(v)


# ------------------------------------------------------------------ exs.py
def x_regex_class(exs: Src, name: str) -> tuple[str, list[tuple[int, int]]]:
    v = exs.ev(exs.assigned(name))
    _need(isinstance(v, Regex), f"{name}: not re.compile(<constant string>)")
    return v.source, parse_class(v.source)


def x_comment_pattern(exs: Src, text_cls):
    """the class `_serialize_comment` makes `_serialize_text` escape in the comment's text"""
    fc, ft = exs.func("_serialize_comment"), exs.func("_serialize_text")
    pats = []
    ncalls = 0
    for f in exs.closure(fc, 1):
        if f is ft:
            continue
        for call, g in exs.calls_in(f):
            if g is ft:
                ncalls += 1
                b = bind_call(ft, call)
                if "pattern" in b:
                    pats.append((b["pattern"], f))
    _need(ncalls >= 1, "_serialize_comment: does not call _serialize_text")
    _need(len(pats) <= 1, "_serialize_comment: several pattern= arguments")
    if not pats:
        return text_cls
    p, f = pats[0]
    try:
        v = exs.ev(p, f)
    except NotStatic as e:
        raise Shape(f"_serialize_comment: pattern= {e}") from None
    _need(isinstance(v, Regex), "_serialize_comment: pattern= is not re.compile(<constant string>)")
    return parse_class(v.source)


def x_default_pattern(exs: Src, fn_name: str, text_src: str) -> None:
    f = exs.func(fn_name)
    d = param_default(f, "pattern")
    _need(d is not None, f"{fn_name}: no default for pattern")
    try:
        v = exs.ev(d)
    except NotStatic as e:
        raise Shape(f"{fn_name}: default pattern: {e}") from None
    _need(isinstance(v, Regex) and v.source == text_src, f"{fn_name}: default pattern is not P_ESCAPE_TEXT")


def _relations(test: ast.expr) -> list[tuple[ast.expr, ast.cmpop, ast.expr]] | None:
    """a test that is a conjunction of order comparisons -> [(left, op, right)], else None"""
    if isinstance(test, ast.BoolOp) and isinstance(test.op, ast.And):
        out = []
        for v in test.values:
            r = _relations(v)
            if r is None:
                return None
            out += r
        return out
    if isinstance(test, ast.Compare) and all(isinstance(o, (ast.Lt, ast.LtE, ast.Gt, ast.GtE)) for o in test.ops):
        xs = [test.left, *test.comparators]
        return [(xs[i], test.ops[i], xs[i + 1]) for i in range(len(test.ops))]
    return None


def x_escape_bounds(exs: Src) -> tuple[int, int]:
    """[lo, hi]: the code points `_escape_char` writes as a named entity (&name;)"""
    fe = exs.func("_escape_char")

    def is_ord(e) -> bool:
        e = exs.inline(e, fe)
        return (isinstance(e, ast.Call) and isinstance(e.func, ast.Name) and e.func.id == "ord" and exs.is_builtin("ord", fe)
                and len(e.args) == 1 and not e.keywords)

    found = []
    for n in walk_scope(fe):
        if not isinstance(n, (ast.If, ast.IfExp)):
            continue
        rel = _relations(n.test)
        if rel is None or not any(is_ord(a) or is_ord(b) for a, _o, b in rel):
            continue
        lo, hi, used = 0, sys.maxunicode, set()
        for a, op, b in rel:
            _need(is_ord(a) != is_ord(b), "_escape_char: comparison is not between ord(char) and a bound")
            bound, flip = (b, False) if is_ord(a) else (a, True)
            try:
                v = exs.ev(bound, fe, defaults=True)
            except NotStatic as e:
                raise Shape(f"_escape_char: bound {e}") from None
            _need(type(v) is int, "_escape_char: bound is not an int")
            used |= {x.id for x in ast.walk(exs.inline(bound, fe)) if isinstance(x, ast.Name) and x.id in params_of(fe)}
            # normalise to  ord(char) OP v
            kind = type(op)
            if flip:
                kind = {ast.Lt: ast.Gt, ast.LtE: ast.GtE, ast.Gt: ast.Lt, ast.GtE: ast.LtE}[kind]
            if kind is ast.GtE:
                lo = max(lo, v)
            elif kind is ast.Gt:
                lo = max(lo, v + 1)
            elif kind is ast.LtE:
                hi = min(hi, v)
            else:
                hi = min(hi, v - 1)
        yes = n.body if isinstance(n, ast.If) else [n.body]
        no = n.orelse if isinstance(n, ast.If) else [n.orelse]
        named = lambda stmts: any("codepoint2name" in ast.unparse(s) for s in stmts)  # noqa: E731
        _need(named(yes) and not named(no), "_escape_char: the range test does not select the named-entity branch")
        found.append((lo, hi, used))
    _need(len(found) == 1, f"_escape_char: {len(found)} range tests on ord(char)")
    lo, hi, used = found[0]
    # parameter defaults are the values only if nobody passes these parameters
    for n in ast.walk(exs.mod):
        if isinstance(n, ast.Call):
            direct = isinstance(n.func, ast.Name) and n.func.id == fe.name
            mentions = any(isinstance(x, ast.Name) and x.id == fe.name for a in n.args for x in ast.walk(a))
            if direct:
                _need(not (set(bind_call(fe, n)) & used), "_escape_char is called with explicit bounds")
            elif mentions:
                _need(not ({k.arg for k in n.keywords} & used) and all(k.arg for k in n.keywords),
                      "_escape_char is wrapped with explicit bounds")
    return lo, hi


def x_priority_attrs(exs: Src) -> list[str]:
    fu = exs.func("_unmapped_attrs")
    cands = []
    for f in exs.closure(fu):
        for n in walk_scope(f):
            if isinstance(n, (ast.For, ast.comprehension)):
                ok, v = exs.try_ev(n.iter, f)
                if ok and isinstance(v, (tuple, list)) and v and all(isinstance(x, str) for x in v):
                    cands.append(list(v))
    _need(cands, "_unmapped_attrs: priority attribute tuple not found")
    _need(len(cands) == 1, "_unmapped_attrs: two constant loops")
    _need(len(set(cands[0])) == len(cands[0]), "_unmapped_attrs: duplicate priority attribute")
    return cands[0]


def _static_prefix(exs: Src, e: ast.expr, f) -> str | None:
    """`<constant text>{variable}` / `<constant> + variable` -> the constant text"""
    def variable(x):
        return isinstance(x, ast.Name) and not exs.try_ev(x, f)[0]
    if isinstance(e, ast.JoinedStr) and len(e.values) >= 2:
        *head, last = e.values
        if not (isinstance(last, ast.FormattedValue) and last.conversion == -1 and last.format_spec is None and variable(last.value)):
            return None
        ok, s = exs.try_ev(ast.JoinedStr(values=head), f)
        return s if ok and s else None
    if isinstance(e, ast.BinOp) and isinstance(e.op, ast.Add) and variable(e.right):
        ok, s = exs.try_ev(e.left, f)
        return s if ok and isinstance(s, str) and s else None
    return None


def x_xmlns_prefix(exs: Src) -> str:
    fu = exs.func("_unmapped_attrs")
    cands = []
    for f in exs.closure(fu):
        for n in walk_scope(f):
            if isinstance(n, ast.Tuple) and len(n.elts) == 2 and isinstance(n.ctx, ast.Load):
                p = _static_prefix(exs, n.elts[0], f)
                if p is not None:
                    cands.append(p)
    _need(len(cands) == 1, "_unmapped_attrs: xmlns f-string not found")
    return cands[0]


def x_root_break_attr(exs: Src) -> str:
    """the attribute name after which a line break is forced: `<name variable of the attribute
    loop> == <constant>` inside a loop over (name, value) pairs"""
    fel = exs.func("_serialize_element")
    cands = []
    for f in exs.closure(fel):
        for loop in walk_scope(f):
            if not (isinstance(loop, ast.For) and isinstance(loop.target, ast.Tuple) and len(loop.target.elts) == 2
                    and all(isinstance(x, ast.Name) for x in loop.target.elts)):
                continue
            var = loop.target.elts[0].id
            for n in walk_scope(loop):
                if isinstance(n, ast.Compare) and len(n.ops) == 1 and isinstance(n.ops[0], ast.Eq):
                    a, b = n.left, n.comparators[0]
                    for x, y in ((a, b), (b, a)):
                        if isinstance(x, ast.Name) and x.id == var:
                            ok, v = exs.try_ev(y, f)
                            if ok and isinstance(v, str):
                                cands.append(v)
    _need(len(cands) == 1, "_serialize_element: forced-break attribute test not found")
    return cands[0]


def x_ns_ranks(exs: Src) -> tuple[list[tuple[str, int]], int]:
    """`_ns_sortkey((prefix, uri))` = (rank(prefix), prefix): the rank table (first match wins) and the default rank"""
    fk = exs.func("_ns_sortkey")
    a = fk.args
    _need(len(a.posonlyargs + a.args) == 1 and not a.kwonlyargs and not a.vararg and not a.kwarg, "_ns_sortkey: parameters")
    v = (a.posonlyargs + a.args)[0].arg
    first = {f"{v}[0]"}
    stmts = body_of(fk)
    while stmts and isinstance(stmts[0], (ast.Assign, ast.AnnAssign)):
        s = stmts.pop(0)
        tgt = s.targets[0] if isinstance(s, ast.Assign) and len(s.targets) == 1 else getattr(s, "target", None)
        val = s.value
        if (isinstance(tgt, ast.Tuple) and len(tgt.elts) == 2 and all(isinstance(x, ast.Name) for x in tgt.elts)
                and isinstance(val, ast.Name) and val.id == v and tgt.elts[0].id != tgt.elts[1].id):
            first.add(tgt.elts[0].id)
        elif isinstance(tgt, ast.Name) and val is not None and ast.unparse(val) == f"{v}[0]":
            first.add(tgt.id)
        else:
            raise Shape("_ns_sortkey: unexpected assignment")
    for name in first - {f"{v}[0]"}:
        _need(len(exs.bindings(fk)[name]) == 1, "_ns_sortkey: prefix variable is rebound")
    _need(len(exs.bindings(fk)[v]) == 1, "_ns_sortkey: parameter is rebound")

    def is_first(e) -> bool:
        return ast.unparse(e) in first

    def keys_of(test) -> list[str]:
        _need(isinstance(test, ast.Compare) and len(test.ops) == 1, "_ns_sortkey: unexpected if")
        l, op, r = test.left, test.ops[0], test.comparators[0]
        if isinstance(op, ast.Eq):
            if not is_first(l):
                l, r = r, l
            _need(is_first(l), "_ns_sortkey: unexpected if")
            ok, c = exs.try_ev(r, fk)
            _need(ok and isinstance(c, str), "_ns_sortkey: unexpected if")
            return [c]
        _need(isinstance(op, ast.In) and is_first(l) and isinstance(r, (ast.Tuple, ast.List, ast.Set)), "_ns_sortkey: unexpected if")
        cs = [exs.ev(x, fk) for x in r.elts]
        _need(all(isinstance(c, str) for c in cs), "_ns_sortkey: unexpected if")
        return cs

    def rank_expr(e) -> tuple[list[tuple[str, int]], int]:
        if isinstance(e, ast.IfExp):
            ks = keys_of(e.test)
            ok, r = exs.try_ev(e.body, fk)
            _need(ok and type(r) is int, "_ns_sortkey: unexpected key")
            rest, d = rank_expr(e.orelse)
            return [(k, r) for k in ks] + rest, d
        if (isinstance(e, ast.Call) and isinstance(e.func, ast.Attribute) and e.func.attr == "get" and len(e.args) == 2
                and not e.keywords and is_first(e.args[0])):
            ok, tbl = exs.try_ev(e.func.value, fk)
            ok2, d = exs.try_ev(e.args[1], fk)
            _need(ok and ok2 and isinstance(tbl, dict) and type(d) is int
                  and all(isinstance(k, str) and type(r) is int for k, r in tbl.items()), "_ns_sortkey: unexpected key")
            return list(tbl.items()), d
        ok, d = exs.try_ev(e, fk)
        _need(ok and type(d) is int, "_ns_sortkey: unexpected key")
        return [], d

    def key_expr(e) -> tuple[list[tuple[str, int]], int]:
        _need(isinstance(e, ast.Tuple) and len(e.elts) == 2 and is_first(e.elts[1]), "_ns_sortkey: unexpected key")
        return rank_expr(e.elts[0])

    def block(ss: list[ast.stmt]) -> tuple[list[tuple[str, int]], int | None]:
        """(table, default or None if the block falls through)"""
        table: list[tuple[str, int]] = []
        for i, s in enumerate(ss):
            if isinstance(s, ast.Return):
                _need(i == len(ss) - 1 and s.value is not None, "_ns_sortkey: unexpected statement")
                tb, d = key_expr(s.value)
                return table + tb, d
            if isinstance(s, ast.If):
                ks = keys_of(s.test)
                tb, d = block(s.body)
                _need(not tb and d is not None, "_ns_sortkey: unexpected if")
                table += [(k, d) for k in ks]
                if s.orelse:
                    tb2, d2 = block(s.orelse)
                    table += tb2
                    if d2 is not None:
                        _need(i == len(ss) - 1, "_ns_sortkey: unexpected statement")
                        return table, d2
                continue
            _need(isinstance(s, ast.Pass) or (isinstance(s, ast.Expr) and isinstance(s.value, ast.Constant)),
                  "_ns_sortkey: unexpected statement")
        return table, None

    ranks, default = block(stmts)
    _need(default is not None and all(r >= 0 for _, r in ranks) and default >= 0, "_ns_sortkey: no default rank")
    return ranks, default


def x_cdata_flag(exs: Src) -> bool:
    """does `_serialize_text` rewrite "]]>" to "]]&gt;" in the text it has escaped?"""
    ft, fesc = exs.func("_serialize_text"), exs.func("_escape")
    repl = [n for f in exs.closure(ft, 1) if f is not fesc and f is not exs.func("_escape_char")
            for n in walk_scope(f) if isinstance(n, ast.Call) and isinstance(n.func, ast.Attribute) and n.func.attr == "replace"]
    if not repl:
        # the rewriting must not happen anywhere else either (e.g. inside _escape, which attribute values share)
        for f in exs.closure(ft):
            for n in walk_scope(f):
                _need(not (isinstance(n, ast.Call) and isinstance(n.func, ast.Attribute) and n.func.attr == "replace"),
                      f"{f.name}: unknown .replace(..)")
        return False
    _need(len(repl) == 1, "_serialize_text: unknown .replace(..)")
    call = repl[0]
    owner = next(f for f in exs.closure(ft, 1) if any(n is call for n in walk_scope(f)))
    _need(owner is ft, "_serialize_text: unknown .replace(..)")
    try:
        args = [exs.ev(x, ft) for x in call.args]
    except NotStatic:
        args = None
    recv = exs.inline(call.func.value, ft)
    _need(args == ["]]>", "]]&gt;"] and not call.keywords and isinstance(recv, ast.Call) and exs.callee(ft, recv) is fesc,
          "_serialize_text: unknown .replace(..)")
    return True


_TEXTS = (None, "", " ", "\n \t", "x", " x\n")
_COUNTS = (0, 1, 2)


class _Untyped(Exception):
    pass


def _tv(exs: Src, e: ast.expr, fn, elem: str, text, n: int, _d: int = 0):
    """Value of a condition over an element's `.text` (None / "" / blank / non-blank) and its
    number of children, for the restricted language: .text, len(element), .strip(), and/or/not,
    `is [not] None`, comparisons with 0 / 1 / "", bool().  Anything else: _Untyped."""
    if _d > 30:
        raise _Untyped
    r = lambda x: _tv(exs, x, fn, elem, text, n, _d + 1)  # noqa: E731
    if isinstance(e, ast.Attribute) and e.attr == "text" and isinstance(e.value, ast.Name) and e.value.id == elem:
        return text
    if isinstance(e, ast.Constant) and (e.value is None or e.value == "" or e.value is True or e.value is False
                                        or (type(e.value) is int and e.value in (0, 1))):
        return e.value
    if isinstance(e, ast.Name) and e.id != elem:
        try:
            v, scope = exs.value_of(e, fn)
        except Shape:
            raise _Untyped from None
        if scope is not fn:
            raise _Untyped
        return _tv(exs, v, fn, elem, text, n, _d + 1)
    if isinstance(e, ast.BoolOp):
        v = None
        for x in e.values:
            v = r(x)
            if isinstance(e.op, ast.And) and not v:
                return v
            if isinstance(e.op, ast.Or) and v:
                return v
        return v
    if isinstance(e, ast.UnaryOp) and isinstance(e.op, ast.Not):
        return not r(e.operand)
    if isinstance(e, ast.Call) and not e.keywords:
        f = e.func
        if isinstance(f, ast.Name) and f.id == "len" and exs.is_builtin("len", fn) and len(e.args) == 1 \
                and isinstance(e.args[0], ast.Name) and e.args[0].id == elem:
            return n
        if isinstance(f, ast.Name) and f.id == "bool" and exs.is_builtin("bool", fn) and len(e.args) == 1:
            return bool(r(e.args[0]))
        if isinstance(f, ast.Attribute) and f.attr == "strip" and not e.args:
            v = r(f.value)
            if not isinstance(v, str):
                raise _Untyped          # would raise at run time
            return v.strip()
    if isinstance(e, ast.Compare) and len(e.ops) == 1:
        a, op, b = r(e.left), e.ops[0], r(e.comparators[0])
        if isinstance(op, (ast.Is, ast.IsNot)) and (a is None or b is None):
            return (a is b) == isinstance(op, ast.Is)
        if isinstance(op, (ast.Eq, ast.NotEq)) and (type(a) is type(b) or a is None or b is None) and not isinstance(a, bool):
            return (a == b) == isinstance(op, ast.Eq)
        if type(a) is int and type(b) is int:
            if isinstance(op, ast.Lt):
                return a < b
            if isinstance(op, ast.LtE):
                return a <= b
            if isinstance(op, ast.Gt):
                return a > b
            if isinstance(op, ast.GtE):
                return a >= b
    raise _Untyped


def x_blank_leaf_flag(exs: Src) -> bool:
    """Which elements get their `.text` written?  True: `text and (no children or text.strip())`
    (whitespace-only text of a leaf is kept), False: `(text or "").strip()`."""
    fel = exs.func("_serialize_element")
    elems: dict[int, tuple[t.Any, str]] = {}
    pos = [x.arg for x in fel.args.posonlyargs + fel.args.args]
    _need("element" in pos, "_serialize_element: no parameter `element`")
    elems[id(fel)] = (fel, "element")
    for call, g in exs.calls_in(fel):           # helpers that receive the element
        if g is not None and g is not fel and g.name not in ("_serialize_text", "_unmapped_attrs", "_unmap_namespace"):
            for p, arg in bind_call(g, call).items():
                if isinstance(arg, ast.Name) and arg.id == "element" and len(exs.bindings(g).get(p, [])) == 1:
                    _need(id(g) not in elems or elems[id(g)][1] == p, f"{g.name}: receives the element twice")
                    elems[id(g)] = (g, p)
    tables = []
    for f, elem in elems.values():
        for node in walk_scope(f):
            if not isinstance(node, (ast.If, ast.IfExp)):
                continue
            mentions = any(isinstance(x, ast.Attribute) and x.attr == "text" and isinstance(x.value, ast.Name) and x.value.id == elem
                           for x in ast.walk(exs.inline(node.test, f)))
            if not mentions:
                continue
            try:
                tables.append(tuple(bool(_tv(exs, node.test, f, elem, tx, n)) for tx in _TEXTS for n in _COUNTS))
            except _Untyped:
                continue
    _need(len(tables) == 1, "_serialize_element: text test not found")
    fixed = tuple(bool(tx and (n == 0 or tx.strip())) for tx in _TEXTS for n in _COUNTS)
    plain = tuple(bool((tx or "").strip()) for tx in _TEXTS for n in _COUNTS)
    _need(tables[0] in (fixed, plain), "_serialize_element: unknown text test")
    return tables[0] == fixed


# ------------------------------------------------------------------ core.py
def _is_maxsize(core: Src, e: ast.expr) -> bool:
    return isinstance(e, ast.Attribute) and e.attr == "maxsize" and isinstance(e.value, ast.Name) and core.is_module_import(e.value.id, "sys")


def _is_exs_line_length(core: Src, e: ast.expr, fn) -> bool:
    if not (isinstance(e, ast.Attribute) and e.attr == "LINE_LENGTH" and isinstance(e.value, ast.Name) and e.value.id == "exs"):
        return False
    bs = core.bindings(core.mod).get("exs", [])
    return (len(bs) == 1 and isinstance(bs[0], ast.ImportFrom) and "exs" not in core.bindings(fn)
            and (bs[0].module or "").split(".")[-1:] in (["loader"], [])
            and any(al.name == "exs" and al.asname in (None, "exs") for al in bs[0].names))


def x_write_xml(core: Src) -> None:
    """ModelFile.write_xml must hand exs.write  line_length = exs.LINE_LENGTH for semantic
    fragments, sys.maxsize otherwise, and siblings=True"""
    fw = core.func("write_xml", "ModelFile")
    calls = [(f, n) for f in core.closure(fw, 1) for n in walk_scope(f)
             if isinstance(n, ast.Call) and ast.unparse(n.func) == "exs.write"]
    _need(len(calls) == 1, "write_xml: exs.write call not found")
    f, call = calls[0]
    _need(f is fw, "write_xml: exs.write is not called by write_xml itself")
    _need(all(k.arg for k in call.keywords) and not any(isinstance(x, ast.Starred) for x in call.args), "write_xml: unexpected exs.write arguments")
    kw = {k.arg: k.value for k in call.keywords}
    _need("line_length" in kw and "siblings" in kw, "write_xml: unexpected exs.write arguments")
    ok, sib = core.try_ev(kw["siblings"], fw)
    _need(ok and sib is True, "write_xml: unexpected exs.write arguments")
    self_name = (fw.args.posonlyargs + fw.args.args)[0].arg

    def semantic_test(test) -> bool | None:
        """True: test <=> fragment is SEMANTIC; False: <=> it is not; None: unknown"""
        test = core.inline(test, fw)
        if isinstance(test, ast.UnaryOp) and isinstance(test.op, ast.Not):
            r = semantic_test(test.operand)
            return None if r is None else not r
        if isinstance(test, ast.Compare) and len(test.ops) == 1 and isinstance(test.ops[0], (ast.Eq, ast.NotEq, ast.Is, ast.IsNot)):
            sides = {ast.unparse(test.left), ast.unparse(test.comparators[0])}
            if sides == {f"{self_name}.fragment_type", "FragmentType.SEMANTIC"}:
                return isinstance(test.ops[0], (ast.Eq, ast.Is))
        return None

    def choice(e) -> tuple[ast.expr, ast.expr] | None:
        """(value for semantic fragments, value otherwise)"""
        if isinstance(e, ast.IfExp):
            r = semantic_test(e.test)
            if r is not None:
                return (e.body, e.orelse) if r else (e.orelse, e.body)
        if (isinstance(e, ast.Call) and isinstance(e.func, ast.Attribute) and e.func.attr == "get" and isinstance(e.func.value, ast.Dict)
                and len(e.args) == 2 and not e.keywords and ast.unparse(e.args[0]) == f"{self_name}.fragment_type"
                and len(e.func.value.keys) == 1 and e.func.value.keys[0] is not None
                and ast.unparse(e.func.value.keys[0]) == "FragmentType.SEMANTIC"):
            return e.func.value.values[0], e.args[1]
        return None

    e = kw["line_length"]
    sel = choice(e)
    if sel is None:
        _need(isinstance(e, ast.Name) and e.id not in params_of(fw), "write_xml: unexpected line length selection")
        binds = core.bindings(fw).get(e.id, [])
        if len(binds) == 1:
            sel = choice(core.value_of(e, fw)[0])
        elif len(binds) == 2:
            for n in walk_scope(fw):
                if isinstance(n, ast.If) and len(n.body) == 1 and len(n.orelse) == 1 and _pos(n) < _pos(call):
                    vals = []
                    for s in (n.body[0], n.orelse[0]):
                        tgt = s.targets[0] if isinstance(s, ast.Assign) and len(s.targets) == 1 else getattr(s, "target", None)
                        if isinstance(s, (ast.Assign, ast.AnnAssign)) and any(tgt is b for b in binds) and s.value is not None:
                            vals.append(s.value)
                    r = semantic_test(n.test)
                    if len(vals) == 2 and r is not None and any(n is s for s in fw.body):
                        sel = (vals[0], vals[1]) if r else (vals[1], vals[0])
    _need(sel is not None, "write_xml: unexpected line length selection")
    _need(_is_exs_line_length(core, core.inline(sel[0], fw), fw) and _is_maxsize(core, core.inline(sel[1], fw)),
          "write_xml: unexpected line length selection")


def x_ns_seed(core: Src) -> list[str]:
    """the prefixes ModelFile.update_namespaces always declares: {"p": _n.NAMESPACES["p"], ...}"""
    fun = core.func("update_namespaces", "ModelFile")
    seeds = []
    for f in core.closure(fun):
        for n in walk_scope(f):
            if (isinstance(n, ast.Dict) and n.keys and all(isinstance(k, ast.Constant) and isinstance(k.value, str) for k in n.keys)
                    and all(isinstance(v, ast.Subscript) and isinstance(v.value, ast.Attribute) and v.value.attr == "NAMESPACES"
                            for v in n.values)):
                seeds.append(n)
    _need(len(seeds) == 1, "update_namespaces: seed dict not found")
    bs = core.bindings(core.mod).get("_n", [])
    _need(len(bs) == 1 and isinstance(bs[0], ast.Import) and any(al.name == "capellambse._namespaces" and al.asname == "_n" for al in bs[0].names),
          "update_namespaces: _n is not capellambse._namespaces")
    seed = []
    for k, v in zip(seeds[0].keys, seeds[0].values):
        _need(ast.unparse(v) == f"_n.NAMESPACES[{k.value!r}]", "update_namespaces: unexpected seed value")
        seed.append(k.value)
    _need(len(set(seed)) == len(seed), "update_namespaces: duplicate seed key")
    return seed


# ------------------------------------------------------------------ _namespaces.py
def x_plugins(nsm: Src) -> list[tuple[str, str, bool, str, int]]:
    d = nsm.assigned("NAMESPACES_PLUGINS")
    _need(isinstance(d, ast.Dict), "NAMESPACES_PLUGINS is not a dict literal")
    # field order and defaults of the Plugin dataclass, from its definition
    cls = [s for s in nsm.mod.body if isinstance(s, ast.ClassDef) and s.name == "Plugin"]
    _need(len(cls) == 1 and len(nsm.bindings(nsm.mod)["Plugin"]) == 1, "Plugin class not found")
    _need(any("dataclass" in ast.unparse(x) for x in cls[0].decorator_list), "Plugin is not a dataclass")
    fields: list[str] = []
    vals0: dict[str, t.Any] = {}
    for s in cls[0].body:
        if isinstance(s, ast.AnnAssign) and isinstance(s.target, ast.Name) and "ClassVar" not in ast.unparse(s.annotation):
            fields.append(s.target.id)
            if s.value is not None:
                vals0[s.target.id] = nsm.ev(s.value)
        elif isinstance(s, ast.FunctionDef):
            # __post_init__ (validation) is allowed: the table is compared with the constructed objects by the probe
            _need(s.name not in ("__init__", "__new__"), "Plugin: custom construction")
    _need({"name", "version", "viewpoint", "version_precision"} <= set(fields), "Plugin: fields")
    rows = []
    for k, v in zip(d.keys, d.values):
        _need(k is not None, "NAMESPACES_PLUGINS: ** in dict literal")
        key = nsm.ev(k)
        _need(isinstance(key, str), "NAMESPACES_PLUGINS: key")
        _need(isinstance(v, ast.Call) and isinstance(v.func, ast.Name) and v.func.id == "Plugin", f"plugin {key}: not Plugin(..)")
        _need(len(v.args) <= len(fields) and all(x.arg in fields for x in v.keywords), f"plugin {key}: arguments")
        vals = dict(vals0)
        for f, a in zip(fields, v.args):
            vals[f] = nsm.ev(a)
        for x in v.keywords:
            _need(x.arg not in fields[:len(v.args)], f"plugin {key}: argument given twice")
            vals[x.arg] = nsm.ev(x.value)
        _need(all(f in vals for f in ("name", "version", "viewpoint", "version_precision")), f"plugin {key}: missing field")
        _need(isinstance(vals["name"], str) and type(vals["version_precision"]) is int and vals["version_precision"] > 0, f"plugin {key}")
        versioned = vals["version"] is not None
        _need(vals["viewpoint"] is None or isinstance(vals["viewpoint"], str), f"plugin {key}: viewpoint")
        _need(not versioned or isinstance(vals["viewpoint"], str), f"plugin {key}: versioned without viewpoint")
        rows.append((key, vals["name"], versioned, vals["viewpoint"] or "", vals["version_precision"]))
    _need(len({r[0] for r in rows}) == len(rows), "NAMESPACES_PLUGINS: duplicate key")
    return rows


# ------------------------------------------------------------------ behavioural probe
_PROBE = r'''
import io, json, pathlib, re, sys, tempfile
repo, plan = sys.argv[1], json.load(sys.stdin)
sys.path.insert(0, repo)
import lxml.etree as ET
import capellambse._namespaces as nsm
import capellambse.loader.core as core
import capellambse.loader.exs as exs
out = {"modules": [m.__file__ for m in (exs, core, nsm)]}

def probe(name):
    def deco(f):
        try:
            out[name] = f()
        except BaseException as e:
            out[name] = {"probe-error": f"{type(e).__name__}: {e}"}
    return deco

def ser(el, **kw):
    return exs.serialize(el, **kw).decode("utf-8")

@probe("consts")
def _():
    return {"INDENT": list(exs.INDENT), "LINE_LENGTH": exs.LINE_LENGTH, "LINESEP": list(exs.LINESEP),
            "TEXT": [exs.P_ESCAPE_TEXT.pattern, exs.P_ESCAPE_TEXT.flags & ~re.UNICODE],
            "COMMENTS": [exs.P_ESCAPE_COMMENTS.pattern, exs.P_ESCAPE_COMMENTS.flags & ~re.UNICODE],
            "EXPANDED": sorted(exs.ALWAYS_EXPANDED_TAGS),
            "SEMANTIC_EXTS": sorted(core.SEMANTIC_EXTS), "VISUAL_EXTS": sorted(core.VISUAL_EXTS)}

@probe("escape_char")
def _():
    res = []
    for c in plan["escape_points"]:
        try:
            s = exs._escape_char(re.match(".", chr(c), re.S))
            res.append("num" if s.startswith("&#") else ("name:" + s[1:-1] if s.startswith("&") and s.endswith(";") else "other"))
        except KeyError:
            res.append("KeyError")
    return res

@probe("attrs")
def _():
    # attribute order / xmlns declarations / rank order / forced break, with an unlimited line
    root = ET.Element("t", nsmap=dict(plan["nsmap"]))
    for k, v in plan["root_attrs"]:
        root.set(k, v)
    child = ET.SubElement(root, "c")
    for k, v in plan["child_attrs"]:
        child.set(k, v)
    return ser(root, line_length=10 ** 9)

@probe("wrap")
def _():
    res = []
    for n in plan["wrap_lengths"]:
        root = ET.Element("t")
        root.set("a", "x" * n)
        root.set("b", "1")
        child = ET.SubElement(root, "c")
        child.set("a", "y" * n)
        child.set("b", "2")
        res.append(ser(root))
    return res

@probe("expanded")
def _():
    root = ET.Element("t")
    for tag in plan["tags"]:
        ET.SubElement(root, tag)
    return ser(root)

@probe("text")
def _():
    res = {}
    for c in plan["text_points"]:
        el = ET.Element("t")
        el.text = "a" + chr(c) + "a"
        el.set("k", "a" + chr(c) + "a")
        res[str(c)] = ser(el, line_length=10 ** 9)
    return res

@probe("comment")
def _():
    res = {}
    for c in plan["comment_points"]:
        el = ET.Element("t")
        el.addnext(ET.Comment("a" + chr(c) + "a"))
        res[str(c)] = ser(el.getroottree())
    return res

@probe("special")
def _():
    a = ET.Element("t"); a.text = "x]]>y"; a.set("k", "x]]>y")
    b = ET.Element("t"); ET.SubElement(b, "c").text = "  "
    c = ET.Element("t"); c.text = "  "; ET.SubElement(c, "c")
    d = ET.Element("t"); ET.SubElement(d, "c").text = ""
    return [ser(x, line_length=10 ** 9) for x in (a, b, c, d)]

@probe("plugins")
def _():
    return {k: [p.name, p.version is not None, p.viewpoint or "", p.version_precision] for k, p in nsm.NAMESPACES_PLUGINS.items()}

@probe("model_files")
def _():
    # ModelFile.write_xml per file type, ModelFile.update_namespaces on a fragment without typed elements
    from capellambse.filehandler import local
    res = {"wrapped": {}, "seed": None}
    with tempfile.TemporaryDirectory(prefix="verif-gen-exs-") as d:
        exts = plan["exts"]
        for i, ext in enumerate(exts):
            pathlib.Path(d, f"m{i}{ext}").write_bytes(b'<?xml version="1.0"?>\n<t a="' + b"x" * plan["long"] + b'" b="1"/>\n')
        fh = local.LocalFileHandler(d)
        for i, ext in enumerate(exts):
            mf = core.ModelFile(pathlib.PurePosixPath(f"m{i}{ext}"), fh, ignore_uuid_dups=False)
            buf = io.BytesIO()
            mf.write_xml(buf)
            res["wrapped"][ext] = buf.getvalue().decode("utf-8")
            if i == 0:
                mf.update_namespaces({})
                res["seed"] = sorted(mf.root.nsmap.items())
    return res

json.dump(out, sys.stdout)
'''


def run_probe(repo: pathlib.Path, plan: dict, script: str = _PROBE) -> dict:
    """Run `script` with the interpreter the implementation is run with, importing capellambse
    from `repo` only.  Any failure raises (fail closed)."""
    py = "/venv/bin/python" if os.path.exists("/venv/bin/python") else sys.executable
    env = {k: v for k, v in os.environ.items() if not k.startswith("PYTHON")}
    env.update(PYTHONHASHSEED="0", PYTHONDONTWRITEBYTECODE="1", TZ="UTC")
    try:
        p = subprocess.run([py, "-c", script, str(repo)], input=json.dumps(plan), capture_output=True, text=True,
                           timeout=120, env=env, cwd="/")
    except (OSError, subprocess.TimeoutExpired) as e:
        raise Shape(f"probe: could not run: {e}") from None
    _need(p.returncode == 0, f"probe: exit {p.returncode}: {p.stderr.strip()[-300:]}")
    try:
        out = json.loads(p.stdout)
    except ValueError:
        raise Shape(f"probe: unreadable output {p.stdout[:200]!r}") from None
    for k, v in out.items():
        _need(not (isinstance(v, dict) and "probe-error" in v), f"probe {k}: {v.get('probe-error') if isinstance(v, dict) else v}")
    return out


def _under(repo: pathlib.Path, files: list[str]) -> bool:
    root = repo.resolve()
    return all(root in pathlib.Path(f).resolve().parents for f in files)


def _start_tag(tag: str, attrs, level: int, pos: int, limit: int, indent: str, root: bool, brk: str) -> str:
    """What the writer is predicted to emit for `<tag attr="v"...` (characters == columns: ASCII only)"""
    s = "<" + tag
    pos += 1 + len(tag)
    force = False
    for k, v in attrs:
        if pos > limit or force:
            s += "\n" + indent * (level + 2)
            pos = len(indent) * (level + 2)
            force = False
        else:
            s += " "
            pos += 1
        s += f'{k}="{v}"'
        pos += len(k) + len(v) + 3
        if root and k == brk:
            force = True
    return s


def cross_check(repo: pathlib.Path, c: dict) -> None:
    """Compare what the AST reading predicts with what the code of the tree under check does."""
    ind = c["INDENT"].decode("ascii")
    L = c["LINE_LENGTH"]
    brk = c["ROOT_BREAK_ATTR"]
    prio = c["PRIORITY_ATTRS"]
    uris = sorted({split_qname(a)[0] for a in prio if a.startswith("{")})
    # prefixes: the ranked ones, neighbours of them in plain string order, and one per priority namespace
    ranked = [p for p, _ in c["NS_RANKS"]]
    spare = [p for p in ("a", "xmh", "xmj", "xsh", "xsj", "zz") if p not in ranked]
    _need("a" in spare, "probe: prefix a is ranked")
    nsmap = [[p, f"urn:probe:{p}"] for p in ranked + spare] + [[f"pu{i}", u] for i, u in enumerate(uris) if f"pu{i}" not in ranked]
    _need(len(nsmap) == len(ranked) + len(spare) + len(uris), "probe: prefix clash")
    by_uri = {u: p for p, u in nsmap}
    def fresh(name: str) -> str:
        while name in prio or name == brk:
            name += "_"
        return name
    plain = [fresh("zzz"), fresh("mmm")] + ([brk] if brk not in prio else []) + [fresh("aaa"), fresh(f"{brk}x"), "{urn:probe:a}q"]
    root_attrs = [[k, f"v{i}"] for i, k in enumerate(plain[:2] + list(reversed(prio)) + plain[2:])]
    child_plain = [[fresh("n"), "1"]] + ([[brk, "2"]] if brk != prio[0] else []) + [[fresh("m"), "3"]]
    child_attrs = child_plain + [[prio[0], "4"]]
    text_points = [9, 13] + [x for x in range(32, 127)] + [0x85, 0xA0, 0x2028]
    exts = sorted(c["SEMANTIC_EXTS"]) + sorted(c["VISUAL_EXTS"]) + [".afm"]
    plan = {
        "escape_points": list(range(0, 0x180)) + [0x2028, 0xFFFD, 0x1F600],
        "nsmap": nsmap, "root_attrs": root_attrs, "child_attrs": child_attrs,
        "wrap_lengths": [max(L - 7, 0), max(L - 6, 0)],
        "tags": sorted(c["ALWAYS_EXPANDED_TAGS"]) + ["probe-plain"],
        "text_points": text_points, "comment_points": [x for x in text_points if x != ord("-")],
        "exts": exts, "long": L + 20,
    }
    _need(L >= 8, "probe: LINE_LENGTH too small to probe")
    got = run_probe(repo, plan)
    _need(_under(repo, got["modules"]), f"probe: modules were not imported from {repo}")

    def same(what, a, b):
        _need(a == b, f"source and behaviour disagree on {what}: source says {a!r}, the code does {b!r}")

    k = got["consts"]
    same("INDENT", list(c["INDENT"]), k["INDENT"])
    same("LINE_LENGTH", L, k["LINE_LENGTH"])
    same("LINESEP", list(c["LINESEP"]), k["LINESEP"])
    same("P_ESCAPE_TEXT", [c["TEXT_SRC"], 0], k["TEXT"])
    same("P_ESCAPE_COMMENTS", [c["COMMENTS_SRC"], 0], k["COMMENTS"])
    same("ALWAYS_EXPANDED_TAGS", sorted(c["ALWAYS_EXPANDED_TAGS"]), k["EXPANDED"])
    same("SEMANTIC_EXTS", sorted(c["SEMANTIC_EXTS"]), k["SEMANTIC_EXTS"])
    same("VISUAL_EXTS", sorted(c["VISUAL_EXTS"]), k["VISUAL_EXTS"])
    # named-entity range of _escape_char
    lo, hi = c["ORD_LOW"], c["ORD_HIGH"]
    for cp, obs in zip(plan["escape_points"], got["escape_char"]):
        if lo <= cp <= hi:
            exp = "name:" + html.entities.codepoint2name[cp] if cp in html.entities.codepoint2name else "KeyError"
        else:
            exp = "num"
        same(f"_escape_char(U+{cp:04X})", exp, obs)
    # attribute order, namespace declarations, forced break
    unq = lambda a: (by_uri[split_qname(a)[0]] + ":" if a.startswith("{") else "") + split_qname(a)[1]  # noqa: E731
    vals = dict((k_, v_) for k_, v_ in root_attrs)
    rank = dict(reversed(c["NS_RANKS"]))
    decls = sorted(nsmap, key=lambda pu: (rank.get(pu[0], c["NS_DEFAULT_RANK"]), pu[0]))
    exp_root = [(unq(a), vals[a]) for a in prio] + [(c["XMLNS_PREFIX"] + p, u) for p, u in decls] + [(unq(a), vals[a]) for a in plain]
    exp_child = [(unq(prio[0]), "4")] + [(k_, v_) for k_, v_ in child_plain]
    exp = (_start_tag("t", exp_root, 0, 0, 10 ** 9, ind, True, brk) + ">\n" + ind
           + _start_tag("c", exp_child, 1, len(ind), 10 ** 9, ind, False, brk) + "/>\n</t>\n")
    same("attribute order / xmlns declarations / forced break", exp, got["attrs"])
    # wrap column and indentation
    for n, obs in zip(plan["wrap_lengths"], got["wrap"]):
        exp = (_start_tag("t", [("a", "x" * n), ("b", "1")], 0, 0, L, ind, True, brk) + ">\n" + ind
               + _start_tag("c", [("a", "y" * n), ("b", "2")], 1, len(ind), L, ind, False, brk) + "/>\n</t>\n")
        same(f"wrap column (value length {n})", exp, obs)
    _need("\n" not in _start_tag("t", [("a", "x" * plan["wrap_lengths"][0]), ("b", "1")], 0, 0, L, ind, True, brk)
          and "\n" in _start_tag("t", [("a", "x" * plan["wrap_lengths"][1]), ("b", "1")], 0, 0, L, ind, True, brk),
          "probe: wrap inputs do not straddle LINE_LENGTH")
    exp = "<t>" + "".join("\n" + ind + (f"<{tg}></{tg}>" if tg in c["ALWAYS_EXPANDED_TAGS"] else f"<{tg}/>") for tg in plan["tags"]) + "\n</t>\n"
    same("ALWAYS_EXPANDED_TAGS (behaviour)", exp, got["expanded"])
    # escape classes in text, attribute values and comments
    def esc(cp: int, cls) -> str:
        if not _in_class(cp, cls):
            return chr(cp)
        return f"&{html.entities.codepoint2name[cp]};" if lo <= cp <= hi else f"&#x{cp:X};"
    for cp in text_points:
        e = esc(cp, c["TEXT_CLASS"])
        same(f"escaping of U+{cp:04X} in text and attribute value", f'<t k="a{e}a">a{e}a</t>\n', got["text"][str(cp)])
    for cp in plan["comment_points"]:
        e = esc(cp, c["COMMENT_TEXT_CLASS"])
        same(f"escaping of U+{cp:04X} in a comment", f"<t/>\n<!--a{e}a-->\n\n", got["comment"][str(cp)])
    gt = esc(ord(">"), c["TEXT_CLASS"])
    sp = got["special"]
    same('"]]>" in text / attribute value', f'<t k="x]]{gt}y">x]]{"&gt;" if c["FIX_CDATA_END"] else gt}y</t>\n', sp[0])
    same("whitespace-only text of a leaf", "<t>\n" + ind + ("<c>  </c>" if c["FIX_BLANK_LEAF"] else "<c></c>") + "\n</t>\n", sp[1])
    same("whitespace-only text before children", "<t>\n" + ind + "<c/>\n</t>\n", sp[2])
    same("empty text of a leaf", "<t>\n" + ind + "<c></c>\n</t>\n", sp[3])
    # plugin table, line length per file type, namespace seed
    same("NAMESPACES_PLUGINS", {r[0]: [r[1], r[2], r[3], r[4]] for r in c["NS_PLUGINS"]}, got["plugins"])
    for ext in exts:
        limit = L if ext in c["SEMANTIC_EXTS"] else sys.maxsize
        exp = ('<?xml version="1.0" encoding="UTF-8"?>\n'
               + _start_tag("t", [("a", "x" * plan["long"]), ("b", "1")], 0, 0, limit, ind, True, brk) + "/>\n")
        same(f"ModelFile.write_xml line length for {ext}", exp, got["model_files"]["wrapped"][ext])
    names = {r[0]: r[1] for r in c["NS_PLUGINS"]}
    same("update_namespaces seed", sorted([p, names[p]] for p in c["NS_SEED"]), got["model_files"]["seed"])


# ------------------------------------------------------------------ the generator
def extract(repo: pathlib.Path) -> dict:
    exs = Src(repo / "capellambse" / "loader" / "exs.py")
    core = Src(repo / "capellambse" / "loader" / "core.py")
    nsm = Src(repo / "capellambse" / "_namespaces.py")
    c: dict[str, t.Any] = {}
    # --- simple constants
    c["INDENT"] = exs.const("INDENT", bytes)
    _need(c["INDENT"] and set(c["INDENT"]) <= {0x20}, "INDENT must consist of spaces")
    c["LINE_LENGTH"] = exs.const("LINE_LENGTH", int)
    _need(c["LINE_LENGTH"] >= 0, "LINE_LENGTH is negative")
    c["LINESEP"] = exs.const("LINESEP", bytes)      # os.linesep of the platform the check runs on
    _need(c["LINESEP"] == os.linesep.encode("ascii") == b"\n", "LINESEP is no longer os.linesep (POSIX)")
    # --- escape classes
    c["TEXT_SRC"], c["TEXT_CLASS"] = x_regex_class(exs, "P_ESCAPE_TEXT")
    c["COMMENTS_SRC"], c["COMMENTS_CLASS"] = x_regex_class(exs, "P_ESCAPE_COMMENTS")
    c["COMMENT_TEXT_CLASS"] = x_comment_pattern(exs, c["TEXT_CLASS"])
    for fn in ("_escape", "_serialize_text"):
        x_default_pattern(exs, fn, c["TEXT_SRC"])
    c["ORD_LOW"], c["ORD_HIGH"] = x_escape_bounds(exs)
    names = {}
    for cp in set(_members(c["TEXT_CLASS"])) | set(_members(c["COMMENTS_CLASS"])) | set(_members(c["COMMENT_TEXT_CLASS"])):
        if c["ORD_LOW"] <= cp <= c["ORD_HIGH"]:
            _need(cp in html.entities.codepoint2name, f"class member {cp} has no entity name (KeyError at run time)")
            names[cp] = html.entities.codepoint2name[cp]
    c["ENTITY_NAMES"] = names
    c["ALWAYS_EXPANDED_TAGS"] = _strs(exs.ev(exs.assigned("ALWAYS_EXPANDED_TAGS")), "ALWAYS_EXPANDED_TAGS")
    c["PRIORITY_ATTRS"] = x_priority_attrs(exs)
    c["XMLNS_PREFIX"] = x_xmlns_prefix(exs)
    c["ROOT_BREAK_ATTR"] = x_root_break_attr(exs)
    c["NS_RANKS"], c["NS_DEFAULT_RANK"] = x_ns_ranks(exs)
    c["FIX_CDATA_END"] = x_cdata_flag(exs)
    c["FIX_BLANK_LEAF"] = x_blank_leaf_flag(exs)
    # --- core.py
    c["SEMANTIC_EXTS"] = _strs(core.ev(core.assigned("SEMANTIC_EXTS")), "SEMANTIC_EXTS")
    c["VISUAL_EXTS"] = _strs(core.ev(core.assigned("VISUAL_EXTS")), "VISUAL_EXTS")
    x_write_xml(core)
    # --- plugins
    c["NS_PLUGINS"] = x_plugins(nsm)
    c["NS_SEED"] = x_ns_seed(core)
    for p in c["NS_SEED"]:
        row = [r for r in c["NS_PLUGINS"] if r[0] == p]
        _need(len(row) == 1 and not row[0][2], f"update_namespaces: seed namespace {p} is versioned or unknown")
    cross_check(repo, c)
    return c


def generate(repo: pathlib.Path) -> dict[str, str]:
    c = extract(pathlib.Path(repo))
    b = lambda x: "true" if x else "false"  # noqa: E731
    L: list[str] = [
        "(* GENERATED by tools/gen_exs.py from capellambse/loader/exs.py, loader/core.py, _namespaces.py — do not edit *)",
        "From Coq Require Import ZArith NArith List Bool.",
        "Import ListNotations.",
        "From V Require Import Model.Val.",
        "",
        f"Definition INDENT : str := {g_str(c['INDENT'])}.",
        f"Definition LINE_LENGTH : N := {c['LINE_LENGTH']}%N.",
        f"Definition LINESEP : str := {g_str(c['LINESEP'])}.   (* os.linesep on the platform the check runs on (POSIX) *)",
        f"Definition TEXT_CLASS : list (N * N) := {g_ranges(c['TEXT_CLASS'])}.       (* P_ESCAPE_TEXT *)",
        f"Definition COMMENTS_CLASS : list (N * N) := {g_ranges(c['COMMENTS_CLASS'])}.   (* P_ESCAPE_COMMENTS (declared) *)",
        f"Definition COMMENT_TEXT_CLASS : list (N * N) := {g_ranges(c['COMMENT_TEXT_CLASS'])}.   (* pattern passed by _serialize_comment *)",
        f"Definition ORD_LOW : N := {c['ORD_LOW']}%N.",
        f"Definition ORD_HIGH : N := {c['ORD_HIGH']}%N.",
        "Definition ENTITY_NAMES : list (N * str) := [" + "; ".join(f"({k}%N, {g_str(n)})" for k, n in sorted(c["ENTITY_NAMES"].items())) + "].",
        "Definition ALWAYS_EXPANDED_TAGS : list str := [" + "; ".join(g_str(s) for s in c["ALWAYS_EXPANDED_TAGS"]) + "].",
        "Definition PRIORITY_ATTRS : list (str * str) := [" + "; ".join(
            "(%s, %s)" % tuple(g_str(x) for x in split_qname(a)) for a in c["PRIORITY_ATTRS"]) + "].",
        f"Definition XMLNS_PREFIX : str := {g_str(c['XMLNS_PREFIX'])}.",
        f"Definition ROOT_BREAK_ATTR : str := {g_str(c['ROOT_BREAK_ATTR'])}.",
        "Definition NS_RANKS : list (str * N) := [" + "; ".join(f"({g_str(p)}, {r}%N)" for p, r in c["NS_RANKS"]) + "].",
        f"Definition NS_DEFAULT_RANK : N := {c['NS_DEFAULT_RANK']}%N.",
        f"Definition FIX_CDATA_END : bool := {b(c['FIX_CDATA_END'])}.   (* _serialize_text rewrites \"]]>\" to \"]]&gt;\" *)",
        f"Definition FIX_BLANK_LEAF : bool := {b(c['FIX_BLANK_LEAF'])}.   (* whitespace-only text of a leaf element is written *)",
    ]
    # --- interpreter facts
    spaces, start = [], None
    prev = None
    for cp in range(0x110000):
        if chr(cp).isspace():
            if start is None:
                start = cp
            prev = cp
        elif start is not None:
            spaces.append((start, prev))
            start = None
    L.append(f"Definition PY_SPACE : list (N * N) := {g_ranges(spaces)}.   (* str.isspace of the running interpreter *)")
    L.append(f"Definition MAXSIZE : N := {sys.maxsize}%N.")
    L.append("Definition SEMANTIC_EXTS : list str := [" + "; ".join(g_str(s) for s in c["SEMANTIC_EXTS"]) + "].")
    L.append("Definition VISUAL_EXTS : list str := [" + "; ".join(g_str(s) for s in c["VISUAL_EXTS"]) + "].")
    L.append("(* prefix, name, versioned?, viewpoint, version_precision *)")
    L.append("Definition NS_PLUGINS : list (str * (str * (bool * (str * N)))) := [")
    L.append(";\n".join(f"  ({g_str(k)}, ({g_str(n)}, ({b(ver)}, ({g_str(vp)}, {pr}%N))))" for k, n, ver, vp, pr in c["NS_PLUGINS"]))
    L.append("].")
    L.append("Definition NS_SEED : list str := [" + "; ".join(g_str(s) for s in c["NS_SEED"]) + "].")
    return {"ExsConsts.v": "\n".join(L) + "\n"}


if __name__ == "__main__":
    print(generate(pathlib.Path(os.environ.get("VERIF_REPO", "/repo")))["ExsConsts.v"])
