"""Gen/DiagCacheGraph.v: the diagram format converter graph of /repo.

Parsed (ast / tomllib, nothing is imported) from
  pyproject.toml                  [project.entry-points."capellambse.diagram.formats"]
  capellambse/model/diagram.py    the converter classes / functions these entry points name
                                  and everything reachable through their `depends`.
For every converter object: numeric id (position in the sorted object-name list),
`filename_extension` (string literal or absent), whether a `from_cache` method is
defined, and the object `depends` refers to.  Fails closed (raises) on any other shape.
"""
from __future__ import annotations

import ast
import pathlib
import tomllib

OUTPUTS = ["DiagCacheGraph.v"]
GROUP = "capellambse.diagram.formats"
MODULE = "capellambse.model.diagram"


class Shape(Exception):
    pass


def _coq_str(s: str) -> str:
    return "[" + ";".join(str(ord(c)) for c in s) + "]%N" if s else "(@nil N)"


def extract(repo: pathlib.Path) -> dict:
    """-> {"entries": {fmt: objname}, "nodes": {objname: {"id", "ext", "fc", "dep"}}}"""
    pp = tomllib.loads((repo / "pyproject.toml").read_text())
    try:
        eps = pp["project"]["entry-points"][GROUP]
    except KeyError as e:
        raise Shape(f"pyproject.toml has no entry point group {GROUP}") from e
    entries: dict[str, str] = {}
    for name, target in eps.items():
        mod, _, obj = target.partition(":")
        if mod != MODULE or not obj.isidentifier():
            raise Shape(f"entry point {name} = {target}: not an object of {MODULE}")
        entries[name] = obj
    tree = ast.parse((repo / "capellambse" / "model" / "diagram.py").read_text())
    top: dict[str, ast.stmt] = {}
    for n in tree.body:
        if isinstance(n, (ast.ClassDef, ast.FunctionDef)):
            if n.name in top:
                raise Shape(f"{n.name} defined twice")
            top[n.name] = n
    raw: dict[str, dict] = {}
    todo = sorted(set(entries.values()))
    while todo:
        obj = todo.pop()
        if obj in raw:
            continue
        n = top.get(obj)
        if n is None:
            raise Shape(f"{obj} is not a top-level class/function of diagram.py")
        info = {"ext": None, "fc": False, "dep": None}
        if isinstance(n, ast.FunctionDef):
            # a plain function: attributes could only be set by later statements
            pass
        else:
            if n.bases or n.keywords or n.decorator_list:
                raise Shape(f"{obj}: base classes / decorators are not modelled")
            for s in n.body:
                if isinstance(s, ast.Assign) and len(s.targets) == 1 and isinstance(s.targets[0], ast.Name):
                    tg = s.targets[0].id
                    if tg == "filename_extension":
                        if not (isinstance(s.value, ast.Constant) and isinstance(s.value.value, str)):
                            raise Shape(f"{obj}.filename_extension is not a string literal")
                        info["ext"] = s.value.value
                    elif tg == "depends":
                        if not isinstance(s.value, ast.Name):
                            raise Shape(f"{obj}.depends is not a plain name")
                        info["dep"] = s.value.id
                    elif tg in ("from_cache", "convert", "__getattr__", "__getattribute__"):
                        raise Shape(f"{obj}.{tg} assigned, not defined")
                elif isinstance(s, ast.AnnAssign) and isinstance(s.target, ast.Name) and s.target.id in (
                        "filename_extension", "depends", "from_cache"):
                    raise Shape(f"{obj}.{s.target.id}: annotated assignment not modelled")
                elif isinstance(s, ast.FunctionDef):
                    if s.name == "from_cache":
                        info["fc"] = True
                    elif s.name in ("__getattr__", "__getattribute__"):
                        raise Shape(f"{obj} defines {s.name}")
                elif isinstance(s, (ast.If, ast.Try, ast.For, ast.While, ast.With)):
                    raise Shape(f"{obj}: control flow in class body")
            if not any(isinstance(s, ast.FunctionDef) and s.name == "convert" for s in n.body):
                raise Shape(f"{obj} has no convert method")
        raw[obj] = info
        if info["dep"] is not None:
            todo.append(info["dep"])
    # attributes set from outside the class body (X.depends = ..., setattr) are not modelled
    names = set(raw)
    for n in ast.walk(tree):
        if isinstance(n, (ast.Assign, ast.AugAssign, ast.AnnAssign, ast.Delete)):
            tgs = n.targets if isinstance(n, (ast.Assign, ast.Delete)) else [n.target]
            for tg in tgs:
                if isinstance(tg, ast.Attribute) and isinstance(tg.value, ast.Name) and tg.value.id in names:
                    raise Shape(f"attribute {tg.value.id}.{tg.attr} is assigned outside the class body")
        if isinstance(n, ast.Call) and isinstance(n.func, ast.Name) and n.func.id in ("setattr", "delattr"):
            raise Shape("setattr/delattr in diagram.py")
    for i, obj in enumerate(sorted(raw)):
        raw[obj]["id"] = i + 1
    return {"entries": entries, "nodes": raw}


def generate(repo: pathlib.Path) -> dict[str, str]:
    g = extract(repo)
    nodes, entries = g["nodes"], g["entries"]
    out = ["(* GENERATED by tools/gen_diagcache.py from pyproject.toml and capellambse/model/diagram.py — do not edit *)",
           "From Coq Require Import NArith List.", "Import ListNotations.",
           "From V Require Import Model.Val Model.DiagCache.", ""]
    rows = []
    for obj in sorted(nodes, key=lambda o: nodes[o]["id"]):
        n = nodes[obj]
        ext = f"Some {_coq_str(n['ext'])}" if n["ext"] is not None else "None"
        dep = f"Some {nodes[n['dep']]['id']}%N" if n["dep"] is not None else "None"
        rows.append(f"  (* {obj} *) {{| n_conv := {{| cv_id := {n['id']}%N; cv_ext := {ext}; cv_fc := {'true' if n['fc'] else 'false'} |}}; n_dep := {dep} |}}")
    out.append("Definition gen_graph : list node := [\n" + ";\n".join(rows) + "\n].")
    out.append("")
    erows = [f"  (* {name} *) ({_coq_str(name)}, {nodes[obj]['id']}%N)" for name, obj in sorted(entries.items())]
    out.append("Definition gen_entries : list (str * N) := [\n" + ";\n".join(erows) + "\n].")
    return {"DiagCacheGraph.v": "\n".join(out) + "\n"}


if __name__ == "__main__":
    import os
    print(generate(pathlib.Path(os.environ.get("VERIF_REPO", "/repo")))["DiagCacheGraph.v"])
