"""Gen/SaveTxnConsts.v: constants of capellambse/filehandler/local.py:_tmpname (prefix, suffix,
name length limit), read from the tree under check with ast on every run.

`_tmpname(filename)` must be a straight-line function whose result is
    filename.with_name(<prefix> + filename.name[:<keep>] + <suffix>)
where the concatenation may be written as an f-string, with `+` or with "".join(..), the pieces
may be literals, locals that are bound once, or module-level constants that are bound once
(resolved and folded by the static evaluator of gen_exs.Src: literals, `+ - *`, `len(..)` ...),
and the slice may be written `[:k]` or `[0:k]`.  The model's parameters are prefix, suffix and
limit := keep + len(prefix) + len(suffix)  (so that  limit - (len prefix + len suffix) = keep,
which is how Model/SaveTxn.v:tmpname and the harness use it; the original source writes
`255 - (len(prefix) + len(suffix))`).

The result is cross-checked against the real function: the module is imported from the tree under
check in a subprocess and `_tmpname` is called on names around the length limit.  Anything that
cannot be determined with certainty, a disagreement, or a probe that cannot run raises `Shape`
(fail closed).  Nothing is cached or defaulted.
"""
from __future__ import annotations

import ast
import pathlib

import gen_exs as G
from gen_exs import Shape, _need

OUTPUTS = ["SaveTxnConsts.v"]

_PROBE = r'''
import json, pathlib, sys
repo, plan = sys.argv[1], json.load(sys.stdin)
sys.path.insert(0, repo)
import capellambse.filehandler.local as local
out = {"modules": [local.__file__], "names": []}
for n in plan["names"]:
    try:
        out["names"].append(str(local._tmpname(pathlib.PurePosixPath(n))))
    except Exception as e:
        out["names"].append("raised " + type(e).__name__)
json.dump(out, sys.stdout)
'''


def _pieces(src: G.Src, e: ast.expr, fn, _d: int = 0) -> list[tuple[str, object]]:
    """a string concatenation -> [("lit", str) | ("expr", node)]"""
    _need(_d < 20, "_tmpname: expression too deep")
    ok, v = src.try_ev(e, fn)
    if ok:
        _need(isinstance(v, str), "_tmpname: a piece of the new name is not a string")
        return [("lit", v)]
    if isinstance(e, ast.JoinedStr):
        out = []
        for p in e.values:
            if isinstance(p, ast.Constant) and isinstance(p.value, str):
                out.append(("lit", p.value))
            else:
                _need(isinstance(p, ast.FormattedValue) and p.conversion == -1 and p.format_spec is None,
                      "_tmpname: f-string with conversion or format spec")
                out += _pieces(src, p.value, fn, _d + 1)
        return out
    if isinstance(e, ast.BinOp) and isinstance(e.op, ast.Add):
        return _pieces(src, e.left, fn, _d + 1) + _pieces(src, e.right, fn, _d + 1)
    if (isinstance(e, ast.Call) and isinstance(e.func, ast.Attribute) and e.func.attr == "join" and len(e.args) == 1 and not e.keywords
            and isinstance(e.args[0], (ast.Tuple, ast.List)) and src.try_ev(e.func.value, fn) == (True, "")):
        return [x for p in e.args[0].elts for x in _pieces(src, p, fn, _d + 1)]
    if isinstance(e, ast.Name) and e.id in src.bindings(fn) and e.id not in G.params_of(fn):
        v, scope = src.value_of(e, fn)
        _need(scope is fn, "_tmpname: unexpected scope")
        return _pieces(src, v, fn, _d + 1)
    return [("expr", e)]


def extract(repo: pathlib.Path) -> dict:
    repo = pathlib.Path(repo)
    src = G.Src(repo / "capellambse" / "filehandler" / "local.py")
    fn = src.func("_tmpname")
    a = fn.args
    _need(len(a.posonlyargs + a.args) == 1 and not a.kwonlyargs and not a.vararg and not a.kwarg and not fn.decorator_list,
          "_tmpname: expected exactly one parameter")
    param = (a.posonlyargs + a.args)[0].arg
    _need(len(src.bindings(fn)[param]) == 1, "_tmpname: the parameter is rebound")
    body = G.body_of(fn)
    _need(body and isinstance(body[-1], ast.Return) and body[-1].value is not None, "_tmpname: does not end with return <value>")
    for s in body[:-1]:
        tgt = s.targets[0] if isinstance(s, ast.Assign) and len(s.targets) == 1 else getattr(s, "target", None)
        _need(isinstance(s, (ast.Assign, ast.AnnAssign)) and isinstance(tgt, ast.Name) and len(src.bindings(fn)[tgt.id]) == 1,
              "_tmpname: not a straight-line function of single assignments")
    _need(not any(isinstance(n, (ast.Return, ast.Yield, ast.YieldFrom, ast.Await, ast.NamedExpr, ast.Lambda)) for s in body[:-1] for n in ast.walk(s)),
          "_tmpname: unexpected control flow")
    ret = src.inline(body[-1].value, fn)
    _need(isinstance(ret, ast.Call) and isinstance(ret.func, ast.Attribute) and ret.func.attr == "with_name"
          and isinstance(ret.func.value, ast.Name) and ret.func.value.id == param and len(ret.args) == 1 and not ret.keywords
          and not isinstance(ret.args[0], ast.Starred), "_tmpname: return expression changed")
    parts = _pieces(src, ret.args[0], fn)
    exprs = [i for i, (k, _v) in enumerate(parts) if k == "expr"]
    _need(len(exprs) == 1, "_tmpname: the new name is not <prefix> + <part of the old name> + <suffix>")
    i = exprs[0]
    prefix = "".join(v for _k, v in parts[:i])
    suffix = "".join(v for _k, v in parts[i + 1:])
    sl = parts[i][1]
    _need(isinstance(sl, ast.Subscript) and isinstance(sl.slice, ast.Slice) and sl.slice.step is None, "_tmpname: slice expression changed")
    base = src.inline(sl.value, fn)
    _need(isinstance(base, ast.Attribute) and base.attr == "name" and isinstance(base.value, ast.Name) and base.value.id == param,
          "_tmpname: slice expression changed")
    if sl.slice.lower is not None:
        ok, lo = src.try_ev(sl.slice.lower, fn)
        _need(ok and type(lo) is int and lo == 0, "_tmpname: slice expression changed")
    _need(sl.slice.upper is not None, "_tmpname: slice without upper bound")
    ok, keep = src.try_ev(sl.slice.upper, fn)
    _need(ok and type(keep) is int and keep >= 0, "_tmpname: slice bound is not a non-negative constant")
    _need("/" not in prefix and "/" not in suffix and "\0" not in prefix + suffix, "_tmpname: prefix/suffix contain a separator")
    consts = {"prefix": prefix, "suffix": suffix, "limit": keep + len(prefix) + len(suffix)}
    _cross_check(repo, consts, keep)
    return consts


def _cross_check(repo: pathlib.Path, c: dict, keep: int) -> None:
    def name(k: int) -> str:
        return "".join(chr(ord("a") + j % 26) for j in range(k))
    lengths = sorted({1, 2, max(keep - 1, 1), max(keep, 1), keep + 1, keep + 50})
    names = [name(k) for k in lengths] + ["d/e/" + name(k) for k in lengths] + ["x.capella", "d/.hidden.tmp"]
    got = G.run_probe(repo, {"names": names}, _PROBE)
    _need(G._under(repo, got["modules"]), f"probe: module was not imported from {repo}")
    for n, obs in zip(names, got["names"]):
        d, _, b = n.rpartition("/")
        exp = (d + "/" if d else "") + c["prefix"] + b[:keep] + c["suffix"]
        _need(exp == obs, f"source and behaviour disagree on _tmpname({n[:40]!r}..): source says {exp[:60]!r}, the code does {obs[:60]!r}")


def _coq_str(s: str) -> str:
    return "[" + ";".join(str(ord(c)) for c in s) + "]%N" if s else "(@nil N)"


def generate(repo: pathlib.Path) -> dict[str, str]:
    c = extract(repo)
    return {"SaveTxnConsts.v": "\n".join([
        "(* GENERATED by tools/gen_savetxn.py from capellambse/filehandler/local.py:_tmpname — do not edit *)",
        "From Coq Require Import NArith List.", "Import ListNotations.", "From V Require Import Model.Val.",
        f"Definition TMP_PREFIX : str := {_coq_str(c['prefix'])}.",
        f"Definition TMP_SUFFIX : str := {_coq_str(c['suffix'])}.",
        f"Definition TMP_LIMIT : nat := {c['limit']}.", ""])}


if __name__ == "__main__":
    import os
    print(generate(pathlib.Path(os.environ.get("VERIF_REPO", "/repo")))["SaveTxnConsts.v"])
