"""Regenerate coq/Gen/*.v from /repo's current working tree (write-if-changed).
Usage: gen_all.py [Cxx]   — exit 1 if any generator fails (fail closed)."""
from __future__ import annotations
import importlib, os, pathlib, sys, traceback

VERIF = pathlib.Path(__file__).resolve().parent.parent
REPO = pathlib.Path(os.environ.get("VERIF_REPO", "/repo"))
GEN = pathlib.Path(os.environ.get("VERIF_COQ_DIR") or (VERIF / "coq")) / "Gen"
sys.path.insert(0, str(VERIF / "tools"))


def write_if_changed(name: str, text: str) -> None:
    GEN.mkdir(exist_ok=True)
    f = GEN / name
    if not f.exists() or f.read_text() != text:
        f.write_text(text)


GENERATORS = sorted(f.stem for f in (VERIF / "tools").glob("gen_*.py") if f.stem != "gen_all")


def main() -> int:
    rc = 0
    for g in GENERATORS:
        try:
            mod = importlib.import_module(g)
        except ModuleNotFoundError:
            continue
        try:
            for name, text in mod.generate(REPO).items():
                write_if_changed(name, text)
        except Exception as e:  # fail closed, but keep a compilable stub out of the way
            traceback.print_exc()
            print(f"GENERATOR-FAILED {g}: {type(e).__name__}: {e}")
            for name in getattr(mod, "OUTPUTS", []):
                write_if_changed(name, f"(* generator {g} failed: {type(e).__name__}: {e} *)\nDefinition generator_failed : False := I.\n")
            rc = 1
    return rc


if __name__ == "__main__":
    sys.exit(main())
