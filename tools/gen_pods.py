"""Gen/PodsTab.v: the table of all POD descriptors of all registered model classes, the enum
tables they use, and the literal constants of capellambse/model/_pods.py and of the attribute
escaper in capellambse/loader/exs.py.

Reflective part (subprocess importing capellambse from the tree under check): for every class in
XTYPE_HANDLERS, every attribute that is a BasePOD -> (class, attribute, kind, XML attribute,
writable, enum index, default).  Unknown POD kinds get kind code 99 (the Coq theorem
`all_rows_known` then fails).  Literal part (ast): BoolPOD's two texts, FloatPOD's infinity marker,
DatetimePOD.re_set/re_get pattern sources and isoformat arguments, exs.ESCAPE_CHARS.
Fails closed (raises) when an expected literal is not found.
"""
from __future__ import annotations

import ast
import json
import os
import pathlib
import subprocess

OUTPUTS = ["PodsTab.v"]

KINDS = {"StringPOD": 0, "HTMLStringPOD": 1, "BoolPOD": 2, "IntPOD": 3, "FloatPOD": 4,
         "DatetimePOD": 5, "EnumPOD": 6, "PVMTDescriptionProperty": 7}

REFLECT = r"""
import json, sys, enum, math, datetime
import capellambse
from capellambse.model import _pods, _xtype, _obj
capellambse.load_model_extensions()
import capellambse.metamodel
import capellambse.metamodel.modeltypes as mt
classes = {}
for d in _xtype.XTYPE_HANDLERS.values():
    for cls in d.values():
        classes[cls.__module__ + "." + cls.__qualname__] = cls
# plus every ModelElement subclass that is not registered (e.g. PVMT configuration classes)
extra = {}
def walk(c):
    for s in c.__subclasses__():
        k = s.__module__ + "." + s.__qualname__
        if k not in classes and k not in extra and s.__module__.startswith("capellambse."):
            extra[k] = s
        walk(s)
walk(_obj.ModelElement)
enums = {}
def enum_idx(e):
    k = e.__module__ + "." + e.__qualname__
    if k not in enums:
        mem = []
        for n, m in e.__members__.items():
            if not isinstance(m.value, str):
                raise SystemExit("enum value is not a str: %s.%s" % (k, n))
            mem.append([n, m.value, m.name])
        # does a member compare equal to its own name (the _StringyEnumMixin behaviour that
        # BasePOD.__set__'s `value != self.default` relies on when a name is assigned)?
        flags = {not (m != m.name) for m in e.__members__.values()}
        if len(flags) != 1:
            raise SystemExit("enum is neither stringy nor not: %s" % k)
        enums[k] = {"members": mem, "stringy": flags.pop()}
    return list(enums).index(k)
def rows_of(classes, registered):
    rows = []
    for key in sorted(classes):
        cls = classes[key]
        for name in sorted(dir(cls)):
            try:
                d = getattr(cls, name)
            except Exception:
                continue
            if not isinstance(d, _pods.BasePOD):
                continue
            kind = type(d).__name__
            eidx, dflt = 0, None
            if isinstance(d, _pods.EnumPOD):
                eidx = enum_idx(d.enumcls)
                dflt = ["enum", d.default.name]
            elif isinstance(d.default, bool):
                dflt = ["bool", d.default]
            elif isinstance(d.default, int):
                dflt = ["int", d.default]
            elif isinstance(d.default, float):
                dflt = ["float", repr(d.default)]
            elif isinstance(d.default, str):
                dflt = ["str", str(d.default)]
            elif d.default is None:
                dflt = ["none"]
            elif hasattr(d.default, "raw"):
                dflt = ["str", d.default.raw]
            else:
                dflt = ["unknown", repr(d.default)]
            rows.append([key, name, kind, d.attribute, bool(d.writable), eidx, dflt, registered])
    return rows
rows = rows_of(classes, True) + rows_of(extra, False)
# all enums of modeltypes, used or not (the codec theorem covers them too)
for n in sorted(dir(mt)):
    e = getattr(mt, n)
    if isinstance(e, type) and issubclass(e, enum.Enum) and e.__module__ == mt.__name__:
        enum_idx(e)
json.dump({"rows": rows, "enums": enums, "nclasses": len(classes)}, sys.stdout)
"""


def reflect(repo: pathlib.Path) -> dict:
    env = dict(os.environ, PYTHONPATH=str(repo), PYTHONHASHSEED="0", TZ="UTC", PYTHONWARNINGS="ignore")
    p = subprocess.run(["/venv/bin/python", "-c", REFLECT], env=env, cwd="/", capture_output=True, text=True, timeout=120)
    if p.returncode != 0:
        raise RuntimeError("reflection failed: " + p.stderr[-500:])
    return json.loads(p.stdout)


def S(s: str) -> str:
    return "[" + ";".join(str(ord(c)) for c in s) + "]"


def _class(tree: ast.Module, name: str) -> ast.ClassDef:
    for n in tree.body:
        if isinstance(n, ast.ClassDef) and n.name == name:
            return n
    raise RuntimeError(f"class {name} not found")


def _method(cls: ast.ClassDef, name: str) -> ast.FunctionDef:
    for n in cls.body:
        if isinstance(n, ast.FunctionDef) and n.name == name:
            return n
    raise RuntimeError(f"{cls.name}.{name} not found")


def literals(repo: pathlib.Path) -> dict:
    src = (repo / "capellambse" / "model" / "_pods.py").read_text()
    tree = ast.parse(src)
    out: dict = {}
    # BoolPOD
    b = _class(tree, "BoolPOD")
    tup = [n for n in ast.walk(_method(b, "_to_xml")) if isinstance(n, ast.Tuple)
           and all(isinstance(e, ast.Constant) and isinstance(e.value, str) for e in n.elts)]
    if len(tup) != 1 or len(tup[0].elts) != 2:
        raise RuntimeError("BoolPOD._to_xml: expected one 2-tuple of string literals")
    out["bool_false"], out["bool_true"] = (e.value for e in tup[0].elts)
    cmp = [n for n in ast.walk(_method(b, "_from_xml")) if isinstance(n, ast.Compare)]
    if (len(cmp) != 1 or not isinstance(cmp[0].ops[0], ast.Eq) or not isinstance(cmp[0].comparators[0], ast.Constant)):
        raise RuntimeError("BoolPOD._from_xml: expected `value == <literal>`")
    out["bool_read_true"] = cmp[0].comparators[0].value
    # FloatPOD: string literals returned by _to_xml / compared in _from_xml
    f = _class(tree, "FloatPOD")
    rets = [n.value.value for n in ast.walk(_method(f, "_to_xml")) if isinstance(n, ast.Return)
            and isinstance(n.value, ast.Constant) and isinstance(n.value.value, str)]
    if len(rets) != 1:
        raise RuntimeError("FloatPOD._to_xml: expected exactly one literal string return (the infinity marker)")
    out["float_inf_marker"] = rets[0]
    rd = [n.comparators[0].value for n in ast.walk(_method(f, "_from_xml")) if isinstance(n, ast.Compare)
          and isinstance(n.ops[0], ast.Eq) and isinstance(n.comparators[0], ast.Constant) and isinstance(n.comparators[0].value, str)]
    out["float_inf_read"] = rd   # list of literals that _from_xml recognises specially ([] on the unfixed tree)
    # DatetimePOD
    d = _class(tree, "DatetimePOD")
    for n in d.body:
        if isinstance(n, ast.Assign) and isinstance(n.targets[0], ast.Name) and n.targets[0].id in ("re_set", "re_get"):
            call = n.value
            if not (isinstance(call, ast.Call) and len(call.args) == 1 and isinstance(call.args[0], ast.Constant)):
                raise RuntimeError("DatetimePOD.re_*: expected re.compile(<literal>)")
            out[n.targets[0].id] = call.args[0].value
    if "re_set" not in out or "re_get" not in out:
        raise RuntimeError("DatetimePOD.re_set/re_get not found")
    iso = [n for n in ast.walk(_method(d, "_to_xml")) if isinstance(n, ast.Call) and isinstance(n.func, ast.Attribute)
           and n.func.attr == "isoformat"]
    if len(iso) != 1 or not all(isinstance(a, ast.Constant) for a in iso[0].args):
        raise RuntimeError("DatetimePOD._to_xml: expected one isoformat(<literals>) call")
    out["iso_args"] = [a.value for a in iso[0].args]
    subs = [n for n in ast.walk(_method(d, "_to_xml")) if isinstance(n, ast.Call) and isinstance(n.func, ast.Attribute) and n.func.attr == "sub"]
    subg = [n for n in ast.walk(_method(d, "_from_xml")) if isinstance(n, ast.Call) and isinstance(n.func, ast.Attribute) and n.func.attr == "sub"]
    if len(subs) != 1 or len(subg) != 1 or not isinstance(subs[0].args[0], ast.Constant) or not isinstance(subg[0].args[0], ast.Constant):
        raise RuntimeError("DatetimePOD: expected one re.sub(<literal>, ..) in _to_xml and in _from_xml")
    out["re_set_repl"], out["re_get_repl"] = subs[0].args[0].value, subg[0].args[0].value
    # exs escape class
    xsrc = (repo / "capellambse" / "loader" / "exs.py").read_text()
    xt = ast.parse(xsrc)
    consts = {}
    for n in xt.body:
        if isinstance(n, ast.Assign) and isinstance(n.targets[0], ast.Name):
            consts[n.targets[0].id] = n.value
    ec = consts.get("ESCAPE_CHARS")
    pt = consts.get("P_ESCAPE_TEXT")
    if not (isinstance(ec, ast.Constant) and isinstance(ec.value, str)):
        raise RuntimeError("exs.ESCAPE_CHARS literal not found")
    try:
        fmt_arg = pt.args[0].args[0].value      # re.compile(ESCAPE_CHARS.format('"&<'))
        assert pt.args[0].func.attr == "format" and pt.args[0].func.value.id == "ESCAPE_CHARS"
    except Exception as e:  # noqa: BLE001
        raise RuntimeError("exs.P_ESCAPE_TEXT: expected re.compile(ESCAPE_CHARS.format(<literal>))") from e
    out["esc_class"] = charclass(ec.value.format(fmt_arg))
    return out


def charclass(pat: str) -> list[int]:
    """code points of a regex of the form [..] with literal chars, \\xHH escapes and a-b ranges"""
    if not (pat.startswith("[") and pat.endswith("]")) or pat.startswith("[^"):
        raise RuntimeError(f"escape pattern is not a plain character class: {pat!r}")
    body, items, i = pat[1:-1], [], 0
    while i < len(body):
        c = body[i]
        if c == "\\":
            if body[i + 1] == "x":
                items.append(int(body[i + 2:i + 4], 16)); i += 4
            else:
                raise RuntimeError(f"unsupported escape in character class: {pat!r}")
        elif c == "-" and items and i + 1 < len(body):
            items.append("-"); i += 1
        elif c in "[]^":
            raise RuntimeError(f"unsupported character class syntax: {pat!r}")
        else:
            items.append(ord(c)); i += 1
    out: list[int] = []
    k = 0
    while k < len(items):
        if k + 2 < len(items) and items[k + 1] == "-":
            out.extend(range(items[k], items[k + 2] + 1)); k += 3
        else:
            if items[k] == "-":
                out.append(ord("-"))
            else:
                out.append(items[k])
            k += 1
    return sorted(set(out))


def generate(repo: pathlib.Path) -> dict[str, str]:
    data = reflect(repo)
    lit = literals(repo)
    rows, enums = data["rows"], data["enums"]
    if not rows or data["nclasses"] < 10:
        raise RuntimeError("class registry is (nearly) empty")
    o = ["(* GENERATED by tools/gen_pods.py from the class registry of capellambse, capellambse/model/_pods.py",
         "   and capellambse/loader/exs.py — do not edit *)",
         "From Coq Require Import ZArith NArith List Bool.", "Import ListNotations.", "From V Require Import Model.Val.", "Open Scope N_scope.", "",
         "(* kinds: " + ", ".join(f"{v}={k}" for k, v in KINDS.items()) + "; 99 = unknown subclass of BasePOD *)",
         "(* default: VS text / VB / VZ / VNone / for floats VS repr / for enums VZ member index / VE 16 = a default of another type *)",
         "Record pod_row := { r_class : list N; r_name : list N; r_kind : N; r_attr : list N; r_writable : bool;",
         "                    r_enum : nat; r_default : val; r_registered : bool }.", ""]
    o.append(f"Definition n_registered_classes : N := {data['nclasses']}.")
    o.append("(* (class, members compare equal to their own name, [(name, value)] in __members__ order) *)")
    o.append("Definition enum_tabs : list (list N * bool * list (list N * list N)) := [")
    ents = []
    for k, e in enums.items():
        # aliases would show up as a repeated value
        ents.append("  (" + S(k) + ", " + ("true" if e["stringy"] else "false") + ", ["
                    + "; ".join(f"({S(n)}, {S(v)})" for n, v, _ in e["members"]) + "])")
    o.append(";\n".join(ents))
    o.append("].")
    o.append("")
    o.append("Definition pod_rows : list pod_row := [")
    rr = []
    for cls, name, kind, attr, wr, eidx, dflt, reg in rows:
        kc = KINDS.get(kind, 99)
        if dflt[0] == "enum":
            names = [n for n, _, _ in list(enums.values())[eidx]["members"]]
            dc = "VZ %d" % names.index(dflt[1])
        elif dflt[0] == "bool":
            dc = "VB true" if dflt[1] else "VB false"
        elif dflt[0] == "int":
            dc = "VZ (%d)" % dflt[1]
        elif dflt[0] in ("float", "str"):
            dc = "VS " + S(dflt[1])
        elif dflt[0] == "none":
            dc = "VNone"
        else:
            dc = "VE 16"
        rr.append("  {| r_class := %s; r_name := %s; r_kind := %d; r_attr := %s; r_writable := %s; r_enum := %d%%nat; r_default := %s; r_registered := %s |}"
                  % (S(cls), S(name), kc, S(attr), "true" if wr else "false", eidx, dc, "true" if reg else "false"))
    o.append(";\n".join(rr))
    o.append("].")
    o.append("")
    o.append(f"Definition src_bool_false : list N := {S(lit['bool_false'])}.")
    o.append(f"Definition src_bool_true : list N := {S(lit['bool_true'])}.")
    o.append(f"Definition src_bool_read_true : list N := {S(lit['bool_read_true'])}.")
    o.append(f"Definition src_float_inf_marker : list N := {S(lit['float_inf_marker'])}.")
    o.append("Definition src_float_inf_read : list (list N) := [" + "; ".join(S(x) for x in lit["float_inf_read"]) + "].")
    o.append(f"Definition src_re_set : list N := {S(lit['re_set'])}.")
    o.append(f"Definition src_re_get : list N := {S(lit['re_get'])}.")
    o.append(f"Definition src_re_set_repl : list N := {S(lit['re_set_repl'])}.")
    o.append(f"Definition src_re_get_repl : list N := {S(lit['re_get_repl'])}.")
    o.append("Definition src_iso_args : list (list N) := [" + "; ".join(S(x) for x in lit["iso_args"]) + "].")
    o.append("Definition src_esc_class : list N := [" + ";".join(str(c) for c in lit["esc_class"]) + "].")
    o.append("")
    return {"PodsTab.v": "\n".join(o)}


if __name__ == "__main__":
    import sys
    txt = generate(pathlib.Path(sys.argv[1] if len(sys.argv) > 1 else "/repo"))["PodsTab.v"]
    print(txt[:3000])
    print("...", len(txt), "bytes")
