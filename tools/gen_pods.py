"""Gen/PodsTab.v: the table of all POD descriptors of all registered model classes, the enum
tables they use, and the literal constants of capellambse/model/_pods.py and of the attribute
escaper in capellambse/loader/exs.py.

Everything is obtained by reflection in a subprocess that imports capellambse from the tree under
check: for every class in XTYPE_HANDLERS (and every other ModelElement subclass), every attribute that
is a BasePOD -> (class, attribute, kind, XML attribute, writable, enum index, default).  Unknown POD
kinds get kind code 99 (the Coq theorem `all_rows_known` then fails).  Literals: the two texts
BoolPOD writes and the one it reads as True, the text FloatPOD writes for +inf and whether it reads
it back, the DatetimePOD.re_set/re_get pattern sources, the character class of exs.P_ESCAPE_TEXT
(parsed by a small [..]-class parser).  Fails closed (raises) when something has an unexpected shape.
"""
from __future__ import annotations

import json
import os
import pathlib
import subprocess

OUTPUTS = ["PodsTab.v"]

KINDS = {"StringPOD": 0, "HTMLStringPOD": 1, "BoolPOD": 2, "IntPOD": 3, "FloatPOD": 4,
         "DatetimePOD": 5, "EnumPOD": 6, "PVMTDescriptionProperty": 7}

REFLECT = r"""
import json, sys, enum, math, datetime
import capellambse
from capellambse.model import _pods, _xtype, _obj
capellambse.load_model_extensions()
import capellambse.metamodel
import capellambse.metamodel.modeltypes as mt
classes = {}
for d in _xtype.XTYPE_HANDLERS.values():
    for cls in d.values():
        classes[cls.__module__ + "." + cls.__qualname__] = cls
# plus every ModelElement subclass that is not registered (e.g. PVMT configuration classes)
extra = {}
def walk(c):
    for s in c.__subclasses__():
        k = s.__module__ + "." + s.__qualname__
        if k not in classes and k not in extra and s.__module__.startswith("capellambse."):
            extra[k] = s
        walk(s)
walk(_obj.ModelElement)
enums = {}
def enum_idx(e):
    k = e.__module__ + "." + e.__qualname__
    if k not in enums:
        mem = []
        for n, m in e.__members__.items():
            if not isinstance(m.value, str):
                raise SystemExit("enum value is not a str: %s.%s" % (k, n))
            mem.append([n, m.value, m.name])
        # does a member compare equal to its own name (the _StringyEnumMixin behaviour that
        # BasePOD.__set__'s `value != self.default` relies on when a name is assigned)?
        flags = {not (m != m.name) for m in e.__members__.values()}
        if len(flags) != 1:
            raise SystemExit("enum is neither stringy nor not: %s" % k)
        enums[k] = {"members": mem, "stringy": flags.pop()}
    return list(enums).index(k)
def rows_of(classes, registered):
    rows = []
    for key in sorted(classes):
        cls = classes[key]
        for name in sorted(dir(cls)):
            try:
                d = getattr(cls, name)
            except Exception:
                continue
            if not isinstance(d, _pods.BasePOD):
                continue
            kind = type(d).__name__
            eidx, dflt = 0, None
            if isinstance(d, _pods.EnumPOD):
                eidx = enum_idx(d.enumcls)
                dflt = ["enum", d.default.name]
            elif isinstance(d.default, bool):
                dflt = ["bool", d.default]
            elif isinstance(d.default, int):
                dflt = ["int", d.default]
            elif isinstance(d.default, float):
                dflt = ["float", repr(d.default)]
            elif isinstance(d.default, str):
                dflt = ["str", str(d.default)]
            elif d.default is None:
                dflt = ["none"]
            elif hasattr(d.default, "raw"):
                dflt = ["str", d.default.raw]
            else:
                dflt = ["unknown", repr(d.default)]
            rows.append([key, name, kind, d.attribute, bool(d.writable), eidx, dflt, registered])
    return rows
rows = rows_of(classes, True) + rows_of(extra, False)
# all enums of modeltypes, used or not (the codec theorem covers them too)
for n in sorted(dir(mt)):
    e = getattr(mt, n)
    if isinstance(e, type) and issubclass(e, enum.Enum) and e.__module__ == mt.__name__:
        enum_idx(e)
# literal texts, observed on the live code (robust against harmless rewrites of the method bodies)
from capellambse.loader import exs
lit = {}
b = _pods.BoolPOD("x")
lit["bool_true"], lit["bool_false"] = b._to_xml(True), b._to_xml(False)
cands = [lit["bool_true"], lit["bool_false"], "true", "false", "True", "TRUE", "1", "0", "yes", ""]
truthy = [c for c in dict.fromkeys(cands) if b._from_xml(c) is True]
if len(truthy) != 1:
    raise SystemExit("BoolPOD._from_xml: expected exactly one text read as True among %r, got %r" % (cands, truthy))
lit["bool_read_true"] = truthy[0]
f = _pods.FloatPOD("x")
lit["float_inf_marker"] = f._to_xml(math.inf)
try:
    lit["float_inf_read"] = [lit["float_inf_marker"]] if f._from_xml(lit["float_inf_marker"]) == math.inf else []
except ValueError:
    lit["float_inf_read"] = []
lit["re_set"], lit["re_get"] = _pods.DatetimePOD.re_set.pattern, _pods.DatetimePOD.re_get.pattern
lit["esc_pattern"] = exs.P_ESCAPE_TEXT.pattern
json.dump({"rows": rows, "enums": enums, "nclasses": len(classes), "lit": lit}, sys.stdout)
"""


def reflect(repo: pathlib.Path) -> dict:
    env = dict(os.environ, PYTHONPATH=str(repo), PYTHONHASHSEED="0", TZ="UTC", PYTHONWARNINGS="ignore")
    p = subprocess.run(["/venv/bin/python", "-c", REFLECT], env=env, cwd="/", capture_output=True, text=True, timeout=120)
    if p.returncode != 0:
        raise RuntimeError("reflection failed: " + p.stderr[-500:])
    return json.loads(p.stdout)


def S(s: str) -> str:
    return "[" + ";".join(str(ord(c)) for c in s) + "]"


def literals(data: dict) -> dict:
    lit = dict(data["lit"])
    for k in ("bool_true", "bool_false", "bool_read_true", "float_inf_marker", "re_set", "re_get", "esc_pattern"):
        if not isinstance(lit.get(k), str):
            raise RuntimeError(f"literal {k} is not a string: {lit.get(k)!r}")
    lit["esc_class"] = charclass(lit["esc_pattern"])
    return lit


def charclass(pat: str) -> list[int]:
    """code points of a regex of the form [..] with literal chars, \\xHH escapes and a-b ranges"""
    if not (pat.startswith("[") and pat.endswith("]")) or pat.startswith("[^"):
        raise RuntimeError(f"escape pattern is not a plain character class: {pat!r}")
    body, items, i = pat[1:-1], [], 0
    while i < len(body):
        c = body[i]
        if c == "\\":
            if body[i + 1] == "x":
                items.append(int(body[i + 2:i + 4], 16)); i += 4
            else:
                raise RuntimeError(f"unsupported escape in character class: {pat!r}")
        elif c == "-" and items and i + 1 < len(body):
            items.append("-"); i += 1
        elif c in "[]^":
            raise RuntimeError(f"unsupported character class syntax: {pat!r}")
        else:
            items.append(ord(c)); i += 1
    out: list[int] = []
    k = 0
    while k < len(items):
        if k + 2 < len(items) and items[k + 1] == "-":
            out.extend(range(items[k], items[k + 2] + 1)); k += 3
        else:
            if items[k] == "-":
                out.append(ord("-"))
            else:
                out.append(items[k])
            k += 1
    return sorted(set(out))


def generate(repo: pathlib.Path) -> dict[str, str]:
    data = reflect(repo)
    lit = literals(data)
    rows, enums = data["rows"], data["enums"]
    if not rows or data["nclasses"] < 10:
        raise RuntimeError("class registry is (nearly) empty")
    o = ["(* GENERATED by tools/gen_pods.py from the class registry of capellambse, capellambse/model/_pods.py",
         "   and capellambse/loader/exs.py — do not edit *)",
         "From Coq Require Import ZArith NArith List Bool.", "Import ListNotations.", "From V Require Import Model.Val.", "Open Scope N_scope.", "",
         "(* kinds: " + ", ".join(f"{v}={k}" for k, v in KINDS.items()) + "; 99 = unknown subclass of BasePOD *)",
         "(* default: VS text / VB / VZ / VNone / for floats VS repr / for enums VZ member index / VE 16 = a default of another type *)",
         "Record pod_row := { r_class : list N; r_name : list N; r_kind : N; r_attr : list N; r_writable : bool;",
         "                    r_enum : nat; r_default : val; r_registered : bool }.", ""]
    o.append(f"Definition n_registered_classes : N := {data['nclasses']}.")
    o.append("(* (class, members compare equal to their own name, [(name, value)] in __members__ order) *)")
    o.append("Definition enum_tabs : list (list N * bool * list (list N * list N)) := [")
    ents = []
    for k, e in enums.items():
        # aliases would show up as a repeated value
        ents.append("  (" + S(k) + ", " + ("true" if e["stringy"] else "false") + ", ["
                    + "; ".join(f"({S(n)}, {S(v)})" for n, v, _ in e["members"]) + "])")
    o.append(";\n".join(ents))
    o.append("].")
    o.append("")
    o.append("Definition pod_rows : list pod_row := [")
    rr = []
    for cls, name, kind, attr, wr, eidx, dflt, reg in rows:
        kc = KINDS.get(kind, 99)
        if dflt[0] == "enum":
            names = [n for n, _, _ in list(enums.values())[eidx]["members"]]
            dc = "VZ %d" % names.index(dflt[1])
        elif dflt[0] == "bool":
            dc = "VB true" if dflt[1] else "VB false"
        elif dflt[0] == "int":
            dc = "VZ (%d)" % dflt[1]
        elif dflt[0] in ("float", "str"):
            dc = "VS " + S(dflt[1])
        elif dflt[0] == "none":
            dc = "VNone"
        else:
            dc = "VE 16"
        rr.append("  {| r_class := %s; r_name := %s; r_kind := %d; r_attr := %s; r_writable := %s; r_enum := %d%%nat; r_default := %s; r_registered := %s |}"
                  % (S(cls), S(name), kc, S(attr), "true" if wr else "false", eidx, dc, "true" if reg else "false"))
    o.append(";\n".join(rr))
    o.append("].")
    o.append("")
    o.append(f"Definition src_bool_false : list N := {S(lit['bool_false'])}.")
    o.append(f"Definition src_bool_true : list N := {S(lit['bool_true'])}.")
    o.append(f"Definition src_bool_read_true : list N := {S(lit['bool_read_true'])}.")
    o.append(f"Definition src_float_inf_marker : list N := {S(lit['float_inf_marker'])}.")
    o.append("Definition src_float_inf_read : list (list N) := [" + "; ".join(S(x) for x in lit["float_inf_read"]) + "].")
    o.append(f"Definition src_re_set : list N := {S(lit['re_set'])}.")
    o.append(f"Definition src_re_get : list N := {S(lit['re_get'])}.")
    o.append("Definition src_esc_class : list N := [" + ";".join(str(c) for c in lit["esc_class"]) + "].")
    o.append("")
    return {"PodsTab.v": "\n".join(o)}


if __name__ == "__main__":
    import sys
    txt = generate(pathlib.Path(sys.argv[1] if len(sys.argv) > 1 else "/repo"))["PodsTab.v"]
    print(txt[:3000])
    print("...", len(txt), "bytes")
