"""Gen/GitTxSrc.v: what capellambse/filehandler/git.py says about the git transaction (C16).

Extracted with `ast` from the current source:
  * the pattern of `_git_object_name`,
  * the string literals `_GitTransaction.__init__` tests/prepends for the target ref, in source order; helper
    methods of the class and plain module-level functions it calls are inlined at the call, and a name
    bound once at module level to a string literal counts as that literal (so moving the check into a helper or
    naming the prefix does not change the list, while another prefix, a dropped or an added test does),
  * for `__enter__`, `__exit__` (exception path / normal path) and `record_update`: the sequence of git
    commands they issue in source order, helper methods of the class inlined (so extracting or inlining
    a helper does not change it, while dropping, adding or reordering a plumbing command does),
  * the defaults of `GitFileHandler.write_transaction`.
Proofs/GitTxTie.v states what the model was written against; it stops compiling when these differ.
Never raises for a source of unexpected shape (other properties share the generator run): it then
emits `src_ok := false` and empty tables, which fails the tie lemmas of this property only.
"""
from __future__ import annotations

import ast
import pathlib

OUTPUTS = ["GitTxSrc.v"]


def nlist(s: str) -> str:
    return "[" + ";".join(str(b) for b in s.encode("utf-8")) + "]%N"


def cmds_to_coq(cmds: list[list[str]]) -> str:
    return "[" + "; ".join("[" + "; ".join(nlist(w) for w in c) + "]" for c in cmds) + "]"


def module_functions(mod: ast.Module) -> dict[str, ast.FunctionDef]:
    """plain module-level functions that are bound exactly once (candidates for inlining at their call sites)"""
    count: dict[str, int] = {}
    for n in ast.walk(mod):
        if isinstance(n, (ast.FunctionDef, ast.AsyncFunctionDef, ast.ClassDef)):
            count[n.name] = count.get(n.name, 0) + 1
        elif isinstance(n, ast.Name) and isinstance(n.ctx, ast.Store):
            count[n.id] = count.get(n.id, 0) + 1
        elif isinstance(n, ast.alias):
            nm = (n.asname or n.name).split(".")[0]
            count[nm] = count.get(nm, 0) + 1
    return {n.name: n for n in mod.body if isinstance(n, ast.FunctionDef) and count.get(n.name) == 1 and not n.decorator_list}


def module_str_constants(mod: ast.Module) -> dict[str, str]:
    count: dict[str, int] = {}
    for n in ast.walk(mod):
        if isinstance(n, ast.Name) and isinstance(n.ctx, ast.Store):
            count[n.id] = count.get(n.id, 0) + 1
        elif isinstance(n, (ast.FunctionDef, ast.AsyncFunctionDef, ast.ClassDef)):
            count[n.name] = count.get(n.name, 0) + 1
        elif isinstance(n, ast.arg):
            count[n.arg] = count.get(n.arg, 0) + 1      # a parameter of that name would shadow it somewhere
    out = {}
    for n in mod.body:
        tg = None
        if isinstance(n, ast.Assign) and len(n.targets) == 1:
            tg = n.targets[0]
        elif isinstance(n, ast.AnnAssign):
            tg = n.target
        if isinstance(tg, ast.Name) and isinstance(n.value, ast.Constant) and isinstance(n.value.value, str) and count.get(tg.id) == 1:
            out[tg.id] = n.value.value
    return out


class Flattener:
    def __init__(self, cls: ast.ClassDef, mod: ast.Module | None = None):
        self.methods = {n.name: n for n in cls.body if isinstance(n, ast.FunctionDef)}
        self.cls = cls.name
        self.functions = module_functions(mod) if mod is not None else {}
        self.consts = module_str_constants(mod) if mod is not None else {}

    def unmangle(self, attr: str) -> str:
        return attr

    def git_call(self, call: ast.Call) -> list[str] | None:
        f = call.func
        if isinstance(f, ast.Attribute) and f.attr == "_git":
            words = []
            for a in call.args:
                if isinstance(a, ast.Constant) and isinstance(a.value, str):
                    words.append(a.value)
                else:
                    break
            return words
        return None

    def helper(self, call: ast.Call) -> ast.FunctionDef | None:
        f = call.func
        if isinstance(f, ast.Attribute) and isinstance(f.value, ast.Name) and f.value.id == "self" and f.attr in self.methods:
            return self.methods[f.attr]
        if isinstance(f, ast.Name) and f.id in self.functions:
            return self.functions[f.id]
        return None

    def walk(self, node: ast.AST, out: list[list[str]], depth: int = 0) -> None:
        """source-order traversal; calls are visited after their arguments"""
        if depth > 6:
            return
        if isinstance(node, ast.Call):
            for ch in ast.iter_child_nodes(node):
                self.walk(ch, out, depth)
            g = self.git_call(node)
            if g is not None:
                out.append(g)
                return
            h = self.helper(node)
            if h is not None:
                for st in h.body:
                    self.walk(st, out, depth + 1)
            return
        for ch in ast.iter_child_nodes(node):
            self.walk(ch, out, depth)

    def literals(self, node: ast.AST, prefix: str, out: list[str], depth: int = 0) -> None:
        """string literals starting with `prefix`, in source order, helpers inlined at their call"""
        if depth > 6:
            return
        if isinstance(node, ast.Constant) and isinstance(node.value, str) and node.value.startswith(prefix):
            out.append(node.value)
            return
        if isinstance(node, ast.Name) and isinstance(node.ctx, ast.Load) and self.consts.get(node.id, "").startswith(prefix):
            out.append(self.consts[node.id])
            return
        for ch in ast.iter_child_nodes(node):
            self.literals(ch, prefix, out, depth)
        if isinstance(node, ast.Call):
            h = self.helper(node)
            if h is not None:
                for st in h.body:
                    self.literals(st, prefix, out, depth + 1)

    def seq(self, stmts: list[ast.stmt]) -> list[list[str]]:
        out: list[list[str]] = []
        for st in stmts:
            self.walk(st, out)
        return out


def extract(src: str) -> dict:
    mod = ast.parse(src)
    res: dict = {}
    for n in mod.body:
        if isinstance(n, ast.Assign) and any(isinstance(t, ast.Name) and t.id == "_git_object_name" for t in n.targets):
            c = n.value
            if isinstance(c, ast.Call) and c.args and isinstance(c.args[0], ast.Constant):
                res["pattern"] = c.args[0].value
    tx = next(n for n in mod.body if isinstance(n, ast.ClassDef) and n.name == "_GitTransaction")
    fl = Flattener(tx, mod)
    init = fl.methods["__init__"]
    lits: list[str] = []
    for st in init.body:
        fl.literals(st, "refs/", lits)
    res["ref_literals"] = lits
    res["enter"] = fl.seq(fl.methods["__enter__"].body)
    ex = fl.methods["__exit__"].body
    # first statement: `if exc_value is not None:` (exception path), rest: normal path
    first = ex[0]
    if not (isinstance(first, ast.If) and isinstance(first.test, ast.Compare)
            and isinstance(first.test.left, ast.Name) and first.test.left.id == "exc_value"):
        raise ValueError("__exit__ does not start with the exception test")
    res["exit_exc"] = fl.seq(first.body)
    res["exit_normal"] = fl.seq(ex[1:])
    res["record_update"] = fl.seq(fl.methods["record_update"].body)
    fh = next(n for n in mod.body if isinstance(n, ast.ClassDef) and n.name == "GitFileHandler")
    wt = next(n for n in fh.body if isinstance(n, ast.FunctionDef) and n.name == "write_transaction")
    args = wt.args.args[1:]
    defaults = wt.args.defaults
    dmap = {}
    for a, d in zip(args[len(args) - len(defaults):], defaults):
        if isinstance(d, ast.Constant) and isinstance(d.value, bool):
            dmap[a.arg] = d.value
    res["defaults"] = dmap
    # open(): the refusal without a transaction
    op = next(n for n in fh.body if isinstance(n, ast.FunctionDef) and n.name == "open")
    res["open_refuses"] = any(isinstance(n, ast.Raise) and isinstance(n.exc, ast.Call)
                              and isinstance(n.exc.func, ast.Attribute) and n.exc.func.attr == "TransactionClosedError"
                              for n in ast.walk(op))
    return res


HEADER = """(* GENERATED by tools/gen_gittx.py from capellambse/filehandler/git.py — do not edit *)
From Coq Require Import NArith List Bool.
Import ListNotations.
"""


def generate(repo: pathlib.Path) -> dict[str, str]:
    out = [HEADER]
    try:
        r = extract((repo / "capellambse" / "filehandler" / "git.py").read_text())
        ok = "true"
    except Exception as e:  # noqa: BLE001  — see module docstring
        out.append(f"(* extraction failed: {type(e).__name__}: {str(e)[:200]} *)")
        r = {"pattern": "", "ref_literals": [], "enter": [], "exit_exc": [], "exit_normal": [], "record_update": [],
             "defaults": {}, "open_refuses": False}
        ok = "false"
    out.append(f"Definition src_ok : bool := {ok}.")
    out.append(f"Definition src_object_name_pattern : list N := {nlist(r.get('pattern', ''))}.")
    out.append("Definition src_ref_literals : list (list N) := [" + "; ".join(nlist(x) for x in r["ref_literals"]) + "].")
    for k in ("enter", "exit_exc", "exit_normal", "record_update"):
        out.append(f"Definition src_{k}_cmds : list (list (list N)) := {cmds_to_coq(r[k])}.")
    out.append("Definition src_defaults : list (list N * bool) := ["
               + "; ".join(f"({nlist(k)}, {'true' if v else 'false'})" for k, v in sorted(r["defaults"].items())) + "].")
    out.append(f"Definition src_open_refuses_without_transaction : bool := {'true' if r['open_refuses'] else 'false'}.")
    return {"GitTxSrc.v": "\n".join(out) + "\n"}


if __name__ == "__main__":
    import os
    print(generate(pathlib.Path(os.environ.get("VERIF_REPO", "/repo")))["GitTxSrc.v"])
