"""Gen/GitTxSrc.v: what capellambse/filehandler/git.py says about the git transaction (C16).

Extracted with `ast` from the current source:
  * the pattern of `_git_object_name`,
  * the string literals `_GitTransaction.__init__` tests/prepends for the target ref,
  * for `__enter__`, `__exit__` (exception path / normal path) and `record_update`: the sequence of git
    commands they issue in source order, helper methods of the class inlined (so extracting or inlining
    a helper does not change it, while dropping, adding or reordering a plumbing command does),
  * the defaults of `GitFileHandler.write_transaction`.
Proofs/GitTxTie.v states what the model was written against; it stops compiling when these differ.
Never raises for a source of unexpected shape (other properties share the generator run): it then
emits `src_ok := false` and empty tables, which fails the tie lemmas of this property only.
"""
from __future__ import annotations

import ast
import pathlib

OUTPUTS = ["GitTxSrc.v"]


def nlist(s: str) -> str:
    return "[" + ";".join(str(b) for b in s.encode("utf-8")) + "]%N"


def cmds_to_coq(cmds: list[list[str]]) -> str:
    return "[" + "; ".join("[" + "; ".join(nlist(w) for w in c) + "]" for c in cmds) + "]"


class Flattener:
    def __init__(self, cls: ast.ClassDef):
        self.methods = {n.name: n for n in cls.body if isinstance(n, ast.FunctionDef)}
        self.cls = cls.name

    def unmangle(self, attr: str) -> str:
        return attr

    def git_call(self, call: ast.Call) -> list[str] | None:
        f = call.func
        if isinstance(f, ast.Attribute) and f.attr == "_git":
            words = []
            for a in call.args:
                if isinstance(a, ast.Constant) and isinstance(a.value, str):
                    words.append(a.value)
                else:
                    break
            return words
        return None

    def helper(self, call: ast.Call) -> str | None:
        f = call.func
        if isinstance(f, ast.Attribute) and isinstance(f.value, ast.Name) and f.value.id == "self" and f.attr in self.methods:
            return f.attr
        return None

    def walk(self, node: ast.AST, out: list[list[str]], depth: int = 0) -> None:
        """source-order traversal; calls are visited after their arguments"""
        if depth > 6:
            return
        if isinstance(node, ast.Call):
            for ch in ast.iter_child_nodes(node):
                self.walk(ch, out, depth)
            g = self.git_call(node)
            if g is not None:
                out.append(g)
                return
            h = self.helper(node)
            if h is not None:
                for st in self.methods[h].body:
                    self.walk(st, out, depth + 1)
            return
        for ch in ast.iter_child_nodes(node):
            self.walk(ch, out, depth)

    def seq(self, stmts: list[ast.stmt]) -> list[list[str]]:
        out: list[list[str]] = []
        for st in stmts:
            self.walk(st, out)
        return out


def extract(src: str) -> dict:
    mod = ast.parse(src)
    res: dict = {}
    for n in mod.body:
        if isinstance(n, ast.Assign) and any(isinstance(t, ast.Name) and t.id == "_git_object_name" for t in n.targets):
            c = n.value
            if isinstance(c, ast.Call) and c.args and isinstance(c.args[0], ast.Constant):
                res["pattern"] = c.args[0].value
    tx = next(n for n in mod.body if isinstance(n, ast.ClassDef) and n.name == "_GitTransaction")
    fl = Flattener(tx)
    init = fl.methods["__init__"]
    lits = []
    for n in ast.walk(init):
        if isinstance(n, ast.Constant) and isinstance(n.value, str) and n.value.startswith("refs/"):
            lits.append(n.value)
    res["ref_literals"] = lits
    res["enter"] = fl.seq(fl.methods["__enter__"].body)
    ex = fl.methods["__exit__"].body
    # first statement: `if exc_value is not None:` (exception path), rest: normal path
    first = ex[0]
    if not (isinstance(first, ast.If) and isinstance(first.test, ast.Compare)
            and isinstance(first.test.left, ast.Name) and first.test.left.id == "exc_value"):
        raise ValueError("__exit__ does not start with the exception test")
    res["exit_exc"] = fl.seq(first.body)
    res["exit_normal"] = fl.seq(ex[1:])
    res["record_update"] = fl.seq(fl.methods["record_update"].body)
    fh = next(n for n in mod.body if isinstance(n, ast.ClassDef) and n.name == "GitFileHandler")
    wt = next(n for n in fh.body if isinstance(n, ast.FunctionDef) and n.name == "write_transaction")
    args = wt.args.args[1:]
    defaults = wt.args.defaults
    dmap = {}
    for a, d in zip(args[len(args) - len(defaults):], defaults):
        if isinstance(d, ast.Constant) and isinstance(d.value, bool):
            dmap[a.arg] = d.value
    res["defaults"] = dmap
    # open(): the refusal without a transaction
    op = next(n for n in fh.body if isinstance(n, ast.FunctionDef) and n.name == "open")
    res["open_refuses"] = any(isinstance(n, ast.Raise) and isinstance(n.exc, ast.Call)
                              and isinstance(n.exc.func, ast.Attribute) and n.exc.func.attr == "TransactionClosedError"
                              for n in ast.walk(op))
    return res


HEADER = """(* GENERATED by tools/gen_gittx.py from capellambse/filehandler/git.py — do not edit *)
From Coq Require Import NArith List Bool.
Import ListNotations.
"""


def generate(repo: pathlib.Path) -> dict[str, str]:
    out = [HEADER]
    try:
        r = extract((repo / "capellambse" / "filehandler" / "git.py").read_text())
        ok = "true"
    except Exception as e:  # noqa: BLE001  — see module docstring
        out.append(f"(* extraction failed: {type(e).__name__}: {str(e)[:200]} *)")
        r = {"pattern": "", "ref_literals": [], "enter": [], "exit_exc": [], "exit_normal": [], "record_update": [],
             "defaults": {}, "open_refuses": False}
        ok = "false"
    out.append(f"Definition src_ok : bool := {ok}.")
    out.append(f"Definition src_object_name_pattern : list N := {nlist(r.get('pattern', ''))}.")
    out.append("Definition src_ref_literals : list (list N) := [" + "; ".join(nlist(x) for x in r["ref_literals"]) + "].")
    for k in ("enter", "exit_exc", "exit_normal", "record_update"):
        out.append(f"Definition src_{k}_cmds : list (list (list N)) := {cmds_to_coq(r[k])}.")
    out.append("Definition src_defaults : list (list N * bool) := ["
               + "; ".join(f"({nlist(k)}, {'true' if v else 'false'})" for k, v in sorted(r["defaults"].items())) + "].")
    out.append(f"Definition src_open_refuses_without_transaction : bool := {'true' if r['open_refuses'] else 'false'}.")
    return {"GitTxSrc.v": "\n".join(out) + "\n"}


if __name__ == "__main__":
    import os
    print(generate(pathlib.Path(os.environ.get("VERIF_REPO", "/repo")))["GitTxSrc.v"])
