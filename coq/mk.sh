#!/bin/sh
# Regenerate Gen/ from the repository under check, refresh _CoqProject/Makefile from the
# files present, then make the given targets (full .vo build).  Serialised by a lock.
# env: FORCE_REBUILD="Props/C14" removes that file's outputs first; VERIF_REPO selects the tree.
cd "$(dirname "$0")"
exec 9>.lock
flock 9
export VERIF_COQ_DIR="$(pwd)"
if [ -z "$VERIF_TOOLS" ]; then if [ -f ../tools/gen_all.py ]; then VERIF_TOOLS=../tools; else VERIF_TOOLS=/verif/tools; fi; fi
/venv/bin/python "$VERIF_TOOLS/gen_all.py" 2>&1 || true
for f in $FORCE_REBUILD; do rm -f "$f.vo" "$f.vok" "$f.vos" "$f.glob"; done
{ echo "-Q . V"; ls Model/*.v Proofs/*.v Props/*.v Gen/*.v 2>/dev/null; } > _CoqProject.new
if ! cmp -s _CoqProject.new _CoqProject 2>/dev/null; then mv _CoqProject.new _CoqProject; coq_makefile -f _CoqProject -o Makefile >/dev/null; else rm _CoqProject.new; fi
[ -f Makefile ] || coq_makefile -f _CoqProject -o Makefile >/dev/null
exec make -j"${JOBS:-16}" "$@"
