#!/bin/sh
# regenerate _CoqProject + Makefile from the files present, then make the given targets
cd "$(dirname "$0")"
{ echo "-Q . V"; ls Model/*.v Proofs/*.v Props/*.v Gen/*.v 2>/dev/null; } > _CoqProject.new
if ! cmp -s _CoqProject.new _CoqProject 2>/dev/null; then mv _CoqProject.new _CoqProject; coq_makefile -f _CoqProject -o Makefile >/dev/null; else rm _CoqProject.new; fi
[ -f Makefile ] || coq_makefile -f _CoqProject -o Makefile >/dev/null
exec make -j"${JOBS:-16}" "$@"
