From Coq Require Import ZArith NArith List Bool Lia.
Import ListNotations.
From V Require Import Model.Val Model.Paths Model.PyPrims Model.Quote Model.LinkRe Model.Links Proofs.PathsP Proofs.QuoteP.
Open Scope N_scope.

(* ------------------------------------------------------------------ relpath *)
Lemma repeat_snoc {A} (x : A) n l : repeat x n ++ x :: l = x :: repeat x n ++ l.
Proof. induction n as [|n IH]; cbn; [reflexivity|]. now rewrite IH. Qed.

Lemma fold_rstep_false s : forall rest ups,
  fold_left rstep s (rest, false, ups) = (rest, false, repeat dotdot (length s) ++ ups).
Proof.
  induction s as [|y s IH]; intros rest ups; cbn [fold_left length repeat app]; [reflexivity|].
  cbn [rstep]. rewrite IH. now rewrite repeat_snoc.
Qed.

Lemma relpath_nil_start path : relpath path [] = path.
Proof. reflexivity. Qed.

Lemma relpath_match x p s : relpath (x :: p) (x :: s) = relpath p s.
Proof. unfold relpath. cbn [fold_left rstep]. now rewrite str_eqb_refl. Qed.

Lemma relpath_mismatch x p y s : str_eqb x y = false ->
  relpath (x :: p) (y :: s) = repeat dotdot (length s) ++ x :: p.
Proof.
  intro H. unfold relpath. cbn [fold_left rstep]. rewrite H, fold_rstep_false. now rewrite app_nil_r.
Qed.

Lemma relpath_nil_path y s : relpath [] (y :: s) = repeat dotdot (length s).
Proof. unfold relpath. cbn [fold_left rstep]. rewrite fold_rstep_false. now rewrite !app_nil_r. Qed.

(* ------------------------------------------------------------------ normalize loop *)
Lemma nloop_push l : forall acc, has_dotdot l = false -> fold_left nstep l acc = acc ++ l.
Proof.
  induction l as [|p l IH]; intros acc H; cbn [fold_left]; [now rewrite app_nil_r|].
  cbn in H. apply orb_false_iff in H as [Hp Hl]. unfold nstep at 2. rewrite Hp.
  rewrite IH by exact Hl. now rewrite <- app_assoc.
Qed.

Lemma removelast_app_one {A} (l : list A) x : removelast (l ++ [x]) = l.
Proof. apply removelast_last. Qed.

Lemma nloop_pop l : forall acc, fold_left nstep (repeat dotdot (length l)) (acc ++ l) = acc.
Proof.
  induction l as [|x l IH] using rev_ind; intros acc; [cbn; now rewrite app_nil_r|].
  rewrite app_length. cbn [length]. rewrite Nat.add_1_r. cbn [repeat fold_left].
  unfold nstep at 2. rewrite str_eqb_refl. rewrite app_assoc, removelast_app_one. apply IH.
Qed.

Lemma fold_nstep_app a b acc : fold_left nstep (a ++ b) acc = fold_left nstep b (fold_left nstep a acc).
Proof. apply fold_left_app. Qed.

Lemma removelast_length {A} (l : list A) : l <> [] -> S (length (removelast l)) = length l.
Proof.
  intro H. destruct (exists_last H) as [l' [x ->]]. rewrite removelast_last, app_length. cbn. lia.
Qed.

Lemma has_dotdot_cons x l : has_dotdot (x :: l) = str_eqb x dotdot || has_dotdot l.
Proof. reflexivity. Qed.

(* resolving the relative path written by relpath against the directory of [from] gives [to] *)
Lemma relpath_normalize_acc from : forall to c,
  from <> [] -> is_prefix from to = false ->
  has_dotdot from = false -> has_dotdot to = false ->
  fold_left nstep (removelast from ++ relpath to from) c = c ++ to.
Proof.
  induction from as [|y s IH]; intros to c Hne Hpre Hf Ht; [congruence|].
  rewrite has_dotdot_cons in Hf. apply orb_false_iff in Hf as [Hy Hs].
  destruct to as [|x p].
  - (* to = [] *)
    rewrite relpath_nil_path, fold_nstep_app.
    rewrite (nloop_push (removelast (y :: s))) by (apply has_dotdot_removelast; rewrite has_dotdot_cons, Hy, Hs; reflexivity).
    assert (L : length s = length (removelast (y :: s))).
    { pose proof (removelast_length (y :: s) ltac:(discriminate)) as E. cbn [length] in E. lia. }
    rewrite L, nloop_pop. now rewrite app_nil_r.
  - destruct (str_eqb x y) eqn:E.
    + apply str_eqb_eq in E. subst y. cbn [is_prefix] in Hpre. rewrite str_eqb_refl in Hpre. cbn [andb] in Hpre.
      assert (Hsne : s <> []) by (intros ->; cbn in Hpre; discriminate).
      rewrite relpath_match.
      assert (R : removelast (x :: s) = x :: removelast s) by (destruct s; [congruence|reflexivity]).
      rewrite R. cbn [app fold_left]. unfold nstep at 2. rewrite Hy.
      rewrite has_dotdot_cons in Ht. apply orb_false_iff in Ht as [_ Ht].
      rewrite IH by assumption. now rewrite <- app_assoc.
    + rewrite relpath_mismatch by exact E. rewrite fold_nstep_app.
      rewrite (nloop_push (removelast (y :: s))) by (apply has_dotdot_removelast; rewrite has_dotdot_cons, Hy, Hs; reflexivity).
      rewrite fold_nstep_app.
      assert (L : length s = length (removelast (y :: s))).
      { pose proof (removelast_length (y :: s) ltac:(discriminate)) as E'. cbn [length] in E'. lia. }
      rewrite L, nloop_pop. now apply nloop_push.
Qed.

Theorem relpath_normalize from to :
  from <> [] -> is_prefix from to = false -> has_dotdot from = false -> has_dotdot to = false ->
  normalize_parts (removelast from ++ relpath to from) = to.
Proof. intros. unfold normalize_parts. now rewrite relpath_normalize_acc. Qed.

(* the guard is tight: when [from] is a proper prefix of [to] the statement fails *)
Example relpath_guard_tight :
  let from := [[97]] in let to := [[97]; [98]] in
  normalize_parts (removelast from ++ relpath to from) <> to.
Proof. vm_compute. discriminate. Qed.

(* ------------------------------------------------------------------ join / split of path strings *)
Definition seg_ok_b (p : str) : bool := negb (memN SLASH p) && negb (str_eqb p []) && negb (str_eqb p dot).

Lemma split_on_app_nosep sep a : forall r cur, memN sep a = false ->
  split_on sep (a ++ r) cur = split_on sep r (rev a ++ cur).
Proof.
  induction a as [|c a IH]; intros r cur H; [reflexivity|].
  cbn in H. apply orb_false_iff in H as [Hc Ha]. cbn [app split_on].
  rewrite N.eqb_sym in Hc. rewrite Hc. rewrite IH by exact Ha. cbn [rev]. now rewrite <- app_assoc.
Qed.

Lemma split_on_single sep a : memN sep a = false -> split_on sep a [] = [a].
Proof.
  intro H. rewrite <- (app_nil_r a) at 1. rewrite split_on_app_nosep by exact H. cbn. now rewrite app_nil_r, rev_involutive.
Qed.

Lemma split_join sep l : l <> [] -> Forall (fun p => memN sep p = false) l ->
  split_on sep (join_with sep l) [] = l.
Proof.
  intros Hne HF. induction HF as [|x l Hx HF IH]; [congruence|].
  destruct l as [|y l'].
  - cbn. now apply split_on_single.
  - cbn [join_with]. rewrite split_on_app_nosep by exact Hx. cbn [split_on]. rewrite N.eqb_refl.
    rewrite app_nil_r, rev_involutive. f_equal. apply IH. discriminate.
Qed.

Lemma filter_all {A} (f : A -> bool) l : Forall (fun x => f x = true) l -> filter f l = l.
Proof. induction 1 as [|x l Hx _ IH]; cbn; [reflexivity|]. now rewrite Hx, IH. Qed.

Lemma posix_parts_path_str l : Forall (fun p => seg_ok_b p = true) l -> posix_parts (path_str l) = l.
Proof.
  intro H. unfold posix_parts, path_str. destruct l as [|x l]; [reflexivity|].
  rewrite split_join.
  - apply filter_all. eapply Forall_impl; [|exact H]. intros p Hp. unfold seg_ok_b in Hp. unfold keep_seg.
    apply andb_true_iff in Hp as [Hp1 Hp3]. apply andb_true_iff in Hp1 as [_ Hp2]. now rewrite Hp2, Hp3.
  - discriminate.
  - eapply Forall_impl; [|exact H]. intros p Hp. unfold seg_ok_b in Hp.
    apply andb_true_iff in Hp as [Hp1 _]. apply andb_true_iff in Hp1 as [Hp1 _]. now apply negb_true_iff in Hp1.
Qed.

(* ------------------------------------------------------------------ link syntax *)
Lemma break_at_app c l r : forall acc, memN c l = false -> break_at c (l ++ c :: r) acc = Some (rev acc ++ l, r).
Proof.
  induction l as [|x l IH]; intros acc H; cbn [app break_at].
  - now rewrite N.eqb_refl, app_nil_r.
  - cbn in H. apply orb_false_iff in H as [Hx Hl]. rewrite N.eqb_sym in Hx. rewrite Hx.
    rewrite IH by exact Hl. cbn [rev]. now rewrite <- app_assoc.
Qed.
Lemma break_at_none c l : forall acc, memN c l = false -> break_at c l acc = None.
Proof.
  induction l as [|x l IH]; intros acc H; cbn; [reflexivity|].
  cbn in H. apply orb_false_iff in H as [Hx Hl]. rewrite N.eqb_sym in Hx. rewrite Hx. now apply IH.
Qed.

Lemma forallb_not_mem (p : N -> bool) c s : p c = false -> forallb p s = true -> memN c s = false.
Proof.
  intros Hc H. unfold memN. induction s as [|x s IH]; [reflexivity|]. cbn in *. apply andb_true_iff in H as [Hx Hs].
  rewrite IH by exact Hs. destruct (c =? x) eqn:E; [|reflexivity]. apply N.eqb_eq in E. congruence.
Qed.

Definition wf_uuid (u : str) : bool := all_nonempty uuid_char u.
Definition wf_tok (s : str) : bool := all_nonempty nsh_char s.

Lemma all_nonempty_forallb p s : all_nonempty p s = true -> forallb p s = true /\ s <> [].
Proof. destruct s; cbn; [discriminate|]. intro H. split; [exact H|discriminate]. Qed.

Lemma uuid_no_hash u : wf_uuid u = true -> memN HASH u = false.
Proof. intro H. apply all_nonempty_forallb in H as [H _]. now apply (forallb_not_mem uuid_char). Qed.
Lemma tok_no_hash s : wf_tok s = true -> memN HASH s = false.
Proof. intro H. apply all_nonempty_forallb in H as [H _]. now apply (forallb_not_mem nsh_char). Qed.
Lemma tok_no_space s : wf_tok s = true -> memN SPACE s = false.
Proof. intro H. apply all_nonempty_forallb in H as [H _]. now apply (forallb_not_mem nsh_char). Qed.
Lemma memN_app c a b : memN c (a ++ b) = memN c a || memN c b.
Proof. unfold memN. now rewrite existsb_app. Qed.

Theorem parse_format_local u : wf_uuid u = true -> parse_link (HASH :: u) = Some (None, None, u).
Proof. intro H. unfold parse_link. cbn [break_at]. rewrite N.eqb_refl. cbn [rev]. unfold wf_uuid in H. now rewrite H. Qed.

Theorem parse_format_untyped fr u : wf_tok fr = true -> wf_uuid u = true ->
  parse_link (fr ++ [HASH] ++ u) = Some (None, Some fr, u).
Proof.
  intros Hf Hu. unfold parse_link. cbn [app]. rewrite break_at_app by now apply tok_no_hash. cbn [rev app].
  unfold wf_uuid in Hu. rewrite Hu. destruct fr as [|c fr']; [discriminate|].
  rewrite break_at_none by now apply tok_no_space. unfold wf_tok in Hf. now rewrite Hf.
Qed.

Theorem parse_format_typed xt fr u : wf_tok xt = true -> wf_tok fr = true -> wf_uuid u = true ->
  parse_link (xt ++ [SPACE] ++ fr ++ [HASH] ++ u) = Some (Some xt, Some fr, u).
Proof.
  intros Hx Hf Hu. unfold parse_link. cbn [app].
  replace (xt ++ SPACE :: fr ++ HASH :: u) with ((xt ++ SPACE :: fr) ++ HASH :: u) by (now rewrite <- app_assoc).
  rewrite break_at_app.
  2:{ rewrite memN_app. cbn [memN existsb]. rewrite (tok_no_hash xt Hx). change (existsb (N.eqb HASH) fr) with (memN HASH fr).
      rewrite (tok_no_hash fr Hf). reflexivity. }
  cbn [rev app]. unfold wf_uuid in Hu. rewrite Hu.
  destruct (xt ++ SPACE :: fr) as [|c l] eqn:E; [destruct xt; discriminate|]. rewrite <- E.
  rewrite break_at_app by now apply tok_no_space. cbn [rev app]. unfold wf_tok in *. now rewrite Hx, Hf.
Qed.

(* quoted fragment paths are link tokens *)
Lemma quote_is_tok bs : bs <> [] -> Forall (fun b => b < 256) bs -> wf_tok (quote [SLASH] bs) = true.
Proof.
  intros Hne Hb. unfold wf_tok, all_nonempty.
  destruct (quote [SLASH] bs) as [|c q] eqn:E.
  - destruct bs as [|b bs']; [congruence|]. unfold quote in E. cbn [flat_map] in E. unfold quote1 in E.
    destruct (unreserved b || memN b [SLASH]); discriminate.
  - rewrite <- E. apply forallb_forall. intros x Hx.
    destruct (quote_charset [SLASH] bs x Hb Hx) as [H|[H|[H|H]]]; unfold nsh_char.
    + destruct (x =? SPACE) eqn:E1; [apply N.eqb_eq in E1; subst; now vm_compute in H|].
      destruct (x =? HASH) eqn:E2; [apply N.eqb_eq in E2; subst; now vm_compute in H|]. reflexivity.
    + cbn in H. rewrite orb_false_r in H. apply N.eqb_eq in H. subst. reflexivity.
    + subst. reflexivity.
    + destruct (x =? SPACE) eqn:E1; [apply N.eqb_eq in E1; subst; now vm_compute in H|].
      destruct (x =? HASH) eqn:E2; [apply N.eqb_eq in E2; subst; now vm_compute in H|]. reflexivity.
Qed.

Lemma relpath_elems from : forall to p, In p (relpath to from) -> p = dotdot \/ In p to.
Proof.
  induction from as [|y s IH]; intros to p H; [right; exact H|].
  destruct to as [|x t].
  - rewrite relpath_nil_path in H. apply repeat_spec in H. now left.
  - destruct (str_eqb x y) eqn:E.
    + apply str_eqb_eq in E. subst. rewrite relpath_match in H. apply IH in H as [H|H]; [now left|right; now right].
    + rewrite relpath_mismatch in H by exact E. apply in_app_or in H as [H|H]; [apply repeat_spec in H; now left|now right].
Qed.

Definition bytes_ok (s : str) : Prop := Forall (fun b => b < 256) s.
Definition wf_frag (l : list str) : Prop :=
  Forall (fun p => seg_ok_b p = true /\ bytes_ok p) l /\ has_dotdot l = false /\ l <> [].

Lemma join_with_bytes l : Forall bytes_ok l -> bytes_ok (join_with SLASH l).
Proof.
  induction 1 as [|x l Hx HF IH]; [constructor|]. destruct l as [|y l']; [exact Hx|].
  cbn [join_with]. apply Forall_app. split; [exact Hx|]. constructor; [reflexivity|exact IH].
Qed.
Lemma path_str_bytes l : Forall bytes_ok l -> bytes_ok (path_str l).
Proof. intro H. destruct l; [repeat constructor|]. now apply join_with_bytes. Qed.
Lemma path_str_nonempty l : Forall (fun p => p <> []) l -> path_str l <> [].
Proof.
  intro H. destruct l as [|x l]; [discriminate|]. inversion H; subst. cbn.
  destruct l; [assumption|]. destruct x; [congruence|discriminate].
Qed.

Lemma seg_ok_b_dotdot : seg_ok_b dotdot = true.
Proof. reflexivity. Qed.
Lemma seg_ok_b_nonempty p : seg_ok_b p = true -> p <> [].
Proof. intros H ->. discriminate. Qed.

Lemma parts_eqb_eq a : forall b, parts_eqb a b = true <-> a = b.
Proof.
  induction a as [|x a IH]; intros [|y b]; cbn; split; intro H; try congruence; try reflexivity.
  - apply andb_true_iff in H as [H1 H2]. apply str_eqb_eq in H1. apply IH in H2. congruence.
  - inversion H; subst. rewrite str_eqb_refl. now apply IH.
Qed.

Section CreateResolve.
  Variables (from to : list str) (vis : bool) (incl : option bool) (ty : option str) (u : str).
  Hypothesis Hfrom : wf_frag from.
  Hypothesis Hto : wf_frag to.
  Hypothesis Hu : wf_uuid u = true.
  Hypothesis Hty : match ty with Some t => wf_tok t = true | None => True end.

  Let rp := relpath to from.
  Lemma rp_ok : Forall (fun p => seg_ok_b p = true /\ bytes_ok p) rp.
  Proof.
    apply Forall_forall. intros p Hp. apply relpath_elems in Hp as [->|Hp].
    - split; [reflexivity|repeat constructor].
    - destruct Hto as [H _]. rewrite Forall_forall in H. now apply H.
  Qed.
  Let link := quote [SLASH] (path_str rp).
  Lemma link_tok : wf_tok link = true.
  Proof.
    apply quote_is_tok.
    - apply path_str_nonempty. eapply Forall_impl; [|exact rp_ok]. intros p [H _]. now apply seg_ok_b_nonempty.
    - apply path_str_bytes. eapply Forall_impl; [|exact rp_ok]. now intros p [_ H].
  Qed.
  Lemma link_resolves : normalize_parts (removelast from ++ posix_parts (unquote link)) = to ->
    True.
  Proof. trivial. Qed.

  Lemma unquote_link : posix_parts (unquote link) = rp.
  Proof.
    unfold link. rewrite unquote_quote; [|apply path_str_bytes; eapply Forall_impl; [|exact rp_ok]; now intros p [_ H] | reflexivity].
    apply posix_parts_path_str. eapply Forall_impl; [|exact rp_ok]. now intros p [H _].
  Qed.

  (* links between different fragments resolve to the target fragment, whatever the form *)
  Theorem create_resolve_cross :
    parts_eqb from to = false -> is_prefix from to = false ->
    resolve_fragment from (create_link_text from to vis incl ty u) = Some to
    /\ exists xt fr, parse_link (create_link_text from to vis incl ty u) = Some (xt, Some fr, u).
  Proof.
    intros Hne Hpre. unfold create_link_text. rewrite Hne. fold rp. fold link.
    destruct Hfrom as (_ & Hfd & Hfn). destruct Hto as (_ & Htd & _).
    assert (R : normalize_parts (removelast from ++ posix_parts (unquote link)) = to).
    { rewrite unquote_link. now apply relpath_normalize. }
    pose proof link_tok as Hl.
    destruct (match incl with Some b => b | None => negb vis end).
    - destruct ty as [t|].
      + unfold resolve_fragment. rewrite (parse_format_typed t link u Hty Hl Hu). rewrite R. eauto.
      + unfold resolve_fragment. rewrite (parse_format_untyped link u Hl Hu). rewrite R. eauto.
    - unfold resolve_fragment. rewrite (parse_format_untyped link u Hl Hu). rewrite R. eauto.
  Qed.

  (* same fragment: '#id' *)
  Theorem create_resolve_same :
    parts_eqb from to = true ->
    create_link_text from to vis incl ty u = HASH :: u /\
    resolve_fragment from (create_link_text from to vis incl ty u) = Some to.
  Proof.
    intro He. unfold create_link_text. rewrite He. split; [reflexivity|].
    unfold resolve_fragment. rewrite (parse_format_local u Hu). apply parts_eqb_eq in He. now subst.
  Qed.

  (* the form: typed iff (incl, or by default source not visual) and the target has a type *)
  Theorem create_form_cross :
    parts_eqb from to = false ->
    create_link_text from to vis incl ty u =
      match (match incl with Some b => b | None => negb vis end), ty with
      | true, Some t => t ++ [SPACE] ++ link ++ [HASH] ++ u
      | _, _ => link ++ [HASH] ++ u
      end.
  Proof.
    intro Hne. unfold create_link_text. rewrite Hne. fold rp. fold link.
    destruct (match incl with Some b => b | None => negb vis end); [destruct ty|]; reflexivity.
  Qed.
End CreateResolve.

Lemma create_form_cross_free from to vis incl ty u :
  parts_eqb from to = false ->
  create_link_text from to vis incl ty u =
    match (match incl with Some b => b | None => negb vis end), ty with
    | true, Some t => t ++ [SPACE] ++ quote [SLASH] (path_str (relpath to from)) ++ [HASH] ++ u
    | _, _ => quote [SLASH] (path_str (relpath to from)) ++ [HASH] ++ u
    end.
Proof.
  intro Hne. unfold create_link_text. rewrite Hne.
  destruct (match incl with Some b => b | None => negb vis end); [destruct ty|]; reflexivity.
Qed.

(* ------------------------------------------------------------------ lists of links: encode, split *)
Inductive lnk := LLocal (u : str) | LUntyped (fr u : str) | LTyped (xt fr u : str).
Definition render (l : lnk) : str :=
  match l with
  | LLocal u => HASH :: u
  | LUntyped fr u => fr ++ [HASH] ++ u
  | LTyped xt fr u => xt ++ [SPACE] ++ fr ++ [HASH] ++ u
  end.
Definition toks (l : lnk) : list str :=
  match l with
  | LLocal u => [HASH :: u]
  | LUntyped fr u => [fr ++ [HASH] ++ u]
  | LTyped xt fr u => [xt; fr ++ [HASH] ++ u]
  end.
Definition wf_lnk (l : lnk) : Prop :=
  match l with
  | LLocal u => wf_uuid u = true
  | LUntyped fr u => wf_tok fr = true /\ wf_uuid u = true
  | LTyped xt fr u => wf_tok xt = true /\ wf_tok fr = true /\ wf_uuid u = true
  end.

Lemma str_prefixb_single c s : str_prefixb [c] s = match s with x :: _ => c =? x | [] => false end.
Proof. destruct s as [|x s]; cbn; [reflexivity|]. now rewrite andb_true_r. Qed.
Lemma contains_single c s : py_str_contains s [c] = memN c s.
Proof.
  induction s as [|x s IH]; [reflexivity|]. cbn [py_str_contains]. rewrite str_prefixb_single, IH. reflexivity.
Qed.

Lemma memN_hash_render_tail fr u : memN HASH (fr ++ HASH :: u) = true.
Proof. rewrite memN_app. cbn. now rewrite orb_true_r. Qed.
Lemma parse_format_untyped' fr u : wf_tok fr = true -> wf_uuid u = true -> parse_link (fr ++ HASH :: u) = Some (None, Some fr, u).
Proof. exact (parse_format_untyped fr u). Qed.
Lemma parse_format_typed' xt fr u : wf_tok xt = true -> wf_tok fr = true -> wf_uuid u = true ->
  parse_link (xt ++ SPACE :: fr ++ HASH :: u) = Some (Some xt, Some fr, u).
Proof. exact (parse_format_typed xt fr u). Qed.

Theorem split_tokens_links ls : Forall wf_lnk ls -> split_tokens (flat_map toks ls) None = Ok (map render ls).
Proof.
  induction 1 as [|l ls Hl HF IH]; [reflexivity|]. cbn [flat_map map]. destruct l as [u|fr u|xt fr u]; cbn [toks render app wf_lnk] in *.
  - cbn [split_tokens]. rewrite contains_single. cbn [memN existsb]. rewrite N.eqb_refl. cbn [orb].
    unfold py_link_fullmatch. rewrite (parse_format_local u Hl). now rewrite IH.
  - destruct Hl as [Hf Hu]. cbn [split_tokens]. rewrite contains_single, memN_hash_render_tail.
    unfold py_link_fullmatch. rewrite (parse_format_untyped' fr u Hf Hu). now rewrite IH.
  - destruct Hl as [Hx [Hf Hu]]. cbn [split_tokens]. rewrite contains_single, (tok_no_hash xt Hx).
    destruct xt as [|c xt']; [discriminate|]. cbn [split_tokens]. rewrite contains_single, memN_hash_render_tail.
    unfold py_link_fullmatch. change ((c :: xt') ++ [SPACE] ++ fr ++ HASH :: u) with ((c :: xt') ++ SPACE :: fr ++ HASH :: u).
    rewrite (parse_format_typed' (c :: xt') fr u Hx Hf Hu). now rewrite IH.
Qed.

(* str.split() undoes joining with single spaces, for non-empty whitespace-free tokens *)
Definition no_ws (s : str) : bool := forallb (fun c => negb (is_ws c)) s.
Lemma split_ws_go_tok t : forall r cur, no_ws t = true -> split_ws_go (t ++ r) cur = split_ws_go r (rev t ++ cur).
Proof.
  induction t as [|c t IH]; intros r cur H; [reflexivity|]. cbn in H. apply andb_true_iff in H as [Hc Ht].
  apply negb_true_iff in Hc. cbn [app split_ws_go]. rewrite Hc. rewrite IH by exact Ht. cbn [rev]. now rewrite <- app_assoc.
Qed.
Lemma split_join_ws ts : Forall (fun t => t <> [] /\ no_ws t = true) ts -> py_split_ws (join_with SPACE ts) = ts.
Proof.
  unfold py_split_ws. induction 1 as [|t ts [Hne Hws] HF IH]; [reflexivity|].
  destruct ts as [|t2 ts'].
  - cbn [join_with]. rewrite <- (app_nil_r t) at 1. rewrite split_ws_go_tok by exact Hws. cbn [split_ws_go]. rewrite app_nil_r.
    destruct (rev t) eqn:E; [apply (f_equal (@rev N)) in E; rewrite rev_involutive in E; cbn in E; congruence|].
    rewrite <- E. now rewrite rev_involutive.
  - cbn [join_with]. rewrite split_ws_go_tok by exact Hws. cbn [split_ws_go]. change (is_ws SPACE) with true. cbn iota.
    rewrite app_nil_r. destruct (rev t) eqn:E; [apply (f_equal (@rev N)) in E; rewrite rev_involutive in E; cbn in E; congruence|].
    rewrite <- E, rev_involutive. f_equal. exact IH.
Qed.

Lemma join_with_app sep a b : a <> [] -> b <> [] -> join_with sep (a ++ b) = join_with sep a ++ sep :: join_with sep b.
Proof.
  intros Ha Hb. induction a as [|x a IH]; [congruence|]. destruct a as [|y a'].
  - cbn [app join_with]. destruct b; [congruence|reflexivity].
  - change ((x :: y :: a') ++ b) with (x :: (y :: a') ++ b). cbn [join_with app] in *.
    rewrite IH by discriminate. now rewrite <- app_assoc.
Qed.
Lemma toks_nonempty l : toks l <> [].
Proof. destruct l; discriminate. Qed.
Lemma join_toks l : join_with SPACE (toks l) = render l.
Proof. destruct l; reflexivity. Qed.
Lemma flat_map_toks_nonempty ls : ls <> [] -> flat_map toks ls <> [].
Proof. destruct ls as [|l ls]; [congruence|]. intros _. cbn. destruct l; discriminate. Qed.
Lemma join_render ls : join_with SPACE (map render ls) = join_with SPACE (flat_map toks ls).
Proof.
  induction ls as [|l ls IH]; [reflexivity|]. destruct ls as [|l2 ls'].
  - cbn. now rewrite app_nil_r, join_toks.
  - cbn [map flat_map] in *. rewrite (join_with_app SPACE (toks l)); [|apply toks_nonempty|apply (flat_map_toks_nonempty (l2 :: ls')); discriminate].
    rewrite join_toks. cbn [join_with]. destruct (map render ls') eqn:E; cbn [map] in *; rewrite <- IH; reflexivity.
Qed.

Definition ws_free_lnk (l : lnk) : Prop :=
  match l with LLocal _ => True | LUntyped fr _ => no_ws fr = true | LTyped xt fr _ => no_ws xt = true /\ no_ws fr = true end.
Lemma uuid_no_ws u : wf_uuid u = true -> no_ws u = true.
Proof.
  intro H. apply all_nonempty_forallb in H as [H _]. unfold no_ws. rewrite forallb_forall in *. intros c Hc.
  specialize (H c Hc). apply negb_true_iff. destruct (is_ws c) eqn:E; [|reflexivity]. exfalso.
  unfold is_ws in E. repeat (apply orb_true_iff in E as [E|E]); apply N.eqb_eq in E; subst; vm_compute in H; discriminate.
Qed.
Lemma no_ws_app a b : no_ws (a ++ b) = no_ws a && no_ws b.
Proof. unfold no_ws. apply forallb_app. Qed.

(* a space-separated list of links of ANY length, mixing all three forms, survives encode + split *)
Theorem split_links_join ls : Forall wf_lnk ls -> Forall ws_free_lnk ls ->
  split_links_model (join_with SPACE (map render ls)) = Ok (map render ls).
Proof.
  intros Hwf Hws. unfold split_links_model. rewrite join_render, split_join_ws; [now apply split_tokens_links|].
  apply Forall_forall. intros t Ht. apply in_flat_map in Ht as [l [Hl Ht]].
  rewrite Forall_forall in Hwf, Hws. specialize (Hwf l Hl). specialize (Hws l Hl).
  destruct l as [u|fr u|xt fr u]; cbn [toks wf_lnk ws_free_lnk] in *.
  - destruct Ht as [<-|[]]. split; [discriminate|]. cbn. now apply uuid_no_ws.
  - destruct Ht as [<-|[]]. destruct Hwf as [Hf Hu]. split; [destruct fr; discriminate|].
    rewrite !no_ws_app, Hws. cbn. now apply uuid_no_ws.
  - destruct Hwf as [Hx [Hf Hu]]. destruct Hws as [W1 W2]. destruct Ht as [<-|[<-|[]]].
    + split; [destruct xt; [discriminate|discriminate]|exact W1].
    + split; [destruct fr; discriminate|]. rewrite !no_ws_app, W2. cbn. now apply uuid_no_ws.
Qed.
