(* C19 — facts about the converter graph regenerated from /repo (Gen/DiagCacheGraph.v). *)
From Coq Require Import ZArith NArith List Bool.
Import ListNotations.
From V Require Import Model.Val Model.PyPrims Model.DiagCache Proofs.DiagCacheP Gen.DiagCacheGraph.

(* finite table: decided by computation on the regenerated graph *)
Lemma gen_graph_checked : graph_ok gen_graph gen_entries = true.
Proof. vm_compute. reflexivity. Qed.

Lemma gen_graph_wellformed : forall name id, In (name, id) gen_entries ->
  exists ch, walk (length gen_graph) gen_graph id = Some ch /\ NoDup (map cv_id ch)
             /\ (forall cv e, In cv ch -> eligible cv = Some e -> dot_ext e = true).
Proof. exact (graph_ok_sound gen_graph gen_entries gen_graph_checked). Qed.
