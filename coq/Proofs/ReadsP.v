From Coq Require Import ZArith List Bool.
Import ListNotations.
From V Require Import Model.Val Model.Graph Model.Reads.

Lemma session_state frs rs : forall acc, fst (fold_left step rs (frs, acc)) = frs.
Proof. induction rs as [|r rs IH]; intro acc; cbn; [reflexivity|]. apply IH. Qed.

Theorem reads_pure frs rs : fst (session frs rs) = frs.
Proof. apply session_state. Qed.

(* answers do not depend on what was read before: any interleaving/repetition gives each read the same answer *)
Lemma session_answers frs rs : forall acc, snd (fold_left step rs (frs, acc)) = acc ++ map (eval frs) rs.
Proof.
  induction rs as [|r rs IH]; intro acc; cbn [fold_left map]; [now rewrite app_nil_r|].
  unfold step at 2. cbn [fst snd]. rewrite IH. now rewrite <- app_assoc.
Qed.
Theorem reads_order_independent frs rs : snd (session frs rs) = map (eval frs) rs.
Proof. unfold session. now rewrite session_answers. Qed.

(* sessions without PVMT first-use leave the state untouched; with it, only Attach steps happen *)
Theorem accesses_without_pvmt_pure frs accs :
  Forall (fun a => match a with Read _ => True | PvmtFirstUse _ _ => False end) accs ->
  fold_left access_step accs (ROk frs) = ROk frs.
Proof.
  induction 1 as [|a accs Ha _ IH]; [reflexivity|]. cbn [fold_left]. destruct a; [exact IH|contradiction].
Qed.
