From Coq Require Import ZArith List Bool Lia.
Import ListNotations.
From V Require Import Model.Val Model.Lists.
Open Scope Z_scope.

Lemma view_cons_member h ks : view ((h, true) :: ks) = h :: view ks.
Proof. reflexivity. Qed.
Lemma view_cons_other h ks : view ((h, false) :: ks) = view ks.
Proof. reflexivity. Qed.
Lemma view_incl ks h : In h (view ks) -> In h (map fst ks).
Proof.
  unfold view. intro H. apply in_map_iff in H as [k [E Hk]]. apply filter_In in Hk as [Hk _]. apply in_map_iff. eauto.
Qed.
Lemma view_app a b : view (a ++ b) = view a ++ view b.
Proof. unfold view. now rewrite filter_app, map_app. Qed.
Lemma others_app a b : others (a ++ b) = others a ++ others b.
Proof. unfold others. now rewrite filter_app, map_app. Qed.

Lemma others_insert_before m x ks : others (insert_before m (x, true) ks) = others ks.
Proof.
  induction ks as [|[h b] ks IH]; [reflexivity|]. cbn [insert_before fst]. destruct (h =? m); [reflexivity|].
  destruct b; unfold others in *; cbn; [exact IH|now rewrite IH].
Qed.
Lemma others_insert_after m x ks : others (insert_after m (x, true) ks) = others ks.
Proof.
  induction ks as [|[h b] ks IH]; [reflexivity|]. cbn [insert_after fst]. destruct (h =? m).
  - destruct b; reflexivity.
  - destruct b; unfold others in *; cbn; [exact IH|now rewrite IH].
Qed.

Lemma view_insert_before x ks : forall k m, NoDup (map fst ks) -> nth_error (view ks) k = Some m ->
  view (insert_before m (x, true) ks) = firstn k (view ks) ++ x :: skipn k (view ks).
Proof.
  induction ks as [|[h b] ks IH]; intros k m Hnd Hn; [destruct k; discriminate|].
  cbn [map fst] in Hnd. apply NoDup_cons_iff in Hnd as [Hni Hnd]. cbn [insert_before fst].
  destruct (h =? m) eqn:E.
  - apply Z.eqb_eq in E. subst h. destruct b.
    + rewrite ?view_cons_member in *. destruct k as [|k]; [reflexivity|].
      cbn in Hn. exfalso. apply Hni. apply view_incl. eapply nth_error_In; eauto.
    + rewrite view_cons_other in Hn. exfalso. apply Hni. apply view_incl. eapply nth_error_In; eauto.
  - destruct b.
    + rewrite ?view_cons_member in *. destruct k as [|k].
      * cbn in Hn. inversion Hn; subst. now rewrite Z.eqb_refl in E.
      * cbn in Hn. cbn [firstn skipn]. rewrite <- app_comm_cons. f_equal. now apply IH.
    + rewrite ?view_cons_other in *. now apply IH.
Qed.

Lemma view_insert_after x ks : forall a m, NoDup (map fst ks) -> view ks = a ++ [m] ->
  view (insert_after m (x, true) ks) = a ++ [m; x].
Proof.
  induction ks as [|[h b] ks IH]; intros a m Hnd Hv; [destruct a; discriminate|].
  cbn [map fst] in Hnd. apply NoDup_cons_iff in Hnd as [Hni Hnd]. cbn [insert_after fst].
  destruct (h =? m) eqn:E.
  - apply Z.eqb_eq in E. subst h. destruct b.
    + rewrite ?view_cons_member in *. destruct a as [|a0 a].
      * cbn in Hv. inversion Hv as [Hv']. rewrite ?view_cons_member, ?Hv'. reflexivity.
      * exfalso. cbn in Hv. inversion Hv as [[E1 Hv']]. apply Hni. apply view_incl. rewrite Hv'. apply in_or_app. right. now left.
    + rewrite view_cons_other in Hv. exfalso. apply Hni. apply view_incl. rewrite Hv. apply in_or_app. right. now left.
  - destruct b.
    + rewrite ?view_cons_member in *. destruct a as [|a0 a].
      * cbn in Hv. inversion Hv; subst. now rewrite Z.eqb_refl in E.
      * cbn in Hv. inversion Hv as [[E1 Hv']]. rewrite ?view_cons_member. cbn [app]. f_equal. now apply IH.
    + rewrite ?view_cons_other in *. now apply IH.
Qed.

Lemma py_norm_le n i : (py_norm n i <= n)%nat.
Proof. unfold py_norm. destruct (i <? 0) eqn:E; [apply Z.ltb_lt in E; lia|apply Nat.le_min_r]. Qed.

Lemma rev_cons_last {A} (l : list A) m r : rev l = m :: r -> l = rev r ++ [m].
Proof. intro H. rewrite <- (rev_involutive l), H. reflexivity. Qed.

(* DirectProxy / RoleTag insert refines list.insert for EVERY index and every interleaving of
   other child kinds, and leaves the other children alone *)
Theorem direct_insert_refines i x ks :
  NoDup (map fst ks) ->
  view (direct_insert i x ks) = py_insert i x (view ks) /\ others (direct_insert i x ks) = others ks.
Proof.
  intro Hnd. unfold direct_insert, py_insert. set (ms := view ks). set (k := py_norm (length ms) i).
  destruct (nth_error ms k) as [m|] eqn:En.
  - split; [now apply view_insert_before|apply others_insert_before].
  - assert (Hk : k = length ms).
    { apply nth_error_None in En. pose proof (py_norm_le (length ms) i). fold k in H. lia. }
    rewrite Hk, firstn_all, skipn_all. destruct (rev ms) as [|m r] eqn:Er.
    + assert (ms = []) by (rewrite <- (rev_involutive ms), Er; reflexivity).
      split; [rewrite view_app; fold ms; now rewrite H|rewrite others_app; unfold others at 2; cbn; now rewrite app_nil_r].
    + apply rev_cons_last in Er. split; [|apply others_insert_after].
      rewrite (view_insert_after x ks (rev r) m Hnd Er). fold ms. rewrite Er. now rewrite <- app_assoc.
Qed.

(* deleting a member by handle refines del l[k] *)
Lemma view_remove_kid m ks : forall k, NoDup (map fst ks) -> nth_error (view ks) k = Some m ->
  view (remove_kid m ks) = firstn k (view ks) ++ skipn (S k) (view ks).
Proof.
  induction ks as [|[h b] ks IH]; intros k Hnd Hn; [destruct k; discriminate|].
  cbn [map fst] in Hnd. apply NoDup_cons_iff in Hnd as [Hni Hnd]. unfold remove_kid. cbn [filter fst].
  destruct (h =? m) eqn:E; cbn [negb].
  - apply Z.eqb_eq in E. subst h.
    assert (Hno : filter (fun k0 => negb (fst k0 =? m)) ks = ks).
    { clear -Hni. induction ks as [|[h b] ks IH]; [reflexivity|]. cbn in *. destruct (h =? m) eqn:E.
      - apply Z.eqb_eq in E. subst. tauto.
      - cbn. f_equal. apply IH. tauto. }
    rewrite Hno. destruct b.
    + rewrite ?view_cons_member in *. destruct k as [|k]; [reflexivity|].
      cbn in Hn. exfalso. apply Hni. apply view_incl. eapply nth_error_In; eauto.
    + rewrite view_cons_other in Hn. exfalso. apply Hni. apply view_incl. eapply nth_error_In; eauto.
  - destruct b.
    + rewrite ?view_cons_member in *. destruct k as [|k].
      * cbn in Hn. inversion Hn; subst. now rewrite Z.eqb_refl in E.
      * cbn in Hn. cbn [firstn skipn]. rewrite <- app_comm_cons. f_equal. now apply (IH k).
    + rewrite ?view_cons_other in *. now apply (IH k).
Qed.

Theorem delete_refines i ks k m : NoDup (map fst ks) ->
  py_index (length (view ks)) i = Some k -> nth_error (view ks) k = Some m ->
  Some (view (remove_kid m ks)) = py_delitem i (view ks) /\ others (remove_kid m ks) = others ks.
Proof.
  intros Hnd Hi Hn. split.
  - unfold py_delitem. rewrite Hi. f_equal. now apply view_remove_kid.
  - assert (Hm : In m (view ks)) by (eapply nth_error_In; eauto).
    unfold others, remove_kid. clear -Hnd Hm. induction ks as [|[h b] ks IH]; [reflexivity|].
    cbn [map fst] in Hnd. apply NoDup_cons_iff in Hnd as [Hni Hnd]. cbn [filter fst snd].
    destruct (h =? m) eqn:E; cbn [negb].
    + apply Z.eqb_eq in E. subst. destruct b.
      * cbn. assert (Hno : filter (fun k0 => negb (fst k0 =? m)) ks = ks).
        { clear -Hni. induction ks as [|[h b] ks IH]; [reflexivity|]. cbn in *. destruct (h =? m) eqn:E.
          - apply Z.eqb_eq in E. subst. tauto.
          - cbn. f_equal. apply IH. tauto. }
        now rewrite Hno.
      * exfalso. rewrite view_cons_other in Hm. apply Hni. now apply view_incl.
    + destruct b; cbn.
      * apply IH; [exact Hnd|]. rewrite view_cons_member in Hm. destruct Hm as [->|Hm]; [now rewrite Z.eqb_refl in E|exact Hm].
      * f_equal. apply IH; [exact Hnd|]. now rewrite view_cons_other in Hm.
Qed.

(* the arithmetic found in the code before the fix: three refutations *)
Example old_insert_minus1_refuted :   (* members 1,2 followed by another child kind 9 *)
  let ks := [(1, true); (2, true); (9, false)] in
  option_map view (direct_insert_old (-1) 7 ks) = Some [1; 2; 7] /\ py_insert (-1) 7 (view ks) = [1; 7; 2].
Proof. split; reflexivity. Qed.
Example old_insert_beyond_end_refuted :
  direct_insert_old 5 7 [(1, true); (2, true)] = None /\ py_insert 5 7 [1; 2] = [1; 2; 7].
Proof. split; reflexivity. Qed.
Example old_insert_negative_interleaved_refuted :
  let ks := [(1, true); (2, true); (9, false); (3, true)] in
  option_map view (direct_insert_old (-2) 7 ks) = Some [1; 2; 7; 3] /\ py_insert (-2) 7 (view ks) = [1; 7; 2; 3].
Proof. split; reflexivity. Qed.

(* attribute lists *)
Theorem attr_insert_is_py_insert i x l : attr_insert i x l = py_insert i x l.
Proof. reflexivity. Qed.
Lemma filter_neq_notin x l : ~ In x l -> filter (fun y => negb (y =? x)) l = l.
Proof.
  induction l as [|y l IH]; intro H; [reflexivity|]. cbn. destruct (y =? x) eqn:E.
  - apply Z.eqb_eq in E. subst. exfalso. apply H. now left.
  - cbn. f_equal. apply IH. intro Hi. apply H. now right.
Qed.
Theorem attr_delete_refines l : forall k x, NoDup l -> nth_error l k = Some x ->
  attr_delete x l = firstn k l ++ skipn (S k) l.
Proof.
  induction l as [|y l IH]; intros k x Hnd Hn; [destruct k; discriminate|].
  apply NoDup_cons_iff in Hnd as [Hni Hnd]. unfold attr_delete. cbn [filter]. destruct k as [|k].
  - cbn in Hn. inversion Hn; subst. rewrite Z.eqb_refl. cbn. now apply filter_neq_notin.
  - cbn in Hn. destruct (y =? x) eqn:E.
    + apply Z.eqb_eq in E. subst. exfalso. apply Hni. eapply nth_error_In; eauto.
    + cbn. f_equal. now apply IH.
Qed.
Example attr_delete_duplicates_refuted : attr_delete 5 [5; 6; 5] = [6] /\ py_delitem 0 [5; 6; 5] = Some [6; 5].
Proof. split; reflexivity. Qed.

(* ---- slices and fixed-length relations ---- *)
Lemma py_lo_le {A} (l : list A) a : (py_lo (length l) a <= length l)%nat.
Proof. unfold py_lo, py_bound. destruct a; [apply py_norm_le|lia]. Qed.
Lemma py_hi_le {A} (l : list A) a b : (py_hi (length l) a b <= length l)%nat.
Proof.
  unfold py_hi. pose proof (py_lo_le l a). unfold py_bound. destruct b as [i|]; [pose proof (py_norm_le (length l) i)|]; lia.
Qed.
Lemma py_lo_hi n a b : (py_lo n a <= py_hi n a b)%nat.
Proof. unfold py_hi. lia. Qed.

Theorem py_slice_set_length {A} a b (xs l : list A) :
  length (py_slice_set a b xs l) = (py_lo (length l) a + length xs + (length l - py_hi (length l) a b))%nat.
Proof.
  unfold py_slice_set. rewrite !app_length, firstn_length, skipn_length. pose proof (py_lo_le l a). lia.
Qed.

Lemma skipn_add {A} (l : list A) : forall a b, skipn b (skipn a l) = skipn (a + b) l.
Proof.
  induction l as [|x l IH]; intros a b; [now rewrite !skipn_nil|].
  destruct a as [|a]; [reflexivity|]. cbn [skipn plus]. apply IH.
Qed.
Lemma firstn_skipn_split {A} (l : list A) lo hi : (lo <= hi)%nat ->
  l = firstn lo l ++ firstn (hi - lo) (skipn lo l) ++ skipn hi l.
Proof.
  intros H. rewrite <- (firstn_skipn lo l) at 1. f_equal.
  rewrite <- (firstn_skipn (hi - lo) (skipn lo l)) at 1. f_equal.
  rewrite skipn_add. f_equal. lia.
Qed.
Theorem py_slice_parts {A} a b (l : list A) :
  l = firstn (py_lo (length l) a) l ++ py_slice a b l ++ skipn (py_hi (length l) a b) l.
Proof. unfold py_slice. apply firstn_skipn_split, py_lo_hi. Qed.
Theorem py_slice_set_same {A} a b (l : list A) : py_slice_set a b (py_slice a b l) l = l.
Proof. unfold py_slice_set. symmetry. apply py_slice_parts. Qed.
Theorem py_slice_set_whole {A} (xs l : list A) : py_slice_set None None xs l = xs.
Proof.
  unfold py_slice_set, py_hi, py_lo, py_bound. rewrite Nat.max_r by lia. cbn [firstn].
  rewrite skipn_all. cbn. apply app_nil_r.
Qed.

(* __delitem__ turns an int index into slice(i, i + 1 or None) *)
Theorem delitem_as_slice {A} (l : list A) i k : py_index (length l) i = Some k ->
  py_slice_del (Some i) (if i + 1 =? 0 then None else Some (i + 1)) l = firstn k l ++ skipn (S k) l.
Proof.
  unfold py_index, py_slice_del, py_slice_set, py_hi, py_lo, py_bound, py_norm. intros H.
  destruct (i <? 0) eqn:Hi.
  - destruct (- Z.of_nat (length l) <=? i) eqn:Hn; [|discriminate]. injection H as <-.
    destruct (i + 1 =? 0) eqn:H1.
    + replace (Z.to_nat (Z.max (Z.of_nat (length l) + i) 0)) with (Z.to_nat (Z.of_nat (length l) + i)) by lia.
      cbn [app]. f_equal. rewrite Nat.max_r by lia. rewrite !skipn_all2 by lia. reflexivity.
    + destruct (i + 1 <? 0) eqn:H2; [|lia]. cbn [app]. f_equal;[f_equal; lia|]. f_equal. lia.
  - destruct (i <? Z.of_nat (length l)) eqn:Hn; [|discriminate]. injection H as <-.
    destruct (i + 1 =? 0) eqn:H1; [lia|]. destruct (i + 1 <? 0) eqn:H2; [lia|]. cbn [app]. f_equal; [f_equal; lia|f_equal; lia].
Qed.

Lemma attr_delete_app x p q : attr_delete x (p ++ q) = attr_delete x p ++ attr_delete x q.
Proof. unfold attr_delete. apply filter_app. Qed.
Lemma attr_delete_notin x l : ~ In x l -> attr_delete x l = l.
Proof. apply filter_neq_notin. Qed.
Lemma attr_delete_head x l : attr_delete x (x :: l) = attr_delete x l.
Proof. unfold attr_delete. cbn [filter]. now rewrite Z.eqb_refl. Qed.
Lemma fold_attr_delete_mid s : forall p q, NoDup (p ++ s ++ q) ->
  fold_left (fun acc x => attr_delete x acc) s (p ++ s ++ q) = p ++ q.
Proof.
  induction s as [|x s IH]; intros p q H; [reflexivity|]. cbn [fold_left].
  assert (Hx : ~ In x p /\ ~ In x (s ++ q) /\ NoDup (p ++ s ++ q)).
  { cbn [app] in H. split; [|split].
    - intros Hp. apply NoDup_remove_2 in H. apply H. apply in_or_app. now left.
    - intros Hp. apply NoDup_remove_2 in H. apply H. apply in_or_app. now right.
    - now apply NoDup_remove_1 in H. }
  destruct Hx as (Hp & Hq & Hn).
  rewrite attr_delete_app. cbn [app]. rewrite (attr_delete_notin x p Hp).
  rewrite attr_delete_head, (attr_delete_notin x _ Hq). apply IH, Hn.
Qed.
Theorem attr_slice_del_refines a b l : NoDup l -> attr_slice_del a b l = py_slice_del a b l.
Proof.
  intros H. unfold attr_slice_del, py_slice_del, py_slice_set. cbn [app].
  rewrite (py_slice_parts a b l) in H. rewrite (py_slice_parts a b l) at 2.
  rewrite fold_attr_delete_mid by exact H.
  reflexivity.
Qed.
Theorem attr_slice_del_duplicates_refuted :
  attr_slice_del (Some 2) None [1; 2; 3; 1] = [2] /\ py_slice_del (Some 2) None [1; 2; 3; 1] = [1; 2].
Proof. split; reflexivity. Qed.

Lemma set_nth_length {A} k (x : A) l : (k < length l)%nat -> length (firstn k l ++ x :: skipn (S k) l) = length l.
Proof. intros H. rewrite app_length, firstn_length. cbn [length]. rewrite skipn_length. lia. Qed.
Lemma py_setitem_length i x l r : py_setitem i x l = Some r -> length r = length l.
Proof.
  unfold py_setitem. destruct (py_index (length l) i) as [k|] eqn:H; [|discriminate]. intros E.
  assert (Hr : r = firstn k l ++ x :: skipn (S k) l) by congruence. subst r. apply set_nth_length.
  unfold py_index in H. destruct (i <? 0) eqn:?; [destruct (- Z.of_nat (length l) <=? i) eqn:?|destruct (i <? Z.of_nat (length l)) eqn:?]; try discriminate; injection H as <-; lia.
Qed.
Theorem fixed_step_keeps_length fixed l o : length l = fixed -> length (fixed_apply fixed l o) = fixed.
Proof.
  intros H. unfold fixed_apply, fixed_step. destruct o as [i x|a b xs|a b|i|i x|xs].
  - destruct (py_setitem i x l) eqn:E; [|exact H]. rewrite (py_setitem_length _ _ _ _ E). exact H.
  - destruct (Nat.eqb _ fixed) eqn:E; [|exact H]. now apply Nat.eqb_eq.
  - rewrite (proj2 (Nat.leb_le _ _)) by lia. exact H.
  - rewrite (proj2 (Nat.leb_le _ _)) by lia. exact H.
  - rewrite (proj2 (Nat.leb_le _ _)) by lia. exact H.
  - destruct (Nat.eqb _ fixed) eqn:E; [|exact H]. now apply Nat.eqb_eq.
Qed.
Theorem fixed_run_keeps_length fixed ops : forall l, length l = fixed ->
  length (fold_left (fixed_apply fixed) ops l) = fixed.
Proof. induction ops as [|o ops IH]; intros l H; [exact H|]. cbn [fold_left]. apply IH, fixed_step_keeps_length, H. Qed.
(* an accepted step gives what the plain Python list gives *)
Theorem fixed_step_is_python fixed l o r : fixed_step fixed l o = Some r ->
  match o with
  | FSetItem i x => py_setitem i x l = Some r
  | FSliceSet a b xs => r = py_slice_set a b xs l
  | FSliceDel a b => r = py_slice_del a b l
  | FDelItem i => py_delitem i l = Some r
  | FInsert i x => r = py_insert i x l
  | FAssign xs => r = xs
  end.
Proof.
  unfold fixed_step. destruct o as [i x|a b xs|a b|i|i x|xs]; intros H.
  - exact H.
  - destruct (Nat.eqb _ _); [now injection H|discriminate].
  - destruct (Nat.leb _ _); [discriminate|now injection H].
  - destruct (Nat.leb _ _); [discriminate|exact H].
  - destruct (Nat.leb _ _); [discriminate|now injection H].
  - destruct (Nat.eqb _ _); [now injection H|discriminate].
Qed.
(* the length guard as a seeded change relaxed it (len > fixed instead of len <> fixed) lets a slice assignment shrink the list *)
Definition fixed_step_gt_guard (fixed : nat) (l : list Z) (a b : option Z) (xs : list Z) : option (list Z) :=
  let r := py_slice_set a b xs l in if Nat.ltb fixed (length r) then None else Some r.
Theorem relaxed_guard_refuted : fixed_step_gt_guard 2 [7; 8] (Some 1) None [] = Some [7].
Proof. reflexivity. Qed.
