(* Tie lemmas: the functions translated from /repo's current source by tools/gen_geom.py
   (Gen/GeomFns.v) agree with the hand-written model of Model/Geom.v the theorems are about.
   Each proof first tries plain conversion and falls back to a case analysis on every test with
   linear arithmetic, so an arithmetic or branch-order refactoring of the source that keeps the
   function's meaning still checks, while a change of meaning does not. *)
From Coq Require Import QArith Qabs ZArith NArith List Bool Lqa.
Import ListNotations.
From V Require Import Model.Val Model.Geom Gen.GeomConsts Gen.GeomFns Proofs.GeomP.
Open Scope Q_scope.

Lemma res_eq_refl r : res_eq r r.
Proof. destruct r; cbn; [split; reflexivity|reflexivity]. Qed.

Ltac const_inv :=
  unfold Qdiv;
  repeat match goal with
  | |- context [Qinv (?n # ?d)] => let v := eval vm_compute in (Qinv (n # d)) in change (Qinv (n # d)) with v
  end.

Ltac split_ifs :=
  repeat match goal with
  | |- context [if ?c then _ else _] => destruct c eqn:?
  end.

Lemma tie_line_intersect p1 p2 p3 p4 :
  res_eq (gen_line_intersect (p1, p2) (p3, p4)) (line_intersect p1 p2 p3 p4).
Proof.
  destruct p1 as [x1 y1], p2 as [x2 y2], p3 as [x3 y3], p4 as [x4 y4].
  first [ exact (res_eq_refl _)
        | unfold gen_line_intersect, line_intersect; cbn zeta; split_ifs; reflect_all; cbn [res_eq];
          try reflexivity; try (exfalso; lra); unfold veq; cbn [fst snd]; split; field; assumption ].
Qed.

Lemma tie_snap_manhattan b p d : res_eq (gen_snap_manhattan b p d) (snap_manhattan b p d).
Proof.
  first [ exact (res_eq_refl _)
        | unfold gen_snap_manhattan, snap_manhattan; cbn zeta; const_inv;
          destruct (closestaxis_cases d) as [E|[E|[E|[E|[E|[E|[E|E]]]]]]]; rewrite E; cbn [fst snd];
          split_ifs; reflect_all; cbn [res_eq]; try reflexivity; try (exfalso; lra);
          unfold veq, vadd, half; cbn [fst snd b2q]; split; lra ].
Qed.

Lemma tie_snap_tree b p d : res_eq (gen_snap_tree b p d) (snap_tree b p d).
Proof.
  first [ exact (res_eq_refl _)
        | unfold gen_snap_tree, snap_tree, tree_bottom, veqb, center; cbn zeta; cbn [fst snd]; const_inv;
          split_ifs; reflect_all; cbn [res_eq]; try reflexivity; try (exfalso; lra);
          unfold veq, vadd, half; cbn [fst snd b2q]; split; lra ].
Qed.
