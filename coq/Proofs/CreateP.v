From Coq Require Import ZArith List Bool Lia Setoid.
Import ListNotations.
From V Require Import Model.Val Model.Graph Model.Create Proofs.GraphP.
Open Scope Z_scope.

(* ---- how indexing changes lookups, from ANY starting map whose entries for the new ids are free, reserved or already this element's ---- *)
Lemma index_ids_lookup h ids : forall m,
  (forall u, In u ids -> get u m = None \/ get u m = Some None \/ get u m = Some (Some h)) ->
  exists m', index_ids false h ids m = ROk m' /\ forall k, get k m' = if mem k ids then Some (Some h) else get k m.
Proof.
  induction ids as [|u ids IH]; intros m H; [exists m; split; reflexivity|].
  rewrite index_ids_fold. cbn [fold_left].
  assert (Hstep : idx_step false h (ROk m) u = ROk (set u (Some h) m)).
  { unfold idx_step. destruct (H u (or_introl eq_refl)) as [E|[E|E]]; rewrite E; try reflexivity. now rewrite Z.eqb_refl. }
  rewrite Hstep. destruct (IH (set u (Some h) m)) as [m' [E' L']].
  - intros u' Hu'. destruct (Z.eq_dec u' u) as [->|Hne]; [right; right; apply get_set_eq|].
    rewrite get_set_neq by exact Hne. apply H. now right.
  - exists m'. split; [rewrite <- index_ids_fold; exact E'|]. intro k. rewrite L'. cbn [mem existsb].
    change (existsb (Z.eqb k) ids) with (mem k ids). destruct (mem k ids); [now rewrite orb_true_r|].
    rewrite orb_false_r. destruct (k =? u) eqn:E; [apply Z.eqb_eq in E; subst; apply get_set_eq|].
    apply get_set_neq. intros ->. now rewrite Z.eqb_refl in E.
Qed.

(* lookups of a fragment, as three functions *)
Definition lk_id (fr : frag) (k : Z) := get k (idc (fidx fr)).
Definition lk_xt (fr : frag) (k : Z) := get k (xtc (fidx fr)).
Definition lk_hr (fr : frag) (k : Z) := get k (hrs (fidx fr)).

Definition plain (n : node) : Prop := nhref n = None /\ nall n = nids n.

Lemma attach_one_lookup fr n :
  plain n ->
  (forall u, In u (nids n) -> lk_id fr u = None \/ lk_id fr u = Some None \/ lk_id fr u = Some (Some (nh n))) ->
  exists fr', step_frag false fr (Attach (fname fr) [n]) = ROk fr' /\ fname fr' = fname fr /\ fkd fr' = fkd fr /\
    fnodes fr' = fnodes fr ++ [n] /\
    (forall k, lk_id fr' k = if mem k (nids n) then Some (Some (nh n)) else lk_id fr k) /\
    (forall k, lk_xt fr' k = match nxt n with Some x => if k =? nh n then Some x else lk_xt fr k | None => lk_xt fr k end) /\
    (forall k, lk_hr fr' k = lk_hr fr k).
Proof.
  intros [Hh Ha] Hfree. cbn [step_frag]. rewrite Z.eqb_refl.
  destruct (index_ids_lookup (nh n) (nids n) (idc (fidx fr)) Hfree) as [m' [E L]].
  assert (Eig : index_ids (ignores_dups false (fkd fr)) (nh n) (nids n) (idc (fidx fr)) = ROk m').
  { destruct (ignores_dups false (fkd fr)) eqn:Ei; [|exact E].
    (* ignoring duplicates can only turn an error into a success, never change a success *)
    revert E. generalize (idc (fidx fr)). clear. intro m. revert m m'.
    induction (nids n) as [|u ids IH]; intros m m' E; [exact E|]. rewrite index_ids_fold in *. cbn [fold_left] in *.
    unfold idx_step at 2 in E. unfold idx_step at 2.
    destruct (get u m) as [[h'|]|]; try (rewrite <- index_ids_fold in *; now apply IH).
    rewrite orb_true_r. rewrite orb_false_r in E. destruct (h' =? nh n).
    - rewrite <- index_ids_fold in *. now apply IH.
    - exfalso. clear -E. induction ids; cbn in E; [discriminate|auto]. }
  unfold index_nodes. cbn [fold_left]. unfold index_node. rewrite Eig, Hh.
  eexists. split; [reflexivity|]. cbn [fname fkd fnodes fidx]. repeat split; try reflexivity.
  - intro k. unfold lk_id. cbn [fidx idc]. apply L.
  - intro k. unfold lk_xt. cbn [fidx xtc]. destruct (nxt n) as [x|]; [|reflexivity].
    destruct (k =? nh n) eqn:E2; [apply Z.eqb_eq in E2; subst; apply get_set_eq|].
    apply get_set_neq. intros ->. now rewrite Z.eqb_refl in E2.
Qed.

(* attaching the nested objects one after the other *)
Definition ids_of_nodes (p : list node) : list Z := flat_map nids p.
Fixpoint owner_of (p : list node) (k : Z) : option Z :=
  match p with [] => None | n :: r => match owner_of r k with Some h => Some h | None => if mem k (nids n) then Some (nh n) else None end end.
Fixpoint xt_of (p : list node) (k : Z) : option Z :=
  match p with [] => None | n :: r => match xt_of r k with Some x => Some x | None => match nxt n with Some x => if k =? nh n then Some x else None | None => None end end end.

Lemma attach_many_lookup f p : forall fr,
  fname fr = f -> Forall plain p -> NoDup (ids_of_nodes p) ->
  (forall u, In u (ids_of_nodes p) -> lk_id fr u = None \/ lk_id fr u = Some None) ->
  exists fr', run false (map (fun n => Attach f [n]) p) [fr] = ROk [fr'] /\ fname fr' = f /\ fkd fr' = fkd fr /\
    fnodes fr' = fnodes fr ++ p /\
    (forall k, lk_id fr' k = match owner_of p k with Some h => Some (Some h) | None => lk_id fr k end) /\
    (forall k, lk_xt fr' k = match xt_of p k with Some x => Some x | None => lk_xt fr k end) /\
    (forall k, lk_hr fr' k = lk_hr fr k).
Proof.
  induction p as [|n p IH]; intros fr Hf Hpl Hnd Hfree.
  - exists fr. cbn. rewrite app_nil_r. repeat split; auto.
  - apply Forall_cons_iff in Hpl as [Hn Hpl]. unfold ids_of_nodes in Hnd, Hfree. cbn [flat_map] in Hnd, Hfree.
    destruct (attach_one_lookup fr n Hn) as [fr1 [E1 [F1 [K1 [N1 [L1 [X1 H1]]]]]]].
    { intros u Hu. destruct (Hfree u (in_or_app _ _ _ (or_introl Hu))) as [E|E]; auto. }
    destruct (IH fr1) as [fr' [E' [F' [K' [N' [L' [X' H']]]]]]]; [congruence|exact Hpl|now apply NoDup_app_r in Hnd|..].
    { intros u Hu. rewrite L1. destruct (mem u (nids n)) eqn:M.
      - exfalso. apply mem_In in M. apply (NoDup_app_disj _ _ u Hnd M Hu).
      - apply Hfree. apply in_or_app. now right. }
    exists fr'. split.
    { unfold run in *. cbn [map fold_left step_all]. subst f. rewrite E1. exact E'. }
    split; [exact F'|]. split; [congruence|]. split; [rewrite N', N1, <- app_assoc; reflexivity|].
    split; [|split].
    + intro k. rewrite L'. cbn [owner_of]. destruct (owner_of p k); [reflexivity|]. rewrite L1. destruct (mem k (nids n)); reflexivity.
    + intro k. rewrite X'. cbn [xt_of]. destruct (xt_of p k); [reflexivity|]. rewrite X1. destruct (nxt n); [destruct (k =? nh n)|]; reflexivity.
    + intro k. now rewrite H', H1.
Qed.

(* ---- undoing: un-index and remove the nested objects, drop the reservation ---- *)
Lemma owner_of_none p k : ~ In k (ids_of_nodes p) -> owner_of p k = None.
Proof.
  induction p as [|n p IH]; intro H; [reflexivity|]. unfold ids_of_nodes in H. cbn [flat_map] in H. cbn [owner_of].
  rewrite IH by (intro Hi; apply H; apply in_or_app; now right).
  destruct (mem k (nids n)) eqn:M; [|reflexivity]. exfalso. apply H. apply in_or_app. left. now apply mem_In.
Qed.
Lemma xt_of_some p k : forall x, xt_of p k = Some x -> In k (rm_xt p).
Proof.
  induction p as [|n p IH]; intro x; cbn [xt_of]; [discriminate|]. unfold rm_xt. cbn [flat_map]. intro H.
  destruct (xt_of p k) as [z|] eqn:E; [apply in_or_app; right; apply (IH z eq_refl)|].
  destruct (nxt n); [|discriminate]. destruct (k =? nh n) eqn:E2; [|discriminate]. apply Z.eqb_eq in E2. subst. apply in_or_app. left. now left.
Qed.
Lemma xt_of_present p n x : In n p -> nxt n = Some x -> xt_of p (nh n) <> None.
Proof.
  induction p as [|a p IH]; intros Hin Hx; [destruct Hin|]. cbn [xt_of].
  destruct (xt_of p (nh n)) eqn:E; [discriminate|]. destruct Hin as [->|Hin]; [rewrite Hx, Z.eqb_refl; discriminate|].
  exfalso. now apply (IH Hin Hx).
Qed.

Lemma only_app_disjoint hs ns p : (forall n, In n ns -> ~ In (nh n) hs) -> (forall n, In n p -> In (nh n) hs) -> only hs (ns ++ p) = p.
Proof.
  intros H1 H2. unfold only. rewrite filter_app.
  assert (E1 : filter (fun n => mem (nh n) hs) ns = []).
  { induction ns as [|a ns IH]; [reflexivity|]. cbn. assert (M : mem (nh a) hs = false) by (apply mem_false; apply H1; now left).
    rewrite M. apply IH. intros n Hn. apply H1. now right. }
  assert (E2 : filter (fun n => mem (nh n) hs) p = p).
  { clear -H2. induction p as [|a p IH]; [reflexivity|]. cbn. assert (M : mem (nh a) hs = true) by (apply mem_In; apply H2; now left).
    rewrite M. f_equal. apply IH. intros n Hn. apply H2. now right. }
  now rewrite E1, E2.
Qed.
Lemma without_app_disjoint hs ns p : (forall n, In n ns -> ~ In (nh n) hs) -> (forall n, In n p -> In (nh n) hs) -> without hs (ns ++ p) = ns.
Proof.
  intros H1 H2. unfold without. rewrite filter_app.
  assert (E1 : filter (fun n => negb (mem (nh n) hs)) ns = ns).
  { induction ns as [|a ns IH]; [reflexivity|]. cbn. assert (M : mem (nh a) hs = false) by (apply mem_false; apply H1; now left).
    rewrite M. cbn. f_equal. apply IH. intros n Hn. apply H1. now right. }
  assert (E2 : filter (fun n => negb (mem (nh n) hs)) p = []).
  { clear -H2. induction p as [|a p IH]; [reflexivity|]. cbn. assert (M : mem (nh a) hs = true) by (apply mem_In; apply H2; now left).
    rewrite M. cbn. apply IH. intros n Hn. apply H2. now right. }
  now rewrite E1, E2, app_nil_r.
Qed.

Lemma plain_rm_ids p : Forall plain p -> rm_ids p = ids_of_nodes p.
Proof. unfold rm_ids, ids_of_nodes. induction 1 as [|n p [_ Ha] _ IH]; [reflexivity|]. cbn. now rewrite Ha, IH. Qed.
Lemma plain_rm_hr p : Forall plain p -> rm_hr p = [].
Proof. unfold rm_hr. induction 1 as [|n p [Hh _] _ IH]; [reflexivity|]. cbn. now rewrite Hh, IH. Qed.
Lemma rm_xt_incl p h : In h (rm_xt p) -> In h (map nh p).
Proof.
  unfold rm_xt. intro H. apply in_flat_map in H as [n [Hn Hi]]. destruct (nxt n); [|destruct Hi]. destruct Hi as [<-|[]]. now apply in_map.
Qed.
Lemma NoDup_rm_xt p : NoDup (map nh p) -> NoDup (rm_xt p).
Proof.
  induction p as [|n p IH]; intro H; [constructor|]. cbn in H. apply NoDup_cons_iff in H as [Hni Hnd]. unfold rm_xt. cbn [flat_map].
  destruct (nxt n); [|now apply IH]. cbn. constructor; [|now apply IH]. intro Hi. apply Hni. now apply rm_xt_incl.
Qed.

(* A creation that fails after j nested objects were created leaves the fragment exactly as before:
   same elements, and every lookup in the id, type and href indexes answers as before — in
   particular no id stays reserved or indexed *)
Theorem failed_create_restores fr rq j :
  let done := firstn j (r_nested rq) in
  fname fr = r_frag rq ->
  lk_id fr (r_uuid rq) = None ->
  Forall plain done -> NoDup (ids_of_nodes done) -> ~ In (r_uuid rq) (ids_of_nodes done) ->
  (forall u, In u (ids_of_nodes done) -> lk_id fr u = None) ->
  NoDup (map nh done) -> (forall n, In n (fnodes fr) -> ~ In (nh n) (map nh done)) ->
  (forall n, In n done -> lk_xt fr (nh n) = None) ->
  exists fr', create rq (Some j) [fr] = ROk [fr'] /\ fnodes fr' = fnodes fr /\
    (forall k, lk_id fr' k = lk_id fr k) /\ (forall k, lk_xt fr' k = lk_xt fr k) /\ (forall k, lk_hr fr' k = lk_hr fr k).
Proof.
  intros done Hf Hu Hpl Hnd Hnu Hfresh Hnh Hdisj Hxt.
  unfold create, create_ops. fold done. set (f := r_frag rq) in *. set (u := r_uuid rq) in *.
  unfold run. rewrite !fold_left_app. cbn [fold_left step_all step_frag]. rewrite <- Hf, Z.eqb_refl.
  set (fr0 := mkFrag (fname fr) (fkd fr) (fnodes fr) (reserve u (fidx fr))).
  assert (L0 : forall k, lk_id fr0 k = if k =? u then Some None else lk_id fr k).
  { intro k. unfold lk_id, fr0. cbn. destruct (k =? u) eqn:E; [reflexivity|]. apply get_del_neq. intros ->. now rewrite Z.eqb_refl in E. }
  destruct (attach_many_lookup (fname fr) done fr0 eq_refl Hpl Hnd) as [fr1 [E1 [F1 [K1 [N1 [L1 [X1 H1]]]]]]].
  { intros k Hk. rewrite L0. destruct (k =? u) eqn:E; [now right|]. left. now apply Hfresh. }
  fold (run false (map (fun n => Attach (fname fr) [n]) done) [fr0]). rewrite E1. cbn [step_all step_frag]. rewrite F1, Z.eqb_refl.
  change (fnodes fr0) with (fnodes fr) in N1. rewrite N1.
  rewrite (only_app_disjoint (map nh done) (fnodes fr) done Hdisj (fun n Hn => in_map nh _ _ Hn)).
  rewrite (without_app_disjoint (map nh done) (fnodes fr) done Hdisj (fun n Hn => in_map nh _ _ Hn)).
  destruct (remove_nodes_succeeds done (fidx fr1)) as [ix2 E2].
  - intros n Hn x Hx. change (get (nh n) (xtc (fidx fr1))) with (lk_xt fr1 (nh n)). rewrite X1.
    destruct (xt_of done (nh n)) eqn:Ex; [discriminate|]. exfalso. now apply (xt_of_present done n x Hn Hx).
  - intros n Hn r Hr. rewrite Forall_forall in Hpl. destruct (Hpl n Hn) as [Hh _]. congruence.
  - now apply NoDup_rm_xt.
  - rewrite (plain_rm_hr done Hpl). constructor.
  - rewrite E2. destruct (remove_nodes_result done (fidx fr1) ix2 E2) as (R1 & R2 & R3).
    cbn [step_all step_frag fname]. rewrite Z.eqb_refl. eexists. split; [reflexivity|]. cbn [fnodes]. split; [reflexivity|].
    split; [|split].
    + intro k. unfold lk_id. cbn [fidx idc remove_id]. destruct (Z.eq_dec k u) as [->|Hne].
      * rewrite get_del_eq. symmetry. exact Hu.
      * rewrite get_del_neq by exact Hne. rewrite R1, get_dels, (plain_rm_ids done Hpl).
        destruct (mem k (ids_of_nodes done)) eqn:M.
        -- apply mem_In in M. symmetry. now apply Hfresh.
        -- apply mem_false in M. change (get k (idc (fidx fr1))) with (lk_id fr1 k). rewrite L1, (owner_of_none done k M), L0.
           destruct (k =? u) eqn:E; [apply Z.eqb_eq in E; congruence|reflexivity].
    + intro k. unfold lk_xt. cbn [fidx xtc remove_id]. rewrite R2, get_dels. destruct (mem k (rm_xt done)) eqn:M.
      * apply mem_In in M. apply rm_xt_incl in M. apply in_map_iff in M as [n [E Hn]]. subst. symmetry. now apply Hxt.
      * apply mem_false in M. change (get k (xtc (fidx fr1))) with (lk_xt fr1 k). rewrite X1.
        destruct (xt_of done k) eqn:Ex; [exfalso; apply M; now apply (xt_of_some done k z)|]. reflexivity.
    + intro k. unfold lk_hr. cbn [fidx hrs remove_id]. rewrite R3, (plain_rm_hr done Hpl). cbn. apply H1.
Qed.

(* the handler before the fix left the nested objects indexed *)
Example failed_create_old_leaves_ghost :
  let fr := demo_frag in
  let rq := mkReq 0 900 (mkNode 50 (Some 7) (Some 100) [900] [900] None) [mkNode 51 (Some 50) (Some 101) [901] [901] None] in
  exists fr', run false (create_ops_old rq 1) [fr] = ROk [fr'] /\ fnodes fr' = fnodes fr /\ lk_id fr' 901 = Some (Some 51) /\ lk_id fr 901 = None.
Proof. eexists. repeat split; reflexivity. Qed.
Example failed_create_hypotheses_satisfiable :
  let rq := mkReq 0 900 (mkNode 50 (Some 7) (Some 100) [900] [900] None) [mkNode 51 (Some 50) (Some 101) [901] [901] None] in
  exists fr', create rq (Some 1%nat) [demo_frag] = ROk [fr'] /\ fnodes fr' = fnodes demo_frag /\ lk_id fr' 901 = None /\ lk_id fr' 900 = None.
Proof. eexists. repeat split; reflexivity. Qed.
