From Coq Require Import ZArith List Bool Lia Permutation.
Import ListNotations.
From V Require Import Model.Val Model.Query.
Open Scope Z_scope.

Lemma memq_In x l : memq x l = true <-> In x l.
Proof.
  unfold memq. rewrite existsb_exists. split.
  - intros [y [H1 H2]]. apply Z.eqb_eq in H2. now subst.
  - intro H. exists x. split; [exact H|apply Z.eqb_refl].
Qed.
Lemma index_of_some y l : forall i j, index_of y l i = Some j -> In y l.
Proof.
  induction l as [|x l IH]; intros i j H; [discriminate|]. cbn in H. destruct (x =? y) eqn:E.
  - apply Z.eqb_eq in E. now left.
  - right. eapply IH; eauto.
Qed.
Lemma index_of_none y l : forall i, index_of y l i = None -> ~ In y l.
Proof.
  induction l as [|x l IH]; intros i H; [tauto|]. cbn in H. destruct (x =? y) eqn:E; [discriminate|].
  intros [->|Hin]; [now rewrite Z.eqb_refl in E|]. eapply IH; eauto.
Qed.

(* every target of a link-storing relation occurs as '#id' in an attribute of the element or of a direct child *)
Definition StoredShallow (x : qobj) : Prop :=
  forall r u, In r (q_rels x) -> In u (snd r) -> In u (q_own x) \/ In u (q_child x).

Lemma hits_nil_if_not_prefiltered y x : StoredShallow x -> prefilter y x = false -> hits y x = [].
Proof.
  intros Hs Hp. unfold hits. apply orb_false_iff in Hp as [H1 H2]. unfold StoredShallow in Hs.
  assert (G : forall rels : list (Z * list Z), (forall r u, In r rels -> In u (snd r) -> In u (q_own x) \/ In u (q_child x)) ->
              flat_map (fun r => match index_of y (snd r) 0 with Some i => [(q_h x, fst r, i)] | None => @nil (Z * Z * Z) end) rels = []).
  { induction rels as [|r rs IH]; intro H; [reflexivity|]. cbn [flat_map].
    destruct (index_of y (snd r) 0) as [i|] eqn:E.
    - exfalso. apply index_of_some in E. destruct (H r y (or_introl eq_refl) E) as [H'|H']; apply memq_In in H'; congruence.
    - cbn [app]. apply IH. intros r' u Hr Hu. apply (H r' u); [now right|exact Hu]. }
  now apply G.
Qed.

(* sound and complete, with the results in the same (document) order as a full scan *)
Theorem find_references_exact xs y : Forall StoredShallow xs -> find_references xs y = brute_force xs y.
Proof.
  unfold find_references, brute_force. induction 1 as [|x xs Hx HF IH]; [reflexivity|].
  cbn [filter flat_map]. destruct (prefilter y x) eqn:E.
  - cbn [flat_map]. now rewrite IH.
  - rewrite IH. now rewrite (hits_nil_if_not_prefiltered y x Hx E).
Qed.

(* a hit is reported precisely when the relation contains y, at its first index *)
Theorem hits_spec y x h r i : In (h, r, i) (hits y x) <->
  h = q_h x /\ exists ts, In (r, ts) (q_rels x) /\ index_of y ts 0 = Some i.
Proof.
  unfold hits. rewrite in_flat_map. split.
  - intros [[r' ts] [Hr Hi]]. cbn [fst snd] in Hi. destruct (index_of y ts 0) as [j|] eqn:E; [|destruct Hi].
    destruct Hi as [Hi|[]]. inversion Hi; subst. split; [reflexivity|]. eauto.
  - intros [-> [ts [Hr E]]]. exists (r, ts). split; [exact Hr|]. cbn [fst snd]. rewrite E. now left.
Qed.

(* when a relation keeps its targets deeper than a direct child the pre-filter loses it *)
Example deep_storage_refuted :
  let x := mkQ 1 [] [] [(7, [42])] in find_references [x] 42 = [] /\ brute_force [x] 42 = [(1, 7, 0)].
Proof. split; reflexivity. Qed.

(* back-references *)
Theorem backrefs_spec xs attrs y h : In h (backrefs xs attrs y) <->
  exists x, In x xs /\ q_h x = h /\ exists r, In r (q_rels x) /\ In (fst r) attrs /\ In y (snd r).
Proof.
  unfold backrefs. rewrite in_map_iff. split.
  - intros [x [E Hx]]. apply filter_In in Hx as [Hx Hp]. apply existsb_exists in Hp as [r [Hr Hb]].
    apply andb_true_iff in Hb as [H1 H2]. apply memq_In in H1, H2. exists x. repeat split; auto. exists r. auto.
  - intros [x [Hx [E [r [Hr [H1 H2]]]]]]. exists x. split; [exact E|]. apply filter_In. split; [exact Hx|].
    apply existsb_exists. exists r. split; [exact Hr|]. apply andb_true_iff. split; now apply memq_In.
Qed.

Lemma paths_hit_spec y ps : paths_hit y ps = true <-> exists vs, In (Some vs) ps /\ In y vs.
Proof.
  induction ps as [|[vs|] r IH]; cbn [paths_hit].
  - split; [discriminate|intros [vs [[] _]]].
  - rewrite orb_true_iff, IH. split.
    + intros [H|[vs' [H1 H2]]]; [exists vs; split; [now left|now apply memq_In]|exists vs'; split; [now right|exact H2]].
    + intros [vs' [[E|H1] H2]]; [left; injection E as ->; now apply memq_In|right; eauto].
  - rewrite IH. split; intros [vs [H1 H2]]; exists vs; (split; [|exact H2]); [now right|destruct H1 as [E|H1]; [discriminate|exact H1]].
Qed.
Theorem backrefs_loop_spec cs y h : In h (backrefs_loop cs y) <->
  exists c, In c cs /\ fst c = h /\ exists vs, In (Some vs) (snd c) /\ In y vs.
Proof.
  unfold backrefs_loop. rewrite in_map_iff. split.
  - intros [c [E Hc]]. apply filter_In in Hc as [Hc Hp]. apply paths_hit_spec in Hp. eauto.
  - intros [c [Hc [E Hp]]]. exists c. split; [exact E|]. apply filter_In. split; [exact Hc|]. now apply paths_hit_spec.
Qed.
(* each candidate is reported at most once, in candidate order *)
Theorem backrefs_loop_nodup cs y : NoDup (map fst cs) -> NoDup (backrefs_loop cs y).
Proof.
  unfold backrefs_loop. induction cs as [|c cs IH]; intros H; [constructor|]. cbn [map] in H. apply NoDup_cons_iff in H as [Hn Hd].
  cbn [filter]. destruct (paths_hit y (snd c)); [|now apply IH]. cbn [map]. constructor; [|now apply IH].
  intros Hin. apply Hn. apply in_map_iff in Hin as [c' [E Hc']]. apply filter_In in Hc' as [Hc' _]. apply in_map_iff. eauto.
Qed.
Theorem backrefs_break_refuted :
  backrefs_loop [(1, [None; Some [42]])] 42 = [1] /\ backrefs_loop_break [(1, [None; Some [42]])] 42 = [].
Proof. split; reflexivity. Qed.

(* ---- list filters ---- *)
Lemma filter_partition_perm {A} (p : A -> bool) l : Permutation l (filter p l ++ filter (fun x => negb (p x)) l).
Proof.
  induction l as [|x l IH]; [constructor|]. cbn. destruct (p x); cbn.
  - now constructor.
  - eapply Permutation_trans; [apply perm_skip; exact IH|]. apply Permutation_middle.
Qed.

(* subsequence = order preserving *)
Inductive subseq {A} : list A -> list A -> Prop :=
| sub_nil : subseq [] []
| sub_skip x l l' : subseq l l' -> subseq l (x :: l')
| sub_take x l l' : subseq l l' -> subseq (x :: l) (x :: l').
Lemma filter_subseq {A} (p : A -> bool) l : subseq (filter p l) l.
Proof. induction l as [|x l IH]; cbn; [constructor|]. destruct (p x); now constructor. Qed.

Theorem filters_partition key v l :
  Permutation l (by_key key v l ++ exclude_key key v l) /\
  subseq (by_key key v l) l /\ subseq (exclude_key key v l) l /\
  (forall e, In e (by_key key v l) -> ~ In e (exclude_key key v l)).
Proof.
  unfold by_key, exclude_key.
  assert (E : filter (fun e => match key e with Some k => negb (k =? v) | None => true end) l =
              filter (fun e => negb (match key e with Some k => k =? v | None => false end)) l).
  { apply filter_ext. intro e. destruct (key e); reflexivity. }
  rewrite E. split; [apply filter_partition_perm|]. split; [apply filter_subseq|]. split; [apply filter_subseq|].
  intros e H1 H2. apply filter_In in H1 as [_ H1]. apply filter_In in H2 as [_ H2]. rewrite H1 in H2. discriminate.
Qed.

(* before the fix: an element whose key cannot be read was in neither part *)
Example filters_partition_refuted :
  let key := fun e => if e =? 2 then None else Some 5 in
  by_key key 5 [1; 2; 3] ++ exclude_key_old key 5 [1; 2; 3] = [1; 3].
Proof. reflexivity. Qed.

Theorem single_spec l x : single l = Some x <-> l = [x].
Proof. destruct l as [|a [|b r]]; cbn; split; intro H; try discriminate; try congruence; inversion H; reflexivity. Qed.
