(* C06 — downward navigation: the children the loader yields for an element of a fragmented forest (placeholders
   followed through the id index) are exactly the non-placeholder elements whose parent in the glued single-file tree
   is that element. *)
From Coq Require Import ZArith List Bool Lia.
Import ListNotations.
From V Require Import Model.Val Model.Graph Proofs.GraphP.
Open Scope Z_scope.

(* the parent pointer of a node names a node of the SAME fragment (what an lxml tree guarantees) *)
Definition ParentsLocal (frs : list frag) : Prop :=
  forall fr n p, In fr frs -> In n (fnodes fr) -> npar n = Some p -> exists pn, In pn (fnodes fr) /\ nh pn = p.
(* every placeholder resolves, through the id index, to a fragment root, and that root is the only node of the forest
   carrying the id (ids are unique across the fragments of a well-formed model: C04) *)
Definition PlaceholdersResolve (frs : list frag) : Prop :=
  forall p u, In p (all_nodes frs) -> nhref p = Some u ->
    exists r, by_uuid frs u = ROk (nh r) /\ In r (all_nodes frs) /\ npar r = None /\ nhref r = None /\ In u (nall r) /\
              forall n, In n (all_nodes frs) -> In u (nall n) -> n = r.

Lemma in_all_nodes frs fr n : In fr frs -> In n (fnodes fr) -> In n (all_nodes frs).
Proof. intros. unfold all_nodes. apply in_flat_map. eauto. Qed.
Lemma all_nodes_inv frs n : In n (all_nodes frs) -> exists fr, In fr frs /\ In n (fnodes fr).
Proof. unfold all_nodes. intro H. apply in_flat_map in H. exact H. Qed.
Lemma handles_inj frs a b : GlobalHandles frs -> In a (all_nodes frs) -> In b (all_nodes frs) -> nh a = nh b -> a = b.
Proof.
  unfold GlobalHandles. induction (all_nodes frs) as [|x l IH]; intros Hnd Ha Hb E; [destruct Ha|].
  cbn [map] in Hnd. apply NoDup_cons_iff in Hnd as [Hni Hnd].
  destruct Ha as [<-|Ha], Hb as [<-|Hb].
  - reflexivity.
  - exfalso. apply Hni. rewrite E. now apply in_map.
  - exfalso. apply Hni. rewrite <- E. now apply in_map.
  - now apply IH.
Qed.
(* two fragments of the forest that share a node hold the same nodes *)
Lemma same_frag frs : forall f1 f2 x c, GlobalHandles frs -> In f1 frs -> In f2 frs ->
  In x (fnodes f1) -> In x (fnodes f2) -> In c (fnodes f1) -> In c (fnodes f2).
Proof.
  induction frs as [|f l IH]; intros f1 f2 x c Hg H1 H2 Hx1 Hx2 Hc; [destruct H1|].
  unfold GlobalHandles in Hg. rewrite all_nodes_cons, map_app in Hg.
  destruct H1 as [<-|H1], H2 as [<-|H2].
  - exact Hc.
  - exfalso. apply (NoDup_app_disj _ _ (nh x) Hg); [now apply in_map|]. apply in_map. apply in_flat_map. eauto.
  - exfalso. apply (NoDup_app_disj _ _ (nh x) Hg); [now apply in_map|]. apply in_map. apply in_flat_map. eauto.
  - apply (IH f1 f2 x c); auto. unfold GlobalHandles. now apply NoDup_app_r in Hg.
Qed.
(* the fragment found for a handle holds the node *)
Lemma find_in_frags_in frs : forall h fr n, find_in_frags frs h = Some (fr, n) -> In fr frs /\ In n (fnodes fr) /\ nh n = h.
Proof.
  induction frs as [|f l IH]; intros h fr n H; [discriminate|]. cbn [find_in_frags] in H.
  destruct (find_node (fnodes f) h) as [m|] eqn:F.
  - injection H as <- <-. unfold find_node in F. apply find_some in F as [F1 F2]. apply Z.eqb_eq in F2. split; [now left|auto].
  - destruct (IH h fr n H) as (H1 & H2 & H3). split; [now right|auto].
Qed.

Section Children.
  Variable frs : list frag.
  Hypothesis Hg : GlobalHandles frs.
  Hypothesis Hloc : ParentsLocal frs.
  Hypothesis Hres : PlaceholdersResolve frs.
  Hypothesis Huniq : forall r, In r (all_nodes frs) -> UniquePlaceholder frs r.

  (* a node whose parent pointer is h lives in the fragment found for h *)
  Lemma child_in_found_frag h fr hn c : find_in_frags frs h = Some (fr, hn) -> In c (all_nodes frs) -> npar c = Some h -> In c (fnodes fr).
  Proof.
    intros F Hc Hp. destruct (find_in_frags_in frs h fr hn F) as (Hfr & Hhn & Eh).
    destruct (all_nodes_inv frs c Hc) as [fc [Hfc Hcf]].
    destruct (Hloc fc c h Hfc Hcf Hp) as [pn [Hpn Epn]].
    assert (pn = hn).
    { apply (handles_inj frs); auto; [now apply (in_all_nodes frs fc)|now apply (in_all_nodes frs fr)|congruence]. }
    subst pn. apply (same_frag frs fc fr hn c); auto.
  Qed.
  Lemma parent_is_found c h : In c (all_nodes frs) -> npar c = Some h -> exists fr hn, find_in_frags frs h = Some (fr, hn).
  Proof.
    intros Hc Hp. destruct (all_nodes_inv frs c Hc) as [fc [Hfc Hcf]]. destruct (Hloc fc c h Hfc Hcf Hp) as [pn [Hpn Epn]].
    destruct (find_in_frags_spec frs fc pn Hg Hfc Hpn) as [fr F]. rewrite Epn in F. eauto.
  Qed.

  (* soundness: what iterchildren_xt yields is a non-placeholder node whose glued parent is h *)
  Lemma children_sound h k : In (Some k) (children_xt frs h) ->
    exists cn, In cn (all_nodes frs) /\ nh cn = k /\ nhref cn = None /\ glued_parent frs cn = Some h.
  Proof.
    intros Hin. unfold children_xt in Hin.
    destruct (find_in_frags frs h) as [[fr hn]|] eqn:F; [|destruct Hin].
    destruct (find_in_frags_in frs h fr hn F) as (Hfr & Hhn & Eh).
    apply in_map_iff in Hin as [c [Ec Hc]]. unfold raw_children in Hc. apply filter_In in Hc as [Hc Hp].
    destruct (npar c) as [p|] eqn:Ep; [|discriminate]. apply Z.eqb_eq in Hp. subst p.
    pose proof (in_all_nodes frs fr c Hfr Hc) as Hca.
    unfold follow_href in Ec. destruct (nhref c) as [u|] eqn:Eh'.
    - destruct (Hres c u Hca Eh') as [r (Hby & Hr & Hrp & Hrh & Hur & Hu)].
      rewrite Hby in Ec. injection Ec as <-. exists r. split; [exact Hr|]. split; [reflexivity|]. split; [exact Hrh|].
      unfold glued_parent. rewrite Hrp.
      assert (Hph : is_placeholder_of r c = true).
      { unfold is_placeholder_of. rewrite Eh'. now apply mem_In. }
      destruct (find (is_placeholder_of r) (all_nodes frs)) as [p|] eqn:Fp.
      + apply find_some in Fp as [Fp1 Fp2]. rewrite (Huniq r Hr p c Fp1 Hca Fp2 Hph). exact Ep.
      + rewrite (find_none _ _ Fp c Hca) in Hph. discriminate.
    - injection Ec as <-. exists c. split; [exact Hca|]. split; [reflexivity|]. split; [exact Eh'|]. unfold glued_parent. now rewrite Ep.
  Qed.

  (* completeness: every non-placeholder node whose glued parent is h is yielded *)
  Lemma children_complete h cn : In cn (all_nodes frs) -> nhref cn = None -> glued_parent frs cn = Some h ->
    In (Some (nh cn)) (children_xt frs h).
  Proof.
    intros Hcn Hnh Hgp. unfold glued_parent in Hgp. unfold children_xt. destruct (npar cn) as [p|] eqn:Ep.
    - injection Hgp as ->. destruct (parent_is_found cn h Hcn Ep) as [fr [hn F]]. rewrite F.
      apply in_map_iff. exists cn. split; [unfold follow_href; now rewrite Hnh|].
      unfold raw_children. apply filter_In. split; [now apply (child_in_found_frag h fr hn)|]. rewrite Ep. apply Z.eqb_refl.
    - destruct (find (is_placeholder_of cn) (all_nodes frs)) as [ph|] eqn:Fp; [|discriminate].
      apply find_some in Fp as [Fp1 Fp2]. unfold is_placeholder_of in Fp2. destruct (nhref ph) as [u|] eqn:Eu; [|discriminate].
      apply mem_In in Fp2.
      destruct (Hres ph u Fp1 Eu) as [r (Hby & Hr & Hrp & Hrh & Hur & Hu)].
      assert (cn = r) by now apply Hu. subst r.
      destruct (parent_is_found ph h Fp1 Hgp) as [fr [hn F]]. rewrite F.
      apply in_map_iff. exists ph. split; [unfold follow_href; now rewrite Eu, Hby|].
      unfold raw_children. apply filter_In. split; [now apply (child_in_found_frag h fr hn)|]. rewrite Hgp. apply Z.eqb_refl.
  Qed.

  Theorem children_glue h k : In (Some k) (children_xt frs h) <->
    exists cn, In cn (all_nodes frs) /\ nh cn = k /\ nhref cn = None /\ glued_parent frs cn = Some h.
  Proof.
    split; [apply children_sound|]. intros [cn (H1 & <- & H3 & H4)]. now apply children_complete.
  Qed.
  (* following a placeholder never fails *)
  Theorem children_all_resolve h : ~ In None (children_xt frs h).
  Proof.
    unfold children_xt. destruct (find_in_frags frs h) as [[fr hn]|] eqn:F; [|intros []].
    destruct (find_in_frags_in frs h fr hn F) as (Hfr & _ & _).
    intro Hin. apply in_map_iff in Hin as [c [Ec Hc]]. unfold raw_children in Hc. apply filter_In in Hc as [Hc _].
    unfold follow_href in Ec. destruct (nhref c) as [u|] eqn:Eu; [|discriminate].
    destruct (Hres c u (in_all_nodes frs fr c Hfr Hc) Eu) as [r (Hby & _)]. rewrite Hby in Ec. discriminate.
  Qed.
End Children.
