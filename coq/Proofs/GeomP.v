(* Proofs about Model/Geom.v (exact arithmetic over Q). *)
From Coq Require Import QArith Qabs Qminmax ZArith NArith List Bool Lqa Lia.
Import ListNotations.
From V Require Import Model.Val Model.Geom Gen.GeomConsts.
Open Scope Q_scope.

(* ================= specification predicates ================= *)
(* r lies on the outline of b: on the top or bottom line within the sides, or on the left or
   right line within top and bottom *)
Definition on_outline (b : box) (r : Q * Q) : Prop :=
  (bx b <= fst r /\ fst r <= bx b + bw b /\ (snd r == by_ b \/ snd r == by_ b + bh b))
  \/ (by_ b <= snd r /\ snd r <= by_ b + bh b /\ (fst r == bx b \/ fst r == bx b + bw b)).
(* tree routing: on the top or bottom line; at the middle for a port, else straight below/above p *)
Definition on_tree_side (b : box) (p r : Q * Q) : Prop :=
  (snd r == by_ b \/ snd r == by_ b + bh b)
  /\ (if bport b then fst r == bx b + bw b * (1 # 2) else fst r == fst p).
Definition veq (a b : Q * Q) : Prop := fst a == fst b /\ snd a == snd b.
Definition res_eq (a b : res) : Prop :=
  match a, b with
  | Ok u, Ok v => veq u v
  | Err e, Err e' => e = e'
  | _, _ => False
  end.
Definition shift_box (v : Q * Q) (b : box) : box :=
  {| bx := bx b + fst v; by_ := by_ b + snd v; bw := bw b; bh := bh b; bport := bport b |}.
Definition shift_res (v : Q * Q) (r : res) : res := res_map (fun u => vadd u v) r.
(* rectangle (x, y, w, h) lies within the viewport rectangle *)
Definition within (b v : Q * Q * Q * Q) : Prop :=
  let '(x, y, w, h) := b in let '(vx, vy, vw, vh) := v in
  vx <= x /\ vy <= y /\ x + w <= vx + vw /\ y + h <= vy + vh.

(* ================= boolean reflection ================= *)
Lemma Qlt_b_true a b : Qlt_b a b = true <-> a < b.
Proof.
  unfold Qlt_b. rewrite negb_true_iff. split; intro H.
  - apply Qnot_le_lt. intro L. apply Qle_bool_iff in L. congruence.
  - destruct (Qle_bool b a) eqn:E; [|reflexivity]. apply Qle_bool_iff in E. exfalso. apply (Qlt_not_le _ _ H E).
Qed.
Lemma Qlt_b_false a b : Qlt_b a b = false <-> b <= a.
Proof.
  unfold Qlt_b. rewrite negb_false_iff. apply Qle_bool_iff.
Qed.
Lemma Qle_bool_false a b : Qle_bool a b = false <-> b < a.
Proof.
  split; intro H.
  - apply Qnot_le_lt. intro L. apply Qle_bool_iff in L. congruence.
  - destruct (Qle_bool a b) eqn:E; [|reflexivity]. apply Qle_bool_iff in E. exfalso. apply (Qlt_not_le _ _ H E).
Qed.
Lemma Qeq_bool_false a b : Qeq_bool a b = false <-> ~ a == b.
Proof.
  split; intro H.
  - intro E. apply Qeq_bool_iff in E. congruence.
  - destruct (Qeq_bool a b) eqn:E; [|reflexivity]. apply Qeq_bool_iff in E. contradiction.
Qed.

(* turn every boolean test in the context into the (in)equality it decides *)
Ltac reflect_hyps :=
  repeat match goal with
  | H : Qlt_b _ _ = true |- _ => apply Qlt_b_true in H
  | H : Qlt_b _ _ = false |- _ => apply Qlt_b_false in H
  | H : Qle_bool _ _ = true |- _ => apply Qle_bool_iff in H
  | H : Qle_bool _ _ = false |- _ => apply Qle_bool_false in H
  | H : Qeq_bool _ _ = true |- _ => apply Qeq_bool_iff in H
  | H : Qeq_bool _ _ = false |- _ => apply Qeq_bool_false in H
  | H : (_ && _)%bool = true |- _ => apply andb_true_iff in H; destruct H
  end.

(* ================= closestaxis ================= *)
(* it is one of the four unit axis vectors, never (0,0) *)
Lemma closestaxis_cases d :
  closestaxis d = (1 * 1, 1 * 0) \/ closestaxis d = (1 * 1, -(1) * 0)
  \/ closestaxis d = (-(1) * 1, 1 * 0) \/ closestaxis d = (-(1) * 1, -(1) * 0)
  \/ closestaxis d = (1 * 0, 1 * 1) \/ closestaxis d = (1 * 0, -(1) * 1)
  \/ closestaxis d = (-(1) * 0, 1 * 1) \/ closestaxis d = (-(1) * 0, -(1) * 1).
Proof.
  unfold closestaxis.
  destruct (Qle_bool (Qabs (snd d)) (Qabs (fst d))), (Qle_bool 0 (fst d)), (Qle_bool 0 (snd d)); cbn [b2q negb]; tauto.
Qed.

(* ================= manhattan ================= *)
Lemma manhattan_sound b p d :
  0 <= bw b -> 0 <= bh b -> exists r, snap_manhattan b p d = Ok r /\ on_outline b r.
Proof.
  intros Hw Hh. unfold snap_manhattan.
  destruct (closestaxis_cases d) as [E|[E|[E|[E|[E|[E|[E|E]]]]]]]; rewrite E; cbn [fst snd];
    match goal with |- context [Qeq_bool ?a 0] => let v := eval vm_compute in (Qeq_bool a 0) in change (Qeq_bool a 0) with v end;
    cbn [negb];
    try match goal with |- context [Qeq_bool ?a 0] => let v := eval vm_compute in (Qeq_bool a 0) in change (Qeq_bool a 0) with v end;
    cbn [negb];
    match goal with |- context [Qlt_b ?a 0] => let v := eval vm_compute in (Qlt_b a 0) in change (Qlt_b a 0) with v end;
    cbn [b2q].
  all: repeat match goal with
       | |- context [if Qlt_b ?a ?c then _ else _] => destruct (Qlt_b a c) eqn:?
       | |- context [if bport ?b then _ else _] => destruct (bport b) eqn:?
       end;
    eexists; (split; [reflexivity|]); reflect_hyps; unfold on_outline, half; cbn [fst snd];
    first [ left; repeat split; try lra; (left; lra) || (right; lra)
          | right; repeat split; try lra; (left; lra) || (right; lra) ].
Qed.

(* ================= tree ================= *)
Lemma tree_partial b p d :
  veqb d (0, 0) = false -> exists r, snap_tree b p d = Ok r /\ on_tree_side b p r.
Proof.
  intros Hd. unfold snap_tree. rewrite Hd.
  destruct (bport b) eqn:Hp; destruct (tree_bottom b p d); eexists; (split; [reflexivity|]);
    unfold on_tree_side; rewrite Hp; cbn [fst snd]; unfold half; split; try lra; (left; lra) || (right; lra).
Qed.

Lemma tree_side_outline b p r :
  0 <= bw b -> on_tree_side b p r ->
  (bport b = true \/ (bx b <= fst p /\ fst p <= bx b + bw b)) -> on_outline b r.
Proof.
  intros Hw [Hy Hx] Hc. left. destruct (bport b).
  - repeat split; try lra; exact Hy.
  - destruct Hc as [Hc|[H1 H2]]; [discriminate|]. repeat split; try lra; exact Hy.
Qed.

(* a non-port result is on the outline only if p.x is within the sides *)
Lemma tree_side_outline_only_if b p r :
  0 <= bw b -> bport b = false -> on_tree_side b p r -> on_outline b r ->
  bx b <= fst p /\ fst p <= bx b + bw b.
Proof.
  intros Hw Hp [Hy Hx] Ho. rewrite Hp in Hx.
  destruct Ho as [[H1 [H2 _]]|[H1 [H2 [H3|H3]]]]; lra.
Qed.

(* ================= viewport ================= *)
Definition acc_ok (acc : Q * Q * Q * Q) (b : Q * Q * Q * Q) : Prop :=
  let '(minx, miny, maxx, maxy) := acc in let '(x, y, w, h) := b in
  minx <= x /\ miny <= y /\ x + w <= maxx /\ y + h <= maxy.

Lemma vp_acc_mono acc c b : acc_ok acc b -> acc_ok (vp_acc acc c) b.
Proof.
  destruct acc as [[[minx miny] maxx] maxy], c as [[[cx cy] cw] ch], b as [[[x y] w] h]. cbn.
  intros (H1 & H2 & H3 & H4).
  pose proof (Q.le_min_l minx cx). pose proof (Q.le_min_l miny cy).
  pose proof (Q.le_max_l maxx (cx + cw)). pose proof (Q.le_max_l maxy (cy + ch)).
  repeat split; lra.
Qed.
Lemma vp_acc_self acc c : acc_ok (vp_acc acc c) c.
Proof.
  destruct acc as [[[minx miny] maxx] maxy], c as [[[cx cy] cw] ch]. cbn.
  pose proof (Q.le_min_r minx cx). pose proof (Q.le_min_r miny cy).
  pose proof (Q.le_max_r maxx (cx + cw)). pose proof (Q.le_max_r maxy (cy + ch)).
  repeat split; lra.
Qed.
Lemma fold_acc_ok l : forall acc,
  (forall b, acc_ok acc b -> acc_ok (fold_left vp_acc l acc) b)
  /\ Forall (acc_ok (fold_left vp_acc l acc)) l.
Proof.
  induction l as [|c l IH]; intros acc; cbn [fold_left].
  - split; [auto|constructor].
  - destruct (IH (vp_acc acc c)) as [IH1 IH2]. split.
    + intros b Hb. apply IH1. now apply vp_acc_mono.
    + constructor; [|exact IH2]. apply IH1. apply vp_acc_self.
Qed.

Lemma viewport_encloses_all bs v : viewport bs = Some v -> Forall (fun b => within b v) bs.
Proof.
  destruct bs as [|[[[x y] w] h] r]; [discriminate|]. cbn [viewport].
  destruct (fold_left vp_acc r (x, y, x + w, y + h)) as [[[minx miny] maxx] maxy] eqn:E.
  intros [= <-].
  destruct (fold_acc_ok r (x, y, x + w, y + h)) as [H1 H2]. rewrite E in H1, H2.
  assert (A0 : acc_ok (x, y, x + w, y + h) (x, y, w, h)) by (cbn; repeat split; lra).
  apply H1 in A0.
  assert (T : forall b, acc_ok (minx, miny, maxx, maxy) b -> within b (minx, miny, maxx - minx, maxy - miny)).
  { intros [[[bx0 by0] bw0] bh0]. cbn. intros (? & ? & ? & ?). repeat split; lra. }
  constructor; [now apply T|]. eapply Forall_impl; [|exact H2]. exact T.
Qed.

Lemma viewport_total bs : bs <> [] -> exists v, viewport bs = Some v.
Proof.
  destruct bs as [|[[[x y] w] h] r]; [congruence|]. intros _. cbn [viewport].
  destruct (fold_left vp_acc r (x, y, x + w, y + h)) as [[[minx miny] maxx] maxy]. eauto.
Qed.

(* ================= line_intersect ================= *)
Definition li_denum (p1 p2 p3 p4 : Q * Q) : Q :=
  (fst p1 - fst p2) * (snd p3 - snd p4) - (fst p3 - fst p4) * (snd p1 - snd p2).

(* a result lies on both lines *)
Lemma li_ok p1 p2 p3 p4 r : line_intersect p1 p2 p3 p4 = Ok r ->
  ~ li_denum p1 p2 p3 p4 == 0
  /\ (fst r - fst p1) * (snd p2 - snd p1) == (snd r - snd p1) * (fst p2 - fst p1)
  /\ (fst r - fst p3) * (snd p4 - snd p3) == (snd r - snd p3) * (fst p4 - fst p3).
Proof.
  destruct p1 as [x1 y1], p2 as [x2 y2], p3 as [x3 y3], p4 as [x4 y4]. unfold line_intersect, li_denum. cbn [fst snd].
  destruct (Qeq_bool ((x1 - x2) * (y3 - y4) - (x3 - x4) * (y1 - y2)) 0) eqn:E; [discriminate|].
  apply Qeq_bool_false in E. intros [= <-]. cbn [fst snd]. split; [exact E|]. split; field; exact E.
Qed.

(* it raises (ValueError) exactly when the lines are parallel or one of them is degenerate *)
Lemma li_total p1 p2 p3 p4 : ~ li_denum p1 p2 p3 p4 == 0 -> exists r, line_intersect p1 p2 p3 p4 = Ok r.
Proof.
  destruct p1 as [x1 y1], p2 as [x2 y2], p3 as [x3 y3], p4 as [x4 y4]. unfold line_intersect, li_denum. cbn [fst snd].
  intros H. apply Qeq_bool_false in H. rewrite H. eauto.
Qed.
Lemma li_err p1 p2 p3 p4 e : line_intersect p1 p2 p3 p4 = Err e -> li_denum p1 p2 p3 p4 == 0 /\ e = E_ValueError.
Proof.
  destruct p1 as [x1 y1], p2 as [x2 y2], p3 as [x3 y3], p4 as [x4 y4]. unfold line_intersect, li_denum. cbn [fst snd].
  destruct (Qeq_bool ((x1 - x2) * (y3 - y4) - (x3 - x4) * (y1 - y2)) 0) eqn:E; [|discriminate].
  apply Qeq_bool_iff in E. intros [= <-]. split; [exact E|reflexivity].
Qed.

(* product with a non-zero factor *)
Lemma Qmult_eq0_l a k : a * k == 0 -> ~ k == 0 -> a == 0.
Proof. intros H Hk. destruct (Qmult_integral _ _ H) as [A|A]; [exact A|contradiction]. Qed.

(* ================= oblique: whatever it returns is on the outline ================= *)
Lemma hit_h_outline (b : box) y s p i :
  0 < bw b -> (y == by_ b \/ y == by_ b + bh b) ->
  In i (hit_h (bx b, y) (bx b + bw b, y) s p) -> on_outline b i.
Proof.
  intros Hw Hy. unfold hit_h.
  destruct (line_intersect (bx b, y) (bx b + bw b, y) s p) as [r|] eqn:E; [|intros []].
  destruct (Qle_bool (fst (bx b, y)) (fst r) && Qle_bool (fst r) (fst (bx b + bw b, y)))%bool eqn:C; [|intros []].
  intros [<-|[]]. reflect_hyps. cbn [fst snd] in *.
  apply li_ok in E. destruct E as (_ & E1 & _). cbn [fst snd] in E1.
  assert (Y : snd r == y).
  { assert (Z : (snd r - y) * bw b == 0) by lra. apply Qmult_eq0_l in Z; lra. }
  left. repeat split; try lra; (destruct Hy; [left|right]; lra).
Qed.
Lemma hit_v_outline (b : box) x s p i :
  0 < bh b -> (x == bx b \/ x == bx b + bw b) ->
  In i (hit_v (x, by_ b) (x, by_ b + bh b) s p) -> on_outline b i.
Proof.
  intros Hh Hx. unfold hit_v.
  destruct (line_intersect (x, by_ b) (x, by_ b + bh b) s p) as [r|] eqn:E; [|intros []].
  destruct (Qle_bool (snd (x, by_ b)) (snd r) && Qle_bool (snd r) (snd (x, by_ b + bh b)))%bool eqn:C; [|intros []].
  intros [<-|[]]. reflect_hyps. cbn [fst snd] in *.
  apply li_ok in E. destruct E as (_ & E1 & _). cbn [fst snd] in E1.
  assert (X : fst r == x).
  { assert (Z : (fst r - x) * bh b == 0) by lra. apply Qmult_eq0_l in Z; lra. }
  right. repeat split; try lra; (destruct Hx; [left|right]; lra).
Qed.

Lemma oblique_sound b p s r :
  0 < bw b -> 0 < bh b -> snap_oblique b p s = Ok r -> on_outline b r.
Proof.
  intros Hw Hh. unfold snap_oblique.
  set (p' := if inside b p then p else center b).
  destruct (Qeq_bool (fst (vsub p' s)) 0 && Qeq_bool (snd (vsub p' s)) 0)%bool; [discriminate|].
  match goal with |- match ?l with _ => _ end = _ -> _ => remember l as is eqn:Eis end.
  destruct is as [|i [|j is]]; try discriminate. intros [= <-].
  assert (I : In i [i]) by now left. rewrite Eis in I.
  repeat (apply in_app_or in I; destruct I as [I|I]).
  - destruct (Qlt_b 0 (snd (vsub p' s))); [|destruct I]. eapply hit_h_outline; eauto. left; reflexivity.
  - destruct (Qlt_b 0 (fst (vsub p' s))); [|destruct I]. eapply hit_v_outline; eauto. left; reflexivity.
  - destruct (Qlt_b (fst (vsub p' s)) 0); [|destruct I]. eapply hit_v_outline; eauto. right; reflexivity.
  - destruct (Qlt_b (snd (vsub p' s)) 0); [|destruct I]. eapply hit_h_outline; eauto. right; reflexivity.
Qed.

(* ================= closest ================= *)
Lemma Qabs_cases x : (0 <= x /\ Qabs x == x) \/ (x <= 0 /\ Qabs x == - x).
Proof.
  destruct (Qlt_le_dec x 0) as [H|H].
  - right. split; [lra|]. apply Qabs_neg. lra.
  - left. split; [exact H|]. now apply Qabs_pos.
Qed.

Ltac reflect_all :=
  repeat match goal with
  | H : (_ && _)%bool = true |- _ => apply andb_true_iff in H; destruct H
  | H : (_ && _)%bool = false |- _ => apply andb_false_iff in H; destruct H
  | H : (_ || _)%bool = true |- _ => apply orb_true_iff in H; destruct H
  | H : (_ || _)%bool = false |- _ => apply orb_false_iff in H; destruct H
  | H : Qlt_b _ _ = true |- _ => apply Qlt_b_true in H
  | H : Qlt_b _ _ = false |- _ => apply Qlt_b_false in H
  | H : Qle_bool _ _ = true |- _ => apply Qle_bool_iff in H
  | H : Qle_bool _ _ = false |- _ => apply Qle_bool_false in H
  | H : Qeq_bool _ _ = true |- _ => apply Qeq_bool_iff in H
  | H : Qeq_bool _ _ = false |- _ => apply Qeq_bool_false in H
  end.

Lemma closest_side_spec w h dx dy :
  0 < w -> 0 < h -> ~ (dx == 0 /\ dy == 0) ->
  match closest_side w h dx dy with
  | SRight => 0 < dx /\ dy * w < h * dx /\ - dy * w < h * dx
  | SBottom => 0 < dy /\ h * dx <= dy * w /\ - (h * dx) <= dy * w
  | STop => dy < 0 /\ h * dx <= - dy * w /\ - (h * dx) <= - dy * w
  | SLeft => ~ dx == 0 /\ dy * w <= h * Qabs dx /\ - dy * w <= h * Qabs dx
  end.
Proof.
  intros Hw Hh Hne. unfold closest_side.
  destruct (Qabs_cases dx) as [[Sx Ax]|[Sx Ax]], (Qabs_cases dy) as [[Sy Ay]|[Sy Ay]];
  set (A := Qabs dx) in *; set (B := Qabs dy) in *; clearbody A B.
  all: destruct (Qlt_b 0 dx && Qlt_b (B * w) (h * dx))%bool eqn:C1; [reflect_all; repeat split; nra|].
  all: destruct ((Qlt_b 0 dy && Qle_bool (h * dx) (dy * w) && Qlt_b (- (h * dx)) (dy * w))
          || (Qeq_bool h 0 && Qeq_bool dy 0 && Qlt_b 0 dx))%bool eqn:C2; [reflect_all; repeat split; nra|].
  all: destruct (Qlt_b dy 0 && Qlt_b (h * A) (- dy * w))%bool eqn:C3; [reflect_all; repeat split; nra|].
  all: reflect_all; repeat split; try nra.
Qed.

Lemma veqb_false a b : veqb a b = false -> ~ (fst a - fst b == 0 /\ snd a - snd b == 0).
Proof.
  unfold veqb. intros H [H1 H2]. apply andb_false_iff in H. destruct H as [H|H]; apply Qeq_bool_false in H; apply H; lra.
Qed.

Lemma closest_sound b s : 0 < bw b -> 0 < bh b -> exists r, snap_closest b s = Ok r /\ on_outline b r.
Proof.
  intros Hw Hh. unfold snap_closest.
  destruct (veqb s (center b)) eqn:Ec.
  - eexists; split; [reflexivity|]. right. cbn [fst snd]. unfold half. repeat split; try lra; (left; lra).
  - apply veqb_false in Ec.
    pose proof (closest_side_spec (bw b) (bh b) (fst s - fst (center b)) (snd s - snd (center b)) Hw Hh Ec) as Sp.
    destruct s as [sx sy]. unfold center, half in *. cbn [fst snd] in *.
    set (dx := sx - (bx b + bw b * (1 # 2))) in *. set (dy := sy - (by_ b + bh b * (1 # 2))) in *.
    destruct (closest_side (bw b) (bh b) dx dy).
    + (* right *)
      destruct Sp as (S1 & S2 & S3).
      destruct (li_total (bx b + bw b * (1 # 2), by_ b + bh b * (1 # 2)) (sx, sy) (bx b + bw b, by_ b) (bx b + bw b, by_ b + bh b)) as [r Er].
      { unfold li_denum. cbn [fst snd]. subst dx. intro Z. nra. }
      exists r. split; [exact Er|]. apply li_ok in Er. destruct Er as (_ & E1 & E2). cbn [fst snd] in E1, E2.
      assert (X : fst r == bx b + bw b). { assert (Z : (fst r - (bx b + bw b)) * bh b == 0) by lra. apply Qmult_eq0_l in Z; lra. }
      right. cbn [fst snd]. subst dx dy. repeat split; try nra; (right; exact X).
    + (* bottom *)
      destruct Sp as (S1 & S2 & S3).
      destruct (li_total (bx b + bw b * (1 # 2), by_ b + bh b * (1 # 2)) (sx, sy) (bx b, by_ b + bh b) (bx b + bw b, by_ b + bh b)) as [r Er].
      { unfold li_denum. cbn [fst snd]. subst dy. intro Z. nra. }
      exists r. split; [exact Er|]. apply li_ok in Er. destruct Er as (_ & E1 & E2). cbn [fst snd] in E1, E2.
      assert (Y : snd r == by_ b + bh b). { assert (Z : (snd r - (by_ b + bh b)) * bw b == 0) by lra. apply Qmult_eq0_l in Z; lra. }
      left. cbn [fst snd]. subst dx dy. repeat split; try nra; (right; exact Y).
    + (* top *)
      destruct Sp as (S1 & S2 & S3).
      destruct (li_total (bx b + bw b * (1 # 2), by_ b + bh b * (1 # 2)) (sx, sy) (bx b, by_ b) (bx b + bw b, by_ b)) as [r Er].
      { unfold li_denum. cbn [fst snd]. subst dy. intro Z. nra. }
      exists r. split; [exact Er|]. apply li_ok in Er. destruct Er as (_ & E1 & E2). cbn [fst snd] in E1, E2.
      assert (Y : snd r == by_ b). { assert (Z : (snd r - by_ b) * bw b == 0) by lra. apply Qmult_eq0_l in Z; lra. }
      left. cbn [fst snd]. subst dx dy. repeat split; try nra; (left; exact Y).
    + (* left *)
      destruct Sp as (S1 & S2 & S3).
      destruct (li_total (bx b + bw b * (1 # 2), by_ b + bh b * (1 # 2)) (sx, sy) (bx b, by_ b) (bx b, by_ b + bh b)) as [r Er].
      { unfold li_denum. cbn [fst snd]. subst dx. intro Z. apply S1. nra. }
      exists r. split; [exact Er|]. apply li_ok in Er. destruct Er as (_ & E1 & E2). cbn [fst snd] in E1, E2.
      assert (X : fst r == bx b). { assert (Z : (fst r - bx b) * bh b == 0) by lra. apply Qmult_eq0_l in Z; lra. }
      right. cbn [fst snd].
      destruct (Qabs_cases dx) as [[Sx Ax]|[Sx Ax]]; rewrite Ax in S2, S3; subst dx dy; repeat split; try nra; (left; exact X).
Qed.
(* ================= compatibility of the boolean tests with == ================= *)
Lemma Qlt_b_iff a b a' b' : (a < b <-> a' < b') -> Qlt_b a b = Qlt_b a' b'.
Proof.
  intros H. destruct (Qlt_b a b) eqn:E1, (Qlt_b a' b') eqn:E2; try reflexivity; reflect_all.
  - apply H in E1. lra.
  - apply H in E2. lra.
Qed.
Lemma Qle_bool_iff2 a b a' b' : (a <= b <-> a' <= b') -> Qle_bool a b = Qle_bool a' b'.
Proof.
  intros H. destruct (Qle_bool a b) eqn:E1, (Qle_bool a' b') eqn:E2; try reflexivity; reflect_all.
  - apply H in E1. lra.
  - apply H in E2. lra.
Qed.
Lemma Qeq_bool_iff2 a b a' b' : (a == b <-> a' == b') -> Qeq_bool a b = Qeq_bool a' b'.
Proof.
  intros H. destruct (Qeq_bool a b) eqn:E1, (Qeq_bool a' b') eqn:E2; try reflexivity; reflect_all.
  - apply H in E1. contradiction.
  - apply H in E2. contradiction.
Qed.

Lemma closestaxis_compat d d' : veq d d' -> closestaxis d = closestaxis d'.
Proof.
  intros [H1 H2]. unfold closestaxis.
  rewrite (Qle_bool_iff2 (Qabs (snd d)) (Qabs (fst d)) (Qabs (snd d')) (Qabs (fst d'))) by (rewrite H1, H2; tauto).
  rewrite (Qle_bool_iff2 0 (fst d) 0 (fst d')) by (rewrite H1; tauto).
  rewrite (Qle_bool_iff2 0 (snd d) 0 (snd d')) by (rewrite H2; tauto).
  reflexivity.
Qed.

(* ================= translation equivariance: manhattan, tree ================= *)
Lemma manhattan_shift b p d v :
  res_eq (snap_manhattan (shift_box v b) (vadd p v) d) (shift_res v (snap_manhattan b p d)).
Proof.
  unfold snap_manhattan.
  destruct (closestaxis_cases d) as [E|[E|[E|[E|[E|[E|[E|E]]]]]]]; rewrite E; cbn [fst snd];
    match goal with |- context [Qeq_bool ?a 0] => let w := eval vm_compute in (Qeq_bool a 0) in change (Qeq_bool a 0) with w end;
    cbn [negb];
    try match goal with |- context [Qeq_bool ?a 0] => let w := eval vm_compute in (Qeq_bool a 0) in change (Qeq_bool a 0) with w end;
    cbn [negb];
    match goal with |- context [Qlt_b ?a 0] => let w := eval vm_compute in (Qlt_b a 0) in change (Qlt_b a 0) with w end;
    cbn [b2q shift_box bx by_ bw bh bport vadd fst snd].
  all: repeat match goal with
       | |- context [if Qlt_b ?a ?c then _ else _] => destruct (Qlt_b a c) eqn:?
       | |- context [if bport ?b then _ else _] => destruct (bport b) eqn:?
       end;
    reflect_all; cbn [res_eq shift_res res_map]; unfold veq, vadd, half; cbn [fst snd]; split; lra.
Qed.

Lemma tree_shift b p d v :
  res_eq (snap_tree (shift_box v b) (vadd p v) d) (shift_res v (snap_tree b p d)).
Proof.
  unfold snap_tree, tree_bottom, center.
  cbn [shift_box bx by_ bw bh bport vadd fst snd].
  rewrite (Qeq_bool_iff2 (snd p + snd v) (by_ b + snd v) (snd p) (by_ b)) by (split; intro; lra).
  rewrite (Qlt_b_iff (bx b + fst v + bw b * half) (fst p + fst v) (bx b + bw b * half) (fst p)) by (split; intro; lra).
  destruct (veqb d (0, 0)).
  - destruct (Qlt_b (bx b + bw b * half) (fst p)); cbn; unfold veq; cbn; split; lra.
  - destruct (bport b);
      destruct (Qlt_b (snd d) 0 || Qeq_bool (snd d) 0 && negb (Qeq_bool (snd p) (by_ b)))%bool;
      cbn; unfold veq, half; cbn; split; lra.
Qed.

Lemma veqb_compat a b a' b' : veq a a' -> veq b b' -> veqb a b = veqb a' b'.
Proof.
  intros [A1 A2] [B1 B2]. unfold veqb.
  rewrite (Qeq_bool_iff2 (fst a) (fst b) (fst a') (fst b')) by (rewrite A1, B1; tauto).
  rewrite (Qeq_bool_iff2 (snd a) (snd b) (snd a') (snd b')) by (rewrite A2, B2; tauto).
  reflexivity.
Qed.

Lemma manhattan_compat b p d d' : veq d d' -> snap_manhattan b p d = snap_manhattan b p d'.
Proof. intros H. unfold snap_manhattan. now rewrite (closestaxis_compat d d' H). Qed.

Lemma tree_compat b p d d' : veq d d' -> snap_tree b p d = snap_tree b p d'.
Proof.
  intros H. unfold snap_tree, tree_bottom. destruct H as [H1 H2].
  rewrite (veqb_compat d (0, 0) d' (0, 0)) by (split; cbn; lra || reflexivity).
  rewrite (Qlt_b_iff (snd d) 0 (snd d') 0) by (rewrite H2; tauto).
  rewrite (Qeq_bool_iff2 (snd d) 0 (snd d') 0) by (rewrite H2; tauto).
  reflexivity.
Qed.

Lemma vsub_shift p s v : veq (vsub (vadd p v) (vadd s v)) (vsub p s).
Proof. unfold veq, vsub, vadd; cbn; split; lra. Qed.

Lemma vector_snap_shift_mt st b p s v : st <> Oblique ->
  res_eq (vector_snap st (shift_box v b) (vadd p v) (vadd s v)) (shift_res v (vector_snap st b p s)).
Proof.
  intros Hst. destruct st; [congruence| |]; cbn [vector_snap].
  - rewrite (manhattan_compat _ _ _ _ (vsub_shift p s v)). apply manhattan_shift.
  - rewrite (tree_compat _ _ _ _ (vsub_shift p s v)). apply tree_shift.
Qed.
(* ================= ports ================= *)
Lemma clamp0_pos q : 0 < q -> clamp0 q = q.
Proof. intros H. unfold clamp0. apply Qle_bool_false in H. now rewrite H. Qed.

Lemma on_outline_compat b r r' : veq r r' -> on_outline b r -> on_outline b r'.
Proof.
  intros [H1 H2] [(A & B & C)|(A & B & C)]; [left|right]; repeat split; try lra; destruct C; (left; lra) || (right; lra).
Qed.

(* the rectangle the centre of a port is snapped to has positive extent *)
Definition port_fits (psize size : Q * Q) : Prop :=
  0 < fst psize - fst size + 2 * PORT_OVERHANG /\ 0 < snd psize - snd size + 2 * PORT_OVERHANG.

Lemma port_midbox_pos ppos psize size : port_fits psize size ->
  0 < bw (port_midbox ppos psize size) /\ 0 < bh (port_midbox ppos psize size).
Proof.
  intros [H1 H2]. unfold port_midbox, mkbox, half. cbn [bw bh].
  rewrite !clamp0_pos; lra.
Qed.

Lemma port_on_border_lemma ppos psize pos size : port_fits psize size ->
  exists np, snap_port_to_parent ppos psize pos size = Ok np
             /\ on_outline (port_midbox ppos psize size) (port_mid np size).
Proof.
  intros Hf. destruct (port_midbox_pos ppos psize size Hf) as [Hw Hh].
  destruct (closest_sound (port_midbox ppos psize size) (port_mid pos size) Hw Hh) as (nm & E & O).
  unfold snap_port_to_parent, port_newmid. rewrite E. cbn [res_map]. eexists. split; [reflexivity|].
  eapply on_outline_compat; [|exact O]. unfold veq, port_mid, vadd, vsub, half. cbn [fst snd]. split; lra.
Qed.

(* the mid-box is the parent shrunk by (size/2 - overhang): so the port's own rectangle reaches
   exactly PORT_OVERHANG beyond the parent's border on the side it is attached to *)
Lemma port_midbox_geometry ppos psize size : port_fits psize size ->
  let m := port_midbox ppos psize size in
  bx m == fst ppos + fst size * (1 # 2) - PORT_OVERHANG /\ by_ m == snd ppos + snd size * (1 # 2) - PORT_OVERHANG
  /\ bx m + bw m == fst ppos + fst psize - fst size * (1 # 2) + PORT_OVERHANG
  /\ by_ m + bh m == snd ppos + snd psize - snd size * (1 # 2) + PORT_OVERHANG.
Proof.
  intros [H1 H2]. unfold port_midbox, mkbox, half. cbn [bx by_ bw bh].
  rewrite !clamp0_pos by lra. repeat split; lra.
Qed.

(* ================= factory position calculus ================= *)
Fixpoint place_kids (pos : Q * Q) (l : list node) : list (Q * Q) :=
  match l with [] => [] | k :: r => place pos k ++ place_kids pos r end.
Lemma place_unfold ref off kids : place ref (Node off kids) = vadd ref off :: place_kids (vadd ref off) kids.
Proof.
  cbn [place]. f_equal. induction kids as [|k r IH]; [reflexivity|]. cbn [place_kids]. now rewrite <- IH.
Qed.

Definition shifted_by (d : Q * Q) (a b : Q * Q) : Prop := veq b (vadd a d).

Fixpoint node_ind' (P : node -> Prop)
  (H : forall off kids, Forall P kids -> P (Node off kids)) (n : node) : P n :=
  match n with
  | Node off kids =>
      H off kids ((fix go (l : list node) : Forall P l :=
                     match l with [] => Forall_nil P | k :: r => Forall_cons k (node_ind' P H k) (go r) end) kids)
  end.

Lemma place_ref_shift n : forall ref ref' d, veq ref' (vadd ref d) ->
  Forall2 (shifted_by d) (place ref n) (place ref' n).
Proof.
  induction n as [off kids IH] using node_ind'. intros ref ref' d Hr. rewrite !place_unfold.
  assert (Hp : veq (vadd ref' off) (vadd (vadd ref off) d)).
  { destruct Hr as [H1 H2]. unfold veq, vadd in *. cbn [fst snd] in *. split; lra. }
  constructor; [exact Hp|].
  induction IH as [|k r Hk _ IHr]; cbn [place_kids]; [constructor|].
  apply Forall2_app; [now apply Hk|exact IHr].
Qed.

(* displacing the stored offset of a node displaces the node and everything inside it by d *)
Lemma place_shift_node ref d n : Forall2 (shifted_by d) (place ref n) (place ref (shift_node d n)).
Proof.
  destruct n as [off kids]. cbn [shift_node]. rewrite !place_unfold.
  assert (Hp : veq (vadd ref (vadd off d)) (vadd (vadd ref off) d)).
  { unfold veq, vadd. cbn [fst snd]. split; lra. }
  constructor; [exact Hp|].
  induction kids as [|k r IH]; cbn [place_kids]; [constructor|].
  apply Forall2_app; [|exact IH]. now apply place_ref_shift.
Qed.

Lemma move_locality_lemma before n after d :
  exists moved, place_all (before ++ shift_node d n :: after) = place_all before ++ moved :: place_all after
                /\ Forall2 (shifted_by d) (place (0, 0) n) moved.
Proof.
  exists (place (0, 0) (shift_node d n)). split.
  - unfold place_all. now rewrite map_app.
  - apply place_shift_node.
Qed.

(* translating the whole stored layout: every top-level offset displaced by d *)
Lemma translate_all_lemma tops d :
  Forall2 (Forall2 (shifted_by d)) (place_all tops) (place_all (map (shift_node d) tops)).
Proof.
  unfold place_all. induction tops as [|n r IH]; cbn [map]; constructor; [apply place_shift_node|exact IH].
Qed.
(* ================= oblique: exact guard for totality ================= *)
Lemma hit_h_val xa xb y s p : xa < xb -> ~ snd p - snd s == 0 ->
  exists i, line_intersect (xa, y) (xb, y) s p = Ok i /\ snd i == y
            /\ (fst i - fst s) * (snd p - snd s) == (y - snd s) * (fst p - fst s).
Proof.
  intros Hx Hd. destruct s as [sx sy], p as [px py]. cbn [fst snd] in *.
  destruct (li_total (xa, y) (xb, y) (sx, sy) (px, py)) as [i Ei].
  { unfold li_denum. cbn [fst snd]. intro Z.
    assert (E : (xb - xa) * (py - sy) == 0) by lra.
    destruct (Qmult_integral _ _ E); lra. }
  exists i. split; [exact Ei|]. apply li_ok in Ei. destruct Ei as (_ & E1 & E2). cbn [fst snd] in E1, E2.
  assert (Y : snd i == y). { assert (Z : (snd i - y) * (xb - xa) == 0) by lra. apply Qmult_eq0_l in Z; lra. }
  split; [exact Y|]. rewrite <- Y. lra.
Qed.
Lemma hit_v_val x ya yb s p : ya < yb -> ~ fst p - fst s == 0 ->
  exists i, line_intersect (x, ya) (x, yb) s p = Ok i /\ fst i == x
            /\ (snd i - snd s) * (fst p - fst s) == (x - fst s) * (snd p - snd s).
Proof.
  intros Hy Hd. destruct s as [sx sy], p as [px py]. cbn [fst snd] in *.
  destruct (li_total (x, ya) (x, yb) (sx, sy) (px, py)) as [i Ei].
  { unfold li_denum. cbn [fst snd]. intro Z.
    assert (E : (yb - ya) * (px - sx) == 0) by lra.
    destruct (Qmult_integral _ _ E); lra. }
  exists i. split; [exact Ei|]. apply li_ok in Ei. destruct Ei as (_ & E1 & E2). cbn [fst snd] in E1, E2.
  assert (X : fst i == x). { assert (Z : (fst i - x) * (yb - ya) == 0) by lra. apply Qmult_eq0_l in Z; lra. }
  split; [exact X|]. rewrite <- X. lra.
Qed.

Lemma sign_pos x : 0 < x -> Qlt_b 0 x = true /\ Qlt_b x 0 = false /\ Qeq_bool x 0 = false.
Proof. intros H. repeat split; [apply Qlt_b_true|apply Qlt_b_false|apply Qeq_bool_false]; lra. Qed.
Lemma sign_neg x : x < 0 -> Qlt_b 0 x = false /\ Qlt_b x 0 = true /\ Qeq_bool x 0 = false.
Proof. intros H. repeat split; [apply Qlt_b_false|apply Qlt_b_true|apply Qeq_bool_false]; lra. Qed.
Lemma sign_zero x : x == 0 -> Qlt_b 0 x = false /\ Qlt_b x 0 = false /\ Qeq_bool x 0 = true.
Proof. intros H. repeat split; [apply Qlt_b_false|apply Qlt_b_false|apply Qeq_bool_iff]; lra. Qed.

Definition oblique_target (b : box) (p : Q * Q) : Q * Q := if inside b p then p else center b.
(* cross product of the ray direction with (corner - source), for the corner the ray is heading to *)
Definition corner_cross (b : box) (p' s : Q * Q) : Q :=
  let dx := fst p' - fst s in let dy := snd p' - snd s in
  let cx := if Qlt_b 0 dx then bx b else bx b + bw b in
  let cy := if Qlt_b 0 dy then by_ b else by_ b + bh b in
  dx * (cy - snd s) - dy * (cx - fst s).
Definition oblique_ok (b : box) (p s : Q * Q) : bool :=
  let p' := oblique_target b p in
  let dx := fst p' - fst s in let dy := snd p' - snd s in
  negb (Qeq_bool dx 0 && Qeq_bool dy 0)
  && (Qeq_bool dx 0 || Qeq_bool dy 0 || negb (Qeq_bool (corner_cross b p' s) 0)).

Lemma target_inside b p : 0 < bw b -> 0 < bh b ->
  bx b <= fst (oblique_target b p) /\ fst (oblique_target b p) <= bx b + bw b
  /\ by_ b <= snd (oblique_target b p) /\ snd (oblique_target b p) <= by_ b + bh b.
Proof.
  intros Hw Hh. unfold oblique_target. destruct (inside b p) eqn:E.
  - unfold inside in E. reflect_all. tauto.
  - unfold center, half. cbn [fst snd]. repeat split; lra.
Qed.

Ltac range_bool H := (* decide a border-range test *)
  match goal with
  | |- context [(Qle_bool ?a ?x && Qle_bool ?x' ?c)%bool] => destruct (Qle_bool a x && Qle_bool x' c)%bool eqn:H
  end.

Lemma oblique_total b p s : 0 < bw b -> 0 < bh b -> oblique_ok b p s = true ->
  exists r, snap_oblique b p s = Ok r.
Proof.
  intros Hw Hh Hok. unfold snap_oblique. fold (oblique_target b p).
  unfold oblique_ok, corner_cross in Hok.
  destruct (target_inside b p Hw Hh) as (I1 & I2 & I3 & I4).
  destruct (oblique_target b p) as [px py], s as [sx sy]. cbn [vsub fst snd] in *.
  set (dx := px - sx) in *. set (dy := py - sy) in *.
  destruct (Q_dec dx 0) as [[Hx|Hx]|Hx]; [destruct (sign_neg _ Hx) as (A1 & A2 & A3)|destruct (sign_pos _ Hx) as (A1 & A2 & A3)|destruct (sign_zero _ Hx) as (A1 & A2 & A3)];
  (destruct (Q_dec dy 0) as [[Hy|Hy]|Hy]; [destruct (sign_neg _ Hy) as (B1 & B2 & B3)|destruct (sign_pos _ Hy) as (B1 & B2 & B3)|destruct (sign_zero _ Hy) as (B1 & B2 & B3)]);
  rewrite ?A1, ?A2, ?A3, ?B1, ?B2, ?B3 in *; cbn [andb orb negb app] in *; try discriminate;
  rewrite ?app_nil_r; unfold hit_h, hit_v.
  - (* dx<0, dy<0 : right, bottom *)
    apply negb_true_iff, Qeq_bool_false in Hok.
    destruct (hit_v_val (bx b + bw b) (by_ b) (by_ b + bh b) (sx, sy) (px, py)) as (iv & Ev & Xv & Qv); [lra|cbn; fold dx; lra|].
    destruct (hit_h_val (bx b) (bx b + bw b) (by_ b + bh b) (sx, sy) (px, py)) as (ih & Eh & Yh & Qh); [lra|cbn; fold dy; lra|].
    rewrite Ev, Eh. cbn [fst snd] in *. fold dx dy in Qv, Qh.
    range_bool R1; range_bool R2; reflect_all; cbn [app]; eauto; exfalso; subst dx dy; nra.
  - (* dx<0, dy>0 : top, right *)
    apply negb_true_iff, Qeq_bool_false in Hok.
    destruct (hit_v_val (bx b + bw b) (by_ b) (by_ b + bh b) (sx, sy) (px, py)) as (iv & Ev & Xv & Qv); [lra|cbn; fold dx; lra|].
    destruct (hit_h_val (bx b) (bx b + bw b) (by_ b) (sx, sy) (px, py)) as (ih & Eh & Yh & Qh); [lra|cbn; fold dy; lra|].
    rewrite Ev, Eh. cbn [fst snd] in *. fold dx dy in Qv, Qh.
    range_bool R1; range_bool R2; reflect_all; cbn [app]; eauto; exfalso; subst dx dy; nra.
  - (* dx<0, dy=0 : right *)
    destruct (hit_v_val (bx b + bw b) (by_ b) (by_ b + bh b) (sx, sy) (px, py)) as (iv & Ev & Xv & Qv); [lra|cbn; fold dx; lra|].
    rewrite Ev. cbn [fst snd] in *. fold dx dy in Qv.
    range_bool R1; reflect_all; eauto; exfalso; subst dx dy; nra.
  - (* dx>0, dy<0 : left, bottom *)
    apply negb_true_iff, Qeq_bool_false in Hok.
    destruct (hit_v_val (bx b) (by_ b) (by_ b + bh b) (sx, sy) (px, py)) as (iv & Ev & Xv & Qv); [lra|cbn; fold dx; lra|].
    destruct (hit_h_val (bx b) (bx b + bw b) (by_ b + bh b) (sx, sy) (px, py)) as (ih & Eh & Yh & Qh); [lra|cbn; fold dy; lra|].
    rewrite Ev, Eh. cbn [fst snd] in *. fold dx dy in Qv, Qh.
    range_bool R1; range_bool R2; reflect_all; cbn [app]; eauto; exfalso; subst dx dy; nra.
  - (* dx>0, dy>0 : top, left *)
    apply negb_true_iff, Qeq_bool_false in Hok.
    destruct (hit_v_val (bx b) (by_ b) (by_ b + bh b) (sx, sy) (px, py)) as (iv & Ev & Xv & Qv); [lra|cbn; fold dx; lra|].
    destruct (hit_h_val (bx b) (bx b + bw b) (by_ b) (sx, sy) (px, py)) as (ih & Eh & Yh & Qh); [lra|cbn; fold dy; lra|].
    rewrite Ev, Eh. cbn [fst snd] in *. fold dx dy in Qv, Qh.
    range_bool R1; range_bool R2; reflect_all; cbn [app]; eauto; exfalso; subst dx dy; nra.
  - (* dx>0, dy=0 : left *)
    destruct (hit_v_val (bx b) (by_ b) (by_ b + bh b) (sx, sy) (px, py)) as (iv & Ev & Xv & Qv); [lra|cbn; fold dx; lra|].
    rewrite Ev. cbn [fst snd] in *. fold dx dy in Qv.
    range_bool R1; reflect_all; eauto; exfalso; subst dx dy; nra.
  - (* dx=0, dy<0 : bottom *)
    destruct (hit_h_val (bx b) (bx b + bw b) (by_ b + bh b) (sx, sy) (px, py)) as (ih & Eh & Yh & Qh); [lra|cbn; fold dy; lra|].
    rewrite Eh. cbn [fst snd] in *. fold dx dy in Qh.
    range_bool R1; reflect_all; eauto; exfalso; subst dx dy; nra.
  - (* dx=0, dy>0 : top *)
    destruct (hit_h_val (bx b) (bx b + bw b) (by_ b) (sx, sy) (px, py)) as (ih & Eh & Yh & Qh); [lra|cbn; fold dy; lra|].
    rewrite Eh. cbn [fst snd] in *. fold dx dy in Qh.
    range_bool R1; reflect_all; eauto; exfalso; subst dx dy; nra.
Qed.

Lemma oblique_crash b p s : 0 < bw b -> 0 < bh b -> oblique_ok b p s = false ->
  snap_oblique b p s = Err E_AssertionError.
Proof.
  intros Hw Hh Hok. unfold snap_oblique. fold (oblique_target b p).
  unfold oblique_ok, corner_cross in Hok.
  destruct (target_inside b p Hw Hh) as (I1 & I2 & I3 & I4).
  destruct (oblique_target b p) as [px py], s as [sx sy]. cbn [vsub fst snd] in *.
  set (dx := px - sx) in *. set (dy := py - sy) in *.
  destruct (Q_dec dx 0) as [[Hx|Hx]|Hx]; [destruct (sign_neg _ Hx) as (A1 & A2 & A3)|destruct (sign_pos _ Hx) as (A1 & A2 & A3)|destruct (sign_zero _ Hx) as (A1 & A2 & A3)];
  (destruct (Q_dec dy 0) as [[Hy|Hy]|Hy]; [destruct (sign_neg _ Hy) as (B1 & B2 & B3)|destruct (sign_pos _ Hy) as (B1 & B2 & B3)|destruct (sign_zero _ Hy) as (B1 & B2 & B3)]);
  rewrite ?A1, ?A2, ?A3, ?B1, ?B2, ?B3 in *; cbn [andb orb negb app] in *; try discriminate; try reflexivity;
  rewrite ?app_nil_r; unfold hit_h, hit_v; apply negb_false_iff, Qeq_bool_iff in Hok.
  - destruct (hit_v_val (bx b + bw b) (by_ b) (by_ b + bh b) (sx, sy) (px, py)) as (iv & Ev & Xv & Qv); [lra|cbn; fold dx; lra|].
    destruct (hit_h_val (bx b) (bx b + bw b) (by_ b + bh b) (sx, sy) (px, py)) as (ih & Eh & Yh & Qh); [lra|cbn; fold dy; lra|].
    rewrite Ev, Eh. cbn [fst snd] in *. fold dx dy in Qv, Qh.
    range_bool R1; range_bool R2; reflect_all; cbn [app]; try reflexivity; exfalso; subst dx dy; nra.
  - destruct (hit_v_val (bx b + bw b) (by_ b) (by_ b + bh b) (sx, sy) (px, py)) as (iv & Ev & Xv & Qv); [lra|cbn; fold dx; lra|].
    destruct (hit_h_val (bx b) (bx b + bw b) (by_ b) (sx, sy) (px, py)) as (ih & Eh & Yh & Qh); [lra|cbn; fold dy; lra|].
    rewrite Ev, Eh. cbn [fst snd] in *. fold dx dy in Qv, Qh.
    range_bool R1; range_bool R2; reflect_all; cbn [app]; try reflexivity; exfalso; subst dx dy; nra.
  - destruct (hit_v_val (bx b) (by_ b) (by_ b + bh b) (sx, sy) (px, py)) as (iv & Ev & Xv & Qv); [lra|cbn; fold dx; lra|].
    destruct (hit_h_val (bx b) (bx b + bw b) (by_ b + bh b) (sx, sy) (px, py)) as (ih & Eh & Yh & Qh); [lra|cbn; fold dy; lra|].
    rewrite Ev, Eh. cbn [fst snd] in *. fold dx dy in Qv, Qh.
    range_bool R1; range_bool R2; reflect_all; cbn [app]; try reflexivity; exfalso; subst dx dy; nra.
  - destruct (hit_v_val (bx b) (by_ b) (by_ b + bh b) (sx, sy) (px, py)) as (iv & Ev & Xv & Qv); [lra|cbn; fold dx; lra|].
    destruct (hit_h_val (bx b) (bx b + bw b) (by_ b) (sx, sy) (px, py)) as (ih & Eh & Yh & Qh); [lra|cbn; fold dy; lra|].
    rewrite Ev, Eh. cbn [fst snd] in *. fold dx dy in Qv, Qh.
    range_bool R1; range_bool R2; reflect_all; cbn [app]; try reflexivity; exfalso; subst dx dy; nra.
Qed.

(* exact characterisation of the crash set of the oblique variant (boxes of positive extent) *)
Lemma oblique_exact b p s : 0 < bw b -> 0 < bh b ->
  (oblique_ok b p s = true -> exists r, snap_oblique b p s = Ok r /\ on_outline b r)
  /\ (oblique_ok b p s = false -> snap_oblique b p s = Err E_AssertionError).
Proof.
  intros Hw Hh. split.
  - intros H. destruct (oblique_total b p s Hw Hh H) as [r E]. exists r. split; [exact E|]. eapply oblique_sound; eauto.
  - now apply oblique_crash.
Qed.

Example oblique_ok_corner : oblique_ok (mkbox 0 0 10 10 false) (5, 5) (-5 # 1, -5 # 1) = false.
Proof. reflexivity. Qed.
Example oblique_ok_plain : oblique_ok (mkbox 0 0 10 10 false) (5, 5) (-5 # 1, 2) = true.
Proof. reflexivity. Qed.
(* ================= translation equivariance: line_intersect, closest, oblique ================= *)
Lemma li_shift p1 p2 p3 p4 q1 q2 q3 q4 v :
  veq q1 (vadd p1 v) -> veq q2 (vadd p2 v) -> veq q3 (vadd p3 v) -> veq q4 (vadd p4 v) ->
  res_eq (line_intersect q1 q2 q3 q4) (shift_res v (line_intersect p1 p2 p3 p4)).
Proof.
  destruct p1 as [x1 y1], p2 as [x2 y2], p3 as [x3 y3], p4 as [x4 y4],
           q1 as [a1 b1], q2 as [a2 b2], q3 as [a3 b3], q4 as [a4 b4], v as [vx vy].
  unfold veq, vadd. cbn [fst snd]. intros [A1 B1] [A2 B2] [A3 B3] [A4 B4].
  unfold line_intersect.
  assert (D : (a1 - a2) * (b3 - b4) - (a3 - a4) * (b1 - b2) == (x1 - x2) * (y3 - y4) - (x3 - x4) * (y1 - y2)).
  { rewrite A1, A2, A3, A4, B1, B2, B3, B4. ring. }
  rewrite (Qeq_bool_iff2 _ 0 ((x1 - x2) * (y3 - y4) - (x3 - x4) * (y1 - y2)) 0) by (rewrite D; reflexivity).
  destruct (Qeq_bool ((x1 - x2) * (y3 - y4) - (x3 - x4) * (y1 - y2)) 0) eqn:E; cbn [shift_res res_map res_eq]; [reflexivity|].
  apply Qeq_bool_false in E.
  assert (E' : ~ (a1 - a2) * (b3 - b4) - (a3 - a4) * (b1 - b2) == 0) by (rewrite D; exact E).
  unfold veq, vadd. cbn [fst snd].
  split.
  - rewrite A1, A2, A3, A4, B1, B2, B3, B4 in *. field; try split; assumption.
  - rewrite A1, A2, A3, A4, B1, B2, B3, B4 in *. field; try split; assumption.
Qed.

Lemma closest_side_compat w h dx dy dx' dy' : dx == dx' -> dy == dy' ->
  closest_side w h dx dy = closest_side w h dx' dy'.
Proof.
  intros H1 H2. unfold closest_side.
  rewrite (Qlt_b_iff 0 dx 0 dx') by (rewrite H1; reflexivity).
  rewrite (Qlt_b_iff (Qabs dy * w) (h * dx) (Qabs dy' * w) (h * dx')) by (rewrite H1, H2; reflexivity).
  rewrite (Qlt_b_iff 0 dy 0 dy') by (rewrite H2; reflexivity).
  rewrite (Qle_bool_iff2 (h * dx) (dy * w) (h * dx') (dy' * w)) by (rewrite H1, H2; reflexivity).
  rewrite (Qlt_b_iff (- (h * dx)) (dy * w) (- (h * dx')) (dy' * w)) by (rewrite H1, H2; reflexivity).
  rewrite (Qeq_bool_iff2 dy 0 dy' 0) by (rewrite H2; reflexivity).
  rewrite (Qlt_b_iff dy 0 dy' 0) by (rewrite H2; reflexivity).
  rewrite (Qlt_b_iff (h * Qabs dx) (- dy * w) (h * Qabs dx') (- dy' * w)) by (rewrite H1, H2; reflexivity).
  reflexivity.
Qed.

Ltac veq_lra := unfold veq, vadd, vsub, half; cbn [fst snd]; split; lra.

Lemma closest_shift b s v :
  res_eq (snap_closest (shift_box v b) (vadd s v)) (shift_res v (snap_closest b s)).
Proof.
  unfold snap_closest, center, veqb. cbn [shift_box bx by_ bw bh bport vadd fst snd].
  rewrite (Qeq_bool_iff2 (fst s + fst v) (bx b + fst v + bw b * half) (fst s) (bx b + bw b * half)) by (split; intro; lra).
  rewrite (Qeq_bool_iff2 (snd s + snd v) (by_ b + snd v + bh b * half) (snd s) (by_ b + bh b * half)) by (split; intro; lra).
  destruct (Qeq_bool (fst s) (bx b + bw b * half) && Qeq_bool (snd s) (by_ b + bh b * half))%bool.
  - cbn [shift_res res_map res_eq]. veq_lra.
  - rewrite (closest_side_compat (bw b) (bh b) _ _ (fst s - (bx b + bw b * half)) (snd s - (by_ b + bh b * half))) by lra.
    destruct (closest_side (bw b) (bh b) (fst s - (bx b + bw b * half)) (snd s - (by_ b + bh b * half)));
      apply li_shift; veq_lra.
Qed.

(* lists of candidate intersections, related element-wise by the translation *)
Definition shifted_list (v : Q * Q) (l' l : list (Q * Q)) : Prop := Forall2 (fun a' a => veq a' (vadd a v)) l' l.

Lemma hit_h_shift p1 p2 s p q1 q2 qs qp v :
  veq q1 (vadd p1 v) -> veq q2 (vadd p2 v) -> veq qs (vadd s v) -> veq qp (vadd p v) ->
  shifted_list v (hit_h q1 q2 qs qp) (hit_h p1 p2 s p).
Proof.
  intros H1 H2 H3 H4. unfold hit_h, shifted_list.
  pose proof (li_shift p1 p2 s p q1 q2 qs qp v H1 H2 H3 H4) as L.
  destruct (line_intersect q1 q2 qs qp) as [i'|], (line_intersect p1 p2 s p) as [i|]; cbn in L; try contradiction; [|constructor].
  destruct H1 as [A1 _], H2 as [A2 _], L as [L1 L2]. cbn [vadd fst snd] in *.
  rewrite (Qle_bool_iff2 (fst q1) (fst i') (fst p1) (fst i)) by (split; intro; lra).
  rewrite (Qle_bool_iff2 (fst i') (fst q2) (fst i) (fst p2)) by (split; intro; lra).
  destruct (Qle_bool (fst p1) (fst i) && Qle_bool (fst i) (fst p2))%bool; repeat constructor; cbn; lra.
Qed.
Lemma hit_v_shift p1 p2 s p q1 q2 qs qp v :
  veq q1 (vadd p1 v) -> veq q2 (vadd p2 v) -> veq qs (vadd s v) -> veq qp (vadd p v) ->
  shifted_list v (hit_v q1 q2 qs qp) (hit_v p1 p2 s p).
Proof.
  intros H1 H2 H3 H4. unfold hit_v, shifted_list.
  pose proof (li_shift p1 p2 s p q1 q2 qs qp v H1 H2 H3 H4) as L.
  destruct (line_intersect q1 q2 qs qp) as [i'|], (line_intersect p1 p2 s p) as [i|]; cbn in L; try contradiction; [|constructor].
  destruct H1 as [_ A1], H2 as [_ A2], L as [L1 L2]. cbn [vadd fst snd] in *.
  rewrite (Qle_bool_iff2 (snd q1) (snd i') (snd p1) (snd i)) by (split; intro; lra).
  rewrite (Qle_bool_iff2 (snd i') (snd q2) (snd i) (snd p2)) by (split; intro; lra).
  destruct (Qle_bool (snd p1) (snd i) && Qle_bool (snd i) (snd p2))%bool; repeat constructor; cbn; lra.
Qed.

Lemma oblique_shift b p s v :
  res_eq (snap_oblique (shift_box v b) (vadd p v) (vadd s v)) (shift_res v (snap_oblique b p s)).
Proof.
  unfold snap_oblique.
  assert (Hin : inside (shift_box v b) (vadd p v) = inside b p).
  { unfold inside. cbn [shift_box bx by_ bw bh vadd fst snd].
    rewrite (Qle_bool_iff2 (bx b + fst v) (fst p + fst v) (bx b) (fst p)) by (split; intro; lra).
    rewrite (Qle_bool_iff2 (fst p + fst v) (bx b + fst v + bw b) (fst p) (bx b + bw b)) by (split; intro; lra).
    rewrite (Qle_bool_iff2 (by_ b + snd v) (snd p + snd v) (by_ b) (snd p)) by (split; intro; lra).
    rewrite (Qle_bool_iff2 (snd p + snd v) (by_ b + snd v + bh b) (snd p) (by_ b + bh b)) by (split; intro; lra).
    reflexivity. }
  rewrite Hin.
  set (p' := if inside b p then p else center b).
  set (q' := if inside b p then vadd p v else center (shift_box v b)).
  assert (Hq : veq q' (vadd p' v)).
  { subst p' q'. destruct (inside b p); [veq_lra|]. unfold center. cbn [shift_box bx by_ bw bh]. veq_lra. }
  destruct Hq as [Q1 Q2]. cbn [vadd fst snd] in Q1, Q2.
  cbn [vsub vadd fst snd shift_box bx by_ bw bh].
  rewrite (Qeq_bool_iff2 (fst q' - (fst s + fst v)) 0 (fst p' - fst s) 0) by (split; intro; lra).
  rewrite (Qeq_bool_iff2 (snd q' - (snd s + snd v)) 0 (snd p' - snd s) 0) by (split; intro; lra).
  destruct (Qeq_bool (fst p' - fst s) 0 && Qeq_bool (snd p' - snd s) 0)%bool; [reflexivity|].
  rewrite (Qlt_b_iff 0 (snd q' - (snd s + snd v)) 0 (snd p' - snd s)) by (split; intro; lra).
  rewrite (Qlt_b_iff 0 (fst q' - (fst s + fst v)) 0 (fst p' - fst s)) by (split; intro; lra).
  rewrite (Qlt_b_iff (fst q' - (fst s + fst v)) 0 (fst p' - fst s) 0) by (split; intro; lra).
  rewrite (Qlt_b_iff (snd q' - (snd s + snd v)) 0 (snd p' - snd s) 0) by (split; intro; lra).
  match goal with |- res_eq (match ?l' with _ => _ end) (shift_res v (match ?l with _ => _ end)) =>
    assert (SL : shifted_list v l' l) end.
  { assert (Vs : veq (fst s + fst v, snd s + snd v) (vadd s v)) by veq_lra.
    assert (Vp : veq q' (vadd p' v)) by (unfold veq, vadd; cbn [fst snd]; split; lra).
    repeat apply Forall2_app.
    - destruct (Qlt_b 0 (snd p' - snd s)); [|constructor]. apply hit_h_shift; try assumption; veq_lra.
    - destruct (Qlt_b 0 (fst p' - fst s)); [|constructor]. apply hit_v_shift; try assumption; veq_lra.
    - destruct (Qlt_b (fst p' - fst s) 0); [|constructor]. apply hit_v_shift; try assumption; veq_lra.
    - destruct (Qlt_b (snd p' - snd s) 0); [|constructor]. apply hit_h_shift; try assumption; veq_lra. }
  inversion SL as [|a' a l' l Ha Hl]; [reflexivity|]. inversion Hl; [|reflexivity]. exact Ha.
Qed.

Lemma vector_snap_shift st b p s v :
  res_eq (vector_snap st (shift_box v b) (vadd p v) (vadd s v)) (shift_res v (vector_snap st b p s)).
Proof.
  destruct st; [|apply vector_snap_shift_mt; discriminate|apply vector_snap_shift_mt; discriminate].
  cbn [vector_snap]. unfold veqb. cbn [vadd fst snd].
  rewrite (Qeq_bool_iff2 (fst p + fst v) (fst s + fst v) (fst p) (fst s)) by (split; intro; lra).
  rewrite (Qeq_bool_iff2 (snd p + snd v) (snd s + snd v) (snd p) (snd s)) by (split; intro; lra).
  destruct (Qeq_bool (fst p) (fst s) && Qeq_bool (snd p) (snd s))%bool; [apply closest_shift|apply oblique_shift].
Qed.
