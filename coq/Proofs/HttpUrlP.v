From Coq Require Import ZArith NArith List Bool Lia.
Import ListNotations.
From V Require Import Model.Val Model.Quote Model.HttpUrl Proofs.QuoteP.
Open Scope N_scope.

Definition bytes_lt (s : str) : Prop := Forall (fun b => b < 256) s.
Definition comps_ok (k : comps) : Prop := bytes_lt (c_full k) /\ bytes_lt (c_dir k) /\ bytes_lt (c_name k) /\ bytes_lt (c_ext k).

Lemma count_app c a b : count c (a ++ b) = (count c a + count c b)%nat.
Proof. unfold count. now rewrite filter_app, app_length. Qed.
Lemma count_zero_iff c s : count c s = O <-> ~ In c s.
Proof.
  unfold count. induction s as [|x s IH]; cbn; [tauto|]. destruct (c =? x) eqn:E.
  - apply N.eqb_eq in E. subst. cbn. split; [discriminate|]. intro H. exfalso. apply H. now left.
  - rewrite IH. split; [intros H [->|H']; [now rewrite N.eqb_refl in E|auto]|tauto].
Qed.

(* a structuring character that is not listed safe never occurs in a quoted component *)
Lemma quote_no_char safe bs c : bytes_lt bs -> memN c safe = false ->
  (c = 63 \/ c = 35 \/ c = 32 \/ c = 92) -> count c (quote safe bs) = O.
Proof.
  intros Hb Hs Hc. apply count_zero_iff. intro Hin.
  destruct (quote_no_structure safe bs c Hb Hin Hs) as (A & B & C & E0 & D). destruct Hc as [-> | [-> | [-> | ->]]]; congruence.
Qed.

Lemma replacement_no_char k d rep c : comps_ok k -> replacement k d = Some rep ->
  (c = 63 \/ c = 35 \/ c = 32 \/ c = 92) -> count c rep = O.
Proof.
  intros (H1 & H2 & H3 & H4) Hr Hc. unfold replacement in Hr.
  assert (Hm : memN c [47] = false) by (destruct Hc as [-> | [-> | [-> | ->]]]; reflexivity).
  repeat match type of Hr with
  | (if ?b then _ else _) = _ => destruct b
  end; inversion Hr; subst;
  try (apply quote_no_char; [assumption|first [exact Hm|reflexivity]|exact Hc]).
  destruct Hc as [-> | [-> | [-> | ->]]]; reflexivity.
Qed.

Lemma url_structure_n k : comps_ok k -> forall n tpl u c, (length tpl <= n)%nat ->
  subst k tpl = Some u -> (c = 63 \/ c = 35 \/ c = 32 \/ c = 92) -> count c u = count c tpl.
Proof.
  intros Hk. induction n as [|n IH]; intros tpl u c Hlen Hs Hc.
  - destruct tpl; [inversion Hs; reflexivity|cbn in Hlen; lia].
  - destruct tpl as [|x r]; [inversion Hs; reflexivity|]. cbn [length] in Hlen.
    cbn [subst] in Hs. assert (Hxc : (c =? PCT) = false) by (destruct Hc as [-> | [-> | [-> | ->]]]; reflexivity).
    destruct (x =? PCT) eqn:Ex.
    + apply N.eqb_eq in Ex. subst x. destruct r as [|d r'].
      * inversion Hs; subst. reflexivity.
      * cbn [length] in Hlen. destruct ((d =? PCT) || is_lower d) eqn:Ed.
        -- destruct (replacement k d) as [rep|] eqn:Er; [|discriminate]. destruct (subst k r') as [rest|] eqn:Es; [|discriminate].
           inversion Hs; subst. rewrite count_app, (replacement_no_char k d rep c Hk Er Hc), (IH r' rest c ltac:(lia) Es Hc).
           unfold count. cbn [filter]. rewrite Hxc.
           assert (Hd : (c =? d) = false).
           { apply orb_true_iff in Ed as [Ed|Ed]; [apply N.eqb_eq in Ed; subst; exact Hxc|].
             unfold is_lower in Ed. apply andb_true_iff in Ed as [E1 E2]. apply N.leb_le in E1, E2.
             destruct Hc as [-> | [-> | [-> | ->]]]; apply N.eqb_neq; lia. }
           now rewrite Hd.
        -- destruct (subst k (d :: r')) as [rest|] eqn:Es; [|discriminate]. cbn in Hs. inversion Hs; subst.
           unfold count in *. cbn [filter]. rewrite Hxc. apply (IH (d :: r') rest c ltac:(cbn [length]; lia) Es Hc).
    + destruct (subst k r) as [rest|] eqn:Es; [|discriminate]. cbn in Hs. inversion Hs; subst.
      unfold count in *. cbn [filter]. destruct (c =? x); cbn [length]; [f_equal|]; apply (IH r rest c ltac:(lia) Es Hc).
Qed.

(* the requested URL has exactly the query / fragment structure of the configured template: the file name
   can add neither a '?', a '#', a space nor a backslash — whatever the name is *)
Theorem url_structure_preserved k tpl u c : comps_ok k ->
  subst k tpl = Some u -> (c = 63 \/ c = 35 \/ c = 32 \/ c = 92) -> count c u = count c tpl.
Proof. intros Hk. apply (url_structure_n k Hk (length tpl)). lia. Qed.
