(* T4, stage B: the reader [read_doc] / [read_elem_t] of Model/XmlRead.v inverts the writer's layout on
   trees whose elements are attribute-only with element children or leaves with text, with
   comments around the root; for every line length, indent depth and start column. *)
From Coq Require Import ZArith NArith List Bool Lia.
Import ListNotations.
From V Require Import Model.Val Model.XmlTree Gen.ExsConsts Model.SerExs Model.XmlRead Proofs.SerExsP Proofs.XmlReadP.
Open Scope N_scope.

(* ================================================================== 1. character data *)
(* ---- reference decoding distributes over concatenation ---- *)
Definition app_opt (o : str) (r : option str) : option str :=
  match r with Some o2 => Some (o ++ o2) | None => None end.

Lemma unesc_app s1 : forall st o1 s2, unesc s1 st = Some o1 -> unesc (s1 ++ s2) st = app_opt o1 (unesc s2 None).
Proof.
  induction s1 as [|c s1 IH]; intros st o1 s2 H.
  - destruct st; cbn in H; [discriminate|]. inversion H; subst. cbn. now destruct (unesc s2 None).
  - cbn [app unesc] in *. destruct st as [acc|].
    + destruct (c =? SEMI).
      * destruct (decode_ref (rev acc)) as [ch|]; [|discriminate].
        destruct (unesc s1 None) as [o|] eqn:E; [|discriminate]. inversion H; subst.
        rewrite (IH None o s2 E). cbn. now destruct (unesc s2 None).
      * now apply IH.
    + destruct (c =? AMP).
      * now apply IH.
      * destruct (unesc s1 None) as [o|] eqn:E; [|discriminate]. inversion H; subst.
        rewrite (IH None o s2 E). cbn. now destruct (unesc s2 None).
Qed.

Lemma unescape_app s1 s2 o1 o2 : unescape s1 = Some o1 -> unescape s2 = Some o2 -> unescape (s1 ++ s2) = Some (o1 ++ o2).
Proof. unfold unescape. intros H1 H2. rewrite (unesc_app s1 None o1 s2 H1), H2. reflexivity. Qed.

(* ---- cdata_fix, equationally ---- *)
Definition starts_dd (x : str) : bool :=
  match x with c1 :: c2 :: _ => (c1 =? 93) && (c2 =? GT) | _ => false end.
Definition GT_REF : str := [AMP; 103; 116; SEMI].

Lemma cdata_fix_other c x : (c =? 93) = false -> cdata_fix (c :: x) = c :: cdata_fix x.
Proof. intro H. cbn [cdata_fix]. now rewrite H. Qed.
Lemma cdata_fix_93 x :
  cdata_fix (93 :: x) = if starts_dd x then 93 :: 93 :: GT_REF ++ cdata_fix (skipn 2 x) else 93 :: cdata_fix x.
Proof.
  cbn [cdata_fix]. change (93 =? 93) with true. cbn iota.
  destruct x as [|c1 [|c2 x']]; cbn [starts_dd skipn]; reflexivity.
Qed.
Lemma cdata_fix_app_no93 a b : ~ In 93 a -> cdata_fix (a ++ b) = a ++ cdata_fix b.
Proof.
  induction a as [|c a IH]; intro H; [reflexivity|]. cbn [app].
  rewrite cdata_fix_other.
  - f_equal. apply IH. intro; apply H; now right.
  - destruct (N.eqb_spec c 93) as [->|]; [exfalso; apply H; now left | reflexivity].
Qed.
Lemma cdata_fix_id s : ~ In GT s -> cdata_fix s = s.
Proof.
  induction s as [|c s IH]; intro H; [reflexivity|].
  assert (Hs : cdata_fix s = s) by (apply IH; intro; apply H; now right).
  destruct (c =? 93) eqn:E; [|now rewrite cdata_fix_other, Hs].
  apply N.eqb_eq in E. subst c. rewrite cdata_fix_93.
  destruct s as [|c1 [|c2 s']]; cbn [starts_dd]; try (now rewrite Hs).
  destruct (N.eqb_spec c2 GT) as [->|]; [exfalso; apply H; right; right; now left|].
  rewrite andb_false_r. now rewrite Hs.
Qed.

(* ---- escaped text: shape ---- *)
Lemma escape_cons cls c s : escape cls (c :: s) = (if in_ranges c cls then escape_char c else [c]) ++ escape cls s.
Proof. reflexivity. Qed.
Lemma escape_char_head c : exists x, escape_char c = AMP :: x.
Proof. unfold escape_char. destruct ((ORD_LOW <=? c) && (c <=? ORD_HIGH)); eexists; reflexivity. Qed.

Lemma escape_char_no93 m : in_ranges m TEXT_CLASS = true -> ~ In 93 (escape_char m).
Proof.
  intros Hm. unfold escape_char. destruct ((ORD_LOW <=? m) && (m <=? ORD_HIGH)) eqn:E.
  - assert (F : forallb (fun m => negb ((ORD_LOW <=? m) && (m <=? ORD_HIGH)) ||
                 forallb (fun c => negb (c =? 93))
                   (AMP :: match assocN m ENTITY_NAMES with Some n => n | None => [] end ++ [SEMI])) (members TEXT_CLASS) = true)
      by (vm_compute; reflexivity).
    rewrite forallb_forall in F. specialize (F m (in_members _ _ Hm)). rewrite E in F. cbn [negb orb] in F.
    rewrite forallb_forall in F. intro Hin. specialize (F 93 Hin). discriminate F.
  - intros [H|[H|[H|Hin]]]; try discriminate.
    apply in_app_or in Hin as [Hin|[H|[]]]; [|discriminate].
    pose proof (hex_plain m) as F. rewrite Forall_forall in F. apply F in Hin. discriminate Hin.
Qed.

Lemma text_class_93 : in_ranges 93 TEXT_CLASS = false. Proof. reflexivity. Qed.
Lemma text_class_gt : in_ranges GT TEXT_CLASS = false. Proof. reflexivity. Qed.
Lemma text_class_amp : in_ranges AMP TEXT_CLASS = true. Proof. reflexivity. Qed.
Lemma text_class_named : class_named_ok TEXT_CLASS.
Proof. apply class_named_okb_ok; vm_compute; reflexivity. Qed.

Lemma starts_dd_escape r : starts_dd (escape TEXT_CLASS r) = starts_dd r
  /\ (starts_dd r = true -> skipn 2 (escape TEXT_CLASS r) = escape TEXT_CLASS (skipn 2 r)).
Proof.
  destruct r as [|c1 r1]; [split; reflexivity|].
  rewrite escape_cons. destruct (in_ranges c1 TEXT_CLASS) eqn:E1.
  - destruct (escape_char_head c1) as [x ->]. cbn [app].
    assert (H1 : (c1 =? 93) = false).
    { destruct (N.eqb_spec c1 93) as [->|]; [now rewrite text_class_93 in E1 | reflexivity]. }
    assert (L : starts_dd (AMP :: x ++ escape TEXT_CLASS r1) = false).
    { cbn [starts_dd]. destruct (x ++ escape TEXT_CLASS r1); reflexivity. }
    assert (R : starts_dd (c1 :: r1) = false).
    { cbn [starts_dd]. destruct r1; [reflexivity|]. now rewrite H1. }
    rewrite L, R. split; [reflexivity | discriminate].
  - cbn [app]. destruct r1 as [|c2 r2]; [split; [reflexivity | discriminate]|].
    rewrite escape_cons. destruct (in_ranges c2 TEXT_CLASS) eqn:E2.
    + destruct (escape_char_head c2) as [x ->]. cbn [app starts_dd].
      assert (H2 : (c2 =? GT) = false).
      { destruct (N.eqb_spec c2 GT) as [->|]; [now rewrite text_class_gt in E2 | reflexivity]. }
      rewrite H2. change (AMP =? GT) with false. rewrite !andb_false_r. split; [reflexivity | discriminate].
    + cbn [app starts_dd skipn]. split; reflexivity.
Qed.

(* ---- one line: decode (cdata_fix (escape line)) = line ---- *)
Lemma gt_ref_good : good_ref GT GT_REF.
Proof. exists [103; 116]. split; [reflexivity|]. split; [cbn; intuition discriminate | reflexivity]. Qed.

Lemma unescape_cdata_fix_escape n : forall l, (List.length l <= n)%nat ->
  unescape (cdata_fix (escape TEXT_CLASS l)) = Some l.
Proof.
  unfold unescape. induction n as [|n IH]; intros l Hl.
  - destruct l; [reflexivity | cbn in Hl; lia].
  - destruct l as [|c r]; [reflexivity|]. cbn [List.length] in Hl.
    rewrite escape_cons. destruct (in_ranges c TEXT_CLASS) eqn:E.
    + rewrite cdata_fix_app_no93 by now apply escape_char_no93.
      rewrite (unesc_good_ref c) by (apply escape_char_good with TEXT_CLASS; [apply text_class_named | exact E]).
      rewrite IH by lia. reflexivity.
    + cbn [app].
      assert (Hamp : (c =? AMP) = false).
      { destruct (N.eqb_spec c AMP) as [->|]; [now rewrite text_class_amp in E | reflexivity]. }
      destruct (c =? 93) eqn:E93.
      * apply N.eqb_eq in E93. subst c. rewrite cdata_fix_93.
        destruct (starts_dd_escape r) as [Hd Hs]. rewrite Hd.
        destruct (starts_dd r) eqn:Er.
        -- rewrite (Hs eq_refl).
           cbn [unesc]. change (93 =? AMP) with false. cbn iota.
           rewrite (unesc_good_ref GT GT_REF _ gt_ref_good).
           destruct r as [|c1 [|c2 r2]]; try discriminate Er.
           cbn [starts_dd] in Er. apply andb_true_iff in Er as [Ea Eb]. apply N.eqb_eq in Ea, Eb. subst c1 c2.
           cbn [skipn]. cbn [List.length] in Hl. rewrite IH by lia. reflexivity.
        -- cbn [unesc]. change (93 =? AMP) with false. cbn iota. rewrite IH by lia. reflexivity.
      * rewrite cdata_fix_other by exact E93. cbn [unesc]. rewrite Hamp. rewrite IH by lia. reflexivity.
Qed.

Lemma esc_line_roundtrip cfg l : unescape (esc_line cfg TEXT_CLASS l) = Some l.
Proof.
  unfold esc_line. destruct (fix_cdata cfg).
  - now apply unescape_cdata_fix_escape with (List.length l).
  - apply escape_text_roundtrip.
Qed.

(* ---- characters of the written line ---- *)
Lemma in_cdata_fix n : forall e c, (List.length e <= n)%nat -> In c (cdata_fix e) -> In c e \/ In c GT_REF.
Proof.
  induction n as [|n IH]; intros e c Hl Hin.
  - destruct e; [now left | cbn in Hl; lia].
  - destruct e as [|x e]; [now left|]. cbn [List.length] in Hl.
    destruct (x =? 93) eqn:E.
    + apply N.eqb_eq in E. subst x. rewrite cdata_fix_93 in Hin. destruct (starts_dd e) eqn:Ed.
      * destruct e as [|c1 [|c2 e2]]; try discriminate Ed.
        cbn [starts_dd] in Ed. apply andb_true_iff in Ed as [Ea Eb]. apply N.eqb_eq in Ea, Eb. subst c1 c2.
        cbn [skipn] in Hin. destruct Hin as [<-|[<-|Hin]]; [left; now left | left; now left|].
        apply in_app_or in Hin as [Hin|Hin]; [now right|].
        cbn [List.length] in Hl. destruct (IH e2 c ltac:(lia) Hin) as [H|H]; [left; right; right; now right | now right].
      * destruct Hin as [<-|Hin]; [left; now left|]. destruct (IH e c ltac:(lia) Hin) as [H|H]; [left; now right | now right].
    + rewrite cdata_fix_other in Hin by exact E. destruct Hin as [<-|Hin]; [left; now left|].
      destruct (IH e c ltac:(lia) Hin) as [H|H]; [left; now right | now right].
Qed.

Lemma esc_line_safe cfg l c : In c (esc_line cfg TEXT_CLASS l) -> raw_unsafe c = false.
Proof.
  unfold esc_line. destruct (fix_cdata cfg); [|apply escape_text_safe].
  intro H. apply (in_cdata_fix _ _ _ (le_n _)) in H as [H|H]; [now apply escape_text_safe with l|].
  destruct H as [<-|[<-|[<-|[<-|[]]]]]; reflexivity.
Qed.

(* ---- split / join ---- *)
Lemma split_lines_nonempty s cur : split_lines s cur <> [].
Proof. revert cur; induction s as [|c s IH]; intro cur; cbn; [discriminate|]. destruct (c =? 10); [discriminate | apply IH]. Qed.
Lemma join_lines_cons2 sep x y l : join_lines sep (x :: y :: l) = x ++ sep ++ join_lines sep (y :: l).
Proof. reflexivity. Qed.
Lemma join_split s : forall cur, join_lines [10] (split_lines s cur) = rev cur ++ s.
Proof.
  induction s as [|c s IH]; intro cur; cbn [split_lines].
  - cbn. now rewrite app_nil_r.
  - destruct (N.eqb_spec c 10) as [->|_].
    + destruct (split_lines s []) as [|y l] eqn:E; [now apply split_lines_nonempty in E|].
      rewrite join_lines_cons2, <- E, IH. reflexivity.
    + rewrite IH. cbn [rev]. now rewrite <- app_assoc.
Qed.

Lemma unescape_join cfg ls : ls <> [] ->
  unescape (join_lines [10] (map (esc_line cfg TEXT_CLASS) ls)) = Some (join_lines [10] ls).
Proof.
  induction ls as [|x ls IH]; intro H; [contradiction|].
  destruct ls as [|y l]; [cbn; apply esc_line_roundtrip|].
  cbn [map]. rewrite !join_lines_cons2.
  apply unescape_app; [apply esc_line_roundtrip|].
  change ([10] ++ ?z) with (10 :: z). unfold unescape in *. cbn [unesc]. change (10 =? AMP) with false. cbn iota.
  cbn [map] in IH. rewrite IH by discriminate. reflexivity.
Qed.

Lemma in_join_lines sep l c : In c (join_lines sep l) -> In c sep \/ exists x, In x l /\ In c x.
Proof.
  induction l as [|x l IH]; [intros []|]. destruct l as [|y l'].
  - intro H. right. exists x. split; [now left | exact H].
  - rewrite join_lines_cons2. intro H. apply in_app_or in H as [H|H]; [right; exists x; split; [now left | exact H]|].
    apply in_app_or in H as [H|H]; [now left|].
    destruct (IH H) as [H'|(z & Hz & Hc)]; [now left | right; exists z; split; [now right | exact Hc]].
Qed.

(* ---- the character data the writer emits for element text ---- *)
Definition text_str (cfg : scfg) (tx : option str) : str :=
  match tx with
  | Some (c :: s) => join_lines LINESEP (map (esc_line cfg TEXT_CLASS) (split_lines (c :: s) []))
  | _ => []
  end.
Lemma ser_text_fst cfg tx pos : fst (ser_text cfg TEXT_CLASS true tx pos) = text_str cfg tx.
Proof. destruct tx as [[|c s]|]; reflexivity. Qed.

Lemma text_str_unescape cfg c s : unescape (text_str cfg (Some (c :: s))) = Some (c :: s).
Proof.
  unfold text_str. change LINESEP with [10]. rewrite unescape_join by apply split_lines_nonempty.
  now rewrite join_split.
Qed.
Lemma text_str_no_lt cfg tx : ~ In LT (text_str cfg tx).
Proof.
  destruct tx as [[|c s]|]; cbn [text_str]; try (intros []).
  intro H. apply in_join_lines in H as [H|(x & Hx & Hc)].
  - destruct H as [H|[]]. discriminate H.
  - apply in_map_iff in Hx as (l & <- & _). apply esc_line_safe in Hc. discriminate Hc.
Qed.
Lemma text_str_nonempty cfg c s : text_str cfg (Some (c :: s)) <> [].
Proof. intro H. pose proof (text_str_unescape cfg c s) as U. rewrite H in U. discriminate U. Qed.

(* ================================================================== 2. stage B trees *)
(* the text of a childless element is either absent, empty, or written by the configuration at hand
   (always, once whitespace-only leaf text is written; non-blank otherwise) *)
Definition leaf_text_ok (cfg : scfg) (tx : option str) : bool :=
  match tx with Some (_ :: _) => text_written cfg true tx | _ => true end.
(* elements are attribute-only with element children (text, if any, blank: it is not written), or
   leaves with text; tails, if any, blank (they are not written) *)
Inductive stageB (cfg : scfg) : relem -> Prop :=
| SB t a e tx ch tl :
    name_ok t -> Forall attr_ok a -> Forall (stageB cfg) ch ->
    nonblank_opt tl = false ->
    (if is_nil ch then leaf_text_ok cfg tx else negb (nonblank_opt tx)) = true ->
    stageB cfg (RElem t a e tx ch tl).

Lemma stageA_stageB cfg r : stageA r -> stageB cfg r.
Proof.
  induction r as [t a e tx ch tl IH] using relem_ind'. intro H. inversion H as [? ? ? ? Ht Ha Hch]; subst.
  apply SB; try assumption; [|reflexivity|now destruct ch].
  rewrite Forall_forall in *. intros x Hx. apply IH; [exact Hx | now apply Hch].
Qed.
Lemma norm_tree_stageA r : stageA r -> norm_tree r = decode_tree r.
Proof.
  induction r as [t a e tx ch tl IH] using relem_ind'. intro H. inversion H as [? ? ? ? Ht Ha Hch]; subst.
  cbn [norm_tree decode_tree].
  assert (E : map norm_tree ch = map decode_tree ch).
  { apply map_ext_in. intros x Hx. rewrite Forall_forall in *. apply IH; [exact Hx | now apply Hch]. }
  rewrite E. destruct ch, e; reflexivity.
Qed.

(* ---- shape of the layout ---- *)
Lemma text_written_blank cfg tx : nonblank_opt tx = false -> text_written cfg false tx = false.
Proof.
  destruct tx as [s|]; [|reflexivity]. cbn [nonblank_opt text_written]. intro H. rewrite H.
  destruct (fix_blank_leaf cfg); [now rewrite andb_false_r | reflexivity].
Qed.
Lemma lay_children_blank_tail lay cfg cind tail ch : nonblank_opt tail = false ->
  forall pos tc, lay_children lay cfg cind tail ch pos tc = lay_children lay cfg cind None ch pos tc.
Proof.
  intro H. induction ch as [|c ch IH]; intros pos tc; cbn [lay_children]; [reflexivity|].
  destruct (lay (if tc then pos else lenN cind) c) as [o p]. rewrite H. cbn [nonblank_opt]. now rewrite IH.
Qed.

Definition leaf_out (cfg : scfg) (tx : option str) : str :=
  if text_written cfg true tx then text_str cfg tx else [].

Lemma lay_elem_shapeB cfg ll root ind pos t a e tx ch tl :
  nonblank_opt tl = false ->
  (if is_nil ch then true else negb (nonblank_opt tx)) = true ->
  fst (lay_elem cfg ll root ind pos (RElem t a e tx ch tl))
  = LT :: t ++ fst (lay_attrs ll root (indent_str (ind + 2)) (pos + 1 + utf8_len t) false a)
       ++ (if is_none tx && is_nil ch && negb e then [47; GT]
           else [GT] ++ (if is_nil ch then leaf_out cfg tx else [])
                ++ children_out cfg ll ind ch ++ (if is_nil ch then [] else LINESEP ++ indent_str ind) ++ [LT; 47] ++ t ++ [GT]).
Proof.
  intros Htl Htx. cbn [lay_elem].
  destruct (lay_attrs ll root (indent_str (ind + 2)) (pos + 1 + utf8_len t) false a) as [ao pos1]. cbn [fst].
  destruct (is_none tx && is_nil ch && negb e) eqn:E; cbn [fst].
  - cbn [app]. now rewrite <- app_assoc.
  - destruct ch as [|x ch'].
    + cbn [is_nil lay_children negb andb app] in *. unfold leaf_out.
      pose proof (ser_text_fst cfg tx pos1) as Hst.
      destruct (text_written cfg true tx); [destruct (ser_text cfg TEXT_CLASS true tx pos1) as [txo p2]; cbn [fst] in *; subst txo|];
        cbn [fst app]; rewrite <- ?app_assoc; reflexivity.
    + cbn [is_nil] in *. apply negb_true_iff in Htx. rewrite (text_written_blank cfg tx Htx).
      rewrite lay_children_blank_tail by exact Htl.
      rewrite lay_children_stageA. cbn [fst snd negb andb is_nil app]. unfold children_out.
      rewrite <- !app_assoc. reflexivity.
Qed.

(* ---- the reader on the layout ---- *)
Fixpoint cost_t (r : relem) : nat :=
  let 'RElem _ _ e tx ch _ := r in
  if is_none tx && is_nil ch && negb e then 1%nat else (2 + fold_right (fun c acc => cost_t c + acc) 0 ch)%nat.
Definition costs_t (ch : list relem) : nat := fold_right (fun c acc => cost_t c + acc)%nat 0%nat ch.

Definition continue_t (k : nat) (el : relem) (rest : str) (st : list frame) : option (relem * str) :=
  match st with [] => Some (el, rest) | _ => read_nodes_t k rest (push_child el st) end.

Lemma take_text_app w x : ~ In LT w -> take_text (w ++ LT :: x) = (w, LT :: x).
Proof.
  induction w as [|c w IH]; intro H; cbn [app take_text].
  - change (LT =? LT) with true. reflexivity.
  - destruct (N.eqb_spec c LT) as [->|_]; [exfalso; apply H; now left|].
    rewrite IH by (intro; apply H; now right). reflexivity.
Qed.
Lemma all_ws_no_lt w : all_ws w -> ~ In LT w.
Proof. intros H Hin. unfold all_ws in H. rewrite Forall_forall in H. apply H in Hin. discriminate Hin. Qed.
Lemma all_ws_b w : all_ws w -> all_wsb w = true.
Proof. intro H. unfold all_wsb. apply forallb_forall. unfold all_ws in H. now rewrite Forall_forall in H. Qed.

Lemma read_stageB cfg ll r : stageB cfg r ->
  forall root ind pos w k st rest, all_ws w ->
    read_nodes_t (cost_t r + k) (w ++ fst (lay_elem cfg ll root ind pos r) ++ rest) st
    = continue_t k (norm_tree r) rest st.
Proof.
  induction r as [t a e tx ch tl IH] using relem_ind'. intros Hs root ind pos w k st rest Hw.
  inversion Hs as [? ? ? ? ? ? Ht Ha Hch Htl Htx]; subst.
  destruct (name_first t Ht) as (c & t' & -> & Hc & Ht').
  rewrite lay_elem_shapeB by (exact Htl || (destruct ch; [reflexivity | exact Htx])).
  set (ao := fst (lay_attrs ll root (indent_str (ind + 2)) (pos + 1 + utf8_len (c :: t')) false a)).
  assert (Hfirst : forall tailstr, exists x y, (ao ++ tailstr) = x :: y /\ name_char x = false \/ (ao = [] /\ a = [])).
  { intro tailstr. pose proof (lay_attrs_head ll root (indent_str (ind + 2)) a (pos + 1 + utf8_len (c :: t')) false (indent_ws _)) as Hh.
    fold ao in Hh. destruct ao as [|x y]; [exists 0, []; now right|].
    exists x, (y ++ tailstr). left. split; [reflexivity|]. unfold name_char. now rewrite Hh. }
  assert (Hlen := lay_attrs_length ll root (indent_str (ind + 2)) a (pos + 1 + utf8_len (c :: t')) false). fold ao in Hlen.
  assert (Hc47 : (c =? 47) = false) by (destruct (N.eqb_spec c 47) as [->|]; [discriminate Hc | reflexivity]).
  (* common prefix: white space, '<', name, attributes *)
  assert (Hopen : forall (emp : bool) tl2 f,
     read_nodes_t (S f) (w ++ (LT :: (c :: t') ++ ao ++ (if emp then [47; GT] else [GT]) ++ tl2) ++ rest) st
     = if emp then (let el := RElem (c :: t') (dec_attrs a) false None [] None in
                    match st with [] => Some (el, tl2 ++ rest) | _ => read_nodes_t f (tl2 ++ rest) (push_child el st) end)
       else read_nodes_t f (tl2 ++ rest) ((c :: t', dec_attrs a, []) :: st)).
  { intros emp tl2 f. cbn [read_nodes_t]. cbn [app]. rewrite take_text_app by now apply all_ws_no_lt.
    rewrite <- !app_assoc. cbn [app]. rewrite Hc47, (all_ws_b w Hw). cbn [negb].
    assert (Htn : take_name (c :: t' ++ ao ++ (if emp then [47; GT] else [GT]) ++ tl2 ++ rest)
                  = (c :: t', ao ++ (if emp then [47; GT] else [GT]) ++ tl2 ++ rest)).
    { destruct (Hfirst ((if emp then [47; GT] else [GT]) ++ tl2 ++ rest)) as (x & y & [[Hxy Hx]|[Hao _]]).
      - rewrite Hxy. change (c :: t' ++ x :: y) with ((c :: t') ++ x :: y). apply take_name_app; [now constructor | exact Hx].
      - rewrite Hao. cbn [app]. destruct emp; cbn [app]; change (c :: t' ++ ?x :: ?y) with ((c :: t') ++ x :: y);
          apply take_name_app; try (now constructor); reflexivity. }
    rewrite Htn.
    rewrite (read_attrs_lay ll root (indent_str (ind + 2)) a (indent_ws _) Ha (pos + 1 + utf8_len (c :: t')) false _ emp (tl2 ++ rest)).
    - destruct emp; reflexivity.
    - fold ao. rewrite app_length. lia. }
  (* the end tag, with the character data [raw] in front of it *)
  assert (Hclose : forall raw kids tx',
     ~ In LT raw -> close_text (is_nil kids) raw = Some tx' ->
     read_nodes_t (S k) (raw ++ LT :: 47 :: (c :: t') ++ GT :: rest) ((c :: t', dec_attrs a, kids) :: st)
     = continue_t k (RElem (c :: t') (dec_attrs a) (is_nil kids && is_none tx') tx' (rev kids) None) rest st).
  { intros raw kids tx' Hraw Hct. cbn [read_nodes_t]. rewrite take_text_app by exact Hraw.
    change (47 =? 47) with true. cbn iota.
    rewrite take_name_app by (now constructor || reflexivity).
    change (GT =? GT) with true. rewrite str_eqb_refl'. cbn [andb]. rewrite Hct.
    unfold continue_t. destruct st; reflexivity. }
  destruct (is_none tx && is_nil ch && negb e) eqn:Eleaf.
  - (* empty-element tag *)
    cbn [cost_t]. rewrite Eleaf. cbn [plus].
    specialize (Hopen true [] k). cbn [app] in Hopen |- *. rewrite Hopen.
    apply andb_true_iff in Eleaf as [En Ee]. apply andb_true_iff in En as [Et En].
    destruct ch; [|discriminate]. destruct tx; [discriminate|]. apply negb_true_iff in Ee. subst e.
    cbn [norm_tree map andb is_nil is_none kept_text negb]. unfold continue_t, dec_attrs. reflexivity.
  - cbn [cost_t]. rewrite Eleaf. fold (costs_t ch).
    replace (2 + costs_t ch + k)%nat with (S (costs_t ch + S k))%nat by lia.
    specialize (Hopen false ((if is_nil ch then leaf_out cfg tx else []) ++ children_out cfg ll ind ch
                              ++ (if is_nil ch then [] else LINESEP ++ indent_str ind) ++ [LT; 47] ++ (c :: t') ++ [GT]) (costs_t ch + S k)%nat).
    cbn [app] in Hopen |- *. rewrite Hopen. clear Hopen.
    destruct ch as [|x ch'].
    + (* leaf: character data, end tag *)
      cbn [is_nil costs_t fold_right plus children_out flat_map app] in *.
      rewrite <- ?app_assoc. cbn [app]. rewrite <- ?app_assoc. cbn [app].
      assert (Hlo : ~ In LT (leaf_out cfg tx)).
      { unfold leaf_out. destruct (text_written cfg true tx); [apply text_str_no_lt | intros []]. }
      assert (Hct : close_text true (leaf_out cfg tx) = Some (kept_text true tx)).
      { unfold leaf_out, close_text. destruct tx as [[|c0 s0]|].
        - cbn [text_written is_nil negb andb py_nonblank existsb]. destruct (fix_blank_leaf cfg); reflexivity.
        - cbn [leaf_text_ok] in Htx. rewrite Htx.
          match goal with |- context [is_nil (text_str cfg ?T)] =>
            pose proof (text_str_nonempty cfg c0 s0 : text_str cfg T <> []) as Hne;
            pose proof (text_str_unescape cfg c0 s0 : unescape (text_str cfg T) = Some (c0 :: s0)) as Hun;
            destruct (text_str cfg T); [contradiction|] end.
          cbn [is_nil]. rewrite Hun. reflexivity.
        - reflexivity. }
      rewrite (Hclose (leaf_out cfg tx) [] (kept_text true tx) Hlo Hct).
      cbn [norm_tree map is_nil rev]. unfold dec_attrs.
      assert (Hex : negb (is_none tx && negb e) = true).
      { rewrite andb_true_r in Eleaf. now rewrite Eleaf. }
      rewrite Hex, andb_true_r. reflexivity.
    + (* children, end tag *)
      cbn [is_nil] in *. cbn [app].
      assert (Hkids : forall chx, Forall (fun r => stageB cfg r -> forall root ind pos w k st rest, all_ws w ->
                         read_nodes_t (cost_t r + k) (w ++ fst (lay_elem cfg ll root ind pos r) ++ rest) st
                         = continue_t k (norm_tree r) rest st) chx -> Forall (stageB cfg) chx ->
        forall done k2 rest2,
        read_nodes_t (costs_t chx + k2) (children_out cfg ll ind chx ++ rest2) ((c :: t', dec_attrs a, done) :: st)
        = read_nodes_t k2 rest2 ((c :: t', dec_attrs a, rev (map norm_tree chx) ++ done) :: st)).
      { induction chx as [|y chx IHch]; intros IHl Hl done k2 rest2.
        - reflexivity.
        - inversion IHl as [|? ? IHy IHrest]; subst. inversion Hl as [|? ? Hy Hrest]; subst.
          unfold children_out, costs_t. cbn [flat_map fold_right]. fold (costs_t chx). fold (children_out cfg ll ind chx).
          rewrite <- !app_assoc. rewrite <- Nat.add_assoc.
          rewrite (app_assoc LINESEP).
          rewrite (IHy Hy false (ind + 1) (lenN (indent_str (ind + 1))) (LINESEP ++ indent_str (ind + 1)) (costs_t chx + k2)%nat
                     ((c :: t', dec_attrs a, done) :: st) (children_out cfg ll ind chx ++ rest2))
            by (apply all_ws_app; [apply linesep_ws | apply indent_ws]).
          unfold continue_t. cbn [push_child].
          rewrite (IHch IHrest Hrest). cbn [map rev]. now rewrite <- app_assoc. }
      rewrite <- !app_assoc. rewrite (Hkids (x :: ch') IH Hch). rewrite app_nil_r.
      cbn [app]. rewrite <- !app_assoc. rewrite (app_assoc LINESEP). cbn [app].
      assert (Hws : all_ws (LINESEP ++ indent_str ind)) by (apply all_ws_app; [apply linesep_ws | apply indent_ws]).
      change ((LINESEP ++ indent_str ind) ++ LT :: 47 :: c :: t' ++ GT :: rest)
        with ((LINESEP ++ indent_str ind) ++ LT :: 47 :: (c :: t') ++ GT :: rest).
      rewrite (Hclose (LINESEP ++ indent_str ind) (rev (map norm_tree (x :: ch'))) None (all_ws_no_lt _ Hws)).
      * rewrite rev_involutive, is_nil_rev, is_nil_map. cbn [is_nil andb norm_tree kept_text]. unfold dec_attrs. reflexivity.
      * rewrite is_nil_rev, is_nil_map. cbn [is_nil close_text]. now rewrite (all_ws_b _ Hws).
Qed.

Lemma cost_t_le_length cfg ll r : stageB cfg r -> forall root ind pos,
  (cost_t r <= List.length (fst (lay_elem cfg ll root ind pos r)))%nat.
Proof.
  induction r as [t a e tx ch tl IH] using relem_ind'. intros Hs root ind pos.
  inversion Hs as [? ? ? ? ? ? Ht Ha Hch Htl Htx]; subst.
  rewrite lay_elem_shapeB by (exact Htl || (destruct ch; [reflexivity | exact Htx])). cbn [cost_t].
  assert (Hk : (costs_t ch <= List.length (children_out cfg ll ind ch))%nat).
  { clear Hs Htx. induction ch as [|x ch IHch]; [cbn; lia|].
    inversion IH as [|? ? IHx IHrest]; subst. inversion Hch as [|? ? Hx Hrest]; subst.
    unfold costs_t, children_out. cbn [fold_right flat_map]. fold (costs_t ch). fold (children_out cfg ll ind ch).
    rewrite !app_length. specialize (IHx Hx false (ind + 1) (lenN (indent_str (ind + 1)))). specialize (IHch IHrest Hrest). lia. }
  fold (costs_t ch).
  destruct (is_none tx && is_nil ch && negb e); cbn [List.length]; [lia|].
  repeat (rewrite app_length; cbn [List.length]). lia.
Qed.

Theorem read_lay_elem_t cfg ll root ind pos r rest : stageB cfg r ->
  read_elem_t (fst (lay_elem cfg ll root ind pos r) ++ rest) = Some (norm_tree r, rest).
Proof.
  intro Hs. unfold read_elem_t.
  pose proof (cost_t_le_length cfg ll r Hs root ind pos) as Hl.
  set (out := fst (lay_elem cfg ll root ind pos r)) in *.
  replace (S (List.length (out ++ rest))) with (cost_t r + (S (List.length (out ++ rest)) - cost_t r))%nat
    by (rewrite app_length; lia).
  change (out ++ rest) with ([] ++ out ++ rest) at 2.
  unfold out. rewrite (read_stageB cfg ll r Hs root ind pos [] _ [] rest) by constructor. reflexivity.
Qed.

(* on stage A trees the two readers agree on what the writer emits *)
Corollary readers_agree_stageA cfg ll root ind pos r rest : stageA r ->
  read_elem_t (fst (lay_elem cfg ll root ind pos r) ++ rest) = read_elem (fst (lay_elem cfg ll root ind pos r) ++ rest).
Proof.
  intro H. rewrite (read_lay_elem cfg ll root ind pos r rest H).
  rewrite (read_lay_elem_t cfg ll root ind pos r rest (stageA_stageB cfg r H)). now rewrite norm_tree_stageA.
Qed.

(* ---- write, read, write again ---- *)
Lemma lay_children_ext lay1 lay2 cfg cind tail ch :
  Forall (fun c => forall p, lay1 p c = lay2 p c) ch ->
  forall pos tc, lay_children lay1 cfg cind tail ch pos tc = lay_children lay2 cfg cind tail ch pos tc.
Proof.
  induction 1 as [|c ch Hc _ IH]; intros pos tc; cbn [lay_children]; [reflexivity|].
  rewrite Hc. destruct (lay2 (if tc then pos else lenN cind) c) as [o p].
  destruct (nonblank_opt tail); [destruct (ser_text cfg TEXT_CLASS false tail p) as [tlo p']|]; now rewrite IH.
Qed.
Lemma lay_children_map lay f cfg cind tail ch :
  forall pos tc, lay_children lay cfg cind tail (map f ch) pos tc = lay_children (fun p c => lay p (f c)) cfg cind tail ch pos tc.
Proof.
  induction ch as [|c ch IH]; intros pos tc; cbn [map lay_children]; [reflexivity|].
  destruct (lay (if tc then pos else lenN cind) (f c)) as [o p].
  destruct (nonblank_opt tail); [destruct (ser_text cfg TEXT_CLASS false tail p) as [tlo p']|]; now rewrite IH.
Qed.

Lemma reescape_norm cfg r : stageB cfg r -> canonical_values r ->
  forall ll root ind pos, lay_elem cfg ll root ind pos (reescape (norm_tree r)) = lay_elem cfg ll root ind pos r.
Proof.
  induction r as [t a e tx ch tl IH] using relem_ind'. intros Hs Hc ll root ind pos.
  inversion Hs as [? ? ? ? ? ? Ht Ha Hch Htl Htx]; subst. inversion Hc as [? ? ? ? ? ? Hv Hcc]; subst.
  cbn [norm_tree reescape].
  assert (Ea : map (fun nv => (fst nv, escape TEXT_CLASS (snd nv))) (map (fun nv => (fst nv, dec_val (snd nv))) a) = a).
  { rewrite map_map. cbn [fst snd]. clear - Hv. induction Hv as [|[n v] r Hx _ IHr]; cbn; [reflexivity|]. cbn in Hx. now rewrite Hx, IHr. }
  rewrite Ea.
  assert (F : Forall (fun c => forall p, lay_elem cfg ll false (ind + 1) p (reescape (norm_tree c)) = lay_elem cfg ll false (ind + 1) p c) ch).
  { rewrite Forall_forall in *. intros x Hx p. apply IH; [exact Hx | now apply Hch | now apply Hcc]. }
  cbn [lay_elem]. rewrite !is_nil_map.
  destruct (lay_attrs ll root (indent_str (ind + 2)) (pos + 1 + utf8_len t) false a) as [ao pos1].
  destruct ch as [|x ch'].
  - cbn [is_nil kept_text andb negb map lay_children] in *. destruct tx as [[|c0 s0]|]; cbn [is_none andb negb].
    + cbn [text_written is_nil negb andb py_nonblank existsb]. destruct (fix_blank_leaf cfg); reflexivity.
    + reflexivity.
    + destruct e; reflexivity.
  - cbn [is_nil kept_text andb negb is_none] in *. apply negb_true_iff in Htx.
    rewrite (text_written_blank cfg tx Htx). cbn [text_written].
    rewrite map_map, lay_children_map.
    rewrite (lay_children_ext _ (fun posc c => lay_elem cfg ll false (ind + 1) posc c) cfg (indent_str (ind + 1)) None (x :: ch') F).
    rewrite (lay_children_blank_tail _ cfg (indent_str (ind + 1)) tl (x :: ch') Htl).
    destruct tx; reflexivity.
Qed.

(* ================================================================== 3. comments and documents *)
Definition comment_ok (c : comment) : Prop := comment_text_ok (c_text c) = true /\ nonblank_opt (c_tail c) = false.

Lemma take_comment_ok t rest : no_double_dash t = true -> take_comment (t ++ 45 :: 45 :: GT :: rest) = Some (t, rest).
Proof.
  induction t as [|c t IH]; intro H.
  - reflexivity.
  - cbn [app take_comment]. cbn [no_double_dash] in H. destruct (c =? 45).
    + destruct t as [|c1 t1]; [discriminate|]. apply andb_true_iff in H as [H1 H2]. cbn [app].
      apply negb_true_iff in H1. rewrite H1. change (c1 :: t1 ++ ?x) with ((c1 :: t1) ++ x). now rewrite IH.
    + now rewrite IH.
Qed.

Lemma split_lines_no_nl s : forall cur, ~ In 10 s -> split_lines s cur = [rev cur ++ s].
Proof.
  induction s as [|c s IH]; intros cur H; cbn [split_lines]; [now rewrite app_nil_r|].
  destruct (N.eqb_spec c 10) as [->|_]; [exfalso; apply H; now left|].
  rewrite IH by (intro; apply H; now right). cbn [rev]. now rewrite <- app_assoc.
Qed.

Lemma comment_text_ok_parts t : comment_text_ok t = true -> ~ In GT t /\ ~ In 10 t /\ no_double_dash t = true.
Proof.
  unfold comment_text_ok. intro H. apply andb_true_iff in H as [H1 H2]. rewrite forallb_forall in H1.
  repeat split; try exact H2; intro Hin; apply H1 in Hin; apply andb_true_iff in Hin as [Ha Hb]; discriminate.
Qed.

Lemma comment_class_gt c : in_ranges c COMMENT_TEXT_CLASS = true -> c = GT.
Proof. cbn. rewrite orb_false_r. intro H. apply andb_true_iff in H as [H1 H2]. apply N.leb_le in H1, H2. unfold GT. lia. Qed.

Lemma ser_text_comment cfg t pos : comment_text_ok t = true ->
  fst (ser_text cfg COMMENT_TEXT_CLASS false (Some t) pos) = t.
Proof.
  intro H. destruct (comment_text_ok_parts t H) as (Hgt & Hnl & _).
  destruct t as [|c t']; [reflexivity|]. cbn [ser_text fst].
  rewrite (split_lines_no_nl (c :: t') [] Hnl). cbn [rev app map join_lines].
  unfold esc_line. rewrite escape_id.
  - destruct (fix_cdata cfg); [now apply cdata_fix_id | reflexivity].
  - intros x Hx. destruct (in_ranges x COMMENT_TEXT_CLASS) eqn:E; [|reflexivity].
    apply comment_class_gt in E. subst x. contradiction.
Qed.

Definition comment_str (t : str) : str := LINESEP ++ COMMENT_OPEN ++ t ++ [45; 45; GT] ++ LINESEP.

Lemma lay_comment_ok cfg c : comment_ok c -> lay_comment cfg 0 c = (comment_str (c_text c), 0).
Proof.
  intros [Ht Htl]. unfold lay_comment. change (indent_str 0) with (@nil N).
  pose proof (ser_text_comment cfg (c_text c) (lenN []) Ht) as Hs.
  destruct (ser_text cfg COMMENT_TEXT_CLASS false (Some (c_text c)) (lenN [])) as [txo p]. cbn [fst] in Hs. subst txo.
  rewrite Htl. unfold comment_str, COMMENT_OPEN. f_equal.
  rewrite ?app_nil_r. rewrite <- ?app_assoc. cbn [app]. rewrite <- ?app_assoc. cbn [app]. reflexivity.
Qed.

Lemma lay_comments_full cfg cs : Forall comment_ok cs -> forall pos,
  lay_comments cfg cs pos = (flat_map (fun c => comment_str (c_text c)) cs, if is_nil cs then pos else 0).
Proof.
  intro H. induction H as [|c cs Hc _ IH]; intro pos; [reflexivity|].
  cbn [lay_comments flat_map is_nil]. rewrite (lay_comment_ok cfg c Hc). rewrite (IH 0). now destruct cs.
Qed.
Lemma lay_comments_ok cfg cs pos : Forall comment_ok cs ->
  fst (lay_comments cfg cs pos) = flat_map (fun c => comment_str (c_text c)) cs.
Proof. intro H. now rewrite lay_comments_full. Qed.

(* [x] does not begin (after white space) with a comment *)
Definition no_comment_ahead (x : str) : Prop := starts_with COMMENT_OPEN (skip_ws x) = false.

Lemma read_comments_ok ts : forall fuel x, (List.length ts < fuel)%nat -> Forall (fun t => no_double_dash t = true) ts ->
  no_comment_ahead x ->
  read_comments fuel (flat_map comment_str ts ++ x) = Some (ts, skip_ws x).
Proof.
  induction ts as [|t ts IH]; intros fuel x Hf Hts Hx; (destruct fuel as [|f]; [cbn in Hf; lia|]).
  - cbn [flat_map app read_comments]. unfold no_comment_ahead in Hx. now rewrite Hx.
  - inversion Hts as [|? ? Ht Hrest]; subst.
    assert (Ecs : forall y, comment_str t ++ y = [10] ++ LT :: 33 :: 45 :: 45 :: t ++ 45 :: 45 :: GT :: LINESEP ++ y).
    { intro y. unfold comment_str, COMMENT_OPEN. rewrite <- ?app_assoc. cbn [app]. rewrite <- ?app_assoc. reflexivity. }
    cbn [flat_map read_comments]. rewrite <- ?app_assoc. rewrite Ecs.
    rewrite skip_ws_app by (repeat constructor || reflexivity).
    change (starts_with COMMENT_OPEN (LT :: 33 :: 45 :: 45 :: ?y)) with true. cbn iota. cbn [skipn].
    rewrite take_comment_ok by exact Ht.
    assert (E : (LINESEP ++ flat_map comment_str ts ++ x) = [10] ++ (flat_map comment_str ts ++ x)) by reflexivity.
    destruct f as [|f']; [cbn in Hf; lia|].
    (* the LINESEP closing this comment is white space in front of the next item *)
    assert (Hskip : forall y, read_comments (S f') (LINESEP ++ y) = read_comments (S f') y).
    { intro y. cbn [read_comments]. reflexivity. }
    rewrite Hskip. rewrite (IH (S f') x) by (try assumption; cbn in Hf; lia). reflexivity.
Qed.

Lemma comments_length ts : (List.length ts <= List.length (flat_map comment_str ts))%nat.
Proof.
  induction ts as [|t0 ts IHt]; [cbn; lia|]. cbn [flat_map]. rewrite app_length.
  assert (1 <= List.length (comment_str t0))%nat by (unfold comment_str, LINESEP; cbn [app List.length]; lia).
  cbn [List.length]. lia.
Qed.

Definition tag_not_bang (r : relem) : Prop := match r_tag r with c :: _ => c <> 33 | [] => True end.

Theorem read_lay_doc cfg ll before root after :
  stageB cfg root -> tag_not_bang root -> Forall comment_ok before -> Forall comment_ok after ->
  read_doc (lay_doc cfg ll before root after) = Some (map c_text before, norm_tree root, map c_text after).
Proof.
  intros Hs Hbang Hb Ha. unfold lay_doc.
  pose proof (lay_comments_ok cfg before 0 Hb) as Eb. destruct (lay_comments cfg before 0) as [bo pos]. cbn [fst] in Eb.
  pose proof (read_lay_elem_t cfg ll true 0 pos root) as Er.
  destruct (lay_elem cfg ll true 0 pos root) as [ro pr] eqn:Ero. cbn [fst] in Er.
  destruct root as [t a e tx ch tl]. inversion Hs as [? ? ? ? ? ? Ht Hat Hch Htl Htx]; subst.
  rewrite Htl.
  pose proof (lay_comments_ok cfg after pos Ha) as Eaf. destruct (lay_comments cfg after pos) as [ao pa]. cbn [fst] in Eaf.
  subst. cbn [app].
  assert (Fm : forall cs, Forall comment_ok cs -> flat_map (fun c => comment_str (c_text c)) cs = flat_map comment_str (map c_text cs)
                          /\ Forall (fun t => no_double_dash t = true) (map c_text cs)).
  { induction 1 as [|c cs [Hc _] _ [IH1 IH2]]; [split; [reflexivity | constructor]|]. cbn [flat_map map]. rewrite IH1. split; [reflexivity|].
    constructor; [now apply comment_text_ok_parts in Hc | exact IH2]. }
  destruct (Fm before Hb) as [Eb1 Eb2]. destruct (Fm after Ha) as [Ea1 Ea2]. rewrite Eb1, Ea1.
  (* the root starts with '<' followed by the first character of its tag *)
  destruct (name_first t Ht) as (c & t' & -> & Hc & Ht').
  assert (Hro : exists y, ro = LT :: c :: y).
  { pose proof (lay_elem_shapeB cfg ll true 0 pos (c :: t') a e tx ch tl Htl ltac:(destruct ch; [reflexivity | exact Htx])) as Sh.
    rewrite Ero in Sh. cbn [fst] in Sh. rewrite Sh. cbn [app]. eexists; reflexivity. }
  destruct Hro as [y Hy].
  unfold read_doc.
  rewrite read_comments_ok.
  - assert (Hsk : skip_ws (ro ++ flat_map comment_str (map c_text after) ++ [10]) = ro ++ flat_map comment_str (map c_text after) ++ [10]).
    { rewrite Hy. reflexivity. }
    rewrite Hsk, (Er _ Hs).
    rewrite read_comments_ok; [reflexivity | | exact Ea2 | reflexivity].
    rewrite app_length. pose proof (comments_length (map c_text after)). lia.
  - repeat rewrite app_length. cbn [List.length].
    pose proof (comments_length (map c_text before)). lia.
  - exact Eb2.
  - unfold no_comment_ahead. rewrite Hy. cbn [app skip_ws]. change (is_xml_ws LT) with false. cbn iota.
    cbn [starts_with COMMENT_OPEN]. change (LT =? LT) with true. cbn [andb].
    unfold tag_not_bang in Hbang. cbn [r_tag] in Hbang. destruct (N.eqb_spec 33 c) as [<-|_]; [contradiction | reflexivity].
Qed.

Lemma read_file_decl s : read_file (declaration ++ s) = read_doc s.
Proof. reflexivity. Qed.

(* the same through phase 1: whatever [resolve] makes of the lxml tree *)
Corollary ser_doc_read cfg ll d r :
  resolve [] (d_root d) = ROk r -> stageB cfg r -> tag_not_bang r ->
  Forall comment_ok (d_before d) -> Forall comment_ok (d_after d) ->
  exists s, ser_doc cfg ll d = ROk s
    /\ read_file (declaration ++ s) = Some (map c_text (d_before d), norm_tree r, map c_text (d_after d)).
Proof.
  intros Hr Hs Hb Hcb Hca. unfold ser_doc. rewrite Hr. eexists. split; [reflexivity|].
  rewrite read_file_decl. now apply read_lay_doc.
Qed.

(* ---- documents: write, read, write again ---- *)
Definition mk_comment (t : str) : comment := Comment t None.

Theorem doc_write_read_write cfg ll before root after :
  stageB cfg root -> tag_not_bang root -> canonical_values root -> Forall comment_ok before -> Forall comment_ok after ->
  exists b r a, read_doc (lay_doc cfg ll before root after) = Some (b, r, a)
    /\ lay_doc cfg ll (map mk_comment b) (reescape r) (map mk_comment a) = lay_doc cfg ll before root after.
Proof.
  intros Hs Hbang Hcv Hb Ha. exists (map c_text before), (norm_tree root), (map c_text after).
  split; [now apply read_lay_doc|].
  assert (Fm : forall cs, Forall comment_ok cs -> Forall comment_ok (map mk_comment (map c_text cs))
              /\ flat_map (fun c => comment_str (c_text c)) (map mk_comment (map c_text cs)) = flat_map (fun c => comment_str (c_text c)) cs).
  { induction 1 as [|c cs [Hc Ht] _ [IH1 IH2]]; [split; [constructor | reflexivity]|]. cbn [map flat_map]. split.
    - constructor; [split; [exact Hc | reflexivity] | exact IH1].
    - cbn [mk_comment c_text]. now rewrite IH2. }
  destruct (Fm before Hb) as [Hb' Eb]. destruct (Fm after Ha) as [Ha' Ea].
  unfold lay_doc. rewrite (lay_comments_full cfg _ Hb' 0), (lay_comments_full cfg before Hb 0), Eb, !is_nil_map.
  rewrite (reescape_norm cfg root Hs Hcv).
  destruct (lay_elem cfg ll true 0 (if is_nil before then 0 else 0) root) as [ro pr].
  destruct root as [t a0 e tx ch tl]. inversion Hs as [? ? ? ? ? ? Ht Hat Hch Htl Htx]; subst.
  cbn [norm_tree reescape]. rewrite Htl. cbn [nonblank_opt].
  rewrite (lay_comments_full cfg _ Ha'), (lay_comments_full cfg after Ha), Ea. reflexivity.
Qed.

(* ================================================================== 4. decidable forms of the hypotheses *)
Definition name_okb (n : str) : bool := negb (is_nil n) && forallb name_char n.
Definition attr_okb (nv : str * str) : bool :=
  name_okb (fst nv) && negb (existsb (N.eqb QUOT) (snd nv)) && negb (is_none (unescape (snd nv))).
Fixpoint stageBb (cfg : scfg) (r : relem) : bool :=
  let 'RElem t a e tx ch tl := r in
  name_okb t && forallb attr_okb a && forallb (stageBb cfg) ch && negb (nonblank_opt tl)
  && (if is_nil ch then leaf_text_ok cfg tx else negb (nonblank_opt tx)).
Fixpoint canonical_valuesb (r : relem) : bool :=
  let 'RElem t a e tx ch tl := r in
  forallb (fun nv => str_eqb (escape TEXT_CLASS (dec_val (snd nv))) (snd nv)) a && forallb canonical_valuesb ch.
Definition comment_okb (c : comment) : bool := comment_text_ok (c_text c) && negb (nonblank_opt (c_tail c)).
Definition tag_not_bangb (r : relem) : bool := match r_tag r with c :: _ => negb (c =? 33) | [] => true end.

Lemma name_okb_ok n : name_okb n = true -> name_ok n.
Proof.
  unfold name_okb, name_ok. intro H. apply andb_true_iff in H as [H1 H2]. split.
  - intros ->. discriminate H1.
  - apply Forall_forall. now rewrite forallb_forall in H2.
Qed.
Lemma attr_okb_ok nv : attr_okb nv = true -> attr_ok nv.
Proof.
  unfold attr_okb, attr_ok. intro H. apply andb_true_iff in H as [H H3]. apply andb_true_iff in H as [H1 H2].
  split; [now apply name_okb_ok|]. split.
  - intro Hin. apply negb_true_iff in H2. rewrite <- not_true_iff_false in H2. apply H2.
    apply existsb_exists. exists QUOT. split; [exact Hin | reflexivity].
  - intro E. rewrite E in H3. discriminate H3.
Qed.
Lemma stageBb_ok cfg r : stageBb cfg r = true -> stageB cfg r.
Proof.
  induction r as [t a e tx ch tl IH] using relem_ind'. cbn [stageBb]. intro H.
  apply andb_true_iff in H as [H H5]. apply andb_true_iff in H as [H H4]. apply andb_true_iff in H as [H H3].
  apply andb_true_iff in H as [H1 H2].
  apply SB; [now apply name_okb_ok | | | now apply negb_true_iff in H4 | exact H5].
  - apply Forall_forall. intros x Hx. rewrite forallb_forall in H2. now apply attr_okb_ok, H2.
  - rewrite Forall_forall in *. intros x Hx. rewrite forallb_forall in H3. apply IH; [exact Hx | now apply H3].
Qed.
Lemma canonical_valuesb_ok r : canonical_valuesb r = true -> canonical_values r.
Proof.
  induction r as [t a e tx ch tl IH] using relem_ind'. cbn [canonical_valuesb]. intro H.
  apply andb_true_iff in H as [H1 H2]. apply CV.
  - apply Forall_forall. intros x Hx. rewrite forallb_forall in H1. now apply str_eqb_eq', H1.
  - rewrite Forall_forall in *. intros x Hx. rewrite forallb_forall in H2. apply IH; [exact Hx | now apply H2].
Qed.
Lemma comment_okb_ok cs : forallb comment_okb cs = true -> Forall comment_ok cs.
Proof.
  intro H. apply Forall_forall. intros c Hc. rewrite forallb_forall in H. specialize (H c Hc).
  unfold comment_okb in H. apply andb_true_iff in H as [H1 H2]. split; [exact H1 | now apply negb_true_iff in H2].
Qed.
Lemma tag_not_bangb_ok r : tag_not_bangb r = true -> tag_not_bang r.
Proof.
  unfold tag_not_bangb, tag_not_bang. destruct (r_tag r) as [|c x]; [trivial|]. intros H ->. discriminate H.
Qed.

(* under the configuration that writes whitespace-only leaf text every leaf text is accepted *)
Lemma leaf_text_ok_fixed cfg tx : fix_blank_leaf cfg = true -> leaf_text_ok cfg tx = true.
Proof. intro H. destruct tx as [[|c s]|]; try reflexivity. cbn. now rewrite H. Qed.
(* under either configuration non-blank text is *)
Lemma leaf_text_ok_nonblank cfg s : py_nonblank s = true -> leaf_text_ok cfg (Some s) = true.
Proof.
  intro H. destruct s as [|c s]; [reflexivity|]. cbn [leaf_text_ok text_written]. rewrite H.
  destruct (fix_blank_leaf cfg); reflexivity.
Qed.

(* the text theorem in one statement: for every non-empty string, what _serialize_text(multiline=True)
   writes contains no '<' and decodes back to the string *)
Theorem ser_text_roundtrip cfg t pos : t <> [] ->
  let w := fst (ser_text cfg TEXT_CLASS true (Some t) pos) in
  ~ In LT w /\ unescape w = Some t.
Proof.
  intro H. cbv zeta. rewrite ser_text_fst. split; [apply text_str_no_lt|].
  destruct t as [|c s]; [contradiction | apply text_str_unescape].
Qed.
