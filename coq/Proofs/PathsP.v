From Coq Require Import ZArith NArith List Bool Lia.
Import ListNotations.
From V Require Import Model.Val Model.Paths.

Lemma str_eqb_refl s : str_eqb s s = true.
Proof. induction s as [|c s IH]; cbn; [reflexivity|]. now rewrite N.eqb_refl, IH. Qed.

Lemma str_eqb_eq a b : str_eqb a b = true <-> a = b.
Proof.
  revert b; induction a as [|x a IH]; intros [|y b]; cbn; split; intro H; try congruence; try reflexivity.
  - apply andb_true_iff in H as [H1 H2]. apply N.eqb_eq in H1. apply IH in H2. congruence.
  - inversion H; subst. now rewrite N.eqb_refl, str_eqb_refl.
Qed.

Lemma has_dotdot_app a b : has_dotdot (a ++ b) = has_dotdot a || has_dotdot b.
Proof. unfold has_dotdot. now rewrite existsb_app. Qed.

Lemma has_dotdot_removelast a : has_dotdot a = false -> has_dotdot (removelast a) = false.
Proof.
  induction a as [|x a IH]; cbn; [reflexivity|]. intro H.
  apply orb_false_iff in H as [Hx Ha]. destruct a as [|y a]; [reflexivity|].
  cbn [has_dotdot existsb] in *. change (existsb (fun p => str_eqb p dotdot) (removelast (y :: a))) with (has_dotdot (removelast (y::a))).
  rewrite Hx. cbn. apply IH. exact Ha.
Qed.

Lemma nstep_no_dotdot acc p : has_dotdot acc = false -> has_dotdot (nstep acc p) = false.
Proof.
  intro H. unfold nstep. destruct (str_eqb p dotdot) eqn:E.
  - now apply has_dotdot_removelast.
  - rewrite has_dotdot_app, H. cbn. now rewrite E.
Qed.

Lemma fold_nstep_no_dotdot ps acc : has_dotdot acc = false -> has_dotdot (fold_left nstep ps acc) = false.
Proof.
  revert acc; induction ps as [|p ps IH]; intros acc H; cbn [fold_left]; [exact H|].
  apply IH. now apply nstep_no_dotdot.
Qed.

Lemma normalize_parts_no_dotdot ps : has_dotdot (normalize_parts ps) = false.
Proof. unfold normalize_parts. now apply fold_nstep_no_dotdot. Qed.

Lemma normalize_no_dotdot p b : has_dotdot (normalize p b) = false.
Proof. apply normalize_parts_no_dotdot. Qed.

Lemma is_prefix_app a b : is_prefix a (a ++ b) = true.
Proof. induction a as [|x a IH]; cbn; [reflexivity|]. now rewrite str_eqb_refl, IH. Qed.

Lemma target_confined k sub f :
  is_prefix (subdir_parts sub) (handler_target k sub f) = true
  /\ has_dotdot (handler_target k sub f) = false.
Proof.
  unfold handler_target, subdir_parts. split; [apply is_prefix_app|].
  now rewrite has_dotdot_app, !normalize_no_dotdot.
Qed.

Lemma filepath_join_no_dotdot cur p : has_dotdot (filepath_join cur p) = false.
Proof. unfold filepath_join. destruct (posix_abs p); apply normalize_parts_no_dotdot. Qed.

(* parts produced by splitting never contain a separator, an empty or a "." segment *)
Lemma split_on_no_sep sep s cur :
  ~ In sep cur -> Forall (fun p => ~ In sep p) (split_on sep s cur).
Proof.
  revert cur; induction s as [|c s IH]; intros cur H; cbn.
  - constructor; [|constructor]. now rewrite <- in_rev.
  - destruct (N.eqb c sep) eqn:E.
    + constructor; [now rewrite <- in_rev|]. apply IH. intros [].
    + apply IH. intros [->|H']; [now rewrite N.eqb_refl in E | auto].
Qed.

Lemma posix_parts_wf s :
  Forall (fun p => ~ In SLASH p /\ p <> [] /\ p <> dot) (posix_parts s).
Proof.
  unfold posix_parts. apply Forall_forall. intros p Hp. apply filter_In in Hp as [Hin Hk].
  pose proof (split_on_no_sep SLASH s [] (fun x => x)) as HF. rewrite Forall_forall in HF.
  split; [now apply HF|]. unfold keep_seg in Hk. apply andb_true_iff in Hk as [H1 H2].
  split; intros ->; cbn in *; discriminate.
Qed.

Lemma in_removelast {A} (x : A) l : In x (removelast l) -> In x l.
Proof.
  induction l as [|y l IH]; cbn; [tauto|]. destruct l; [cbn; tauto|]. intros [->|H]; [now left|right; now apply IH].
Qed.
Lemma fold_nstep_subset ps : forall acc p, In p (fold_left nstep ps acc) -> In p acc \/ In p ps.
Proof.
  induction ps as [|q ps IH]; intros acc p H; cbn [fold_left] in H; [now left|].
  apply IH in H as [H|H]; [|right; now right]. unfold nstep in H. destruct (str_eqb q dotdot).
  - left. now apply in_removelast.
  - apply in_app_or in H as [H|[<-|[]]]; [now left|right; now left].
Qed.
Lemma normalize_parts_subset ps p : In p (normalize_parts ps) -> In p ps.
Proof. intro H. apply fold_nstep_subset in H as [[]|H]. exact H. Qed.

Definition seg_ok (p : str) : Prop := ~ In SLASH p /\ p <> [] /\ p <> dot /\ p <> dotdot.
Lemma normalize_segments path base : Forall seg_ok (normalize path base).
Proof.
  apply Forall_forall. intros p Hp.
  assert (Hnd : str_eqb p dotdot = false).
  { pose proof (normalize_no_dotdot path base) as H. unfold has_dotdot in H.
    destruct (str_eqb p dotdot) eqn:E; [|reflexivity].
    assert (existsb (fun p => str_eqb p dotdot) (normalize path base) = true) by (apply existsb_exists; eauto).
    congruence. }
  apply normalize_parts_subset in Hp. unfold join_root in Hp.
  assert (Hin : In p (posix_parts path) \/ In p (posix_parts base)).
  { destruct (posix_abs path); [now left|]. apply in_app_or in Hp. tauto. }
  assert (Hwf : ~ In SLASH p /\ p <> [] /\ p <> dot).
  { destruct Hin as [H|H]; [pose proof (posix_parts_wf path) as W | pose proof (posix_parts_wf base) as W];
    rewrite Forall_forall in W; now apply W. }
  destruct Hwf as (A & B & C). repeat split; auto. intros ->. now rewrite str_eqb_refl in Hnd.
Qed.
