(* C19 — proofs about Model/DiagCache.v *)
From Coq Require Import ZArith NArith List Bool Lia.
Import ListNotations.
From V Require Import Model.Val Model.PyPrims Model.DiagCache.

(* ---------------- names: a uuid without '.' followed by an extension starting with '.' ---------------- *)
Lemma no_dot_cons x u : no_dot (x :: u) = true -> x <> DOTC /\ no_dot u = true.
Proof.
  unfold no_dot. cbn [existsb]. intro H. apply negb_true_iff, orb_false_iff in H as [A B].
  split; [|now apply negb_true_iff]. intro E. subst. now rewrite N.eqb_refl in A.
Qed.

Lemma dot_ext_cons e : dot_ext e = true -> exists r, e = DOTC :: r.
Proof. destruct e as [|c r]; cbn; [discriminate|]. intro H. apply N.eqb_eq in H. subst. eauto. Qed.

Lemma name_split (u u' e e' : str) :
  no_dot u = true -> no_dot u' = true -> dot_ext e = true -> dot_ext e' = true ->
  u ++ e = u' ++ e' -> u = u' /\ e = e'.
Proof.
  revert u'. induction u as [|x u IH]; intros [|y u'] Hu Hu' He He' H; cbn in H.
  - now split.
  - exfalso. apply no_dot_cons in Hu' as [A _]. apply dot_ext_cons in He as [r ->]. inversion H. congruence.
  - exfalso. apply no_dot_cons in Hu as [A _]. apply dot_ext_cons in He' as [r ->]. inversion H. congruence.
  - inversion H; subst. apply no_dot_cons in Hu as [_ Hu]. apply no_dot_cons in Hu' as [_ Hu'].
    destruct (IH u' Hu Hu' He He' H2) as [A B]. split; congruence.
Qed.

(* ---------------- nodupN ---------------- *)
Lemma existsb_eqb_In x l : existsb (N.eqb x) l = true <-> In x l.
Proof.
  rewrite existsb_exists. split.
  - intros [y [Hy E]]. apply N.eqb_eq in E. now subst.
  - intro H. exists x. split; [assumption|apply N.eqb_refl].
Qed.

Lemma nodupN_NoDup l : nodupN l = true -> NoDup l.
Proof.
  induction l as [|x l IH]; cbn; intro H; [constructor|].
  apply andb_true_iff in H as [A B]. constructor; [|now apply IH].
  intro Hin. apply existsb_eqb_In in Hin. rewrite Hin in A. discriminate.
Qed.

(* ---------------- walk ---------------- *)
Lemma walk_fuel_mono g : forall f id ch k, walk f g id = Some ch -> walk (f + k) g id = Some ch.
Proof.
  induction f as [|f IH]; intros id ch k H; cbn in *; [discriminate|].
  destruct (find_node g id) as [n|]; [|discriminate].
  destruct (n_dep n) as [d|]; [|assumption].
  destruct (walk f g d) as [r|] eqn:E; [|discriminate].
  now rewrite (IH _ _ k E).
Qed.

Lemma find_node_id g id n : find_node g id = Some n -> cv_id (n_conv n) = id.
Proof.
  induction g as [|m g IH]; cbn; [discriminate|].
  destruct (N.eqb (cv_id (n_conv m)) id) eqn:E; intro H.
  - inversion H; subst. now apply N.eqb_eq.
  - now apply IH.
Qed.

(* a walk starts at the requested converter and every element is a node of the graph *)
Lemma walk_head g : forall f id ch, walk f g id = Some ch -> exists cv r, ch = cv :: r /\ cv_id cv = id.
Proof.
  intros [|f] id ch H; cbn in H; [discriminate|].
  destruct (find_node g id) as [n|] eqn:F; [|discriminate].
  apply find_node_id in F.
  destruct (n_dep n) as [d|].
  - destruct (walk f g d); [|discriminate]. inversion H; subst. eauto.
  - inversion H; subst. eauto.
Qed.

(* a rank that decreases along `depends` bounds the walk: acyclic graphs always terminate *)
Lemma walk_ranked g (rank : N -> nat) :
  (forall id n d, find_node g id = Some n -> n_dep n = Some d ->
                  find_node g d <> None /\ (rank d < rank id)%nat) ->
  forall f id, find_node g id <> None -> (rank id < f)%nat -> exists ch, walk f g id = Some ch.
Proof.
  intros Hr. induction f as [|f IH]; intros id Hin Hlt; [lia|]. cbn.
  destruct (find_node g id) as [n|] eqn:F; [|congruence].
  destruct (n_dep n) as [d|] eqn:D; [|eauto].
  destruct (Hr _ _ _ F D) as [A B].
  destruct (IH d A ltac:(lia)) as [ch E]. rewrite E. eauto.
Qed.

Lemma graph_ok_sound g es :
  graph_ok g es = true ->
  forall name id, In (name, id) es ->
  exists ch, walk (length g) g id = Some ch /\ NoDup (map cv_id ch)
             /\ (forall cv e, In cv ch -> eligible cv = Some e -> dot_ext e = true).
Proof.
  unfold graph_ok. rewrite forallb_forall. intros H name id Hin.
  specialize (H _ Hin). cbn in H.
  destruct (walk (length g) g id) as [ch|]; [|discriminate].
  exists ch. unfold chain_ok in H. apply andb_true_iff in H as [A B].
  split; [reflexivity|]. split; [now apply nodupN_NoDup|].
  rewrite forallb_forall in B. intros cv e Hcv He. specialize (B _ Hcv). now rewrite He in B.
Qed.

Lemma lookup_entry_In es name id : lookup_entry es name = Some id -> exists n, In (n, id) es.
Proof.
  induction es as [|[n i] es IH]; cbn; [discriminate|].
  destruct (str_eqb n name); intro H.
  - inversion H; subst. eauto.
  - destruct (IH H) as [m Hm]. eauto.
Qed.

Section Cache.
  Variable data : Type.
  Variable convert : N -> data -> result data.
  Variable from_cache : N -> str -> result data.
  Notation cache := (str -> option str).
  Notation probe := (probe).
  Notation load_cache := (load_cache data convert from_cache).
  Notation run_chain := (run_chain data convert).
  Notation convert_chain := (convert_chain data convert).
  Notation render := (render data convert from_cache).

  Definition no_hit (uuid : str) (c : cache) (l : list conv) : Prop :=
    forall cv e, In cv l -> eligible cv = Some e -> c (uuid ++ e) = None.

  Lemma names_app uuid a b : names uuid (a ++ b) = names uuid a ++ names uuid b.
  Proof. unfold names. apply flat_map_app. Qed.

  Lemma probe_hit uuid (c : cache) : forall pre h post e b,
    eligible h = Some e -> c (uuid ++ e) = Some b -> no_hit uuid c pre ->
    probe uuid c (pre ++ h :: post) = (names uuid (pre ++ [h]), Some (pre, h, b)).
  Proof.
    induction pre as [|cv pre IH]; intros h post e b He Hc Hn; cbn.
    - rewrite He, Hc. reflexivity.
    - assert (Hn' : no_hit uuid c pre) by (intros x y Hx; apply Hn; now right).
      rewrite (IH h post e b He Hc Hn').
      destruct (eligible cv) as [e'|] eqn:E.
      + rewrite (Hn cv e' (or_introl eq_refl) E). reflexivity.
      + reflexivity.
  Qed.

  Lemma probe_miss uuid (c : cache) : forall chain,
    no_hit uuid c chain -> probe uuid c chain = (names uuid chain, None).
  Proof.
    induction chain as [|cv chain IH]; intro Hn; cbn; [reflexivity|].
    assert (Hn' : no_hit uuid c chain) by (intros x y Hx; apply Hn; now right).
    rewrite (IH Hn').
    destruct (eligible cv) as [e'|] eqn:E.
    - rewrite (Hn cv e' (or_introl eq_refl) E). reflexivity.
    - reflexivity.
  Qed.

  (* every chain either has a first cached ancestor or none at all *)
  Lemma first_hit_total uuid (c : cache) : forall chain,
    (exists pre h post e b, chain = pre ++ h :: post /\ eligible h = Some e /\ c (uuid ++ e) = Some b
                            /\ no_hit uuid c pre)
    \/ no_hit uuid c chain.
  Proof.
    induction chain as [|cv chain IH].
    - right. intros x y [].
    - destruct (eligible cv) as [e|] eqn:E.
      + destruct (c (uuid ++ e)) as [b|] eqn:C.
        * left. exists [], cv, chain, e, b. repeat split; try assumption. intros x y [].
        * destruct IH as [(pre & h & post & e' & b & -> & He & Hc & Hn)|Hn].
          -- left. exists (cv :: pre), h, post, e', b. repeat split; try assumption.
             intros x y [<-|Hx] Hy; [congruence|eauto].
          -- right. intros x y [<-|Hx] Hy; [congruence|eauto].
      + destruct IH as [(pre & h & post & e' & b & -> & He & Hc & Hn)|Hn].
        * left. exists (cv :: pre), h, post, e', b. repeat split; try assumption.
          intros x y [<-|Hx] Hy; [congruence|eauto].
        * right. intros x y [<-|Hx] Hy; [congruence|eauto].
  Qed.

  (* 1. the specification of __load_cache, for every chain, cache and uuid *)
  Lemma load_cache_hit uuid (c : cache) pre h post e b :
    eligible h = Some e -> c (uuid ++ e) = Some b -> no_hit uuid c pre ->
    load_cache (pre ++ h :: post) c uuid
    = (names uuid (pre ++ [h]), rbind (from_cache (cv_id h) b) (run_chain pre)).
  Proof. intros He Hc Hn. unfold DiagCache.load_cache. now rewrite (probe_hit uuid c pre h post e b He Hc Hn). Qed.

  Lemma load_cache_miss uuid (c : cache) chain :
    no_hit uuid c chain -> load_cache chain c uuid = (names uuid chain, Err E_KeyError).
  Proof. intro Hn. unfold DiagCache.load_cache. now rewrite (probe_miss uuid c chain Hn). Qed.

  Lemma load_cache_spec chain (c : cache) uuid :
    (exists pre h post e b,
        chain = pre ++ h :: post /\ eligible h = Some e /\ c (uuid ++ e) = Some b /\ no_hit uuid c pre
        /\ load_cache chain c uuid = (names uuid (pre ++ [h]), rbind (from_cache (cv_id h) b) (run_chain pre)))
    \/ (no_hit uuid c chain /\ load_cache chain c uuid = (names uuid chain, Err E_KeyError)).
  Proof.
    destruct (first_hit_total uuid c chain) as [(pre & h & post & e & b & -> & He & Hc & Hn)|Hn].
    - left. exists pre, h, post, e, b. repeat split; try assumption. now apply load_cache_hit with (e := e).
    - right. split; [assumption|now apply load_cache_miss].
  Qed.

  (* 2. converting forward from the hit = convert_format(hit, target, cached data) *)
  Lemma take_until_split : forall pre h post,
    NoDup (map cv_id (pre ++ h :: post)) -> take_until (cv_id h) (pre ++ h :: post) = Some pre.
  Proof.
    induction pre as [|cv pre IH]; intros h post Hnd; cbn.
    - now rewrite N.eqb_refl.
    - cbn in Hnd. inversion Hnd as [|x l Hnotin Hnd']; subst.
      destruct (N.eqb (cv_id cv) (cv_id h)) eqn:E.
      + exfalso. apply N.eqb_eq in E. apply Hnotin. rewrite E, map_app. apply in_or_app. right. now left.
      + now rewrite (IH h post Hnd').
  Qed.

  Lemma load_cache_is_direct_conversion uuid (c : cache) pre h post e b :
    NoDup (map cv_id (pre ++ h :: post)) ->
    eligible h = Some e -> c (uuid ++ e) = Some b -> no_hit uuid c pre ->
    snd (load_cache (pre ++ h :: post) c uuid)
    = rbind (from_cache (cv_id h) b) (convert_chain (cv_id h) (pre ++ h :: post)).
  Proof.
    intros Hnd He Hc Hn. rewrite (load_cache_hit uuid c pre h post e b He Hc Hn). cbn [snd].
    unfold DiagCache.convert_chain. now rewrite (take_until_split pre h post Hnd).
  Qed.

  (* 3. only files named <uuid><extension of a converter of the chain> are opened *)
  Lemma names_own uuid l n :
    In n (names uuid l) -> exists cv e, In cv l /\ eligible cv = Some e /\ n = uuid ++ e.
  Proof.
    unfold names. rewrite in_flat_map. intros [cv [Hcv Hn]].
    destruct (eligible cv) as [e|] eqn:E; [|destruct Hn].
    destruct Hn as [<-|[]]. eauto.
  Qed.

  Lemma opened_own chain (c : cache) uuid n :
    In n (fst (load_cache chain c uuid)) ->
    exists cv e, In cv chain /\ eligible cv = Some e /\ n = uuid ++ e.
  Proof.
    destruct (load_cache_spec chain c uuid) as [(pre & h & post & e & b & -> & He & Hc & Hn & ->)|[Hn ->]]; cbn [fst]; intro H.
    - destruct (names_own _ _ _ H) as (cv & e' & Hin & A & B). exists cv, e'. repeat split; try assumption.
      apply in_app_or in Hin as [Hin|[<-|[]]]; apply in_or_app; [now left|right; now left].
    - now apply names_own.
  Qed.

  (* 4. frame: the outcome depends on the cache only through the diagram's own names *)
  Lemma probe_frame uuid (c c' : cache) : forall chain,
    (forall cv e, In cv chain -> eligible cv = Some e -> c (uuid ++ e) = c' (uuid ++ e)) ->
    probe uuid c chain = probe uuid c' chain.
  Proof.
    induction chain as [|cv chain IH]; intro H; cbn; [reflexivity|].
    rewrite IH by (intros x y Hx; apply H; now right).
    destruct (eligible cv) as [e|] eqn:E; [|reflexivity].
    now rewrite (H cv e (or_introl eq_refl) E).
  Qed.

  Lemma load_cache_frame uuid (c c' : cache) chain :
    (forall cv e, In cv chain -> eligible cv = Some e -> c (uuid ++ e) = c' (uuid ++ e)) ->
    load_cache chain c uuid = load_cache chain c' uuid.
  Proof. intro H. unfold DiagCache.load_cache. now rewrite (probe_frame uuid c c' chain H). Qed.

  (* files of another diagram never matter: caches that differ only at names <uuid'><.ext> with
     uuid' <> uuid give the same outcome *)
  Lemma other_diagram_irrelevant uuid (c c' : cache) chain :
    no_dot uuid = true ->
    (forall cv e, In cv chain -> eligible cv = Some e -> dot_ext e = true) ->
    (forall n, c n <> c' n -> exists uuid' e', n = uuid' ++ e' /\ no_dot uuid' = true /\ dot_ext e' = true /\ uuid' <> uuid) ->
    load_cache chain c uuid = load_cache chain c' uuid.
  Proof.
    intros Hu Hext Hdiff. apply load_cache_frame. intros cv e Hcv He.
    destruct (c (uuid ++ e)) as [x|] eqn:A; destruct (c' (uuid ++ e)) as [y|] eqn:B; try reflexivity.
    all: try (destruct (list_eq_dec N.eq_dec x y) as [->|Hne]; [reflexivity|]).
    all: exfalso;
      assert (Hd : c (uuid ++ e) <> c' (uuid ++ e)) by (rewrite A, B; congruence);
      destruct (Hdiff _ Hd) as (u' & e' & Hn & Hu' & He' & Hne');
      destruct (name_split uuid u' e e' Hu Hu' (Hext cv e Hcv He) He' Hn) as [X _]; congruence.
  Qed.

  (* ---------------- 5. render policy ---------------- *)
  Section Render.
    Variables (g : list node) (es : list (str * N)).
    Variables (allow : bool) (uuid : str) (fresh : result data).

    Lemma render_none cache_ : render g es None cache_ allow uuid fresh = ([], fresh).
    Proof. reflexivity. Qed.

    Lemma render_unknown f cache_ :
      lookup_entry es f = None -> render g es (Some f) cache_ allow uuid fresh = ([], Err E_ValueError).
    Proof. intro H. unfold DiagCache.render. now rewrite H. Qed.

    Lemma render_nocache f id chain :
      lookup_entry es f = Some id -> walk (length g) g id = Some chain ->
      render g es (Some f) None allow uuid fresh = ([], rbind fresh (run_chain chain)).
    Proof. intros H W. unfold DiagCache.render. now rewrite H, W. Qed.

    Lemma render_cached f id chain (c : cache) r :
      lookup_entry es f = Some id -> walk (length g) g id = Some chain ->
      snd (load_cache chain c uuid) = r -> r <> Err E_KeyError ->
      render g es (Some f) (Some c) allow uuid fresh = (fst (load_cache chain c uuid), r).
    Proof.
      intros H W L Hr. unfold DiagCache.render. rewrite H, W.
      destruct (load_cache chain c uuid) as [o r']. cbn in L |- *. subst r'.
      destruct r as [d|e]; [reflexivity|].
      destruct e as [|p]; [reflexivity|]. destruct p; try reflexivity. now elim Hr.
    Qed.

    Lemma render_miss f id chain (c : cache) :
      lookup_entry es f = Some id -> walk (length g) g id = Some chain ->
      snd (load_cache chain c uuid) = Err E_KeyError ->
      render g es (Some f) (Some c) allow uuid fresh
      = (fst (load_cache chain c uuid),
         if allow then snd (render g es (Some f) None allow uuid fresh) else Err E_RuntimeError).
    Proof.
      intros H W L. unfold DiagCache.render. rewrite H, W.
      destruct (load_cache chain c uuid) as [o r']. cbn in L |- *. subst r'. cbn.
      destruct allow; reflexivity.
    Qed.

    (* the statement of the property in one piece *)
    Lemma render_cache_policy f id chain (c : cache) :
      lookup_entry es f = Some id -> walk (length g) g id = Some chain ->
      NoDup (map cv_id chain) ->
      (exists pre h post e b r,
          chain = pre ++ h :: post /\ eligible h = Some e /\ c (uuid ++ e) = Some b /\ no_hit uuid c pre
          /\ r = rbind (from_cache (cv_id h) b) (convert_chain (cv_id h) chain)
          /\ fst (render g es (Some f) (Some c) allow uuid fresh) = names uuid (pre ++ [h])
          /\ snd (render g es (Some f) (Some c) allow uuid fresh)
             = if (match r with Err 1%N => true | _ => false end)
               then (if allow then snd (render g es (Some f) None allow uuid fresh) else Err E_RuntimeError)
               else r)
      \/ (no_hit uuid c chain
          /\ fst (render g es (Some f) (Some c) allow uuid fresh) = names uuid chain
          /\ snd (render g es (Some f) (Some c) allow uuid fresh)
             = if allow then snd (render g es (Some f) None allow uuid fresh) else Err E_RuntimeError).
    Proof.
      intros H W Hnd.
      destruct (load_cache_spec chain c uuid) as [(pre & h & post & e & b & Hch & He & Hc & Hn & L)|[Hn L]].
      - left. exists pre, h, post, e, b, (rbind (from_cache (cv_id h) b) (convert_chain (cv_id h) chain)).
        repeat split; try assumption.
        + unfold DiagCache.render. rewrite H, W, L. cbn.
          destruct (rbind _ _) as [d|[|[p|p|]]]; try reflexivity; destruct allow; reflexivity.
        + assert (D := load_cache_is_direct_conversion uuid c pre h post e b).
          rewrite <- Hch in D. specialize (D Hnd He Hc Hn). rewrite <- D.
          unfold DiagCache.render. rewrite H, W.
          destruct (load_cache chain c uuid) as [o r]. cbn [snd].
          destruct r as [d|[|[p|p|]]]; try reflexivity; destruct allow; reflexivity.
      - right. split; [assumption|].
        unfold DiagCache.render. rewrite H, W, L. cbn. destruct allow; split; reflexivity.
    Qed.
  End Render.
End Cache.
