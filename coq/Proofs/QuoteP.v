From Coq Require Import ZArith NArith List Bool Lia.
Import ListNotations.
From V Require Import Model.Val Model.Quote.
Open Scope N_scope.

Definition bytes : list N := map N.of_nat (seq 0 256).
Lemma in_bytes b : b < 256 -> In b bytes.
Proof.
  intro H. unfold bytes. apply in_map_iff. exists (N.to_nat b). split; [apply N2Nat.id|].
  apply in_seq. lia.
Qed.
Lemma byte_forall (P : N -> bool) : forallb P bytes = true -> forall b, b < 256 -> P b = true.
Proof. intros H b Hb. rewrite forallb_forall in H. apply H. now apply in_bytes. Qed.

(* one byte: literal bytes are never '%'; escapes decode to the byte *)
Definition ok1 (b : N) : bool :=
  (if unreserved b then negb (b =? PCT) else true)
  && match hexval (hexdigit (b / 16)), hexval (hexdigit (b mod 16)) with
     | Some a, Some c => 16 * a + c =? b
     | _, _ => false
     end.
Lemma ok1_all : forallb ok1 bytes = true.
Proof. vm_compute. reflexivity. Qed.

Lemma unquote_fuel_irrel f1 : forall f2 s, (length s <= f1)%nat -> (length s <= f2)%nat ->
  unquote_fuel f1 s = unquote_fuel f2 s.
Proof.
  induction f1 as [|f1 IH]; intros [|f2] [|c s] H1 H2; cbn [length] in *; try lia; try reflexivity.
  cbn [unquote_fuel]. destruct (c =? PCT).
  - destruct s as [|h [|l r']].
    + f_equal; apply IH; cbn [length]; lia.
    + f_equal; apply IH; cbn [length] in *; lia.
    + destruct (hexval h), (hexval l); f_equal; apply IH; cbn [length] in *; lia.
  - f_equal; apply IH; lia.
Qed.
Lemma unquote_fuel_enough fuel s : (length s <= fuel)%nat -> unquote_fuel fuel s = unquote_fuel (length s) s.
Proof. intro H. apply unquote_fuel_irrel; lia. Qed.

Lemma unquote_fuel_lit f c r : (c =? PCT) = false -> unquote_fuel (S f) (c :: r) = c :: unquote_fuel f r.
Proof. intro H. cbn [unquote_fuel]. now rewrite H. Qed.
Lemma unquote_fuel_esc f h l r a b :
  hexval h = Some a -> hexval l = Some b -> unquote_fuel (S f) (PCT :: h :: l :: r) = (16 * a + b) :: unquote_fuel f r.
Proof. intros Ha Hb. cbn [unquote_fuel]. now rewrite N.eqb_refl, Ha, Hb. Qed.

Lemma unquote_cons_lit c r : (c =? PCT) = false -> unquote (c :: r) = c :: unquote r.
Proof. intro H. unfold unquote. cbn [length]. now rewrite unquote_fuel_lit. Qed.

Lemma unquote_cons_esc h l r a b :
  hexval h = Some a -> hexval l = Some b -> unquote (PCT :: h :: l :: r) = (16 * a + b) :: unquote r.
Proof.
  intros Ha Hb. unfold unquote. cbn [length]. rewrite (unquote_fuel_esc _ _ _ _ a b Ha Hb). f_equal.
  apply unquote_fuel_enough. lia.
Qed.

Theorem unquote_quote safe bs :
  Forall (fun b => b < 256) bs -> memN PCT safe = false -> unquote (quote safe bs) = bs.
Proof.
  intros Hb Hs. induction Hb as [|b bs Hb1 Hb IH]; [reflexivity|].
  unfold quote in *. cbn [flat_map]. unfold quote1 at 1.
  pose proof (byte_forall ok1 ok1_all b Hb1) as Hok. unfold ok1 in Hok.
  apply andb_true_iff in Hok as [Hlit Hesc].
  destruct (unreserved b || memN b safe) eqn:E.
  - cbn [app]. rewrite unquote_cons_lit; [now rewrite IH|].
    destruct (b =? PCT) eqn:Eb; [|reflexivity]. apply N.eqb_eq in Eb. subst b.
    rewrite Hs in E. now vm_compute in E.
  - cbn [app]. destruct (hexval (hexdigit (b / 16))) as [a|] eqn:Ea; [|discriminate].
    destruct (hexval (hexdigit (b mod 16))) as [c|] eqn:Ec; [|discriminate].
    rewrite (unquote_cons_esc _ _ _ a c Ea Ec). apply N.eqb_eq in Hesc. now rewrite Hesc, IH.
Qed.

(* every character of a quoted string is unreserved, listed as safe, '%' or an upper-case hex digit *)
Definition hexchar (c : N) : bool := ((48 <=? c) && (c <=? 57)) || ((65 <=? c) && (c <=? 70)).
Definition hexdigits_ok (b : N) : bool := hexchar (hexdigit (b / 16)) && hexchar (hexdigit (b mod 16)).
Lemma hexdigits_all : forallb hexdigits_ok bytes = true.
Proof. vm_compute. reflexivity. Qed.

Theorem quote_charset safe bs c :
  Forall (fun b => b < 256) bs -> In c (quote safe bs) ->
  unreserved c = true \/ memN c safe = true \/ c = PCT \/ hexchar c = true.
Proof.
  intros Hb Hin. unfold quote in Hin. apply in_flat_map in Hin as [b [Hbin Hc]].
  rewrite Forall_forall in Hb. specialize (Hb b Hbin).
  unfold quote1 in Hc. destruct (unreserved b || memN b safe) eqn:E.
  - destruct Hc as [<-|[]]. apply orb_true_iff in E. tauto.
  - pose proof (byte_forall hexdigits_ok hexdigits_all b Hb) as H. apply andb_true_iff in H as [H1 H2].
    destruct Hc as [<-|[<-|[<-|[]]]]; auto.
Qed.

(* consequently a quoted string contains none of the URL-structuring characters unless listed safe *)
Corollary quote_no_structure safe bs c :
  Forall (fun b => b < 256) bs -> In c (quote safe bs) -> memN c safe = false ->
  c <> 63 (* ? *) /\ c <> 35 (* # *) /\ c <> 32 /\ c <> 47 (* / *) /\ c <> 92 (* \ *).
Proof.
  intros Hb Hin Hs. destruct (quote_charset safe bs c Hb Hin) as [H|[H|[H|H]]].
  - repeat split; intros ->; now vm_compute in H.
  - congruence.
  - subst. repeat split; discriminate.
  - repeat split; intros ->; now vm_compute in H.
Qed.
