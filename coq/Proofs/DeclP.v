(* Proofs about the scheduler of Model/Decl.v *)
From Coq Require Import ZArith NArith List Bool Lia Permutation.
Import ListNotations.
From V Require Import Model.Val Model.Decl.

(* ------------------------------------------------------------------ basics *)
Lemma memP_In p P : memP p P = true <-> In p (map fst P).
Proof.
  induction P as [|[q o] P IH]; cbn; [split; [discriminate|tauto]|].
  rewrite orb_true_iff, N.eqb_eq, IH. split; intros [H|H]; auto.
Qed.

Lemma memP_false_In p P : memP p P = false <-> ~ In p (map fst P).
Proof. rewrite <- memP_In. destruct (memP p P); split; intro H; congruence. Qed.

Lemma first_missing_none needs P : first_missing needs P = None -> forall n, In n needs -> memP n P = true.
Proof.
  induction needs as [|m r IH]; cbn; [tauto|]. destruct (memP m P) eqn:E; [|discriminate].
  intros H n [<-|Hn]; auto.
Qed.

Lemma first_missing_some needs P p : first_missing needs P = Some p -> In p needs /\ memP p P = false.
Proof.
  induction needs as [|m r IH]; cbn; [discriminate|]. destruct (memP m P) eqn:E.
  - intro H. destruct (IH H). auto.
  - intros [= <-]. auto.
Qed.

Lemma lookupP_In P p o : NoDup (map fst P) -> (lookupP P p = Some o <-> In (p, o) P).
Proof.
  induction P as [|[q x] P IH]; cbn; intro ND; [split; [discriminate|tauto]|].
  inversion ND as [|? ? Hq ND']; subst. destruct (N.eqb p q) eqn:E.
  - apply N.eqb_eq in E. subst q. split.
    + intros [= ->]. auto.
    + intros [[= ->]|H]; [reflexivity|]. exfalso. apply Hq. change p with (fst (p, o)). now apply in_map.
  - apply N.eqb_neq in E. rewrite (IH ND'). split; [auto|]. intros [[= ? ?]|H]; [congruence|exact H].
Qed.

Lemma lookupP_perm P Q : NoDup (map fst P) -> Permutation P Q -> forall p, lookupP P p = lookupP Q p.
Proof.
  intros ND HP p. assert (NDQ : NoDup (map fst Q)) by (eapply Permutation_NoDup; [apply Permutation_map; exact HP|exact ND]).
  destruct (lookupP P p) as [o|] eqn:E.
  - symmetry. apply lookupP_In; [exact NDQ|]. eapply Permutation_in; [exact HP|]. now apply lookupP_In.
  - destruct (lookupP Q p) as [o|] eqn:E2; [|reflexivity].
    apply lookupP_In in E2; [|exact NDQ]. apply Permutation_sym in HP.
    eapply Permutation_in in E2; [|exact HP]. apply lookupP_In in E2; [congruence|exact ND].
Qed.

Lemma filter_partition_perm {A} (f : A -> bool) l :
  Permutation l (filter (fun x => negb (f x)) l ++ filter f l).
Proof.
  induction l as [|x l IH]; cbn; [constructor|]. destruct (f x); cbn.
  - apply Permutation_cons_app. exact IH.
  - now constructor.
Qed.

(* a small solver for goals [Permutation (a ++ b ++ c) (c ++ a ++ b)] over the same atoms *)
Lemma perm_rot {A} (l a r : list A) : Permutation l (r ++ a) -> Permutation l (a ++ r).
Proof. intro H. rewrite H. apply Permutation_app_comm. Qed.
Ltac uncons :=
  repeat match goal with
         | |- context [?x :: ?l] => lazymatch l with [] => fail | _ => change (x :: l) with ([x] ++ l) end
         end.
Ltac pnorm := repeat rewrite <- app_assoc; repeat rewrite app_nil_r; repeat rewrite app_nil_l.
Ltac pgo n :=
  pnorm;
  lazymatch goal with
  | |- Permutation ?l ?l => reflexivity
  | |- Permutation (?a ++ ?l) (?a ++ ?r) => apply Permutation_app_head; pgo n
  | |- Permutation (?a ++ ?l) (?b ++ ?r) =>
      lazymatch n with O => fail "perm: out of fuel" | S ?m => apply perm_rot; pgo m end
  | |- Permutation ?a (?b ++ ?r) => symmetry; pgo n
  end.
Ltac perm := uncons; pgo 40%nat.

(* ------------------------------------------------------------------ derived views of a state *)
Definition pend (s : st) : list act := map snd (sD s) ++ sR s.
Definition PHI (s : st) : list act := shells (pend s) ++ sX s.
Definition pids (s : st) : list N := map fst (sP s) ++ map fst (all_fuls (pend s)).

Definition fuls_act (a : act) : list (N * str) := flat_map act_fuls (shells_act a).
Fixpoint fuls_evs (e : evs) : list (N * str) :=
  match e with
  | ENil => []
  | EFul p o r => (p, o) :: fuls_evs r
  | ESub a r => fuls_act a ++ fuls_evs r
  end.

Lemma shells_app a b : shells (a ++ b) = shells a ++ shells b.
Proof. unfold shells. apply flat_map_app. Qed.

Lemma fuls_act_unfold k n b : fuls_act (Act k n b) = own_fuls b ++ flat_map act_fuls (shells_evs b).
Proof. reflexivity. Qed.

Scheme act_mut := Induction for act Sort Prop
  with evs_mut := Induction for evs Sort Prop.
Combined Scheme act_evs_ind from act_mut, evs_mut.

(* fuls_evs e lists, up to order, the own declarations of e and those of every nested action *)
Lemma fuls_evs_perm :
  (forall a : act, True) /\
  (forall e, Permutation (fuls_evs e) (own_fuls e ++ flat_map act_fuls (shells_evs e))).
Proof.
  apply act_evs_ind.
  - intros; exact I.
  - cbn. constructor.
  - intros p o r IH. cbn. apply perm_skip. exact IH.
  - intros a _ r IH. cbn [fuls_evs own_fuls shells_evs]. rewrite flat_map_app.
    change (flat_map act_fuls (shells_act a)) with (fuls_act a).
    rewrite IH. rewrite !app_assoc. apply Permutation_app_tail. apply Permutation_app_comm.
Qed.

Lemma fuls_act_body a : Permutation (fuls_act a) (fuls_evs (a_body a)).
Proof. destruct a as [k n b]. rewrite fuls_act_unfold. cbn. symmetry. apply fuls_evs_perm. Qed.

Lemma all_fuls_app a b : all_fuls (a ++ b) = all_fuls a ++ all_fuls b.
Proof. unfold all_fuls. now rewrite shells_app, flat_map_app. Qed.

Lemma all_fuls_cons a l : all_fuls (a :: l) = fuls_act a ++ all_fuls l.
Proof. unfold all_fuls, fuls_act. cbn. now rewrite flat_map_app. Qed.

Lemma all_fuls_perm l l' : Permutation l l' -> Permutation (all_fuls l) (all_fuls l').
Proof. intro H. unfold all_fuls, shells. now do 2 apply Permutation_flat_map. Qed.

Lemma shells_perm l l' : Permutation l l' -> Permutation (shells l) (shells l').
Proof. intro H. now apply Permutation_flat_map. Qed.

(* ------------------------------------------------------------------ the effect of one fulfilment *)
Lemma pend_fulfil p o s : Permutation (pend (fulfil p o s)) (pend s).
Proof.
  unfold pend, fulfil; cbn [sD sR].
  rewrite (Permutation_app_comm (sR s)), app_assoc, <- map_app.
  apply Permutation_app_tail. apply Permutation_map. symmetry.
  apply (filter_partition_perm (waits p)).
Qed.

(* ------------------------------------------------------------------ conservation of actions *)
Lemma conserve_acts :
  (forall a s s', exec_act a s = Ok s' -> Permutation (PHI s') (shells_act a ++ PHI s)) /\
  (forall e s s', exec_evs e s = Ok s' -> Permutation (PHI s') (shells_evs e ++ PHI s)).
Proof.
  apply act_evs_ind.
  - intros k needs body IH s s' H. cbn [exec_act] in H.
    destruct (first_missing needs (sP s)) as [p|] eqn:E.
    + injection H as <-. unfold PHI, pend, defer; cbn [sD sR sX].
      rewrite map_app, <- app_assoc, !shells_app. cbn [map snd shells flat_map]. rewrite app_nil_r.
      perm.
    + apply IH in H. rewrite H. unfold PHI, mark, pend; cbn [sD sR sX shells_act]. perm.
  - intros s s' [= <-]. reflexivity.
  - intros p o r IH s s' H. cbn [exec_evs] in H. destruct (memP p (sP s)); [discriminate|].
    apply IH in H. rewrite H. cbn [shells_evs]. apply Permutation_app_head.
    unfold PHI. apply Permutation_app; [|reflexivity]. apply shells_perm, pend_fulfil.
  - intros a IHa r IHr s s' H. cbn [exec_evs] in H. destruct (exec_act a s) as [s1|s1] eqn:E; [|discriminate].
    apply IHa in E. apply IHr in H. rewrite H, E. cbn [shells_evs]. perm.
Qed.

(* ------------------------------------------------------------------ conservation of declarations *)
Definition KF (s : st) : list (N * str) := sP s ++ all_fuls (pend s).

Lemma all_fuls_pend_fulfil p o s : Permutation (all_fuls (pend (fulfil p o s))) (all_fuls (pend s)).
Proof. apply all_fuls_perm, pend_fulfil. Qed.

Lemma conserve_fuls :
  (forall a s s', exec_act a s = Ok s' -> Permutation (KF s') (fuls_act a ++ KF s)) /\
  (forall e s s', exec_evs e s = Ok s' -> Permutation (KF s') (fuls_evs e ++ KF s)).
Proof.
  apply act_evs_ind.
  - intros k needs body IH s s' H. cbn [exec_act] in H.
    destruct (first_missing needs (sP s)) as [p|] eqn:E.
    + injection H as <-. unfold KF, pend, defer; cbn [sD sR sX sP].
      rewrite map_app, <- app_assoc, !all_fuls_app. cbn [map snd]. rewrite all_fuls_cons.
      change (all_fuls []) with (@nil (N * str)). perm.
    + apply IH in H. rewrite H. rewrite (fuls_act_body (Act k needs body)). cbn [a_body].
      apply Permutation_app_head. reflexivity.
  - intros s s' [= <-]. reflexivity.
  - intros p o r IH s s' H. cbn [exec_evs] in H. destruct (memP p (sP s)); [discriminate|].
    apply IH in H. rewrite H. cbn [fuls_evs]. unfold KF at 1. cbn [fulfil sP].
    rewrite all_fuls_pend_fulfil. unfold KF. perm.
  - intros a IHa r IHr s s' H. cbn [exec_evs] in H. destruct (exec_act a s) as [s1|s1] eqn:E; [|discriminate].
    apply IHa in E. apply IHr in H. rewrite H, E. cbn [fuls_evs]. perm.
Qed.

Lemma NoDup_app_remove_l {A} (l l' : list A) : NoDup (l ++ l') -> NoDup l'.
Proof. induction l as [|x l IH]; cbn; [auto|]. intro H. inversion H; auto. Qed.

Lemma NoDup_map_perm {A B} (f : A -> B) l l' : Permutation l l' -> NoDup (map f l) -> NoDup (map f l').
Proof. intros H. apply Permutation_NoDup. now apply Permutation_map. Qed.

Lemma dup_detect :
  (forall a s s', exec_act a s = Dup s' -> ~ NoDup (map fst (fuls_act a ++ KF s))) /\
  (forall e s s', exec_evs e s = Dup s' -> ~ NoDup (map fst (fuls_evs e ++ KF s))).
Proof.
  apply act_evs_ind.
  - intros k needs body IH s s' H. cbn [exec_act] in H.
    destruct (first_missing needs (sP s)) as [p|] eqn:E; [discriminate|].
    apply IH in H. intro ND. apply H.
    eapply NoDup_map_perm; [|exact ND]. apply Permutation_app_tail.
    apply (fuls_act_body (Act k needs body)).
  - intros s s' H. discriminate.
  - intros p o r IH s s' H. cbn [exec_evs] in H. destruct (memP p (sP s)) eqn:M.
    + intro ND. cbn in ND. inversion ND as [|? ? Hn _]; subst. apply Hn.
      rewrite map_app. apply in_or_app. right. unfold KF. rewrite map_app. apply in_or_app. left.
      now apply memP_In.
    + apply IH in H. intro ND. apply H. eapply NoDup_map_perm; [|exact ND].
      cbn [fuls_evs]. unfold KF. cbn [fulfil sP]. rewrite all_fuls_pend_fulfil. perm.
  - intros a IHa r IHr s s' H. cbn [exec_evs] in H. destruct (exec_act a s) as [s1|s1] eqn:E.
    + apply IHr in H. intro ND. apply H. eapply NoDup_map_perm; [|exact ND].
      apply (proj1 conserve_fuls) in E. rewrite E. cbn [fuls_evs]. perm.
    + injection H as <-. apply IHa in E. intro ND. apply E.
      cbn [fuls_evs] in ND.
      assert (HP : Permutation ((fuls_act a ++ fuls_evs r) ++ KF s) (fuls_evs r ++ (fuls_act a ++ KF s))) by perm.
      eapply NoDup_map_perm in ND; [|exact HP]. rewrite map_app in ND.
      now apply NoDup_app_remove_l in ND.
Qed.

Lemma nodup_keys :
  (forall a s s', exec_act a s = Ok s' -> NoDup (map fst (sP s)) -> NoDup (map fst (sP s'))) /\
  (forall e s s', exec_evs e s = Ok s' -> NoDup (map fst (sP s)) -> NoDup (map fst (sP s'))).
Proof.
  apply act_evs_ind.
  - intros k needs body IH s s' H ND. cbn [exec_act] in H.
    destruct (first_missing needs (sP s)) as [p|] eqn:E.
    + injection H as <-. exact ND.
    + eapply IH; [exact H|exact ND].
  - intros s s' [= <-] ND. exact ND.
  - intros p o r IH s s' H ND. cbn [exec_evs] in H. destruct (memP p (sP s)) eqn:M; [discriminate|].
    eapply IH; [exact H|]. cbn. constructor; [now apply memP_false_In|exact ND].
  - intros a IHa r IHr s s' H ND. cbn [exec_evs] in H. destruct (exec_act a s) as [s1|s1] eqn:E; [|discriminate].
    eapply IHr; [exact H|]. eapply IHa; [exact E|exact ND].
Qed.

(* ------------------------------------------------------------------ the loop *)
Definition ALLA (q : list act) (s : st) : list act := shells q ++ PHI s.
Definition ALLF (q : list act) (s : st) : list (N * str) := all_fuls q ++ KF s.

Lemma step_ALLA a q s s1 : exec_act a s = Ok s1 -> sR s = [] ->
  Permutation (ALLA (q ++ sR s1) (takeR s1)) (ALLA (a :: q) s).
Proof.
  intros E HR. apply (proj1 conserve_acts) in E. unfold ALLA.
  change (shells (a :: q)) with (shells_act a ++ shells q).
  transitivity (shells q ++ PHI s1).
  - unfold PHI, pend, takeR; cbn [sD sR sX]. rewrite !shells_app, app_nil_r. perm.
  - rewrite E. perm.
Qed.

Lemma step_ALLF a q s s1 : exec_act a s = Ok s1 ->
  Permutation (ALLF (q ++ sR s1) (takeR s1)) (ALLF (a :: q) s).
Proof.
  intros E. apply (proj1 conserve_fuls) in E. unfold ALLF.
  rewrite all_fuls_cons. transitivity (all_fuls q ++ KF s1).
  - unfold KF, pend, takeR; cbn [sD sR sX sP]. rewrite !all_fuls_app, app_nil_r. perm.
  - rewrite E. perm.
Qed.

Lemma loop_done fuel : forall q s s', loop fuel q s = Done s' -> sR s = [] -> NoDup (map fst (sP s)) ->
  Permutation (sX s') (ALLA q s) /\ Permutation (sP s') (ALLF q s) /\ NoDup (map fst (sP s')).
Proof.
  induction fuel as [|f IH]; intros q s s' H HR ND; cbn [loop] in H; [discriminate|].
  destruct q as [|a q].
  - destruct (sD s) eqn:ED; [|discriminate]. injection H as <-.
    unfold ALLA, ALLF, PHI, KF, pend. rewrite ED, HR. cbn. rewrite app_nil_r. auto.
  - destruct (exec_act a s) as [s1|s1] eqn:E; [|discriminate].
    apply IH in H; [|reflexivity|].
    + destruct H as (H1 & H2 & H3). split; [|split]; [| |exact H3].
      * rewrite H1. now apply step_ALLA.
      * rewrite H2. now apply step_ALLF.
    + cbn. eapply (proj1 nodup_keys); eauto.
Qed.

Lemma loop_dup fuel : forall q s s', loop fuel q s = DupErr s' -> ~ NoDup (map fst (ALLF q s)).
Proof.
  induction fuel as [|f IH]; intros q s s' H; cbn [loop] in H; [discriminate|].
  destruct q as [|a q].
  - destruct (sD s); discriminate.
  - destruct (exec_act a s) as [s1|s1] eqn:E.
    + apply IH in H. intro ND. apply H. eapply NoDup_map_perm; [|exact ND]. symmetry. now apply step_ALLF.
    + apply (proj1 dup_detect) in E. intro ND. apply E. unfold ALLF in ND. rewrite all_fuls_cons in ND.
      assert (HP : Permutation ((fuls_act a ++ all_fuls q) ++ KF s) (all_fuls q ++ (fuls_act a ++ KF s))) by perm.
      eapply NoDup_map_perm in ND; [|exact HP]. rewrite map_app in ND. now apply NoDup_app_remove_l in ND.
Qed.

Lemma ALLA_init d : ALLA d st0 = shells d.
Proof. unfold ALLA, PHI, pend. cbn. now rewrite app_nil_r. Qed.
Lemma ALLF_init d : ALLF d st0 = all_fuls d.
Proof. unfold ALLF, KF, pend. cbn. now rewrite app_nil_r. Qed.

(* T1-T3: a successful run executed every action of the document exactly once and the promise map is
   exactly the set of declarations, without duplicates *)
Lemma run_done d s : run d = Done s ->
  Permutation (sX s) (shells d) /\ Permutation (sP s) (all_fuls d) /\ NoDup (map fst (sP s)).
Proof.
  unfold run. intro H. apply loop_done in H; [|reflexivity|constructor].
  now rewrite ALLA_init, ALLF_init in H.
Qed.

(* T4 *)
Lemma run_dup d s : run d = DupErr s -> ~ NoDup (map fst (all_fuls d)).
Proof. unfold run. intro H. apply loop_dup in H. now rewrite ALLF_init in H. Qed.


(* ------------------------------------------------------------------ the order-free semantics: which actions fire *)
Fixpoint subs (e : evs) : list act :=
  match e with ENil => [] | EFul _ _ r => subs r | ESub a r => a :: subs r end.

Inductive fired (d : list act) : act -> Prop :=
| fired_top a : In a d -> (forall n, In n (a_needs a) -> avail d n) -> fired d a
| fired_sub a b : fired d a -> In b (subs (a_body a)) -> (forall n, In n (a_needs b) -> avail d n) -> fired d b
with avail (d : list act) : N -> Prop :=
| avail_by a p o : fired d a -> In (p, o) (own_fuls (a_body a)) -> avail d p.

Scheme fired_mut := Minimality for fired Sort Prop
  with avail_mut := Minimality for avail Sort Prop.
Combined Scheme fired_avail_ind from fired_mut, avail_mut.

Definition reached (d : list act) (a : act) : Prop :=
  In a d \/ exists a0, fired d a0 /\ In a (subs (a_body a0)).

Lemma fired_of_reached d a : reached d a -> (forall n, In n (a_needs a) -> avail d n) -> fired d a.
Proof. intros [H|(a0 & H0 & H1)] Hn; [now apply fired_top|now apply fired_sub with a0]. Qed.

Lemma fired_perm d d' : (forall x, In x d -> In x d') ->
  (forall a, fired d a -> fired d' a) /\ (forall p, avail d p -> avail d' p).
Proof.
  intro Hin. apply fired_avail_ind.
  - intros a Ha _ IH. apply fired_top; auto.
  - intros a b _ IHa Hb _ IH. apply fired_sub with a; auto.
  - intros a p o _ IHa Hp. apply avail_by with a o; auto.
Qed.

(* soundness: whatever the scheduler executes has fired, whatever it resolves is available *)
Record sound (d : list act) (s : st) : Prop := {
  snd_X : forall a, In a (sX s) -> fired d a;
  snd_P : forall p, In p (map fst (sP s)) -> avail d p;
  snd_pend : forall a, In a (pend s) -> reached d a }.

Lemma sound_exec d :
  (forall a s s', exec_act a s = Ok s' -> sound d s -> reached d a -> sound d s') /\
  (forall e s s', exec_evs e s = Ok s' -> sound d s ->
      (forall po, In po (own_fuls e) -> avail d (fst po)) -> (forall b, In b (subs e) -> reached d b) -> sound d s').
Proof.
  apply act_evs_ind.
  - intros k needs body IH s s' H S R. cbn [exec_act] in H.
    destruct (first_missing needs (sP s)) as [p|] eqn:E.
    + injection H as <-. destruct S as [S1 S2 S3]. split; cbn [defer sX sP]; auto.
      intros a Ha. unfold pend in Ha. cbn [defer sD sR] in Ha. rewrite map_app in Ha. cbn in Ha.
      rewrite <- app_assoc in Ha. apply in_app_or in Ha. destruct Ha as [Ha|[<-|Ha]]; auto.
      * apply S3. unfold pend. apply in_or_app. now left.
      * apply S3. unfold pend. apply in_or_app. now right.
    + assert (F : fired d (Act k needs body)).
      { apply fired_of_reached; [exact R|]. intros n Hn. apply (snd_P _ _ S). apply memP_In.
        eapply first_missing_none; eauto. }
      eapply IH; [exact H| | |].
      * destruct S as [S1 S2 S3]. split; cbn [mark sX sP]; auto. intros a [<-|Ha]; auto.
      * intros [p o] Hp. apply avail_by with (Act k needs body) o; auto.
      * intros b Hb. right. exists (Act k needs body). auto.
  - intros s s' [= <-] S _ _. exact S.
  - intros p o r IH s s' H S Hf Hs. cbn [exec_evs] in H. destruct (memP p (sP s)); [discriminate|].
    eapply IH; [exact H| | |].
    + destruct S as [S1 S2 S3]. split; cbn [fulfil sX sP]; auto.
      * intros q [<-|Hq]; auto. apply (Hf (p, o)). now left.
      * intros a Ha. apply S3. eapply Permutation_in; [apply pend_fulfil|exact Ha].
    + intros po Hpo. apply Hf. now right.
    + exact Hs.
  - intros a IHa r IHr s s' H S Hf Hs. cbn [exec_evs] in H. destruct (exec_act a s) as [s1|s1] eqn:E; [|discriminate].
    eapply IHr; [exact H| | |].
    + eapply IHa; [exact E|exact S|]. apply Hs. now left.
    + exact Hf.
    + intros b Hb. apply Hs. now right.
Qed.

Lemma sound_loop d fuel : forall q s s', (loop fuel q s = Done s' \/ loop fuel q s = Unfulfilled s') ->
  sR s = [] -> sound d s -> (forall a, In a q -> reached d a) -> sound d s'.
Proof.
  induction fuel as [|f IH]; intros q s s' H HR S Hq; cbn [loop] in H; [destruct H; discriminate|].
  destruct q as [|a q].
  - assert (s' = s) as -> by (destruct (sD s); destruct H as [H|H]; congruence). exact S.
  - destruct (exec_act a s) as [s1|s1] eqn:E; [|destruct H; discriminate].
    assert (S1 : sound d s1) by (eapply (proj1 (sound_exec d)); [exact E|exact S|apply Hq; now left]).
    eapply IH; [exact H|reflexivity| |].
    + destruct S1 as [A B C]. split; cbn [takeR sX sP]; auto.
      intros x Hx. apply C. unfold pend in *. cbn [takeR sD sR] in Hx. rewrite app_nil_r in Hx.
      apply in_or_app. now left.
    + intros x Hx. apply in_app_or in Hx. destruct Hx as [Hx|Hx]; [apply Hq; now right|].
      apply (snd_pend _ _ S1). unfold pend. apply in_or_app. now right.
Qed.

Lemma sound_end d s : run d = Done s \/ run d = Unfulfilled s -> sound d s.
Proof.
  unfold run. intro H. eapply sound_loop; [exact H|reflexivity| |].
  - split; cbn; tauto.
  - intros a Ha. now left.
Qed.
Lemma sound_run d s : run d = Done s -> sound d s.
Proof. intro H. apply sound_end. now left. Qed.

(* completeness: when the queue runs empty without a duplicate, everything that fires has been executed *)
Definition live (s : st) (a : act) : Prop := In a (pend s) \/ In a (sX s).
Definition good (s : st) (a : act) : Prop :=
  (forall b, In b (subs (a_body a)) -> live s b) /\
  (forall po, In po (own_fuls (a_body a)) -> memP (fst po) (sP s) = true).
Definition mono (s s' : st) : Prop :=
  (forall a, live s a -> live s' a) /\ (forall p, memP p (sP s) = true -> memP p (sP s') = true).
Definition waiting (s : st) : Prop :=
  forall p a, In (p, a) (sD s) -> In p (a_needs a) /\ memP p (sP s) = false.

Lemma mono_refl s : mono s s. Proof. split; auto. Qed.
Lemma mono_trans a b c : mono a b -> mono b c -> mono a c.
Proof. intros [A B] [C D]. split; auto. Qed.
Lemma good_mono s s' x : mono s s' -> good s x -> good s' x.
Proof. intros [A B] [C D]. split; auto. Qed.

Lemma mono_fulfil p o s : mono s (fulfil p o s).
Proof.
  split.
  - intros a [H|H]; [left|right; exact H]. eapply Permutation_in; [symmetry; apply pend_fulfil|exact H].
  - intros q H. cbn. now rewrite H, orb_true_r.
Qed.

Lemma waiting_fulfil p o s : waiting s -> waiting (fulfil p o s).
Proof.
  intros W q a H. cbn [fulfil sD sP] in *. apply filter_In in H. destruct H as [H Hw].
  destruct (W _ _ H) as [W1 W2]. split; [exact W1|]. cbn. rewrite W2, orb_false_r.
  unfold waits in Hw. cbn in Hw. now apply negb_true_iff in Hw.
Qed.

Lemma compl_exec :
  (forall a s s', exec_act a s = Ok s' -> waiting s ->
     mono s s' /\ live s' a /\ waiting s' /\ (forall x, In x (sX s') -> In x (sX s) \/ good s' x)) /\
  (forall e s s', exec_evs e s = Ok s' -> waiting s ->
     mono s s' /\ (forall b, In b (subs e) -> live s' b) /\
     (forall po, In po (own_fuls e) -> memP (fst po) (sP s') = true) /\
     waiting s' /\ (forall x, In x (sX s') -> In x (sX s) \/ good s' x)).
Proof.
  apply act_evs_ind.
  - intros k needs body IH s s' H W. cbn [exec_act] in H.
    destruct (first_missing needs (sP s)) as [p|] eqn:E.
    + injection H as <-. apply first_missing_some in E. destruct E as [E1 E2].
      split; [|split; [|split]].
      * split; [|auto]. intros a [Ha|Ha]; [left|right; exact Ha].
        unfold pend in *. cbn [defer sD sR]. rewrite map_app. apply in_app_or in Ha.
        apply in_or_app. destruct Ha; [left; apply in_or_app; now left|now right].
      * left. unfold pend. cbn [defer sD sR]. rewrite map_app. apply in_or_app. left. apply in_or_app. right. now left.
      * intros q a Hq. cbn [defer sD sP] in *. apply in_app_or in Hq. destruct Hq as [Hq|[[= <- <-]|[]]]; auto.
      * intros x Hx. now left.
    + destruct (IH (mark (Act k needs body) s) s' H W) as (M & Hs & Hf & W' & HX).
      assert (M0 : mono s (mark (Act k needs body) s)).
      { split; [|auto]. intros a [Ha|Ha]; [now left|right; now right]. }
      split; [eapply mono_trans; eauto|]. split; [|split; [exact W'|]].
      * apply (proj1 M). right. now left.
      * intros x Hx. destruct (HX x Hx) as [[<-|Hx']|Hx']; auto. right. split; auto.
  - intros s s' [= <-] W. split; [apply mono_refl|]. split; [intros ? []|]. split; [intros ? []|]. split; [exact W|]. auto.
  - intros p o r IH s s' H W. cbn [exec_evs] in H. destruct (memP p (sP s)); [discriminate|].
    destruct (IH _ _ H (waiting_fulfil p o s W)) as (M & Hs & Hf & W' & HX).
    split; [eapply mono_trans; [apply mono_fulfil|exact M]|]. split; [exact Hs|]. split; [|split; [exact W'|exact HX]].
    intros po [<-|Hpo]; auto. apply (proj2 M). cbn. now rewrite N.eqb_refl.
  - intros a IHa r IHr s s' H W. cbn [exec_evs] in H. destruct (exec_act a s) as [s1|s1] eqn:E; [|discriminate].
    destruct (IHa _ _ E W) as (M1 & La & W1 & HX1).
    destruct (IHr _ _ H W1) as (M & Hs & Hf & W' & HX).
    split; [eapply mono_trans; eauto|]. split; [|split; [exact Hf|split; [exact W'|]]].
    + intros b [<-|Hb]; auto. now apply (proj1 M).
    + intros x Hx. destruct (HX x Hx) as [Hx'|Hx']; auto.
      destruct (HX1 x Hx') as [Hx''|Hx'']; auto. right. eapply good_mono; eauto.
Qed.

Definition liveq (q : list act) (s : st) (a : act) : Prop := In a q \/ live s a.
Definition goodq (q : list act) (s : st) (a : act) : Prop :=
  (forall b, In b (subs (a_body a)) -> liveq q s b) /\
  (forall po, In po (own_fuls (a_body a)) -> memP (fst po) (sP s) = true).

Record cmpl (d q : list act) (s : st) : Prop := {
  c_top : forall a, In a d -> liveq q s a;
  c_good : forall x, In x (sX s) -> goodq q s x;
  c_wait : waiting s }.

Lemma live_takeR q s x : live s x -> liveq (q ++ sR s) (takeR s) x.
Proof.
  intros [H|H]; [|right; right; exact H]. unfold pend in H. apply in_app_or in H.
  destruct H as [H|H].
  - right. left. unfold pend. cbn. apply in_or_app. now left.
  - left. apply in_or_app. now right.
Qed.

Lemma cmpl_step d a q s s1 : exec_act a s = Ok s1 -> cmpl d (a :: q) s -> cmpl d (q ++ sR s1) (takeR s1).
Proof.
  intros E [C1 C2 C3]. destruct (proj1 compl_exec _ _ _ E C3) as (M & La & W1 & HX).
  assert (LT : forall x, liveq (a :: q) s x -> liveq (q ++ sR s1) (takeR s1) x).
  { intros x [[<-|Hq]|Hl].
    - now apply live_takeR.
    - left. apply in_or_app. now left.
    - apply live_takeR. now apply (proj1 M). }
  split.
  - intros x Hx. apply LT. now apply C1.
  - intros x Hx. cbn [takeR sX] in Hx. destruct (HX x Hx) as [H|H].
    + destruct (C2 x H) as [G1 G2]. split; [intros b Hb; apply LT; now apply G1|].
      intros po Hpo. cbn [takeR sP]. apply (proj2 M). now apply G2.
    + destruct H as [G1 G2]. split; [intros b Hb; apply live_takeR; now apply G1|exact G2].
  - exact W1.
Qed.

Lemma cmpl_final d s : cmpl d [] s -> sR s = [] ->
  (forall a, fired d a -> In a (sX s)) /\ (forall p, avail d p -> memP p (sP s) = true).
Proof.
  intros [C1 C2 C3] HR.
  assert (K : forall a, liveq [] s a -> (forall n, In n (a_needs a) -> memP n (sP s) = true) -> In a (sX s)).
  { intros a [[]|[H|H]] Hn; [|exact H]. unfold pend in H. rewrite HR, app_nil_r in H.
    apply in_map_iff in H. destruct H as ([p b] & <- & H). destruct (C3 _ _ H) as [W1 W2].
    cbn in *. rewrite (Hn _ W1) in W2. discriminate. }
  apply fired_avail_ind.
  - intros a Ha _ IH. apply K; auto.
  - intros a b _ IHa Hb _ IH. apply K; auto. now apply (proj1 (C2 a IHa)).
  - intros a p o _ IHa Hp. apply (proj2 (C2 a IHa) (p, o) Hp).
Qed.

(* what holds when the queue runs empty: nothing is lost (conservation) and everything that fires ran *)
Lemma loop_end d fuel : forall q s s', (loop fuel q s = Done s' \/ loop fuel q s = Unfulfilled s') ->
  sR s = [] -> cmpl d q s ->
  cmpl d [] s' /\ sR s' = [] /\ Permutation (PHI s') (ALLA q s).
Proof.
  induction fuel as [|f IH]; intros q s s' H HR C; cbn [loop] in H; [destruct H; discriminate|].
  destruct q as [|a q].
  - assert (s' = s) as -> by (destruct (sD s); destruct H as [H|H]; congruence).
    split; [exact C|]. split; [exact HR|]. unfold ALLA. reflexivity.
  - destruct (exec_act a s) as [s1|s1] eqn:E; [|destruct H; discriminate].
    destruct (IH _ _ _ H eq_refl (cmpl_step _ _ _ _ _ E C)) as (A & B & P).
    split; [exact A|]. split; [exact B|]. rewrite P. now apply step_ALLA.
Qed.

Lemma cmpl_init d : cmpl d d st0.
Proof. split; [intros a Ha; now left|intros x []|intros p a []]. Qed.

Lemma loop_unf_nonempty fuel : forall q s s', loop fuel q s = Unfulfilled s' -> sD s' <> [].
Proof.
  induction fuel as [|f IH]; intros q s s' H; cbn [loop] in H; [discriminate|].
  destruct q as [|a q].
  - destruct (sD s) eqn:ED; [discriminate|]. injection H as <-. now rewrite ED.
  - destruct (exec_act a s) as [s1|s1] eqn:E; [|discriminate]. eapply IH; eauto.
Qed.

(* O3 *)
Lemma done_excludes_unf d d' s s' : Permutation d d' -> run d = Done s -> run d' = Unfulfilled s' -> False.
Proof.
  intros HP HD HU.
  destruct (run_done _ _ HD) as (X1 & _ & _). pose proof (sound_run _ _ HD) as S.
  unfold run in HU. pose proof (loop_unf_nonempty _ _ _ _ HU) as NE.
  destruct (loop_end d' _ _ _ _ (or_intror HU) eq_refl (cmpl_init d')) as (C & HR & PH).
  rewrite ALLA_init in PH.
  destruct (sD s') as [|[p a] D'] eqn:ED; [congruence|].
  assert (Ha : In a (shells d')).
  { eapply Permutation_in; [exact PH|]. unfold PHI, pend. rewrite ED. cbn.
    destruct a as [k n b]. cbn. now left. }
  assert (Fa : fired d' a).
  { apply (proj1 (fired_perm d d' (fun x => Permutation_in x HP))).
    apply (snd_X _ _ S). eapply Permutation_in; [symmetry; exact X1|].
    eapply Permutation_in; [symmetry; apply shells_perm; exact HP|exact Ha]. }
  destruct (c_wait _ _ _ C p a) as [W1 W2]; [rewrite ED; now left|].
  assert (Av : avail d' p).
  { inversion Fa; subst; auto. }
  rewrite (proj2 (cmpl_final _ _ C HR) p Av) in W2. discriminate.
Qed.

(* ------------------------------------------------------------------ termination: the fuel of [run] suffices *)
Definition miss (P : list (N * str)) (a : act) : nat :=
  length (filter (fun n => negb (memP n P)) (a_needs a)).
Definition wt1 (P : list (N * str)) (a : act) : nat := 2 * miss P a + 1.
Definition wts (P : list (N * str)) (l : list act) : nat := list_sum (map (wt1 P) (shells l)).
Definition wte (P : list (N * str)) (e : evs) : nat := list_sum (map (wt1 P) (shells_evs e)).
Definition pot (s : st) : nat := wts (sP s) (pend s).
Definition nd (s : st) : nat := length (sD s).
Definition Ple (P P' : list (N * str)) : Prop := forall n, memP n P = true -> memP n P' = true.

Lemma list_sum_cons x l : list_sum (x :: l) = (x + list_sum l)%nat.
Proof. reflexivity. Qed.

Lemma wts_app P a b : wts P (a ++ b) = (wts P a + wts P b)%nat.
Proof. unfold wts. now rewrite shells_app, map_app, list_sum_app. Qed.

Lemma wts_cons P k n b l : wts P (Act k n b :: l) = (wt1 P (Act k n b) + wte P b + wts P l)%nat.
Proof.
  unfold wts, wte. cbn [shells flat_map shells_act]. rewrite <- app_comm_cons. cbn [map].
  rewrite map_app, list_sum_cons, list_sum_app. unfold shells. lia.
Qed.

Lemma miss_le P P' a : Ple P P' -> (miss P' a <= miss P a)%nat.
Proof.
  intro H. unfold miss. induction (a_needs a) as [|n r IH]; cbn; [lia|].
  destruct (memP n P) eqn:E.
  - rewrite (H _ E). cbn. exact IH.
  - cbn. destruct (memP n P'); cbn; lia.
Qed.

Lemma wt1_le P P' a : Ple P P' -> (wt1 P' a <= wt1 P a)%nat.
Proof. intro H. unfold wt1. pose proof (miss_le _ _ a H). lia. Qed.

Lemma sum_le P P' l : Ple P P' -> (list_sum (map (wt1 P') l) <= list_sum (map (wt1 P) l))%nat.
Proof. intro H. induction l as [|x l IH]; cbn [map]; [lia|]. rewrite !list_sum_cons. pose proof (wt1_le _ _ x H). lia. Qed.

Lemma wts_le P P' l : Ple P P' -> (wts P' l <= wts P l)%nat.
Proof. intro H. now apply sum_le. Qed.
Lemma wte_le P P' e : Ple P P' -> (wte P' e <= wte P e)%nat.
Proof. intro H. now apply sum_le. Qed.

(* an action that waited for p gets strictly lighter once p is there *)
Lemma filter_len_le {A} (f g : A -> bool) l : (forall x, f x = true -> g x = true) ->
  (length (filter f l) <= length (filter g l))%nat.
Proof.
  intro H. induction l as [|x l IH]; cbn [filter]; [lia|].
  destruct (f x) eqn:E; [rewrite (H _ E); cbn [length]; lia|]. destruct (g x); cbn [length]; lia.
Qed.
Lemma filter_len_lt {A} (f g : A -> bool) l p : (forall x, f x = true -> g x = true) ->
  In p l -> g p = true -> f p = false -> (length (filter f l) + 1 <= length (filter g l))%nat.
Proof.
  intros H Hin Hg Hf. induction l as [|x l IH]; [destruct Hin|]. cbn [filter]. destruct Hin as [->|Hin].
  - rewrite Hg, Hf. cbn [length]. pose proof (filter_len_le f g l H). lia.
  - specialize (IH Hin). destruct (f x) eqn:E; [rewrite (H _ E); cbn [length]; lia|].
    destruct (g x); cbn [length]; lia.
Qed.
Lemma miss_drop P p o a : In p (a_needs a) -> memP p P = false -> (miss ((p, o) :: P) a + 1 <= miss P a)%nat.
Proof.
  intros Hin Hm. unfold miss. apply filter_len_lt with p; auto.
  - intros x Hx. apply negb_true_iff in Hx. apply negb_true_iff. cbn in Hx. now apply orb_false_iff in Hx.
  - now rewrite Hm.
  - cbn. now rewrite N.eqb_refl.
Qed.

Lemma Ple_cons P p o : Ple P ((p, o) :: P).
Proof. intros n H. cbn. now rewrite H, orb_true_r. Qed.

Lemma wts_one_drop P p o a : In p (a_needs a) -> memP p P = false ->
  (wts ((p, o) :: P) [a] + 2 <= wts P [a])%nat.
Proof.
  intros Hin Hm. destruct a as [k n b]. rewrite !wts_cons.
  pose proof (miss_drop P p o (Act k n b) Hin Hm). unfold wt1.
  pose proof (wte_le P ((p, o) :: P) b (Ple_cons P p o)).
  pose proof (wts_le P ((p, o) :: P) [] (Ple_cons P p o)). lia.
Qed.

Lemma fulfil_pot_D P p o D :
  (forall q a, In (q, a) D -> In q (a_needs a) /\ memP q P = false) ->
  (wts ((p, o) :: P) (map snd (filter (fun d => negb (waits p d)) D))
   + wts ((p, o) :: P) (map snd (filter (waits p) D)) + 2 * length (filter (waits p) D)
   <= wts P (map snd D))%nat.
Proof.
  induction D as [|[q a] D IH]; intro W; [cbn; lia|].
  assert (W' : forall q a, In (q, a) D -> In q (a_needs a) /\ memP q P = false) by (intros; apply W; now right).
  specialize (IH W'). destruct (W q a (or_introl eq_refl)) as [W1 W2].
  cbn [filter]. change (waits p (q, a)) with (N.eqb q p). destruct (N.eqb q p) eqn:E; cbn [negb map snd length].
  - apply N.eqb_eq in E. subst q.
    change (a :: map snd (filter (waits p) D)) with ([a] ++ map snd (filter (waits p) D)).
    change (a :: map snd D) with ([a] ++ map snd D). rewrite !wts_app.
    pose proof (wts_one_drop P p o a W1 W2). lia.
  - change (a :: map snd (filter (fun d => negb (waits p d)) D)) with ([a] ++ map snd (filter (fun d => negb (waits p d)) D)).
    change (a :: map snd D) with ([a] ++ map snd D). rewrite !wts_app.
    pose proof (wts_le P ((p, o) :: P) [a] (Ple_cons P p o)). lia.
Qed.

Lemma filter_len_split {A} (f : A -> bool) l :
  length l = (length (filter (fun x => negb (f x)) l) + length (filter f l))%nat.
Proof. induction l as [|x l IH]; cbn; [lia|]. destruct (f x); cbn; lia. Qed.

Lemma term_exec :
  (forall a s s', exec_act a s = Ok s' -> waiting s ->
     (pot s' + nd s + 1 <= pot s + wts (sP s) [a] + nd s')%nat) /\
  (forall e s s', exec_evs e s = Ok s' -> waiting s ->
     (pot s' + nd s <= pot s + wte (sP s) e + nd s')%nat).
Proof.
  apply act_evs_ind.
  - intros k needs body IH s s' H W. cbn [exec_act] in H.
    destruct (first_missing needs (sP s)) as [p|] eqn:E.
    + injection H as <-. unfold pot, nd, pend, defer; cbn [sD sR sX sP].
      rewrite map_app, app_length. cbn [map snd length]. rewrite <- app_assoc, !wts_app. lia.
    + specialize (IH _ _ H W). unfold pot, nd, pend, mark in IH; cbn [sD sR sX sP] in IH.
      rewrite wts_cons. unfold pot, nd, pend. unfold wt1. lia.
  - intros s s' [= <-] W. unfold wte. cbn. lia.
  - intros p o r IH s s' H W. cbn [exec_evs] in H. destruct (memP p (sP s)) eqn:M; [discriminate|].
    specialize (IH _ _ H (waiting_fulfil p o s W)).
    assert (F : (pot (fulfil p o s) + 2 * length (filter (waits p) (sD s)) <= pot s)%nat).
    { unfold pot, pend, fulfil; cbn [sD sR sP]. rewrite !wts_app.
      pose proof (fulfil_pot_D (sP s) p o (sD s) W).
      pose proof (wts_le (sP s) ((p, o) :: sP s) (sR s) (Ple_cons _ p o)). lia. }
    assert (L : nd s = (nd (fulfil p o s) + length (filter (waits p) (sD s)))%nat).
    { unfold nd, fulfil; cbn [sD]. apply filter_len_split. }
    assert (E : (wte (sP (fulfil p o s)) r <= wte (sP s) (EFul p o r))%nat).
    { unfold wte at 2. cbn [shells_evs]. apply wte_le. apply Ple_cons. }
    lia.
  - intros a IHa r IHr s s' H W. cbn [exec_evs] in H. destruct (exec_act a s) as [s1|s1] eqn:E; [|discriminate].
    destruct (proj1 compl_exec _ _ _ E W) as (M & _ & W1 & _).
    specialize (IHa _ _ E W). specialize (IHr _ _ H W1).
    assert (L : (wte (sP s1) r <= wte (sP s) r)%nat) by (apply wte_le; exact (proj2 M)).
    assert (S : wte (sP s) (ESub a r) = (wts (sP s) [a] + wte (sP s) r)%nat).
    { unfold wte, wts. cbn [shells_evs shells flat_map]. rewrite app_nil_r, map_app, list_sum_app. reflexivity. }
    lia.
Qed.

Lemma pot_ge_nd s : (nd s <= pot s)%nat.
Proof.
  unfold pot, nd, pend. rewrite wts_app. generalize (sP s) as P. intro P.
  induction (sD s) as [|[p [k n b]] D IH]; cbn [map snd length]; [lia|].
  rewrite wts_cons. unfold wt1. lia.
Qed.

Lemma loop_terminates fuel : forall q s, sR s = [] -> waiting s ->
  (wts (sP s) q + pot s < fuel + nd s)%nat ->
  forall s', loop fuel q s <> OutOfFuel s'.
Proof.
  induction fuel as [|f IH]; intros q s HR W HF s'.
  - pose proof (pot_ge_nd s). lia.
  - cbn [loop]. destruct q as [|a q].
    + destruct (sD s); discriminate.
    + destruct (exec_act a s) as [s1|s1] eqn:E; [|discriminate].
      destruct (proj1 compl_exec _ _ _ E W) as (M & _ & W1 & _).
      pose proof (proj1 term_exec _ _ _ E W) as T.
      apply IH; [reflexivity|exact W1|].
      change (a :: q) with ([a] ++ q) in HF. rewrite wts_app in HF.
      rewrite wts_app. cbn [takeR sP].
      assert (P1 : pot (takeR s1) + wts (sP s1) (sR s1) = pot s1).
      { unfold pot, pend, takeR; cbn [sD sR sP]. rewrite app_nil_r, wts_app. reflexivity. }
      assert (N1 : nd (takeR s1) = nd s1) by reflexivity.
      pose proof (wts_le (sP s) (sP s1) q (proj2 M)). lia.
Qed.

Lemma miss_nil a : miss [] a = length (a_needs a).
Proof. unfold miss. induction (a_needs a); cbn; auto. Qed.

Lemma fuel_of_spec d : fuel_of d = S (wts [] d).
Proof.
  unfold fuel_of, wts. f_equal. induction (shells d) as [|x l IH]; [reflexivity|].
  cbn [fold_right map]. rewrite list_sum_cons, IH. unfold weight, wt1. rewrite miss_nil. lia.
Qed.

(* O4 *)
Lemma run_terminates d s : run d <> OutOfFuel s.
Proof.
  unfold run. apply loop_terminates; [reflexivity|intros p a []|].
  rewrite fuel_of_spec. unfold pot, nd, pend. cbn [st0 sP sD sR map app length]. unfold wts at 2. cbn [shells flat_map map list_sum fold_right]. lia.
Qed.

(* ------------------------------------------------------------------ the property lemmas *)
Lemma done_perm d d' s : Permutation d d' -> run d = Done s ->
  exists s', run d' = Done s' /\ Permutation (sX s) (sX s') /\ Permutation (sP s) (sP s')
             /\ forall p, lookupP (sP s) p = lookupP (sP s') p.
Proof.
  intros HP HD. destruct (run_done _ _ HD) as (X1 & P1 & N1).
  destruct (run d') as [s'|s'|s'|s'] eqn:E.
  - exists s'. destruct (run_done _ _ E) as (X2 & P2 & N2).
    assert (PP : Permutation (sP s) (sP s')).
    { rewrite P1, P2. now apply all_fuls_perm. }
    split; [reflexivity|]. split; [|split; [exact PP|]].
    + rewrite X1, X2. now apply shells_perm.
    + apply lookupP_perm; assumption.
  - exfalso. apply (run_dup _ _ E).
    apply (NoDup_map_perm fst (sP s) (all_fuls d')); [|exact N1].
    rewrite P1. apply all_fuls_perm. exact HP.
  - exfalso. exact (done_excludes_unf d d' s s' HP HD E).
  - exfalso. exact (run_terminates d' s' E).
Qed.

Lemma end_complete d s : run d = Done s \/ run d = Unfulfilled s ->
  (forall a, fired d a -> In a (sX s)) /\ (forall p, avail d p -> memP p (sP s) = true).
Proof.
  intro H. unfold run in H.
  destruct (loop_end d _ _ _ _ H eq_refl (cmpl_init d)) as (C & HR & _).
  now apply cmpl_final.
Qed.
Lemma done_complete d s : run d = Done s ->
  (forall a, fired d a -> In a (sX s)) /\ (forall p, avail d p -> memP p (sP s) = true).
Proof. intro H. apply end_complete. now left. Qed.

(* without a duplicate, the executed actions are exactly those that fire, the resolved promises exactly
   those that become available — a description that does not mention the order of the document *)
Lemma executed_iff_fired d s : run d = Done s \/ run d = Unfulfilled s ->
  (forall a, In a (sX s) <-> fired d a) /\ (forall p, memP p (sP s) = true <-> avail d p).
Proof.
  intro H. pose proof (sound_end _ _ H) as S. destruct (end_complete _ _ H) as [C1 C2]. split.
  - intro a. split; [apply (snd_X _ _ S)|apply C1].
  - intro p. split; [|apply C2]. intro M. apply (snd_P _ _ S). now apply memP_In.
Qed.

Lemma fired_perm_iff d d' : Permutation d d' ->
  (forall a, fired d a <-> fired d' a) /\ (forall p, avail d p <-> avail d' p).
Proof.
  intro HP. split; intro x; split.
  - apply (fired_perm d d'). intros y Hy. eapply Permutation_in; eauto.
  - apply (fired_perm d' d). intros y Hy. eapply Permutation_in; [symmetry; exact HP|exact Hy].
  - apply (fired_perm d d'). intros y Hy. eapply Permutation_in; eauto.
  - apply (fired_perm d' d). intros y Hy. eapply Permutation_in; [symmetry; exact HP|exact Hy].
Qed.

(* every promise an action of the document mentions is declared, when the run succeeds *)
Lemma done_needs_declared d s : run d = Done s ->
  forall a n, In a (shells d) -> In n (a_needs a) -> exists o, lookupP (sP s) n = Some o /\ In (n, o) (all_fuls d).
Proof.
  intros H a n Ha Hn. destruct (run_done _ _ H) as (X1 & P1 & N1).
  assert (F : fired d a).
  { apply (snd_X _ _ (sound_run _ _ H)). eapply Permutation_in; [symmetry; exact X1|exact Ha]. }
  assert (Av : avail d n) by (inversion F; subst; auto).
  apply (proj2 (done_complete _ _ H)) in Av. apply memP_In in Av.
  apply in_map_iff in Av. destruct Av as ([n' o] & <- & Hin). exists o. split.
  - now apply lookupP_In.
  - eapply Permutation_in; [exact P1|exact Hin].
Qed.

Lemma undeclared_fails d a p : In a (shells d) -> In p (a_needs a) -> ~ In p (map fst (all_fuls d)) ->
  forall s, run d <> Done s.
Proof.
  intros Ha Hp Hn s H. destruct (done_needs_declared _ _ H a p Ha Hp) as (o & _ & Hin).
  apply Hn. change p with (fst (p, o)). now apply in_map.
Qed.

Lemma duplicate_fails d : ~ NoDup (map fst (all_fuls d)) -> forall s, run d <> Done s.
Proof.
  intros Hn s H. destruct (run_done _ _ H) as (_ & P1 & N1). apply Hn.
  eapply NoDup_map_perm; [exact P1|exact N1].
Qed.

Lemma promise_map_spec d s : run d = Done s ->
  forall p o, lookupP (sP s) p = Some o <-> In (p, o) (all_fuls d).
Proof.
  intros H p o. destruct (run_done _ _ H) as (_ & P1 & N1). rewrite (lookupP_In _ _ _ N1). split; intro Hin.
  - eapply Permutation_in; [exact P1|exact Hin].
  - eapply Permutation_in; [symmetry; exact P1|exact Hin].
Qed.

(* ------------------------------------------------------------------ the store *)
Lemma flat_map_flat_map {A B C} (f : A -> list B) (g : B -> list C) l :
  flat_map g (flat_map f l) = flat_map (fun x => flat_map g (f x)) l.
Proof. induction l as [|x l IH]; cbn; [reflexivity|]. now rewrite flat_map_app, IH. Qed.

Lemma perm_flat_map_indep {A B} (g : A -> list B) l l' : Permutation l l' ->
  (forall x y, In x l -> In y l -> x = y \/ g x = [] \/ g y = []) -> flat_map g l = flat_map g l'.
Proof.
  induction 1 as [|x l l' HP IH|x y l|l l' l'' HP1 IH1 HP2 IH2]; intro Hi.
  - reflexivity.
  - cbn. f_equal. apply IH. intros a b Ha Hb. apply Hi; now right.
  - cbn. destruct (Hi x y) as [->|[E|E]]; [right; now left|now left|reflexivity| |].
    + rewrite E. cbn. reflexivity.
    + rewrite E. cbn. reflexivity.
  - rewrite IH1 by exact Hi. apply IH2. intros a b Ha Hb.
    apply Hi; eapply Permutation_in; try (symmetry; exact HP1); assumption.
Qed.

Lemma resolve_ext pm pm' r : (forall p, pm p = pm' p) -> resolve pm r = resolve pm' r.
Proof. intro H. destruct r; cbn; auto. now rewrite H. Qed.
Lemma set_upds_ext pm pm' o a v : (forall p, pm p = pm' p) -> set_upds pm o a v = set_upds pm' o a v.
Proof.
  intro H. destruct v as [s|r|l]; cbn; auto.
  - now rewrite (resolve_ext _ _ r H).
  - f_equal. apply map_ext. intro r. now rewrite (resolve_ext _ _ r H).
Qed.
Lemma upds_ext pm pm' k : (forall p, pm p = pm' p) -> upds pm k = upds pm' k.
Proof.
  intro H. destruct k as [|o a n simple|o a r|o a v|o a n f]; cbn; auto.
  - rewrite (resolve_ext _ _ o H). f_equal. apply flat_map_ext. intros [k v]. cbn. now apply set_upds_ext.
  - now rewrite (resolve_ext _ _ o H), (resolve_ext _ _ r H).
  - rewrite (resolve_ext _ _ o H). now apply set_upds_ext.
Qed.

Definition writes_l pm (o a : str) (x : act) : list upd := flat_map (wl o a) (upds pm (a_kind x)).
Definition writes_v pm (o a : str) (x : act) : list cval := flat_map (wv o a) (upds pm (a_kind x)).
(* no two different actions of the document write the same cell *)
Definition cell_indep pm (l : list act) : Prop :=
  forall o a x y, In x l -> In y l ->
    x = y \/ ((writes_l pm o a x = [] \/ writes_l pm o a y = []) /\ (writes_v pm o a x = [] \/ writes_v pm o a y = [])).

Lemma store_perm d d' s s' : Permutation d d' -> run d = Done s -> run d' = Done s' ->
  cell_indep (lookupP (sP s)) (shells d) ->
  forall o a, read_list o a (final_log s) = read_list o a (final_log s')
              /\ read_val o a (final_log s) = read_val o a (final_log s').
Proof.
  intros HP H1 H2 Hi o a.
  destruct (done_perm _ _ _ HP H1) as (s2 & E & XP & _ & LK). rewrite H2 in E. injection E as <-.
  destruct (run_done _ _ H1) as (X1 & _ & _).
  unfold read_list, read_val, final_log.
  rewrite !flat_map_flat_map.
  assert (EXT : forall x, upds (lookupP (sP s')) (a_kind x) = upds (lookupP (sP s)) (a_kind x)).
  { intro x. apply upds_ext. intro p. symmetry. apply LK. }
  assert (RP : Permutation (rev (sX s)) (rev (sX s'))).
  { rewrite <- !Permutation_rev. exact XP. }
  assert (IN : forall x, In x (rev (sX s)) -> In x (shells d)).
  { intros x Hx. eapply Permutation_in; [exact X1|]. now apply in_rev. }
  split.
  - f_equal. transitivity (flat_map (writes_l (lookupP (sP s)) o a) (rev (sX s'))).
    + apply (perm_flat_map_indep (writes_l (lookupP (sP s)) o a)); [exact RP|]. intros x y Hx Hy.
      destruct (Hi o a x y (IN _ Hx) (IN _ Hy)) as [->|[[A|A] _]]; auto.
    + apply flat_map_ext. intro x. unfold writes_l. now rewrite EXT.
  - f_equal. f_equal.
    transitivity (flat_map (writes_v (lookupP (sP s)) o a) (rev (sX s'))).
    + apply (perm_flat_map_indep (writes_v (lookupP (sP s)) o a)); [exact RP|]. intros x y Hx Hy.
      destruct (Hi o a x y (IN _ Hx) (IN _ Hy)) as [->|[_ [A|A]]]; auto.
    + apply flat_map_ext. intro x. unfold writes_v. now rewrite EXT.
Qed.

(* ------------------------------------------------------------------ the decidable independence check is sound *)
Lemma str_eqb_refl' s : str_eqb s s = true.
Proof. induction s as [|c s IH]; cbn; [reflexivity|]. now rewrite N.eqb_refl, IH. Qed.
Lemma str_eqb_true a b : str_eqb a b = true -> a = b.
Proof.
  revert b; induction a as [|x a IH]; intros [|y b]; cbn; intro H; try congruence.
  apply andb_true_iff in H as [H1 H2]. apply N.eqb_eq in H1. apply IH in H2. congruence.
Qed.

Lemma wl_cells pm o a x : writes_l pm o a x = [] \/ exists c, In c (lcells pm x) /\ cell_eqb o a (fst c) (snd c) = true.
Proof.
  unfold writes_l, lcells. induction (upds pm (a_kind x)) as [|u l IH]; [now left|].
  cbn [flat_map]. destruct u as [o' a' m|o' a' v|o' a']; cbn [wl].
  - destruct (cell_eqb o a o' a') eqn:E.
    + right. exists (o', a'). split; [now left|exact E].
    + destruct IH as [IH|(c & Hc & Ec)]; [left; exact IH|right]. exists c. split; [now right|exact Ec].
  - destruct IH as [IH|(c & Hc & Ec)]; [left; exact IH|right]. exists c. split; [exact Hc|exact Ec].
  - destruct (cell_eqb o a o' a') eqn:E.
    + right. exists (o', a'). split; [now left|exact E].
    + destruct IH as [IH|(c & Hc & Ec)]; [left; exact IH|right]. exists c. split; [now right|exact Ec].
Qed.
Lemma wv_cells pm o a x : writes_v pm o a x = [] \/ exists c, In c (vcells pm x) /\ cell_eqb o a (fst c) (snd c) = true.
Proof.
  unfold writes_v, vcells. induction (upds pm (a_kind x)) as [|u l IH]; [now left|].
  cbn [flat_map]. destruct u as [o' a' m|o' a' v|o' a']; cbn [wv].
  - destruct IH as [IH|(c & Hc & Ec)]; [left; exact IH|right]. exists c. split; [exact Hc|exact Ec].
  - destruct (cell_eqb o a o' a') eqn:E.
    + right. exists (o', a'). split; [now left|exact E].
    + destruct IH as [IH|(c & Hc & Ec)]; [left; exact IH|right]. exists c. split; [now right|exact Ec].
  - destruct IH as [IH|(c & Hc & Ec)]; [left; exact IH|right]. exists c. split; [exact Hc|exact Ec].
Qed.

Lemma disj_spec c1 c2 c c' o a : disj c1 c2 = true -> In c c1 -> In c' c2 ->
  cell_eqb o a (fst c) (snd c) = true -> cell_eqb o a (fst c') (snd c') = true -> False.
Proof.
  intros D H1 H2 E1 E2. unfold disj in D. rewrite forallb_forall in D. specialize (D c H1).
  rewrite forallb_forall in D. specialize (D c' H2). apply negb_true_iff in D.
  unfold cell_eqb in *. apply andb_true_iff in E1 as [A1 B1]. apply andb_true_iff in E2 as [A2 B2].
  apply str_eqb_true in A1, B1, A2, B2. rewrite <- A1, <- B1, <- A2, <- B2 in D.
  now rewrite !str_eqb_refl' in D.
Qed.

Lemma disj_sym c1 c2 : disj c1 c2 = true -> disj c2 c1 = true.
Proof.
  unfold disj. rewrite !forallb_forall. intros H c' Hc'. rewrite forallb_forall. intros c Hc.
  specialize (H c Hc). rewrite forallb_forall in H. specialize (H c' Hc').
  apply negb_true_iff in H. apply negb_true_iff. unfold cell_eqb in *.
  destruct (str_eqb (fst c') (fst c)) eqn:A; [|reflexivity]. destruct (str_eqb (snd c') (snd c)) eqn:B; [|reflexivity].
  apply str_eqb_true in A, B. rewrite A, B, !str_eqb_refl' in H. discriminate.
Qed.

Lemma indep_pair pm x y : disj (lcells pm x) (lcells pm y) = true -> disj (vcells pm x) (vcells pm y) = true ->
  forall o a, (writes_l pm o a x = [] \/ writes_l pm o a y = []) /\ (writes_v pm o a x = [] \/ writes_v pm o a y = []).
Proof.
  intros DL DV o a. split.
  - destruct (wl_cells pm o a x) as [H|(c & Hc & Ec)]; [now left|].
    destruct (wl_cells pm o a y) as [H|(c' & Hc' & Ec')]; [now right|].
    exfalso. exact (disj_spec _ _ c c' o a DL Hc Hc' Ec Ec').
  - destruct (wv_cells pm o a x) as [H|(c & Hc & Ec)]; [now left|].
    destruct (wv_cells pm o a y) as [H|(c' & Hc' & Ec')]; [now right|].
    exfalso. exact (disj_spec _ _ c c' o a DV Hc Hc' Ec Ec').
Qed.

Lemma indep_check_sound pm l : indep_check pm l = true -> cell_indep pm l.
Proof.
  induction l as [|z l IH]; intro H; [intros o a x y []|].
  cbn [indep_check] in H. apply andb_true_iff in H as [H1 H2]. rewrite forallb_forall in H1.
  specialize (IH H2). intros o a x y [<-|Hx] [<-|Hy].
  - now left.
  - right. specialize (H1 y Hy). apply andb_true_iff in H1 as [A B]. now apply indep_pair.
  - right. specialize (H1 x Hx). apply andb_true_iff in H1 as [A B].
    apply disj_sym in A. apply disj_sym in B. now apply indep_pair.
  - now apply IH.
Qed.

(* ------------------------------------------------------------------ document-level corollaries *)
Lemma done_perm_docs (d d' : list instr) s : Permutation d d' -> run (compile d) = Done s ->
  exists s', run (compile d') = Done s' /\ Permutation (sX s) (sX s')
             /\ forall p, lookupP (sP s) p = lookupP (sP s') p.
Proof.
  intros HP H. destruct (done_perm _ _ _ (Permutation_map c_instr HP) H) as (s' & A & B & _ & C).
  exists s'. auto.
Qed.

Lemma success_iff d d' : Permutation d d' -> ((exists s, run d = Done s) <-> (exists s', run d' = Done s')).
Proof.
  intro HP. split; intros [s H].
  - destruct (done_perm _ _ _ HP H) as (s' & A & _). eauto.
  - destruct (done_perm _ _ _ (Permutation_sym HP) H) as (s' & A & _). eauto.
Qed.

Lemma promise_decl d s : run d = Done s ->
  (forall p o, lookupP (sP s) p = Some o <-> In (p, o) (all_fuls d)) /\
  (forall a n, In a (shells d) -> In n (a_needs a) -> exists o, lookupP (sP s) n = Some o /\ In (n, o) (all_fuls d)).
Proof. intro H. split; [exact (promise_map_spec d s H)|exact (done_needs_declared d s H)]. Qed.

(* witness for the sibling-order finding: i1 appends two classes [Ka (super: !promise 2); Kb] to one list,
   i0 declares promise 2 in another list *)
Definition PK : str := [1]%N.  Definition a_packages : str := [2]%N.  Definition a_classes : str := [3]%N.
Definition nG : str := [4]%N.  Definition nKx : str := [5]%N.  Definition nKa : str := [6]%N.
Definition nKb : str := [7]%N.  Definition a_super : str := [8]%N.
Definition wit_i0 : instr :=
  mkInstr (RObj PK) GNil
    (GCons a_packages (ICons (IObj (Some 1%N) nG [] (GCons a_classes (ICons (IObj (Some 2%N) nKx [] GNil) INil) GNil)) INil) GNil)
    [] [].
Definition wit_i1 : instr :=
  mkInstr (RObj PK) GNil
    (GCons a_classes (ICons (IObj None nKa [(a_super, SRef (RProm 2%N))] GNil) (ICons (IObj None nKb [] GNil) INil)) GNil)
    [] [].
Lemma store_order_witness :
  exists (d d' : list instr) s s', Permutation d d' /\ no_shared_list d = true /\
    run (compile d) = Done s /\ run (compile d') = Done s' /\
    read_list PK a_classes (final_log s) <> read_list PK a_classes (final_log s').
Proof.
  exists [wit_i0; wit_i1], [wit_i1; wit_i0].
  eexists. eexists. split; [apply perm_swap|]. split; [vm_compute; reflexivity|].
  split; [vm_compute; reflexivity|]. split; [vm_compute; reflexivity|].
  vm_compute. discriminate.
Qed.
