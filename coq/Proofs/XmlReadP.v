(* T4: the reference reader inverts the writer's layout on attribute-only trees (stage A),
   for every line length, indent depth and start column; hence write-read-write is stable. *)
From Coq Require Import ZArith NArith List Bool Lia.
Import ListNotations.
From V Require Import Model.Val Model.XmlTree Gen.ExsConsts Model.SerExs Model.XmlRead Proofs.SerExsP.
Open Scope N_scope.

(* ------------------------------------------------------------------ well-formedness (stage A) *)
Definition name_ok (n : str) : Prop := n <> [] /\ Forall (fun c => name_char c = true) n.
Definition attr_ok (nv : str * str) : Prop :=
  name_ok (fst nv) /\ ~ In QUOT (snd nv) /\ unescape (snd nv) <> None.
Inductive stageA : relem -> Prop :=
| SA t a e ch : name_ok t -> Forall attr_ok a -> Forall stageA ch -> stageA (RElem t a e None ch None).

Definition all_ws (s : str) : Prop := Forall (fun c => is_xml_ws c = true) s.

(* ------------------------------------------------------------------ lexer lemmas *)
Lemma name_char_not_ws c : name_char c = true -> is_xml_ws c = false.
Proof. unfold name_char. intro H. apply negb_true_iff in H. do 5 (apply orb_false_iff in H as [H _]). exact H. Qed.

Lemma skip_ws_app w c rest : all_ws w -> is_xml_ws c = false -> skip_ws (w ++ c :: rest) = c :: rest.
Proof.
  intros Hw Hc. induction Hw as [|x w Hx _ IH]; cbn.
  - now rewrite Hc.
  - now rewrite Hx.
Qed.

Lemma take_name_app n c rest : Forall (fun c => name_char c = true) n -> name_char c = false ->
  take_name (n ++ c :: rest) = (n, c :: rest).
Proof.
  intros Hn Hc. induction Hn as [|x n Hx _ IH]; cbn.
  - now rewrite Hc.
  - now rewrite Hx, IH.
Qed.

Lemma take_value_app v rest : ~ In QUOT v -> take_value (v ++ QUOT :: rest) = Some (v, rest).
Proof.
  induction v as [|c v IH]; intro H; cbn.
  - reflexivity.
  - destruct (N.eqb_spec c QUOT) as [->|_]; [exfalso; apply H; now left|].
    rewrite IH by (intro; apply H; now right). reflexivity.
Qed.

Lemma all_ws_app a b : all_ws a -> all_ws b -> all_ws (a ++ b).
Proof. apply Forall_app_intro || (intros; apply Forall_app; split; assumption). Qed.
Lemma indent_ws n : all_ws (indent_str n).
Proof.
  unfold indent_str. induction (N.to_nat n) as [|k IH]; cbn [repeat_str]; [constructor|].
  apply all_ws_app; [|exact IH]. unfold INDENT. repeat constructor.
Qed.
Lemma linesep_ws : all_ws LINESEP.
Proof. unfold LINESEP. repeat constructor. Qed.

(* ------------------------------------------------------------------ attributes *)
Definition dec_attrs (a : list (str * str)) : list (str * str) := map (fun nv => (fst nv, dec_val (snd nv))) a.

Lemma lay_attrs_length ll root aind ats pos force :
  (List.length ats <= List.length (fst (lay_attrs ll root aind pos force ats)))%nat.
Proof.
  revert pos force; induction ats as [|[n v] r IH]; intros pos force; cbn [lay_attrs]; [cbn; lia|].
  cbv zeta. match goal with |- context [lay_attrs ll root aind ?p ?f r] => specialize (IH p f); destruct (lay_attrs ll root aind p f r) as [o q] end.
  cbn [fst] in *. destruct ((ll <? pos) || force); repeat (rewrite app_length; cbn [List.length]); lia.
Qed.

(* the first character written by the attribute loop (if any) is white space *)
Lemma lay_attrs_head ll root aind ats pos force : all_ws aind ->
  match fst (lay_attrs ll root aind pos force ats) with [] => ats = [] | c :: _ => is_xml_ws c = true end.
Proof.
  intro Hai. destruct ats as [|[n v] r]; cbn [lay_attrs]; [reflexivity|].
  cbv zeta. match goal with |- context [lay_attrs ll root aind ?p ?f r] => destruct (lay_attrs ll root aind p f r) as [o q] end.
  cbn [fst]. destruct ((ll <? pos) || force); reflexivity.
Qed.

Lemma read_attrs_lay ll root aind ats : all_ws aind -> Forall attr_ok ats ->
  forall pos force fuel (emp : bool) rest,
    (List.length ats < fuel)%nat ->
    read_attrs fuel (fst (lay_attrs ll root aind pos force ats) ++ (if emp then [47; GT] else [GT]) ++ rest)
    = Some (dec_attrs ats, emp, rest).
Proof.
  intros Hai H. induction H as [|[n v] r [[Hn0 Hn] [Hq Hu]] _ IH]; intros pos force fuel emp rest Hf.
  - destruct fuel as [|f]; [cbn in Hf; lia|]. cbn [lay_attrs fst app read_attrs].
    destruct emp; reflexivity.
  - destruct fuel as [|f]; [cbn in Hf; lia|]. cbn [lay_attrs]. cbv zeta.
    match goal with |- context [lay_attrs ll root aind ?p ?fo r] => specialize (IH p fo f emp rest); destruct (lay_attrs ll root aind p fo r) as [o q] end.
    cbn [fst snd] in *. cbn [read_attrs].
    destruct n as [|c n']; [now destruct Hn0|]. inversion Hn as [|? ? Hc Hn']; subst.
    assert (Hsk : forall sep, all_ws sep -> skip_ws ((sep ++ (c :: n') ++ [61; QUOT] ++ v ++ [QUOT] ++ o) ++ (if emp then [47; GT] else [GT]) ++ rest)
                  = c :: n' ++ [61; QUOT] ++ v ++ [QUOT] ++ o ++ (if emp then [47; GT] else [GT]) ++ rest).
    { intros sep Hs. rewrite <- !app_assoc. cbn [app]. rewrite skip_ws_app; [|exact Hs | now apply name_char_not_ws].
      rewrite <- ?app_assoc. reflexivity. }
    rewrite Hsk by (destruct ((ll <? pos) || force); [apply all_ws_app; [apply linesep_ws | exact Hai] | repeat constructor]).
    assert (Hgt : (c =? GT) = false).
    { destruct (N.eqb_spec c GT) as [->|]; [discriminate Hc | reflexivity]. }
    assert (Hsl : (c =? 47) = false).
    { destruct (N.eqb_spec c 47) as [->|]; [discriminate Hc | reflexivity]. }
    rewrite Hgt, Hsl.
    change (c :: n' ++ [61; QUOT] ++ ?x) with ((c :: n') ++ 61 :: QUOT :: x).
    rewrite take_name_app by (assumption || reflexivity).
    cbn [app]. change (61 =? 61) with true. change (QUOT =? QUOT) with true. cbn [andb].
    rewrite take_value_app by exact Hq.
    destruct (unescape v) as [v'|] eqn:Ev; [|congruence].
    rewrite IH by (cbn in Hf; lia).
    unfold dec_attrs. cbn [map fst snd]. unfold dec_val. now rewrite Ev.
Qed.

(* ------------------------------------------------------------------ shape of the layout on stage A trees *)
Lemma lay_children_stageA lay cfg cind ch pos :
  lay_children lay cfg cind None ch pos false
  = (flat_map (fun c => (LINESEP ++ cind) ++ fst (lay (lenN cind) c)) ch,
     match rev ch with [] => pos | c :: _ => snd (lay (lenN cind) c) end, false).
Proof.
  revert pos; induction ch as [|c ch IH]; intro pos; cbn [lay_children flat_map]; [reflexivity|].
  destruct (lay (lenN cind) c) as [o p] eqn:E. cbn [nonblank_opt]. rewrite IH. cbn [fst snd app].
  assert (E2 : match rev (c :: ch) with [] => pos | c0 :: _ => snd (lay (lenN cind) c0) end
               = match rev ch with [] => p | c0 :: _ => snd (lay (lenN cind) c0) end).
  { cbn [rev]. destruct (rev ch) as [|x l] eqn:Er; cbn [app]; [now rewrite E | reflexivity]. }
  rewrite E2. rewrite (app_assoc (LINESEP ++ cind) o). reflexivity.
Qed.

Definition children_out (cfg : scfg) (ll ind : N) (ch : list relem) : str :=
  flat_map (fun c => (LINESEP ++ indent_str (ind + 1)) ++ fst (lay_elem cfg ll false (ind + 1) (lenN (indent_str (ind + 1))) c)) ch.

Lemma lay_elem_shape cfg ll root ind pos t a e ch :
  fst (lay_elem cfg ll root ind pos (RElem t a e None ch None))
  = LT :: t ++ fst (lay_attrs ll root (indent_str (ind + 2)) (pos + 1 + utf8_len t) false a)
       ++ (if is_nil ch && negb e then [47; GT]
           else [GT] ++ children_out cfg ll ind ch ++ (if is_nil ch then [] else LINESEP ++ indent_str ind) ++ [LT; 47] ++ t ++ [GT]).
Proof.
  cbn [lay_elem]. destruct (lay_attrs ll root (indent_str (ind + 2)) (pos + 1 + utf8_len t) false a) as [ao pos1].
  cbn [is_none text_written andb fst]. destruct (is_nil ch && negb e) eqn:E; cbn [fst].
  - cbn [app]. now rewrite <- app_assoc.
  - rewrite lay_children_stageA. cbn [fst snd negb andb]. rewrite andb_true_r.
    unfold children_out. destruct ch; cbn [is_nil negb]; cbn [app]; rewrite <- !app_assoc; reflexivity.
Qed.

(* ------------------------------------------------------------------ the reader on the layout *)
Fixpoint cost (r : relem) : nat :=
  let 'RElem _ _ e _ ch _ := r in
  if is_nil ch && negb e then 1%nat else (2 + fold_right (fun c acc => cost c + acc) 0 ch)%nat.
Definition costs (ch : list relem) : nat := fold_right (fun c acc => cost c + acc)%nat 0%nat ch.

Definition continue (k : nat) (el : relem) (rest : str) (st : list frame) : option (relem * str) :=
  match st with [] => Some (el, rest) | _ => read_nodes k rest (push_child el st) end.

Lemma is_nil_map {A B} (f : A -> B) l : is_nil (map f l) = is_nil l.
Proof. now destruct l. Qed.
Lemma is_nil_rev {A} (l : list A) : is_nil (rev l) = is_nil l.
Proof. destruct l as [|x l]; [reflexivity|]. cbn. now destruct (rev l). Qed.

Lemma name_first t : name_ok t -> exists c t', t = c :: t' /\ name_char c = true /\ Forall (fun c => name_char c = true) t'.
Proof. intros [H0 H]. destruct t as [|c t']; [contradiction|]. inversion H; subst. now exists c, t'. Qed.

Lemma read_stageA cfg ll r : stageA r ->
  forall root ind pos w k st rest, all_ws w ->
    read_nodes (cost r + k) (w ++ fst (lay_elem cfg ll root ind pos r) ++ rest) st
    = continue k (decode_tree r) rest st.
Proof.
  induction r as [t a e tx ch tl IH] using relem_ind'. intros Hs root ind pos w k st rest Hw.
  inversion Hs as [? ? ? ? Ht Ha Hch]; subst.
  destruct (name_first t Ht) as (c & t' & -> & Hc & Ht').
  rewrite lay_elem_shape.
  set (ao := fst (lay_attrs ll root (indent_str (ind + 2)) (pos + 1 + utf8_len (c :: t')) false a)).
  assert (Hfirst : forall tailstr, exists x y, (ao ++ tailstr) = x :: y /\ name_char x = false \/ (ao = [] /\ a = [])).
  { intro tailstr. pose proof (lay_attrs_head ll root (indent_str (ind + 2)) a (pos + 1 + utf8_len (c :: t')) false (indent_ws _)) as Hh.
    fold ao in Hh. destruct ao as [|x y]; [exists 0, []; now right|].
    exists x, (y ++ tailstr). left. split; [reflexivity|]. unfold name_char. now rewrite Hh. }
  assert (Hlen := lay_attrs_length ll root (indent_str (ind + 2)) a (pos + 1 + utf8_len (c :: t')) false). fold ao in Hlen.
  assert (Hc47 : (c =? 47) = false) by (destruct (N.eqb_spec c 47) as [->|]; [discriminate Hc | reflexivity]).
  (* common prefix: skip white space, '<', name, attributes *)
  assert (Hopen : forall (emp : bool) tl2 f,
     read_nodes (S f) (w ++ (LT :: (c :: t') ++ ao ++ (if emp then [47; GT] else [GT]) ++ tl2) ++ rest) st
     = if emp then (let el := RElem (c :: t') (dec_attrs a) false None [] None in
                    match st with [] => Some (el, tl2 ++ rest) | _ => read_nodes f (tl2 ++ rest) (push_child el st) end)
       else read_nodes f (tl2 ++ rest) ((c :: t', dec_attrs a, []) :: st)).
  { intros emp tl2 f. cbn [read_nodes]. cbn [app]. rewrite skip_ws_app by (exact Hw || reflexivity).
    change (LT =? LT) with true. cbn iota. rewrite <- !app_assoc. cbn [app]. rewrite Hc47.
    assert (Htn : take_name (c :: t' ++ ao ++ (if emp then [47; GT] else [GT]) ++ tl2 ++ rest)
                  = (c :: t', ao ++ (if emp then [47; GT] else [GT]) ++ tl2 ++ rest)).
    { destruct (Hfirst ((if emp then [47; GT] else [GT]) ++ tl2 ++ rest)) as (x & y & [[Hxy Hx]|[Hao _]]).
      - rewrite Hxy. change (c :: t' ++ x :: y) with ((c :: t') ++ x :: y). apply take_name_app; [now constructor | exact Hx].
      - rewrite Hao. cbn [app]. destruct emp; cbn [app]; change (c :: t' ++ ?x :: ?y) with ((c :: t') ++ x :: y);
          apply take_name_app; try (now constructor); reflexivity. }
    rewrite Htn.
    rewrite (read_attrs_lay ll root (indent_str (ind + 2)) a (indent_ws _) Ha (pos + 1 + utf8_len (c :: t')) false _ emp (tl2 ++ rest)).
    - destruct emp; reflexivity.
    - fold ao. rewrite app_length. lia. }
  destruct (is_nil ch && negb e) eqn:Eleaf.
  - (* empty-element tag *)
    cbn [cost]. rewrite Eleaf. cbn [plus].
    specialize (Hopen true [] k). cbn [app] in Hopen |- *. rewrite Hopen.
    apply andb_true_iff in Eleaf as [En Ee]. destruct ch; [|discriminate]. apply negb_true_iff in Ee. subst e.
    cbn [decode_tree map andb is_nil]. unfold continue, dec_attrs. reflexivity.
  - (* start tag, children, end tag *)
    cbn [cost]. rewrite Eleaf. fold (costs ch).
    replace (2 + costs ch + k)%nat with (S (costs ch + S k))%nat by lia.
    specialize (Hopen false (children_out cfg ll ind ch ++ (if is_nil ch then [] else LINESEP ++ indent_str ind) ++ [LT; 47] ++ (c :: t') ++ [GT]) (costs ch + S k)%nat).
    cbn [app] in Hopen |- *. rewrite Hopen. clear Hopen.
    (* children *)
    assert (Hkids : forall done k2 rest2,
      read_nodes (costs ch + k2) (children_out cfg ll ind ch ++ rest2) ((c :: t', dec_attrs a, done) :: st)
      = read_nodes k2 rest2 ((c :: t', dec_attrs a, rev (map decode_tree ch) ++ done) :: st)).
    { clear Eleaf Hs. induction ch as [|x ch IHch]; intros done k2 rest2.
      - reflexivity.
      - inversion IH as [|? ? IHx IHrest]; subst. inversion Hch as [|? ? Hx Hrest]; subst.
        unfold children_out, costs. cbn [flat_map fold_right]. fold (costs ch). fold (children_out cfg ll ind ch).
        rewrite <- !app_assoc. rewrite <- Nat.add_assoc.
        rewrite (app_assoc LINESEP).
        rewrite (IHx Hx false (ind + 1) (lenN (indent_str (ind + 1))) (LINESEP ++ indent_str (ind + 1)) (costs ch + k2)%nat
                   ((c :: t', dec_attrs a, done) :: st) (children_out cfg ll ind ch ++ rest2))
          by (apply all_ws_app; [apply linesep_ws | apply indent_ws]).
        unfold continue. cbn [push_child].
        rewrite (IHch IHrest Hrest). cbn [map rev]. now rewrite <- app_assoc. }
    rewrite <- !app_assoc. rewrite Hkids. rewrite app_nil_r.
    (* end tag *)
    assert (Hclose : forall wsx, all_ws wsx ->
       read_nodes (S k) (wsx ++ LT :: 47 :: (c :: t') ++ GT :: rest) ((c :: t', dec_attrs a, rev (map decode_tree ch)) :: st)
       = continue k (decode_tree (RElem (c :: t') a e None ch None)) rest st).
    { intros wsx Hwsx. cbn [read_nodes]. rewrite skip_ws_app by (exact Hwsx || reflexivity).
      change (LT =? LT) with true. change (47 =? 47) with true. cbn iota.
      rewrite take_name_app by (now constructor || reflexivity).
      change (GT =? GT) with true. rewrite str_eqb_refl'. cbn [andb].
      unfold close_frame, continue. rewrite rev_involutive, is_nil_rev, is_nil_map.
      cbn [decode_tree]. unfold dec_attrs.
      assert (Hex : is_nil ch = e && is_nil ch).
      { destruct ch; cbn [is_nil] in *; [|now rewrite andb_false_r]. destruct e; [reflexivity | discriminate Eleaf]. }
      rewrite <- Hex. destruct st; reflexivity. }
    destruct ch as [|x ch'].
    + cbn [is_nil app]. rewrite <- ?app_assoc. cbn [app]. exact (Hclose [] ltac:(constructor)).
    + cbn [is_nil]. rewrite <- ?app_assoc. cbn [app]. rewrite <- ?app_assoc. cbn [app]. rewrite (app_assoc LINESEP).
      apply (Hclose (LINESEP ++ indent_str ind)). apply all_ws_app; [apply linesep_ws | apply indent_ws].
Qed.

Lemma cost_le_length cfg ll r : stageA r -> forall root ind pos,
  (cost r <= List.length (fst (lay_elem cfg ll root ind pos r)))%nat.
Proof.
  induction r as [t a e tx ch tl IH] using relem_ind'. intros Hs root ind pos.
  inversion Hs as [? ? ? ? Ht Ha Hch]; subst. rewrite lay_elem_shape. cbn [cost].
  assert (Hk : (costs ch <= List.length (children_out cfg ll ind ch))%nat).
  { clear Hs. induction ch as [|x ch IHch]; [cbn; lia|].
    inversion IH as [|? ? IHx IHrest]; subst. inversion Hch as [|? ? Hx Hrest]; subst.
    unfold costs, children_out. cbn [fold_right flat_map]. fold (costs ch). fold (children_out cfg ll ind ch).
    rewrite !app_length. specialize (IHx Hx false (ind + 1) (lenN (indent_str (ind + 1)))). specialize (IHch IHrest Hrest). lia. }
  fold (costs ch).
  destruct (is_nil ch && negb e); cbn [List.length]; [lia|].
  repeat (rewrite app_length; cbn [List.length]). lia.
Qed.

Theorem read_lay_elem cfg ll root ind pos r rest : stageA r ->
  read_elem (fst (lay_elem cfg ll root ind pos r) ++ rest) = Some (decode_tree r, rest).
Proof.
  intro Hs. unfold read_elem.
  pose proof (cost_le_length cfg ll r Hs root ind pos) as Hl.
  set (out := fst (lay_elem cfg ll root ind pos r)) in *.
  replace (S (List.length (out ++ rest))) with (cost r + (S (List.length (out ++ rest)) - cost r))%nat
    by (rewrite app_length; lia).
  change (out ++ rest) with ([] ++ out ++ rest) at 2.
  unfold out. rewrite (read_stageA cfg ll r Hs root ind pos [] _ [] rest) by constructor. reflexivity.
Qed.

(* ------------------------------------------------------------------ write, read, write again *)
Inductive canonical_values : relem -> Prop :=
| CV t a e tx ch tl : Forall (fun nv => escape TEXT_CLASS (dec_val (snd nv)) = snd nv) a -> Forall canonical_values ch ->
                      canonical_values (RElem t a e tx ch tl).

Lemma lay_elem_expanded_irrelevant cfg ll root ind pos t a e ch :
  lay_elem cfg ll root ind pos (RElem t a (e && is_nil ch) None ch None) = lay_elem cfg ll root ind pos (RElem t a e None ch None).
Proof.
  destruct ch, e; reflexivity.
Qed.

Lemma reescape_decode r : stageA r -> canonical_values r ->
  forall cfg ll root ind pos, lay_elem cfg ll root ind pos (reescape (decode_tree r)) = lay_elem cfg ll root ind pos r.
Proof.
  induction r as [t a e tx ch tl IH] using relem_ind'. intros Hs Hc cfg ll root ind pos.
  inversion Hs as [? ? ? ? Ht Ha Hch]; subst. inversion Hc as [? ? ? ? ? ? Hv Hcc]; subst.
  cbn [decode_tree reescape].
  assert (Ea : map (fun nv => (fst nv, escape TEXT_CLASS (snd nv))) (map (fun nv => (fst nv, dec_val (snd nv))) a) = a).
  { rewrite map_map. cbn [fst snd]. clear - Hv. induction Hv as [|[n v] r Hx _ IHr]; cbn; [reflexivity|]. cbn in Hx. now rewrite Hx, IHr. }
  rewrite Ea.
  assert (Ech : forall p, lay_children (fun posc c => lay_elem cfg ll false (ind + 1) posc c) cfg (indent_str (ind + 1)) None (map reescape (map decode_tree ch)) p false
                = lay_children (fun posc c => lay_elem cfg ll false (ind + 1) posc c) cfg (indent_str (ind + 1)) None ch p false).
  { intro p. rewrite !lay_children_stageA.
    assert (F : Forall (fun r => forall cfg ll root ind pos, lay_elem cfg ll root ind pos (reescape (decode_tree r)) = lay_elem cfg ll root ind pos r) ch).
    { rewrite Forall_forall in *. intros x Hx. intros. apply IH; [exact Hx | now apply Hch | now apply Hcc]. }
    assert (E1 : flat_map (fun c => (LINESEP ++ indent_str (ind + 1)) ++ fst (lay_elem cfg ll false (ind + 1) (lenN (indent_str (ind + 1))) c)) (map reescape (map decode_tree ch))
               = flat_map (fun c => (LINESEP ++ indent_str (ind + 1)) ++ fst (lay_elem cfg ll false (ind + 1) (lenN (indent_str (ind + 1))) c)) ch).
    { clear - F. induction F as [|x ch Hx _ IHF]; [reflexivity|]. cbn [map flat_map]. now rewrite Hx, IHF. }
    assert (E2 : match rev (map reescape (map decode_tree ch)) with [] => p | c :: _ => snd (lay_elem cfg ll false (ind + 1) (lenN (indent_str (ind + 1))) c) end
               = match rev ch with [] => p | c :: _ => snd (lay_elem cfg ll false (ind + 1) (lenN (indent_str (ind + 1))) c) end).
    { rewrite <- !map_rev. apply Forall_rev in F. destruct (rev ch) as [|x l]; [reflexivity|]. cbn [map].
      inversion F as [|? ? Hx _]; subst. now rewrite Hx. }
    now rewrite E1, E2. }
  rewrite <- (lay_elem_expanded_irrelevant cfg ll root ind pos t a e ch).
  cbn [lay_elem]. rewrite !is_nil_map.
  destruct (lay_attrs ll root (indent_str (ind + 2)) (pos + 1 + utf8_len t) false a) as [ao pos1].
  cbn [is_none text_written andb].
  destruct (is_nil ch && negb (e && is_nil ch)); [reflexivity|]. now rewrite Ech.
Qed.

Theorem write_read_write cfg ll root ind pos r : stageA r -> canonical_values r ->
  exists r', read_elem (fst (lay_elem cfg ll root ind pos r)) = Some (r', [])
             /\ lay_elem cfg ll root ind pos (reescape r') = lay_elem cfg ll root ind pos r.
Proof.
  intros Hs Hc. exists (decode_tree r). split.
  - rewrite <- (app_nil_r (fst (lay_elem cfg ll root ind pos r))). now apply read_lay_elem.
  - now apply reescape_decode.
Qed.

(* values produced by phase 1 of the writer are canonical escapes *)
Lemma escaped_value_canonical v : escape TEXT_CLASS (dec_val (escape TEXT_CLASS v)) = escape TEXT_CLASS v.
Proof. unfold dec_val. now rewrite escape_text_roundtrip. Qed.
