From Coq Require Import ZArith NArith List Bool.
Import ListNotations.
From V Require Import Model.Val Model.Paths Model.PyPrims Model.Quote Model.LinkRe Model.Links Proofs.LinksP Proofs.Ties Gen.Fn_helpers.

(* about the function translated from helpers.split_links on this run *)
Lemma translated_split_links_join ls : Forall wf_lnk ls -> Forall ws_free_lnk ls ->
  split_links (join_with SPACE (map render ls)) = Ok (map render ls).
Proof. intros H1 H2. rewrite tie_split_links. now apply split_links_join. Qed.
