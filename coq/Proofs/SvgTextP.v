From Coq Require Import ZArith NArith List Bool Lia.
Import ListNotations.
From V Require Import Model.Val Model.SvgTypes Model.SvgText.
Open Scope N_scope.

(* ------------------------------------------------------------------ word wrapping *)
Section WrapP.
  Variable ext : str -> Z.
  Variable width : Z.

  Lemma wrapw_concat : forall ws cur, concat (wrapw ext width cur ws) = cur ++ ws.
  Proof.
    induction ws as [|w r IH]; intro cur; cbn [wrapw].
    - destruct cur; cbn; [reflexivity|]. now rewrite app_nil_r.
    - destruct (ext (joinsp (cur ++ [w])) <=? width)%Z.
      + rewrite IH. now rewrite <- app_assoc.
      + destruct cur as [|c cur'].
        * now rewrite IH.
        * cbn [concat]. rewrite IH. reflexivity.
  Qed.

  Lemma wrapw_nonempty : forall ws cur, Forall (fun l => l <> []) (wrapw ext width cur ws).
  Proof.
    induction ws as [|w r IH]; intro cur; cbn [wrapw].
    - destruct cur; constructor; [discriminate|constructor].
    - destruct (ext (joinsp (cur ++ [w])) <=? width)%Z; [apply IH|].
      destruct cur; [apply IH|]. constructor; [discriminate|apply IH].
  Qed.

  (* a line is only ever longer than the width when it is a single word *)
  Lemma wrapw_fits : forall ws cur,
    (cur = [] \/ (exists w, cur = [w]) \/ (ext (joinsp cur) <=? width)%Z = true) ->
    Forall (fun l => (exists w, l = [w]) \/ (ext (joinsp l) <=? width)%Z = true) (wrapw ext width cur ws).
  Proof.
    induction ws as [|w r IH]; intros cur Hc; cbn [wrapw].
    - destruct cur as [|c cur']; constructor; [|constructor].
      destruct Hc as [H|[H|H]]; [discriminate|now left|now right].
    - destruct (ext (joinsp (cur ++ [w])) <=? width)%Z eqn:E.
      + apply IH. now right; right.
      + destruct cur as [|c cur'].
        * apply IH. right; left. now exists w.
        * constructor.
          -- destruct Hc as [H|[H|H]]; [discriminate|now left|now right].
          -- apply IH. right; left. now exists w.
  Qed.
End WrapP.

(* ------------------------------------------------------------------ escaping *)
Lemma prefixb_app p r : prefixb p (p ++ r) = true.
Proof. induction p as [|c p IH]; [reflexivity|]. cbn. now rewrite N.eqb_refl. Qed.

Lemma unesc_skip : forall p r, unesc (length p) (p ++ r) = unesc 0 r.
Proof. induction p as [|c p IH]; intro r; [reflexivity|]. cbn [length app unesc]. apply IH. Qed.

Lemma unesc_plain c r : (c =? AMP) = false -> unesc 0 (c :: r) = c :: unesc 0 r.
Proof. intro H. cbn [unesc]. now rewrite H. Qed.

(* each entity decodes to its character *)
Lemma unesc_amp r : unesc 0 (e_amp ++ r) = AMP :: unesc 0 r.
Proof. change (e_amp ++ r) with (AMP :: (tl e_amp ++ r)). cbn [unesc]. rewrite N.eqb_refl, prefixb_app.
  reflexivity. Qed.
Lemma unesc_lt r : unesc 0 (e_lt ++ r) = LT :: unesc 0 r.
Proof. change (e_lt ++ r) with (AMP :: (tl e_lt ++ r)). cbn [unesc]. rewrite N.eqb_refl.
  change (prefixb (tl e_amp) (tl e_lt ++ r)) with false. cbv iota. rewrite prefixb_app.
  reflexivity. Qed.
Lemma unesc_gt r : unesc 0 (e_gt ++ r) = GT :: unesc 0 r.
Proof. change (e_gt ++ r) with (AMP :: (tl e_gt ++ r)). cbn [unesc]. rewrite N.eqb_refl.
  change (prefixb (tl e_amp) (tl e_gt ++ r)) with false.
  change (prefixb (tl e_lt) (tl e_gt ++ r)) with false. cbv iota. rewrite prefixb_app.
  reflexivity. Qed.
Lemma unesc_quot r : unesc 0 (e_quot ++ r) = QUOT :: unesc 0 r.
Proof. change (e_quot ++ r) with (AMP :: (tl e_quot ++ r)). cbn [unesc]. rewrite N.eqb_refl.
  change (prefixb (tl e_amp) (tl e_quot ++ r)) with false.
  change (prefixb (tl e_lt) (tl e_quot ++ r)) with false.
  change (prefixb (tl e_gt) (tl e_quot ++ r)) with false. cbv iota. rewrite prefixb_app.
  reflexivity. Qed.
Lemma unesc_cr r : unesc 0 (e_cr ++ r) = 13 :: unesc 0 r.
Proof. change (e_cr ++ r) with (AMP :: (tl e_cr ++ r)). cbn [unesc]. rewrite N.eqb_refl.
  change (prefixb (tl e_amp) (tl e_cr ++ r)) with false.
  change (prefixb (tl e_lt) (tl e_cr ++ r)) with false.
  change (prefixb (tl e_gt) (tl e_cr ++ r)) with false.
  change (prefixb (tl e_quot) (tl e_cr ++ r)) with false. cbv iota. rewrite prefixb_app.
  reflexivity. Qed.
Lemma unesc_nl r : unesc 0 (e_nl ++ r) = 10 :: unesc 0 r.
Proof. change (e_nl ++ r) with (AMP :: (tl e_nl ++ r)). cbn [unesc]. rewrite N.eqb_refl.
  change (prefixb (tl e_amp) (tl e_nl ++ r)) with false.
  change (prefixb (tl e_lt) (tl e_nl ++ r)) with false.
  change (prefixb (tl e_gt) (tl e_nl ++ r)) with false.
  change (prefixb (tl e_quot) (tl e_nl ++ r)) with false.
  change (prefixb (tl e_cr) (tl e_nl ++ r)) with false. cbv iota. rewrite prefixb_app.
  reflexivity. Qed.
Lemma unesc_tab r : unesc 0 (e_tab ++ r) = 9 :: unesc 0 r.
Proof. change (e_tab ++ r) with (AMP :: (tl e_tab ++ r)). cbn [unesc]. rewrite N.eqb_refl.
  change (prefixb (tl e_amp) (tl e_tab ++ r)) with false.
  change (prefixb (tl e_lt) (tl e_tab ++ r)) with false.
  change (prefixb (tl e_gt) (tl e_tab ++ r)) with false.
  change (prefixb (tl e_quot) (tl e_tab ++ r)) with false.
  change (prefixb (tl e_cr) (tl e_tab ++ r)) with false.
  change (prefixb (tl e_nl) (tl e_tab ++ r)) with false. cbv iota. rewrite prefixb_app.
  reflexivity. Qed.

Theorem unescape_escape_text : forall s, unescape (escape_text s) = s.
Proof.
  unfold unescape, escape_text. induction s as [|c s IH]; [reflexivity|].
  cbn [flat_map]. unfold esc_text1 at 1.
  destruct (c =? AMP) eqn:E1; [apply N.eqb_eq in E1; subst; now rewrite unesc_amp, IH|].
  destruct (c =? LT) eqn:E2; [apply N.eqb_eq in E2; subst; now rewrite unesc_lt, IH|].
  destruct (c =? GT) eqn:E3; [apply N.eqb_eq in E3; subst; now rewrite unesc_gt, IH|].
  cbn [app]. now rewrite unesc_plain, IH.
Qed.

Theorem unescape_escape_attr : forall s, unescape (escape_attr s) = s.
Proof.
  unfold unescape, escape_attr. induction s as [|c s IH]; [reflexivity|].
  cbn [flat_map]. unfold esc_attr1 at 1.
  destruct (c =? AMP) eqn:E1; [apply N.eqb_eq in E1; subst; now rewrite unesc_amp, IH|].
  destruct (c =? LT) eqn:E2; [apply N.eqb_eq in E2; subst; now rewrite unesc_lt, IH|].
  destruct (c =? GT) eqn:E3; [apply N.eqb_eq in E3; subst; now rewrite unesc_gt, IH|].
  destruct (c =? QUOT) eqn:E4; [apply N.eqb_eq in E4; subst; now rewrite unesc_quot, IH|].
  destruct (c =? 13) eqn:E5; [apply N.eqb_eq in E5; subst; now rewrite unesc_cr, IH|].
  destruct (c =? 10) eqn:E6; [apply N.eqb_eq in E6; subst; now rewrite unesc_nl, IH|].
  destruct (c =? 9) eqn:E7; [apply N.eqb_eq in E7; subst; now rewrite unesc_tab, IH|].
  cbn [app]. now rewrite unesc_plain, IH.
Qed.

(* no markup-significant character survives: neither angle bracket occurs in escaped text, and in an
   attribute value no double quote either *)
Theorem escape_text_no_markup : forall s c, In c (escape_text s) -> c <> LT /\ c <> GT.
Proof.
  intros s c H. unfold escape_text in H. apply in_flat_map in H as [x [_ Hx]]. unfold esc_text1 in Hx.
  destruct (x =? AMP) eqn:E1; [cbn in Hx; repeat (destruct Hx as [<-|Hx]; [split; discriminate|]); destruct Hx|].
  destruct (x =? LT) eqn:E2; [cbn in Hx; repeat (destruct Hx as [<-|Hx]; [split; discriminate|]); destruct Hx|].
  destruct (x =? GT) eqn:E3; [cbn in Hx; repeat (destruct Hx as [<-|Hx]; [split; discriminate|]); destruct Hx|].
  destruct Hx as [<-|[]]. apply N.eqb_neq in E2, E3. now split.
Qed.

Theorem escape_attr_no_markup : forall s c, In c (escape_attr s) -> c <> LT /\ c <> GT /\ c <> QUOT.
Proof.
  intros s c H. unfold escape_attr in H. apply in_flat_map in H as [x [_ Hx]]. unfold esc_attr1 in Hx.
  destruct (x =? AMP) eqn:E1; [cbn in Hx; repeat (destruct Hx as [<-|Hx]; [repeat split; discriminate|]); destruct Hx|].
  destruct (x =? LT) eqn:E2; [cbn in Hx; repeat (destruct Hx as [<-|Hx]; [repeat split; discriminate|]); destruct Hx|].
  destruct (x =? GT) eqn:E3; [cbn in Hx; repeat (destruct Hx as [<-|Hx]; [repeat split; discriminate|]); destruct Hx|].
  destruct (x =? QUOT) eqn:E4; [cbn in Hx; repeat (destruct Hx as [<-|Hx]; [repeat split; discriminate|]); destruct Hx|].
  destruct (x =? 13) eqn:E5; [cbn in Hx; repeat (destruct Hx as [<-|Hx]; [repeat split; discriminate|]); destruct Hx|].
  destruct (x =? 10) eqn:E6; [cbn in Hx; repeat (destruct Hx as [<-|Hx]; [repeat split; discriminate|]); destruct Hx|].
  destruct (x =? 9) eqn:E7; [cbn in Hx; repeat (destruct Hx as [<-|Hx]; [repeat split; discriminate|]); destruct Hx|].
  destruct Hx as [<-|[]]. apply N.eqb_neq in E2, E3, E4. now repeat split.
Qed.

(* the document text of a label: the wrapped lines go through the escaper into <tspan> nodes; a reader
   gets the wrapped lines back, and their words are the words of the label, in order *)
Theorem label_roundtrip : forall (ext : str -> Z) (width : Z) (ws : list str),
  map unescape (map escape_text (split_into_lines ext width ws)) = split_into_lines ext width ws
  /\ concat (wrapw ext width [] ws) = ws.
Proof.
  intros. split; [|apply wrapw_concat].
  rewrite map_map. rewrite <- (map_id (split_into_lines ext width ws)) at 2.
  apply map_ext. intro. apply unescape_escape_text.
Qed.
