(* C16: the model Model/GitTx.v was written against this reading of capellambse/filehandler/git.py.
   Gen/GitTxSrc.v is regenerated from the source on every run (tools/gen_gittx.py); these lemmas stop
   compiling when a plumbing command is dropped, added or reordered in _GitTransaction.__enter__/__exit__/
   record_update (helpers inlined), when the object-name pattern or the refs/heads/ prefix changes, or when
   the defaults of write_transaction change. *)
From Coq Require Import NArith List Bool String Ascii.
Import ListNotations.
From V Require Import Model.Val Model.GitTx Gen.GitTxSrc.
Open Scope string_scope.
Open Scope list_scope.

Definition s2n (s : string) : list N := List.map N_of_ascii (list_ascii_of_string s).
Definition script (l : list (list string)) : list (list (list N)) := List.map (List.map s2n) l.

Lemma src_extracted : src_ok = true.
Proof. reflexivity. Qed.

(* __enter__ : one rev-parse (the old sha), modelled by the first tick of run_tx *)
Lemma tie_enter : src_enter_cmds = script [["rev-parse"]].
Proof. reflexivity. Qed.

(* record_update (close of a writable file) : git add, modelled by git_add *)
Lemma tie_record_update : src_record_update_cmds = script [["add"]].
Proof. reflexivity. Qed.

(* __exit__ with an exception : rollback = reset --hard ; clean -fdq *)
Lemma tie_exit_exception : src_exit_exc_cmds = script [["reset"; "--hard"]; ["clean"; "-fdq"]].
Proof. reflexivity. Qed.

(* __exit__ normal path, in source order: write-tree; cat-file commit (ignore_empty); commit-tree;
   [dry run: rollback]; reset --soft; update-ref; push (not modelled: push=False); [except: rollback] *)
Lemma tie_exit_normal :
  src_exit_normal_cmds =
  script [["write-tree"]; ["cat-file"; "commit"]; ["commit-tree"];
          ["reset"; "--hard"]; ["clean"; "-fdq"];
          ["reset"; "--soft"]; ["update-ref"]; ["-c"];
          ["reset"; "--hard"]; ["clean"; "-fdq"]].
Proof. reflexivity. Qed.

(* the regex behind [objectlike] and the prefix behind [full_ref] *)
Lemma tie_object_name_pattern : src_object_name_pattern = s2n "(^|/)([0-9a-fA-F]{4,}|(.+_)?HEAD)$".
Proof. reflexivity. Qed.
Lemma tie_refs_heads : src_ref_literals = [s_refs_heads; s_refs_heads].
Proof. reflexivity. Qed.
Lemma tie_model_literals : s_refs_heads = s2n "refs/heads/" /\ s_HEAD = s2n "HEAD" /\ s_uHEAD = s2n "_HEAD".
Proof. repeat split. Qed.

(* write_transaction(dry_run=False, ignore_empty=True, push=True) *)
Lemma tie_defaults :
  src_defaults = [(s2n "dry_run", false); (s2n "ignore_empty", true); (s2n "push", true)].
Proof. reflexivity. Qed.
Lemma tie_open_refuses : src_open_refuses_without_transaction = true.
Proof. reflexivity. Qed.
