(* C20 / Reqif: lemmas about Model/Reqif.v *)
From Coq Require Import ZArith NArith List Bool Lia.
Import ListNotations.
From V Require Import Model.Val Model.PyPrims Model.Reqif Gen.Consts_reqif Proofs.PathsP.

(* ---------- folder induction ---------- *)
Section FolderInd.
Variable P : folder -> Prop.
Hypothesis H : forall rs subs, Forall P subs -> P (Folder rs subs).
Fixpoint folder_ind' (f : folder) : P f :=
  match f with
  | Folder rs subs =>
      H rs subs ((fix go (l : list folder) : Forall P l :=
                    match l with [] => Forall_nil P | x :: t => Forall_cons x (folder_ind' x) (go t) end) subs)
  end.
End FolderInd.

Lemma flat_map_ext_Forall {A B} (f g : A -> list B) l :
  Forall (fun x => f x = g x) l -> flat_map f l = flat_map g l.
Proof. induction 1; simpl; congruence. Qed.

Lemma flat_map_map {A B C} (g : B -> C) (f : A -> list B) l :
  flat_map (fun x => map g (f x)) l = map g (flat_map f l).
Proof. induction l; simpl; auto. rewrite map_app. congruence. Qed.

(* ---------- the three traversals of the exporter all walk [dfs] ---------- *)
Section Trav.
Variable xhtml : str -> result str.

Lemma spec_objects_dfs f : spec_objects_of xhtml f = map (build_spec_object xhtml) (dfs f).
Proof.
  induction f using folder_ind'. simpl. rewrite map_app. f_equal.
  rewrite <- flat_map_map. apply flat_map_ext_Forall. exact H.
Qed.

Lemma hierarchy_dfs f : hierarchy_of f = map hier_object (dfs f).
Proof.
  induction f using folder_ind'. simpl. rewrite map_app. f_equal.
  rewrite <- flat_map_map. apply flat_map_ext_Forall. exact H.
Qed.
End Trav.

Lemma collect_dfs f : forall st, collect_folder f st = fold_left collect_requirement (dfs f) st.
Proof.
  induction f using folder_ind'. intros st. simpl. rewrite fold_left_app.
  generalize (fold_left collect_requirement rs st). clear st.
  induction H; intros st; simpl; auto.
  rewrite fold_left_app. rewrite <- H. apply IHForall.
Qed.

(* ---------- sequence ---------- *)
Lemma sequence_map_ok {A B} (g : A -> result B) l : forall l',
  sequence (map g l) = Ok l' -> Forall2 (fun x y => g x = Ok y) l l'.
Proof.
  induction l; simpl; intros l' E.
  - inversion E. constructor.
  - destruct (g a) eqn:G; try discriminate.
    destruct (sequence (map g l)) eqn:S; try discriminate. inversion E; subst.
    constructor; auto.
Qed.

Lemma Forall2_map_eq {A B C} (R : A -> B -> Prop) (f : A -> C) (g : B -> C) l l' :
  Forall2 R l l' -> (forall x y, R x y -> f x = g y) -> map f l = map g l'.
Proof. induction 1; simpl; intros; auto. f_equal; auto. Qed.

Lemma Forall2_in_l {A B} (R : A -> B -> Prop) l l' x :
  Forall2 R l l' -> In x l -> exists y, In y l' /\ R x y.
Proof. induction 1; simpl; intros [].
  - subst. eauto. - destruct (IHForall2 H1) as (y' & ? & ?). eauto. Qed.
Lemma Forall2_in_r {A B} (R : A -> B -> Prop) l l' y :
  Forall2 R l l' -> In y l' -> exists x, In x l /\ R x y.
Proof. induction 1; simpl; intros [].
  - subst. eauto. - destruct (IHForall2 H1) as (x' & ? & ?). eauto. Qed.

(* ---------- definition sites and reference sites of the source use the same templates ---------- *)
Lemma hier_ref_is_objid u : T_hier_ref_is_id (T_hier_objref u) = T_specobj_id u.
Proof. reflexivity. Qed.
Lemma attrref_some_is_decl U K : T_attrref_some U K = T_attrdef_id (T_attid_uuid U) K.
Proof. reflexivity. Qed.
(* the reference written for an attribute WITHOUT definition is the identifier declared for it *)
Lemma attrref_none_is_decl K : T_attrref_none K = T_attrdef_id C_attid_null K.
Proof. reflexivity. Qed.
Lemma attr_defref_is_decl k d : attr_defref k d = T_attrdef_id (attid_of d) (kind_name k).
Proof. destruct d; [apply attrref_some_is_decl | apply attrref_none_is_decl]. Qed.
Lemma stdval_defref_is_decl t n : T_stdval_defref (stdval_base t) n = T_stdattr_id (sot_base t) n.
Proof. destruct t; reflexivity. Qed.
Lemma specobj_typeref_is_decl t :
  match t with Some u => T_specobj_typeref (up u) | None => C_specobj_typeref_null end = T_sot_id (sot_base t).
Proof. destruct t; reflexivity. Qed.
Lemma attrdef_dtref_is_decl d K : T_attrdef_dtref (dtid_of d) K = T_datatype_id (dt_base d) K.
Proof. destruct d as [[? ? ? [?|]]|]; reflexivity. Qed.
Lemma enumvalue_ref_is_id v : T_enumvalue_ref v = T_enumvalue_id v.
Proof. reflexivity. Qed.
Lemma spec_typeref_is_decl t : T_spec_typeref (spec_base t) = st_id (build_specification_type t).
Proof. destruct t; reflexivity. Qed.
Lemma spec_valref_is_decl t n :
  T_spec_valref_a (T_spec_valdefref (spec_base t) n) = T_stdspecattr_id (spectype_base t) n
  /\ T_spec_valref_b (T_spec_valdefref (spec_base t) n) = T_stdspecattr_id (spectype_base t) n.
Proof. destruct t; split; reflexivity. Qed.
Lemma std_dtrefs_declared :
  forallb (fun x => memstr (T_stdattr_dtref (fst (fst x))) (map dd_id std_datatypes)) STD_SPEC_OBJECT_ATTRIBUTES
  && forallb (fun x => memstr (T_stdspecattr_dtref (fst (fst x))) (map dd_id std_datatypes)) STD_SPECIFICATION_ATTRIBUTES = true.
Proof. vm_compute. reflexivity. Qed.

Lemma memstr_In x l : memstr x l = true <-> In x l.
Proof.
  unfold memstr. rewrite existsb_exists. split.
  - intros (y & Hy & E). apply str_eqb_eq in E. subst. auto.
  - intros. exists x. split; auto. apply str_eqb_refl.
Qed.

(* ---------- _collect_objects ---------- *)
Lemma opt_str_eqb_eq a b : opt_str_eqb a b = true <-> a = b.
Proof.
  destruct a, b; simpl; split; intros E; try discriminate; auto.
  - apply str_eqb_eq in E. congruence. - inversion E. apply str_eqb_refl.
Qed.
Lemma kind_eqb_eq a b : kind_eqb a b = true <-> a = b.
Proof. destruct a, b; simpl; split; intros E; try discriminate; auto. Qed.
Lemma akey_eqb_refl k : akey_eqb k k = true.
Proof. unfold akey_eqb. rewrite (proj2 (opt_str_eqb_eq _ _) eq_refl), (proj2 (kind_eqb_eq _ _) eq_refl). reflexivity. Qed.
Lemma akey_eqb_spec a b : akey_eqb a b = true <->
  option_map ad_uuid (fst a) = option_map ad_uuid (fst b) /\ snd a = snd b.
Proof. unfold akey_eqb. rewrite andb_true_iff, opt_str_eqb_eq, kind_eqb_eq. reflexivity. Qed.
Lemma akey_eqb_trans_ex k k1 ks :
  akey_eqb k k1 = true -> existsb (akey_eqb k1) ks = true -> existsb (akey_eqb k) ks = true.
Proof.
  intros E. rewrite !existsb_exists. intros (y & Hy & E2). exists y. split; auto.
  apply akey_eqb_spec in E. apply akey_eqb_spec in E2. apply akey_eqb_spec. destruct E, E2. split; congruence.
Qed.

Lemma add_key_keeps acc k k0 : existsb (akey_eqb k0) acc = true -> existsb (akey_eqb k0) (add_key acc k) = true.
Proof. unfold add_key. destruct (existsb (akey_eqb k) acc); auto. rewrite existsb_app. intros ->. reflexivity. Qed.
Lemma add_key_adds acc k : existsb (akey_eqb k) (add_key acc k) = true.
Proof.
  unfold add_key. destruct (existsb (akey_eqb k) acc) eqn:E; auto.
  rewrite existsb_app. simpl. rewrite akey_eqb_refl. rewrite orb_true_r. reflexivity.
Qed.
Lemma add_key_sub acc k x : In x (add_key acc k) -> In x acc \/ x = k.
Proof. unfold add_key. destruct (existsb (akey_eqb k) acc); auto. rewrite in_app_iff. simpl. intuition congruence. Qed.
Lemma fold_add_keeps ks : forall acc k0, existsb (akey_eqb k0) acc = true -> existsb (akey_eqb k0) (fold_left add_key ks acc) = true.
Proof. induction ks; simpl; intros; auto. apply IHks. apply add_key_keeps. auto. Qed.
Lemma fold_add_adds ks : forall acc k, In k ks -> existsb (akey_eqb k) (fold_left add_key ks acc) = true.
Proof.
  induction ks; simpl; intros acc k []; subst.
  - apply fold_add_keeps. apply add_key_adds. - apply IHks. auto.
Qed.
Lemma fold_add_sub ks : forall acc x, In x (fold_left add_key ks acc) -> In x acc \/ In x ks.
Proof.
  induction ks; simpl; intros; auto. apply IHks in H. destruct H; auto.
  apply add_key_sub in H. destruct H; auto.
Qed.

Lemma upd_ty_keeps tys t ks t0 ks0 : In (t0, ks0) tys ->
  exists ks1, In (t0, ks1) (upd_ty tys t ks) /\ forall k, existsb (akey_eqb k) ks0 = true -> existsb (akey_eqb k) ks1 = true.
Proof.
  induction tys as [|[t' ks'] rest]; simpl; intros [].
  - inversion H; subst. destruct (opt_str_eqb t t0) eqn:E.
    + eexists. split. left. reflexivity. intros. apply fold_add_keeps. auto.
    + exists ks0. split; auto. left. reflexivity.
  - destruct (opt_str_eqb t t').
    + exists ks0. split; auto. right. auto.
    + destruct (IHrest H) as (ks1 & I & K). exists ks1. split; auto. right. auto.
Qed.
Lemma upd_ty_adds tys t ks :
  exists ks1, In (t, ks1) (upd_ty tys t ks) /\ forall k, In k ks -> existsb (akey_eqb k) ks1 = true.
Proof.
  induction tys as [|[t' ks'] rest]; simpl.
  - eexists. split. left. reflexivity. intros. apply fold_add_adds. auto.
  - destruct (opt_str_eqb t t') eqn:E.
    + apply opt_str_eqb_eq in E. subst. eexists. split. left. reflexivity. intros. apply fold_add_adds. auto.
    + destruct IHrest as (ks1 & I & K). exists ks1. split; auto. right. auto.
Qed.
Lemma upd_ty_sub tys t ks t0 ks0 k : In (t0, ks0) (upd_ty tys t ks) -> In k ks0 ->
  (exists ks', In (t0, ks') tys /\ In k ks') \/ In k ks.
Proof.
  induction tys as [|[t' ks'] rest]; simpl.
  - intros [E|[]] I. inversion E; subst. apply fold_add_sub in I. destruct I as [[]|]; auto.
  - destruct (opt_str_eqb t t') eqn:E; simpl; intros [E2|I2] I.
    + inversion E2; subst. apply fold_add_sub in I. destruct I; auto. left. eauto.
    + left. eauto.
    + inversion E2; subst. left. eauto.
    + destruct (IHrest I2 I) as [(ks1 & ? & ?)|]; auto. left. eauto.
Qed.

Definition keys_of (r : req) : list akey := map attr_key (r_attrs r).
Definition Covered (tys : list (option str * list akey)) (r : req) : Prop :=
  exists ks, In (r_type r, ks) tys /\ forall k, In k (keys_of r) -> existsb (akey_eqb k) ks = true.

Lemma covered_mono tys t ks r : Covered tys r -> Covered (upd_ty tys t ks) r.
Proof.
  intros (ks0 & I & K). destruct (upd_ty_keeps tys t ks _ _ I) as (ks1 & I1 & K1).
  exists ks1. split; auto.
Qed.
Lemma covered_add tys r : Covered (upd_ty tys (r_type r) (keys_of r)) r.
Proof. destruct (upd_ty_adds tys (r_type r) (keys_of r)) as (ks1 & I & K). exists ks1. auto. Qed.

Lemma collect_covers l : forall seen tys,
  NoDup (map r_uuid l) -> (forall r, In r l -> ~ In (r_uuid r) seen) ->
  (forall r, In r l -> Covered (snd (fold_left collect_requirement l (seen, tys))) r)
  /\ (forall r, Covered tys r -> Covered (snd (fold_left collect_requirement l (seen, tys))) r).
Proof.
  induction l as [|a l IH]; simpl; intros seen tys ND NS.
  - split; [intros ? []|auto].
  - inversion ND as [|? ? NI ND']; subst.
    assert (M : memstr (r_uuid a) seen = false).
    { destruct (memstr (r_uuid a) seen) eqn:E; auto. apply memstr_In in E. exfalso. eapply NS; eauto. }
    rewrite M.
    destruct (IH (r_uuid a :: seen) (upd_ty tys (r_type a) (map attr_key (r_attrs a))) ND') as [I1 I2].
    { intros r Hr [E|Hs]. - apply NI. rewrite E. apply in_map. auto. - eapply NS; eauto. }
    split.
    + intros r [E|Hr]. * subst. apply I2. apply covered_add. * apply I1. auto.
    + intros r C. apply I2. apply covered_mono. auto.
Qed.

(* every stored key is the key of some attribute of some processed requirement *)
Lemma collect_keys_sub l : forall seen tys t ks k,
  In (t, ks) (snd (fold_left collect_requirement l (seen, tys))) -> In k ks ->
  (exists ks', In (t, ks') tys /\ In k ks') \/ In k (flat_map keys_of l).
Proof.
  induction l as [|a l IH]; simpl; intros seen tys t ks k I Ik.
  - left. eauto.
  - destruct (memstr (r_uuid a) seen).
    + destruct (IH _ _ _ _ _ I Ik); auto. right. apply in_app_iff. auto.
    + destruct (IH _ _ _ _ _ I Ik) as [(ks' & I' & Ik')|]; [|right; apply in_app_iff; auto].
      destruct (upd_ty_sub _ _ _ _ _ _ I' Ik') as [|]; auto. right. apply in_app_iff. auto.
Qed.

(* ---------- _build_datatypes ---------- *)
Definition key_dtid (k : akey) : str := T_datatype_id (dt_base (fst k)) (kind_name (snd k)).

Lemma build_datatypes_covers keys : forall visited dts,
  build_datatypes keys visited = Ok dts ->
  forall k, In k keys -> In (key_dtid k) visited \/ In (key_dtid k) (map dd_id dts).
Proof.
  induction keys as [|[d k0] rest IH]; simpl; intros visited dts E k [].
  - subst. unfold key_dtid. simpl.
    destruct (memstr _ visited) eqn:M. + left. apply memstr_In. auto.
    + destruct (dt_enum_values d); try discriminate. destruct (build_datatypes rest _); try discriminate.
      inversion E. right. left. reflexivity.
  - destruct (memstr _ visited) eqn:M. + eapply IH; eauto.
    + destruct (dt_enum_values d); try discriminate.
      destruct (build_datatypes rest _) eqn:B; try discriminate. inversion E; subst.
      destruct (IH _ _ B k H) as [[|]|]; auto.
      * right. left. simpl. auto. * right. right. auto.
Qed.

Lemma build_datatypes_vals keys : forall visited dts,
  build_datatypes keys visited = Ok dts ->
  forall dd, In dd dts -> exists k, In k keys /\ dd_id dd = key_dtid k /\ dt_enum_values (fst k) = Ok (dd_vals dd).
Proof.
  induction keys as [|[d k0] rest IH]; simpl; intros visited dts E dd I.
  - inversion E; subst. destruct I.
  - destruct (memstr _ visited) eqn:M.
    + destruct (IH _ _ E dd I) as (k & ? & ? & ?). exists k. auto.
    + destruct (dt_enum_values d) eqn:V; try discriminate.
      destruct (build_datatypes rest _) eqn:B; try discriminate. inversion E; subst.
      destruct I as [<-|I].
      * exists (d, k0). simpl. auto.
      * destruct (IH _ _ B dd I) as (k & ? & ? & ?). exists k. auto.
Qed.

(* ---------- inversion of the builders ---------- *)
Lemma build_attr_decl_ok k d : build_attr_decl k = Ok d ->
  a_id d = T_attrdef_id (attid_of (fst k)) (kind_name (snd k))
  /\ a_dtref d = T_attrdef_dtref (dtid_of (fst k)) (kind_name (snd k)).
Proof.
  destruct k as [o k]. unfold build_attr_decl. simpl.
  destruct k; try (intros E; inversion E; subst; simpl; auto).
  destruct o as [a|]; try discriminate. destruct (ad_enum a); try discriminate.
  inversion E; subst; simpl; auto.
Qed.

Lemma build_sotype_ok t ks st : build_sotype (t, ks) = Ok st ->
  st_id st = T_sot_id (sot_base t)
  /\ st_std st = std_attr_decls STD_SPEC_OBJECT_ATTRIBUTES (T_stdattr_id (sot_base t)) T_stdattr_dtref
  /\ Forall2 (fun k d => build_attr_decl k = Ok d) ks (st_attrs st).
Proof.
  unfold build_sotype. destruct (sequence (map build_attr_decl ks)) eqn:S; try discriminate.
  intros E. inversion E; subst. simpl. repeat split. apply sequence_map_ok. auto.
Qed.

Lemma std_attr_decl_ids tbl idf reff : map a_id (std_attr_decls tbl idf reff) = map (fun x => idf (fst (fst x))) tbl.
Proof. unfold std_attr_decls. rewrite map_map. reflexivity. Qed.
Lemma std_attr_decl_refs tbl idf reff : map a_dtref (std_attr_decls tbl idf reff) = map (fun x => reff (fst (fst x))) tbl.
Proof. unfold std_attr_decls. rewrite map_map. reflexivity. Qed.

Lemma concat_res_in {A B} (g : A -> result (list B)) l res v :
  concat_res (map g l) = Ok res -> In v res -> exists x vs, In x l /\ g x = Ok vs /\ In v vs.
Proof.
  unfold concat_res. destruct (sequence (map g l)) eqn:S; try discriminate.
  intros E I. inversion E; subst. apply sequence_map_ok in S.
  apply in_concat in I. destruct I as (vs & Ivs & Iv).
  destruct (Forall2_in_r _ _ _ _ S Ivs) as (x & ? & ?). eauto.
Qed.

Section Closure.
Variable xhtml : str -> result str.

Lemma build_std_value_refs r row vs v : build_std_value xhtml r row = Ok vs -> In v vs ->
  value_refs v = [T_stdval_defref (stdval_base (r_type r)) (fst (fst row))].
Proof.
  destruct row as [[name ty] py]. unfold build_std_value. simpl.
  destruct (std_field r py); try discriminate.
  destruct (str_eqb ty T_STRING).
  - intros E I. inversion E; subst. destruct I as [<-|[]]. reflexivity.
  - destruct (str_eqb ty T_XHTML).
    + destruct (xhtml _); try discriminate. intros E I. inversion E; subst. destruct I as [<-|[]]. reflexivity.
    + intros E I. inversion E; subst. destruct I.
Qed.

Lemma build_spec_object_ok r o : build_spec_object xhtml r = Ok o ->
  so_id o = T_specobj_id (up (r_uuid r))
  /\ so_typeref o = T_sot_id (sot_base (r_type r))
  /\ exists std, concat_res (map (build_std_value xhtml r) STD_SPEC_OBJECT_ATTRIBUTES) = Ok std
                 /\ so_values o = std ++ map build_attr_value (r_attrs r).
Proof.
  unfold build_spec_object. destruct (concat_res _) eqn:C; try discriminate.
  intros E. inversion E; subst. simpl. repeat split. apply specobj_typeref_is_decl. eauto.
Qed.

Lemma export_inv m q : export xhtml m = Ok q ->
  exists dts sots objs svals,
    build_datatypes (flat_map snd (collect_objects m)) [] = Ok dts
    /\ sequence (map build_sotype (collect_objects m)) = Ok sots
    /\ sequence (map (build_spec_object xhtml) (dfs (m_root m))) = Ok objs
    /\ concat_res (map (build_spec_value xhtml m) STD_SPECIFICATION_ATTRIBUTES) = Ok svals
    /\ q = mkQ (T_header_id (up (m_model m))) (std_datatypes ++ dts) sots (build_specification_type (m_type m))
               objs (T_spec_id (up (m_uuid m))) (T_spec_typeref (spec_base (m_type m))) svals
               (map hier_object (dfs (m_root m))).
Proof.
  unfold export. rewrite spec_objects_dfs, hierarchy_dfs.
  destruct (build_datatypes _ _) eqn:D; try discriminate.
  destruct (sequence (map build_sotype _)) eqn:S; try discriminate.
  destruct (sequence (map (build_spec_object xhtml) _)) eqn:O; try discriminate.
  destruct (concat_res _) eqn:V; try discriminate.
  intros E. inversion E; subst. repeat eexists; eauto.
Qed.

(* ---------- coverage: every requirement exactly once, depth-first, in both places ---------- *)
Definition req_id (r : req) : str := T_specobj_id (up (r_uuid r)).

Lemma coverage_objs m q : export xhtml m = Ok q -> map so_id (q_objs q) = map req_id (dfs (m_root m)).
Proof.
  intros E. destruct (export_inv _ _ E) as (dts & sots & objs & svals & _ & _ & O & _ & ->). simpl.
  apply sequence_map_ok in O. symmetry. eapply Forall2_map_eq; eauto.
  intros r o B. apply build_spec_object_ok in B. destruct B as (-> & _). reflexivity.
Qed.

Lemma coverage_hier m q : export xhtml m = Ok q ->
  map h_ref (q_hier q) = map req_id (dfs (m_root m))
  /\ map h_id (q_hier q) = map (fun r => T_hier_id (req_id r)) (dfs (m_root m)).
Proof.
  intros E. destruct (export_inv _ _ E) as (dts & sots & objs & svals & _ & _ & _ & _ & ->). simpl.
  rewrite !map_map. split; reflexivity.
Qed.
End Closure.

(* ---------- membership in [identifiers] ---------- *)
Lemma ids_dt q dd : In dd (q_datatypes q) -> In (dd_id dd) (identifiers q).
Proof. intros. unfold identifiers. right. apply in_app_iff. left. apply in_flat_map. exists dd. simpl. auto. Qed.
Lemma ids_enumval q dd v : In dd (q_datatypes q) -> In v (dd_vals dd) -> In v (identifiers q).
Proof. intros. unfold identifiers. right. apply in_app_iff. left. apply in_flat_map. exists dd. simpl. auto. Qed.
Lemma ids_sot q st x : In st (q_sotypes q) -> In x (sotype_ids st) -> In x (identifiers q).
Proof. intros. unfold identifiers. right. apply in_app_iff. right. apply in_app_iff. left. apply in_flat_map. eauto. Qed.
Lemma ids_stype q x : In x (sotype_ids (q_stype q)) -> In x (identifiers q).
Proof. intros. unfold identifiers. right. rewrite !in_app_iff. auto. Qed.
Lemma ids_obj q x : In x (map so_id (q_objs q)) -> In x (identifiers q).
Proof. intros. unfold identifiers. right. rewrite !in_app_iff. auto. Qed.

(* ---------- hypotheses of the closure theorem (all follow from "a uuid names one object") ---------- *)
Definition all_keys (m : module) : list akey := flat_map keys_of (dfs (m_root m)).
(* two attributes naming the same definition uuid carry the same definition *)
Definition DefsConsistent (m : module) : Prop :=
  forall k k', In k (all_keys m) -> In k' (all_keys m) -> akey_eqb k k' = true -> k = k'.
(* two definitions mapped to the same DATATYPE-DEFINITION identifier declare the same enumeration values *)
Definition DatatypesConsistent (m : module) : Prop :=
  forall k k', In k (all_keys m) -> In k' (all_keys m) -> key_dtid k = key_dtid k' ->
               dt_enum_values (fst k) = dt_enum_values (fst k').
(* an enumeration attribute has an enumeration definition with a data type, and chooses among its values *)
Definition EnumDeclared (m : module) : Prop :=
  forall r a vs, In r (dfs (m_root m)) -> In a (r_attrs r) -> at_val a = PEnum vs ->
    exists d t, at_def a = Some d /\ ad_enum d = true /\ ad_dtype d = Some t /\ incl vs (dt_values t).
Definition UniqueReqs (m : module) : Prop := NoDup (map r_uuid (dfs (m_root m))).

Lemma attid_of_ext d d' : option_map ad_uuid d = option_map ad_uuid d' -> attid_of d = attid_of d'.
Proof. destruct d, d'; simpl; intros E; inversion E; auto; try congruence. Qed.

Lemma value_refs_attr a x : In x (value_refs (build_attr_value a)) ->
  x = attr_defref (at_kind a) (at_def a)
  \/ exists vs v, at_val a = PEnum vs /\ In v vs /\ x = T_enumvalue_ref (up v).
Proof.
  unfold build_attr_value, at_kind. destruct (at_val a) as [b|[s|]|vs|z|c rp|s]; simpl; intros H;
    try (destruct H as [<-|[]]; left; reflexivity).
  destruct H as [<-|H]; [left; reflexivity|]. right.
  apply in_map_iff in H. destruct H as (v & <- & Iv). eauto.
Qed.

Lemma stype_refs t : sotype_refs (build_specification_type t)
  = map (fun x => T_stdspecattr_dtref (fst (fst x))) STD_SPECIFICATION_ATTRIBUTES.
Proof. destruct t; reflexivity. Qed.
Lemma stype_ids t : sotype_ids (build_specification_type t)
  = st_id (build_specification_type t)
    :: map (fun x => T_stdspecattr_id (spectype_base t) (fst (fst x))) STD_SPECIFICATION_ATTRIBUTES.
Proof. destruct t; reflexivity. Qed.

Section Closed.
Variable xhtml : str -> result str.

Theorem refs_closed_lemma m q :
  UniqueReqs m -> DefsConsistent m -> DatatypesConsistent m -> EnumDeclared m ->
  export xhtml m = Ok q -> incl (references q) (identifiers q).
Proof.
  intros ND DC TC ED E.
  pose proof (coverage_objs xhtml m q E) as COVO.
  destruct (export_inv _ _ _ E) as (dts & sots & objs & svals & D & S & O & V & Q).
  set (tys := collect_objects m) in *.
  assert (COV : forall r, In r (dfs (m_root m)) -> Covered tys r).
  { unfold tys, collect_objects. rewrite collect_dfs.
    apply (collect_covers (dfs (m_root m)) [] []); auto. }
  assert (KS : forall t ks k, In (t, ks) tys -> In k ks -> In k (all_keys m)).
  { unfold tys, collect_objects. rewrite collect_dfs. intros t ks k I Ik.
    destruct (collect_keys_sub _ _ _ _ _ _ I Ik) as [(? & [] & _)|]; auto. }
  apply sequence_map_ok in S. apply sequence_map_ok in O.
  assert (QD : q_datatypes q = std_datatypes ++ dts) by (subst q; reflexivity).
  assert (QS : q_sotypes q = sots) by (subst q; reflexivity).
  assert (QT : q_stype q = build_specification_type (m_type m)) by (subst q; reflexivity).
  assert (QO : q_objs q = objs) by (subst q; reflexivity).
  assert (STD : forall x, In x (map dd_id std_datatypes) -> In x (identifiers q)).
  { intros x I. apply in_map_iff in I. destruct I as (dd & <- & I). apply ids_dt. rewrite QD. apply in_app_iff. auto. }
  pose proof std_dtrefs_declared as SD. apply andb_true_iff in SD. destruct SD as [SD1 SD2].
  rewrite forallb_forall in SD1, SD2.
  assert (KD : forall t ks k, In (t, ks) tys -> In k ks -> In (key_dtid k) (identifiers q)).
  { intros t ks k I Ik.
    destruct (build_datatypes_covers _ _ _ D k) as [[]|I2].
    { apply in_flat_map. exists (t, ks). auto. }
    apply in_map_iff in I2. destruct I2 as (dd & <- & I2). apply ids_dt. rewrite QD. apply in_app_iff. auto. }
  intros x Hx. unfold references in Hx. rewrite !in_app_iff in Hx.
  destruct Hx as [A|[B|[C|[Dd|[Ev|F]]]]].
  - (* data type refs of the spec object types *)
    rewrite QS in A. apply in_flat_map in A. destruct A as (st & Ist & Hx).
    destruct (Forall2_in_r _ _ _ _ S Ist) as ([t ks] & Itk & B). apply build_sotype_ok in B. destruct B as (_ & Hstd & Hat).
    unfold sotype_refs in Hx. apply in_app_iff in Hx. destruct Hx as [Hx|Hx].
    + rewrite Hstd, std_attr_decl_refs in Hx. apply in_map_iff in Hx. destruct Hx as (row & <- & Irow).
      apply STD. apply memstr_In. apply SD1. auto.
    + apply in_map_iff in Hx. destruct Hx as (d & <- & Id).
      destruct (Forall2_in_r _ _ _ _ Hat Id) as (k & Ik & Bk). apply build_attr_decl_ok in Bk. destruct Bk as (_ & ->).
      rewrite attrdef_dtref_is_decl. eapply KD; eauto.
  - rewrite QT, stype_refs in B.
    apply in_map_iff in B. destruct B as (row & <- & Irow). apply STD. apply memstr_In. apply SD2. auto.
  - (* spec objects *)
    rewrite QO in C. apply in_flat_map in C. destruct C as (o & Io & Hx).
    destruct (Forall2_in_r _ _ _ _ O Io) as (r & Ir & Bo). apply build_spec_object_ok in Bo.
    destruct Bo as (_ & Htr & std & Cstd & Hv).
    destruct (COV r Ir) as (ks & Itk & Kc).
    destruct (Forall2_in_l _ _ _ _ S Itk) as (st & Ist & Bst). apply build_sotype_ok in Bst. destruct Bst as (Hid & Hstd & Hat).
    rewrite <- QS in Ist.
    unfold sobj_refs in Hx. apply in_app_iff in Hx. destruct Hx as [Hx|[<-|[]]].
    2:{ rewrite Htr, <- Hid. eapply ids_sot; eauto. left. reflexivity. }
    rewrite Hv in Hx. apply in_flat_map in Hx. destruct Hx as (v & Iv & Hx). apply in_app_iff in Iv. destruct Iv as [Iv|Iv].
    + destruct (concat_res_in _ _ _ _ Cstd Iv) as (row & vs & Irow & Brow & Ivs).
      rewrite (build_std_value_refs _ _ _ _ _ Brow Ivs) in Hx. destruct Hx as [<-|[]].
      rewrite stdval_defref_is_decl. eapply ids_sot; eauto. right. apply in_app_iff. left.
      rewrite Hstd, std_attr_decl_ids. apply in_map_iff. exists row. auto.
    + apply in_map_iff in Iv. destruct Iv as (a & <- & Ia).
      assert (Ika : In (attr_key a) (keys_of r)) by (apply in_map; auto).
      pose proof (Kc _ Ika) as Ex. apply existsb_exists in Ex. destruct Ex as (k' & Ik' & Ek').
      destruct (value_refs_attr _ _ Hx) as [->|(vs & v0 & Pv & Iv0 & ->)].
      * rewrite attr_defref_is_decl.
        destruct (Forall2_in_l _ _ _ _ Hat Ik') as (d' & Id' & Bd'). apply build_attr_decl_ok in Bd'. destruct Bd' as (Hd' & _).
        apply akey_eqb_spec in Ek'. destruct Ek' as [Eu Ek]. simpl in Eu, Ek.
        eapply ids_sot; eauto. right. apply in_app_iff. right. apply in_map_iff. exists d'. split; auto.
        rewrite Hd', <- Ek. f_equal. symmetry. apply attid_of_ext. auto.
      * destruct (ED r a vs Ir Ia Pv) as (d & t & Hd & He & Ht & Hin).
        assert (IA : In (attr_key a) (all_keys m)). { apply in_flat_map. exists r. auto. }
        assert (k' = attr_key a). { symmetry. apply DC; auto. eapply KS; eauto. } subst k'.
        destruct (build_datatypes_covers _ _ _ D (attr_key a)) as [[]|I2].
        { apply in_flat_map. exists (r_type r, ks). auto. }
        apply in_map_iff in I2. destruct I2 as (dd & Edd & Idd).
        destruct (build_datatypes_vals _ _ _ D dd Idd) as (k2 & Ik2 & Eid & Ev2).
        apply in_flat_map in Ik2. destruct Ik2 as ([t2 ks2] & It2 & Ik2). simpl in Ik2.
        assert (EV : dt_enum_values (fst (attr_key a)) = Ok (dd_vals dd)).
        { rewrite <- Ev2. apply TC; auto. eapply KS; eauto. congruence. }
        unfold attr_key in EV. simpl in EV. rewrite Hd in EV. simpl in EV. rewrite He, Ht in EV. inversion EV as [EV'].
        apply (ids_enumval q dd). { rewrite QD. apply in_app_iff. auto. }
        rewrite <- EV'. rewrite enumvalue_ref_is_id. apply in_map_iff. exists v0. split; auto.
  - destruct Dd as [<-|[]]. apply ids_stype. rewrite QT, stype_ids. left. subst q. cbn [q_spec_typeref]. symmetry. apply spec_typeref_is_decl.
  - assert (QV : q_spec_values q = svals) by (subst q; reflexivity). rewrite QV in Ev.
    apply in_flat_map in Ev. destruct Ev as (v & Iv & Hx).
    destruct (concat_res_in _ _ _ _ V Iv) as ([[name ty] py] & vs & Irow & Brow & Ivs).
    apply ids_stype. rewrite QT, stype_ids. right. apply in_map_iff.
    exists (name, ty, py). split; auto. cbn [fst].
    unfold build_spec_value in Brow. destruct (str_eqb ty T_XHTML).
    + destruct (xhtml _); try discriminate. inversion Brow; subst. destruct Ivs as [<-|[]]. destruct Hx as [<-|[]].
      symmetry. apply spec_valref_is_decl.
    + inversion Brow; subst. destruct Ivs as [<-|[]]. destruct Hx as [<-|[]]. symmetry. apply spec_valref_is_decl.
  - apply ids_obj. rewrite COVO. destruct (coverage_hier xhtml m q E) as [<- _]. auto.
Qed.
End Closed.

(* ---------- exactly once ---------- *)
Definition str_eq_dec : forall a b : str, {a = b} + {a <> b} := list_eq_dec N.eq_dec.
Definition UniqueUuidsUp (m : module) : Prop := NoDup (map (fun r => up (r_uuid r)) (dfs (m_root m))).

Lemma NoDup_map_inj {A B} (f : A -> B) l : (forall a b, f a = f b -> a = b) -> NoDup l -> NoDup (map f l).
Proof.
  intros Inj. induction 1; simpl; constructor; auto.
  intros I. apply in_map_iff in I. destruct I as (y & E & Iy). apply Inj in E. subst. auto.
Qed.
Lemma specobj_id_inj a b : T_specobj_id a = T_specobj_id b -> a = b.
Proof. unfold T_specobj_id. apply app_inv_head. Qed.
Lemma hier_id_inj a b : T_hier_id a = T_hier_id b -> a = b.
Proof. unfold T_hier_id. apply app_inv_tail. Qed.

Section Once.
Variable xhtml : str -> result str.

Lemma objs_nodup m q : UniqueUuidsUp m -> export xhtml m = Ok q ->
  NoDup (map so_id (q_objs q)) /\ NoDup (map h_ref (q_hier q)) /\ NoDup (map h_id (q_hier q)).
Proof.
  intros U E. rewrite (coverage_objs xhtml m q E). destruct (coverage_hier xhtml m q E) as [-> ->].
  assert (N : NoDup (map req_id (dfs (m_root m)))).
  { unfold req_id. rewrite <- (map_map (fun r => up (r_uuid r)) T_specobj_id).
    apply NoDup_map_inj; auto. apply specobj_id_inj. }
  repeat split; auto.
  rewrite <- (map_map req_id T_hier_id). apply NoDup_map_inj; auto. apply hier_id_inj.
Qed.

Lemma exactly_once m q r : UniqueUuidsUp m -> export xhtml m = Ok q -> In r (dfs (m_root m)) ->
  count_occ str_eq_dec (map so_id (q_objs q)) (req_id r) = 1%nat
  /\ count_occ str_eq_dec (map h_ref (q_hier q)) (req_id r) = 1%nat.
Proof.
  intros U E I. destruct (objs_nodup m q U E) as (N1 & N2 & _).
  split; apply NoDup_count_occ'; auto.
  - rewrite (coverage_objs xhtml m q E). apply in_map. auto.
  - destruct (coverage_hier xhtml m q E) as [-> _]. apply in_map. auto.
Qed.

(* ---------- values ---------- *)
Definition html_or_empty (v : str) : str := if nonempty v then v else EMPTY_HTML.
Definition stdref (r : req) (n : str) : str := T_stdval_defref (stdval_base (r_type r)) n.
Definition n_ForeignID : str := [70;111;114;101;105;103;110;73;68]%N.
Definition n_ChapterName : str := [67;104;97;112;116;101;114;78;97;109;101]%N.
Definition n_Name : str := [78;97;109;101]%N.
Definition n_Text : str := [84;101;120;116]%N.

Lemma spec_object_values r o : build_spec_object xhtml r = Ok o ->
  exists cn nm tx,
    xhtml (html_or_empty (r_chap r)) = Ok cn /\ xhtml (html_or_empty (r_name r)) = Ok nm
    /\ xhtml (html_or_empty (r_text r)) = Ok tx
    /\ so_values o = [VSimple T_STRING (r_ident r) (stdref r n_ForeignID); VXhtml (stdref r n_ChapterName) cn;
                      VXhtml (stdref r n_Name) nm; VXhtml (stdref r n_Text) tx]
                     ++ map build_attr_value (r_attrs r)
    /\ so_long o = (if nonempty (r_long r) then Some (r_long r) else None).
Proof.
  unfold build_spec_object, concat_res, html_or_empty, stdref.
  cbn [STD_SPEC_OBJECT_ATTRIBUTES map sequence build_std_value std_field str_eqb N.eqb Pos.eqb T_STRING T_XHTML andb].
  destruct (xhtml (if nonempty (r_chap r) then r_chap r else EMPTY_HTML)) as [cn|]; try discriminate.
  destruct (xhtml (if nonempty (r_name r) then r_name r else EMPTY_HTML)) as [nm|]; try discriminate.
  destruct (xhtml (if nonempty (r_text r) then r_text r else EMPTY_HTML)) as [tx|]; try discriminate.
  cbn [concat app]. intros E. inversion E; subst. cbn [so_values so_long]. exists cn, nm, tx. repeat split.
Qed.

Lemma values_intact_lemma m q : export xhtml m = Ok q ->
  Forall2 (fun r o => build_spec_object xhtml r = Ok o) (dfs (m_root m)) (q_objs q).
Proof.
  intros E. destruct (export_inv _ _ _ E) as (dts & sots & objs & svals & _ & _ & O & _ & ->).
  apply sequence_map_ok in O. exact O.
Qed.
End Once.

Lemma enum_choices_intact a vs : at_val a = PEnum vs ->
  build_attr_value a = VEnumV (attr_defref KEnum (at_def a)) (map (fun v => T_enumvalue_ref (up v)) vs).
Proof. unfold build_attr_value, at_kind. intros ->. reflexivity. Qed.
Lemma simple_values_intact a :
  match at_val a with
  | PBool b => build_attr_value a = VSimple (kind_name KBool) (if b then s_true else s_false) (attr_defref KBool (at_def a))
  | PDate None => build_attr_value a = VSimple (kind_name KDate) DATE_DEFAULT (attr_defref KDate (at_def a))
  | PDate (Some s) => build_attr_value a = VSimple (kind_name KDate) s (attr_defref KDate (at_def a))
  | PInt z => build_attr_value a = VSimple (kind_name KInt) (dec_of_Z z) (attr_defref KInt (at_def a))
  | PStr s => build_attr_value a = VSimple (kind_name KStr) s (attr_defref KStr (at_def a))
  | PReal c rp => exists x, build_attr_value a = VSimple (kind_name KReal) x (attr_defref KReal (at_def a))
  | PEnum _ => True
  end.
Proof. unfold build_attr_value, at_kind. destruct (at_val a) as [b|[s|]|vs|z|c rp|s]; eauto. Qed.

(* ---------- duplicate detection for the refutation ---------- *)
Fixpoint has_dup (l : list str) : bool :=
  match l with [] => false | x :: r => memstr x r || has_dup r end.
Lemma has_dup_sound l : has_dup l = true -> ~ NoDup l.
Proof.
  induction l; simpl; intros H N; try discriminate. inversion N; subst.
  apply orb_true_iff in H. destruct H as [H|H]. - apply memstr_In in H. auto. - apply IHl; auto.
Qed.

(* ---------- container ---------- *)
Section ContainerP.
Variable zip : list (str * str) -> str.
Variable unzip : str -> option (list (str * str)).
Hypothesis unzip_zip : forall ms, unzip (zip ms) = Some ms.
Lemma compressed_same_lemma doc :
  unzip (write_container zip true doc) = Some [(ARCHIVE_MEMBER, doc)] /\ write_container zip false doc = doc.
Proof. unfold write_container. split; auto. Qed.
End ContainerP.
Lemma decide_compress_spec c p name :
  decide_compress c p name = true <-> c = None /\ p = true /\ ends_with name COMPRESS_SUFFIX = true.
Proof.
  unfold decide_compress. destruct c; [split; [discriminate|intros (E & _); discriminate]|].
  destruct p; split; intros; try discriminate; intuition; try discriminate.
Qed.

Lemma Forall2_weaken {A B} (R1 R2 : A -> B -> Prop) l l' :
  (forall a b, R1 a b -> R2 a b) -> Forall2 R1 l l' -> Forall2 R2 l l'.
Proof. intros H. induction 1; constructor; auto. Qed.

Definition intact (xhtml : str -> result str) (r : req) (o : sobj) : Prop :=
  so_id o = req_id r
  /\ so_typeref o = T_sot_id (sot_base (r_type r))
  /\ so_long o = (if nonempty (r_long r) then Some (r_long r) else None)
  /\ exists cn nm tx,
       xhtml (html_or_empty (r_chap r)) = Ok cn /\ xhtml (html_or_empty (r_name r)) = Ok nm
       /\ xhtml (html_or_empty (r_text r)) = Ok tx
       /\ so_values o = [VSimple T_STRING (r_ident r) (stdref r n_ForeignID); VXhtml (stdref r n_ChapterName) cn;
                         VXhtml (stdref r n_Name) nm; VXhtml (stdref r n_Text) tx]
                        ++ map build_attr_value (r_attrs r).

Lemma values_intact_full xhtml m q : export xhtml m = Ok q ->
  Forall2 (intact xhtml) (dfs (m_root m)) (q_objs q).
Proof.
  intros E. eapply Forall2_weaken; [|apply values_intact_lemma; eauto].
  intros r o B. unfold intact.
  destruct (build_spec_object_ok _ _ _ B) as (H1 & H2 & _).
  destruct (spec_object_values _ _ _ B) as (cn & nm & tx & ? & ? & ? & ? & ?).
  repeat split; auto. exists cn, nm, tx. auto.
Qed.

(* ---------- when does the export produce a document at all ---------- *)
Lemma sequence_all_ok {A B} (g : A -> result B) l :
  (forall x, In x l -> exists y, g x = Ok y) -> exists l', sequence (map g l) = Ok l'.
Proof.
  induction l; simpl; intros H. - eauto.
  - destruct (H a (or_introl eq_refl)) as (y & ->).
    destruct IHl as (l' & ->). { intros. apply H. auto. } eauto.
Qed.
Lemma build_datatypes_total keys : forall visited,
  (forall k, In k keys -> exists vs, dt_enum_values (fst k) = Ok vs) -> exists dts, build_datatypes keys visited = Ok dts.
Proof.
  induction keys as [|[d k] rest IH]; simpl; intros visited H. - eauto.
  - destruct (memstr _ visited). + apply IH. intros. apply H. auto.
    + destruct (H (d, k) (or_introl eq_refl)) as (vs & E). simpl in E. rewrite E.
      destruct (IH (T_datatype_id (dt_base d) (kind_name k) :: visited)) as (dts & ->). { intros. apply H. auto. } eauto.
Qed.

(* guards: every definition used is complete for its use, and lxml can parse every XHTML-typed field *)
Definition DefsComplete (m : module) : Prop :=
  forall k, In k (all_keys m) -> (exists vs, dt_enum_values (fst k) = Ok vs) /\ (exists d, build_attr_decl k = Ok d).
Definition FieldsParse (xhtml : str -> result str) (m : module) : Prop :=
  (forall r, In r (dfs (m_root m)) ->
     (exists c, xhtml (html_or_empty (r_chap r)) = Ok c) /\ (exists c, xhtml (html_or_empty (r_name r)) = Ok c)
     /\ (exists c, xhtml (html_or_empty (r_text r)) = Ok c))
  /\ exists c, xhtml (s_div_open ++ m_long m ++ s_div_close) = Ok c.

Lemma export_total_lemma xhtml m : DefsComplete m -> FieldsParse xhtml m -> exists q, export xhtml m = Ok q.
Proof.
  intros DCm (FP & c0 & FM). unfold export. rewrite spec_objects_dfs, hierarchy_dfs.
  assert (KS : forall t ks k, In (t, ks) (collect_objects m) -> In k ks -> In k (all_keys m)).
  { unfold collect_objects. rewrite collect_dfs. intros t ks k I Ik.
    destruct (collect_keys_sub _ _ _ _ _ _ I Ik) as [(? & [] & _)|]; auto. }
  destruct (build_datatypes_total (flat_map snd (collect_objects m)) []) as (dts & ->).
  { intros k Ik. apply in_flat_map in Ik. destruct Ik as ([t ks] & I & Ik). apply DCm. eapply KS; eauto. }
  destruct (sequence_all_ok build_sotype (collect_objects m)) as (sots & ->).
  { intros [t ks] I. unfold build_sotype.
    destruct (sequence_all_ok build_attr_decl ks) as (ds & ->); eauto.
    intros k Ik. apply DCm. eapply KS; eauto. }
  destruct (sequence_all_ok (build_spec_object xhtml) (dfs (m_root m))) as (objs & ->).
  { intros r Ir. destruct (FP r Ir) as ((c1 & E1) & (c2 & E2) & (c3 & E3)).
    unfold build_spec_object, concat_res, html_or_empty in *.
    cbn [STD_SPEC_OBJECT_ATTRIBUTES map sequence build_std_value std_field str_eqb N.eqb Pos.eqb T_STRING T_XHTML andb].
    rewrite E1, E2, E3. eauto. }
  unfold concat_res.
  cbn [STD_SPECIFICATION_ATTRIBUTES map sequence build_spec_value str_eqb N.eqb Pos.eqb T_XHTML andb].
  rewrite FM. eauto.
Qed.

(* ---------- the visited_types set of _build_datatypes makes the generated data types duplicate-free ---------- *)
Lemma build_datatypes_nodup keys : forall visited dts,
  build_datatypes keys visited = Ok dts ->
  NoDup (map dd_id dts) /\ forall x, In x (map dd_id dts) -> ~ In x visited.
Proof.
  induction keys as [|[d k] rest IH]; simpl; intros visited dts E.
  - inversion E; subst. split. constructor. intros x [].
  - destruct (memstr _ visited) eqn:M. + eapply IH; eauto.
    + destruct (dt_enum_values d); try discriminate.
      destruct (build_datatypes rest _) eqn:B; try discriminate. inversion E; subst. clear E.
      destruct (IH _ _ B) as (N & O). simpl. split.
      * constructor; auto. intros I. apply (O _ I). left. reflexivity.
      * intros x [<-|I].
        -- intros I. apply memstr_In in I. congruence.
        -- intros I2. apply (O _ I). right. auto.
Qed.
Lemma datatypes_nodup xhtml m q : export xhtml m = Ok q ->
  exists dts, q_datatypes q = std_datatypes ++ dts /\ NoDup (map dd_id dts) /\ has_dup (map dd_id std_datatypes) = false.
Proof.
  intros E. destruct (export_inv _ _ _ E) as (dts & sots & objs & svals & D & _ & _ & _ & ->).
  exists dts. simpl. repeat split. apply (build_datatypes_nodup _ _ _ D).
Qed.

(* ---------- a concrete archive format: the hypothesis of compressed_same (unzip inverts zip) is
   satisfiable.  Each member is written as <len name> name <len data> data. ---------- *)
Definition ex_zip (ms : list (str * str)) : str :=
  flat_map (fun p => N.of_nat (length (fst p)) :: fst p ++ N.of_nat (length (snd p)) :: snd p) ms.
Fixpoint ex_unzip_go (fuel : nat) (s : str) : option (list (str * str)) :=
  match fuel with
  | O => match s with [] => Some [] | _ => None end
  | S f =>
      match s with
      | [] => Some []
      | la :: r =>
          match skipn (N.to_nat la) r with
          | [] => None
          | lb :: r2 =>
              match ex_unzip_go f (skipn (N.to_nat lb) r2) with
              | Some t => Some ((firstn (N.to_nat la) r, firstn (N.to_nat lb) r2) :: t)
              | None => None
              end
          end
      end
  end.
Definition ex_unzip (s : str) : option (list (str * str)) := ex_unzip_go (length s) s.

Lemma firstn_skipn_app_exact {A} (a x : list A) :
  firstn (length a) (a ++ x) = a /\ skipn (length a) (a ++ x) = x.
Proof. induction a as [|y a [IH1 IH2]]; simpl; [auto|]. split; congruence. Qed.
Lemma ex_zip_cons a b ms :
  ex_zip ((a, b) :: ms) = N.of_nat (length a) :: a ++ N.of_nat (length b) :: b ++ ex_zip ms.
Proof. unfold ex_zip. simpl. rewrite <- app_assoc. reflexivity. Qed.
Lemma ex_zip_length ms : (length ms <= length (ex_zip ms))%nat.
Proof.
  induction ms as [|[a b] ms IH]; [simpl; lia|].
  rewrite ex_zip_cons. cbn [length]. rewrite app_length. cbn [length]. rewrite app_length. lia.
Qed.
Lemma ex_unzip_go_zip ms : forall fuel, (length ms <= fuel)%nat -> ex_unzip_go fuel (ex_zip ms) = Some ms.
Proof.
  induction ms as [|[a b] ms IH]; intros fuel H.
  - destruct fuel; reflexivity.
  - destruct fuel as [|f]; [simpl in H; lia|].
    rewrite ex_zip_cons. cbn [ex_unzip_go]. rewrite Nat2N.id.
    destruct (firstn_skipn_app_exact a (N.of_nat (length b) :: b ++ ex_zip ms)) as [F1 S1].
    rewrite S1, F1, Nat2N.id.
    destruct (firstn_skipn_app_exact b (ex_zip ms)) as [F2 S2]. rewrite S2, F2.
    rewrite IH by (simpl in H; lia). reflexivity.
Qed.
Lemma ex_unzip_zip ms : ex_unzip (ex_zip ms) = Some ms.
Proof. apply ex_unzip_go_zip, ex_zip_length. Qed.
