(* Lemmas about Model/GitTx.v (C16). *)
From Coq Require Import ZArith NArith List Bool Arith Lia.
Import ListNotations.
From V Require Import Model.Val Model.GitTx.
Open Scope bool_scope.

(* ------------------------------------------------------------------ strings, trees *)
Lemma g_str_eqb_refl s : str_eqb s s = true.
Proof. induction s; simpl; auto. rewrite N.eqb_refl; auto. Qed.
Lemma g_str_eqb_eq a b : str_eqb a b = true <-> a = b.
Proof.
  split; [| intros ->; apply g_str_eqb_refl].
  revert b; induction a as [|x a IH]; destruct b as [|y b]; simpl; try discriminate; auto.
  intros H; apply andb_true_iff in H as [H1 H2]. apply N.eqb_eq in H1; subst. f_equal; auto.
Qed.
Lemma g_str_eqb_neq a b : str_eqb a b = false <-> a <> b.
Proof.
  split.
  - intros H E; subst. rewrite g_str_eqb_refl in H; discriminate.
  - intros H. destruct (str_eqb a b) eqn:E; auto. apply g_str_eqb_eq in E; contradiction.
Qed.

(* two path maps denote the same git tree *)
Definition teq (a b : tree) : Prop := forall p, lookup p a = lookup p b.
Lemma teq_refl a : teq a a. Proof. intro; reflexivity. Qed.
Lemma teq_sym a b : teq a b -> teq b a. Proof. intros H p; symmetry; apply H. Qed.
Lemma teq_trans a b c : teq a b -> teq b c -> teq a c.
Proof. intros H1 H2 p; rewrite H1; apply H2. Qed.

Lemma lookup_app p a b :
  lookup p (a ++ b) = match lookup p a with Some x => Some x | None => lookup p b end.
Proof. induction a as [|[q x] a IH]; simpl; auto. destruct (str_eqb p q); auto. Qed.

Lemma lookup_restrict k p t : lookup p (restrict k t) = if k p then lookup p t else None.
Proof.
  induction t as [|[q b] r IH]; simpl.
  - destruct (k p); reflexivity.
  - unfold restrict in *; simpl. destruct (k q) eqn:K; simpl; destruct (str_eqb p q) eqn:E.
    + apply g_str_eqb_eq in E; subst. rewrite K; reflexivity.
    + apply IH.
    + apply g_str_eqb_eq in E; subst. rewrite IH, K; reflexivity.
    + apply IH.
Qed.

Lemma lookup_in p t x : lookup p t = Some x -> In p (map fst t).
Proof.
  induction t as [|[q b] r IH]; simpl; try discriminate.
  destruct (str_eqb p q) eqn:E; intros H.
  - left. apply g_str_eqb_eq in E; auto.
  - right; auto.
Qed.

Lemma opt_str_eqb_eq a b : opt_str_eqb a b = true <-> a = b.
Proof.
  destruct a, b; simpl; split; intros H; try discriminate; auto.
  - apply g_str_eqb_eq in H; subst; auto.
  - inversion H; apply g_str_eqb_refl.
Qed.

Lemma tree_eqb_true a b : tree_eqb a b = true <-> teq a b.
Proof.
  unfold tree_eqb; rewrite forallb_forall; split.
  - intros H p. destruct (lookup p a) eqn:A.
    + apply opt_str_eqb_eq. rewrite <- A. apply H, in_or_app; left. eapply lookup_in; eauto.
    + destruct (lookup p b) eqn:B; auto.
      rewrite <- A, <- B. apply opt_str_eqb_eq, H, in_or_app; right. eapply lookup_in; eauto.
  - intros H p _. apply opt_str_eqb_eq, H.
Qed.

Lemma forallb_false_ex {A} (f : A -> bool) l : forallb f l = false -> exists x, In x l /\ f x = false.
Proof.
  induction l as [|x l IH]; simpl; try discriminate.
  destruct (f x) eqn:E; simpl; intros H.
  - destruct (IH H) as [y [? ?]]; eauto.
  - exists x; auto.
Qed.
Lemma tree_eqb_false a b : tree_eqb a b = false -> exists p, lookup p a <> lookup p b.
Proof.
  intros H; apply forallb_false_ex in H as [p [_ H]]. exists p; intros E.
  apply opt_str_eqb_eq in E. congruence.
Qed.

Lemma in_dom_false p t : in_dom p t = false -> lookup p t = None.
Proof. unfold in_dom; destruct (lookup p t); auto; discriminate. Qed.

(* ------------------------------------------------------------------ refs *)
Lemma lookup_set_ref r c l q :
  lookup_ref q (set_ref r c l) = if str_eqb q r then Some c else lookup_ref q l.
Proof.
  induction l as [|[x d] l IH]; simpl.
  - destruct (str_eqb q r); reflexivity.
  - destruct (str_eqb r x) eqn:E; simpl.
    + apply g_str_eqb_eq in E; subst. destruct (str_eqb q x); reflexivity.
    + destruct (str_eqb q x) eqn:E2; auto.
      apply g_str_eqb_eq in E2; subst.
      destruct (str_eqb x r) eqn:E3; auto. apply g_str_eqb_eq in E3; subst.
      rewrite g_str_eqb_refl in E; discriminate.
Qed.

Lemma tree_of_app old cs cm : old < length cs -> tree_of old (cs ++ [cm]) = tree_of old cs.
Proof. intros H; unfold tree_of. rewrite nth_error_app1; auto. Qed.
Lemma tree_of_new cs cm : tree_of (length cs) (cs ++ [cm]) = ctree cm.
Proof. unfold tree_of. rewrite nth_error_app2, Nat.sub_diag; auto. Qed.

(* ------------------------------------------------------------------ frames *)
(* the part of the state that only the commit phase may touch *)
Definition frame (s s' : st) : Prop :=
  refs s' = refs s /\ commits s' = commits s /\ head s' = head s /\ slot s' = slot s /\
  rev s' = rev s /\ env_author s' = env_author s.
Lemma frame_refl s : frame s s. Proof. repeat split. Qed.
Lemma frame_trans a b c : frame a b -> frame b c -> frame a c.
Proof. unfold frame; intuition congruence. Qed.
Lemma frame_git_add p s : frame s (git_add p s).
Proof. unfold git_add; destruct (lookup p (wt s)); repeat split. Qed.
Lemma frame_set_wt w s : frame s (set_wt w s). Proof. repeat split. Qed.

Lemma git_add_written p b w s :
  git_add p (set_wt (upd p b w) s) = set_index (upd p b (index s)) (set_wt (upd p b w) s).
Proof. unfold git_add; simpl. rewrite g_str_eqb_refl; reflexivity. Qed.

Ltac tk H := match type of H with context [tick ?f] => let x := fresh "x" in let f1 := fresh "f" in
               destruct (tick f) as [x f1]; destruct x end.

Lemma body_frame ops : forall s f e s' f', run_body ops s f = (e, s', f') -> frame s s'.
Proof.
  induction ops as [|op r IH]; intros s f e s' f' H; simpl in H.
  - inversion H; apply frame_refl.
  - destruct op as [p b closed| |p|].
    + tk H; [inversion H; apply frame_refl|].
      tk H.
      { destruct closed; inversion H; subst; [|apply frame_set_wt].
        eapply frame_trans; [|apply frame_git_add]. apply frame_set_wt. }
      destruct closed.
      * tk H.
        { inversion H; subst. unfold frame; simpl; repeat split. }
        apply IH in H. eapply frame_trans; [|exact H].
        eapply frame_trans; [|apply frame_git_add]. unfold frame; simpl; repeat split.
      * apply IH in H. eapply frame_trans; [|exact H]. unfold frame; simpl; repeat split.
    + inversion H; apply frame_refl.
    + tk H; inversion H; apply frame_refl.
    + tk H; inversion H; apply frame_refl.
Qed.

(* a body that runs to its end leaves exactly the closed writes in the index *)
Lemma body_index ops : forall s f s' f', run_body ops s f = (None, s', f') ->
  forall q, lookup q (index s') = match last_write q ops with Some b => Some b | None => lookup q (index s) end.
Proof.
  induction ops as [|op r IH]; intros s f s' f' H q; simpl in H.
  - inversion H; reflexivity.
  - destruct op as [p b closed| |p|]; try discriminate.
    + tk H; [discriminate|]. tk H; [discriminate|].
      destruct closed.
      * tk H; [discriminate|].
        rewrite git_add_written in H. apply IH with (q := q) in H. rewrite H; simpl.
        destruct (last_write q r); auto. destruct (str_eqb q p); auto.
      * apply IH with (q := q) in H. rewrite H; simpl. reflexivity.
    + tk H; discriminate.
    + tk H; discriminate.
Qed.

Lemma body_wt ops : forall s f s' f', run_body ops s f = (None, s', f') -> all_closed ops = true ->
  teq (wt s) (index s) -> teq (wt s') (index s').
Proof.
  induction ops as [|op r IH]; intros s f s' f' H C T; simpl in H.
  - inversion H; subst; auto.
  - destruct op as [p b closed| |p|]; try discriminate.
    + tk H; [discriminate|]. tk H; [discriminate|].
      simpl in C. destruct closed; [|discriminate].
      tk H; [discriminate|].
      rewrite git_add_written in H. apply IH in H; auto.
      intros q; simpl. destruct (str_eqb q p); auto; apply T.
    + tk H; discriminate.
    + tk H; discriminate.
Qed.

(* ------------------------------------------------------------------ rollback *)
Definition restored (old : nat) (cs : list commit) (s' : st) : Prop :=
  head s' = old /\ index s' = tree_of old cs /\ teq (wt s') (tree_of old cs).

Lemma rollback_frame old s f ok s' f' : rollback old s f = (ok, s', f') ->
  refs s' = refs s /\ commits s' = commits s /\ slot s' = slot s /\ rev s' = rev s /\ env_author s' = env_author s.
Proof.
  unfold rollback; intros H. tk H; [inversion H; repeat split|]. tk H; inversion H; repeat split.
Qed.
Lemma rollback_ok old s f s' f' : rollback old s f = (true, s', f') -> restored old (commits s) s'.
Proof.
  unfold rollback; intros H. tk H; [discriminate|]. tk H; [discriminate|].
  inversion H; subst; clear H. repeat split. simpl.
  intros p. rewrite lookup_restrict, lookup_app. unfold in_dom.
  destruct (lookup p (tree_of old (commits s))); reflexivity.
Qed.
Lemma rollback_nofault old s : exists s', rollback old s None = (true, s', None).
Proof. unfold rollback; simpl. eauto. Qed.

(* ------------------------------------------------------------------ commit phase *)
Lemma cp_fail_spec old e s f out s' f' : cp_fail old e s f = (out, s', f') ->
  slot s' = false /\ refs s' = refs s /\ commits s' = commits s /\ rev s' = rev s /\ env_author s' = env_author s /\
  ((out = Aborted e /\ restored old (commits s) s') \/ exists e', out = RollbackFailed e').
Proof.
  unfold cp_fail; intros H.
  destruct (rollback old s f) as [[ok sr] fr] eqn:R.
  pose proof (rollback_frame _ _ _ _ _ _ R) as [F1 [F2 [F3 [F4 F5]]]].
  inversion H; subst; clear H; simpl. repeat (split; auto).
  destruct ok; [left|right; eauto]. split; auto.
  apply rollback_ok in R. destruct R as [R1 [R2 R3]]. repeat split; auto.
Qed.

(* what the commit phase may have done to the object store *)
Definition store_grows (o : opts) (old : nat) (t : tree) (s s' : st) : Prop :=
  commits s' = commits s \/
  (commits s' = commits s ++ [new_commit o old t s] /\
   (ignore_empty o = true -> tree_eqb t (tree_of old (commits s)) = false)).

Definition cp_post (o : opts) (tref : str) (old : nat) (t : tree) (s : st) (out : outcome) (s' : st) : Prop :=
  let cm := new_commit o old t s in
  match out with
  | Committed c => c = length (commits s) /\ commits s' = commits s ++ [cm] /\
                   refs s' = set_ref tref c (refs s) /\ head s' = c /\ index s' = index s /\ wt s' = wt s /\
                   (ignore_empty o = true -> tree_eqb t (tree_of old (commits s)) = false)
  | DryRun c => c = length (commits s) /\ commits s' = commits s ++ [cm] /\ refs s' = refs s /\
                restored old (commits s) s' /\
                (ignore_empty o = true -> tree_eqb t (tree_of old (commits s)) = false)
  | NoChange => ignore_empty o = true /\ tree_eqb t (tree_of old (commits s)) = true /\ s' = set_slot false s
  | Aborted e => refs s' = refs s /\ store_grows o old t s s' /\ restored old (commits s) s'
  | RollbackFailed _ => refs s' = refs s /\ store_grows o old t s s'
  | Refused _ => False
  end.

Lemma cp_fail_post o tref old t e s0 s f out s' f' :
  old < length (commits s0) ->
  refs s = refs s0 -> rev s = rev s0 -> env_author s = env_author s0 ->
  (commits s = commits s0 \/
   (commits s = commits s0 ++ [new_commit o old t s0] /\
    (ignore_empty o = true -> tree_eqb t (tree_of old (commits s0)) = false))) ->
  cp_fail old e s f = (out, s', f') ->
  slot s' = false /\ rev s' = rev s0 /\ env_author s' = env_author s0 /\ cp_post o tref old t s0 out s'.
Proof.
  intros V R1 R2 R3 G H. apply cp_fail_spec in H as [S [F1 [F2 [F3 [F4 D]]]]].
  repeat split; try congruence.
  assert (SG : store_grows o old t s0 s').
  { unfold store_grows. rewrite F2. destruct G as [G|[G G']]; [left|right]; auto. }
  destruct D as [[-> [A [B C]]]|[e' ->]]; simpl.
  - repeat split; try congruence; auto.
    + rewrite B. destruct G as [->|[-> _]]; auto. apply tree_of_app; auto.
    + destruct G as [G|[G _]]; rewrite G in C; auto. rewrite tree_of_app in C; auto.
  - split; congruence || auto.
Qed.

Lemma cp_go_spec o tref old t s f out s' f' :
  old < length (commits s) ->
  (ignore_empty o = true -> tree_eqb t (tree_of old (commits s)) = false) ->
  cp_go o tref old t s f = (out, s', f') ->
  slot s' = false /\ rev s' = rev s /\ env_author s' = env_author s /\ cp_post o tref old t s out s'.
Proof.
  intros V NE H. unfold cp_go in H.
  tk H.
  { eapply cp_fail_post in H; eauto. }
  destruct (dry_run o).
  - destruct (rollback old (add_commit (new_commit o old t s) s) f0) as [[ok sr] fr] eqn:R.
    pose proof (rollback_frame _ _ _ _ _ _ R) as [F1 [F2 [F3 [F4 F5]]]]. simpl in *.
    destruct ok.
    + inversion H; subst; clear H. apply rollback_ok in R as [A [B C]]. simpl in *.
      rewrite tree_of_app in B, C by auto.
      repeat split; auto.
    + eapply cp_fail_post in H; eauto; try (right; split; auto).
  - tk H.
    { eapply cp_fail_post in H; eauto; simpl; try (right; split; auto). }
    tk H.
    { eapply cp_fail_post in H; eauto; simpl; try (right; split; auto). }
    inversion H; subst; clear H; simpl. repeat split; auto.
Qed.

Lemma commit_phase_spec o tref old s f out s' f' :
  old < length (commits s) ->
  commit_phase o tref old s f = (out, s', f') ->
  slot s' = false /\ rev s' = rev s /\ env_author s' = env_author s /\ cp_post o tref old (index s) s out s'.
Proof.
  intros V H. unfold commit_phase in H.
  tk H.
  { eapply cp_fail_post in H; eauto. }
  destruct (ignore_empty o) eqn:IE.
  - tk H.
    { eapply cp_fail_post in H; eauto. }
    destruct (nth_error (commits s) old) as [cm|] eqn:N.
    + destruct (tree_eqb (index s) (ctree cm)) eqn:TE.
      * inversion H; subst; clear H; simpl. repeat split; auto.
        unfold tree_of; rewrite N; auto.
      * eapply cp_go_spec in H; eauto. intros _. unfold tree_of; rewrite N; auto.
    + eapply cp_fail_post in H; eauto.
  - eapply cp_go_spec in H; eauto; intros; congruence.
Qed.

(* ------------------------------------------------------------------ the invariant *)
Definition clean (s : st) : Prop :=
  teq (wt s) (index s) /\ teq (index s) (tree_of (head s) (commits s)) /\ slot s = false.
(* the handler's work tree sits on the commit its revision names *)
Definition in_sync (s : st) : Prop :=
  lookup_ref (rev s) (refs s) = Some (head s) /\ head s < length (commits s).
Definition inv (s : st) : Prop := clean s /\ in_sync s.

Definition written_tree (body : list bop) (base : tree) (t : tree) : Prop :=
  forall p, lookup p t = match last_write p body with Some b => Some b | None => lookup p base end.

Definition tx_post (o : opts) (body : list bop) (s : st) (out : outcome) (s' : st) : Prop :=
  let base := tree_of (head s) (commits s) in
  match out with
  | Committed c =>
      c = length (commits s) /\
      (exists cm, commits s' = commits s ++ [cm] /\ cparent cm = Some (head s) /\
                  written_tree body base (ctree cm) /\ cmsg cm = msg o /\ cauthor cm = commit_author o s /\
                  (ignore_empty o = true -> ~ teq (ctree cm) base)) /\
      refs s' = set_ref (target_ref o s) c (refs s) /\ head s' = c /\ slot s' = false /\
      rev s' = rev s /\
      (all_closed body = true -> clean s')
  | DryRun c =>
      c = length (commits s) /\
      (exists cm, commits s' = commits s ++ [cm] /\ cparent cm = Some (head s) /\
                  written_tree body base (ctree cm) /\ cmsg cm = msg o /\ cauthor cm = commit_author o s /\
                  (ignore_empty o = true -> ~ teq (ctree cm) base)) /\
      refs s' = refs s /\ head s' = head s /\ teq (wt s') (wt s) /\ teq (index s') (index s) /\ inv s'
  | NoChange =>
      commits s' = commits s /\ refs s' = refs s /\ head s' = head s /\ slot s' = false /\
      ignore_empty o = true /\ (exists t, written_tree body base t /\ teq t base) /\
      (all_closed body = true -> inv s')
  | Aborted e =>
      refs s' = refs s /\ head s' = head s /\ teq (wt s') (wt s) /\ teq (index s') (index s) /\ inv s' /\
      (commits s' = commits s \/
       exists cm, commits s' = commits s ++ [cm] /\ written_tree body base (ctree cm) /\
                  (ignore_empty o = true -> ~ teq (ctree cm) base))
  | RollbackFailed e =>
      refs s' = refs s /\ slot s' = false /\
      (commits s' = commits s \/
       exists cm, commits s' = commits s ++ [cm] /\ written_tree body base (ctree cm) /\
                  (ignore_empty o = true -> ~ teq (ctree cm) base))
  | Refused e => s' = s
  end.

Lemma restored_inv s s' :
  inv s -> restored (head s) (commits s) s' -> slot s' = false -> refs s' = refs s -> rev s' = rev s ->
  (commits s' = commits s \/ exists cm, commits s' = commits s ++ [cm]) ->
  head s' = head s /\ teq (wt s') (wt s) /\ teq (index s') (index s) /\ inv s'.
Proof.
  intros [[C1 [C2 C3]] [S1 S2]] [R1 [R2 R3]] SL RF RV G.
  assert (T : tree_of (head s) (commits s') = tree_of (head s) (commits s)).
  { destruct G as [->|[cm ->]]; auto. apply tree_of_app; auto. }
  assert (L : head s < length (commits s')).
  { destruct G as [->|[cm ->]]; auto. rewrite app_length; simpl; lia. }
  repeat split; auto.
  - eapply teq_trans; [exact R3|]. apply teq_sym. eapply teq_trans; eauto.
  - rewrite R2. apply teq_sym; auto.
  - rewrite R2. exact R3.
  - rewrite R1, R2, T. apply teq_refl.
  - rewrite RV, RF, R1; auto.
  - rewrite R1; auto.
Qed.

Lemma run_tx_spec o body s f out s' f' :
  inv s -> run_tx o body s f = (out, s', f') -> tx_post o body s out s'.
Proof.
  intros I H. pose proof I as [[C1 [C2 C3]] [S1 S2]].
  unfold run_tx in H.
  destruct (objectlike (target_name o s)); [inversion H; subst; reflexivity|].
  tk H; [inversion H; subst; reflexivity|].
  rewrite S1, C3 in H.
  destruct (run_body body (set_slot true s) f0) as [[e sb] fb] eqn:B.
  pose proof (body_frame _ _ _ _ _ _ B) as [F1 [F2 [F3 [F4 [F5 F6]]]]]. simpl in *.
  destruct e as [err|].
  - (* an exception left the with-block *)
    destruct (rollback (head s) (set_slot false sb) fb) as [[ok sr] fr] eqn:R.
    pose proof (rollback_frame _ _ _ _ _ _ R) as [G1 [G2 [G3 [G4 G5]]]]. simpl in *.
    destruct ok; inversion H; subst; clear H; simpl.
    + apply rollback_ok in R. simpl in R. rewrite F2 in R.
      destruct (restored_inv s s' I R) as [A [B' [C D]]]; try congruence.
      { left; congruence. }
      repeat split; auto; try congruence. left; congruence.
    + repeat split; try congruence. left; congruence.
  - (* commit phase *)
    assert (V : head s < length (commits sb)) by (rewrite F2; auto).
    apply commit_phase_spec in H as [SL [RV [EA P]]]; auto.
    assert (WT : written_tree body (tree_of (head s) (commits s)) (index sb)).
    { intros p. rewrite (body_index _ _ _ _ _ B p). simpl. destruct (last_write p body); auto; apply C2. }
    assert (NE : (ignore_empty o = true -> tree_eqb (index sb) (tree_of (head s) (commits sb)) = false) ->
                 ignore_empty o = true -> ~ teq (index sb) (tree_of (head s) (commits s))).
    { intros X Y T. rewrite F2 in X. apply tree_eqb_true in T. rewrite X in T; auto; discriminate. }
    assert (NC : new_commit o (head s) (index sb) sb =
                 {| cparent := Some (head s); ctree := index sb; cmsg := msg o; cauthor := commit_author o s |}).
    { unfold new_commit, commit_author. rewrite F6; reflexivity. }
    destruct out as [c| |c|e|e|e]; simpl in P |- *.
    + destruct P as [P1 [P2 [P3 [P4 [P5 [P6 P7]]]]]].
      rewrite F2 in P1, P2. rewrite F1 in P3. rewrite NC in P2.
      split; auto. split.
      { eexists; split; [exact P2|]. simpl. repeat split; auto. }
      repeat split; auto; try congruence.
      * intros AC. rewrite P6, P5. eapply body_wt; eauto.
      * rewrite P5, P4, P2, P1, tree_of_new. simpl. apply teq_refl.
    + destruct P as [P1 [P2 P3]]. subst s'.
      rewrite F2 in P2. apply tree_eqb_true in P2. simpl.
      split; [congruence|]. split; [congruence|]. split; [congruence|]. split; [reflexivity|].
      split; [auto|]. split; [exists (index sb); split; auto|].
      intros AC. assert (W : teq (wt sb) (index sb)) by (eapply body_wt; eauto).
      unfold inv, clean, in_sync; simpl. rewrite F5, F1, F3, F2. repeat split; auto.
    + destruct P as [P1 [P2 [P3 [P4 P5]]]].
      rewrite F2 in P1, P2, P4. rewrite F1 in P3. rewrite NC in P2.
      destruct (restored_inv s s' I P4) as [A [B' [C D]]]; try congruence.
      { right; eauto. }
      split; auto. split.
      { eexists; split; [exact P2|]. simpl. repeat split; auto. }
      split; [auto|]. split; [auto|]. split; [auto|]. split; auto.
    + destruct P as [P1 [P2 P3]]. rewrite F2 in P3. rewrite F1 in P1.
      assert (G : commits s' = commits s \/ exists cm, commits s' = commits s ++ [cm]).
      { destruct P2 as [->|[-> _]]; [left|right]; try congruence. rewrite F2; eauto. }
      destruct (restored_inv s s' I P3) as [A [B' [C D]]]; try congruence.
      split; [auto|]. split; [auto|]. split; [auto|]. split; [auto|]. split; [auto|].
      destruct P2 as [P2|[P2 P2']]; [left; congruence|right].
      rewrite F2, NC in P2. eexists; split; [exact P2|]. simpl; split; auto.
    + destruct P as [P1 P2]. rewrite F1 in P1.
      repeat split; auto.
      destruct P2 as [P2|[P2 P2']]; [left; congruence|right].
      rewrite F2, NC in P2. eexists; split; [exact P2|]. simpl; split; auto.
    + contradiction.
Qed.

(* ------------------------------------------------------------------ consequences *)
Lemma run_tx_rev o body s f out s' f' : inv s -> run_tx o body s f = (out, s', f') -> rev s' = rev s.
Proof.
  intros I H. pose proof I as [[C1 [C2 C3]] [S1 S2]].
  unfold run_tx in H.
  destruct (objectlike (target_name o s)); [inversion H; subst; reflexivity|].
  tk H; [inversion H; subst; reflexivity|].
  rewrite S1, C3 in H.
  destruct (run_body body (set_slot true s) f0) as [[e sb] fb] eqn:B.
  pose proof (body_frame _ _ _ _ _ _ B) as [F1 [F2 [F3 [F4 [F5 F6]]]]]. simpl in *.
  destruct e as [err|].
  - destruct (rollback (head s) (set_slot false sb) fb) as [[ok sr] fr] eqn:R.
    pose proof (rollback_frame _ _ _ _ _ _ R) as [G1 [G2 [G3 [G4 G5]]]]. simpl in *.
    destruct ok; inversion H; subst; congruence.
  - apply commit_phase_spec in H as [SL [RV _]]; [congruence|rewrite F2; auto].
Qed.

Definition unchanged (body : list bop) (base : tree) : Prop :=
  forall p b, last_write p body = Some b -> lookup p base = Some b.
Lemma unchanged_teq body base t : written_tree body base t -> unchanged body base -> teq t base.
Proof.
  intros W U p. rewrite W. destruct (last_write p body) eqn:L; auto. symmetry; apply U; auto.
Qed.

Lemma no_change_no_commit_l o body s f out s' f' :
  inv s -> ignore_empty o = true -> unchanged body (tree_of (head s) (commits s)) ->
  run_tx o body s f = (out, s', f') -> commits s' = commits s /\ refs s' = refs s.
Proof.
  intros I IE U H. apply run_tx_spec in H; auto.
  destruct out as [c| |c|e|e|e]; simpl in H.
  - destruct H as [_ [[cm [_ [_ [W [_ [_ N]]]]]] _]]. exfalso. apply N; auto. eapply unchanged_teq; eauto.
  - destruct H as [A [B _]]; auto.
  - destruct H as [_ [[cm [_ [_ [W [_ [_ N]]]]]] _]]. exfalso. apply N; auto. eapply unchanged_teq; eauto.
  - destruct H as [A [_ [_ [_ [_ [B|[cm [_ [W N]]]]]]]]]; auto.
    exfalso. apply N; auto. eapply unchanged_teq; eauto.
  - destruct H as [A [_ [B|[cm [_ [W N]]]]]]; auto.
    exfalso. apply N; auto. eapply unchanged_teq; eauto.
  - subst; auto.
Qed.

Lemma idle_after o body s f out s' f' : inv s -> run_tx o body s f = (out, s', f') -> slot s' = false.
Proof.
  intros I H. pose proof I as [[_ [_ C3]] _]. apply run_tx_spec in H; auto.
  destruct out as [c| |c|e|e|e]; simpl in H.
  - tauto.
  - tauto.
  - destruct H as [_ [_ [_ [_ [_ [_ [[_ [_ X]] _]]]]]]]; auto.
  - destruct H as [_ [_ [_ [_ [[[_ [_ X]] _] _]]]]]; auto.
  - tauto.
  - subst; auto.
Qed.

Lemma inv_preserved_l o body s f out s' f' :
  inv s -> all_closed body = true -> run_tx o body s f = (out, s', f') ->
  (forall e, out <> RollbackFailed e) ->
  (forall c, out = Committed c -> target_ref o s = rev s) -> inv s'.
Proof.
  intros I AC H NR OWN. pose proof I as [[C1 [C2 C3]] [S1 S2]].
  apply run_tx_spec in H; auto.
  destruct out as [c| |c|e|e|e]; simpl in H.
  - destruct H as [P1 [[cm [P2 _]] [P3 [P4 [P5 [P6 P7]]]]]].
    split; auto. split.
    + rewrite P6, P3, lookup_set_ref, (OWN c eq_refl), g_str_eqb_refl. congruence.
    + rewrite P4, P2, P1, app_length; simpl; lia.
  - tauto.
  - tauto.
  - tauto.
  - exfalso; eapply NR; eauto.
  - subst; auto.
Qed.

(* transactions that stay on the handler's own branch and close their files *)
Definition own_tx (s : st) (h : hop) : Prop :=
  match h with
  | HTx o body _ => all_closed body = true /\ target_ref o s = rev s
  | HWriteOutside => True
  end.
Lemma own_tx_rev s s' h : rev s' = rev s -> own_tx s h -> own_tx s' h.
Proof.
  destruct h; simpl; auto. unfold target_ref, target_name. intros ->; auto.
Qed.

Lemma history_inv_l hs : forall s, inv s -> Forall (own_tx s) hs ->
  (forall e s', ~ In (RollbackFailed e, s') (run_history hs s)) ->
  Forall (fun r => inv (snd r)) (run_history hs s).
Proof.
  induction hs as [|h r IH]; intros s I O NR; simpl; [constructor|].
  inversion O as [|? ? O1 O2]; subst.
  destruct (run_hop h s) as [out s1] eqn:E.
  assert (I1 : inv s1 /\ rev s1 = rev s).
  { destruct h as [o body f|]; simpl in E.
    - destruct (run_tx o body s f) as [[out' s1'] f1] eqn:T. inversion E; subst.
      destruct O1 as [AC OWN]. split; [|eapply run_tx_rev; eauto].
      eapply inv_preserved_l; eauto.
      intros e ->. apply (NR e s1). simpl. rewrite T. left; reflexivity.
    - destruct (open_w s); inversion E; subst; auto. }
  destruct I1 as [I1 RV].
  constructor; auto.
  apply IH; auto.
  - eapply Forall_impl; [|exact O2]. intros; eapply own_tx_rev; eauto.
  - intros e s' X. apply (NR e s'). simpl. rewrite E. right; auto.
Qed.

(* without an injected fault the rollback commands run, and a handler in a good state is never refused
   for another reason than its target name *)
Lemma body_nofault ops : forall s e s' f', run_body ops s None = (e, s', f') -> f' = None.
Proof.
  induction ops as [|op r IH]; intros s e s' f' H; simpl in H.
  - inversion H; auto.
  - destruct op as [p b closed| |p|]; simpl in H.
    + destruct closed; eauto.
    + inversion H; auto.
    + inversion H; auto.
    + inversion H; auto.
Qed.

Lemma commit_phase_nofault o tref old s out s' f' :
  commit_phase o tref old s None = (out, s', f') -> forall e, out <> RollbackFailed e.
Proof.
  unfold commit_phase, cp_go, cp_fail, rollback; simpl. intros H e.
  destruct (ignore_empty o).
  - destruct (nth_error (commits s) old).
    + destruct (tree_eqb (index s) (ctree c)).
      * inversion H; discriminate.
      * destruct (dry_run o); inversion H; discriminate.
    + inversion H; discriminate.
  - destruct (dry_run o); inversion H; discriminate.
Qed.

Lemma nofault_l o body s out s' f' :
  inv s -> run_tx o body s None = (out, s', f') ->
  (forall e, out <> RollbackFailed e) /\
  (objectlike (target_name o s) = false -> forall e, out <> Refused e).
Proof.
  intros I H. pose proof I as [[C1 [C2 C3]] [S1 S2]].
  unfold run_tx in H.
  destruct (objectlike (target_name o s)) eqn:OL.
  { inversion H; subst. split; [discriminate|intros; discriminate]. }
  simpl in H. rewrite S1, C3 in H.
  destruct (run_body body (set_slot true s) None) as [[e sb] fb] eqn:B.
  pose proof (body_nofault _ _ _ _ _ B); subst fb.
  pose proof (body_frame _ _ _ _ _ _ B) as [F1 [F2 [F3 [F4 [F5 F6]]]]]. simpl in *.
  destruct e as [err|].
  - unfold rollback in H; simpl in H. inversion H; subst. split; intros; discriminate.
  - split.
    + eapply commit_phase_nofault; eauto.
    + intros _ e ->. apply commit_phase_spec in H as [_ [_ [_ P]]]; [exact P|rewrite F2; auto].
Qed.

(* ------------------------------------------------------------------ statements used by Props/C16.v *)
Lemma commit_exactly_one_l o body s f c s' f' :
  inv s -> run_tx o body s f = (Committed c, s', f') ->
  c = length (commits s) /\
  (exists cm, commits s' = commits s ++ [cm] /\ cparent cm = Some (head s) /\
              written_tree body (tree_of (head s) (commits s)) (ctree cm) /\
              cmsg cm = msg o /\ cauthor cm = commit_author o s) /\
  (forall r, lookup_ref r (refs s') = if str_eqb r (target_ref o s) then Some c else lookup_ref r (refs s)) /\
  head s' = c /\ slot s' = false /\ (all_closed body = true -> clean s').
Proof.
  intros I H. apply run_tx_spec in H; auto. simpl in H.
  destruct H as [P1 [[cm [P2 [P2a [P2b [P2c [P2d _]]]]]] [P3 [P4 [P5 [P6 P7]]]]]].
  split; auto. split; [exists cm; auto|]. split; [|auto].
  intros r. rewrite P3. apply lookup_set_ref.
Qed.

Lemma commit_not_empty_l o body s f c s' f' :
  inv s -> ignore_empty o = true -> run_tx o body s f = (Committed c, s', f') ->
  exists p, last_write p body <> None /\
            last_write p body <> lookup p (tree_of (head s) (commits s)).
Proof.
  intros I IE H. pose proof I as [[C1 [C2 C3]] [S1 S2]].
  unfold run_tx in H.
  destruct (objectlike (target_name o s)); [discriminate|].
  tk H; [discriminate|].
  rewrite S1, C3 in H.
  destruct (run_body body (set_slot true s) f0) as [[e sb] fb] eqn:B.
  pose proof (body_frame _ _ _ _ _ _ B) as [F1 [F2 [F3 [F4 [F5 F6]]]]]. simpl in *.
  destruct e as [err|].
  { destruct (rollback (head s) (set_slot false sb) fb) as [[ok sr] fr]; destruct ok; discriminate. }
  apply commit_phase_spec in H as [_ [_ [_ P]]]; [|rewrite F2; auto].
  simpl in P. destruct P as [_ [_ [_ [_ [_ [_ P]]]]]]. specialize (P IE). rewrite F2 in P.
  apply tree_eqb_false in P as [p P]. exists p.
  rewrite (body_index _ _ _ _ _ B p) in P. simpl in P.
  destruct (last_write p body) eqn:L.
  - split; [discriminate|]. intros E. apply P. congruence.
  - exfalso. apply P. apply C2.
Qed.

Lemma abort_restores_l o body s f e s' f' :
  inv s -> run_tx o body s f = (Aborted e, s', f') ->
  refs s' = refs s /\ head s' = head s /\ teq (wt s') (wt s) /\ teq (index s') (index s) /\ inv s'.
Proof.
  intros I H. apply run_tx_spec in H; auto. simpl in H. tauto.
Qed.

Lemma dry_run_restores_l o body s f c s' f' :
  inv s -> run_tx o body s f = (DryRun c, s', f') ->
  refs s' = refs s /\ head s' = head s /\ teq (wt s') (wt s) /\ teq (index s') (index s) /\ inv s' /\
  exists cm, commits s' = commits s ++ [cm] /\ cparent cm = Some (head s) /\
             written_tree body (tree_of (head s) (commits s)) (ctree cm).
Proof.
  intros I H. apply run_tx_spec in H; auto. simpl in H.
  destruct H as [_ [[cm [A [B [C _]]]] [D [E [F [G K]]]]]].
  repeat (split; [assumption|]). eauto.
Qed.

Lemma refused_unchanged_l o body s f e s' f' :
  inv s -> run_tx o body s f = (Refused e, s', f') -> s' = s.
Proof. intros I H. apply run_tx_spec in H; auto. Qed.

Lemma refuses_objectlike_l o body s f :
  objectlike (target_name o s) = true -> run_tx o body s f = (Refused E_ValueError, s, f).
Proof. intros H; unfold run_tx; rewrite H; reflexivity. Qed.
