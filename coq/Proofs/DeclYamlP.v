(* Proofs about Model/DeclYaml.v: construct (represent v) = v for well-formed instruction-stream values *)
From Coq Require Import ZArith NArith List Bool.
Import ListNotations.
From V Require Import Model.Val Model.DeclYaml Gen.Decl_consts.

Scheme yv_mut := Induction for yv Sort Prop
  with yvs_mut := Induction for yvs Sort Prop
  with ykvs_mut := Induction for ykvs Sort Prop.
Combined Scheme yv_all_ind from yv_mut, yvs_mut, ykvs_mut.

Lemma seqb_refl s : str_eqb s s = true.
Proof. induction s as [|c s IH]; cbn; [reflexivity|]. now rewrite N.eqb_refl, IH. Qed.

(* the generated tables agree with each other: what the dumper writes for a marker type is what the
   loader maps back to that type, and both sides use the same key for the type hint *)
Lemma tags_agree_all : forall k, In k [M_PROMISE; M_UUID; M_NEW; M_FIND] -> assoc_marker (dump_tag k) LOAD_TAGS = Some k.
Proof. intros k [<-|[<-|[<-|[<-|[]]]]]; reflexivity. Qed.
Lemma keys_agree : NEWOBJ_LOAD_KEY = NEWOBJ_DUMP_KEY.
Proof. reflexivity. Qed.

Fixpoint kapp (a b : ykvs) : ykvs := match a with KNil => b | KCons k v r => KCons k v (kapp r b) end.

Section RT.
  Variable is_uuid : str -> bool.

  (* unfolding equations of the mutual fixpoints *)
  Lemma wf_new h kw : wf is_uuid (YNew h kw) = negb (is_empty h) && negb (has_kkey NEWOBJ_DUMP_KEY kw) && wf_kvs is_uuid kw.
  Proof. reflexivity. Qed.
  Lemma wf_list_eq l : wf is_uuid (YList l) = wf_list is_uuid l. Proof. reflexivity. Qed.
  Lemma wf_map_eq m : wf is_uuid (YMap m) = wf_kvs is_uuid m. Proof. reflexivity. Qed.
  Lemma wf_find_eq m : wf is_uuid (YFind m) = wf_kvs is_uuid m. Proof. reflexivity. Qed.
  Lemma wf_uuid_eq u : wf is_uuid (YUuid u) = is_uuid u. Proof. reflexivity. Qed.
  Lemma wf_list_cons v r : wf_list is_uuid (VCons v r) = wf is_uuid v && wf_list is_uuid r. Proof. reflexivity. Qed.
  Lemma wf_kvs_cons k v r : wf_kvs is_uuid (KCons k v r) = wf is_uuid v && wf_kvs is_uuid r. Proof. reflexivity. Qed.
  Lemma ckvs_cons k v r : construct_kvs is_uuid (MCons (NStd (SStr k)) v r) =
    match construct is_uuid v, construct_kvs is_uuid r with
    | ROk v', ROk r' => ROk (KCons k v' r') | RErr e, _ => RErr e | _, RErr e => RErr e end.
  Proof. reflexivity. Qed.
  Lemma clist_cons n r : construct_list is_uuid (NCons n r) =
    match construct is_uuid n, construct_list is_uuid r with
    | ROk v, ROk r' => ROk (VCons v r') | RErr e, _ => RErr e | _, RErr e => RErr e end.
  Proof. reflexivity. Qed.
  Lemma c_seq l : construct is_uuid (NSeq None l) = match construct_list is_uuid l with ROk l' => ROk (YList l') | RErr e => RErr e end.
  Proof. reflexivity. Qed.
  Lemma c_map m : construct is_uuid (NMap None m) = match construct_kvs is_uuid m with ROk m' => ROk (YMap m') | RErr e => RErr e end.
  Proof. reflexivity. Qed.
  Lemma c_tag t s : construct is_uuid (NTag t s) =
    match assoc_marker t LOAD_TAGS with
    | Some 0%N => ROk (YPromise s)
    | Some 1%N => if is_uuid s then ROk (YUuid s) else RErr E_ValueError
    | Some _ => RErr E_TypeError
    | None => RErr E_Other
    end.
  Proof. reflexivity. Qed.
  Lemma c_tmap t m : construct is_uuid (NMap (Some t) m) =
    match assoc_marker t LOAD_TAGS with
    | Some 2%N =>
        match construct_kvs is_uuid m with
        | ROk m' =>
            match pop_key NEWOBJ_LOAD_KEY m' with
            | Some (YStd (SStr h), rest) => ROk (YNew h rest)
            | Some (_, _) => RErr E_Malformed
            | None => if NEWOBJ_LOAD_REQUIRED then RErr E_ValueError else ROk (YNew [] m')
            end
        | RErr e => RErr e
        end
    | Some 3%N => match construct_kvs is_uuid m with ROk m' => ROk (YFind m') | RErr e => RErr e end
    | Some _ => RErr E_TypeError
    | None => RErr E_Other
    end.
  Proof. reflexivity. Qed.

  Lemma construct_kvs_app A B a b : construct_kvs is_uuid A = ROk a -> construct_kvs is_uuid B = ROk b ->
    construct_kvs is_uuid (mapp A B) = ROk (kapp a b).
  Proof.
    revert a. induction A as [|k v r IH]; intros a HA HB; cbn [mapp].
    - injection HA as <-. exact HB.
    - destruct k as [[s|z|b0|]|t s|t l|t m]; try discriminate. rewrite ckvs_cons in *.
      destruct (construct is_uuid v) as [v'|e]; [|discriminate].
      destruct (construct_kvs is_uuid r) as [r'|e] eqn:E; [|discriminate].
      injection HA as <-. now rewrite (IH r' eq_refl HB).
  Qed.

  Lemma pop_key_end k h m : has_kkey k m = false ->
    pop_key k (kapp m (KCons k (YStd (SStr h)) KNil)) = Some (YStd (SStr h), m).
  Proof.
    induction m as [|k' v r IH]; cbn; intro H.
    - now rewrite seqb_refl.
    - apply orb_false_iff in H as [H1 H2]. rewrite H1, (IH H2). reflexivity.
  Qed.

  Lemma roundtrip_all :
    (forall v, wf is_uuid v = true -> construct is_uuid (represent v) = ROk v) /\
    (forall l, wf_list is_uuid l = true -> construct_list is_uuid (represent_list l) = ROk l) /\
    (forall m, wf_kvs is_uuid m = true -> construct_kvs is_uuid (represent_kvs m) = ROk m).
  Proof.
    apply yv_all_ind.
    - intros s _. reflexivity.
    - intros l IH W. rewrite wf_list_eq in W. cbn [represent]. now rewrite c_seq, (IH W).
    - intros m IH W. rewrite wf_map_eq in W. cbn [represent]. now rewrite c_map, (IH W).
    - intros id _. cbn [represent]. rewrite c_tag, (tags_agree_all M_PROMISE) by (cbn; tauto). reflexivity.
    - intros u W. rewrite wf_uuid_eq in W. cbn [represent]. rewrite c_tag, (tags_agree_all M_UUID) by (cbn; tauto).
      cbn [M_UUID]. now rewrite W.
    - intros hint kw IH W. rewrite wf_new in W. apply andb_true_iff in W as [W Wk]. apply andb_true_iff in W as [Wh Wt].
      apply negb_true_iff in Wh, Wt. cbn [represent]. rewrite Wh, andb_false_r.
      rewrite c_tmap, (tags_agree_all M_NEW) by (cbn; tauto). cbn [M_NEW].
      rewrite (construct_kvs_app (represent_kvs kw) (MCons (NStd (SStr NEWOBJ_DUMP_KEY)) (NStd (SStr hint)) MNil)
                 kw (KCons NEWOBJ_DUMP_KEY (YStd (SStr hint)) KNil) (IH Wk) eq_refl).
      rewrite keys_agree, (pop_key_end _ _ _ Wt). reflexivity.
    - intros a IH W. rewrite wf_find_eq in W. cbn [represent]. rewrite c_tmap, (tags_agree_all M_FIND) by (cbn; tauto).
      cbn [M_FIND]. now rewrite (IH W).
    - intros _. reflexivity.
    - intros v IHv r IHr W. rewrite wf_list_cons in W. apply andb_true_iff in W as [W1 W2].
      cbn [represent_list]. now rewrite clist_cons, (IHv W1), (IHr W2).
    - intros _. reflexivity.
    - intros k v IHv r IHr W. rewrite wf_kvs_cons in W. apply andb_true_iff in W as [W1 W2].
      cbn [represent_kvs]. now rewrite ckvs_cons, (IHv W1), (IHr W2).
  Qed.

  Lemma stream_roundtrip md ins : wf_kvs is_uuid md = true -> wf_list is_uuid ins = true ->
    load_stream is_uuid (dump_stream md ins) = ROk (YMap md, YList ins).
  Proof.
    intros Wm Wi. pose proof (proj1 roundtrip_all (YList ins) Wi) as RI.
    destruct md as [|k v r].
    - cbn [dump_stream load_stream]. rewrite RI. destruct ins; reflexivity.
    - pose proof (proj1 roundtrip_all (YMap (KCons k v r)) Wm) as RM.
      cbn [dump_stream load_stream]. rewrite RM, RI. destruct ins; reflexivity.
  Qed.

  (* the empty type hint: written without the key, refused by the loader *)
  Lemma empty_hint_fails : NEWOBJ_DUMP_ONLY_IF_TRUTHY = true -> NEWOBJ_LOAD_REQUIRED = true ->
    forall kw, wf_kvs is_uuid kw = true -> has_kkey NEWOBJ_LOAD_KEY kw = false ->
    construct is_uuid (represent (YNew [] kw)) = RErr E_ValueError.
  Proof.
    intros H1 H2 kw W Hk. cbn [represent is_empty]. rewrite H1. cbn [andb].
    rewrite c_tmap, (tags_agree_all M_NEW) by (cbn; tauto). cbn [M_NEW].
    rewrite (proj2 (proj2 roundtrip_all) kw W).
    assert (P : pop_key NEWOBJ_LOAD_KEY kw = None).
    { clear W. induction kw as [|k v r IH]; [reflexivity|]. cbn in *. apply orb_false_iff in Hk as [A B].
      now rewrite A, (IH B). }
    now rewrite P, H2.
  Qed.

  (* PyYAML's text layer as a stand-in: any emitter/parser pair that round-trips node documents *)
  Section Text.
    Variable text : Type.
    Variable emit : list node -> text.
    Variable parse : text -> res (list node).
    Hypothesis yaml_rt : forall docs, parse (emit docs) = ROk docs.
    Definition dump (md : ykvs) (ins : yvs) : text := emit (dump_stream md ins).
    Definition load (t : text) : res (yv * yv) :=
      match parse t with ROk docs => load_stream is_uuid docs | RErr e => RErr e end.
    Lemma dump_load md ins : wf_kvs is_uuid md = true -> wf_list is_uuid ins = true ->
      load (dump md ins) = ROk (YMap md, YList ins).
    Proof. intros Wm Wi. unfold load, dump. rewrite yaml_rt. now apply stream_roundtrip. Qed.
  End Text.
End RT.

Lemma empty_hint_witness : NEWOBJ_DUMP_ONLY_IF_TRUTHY = true -> NEWOBJ_LOAD_REQUIRED = true ->
  forall is_uuid, exists v, construct is_uuid (represent v) <> ROk v.
Proof.
  intros H1 H2 is_uuid. exists (YNew [] KNil).
  rewrite (empty_hint_fails is_uuid H1 H2 KNil eq_refl eq_refl). discriminate.
Qed.
