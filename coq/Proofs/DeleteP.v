From Coq Require Import ZArith List Bool Lia.
Import ListNotations.
From V Require Import Model.Val Model.Delete.
Open Scope Z_scope.

Lemma memz_In x l : memz x l = true <-> In x l.
Proof.
  unfold memz. rewrite existsb_exists. split.
  - intros [y [H1 H2]]. apply Z.eqb_eq in H2. now subst.
  - intro H. exists x. split; [exact H|apply Z.eqb_refl].
Qed.

Lemma below_root fuel ns roots h : In h roots -> below_fuel fuel ns roots h = true.
Proof. intro H. destruct fuel; cbn; apply memz_In in H; now rewrite H. Qed.

Section Delete.
  Variables (ns : list el) (ts : list Z).
  Let inT := fun n => below ns ts (e_h n).
  Let tids := ids_of (filter inT ns).
  Let links := map e_h (filter (fun n => negb (inT n) && match e_link n with Some u => memz u tids | None => false end) ns).
  Let gone := fun n => inT n || below ns links (e_h n).
  Let purge := fun r => if ra_exposed r then mkRef (ra_name r) true (filter (fun u => negb (memz u tids)) (ra_targets r)) else r.
  Let purged := fun n => mkEl (e_h n) (e_par n) (e_ids n) (map purge (e_refs n)) (e_link n).

  Lemma delete_unfold : delete_many ns ts = mkOut (map purged (filter (fun n => negb (gone n)) ns)) (map e_h (filter gone ns)).
  Proof. reflexivity. Qed.

  (* survivors are exactly the images of the nodes that are not gone *)
  Lemma in_result n' : In n' (o_nodes (delete_many ns ts)) <-> exists n, In n ns /\ gone n = false /\ n' = purged n.
  Proof.
    rewrite delete_unfold. cbn [o_nodes]. rewrite in_map_iff. split.
    - intros [n [E Hn]]. apply filter_In in Hn as [Hn Hg]. apply negb_true_iff in Hg. eauto.
    - intros [n [Hn [Hg E]]]. exists n. split; [auto|]. apply filter_In. split; [exact Hn|]. now rewrite Hg.
  Qed.

  (* 1. no exposed reference into the deleted subtree survives *)
  Theorem no_exposed_reference_left n' : In n' (o_nodes (delete_many ns ts)) ->
    (forall r, In r (e_refs n') -> ra_exposed r = true -> forall u, In u (ra_targets r) -> ~ In u tids) /\
    (forall u, e_link n' = Some u -> ~ In u tids).
  Proof.
    intro H. apply in_result in H as [n [Hn [Hg ->]]]. split.
    - intros r Hr He u Hu Hin. cbn [purged e_refs] in Hr. apply in_map_iff in Hr as [r0 [E Hr0]]. subst r. unfold purge in *.
      destruct (ra_exposed r0) eqn:Ex.
      + cbn [ra_targets] in Hu. apply filter_In in Hu as [_ Hu]. apply negb_true_iff in Hu. apply memz_In in Hin. congruence.
      + congruence.
    - intros u Hl Hin. cbn [purged e_link] in Hl. unfold gone in Hg. apply orb_false_iff in Hg as [HT HL].
      assert (In (e_h n) links).
      { unfold links. apply in_map_iff. exists n. split; [reflexivity|]. apply filter_In. split; [exact Hn|].
        fold (inT n). rewrite HT, Hl. cbn. now apply memz_In. }
      unfold below in HL. rewrite below_root in HL by exact H. discriminate.
  Qed.

  (* 2. nothing of the deleted subtree survives; removed and surviving handles partition the model *)
  Theorem deleted_subtree_gone n' : In n' (o_nodes (delete_many ns ts)) -> below ns ts (e_h n') = false.
  Proof.
    intro H. apply in_result in H as [n [Hn [Hg ->]]]. cbn [purged e_h]. unfold gone in Hg. now apply orb_false_iff in Hg as [HT _].
  Qed.
  Theorem partition_handles h : In h (map e_h ns) <->
    In h (o_removed (delete_many ns ts)) \/ In h (map e_h (o_nodes (delete_many ns ts))).
  Proof.
    rewrite delete_unfold. cbn [o_nodes o_removed]. rewrite !in_map_iff. split.
    - intros [n [E Hn]]. destruct (gone n) eqn:G.
      + left. exists n. split; [exact E|]. apply filter_In. auto.
      + right. exists (purged n). split; [exact E|]. apply in_map_iff. exists n. split; [reflexivity|]. apply filter_In. split; [exact Hn|now rewrite G].
    - intros [[n [E Hn]]|[n' [E Hn']]].
      + apply filter_In in Hn as [Hn _]. exists n. auto.
      + apply in_map_iff in Hn' as [n [E2 Hn]]. apply filter_In in Hn as [Hn _]. subst n'. exists n. split; [exact E|exact Hn].
  Qed.

  (* 3. frame: a surviving element keeps handle, parent, ids, link target and the names and order of its
        reference attributes; non-exposed references are untouched; exposed ones lose exactly the deleted ids,
        the order of the survivors kept; the document order of survivors is kept *)
  Theorem frame n : In n ns -> gone n = false ->
    exists n', In n' (o_nodes (delete_many ns ts)) /\ e_h n' = e_h n /\ e_par n' = e_par n /\ e_ids n' = e_ids n /\ e_link n' = e_link n /\
      map ra_name (e_refs n') = map ra_name (e_refs n) /\
      Forall2 (fun r' r => if ra_exposed r then ra_targets r' = filter (fun u => negb (memz u tids)) (ra_targets r) else r' = r)
              (e_refs n') (e_refs n).
  Proof.
    intros Hn Hg. exists (purged n). split; [apply in_result; eauto|]. cbn [purged e_h e_par e_ids e_link e_refs]. repeat split.
    - rewrite map_map. apply map_ext. intro r. unfold purge. destruct (ra_exposed r); reflexivity.
    - induction (e_refs n) as [|r rs IH]; [constructor|]. cbn [map]. constructor; [|exact IH]. unfold purge. destruct (ra_exposed r); reflexivity.
  Qed.
  Theorem order_kept : map e_h (o_nodes (delete_many ns ts)) = map e_h (filter (fun n => negb (gone n)) ns).
  Proof. rewrite delete_unfold. cbn [o_nodes]. rewrite map_map. reflexivity. Qed.
End Delete.

(* 4. all-or-nothing: a refused deletion produces no new state; an accepted one is [delete] *)
Theorem guarded_all_or_nothing refuses ns t :
  match delete_guarded refuses ns t with
  | None => exists n, In n ns /\ refuses n = true /\ below ns [t] (e_h n) = false
  | Some o => o = delete ns t
  end.
Proof.
  unfold delete_guarded. destruct (existsb _ ns) eqn:E; [|reflexivity].
  apply existsb_exists in E as [n [Hn H]]. apply andb_true_iff in H as [H _]. apply andb_true_iff in H as [H1 H2].
  apply negb_true_iff in H1. eauto.
Qed.

(* the once-per-(holder, relation) purge leaves an exposed reference to a deleted object behind *)
Theorem purge_once_refuted :
  let ns := [mkEl 1 None [10] [] None; mkEl 2 (Some 1) [20] [] None; mkEl 3 None [30] [mkRef 7 true [10; 20]] None] in
  o_nodes (delete_many_once ns [1]) = [mkEl 3 None [30] [mkRef 7 true [20]] None] /\
  o_nodes (delete_many ns [1]) = [mkEl 3 None [30] [mkRef 7 true []] None].
Proof. split; reflexivity. Qed.

(* all-or-nothing for a call with several targets *)
Theorem guarded_many_all_or_nothing refuses ns ts :
  match delete_guarded_many refuses ns ts with
  | None => exists n, In n ns /\ refuses n = true /\ below ns ts (e_h n) = false
  | Some o => o = delete_many ns ts
  end.
Proof.
  unfold delete_guarded_many. destruct (existsb _ ns) eqn:E; [|reflexivity].
  apply existsb_exists in E as [n [Hn H]]. apply andb_true_iff in H as [H _]. apply andb_true_iff in H as [H1 H2].
  apply negb_true_iff in H1. eauto.
Qed.
(* deleting the targets one call after the other is NOT all-or-nothing: the call raises after the first target is gone *)
Theorem sequential_delete_refuted :
  let ns := [mkEl 1 None [10] [] None; mkEl 2 None [20] [] None; mkEl 3 None [30] [mkRef 7 true [20]] None] in
  let refuses := fun n => e_h n =? 3 in
  delete_guarded_many refuses ns [1; 2] = None /\
  delete_seq refuses ns [1; 2] = ([mkEl 2 None [20] [] None; mkEl 3 None [30] [mkRef 7 true [20]] None], true).
Proof. split; reflexivity. Qed.
