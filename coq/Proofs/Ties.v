(* Tie lemmas: the definitions generated from /repo's source by tools/py2gallina.py
   (Gen/Fn_helpers.v) are equal to the hand-written models the theorems are about. *)
From Coq Require Import ZArith NArith List Bool Lia.
Import ListNotations.
From V Require Import Model.Val Model.Paths Model.PyPrims Model.LinkRe Proofs.PathsP Gen.Fn_helpers.

Lemma tie_normalize p b : normalize_pure_path p b = py_of_parts (normalize p b).
Proof. reflexivity. Qed.

(* py_of_parts of a list of genuine segments is the relative path with these parts *)
Lemma py_of_parts_rel l : Forall (fun p => ~ In SLASH p) l -> py_of_parts l = {| pp_abs := false; pp_parts := l |}.
Proof.
  intros H. destruct l as [|[|c [|d r]] l]; try reflexivity. cbn.
  destruct (N.eqb c SLASH) eqn:E; [|reflexivity]. apply N.eqb_eq in E. subst.
  inversion H; subst. exfalso. apply H2. now left.
Qed.

(* relpath: generated (reversed list, pop/append at the end) vs model (forward list) *)
Definition gen_rstep (st : list str * bool) (v_part : str) : list str * bool :=
  let '(v_parts, v_prefix) := st in
  if v_prefix then
    if (py_nonempty v_parts && str_eqb (py_last v_parts) v_part)%bool then (removelast v_parts, v_prefix) else (v_parts, false)
  else (v_parts ++ [dotdot], v_prefix).

Lemma nonempty_snoc {A} (l : list A) x : py_nonempty (l ++ [x]) = true.
Proof. destruct l; reflexivity. Qed.

Lemma rstep_sim rest prefix ups p :
  (prefix = true -> ups = []) ->
  let '(rest', prefix', ups') := rstep (rest, prefix, ups) p in
  gen_rstep (rev rest ++ rev ups, prefix) p = (rev rest' ++ rev ups', prefix') /\ (prefix' = true -> ups' = []).
Proof.
  intros Hinv. unfold rstep, gen_rstep. destruct prefix.
  - rewrite (Hinv eq_refl). cbn [rev app]. rewrite !app_nil_r.
    destruct rest as [|x rest'].
    + cbn. split; [reflexivity|auto].
    + cbn [rev]. unfold py_last. rewrite nonempty_snoc, last_last, removelast_last. cbn [andb].
      destruct (str_eqb x p) eqn:E.
      * cbn [rev]. rewrite app_nil_r. split; [reflexivity|auto].
      * cbn [rev]. rewrite app_nil_r. split; [reflexivity|discriminate].
  - cbn [rev]. rewrite app_assoc. split; [reflexivity|discriminate].
Qed.

Lemma rfold_sim start : forall rest prefix ups,
  (prefix = true -> ups = []) ->
  let '(rest', prefix', ups') := fold_left rstep start (rest, prefix, ups) in
  fold_left gen_rstep start (rev rest ++ rev ups, prefix) = (rev rest' ++ rev ups', prefix').
Proof.
  induction start as [|p start IH]; intros rest prefix ups Hinv; cbn [fold_left].
  - reflexivity.
  - pose proof (rstep_sim rest prefix ups p Hinv) as H.
    destruct (rstep (rest, prefix, ups) p) as [[rest' prefix'] ups'].
    destruct H as [H1 H2]. rewrite H1. apply IH. exact H2.
Qed.

Lemma fold_left_ext {A B} (f g : A -> B -> A) l :
  (forall a b, f a b = g a b) -> forall i, fold_left f l i = fold_left g l i.
Proof. intros H. induction l as [|x l IH]; intros i; cbn; [reflexivity|]. now rewrite H, IH. Qed.

Lemma relpath_pure_unfold path start :
  relpath_pure path start =
  py_of_parts (rev (fst (fold_left gen_rstep (py_parts start) (rev (py_parts path), true)))).
Proof.
  unfold relpath_pure.
  match goal with |- context [fold_left ?f ?l ?i] => rewrite (fold_left_ext f gen_rstep l) end.
  - destruct (fold_left gen_rstep _ _) as [a b]. reflexivity.
  - intros [a b] x. unfold gen_rstep. destruct b; [destruct (_ && _)%bool|]; reflexivity.
Qed.

Lemma tie_relpath path start :
  relpath_pure path start = py_of_parts (relpath (py_parts path) (py_parts start)).
Proof.
  rewrite relpath_pure_unfold. unfold relpath.
  pose proof (rfold_sim (py_parts start) (py_parts path) true [] (fun _ => eq_refl)) as H.
  destruct (fold_left rstep _ _) as [[rest' prefix'] ups'].
  cbv beta iota zeta in H. cbn [rev] in H. rewrite app_nil_r in H. rewrite H. cbn [fst].
  now rewrite rev_app_distr, !rev_involutive.
Qed.

(* ---- split_links: generated monadic fold = recursive token model ---- *)
From V Require Import Model.Links.
Definition pend (nx : str) : option str := match nx with [] => None | _ => Some nx end.

Lemma tie_split_links s : split_links s = split_links_model s.
Proof.
  unfold split_links, split_links_model.
  match goal with |- context [fold_left ?f _ _] => set (F := f) end.
  assert (Herr : forall toks e, fold_left F toks (Err e) = Err e).
  { induction toks as [|t toks IH]; intros e; cbn [fold_left]; [reflexivity|]. apply IH. }
  assert (G : forall toks nx out,
    match fold_left F toks (Ok (nx, out)) with
    | Ok (nx', out') => match (if negb (str_eqb nx' []) then Err E_ValueError else Ok tt) with
                        | Ok _ => Ok out' | Err e => Err e end
    | Err e => Err e
    end = match split_tokens toks (pend nx) with Ok l => Ok (out ++ l) | Err e => Err e end).
  { induction toks as [|t toks IH]; intros nx out.
    - cbn [fold_left split_tokens]. destruct nx; cbn; [now rewrite app_nil_r|reflexivity].
    - cbn [fold_left split_tokens]. unfold F at 2. cbv beta iota.
      destruct (py_str_contains t [35%N]) eqn:Eh.
      + change [HASH] with [35%N]. rewrite Eh.
        destruct nx as [|c nx'].
        * cbn [str_eqb negb pend].
          destruct (py_link_fullmatch t) eqn:Em; cbn [negb].
          -- rewrite IH. cbn [pend]. destruct (split_tokens toks None); [now rewrite <- app_assoc|reflexivity].
          -- now rewrite Herr.
        * cbn [str_eqb negb pend]. change ([SPACE] ++ t) with ([32%N] ++ t).
          destruct (py_link_fullmatch ((c :: nx') ++ [32%N] ++ t)) eqn:Em; cbn [negb].
          -- rewrite IH. cbn [pend]. destruct (split_tokens toks None); [now rewrite <- app_assoc|reflexivity].
          -- now rewrite Herr.
      + change [HASH] with [35%N]. rewrite Eh.
        destruct nx as [|c nx'].
        * cbn [str_eqb negb pend]. rewrite IH. destruct t; reflexivity.
        * cbn [str_eqb negb pend]. now rewrite Herr. }
  specialize (G (py_split_ws s) [] []). cbn [pend app] in G.
  etransitivity; [exact G|]. destruct (split_tokens (py_split_ws s) None); reflexivity.
Qed.
