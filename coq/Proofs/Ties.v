(* Tie lemmas: the definitions generated from /repo's source by tools/py2gallina.py
   (Gen/Fn_helpers.v, regenerated on every run) are equal to the hand-written models the
   theorems are about.

   The proofs do not mention sub-terms of the generated definitions.  Each goes
     1. unfold the generated function, find its loop ([fold_left] / [py_forb] / [py_for] applied to a
        generated step function) and replace the step function by a *reference step* written here,
        using the extensionality lemma of the combinator; the obligation
        [forall s x, generated_step s x = reference_step s x] is discharged by [tie_crush]: case
        analysis on every test both functions make + computation — so any formulation of the loop
        body that makes the same decisions (branches in another order, early [continue], [elif],
        conditional expressions, pop under an emptiness test instead of a suppressed IndexError,
        other local names ...) goes through;
     2. a lemma about the reference loop (proved once, by induction) relates it to the model;
     3. what the function does before and after the loop is closed by computation / [lia].
   Where the source may use genuinely different algorithms (relpath_pure), one proof per family is
   tried ([first]); a source outside every family fails closed. *)
From Coq Require Import ZArith NArith List Bool Lia.
Import ListNotations.
From V Require Import Model.Val Model.Paths Model.PyPrims Model.LinkRe Model.Links Proofs.PathsP Gen.Fn_helpers.
Local Open Scope nat_scope.

(* ------------------------------------------------------------------ loop combinators *)
Lemma fold_left_ext {A B} (f g : A -> B -> A) l :
  (forall a b, f a b = g a b) -> forall i, fold_left f l i = fold_left g l i.
Proof. intros H. induction l as [|x l IH]; intros i; cbn; [reflexivity|]. now rewrite H, IH. Qed.

Lemma py_forb_ext {S X} (f g : S -> X -> S * bool) l :
  (forall s x, f s x = g s x) -> forall i, py_forb f l i = py_forb g l i.
Proof.
  intros H. induction l as [|x l IH]; intros i; cbn [py_forb]; [reflexivity|].
  rewrite H. destruct (g i x) as [s' [|]]; [reflexivity|apply IH].
Qed.

Lemma py_for_ext {S X} (f g : S -> X -> ctl S) l :
  (forall s x, f s x = g s x) -> forall i, py_for f l i = py_for g l i.
Proof.
  intros H. induction l as [|x l IH]; intros i; cbn [py_for]; [reflexivity|].
  rewrite H. destruct (g i x); [apply IH|reflexivity|reflexivity].
Qed.

(* ------------------------------------------------------------------ step functions by case analysis *)
(* other spellings of "drop the last element" / "add one element" *)
Lemma slice_to_m1 {A} (l : list A) : py_slice_to l (-1)%Z = removelast l.
Proof.
  unfold py_slice_to, py_index. cbn [Z.ltb Z.compare].
  replace (Z.to_nat (Z.of_nat (length l) + -1)) with (length l - 1) by lia.
  induction l as [|x [|y l] IH]; [reflexivity|reflexivity|].
  replace (length (x :: y :: l) - 1) with (S (length (y :: l) - 1)) by (cbn [length]; lia).
  cbn [firstn]. rewrite IH. reflexivity.
Qed.
Lemma slice_m1 {A} (l : list A) : py_slice l 0%Z (-1)%Z = removelast l.
Proof. unfold py_slice. change (py_index l 0) with 0. cbn [skipn]. exact (slice_to_m1 l). Qed.

Ltac tie_red :=
  cbv beta iota zeta delta [negb andb orb py_nonempty fst snd dotdot dot DOT SLASH HASH SPACE];
  rewrite ?slice_to_m1, ?slice_m1, ?app_nil_r, <- ?app_assoc, ?Z.gtb_ltb, ?Z.geb_leb;
  cbn [str_eqb app length].
(* one case split: on a variable that is taken apart or tested for emptiness, else on the innermost test *)
Ltac tie_case :=
  match goal with
  | p : (_ * _)%type |- _ => destruct p
  | |- context [str_eqb ?l []] => is_var l; destruct l
  | |- context [Z.ltb ?a ?b] => destruct (Z.ltb_spec a b)
  | |- context [Z.leb ?a ?b] => destruct (Z.leb_spec a b)
  | |- context [Z.eqb ?a ?b] => destruct (Z.eqb_spec a b)
  | |- context [match ?x with _ => _ end] =>
      lazymatch x with
      | context [match _ with _ => _ end] => fail
      | _ => first [ is_var x; destruct x | let E := fresh "E" in destruct x eqn:E ]
      end
  end.
Ltac tie_crush :=
  intros; tie_red; repeat (tie_case; tie_red);
  try reflexivity; try congruence; try (exfalso; cbn [length] in *; lia);
  try (match goal with H : context [length ?l] |- _ => is_var l; destruct l end;
       cbn [length] in *; first [ reflexivity | exfalso; lia ]).

(* replace the generated step function of the loop in the goal by the reference step [g] *)
Ltac tie_fold g :=
  match goal with |- context [fold_left ?f ?l ?i] =>
    rewrite (fold_left_ext f g l) by (unfold g; tie_crush) end.
Ltac tie_forb g :=
  match goal with |- context [py_forb ?f ?l ?i] =>
    rewrite (py_forb_ext f g l) by (unfold g; tie_crush) end.
Ltac tie_for g :=
  match goal with |- context [py_for ?f ?l ?i] =>
    rewrite (py_for_ext f g l) by (unfold g; tie_crush) end.

(* ------------------------------------------------------------------ normalize_pure_path *)
(* reference step: Paths.nstep itself *)
Lemma tie_normalize p b : normalize_pure_path p b = py_of_parts (normalize p b).
Proof.
  unfold normalize_pure_path. cbv zeta.
  tie_fold nstep. reflexivity.
Qed.

(* py_of_parts of a list of genuine segments is the relative path with these parts *)
Lemma py_of_parts_rel l : Forall (fun p => ~ In SLASH p) l -> py_of_parts l = {| pp_abs := false; pp_parts := l |}.
Proof.
  intros H. destruct l as [|[|c [|d r]] l]; try reflexivity. cbn.
  destruct (N.eqb c SLASH) eqn:E; [|reflexivity]. apply N.eqb_eq in E. subst.
  inversion H; subst. exfalso. apply H2. now left.
Qed.

(* ------------------------------------------------------------------ relpath_pure *)
(* family A: a reversed copy of path.parts from which the shared leading components are popped while a
   flag is up, and to which one ".." is appended for every later component of start *)
Definition ref_rstep (st : bool * list str) (p : str) : bool * list str :=
  let '(prefix, parts) := st in
  if prefix then
    if (py_nonempty parts && str_eqb (py_last parts) p)%bool then (prefix, removelast parts) else (false, parts)
  else (prefix, parts ++ [dotdot]).

Lemma nonempty_snoc {A} (l : list A) x : py_nonempty (l ++ [x]) = true.
Proof. destruct l; reflexivity. Qed.

Lemma rstep_sim rest prefix ups p :
  (prefix = true -> ups = []) ->
  let '(rest', prefix', ups') := rstep (rest, prefix, ups) p in
  ref_rstep (prefix, rev rest ++ rev ups) p = (prefix', rev rest' ++ rev ups') /\ (prefix' = true -> ups' = []).
Proof.
  intros Hinv. unfold rstep, ref_rstep. destruct prefix.
  - rewrite (Hinv eq_refl). cbn [rev app]. rewrite !app_nil_r.
    destruct rest as [|x rest'].
    + cbn. split; [reflexivity|auto].
    + cbn [rev]. unfold py_last. rewrite nonempty_snoc, last_last, removelast_last. cbn [andb].
      destruct (str_eqb x p) eqn:E.
      * cbn [rev]. rewrite app_nil_r. split; [reflexivity|auto].
      * cbn [rev]. rewrite app_nil_r. split; [reflexivity|discriminate].
  - cbn [rev]. rewrite app_assoc. split; [reflexivity|discriminate].
Qed.

Lemma rfold_sim start : forall rest prefix ups,
  (prefix = true -> ups = []) ->
  let '(rest', prefix', ups') := fold_left rstep start (rest, prefix, ups) in
  fold_left ref_rstep start (prefix, rev rest ++ rev ups) = (prefix', rev rest' ++ rev ups').
Proof.
  induction start as [|p start IH]; intros rest prefix ups Hinv; cbn [fold_left].
  - reflexivity.
  - pose proof (rstep_sim rest prefix ups p Hinv) as H.
    destruct (rstep (rest, prefix, ups) p) as [[rest' prefix'] ups'].
    destruct H as [H1 H2]. rewrite H1. apply IH. exact H2.
Qed.

Lemma relpath_pop_loop path start :
  rev (snd (fold_left ref_rstep start (true, rev path))) = relpath path start.
Proof.
  unfold relpath.
  pose proof (rfold_sim start path true [] (fun _ => eq_refl)) as H.
  destruct (fold_left rstep _ _) as [[rest' prefix'] ups'].
  cbn [rev] in H. rewrite app_nil_r in H. rewrite H. cbn [snd].
  now rewrite rev_app_distr, !rev_involutive.
Qed.

(* family B: count the shared leading components (loop over zip with break), then
   [".."] * (len(start) - common - 1, at least 0) followed by path.parts[common:] *)
Fixpoint lcp (a b : list str) : nat :=
  match a, b with
  | x :: a', y :: b' => if str_eqb x y then S (lcp a' b') else 0
  | _, _ => 0
  end.
Definition ref_cstep (c : Z) (ab : str * str) : Z * bool :=
  if str_eqb (fst ab) (snd ab) then ((c + 1)%Z, false) else (c, true).

Lemma forb_count p : forall s c, py_forb ref_cstep (combine p s) c = (c + Z.of_nat (lcp p s))%Z.
Proof.
  induction p as [|x p IH]; intros [|y s] c; cbn [combine py_forb lcp]; try lia.
  unfold ref_cstep at 1. cbn [fst snd]. destruct (str_eqb x y).
  - rewrite IH. lia.
  - lia.
Qed.

(* the same count kept as "index of the last equal pair + 1" over enumerate(zip(..)) *)
Definition ref_estep (c : Z) (x : Z * (str * str)) : Z * bool :=
  if str_eqb (fst (snd x)) (snd (snd x)) then ((fst x + 1)%Z, false) else (c, true).
Lemma forb_ecount p : forall s k,
  py_forb ref_estep (py_enumerate k (combine p s)) k = (k + Z.of_nat (lcp p s))%Z.
Proof.
  induction p as [|x p IH]; intros [|y s] k; cbn [combine py_enumerate py_forb lcp]; try lia.
  unfold ref_estep at 1. cbn [fst snd]. destruct (str_eqb x y).
  - rewrite IH. lia.
  - lia.
Qed.

Lemma rfold_ups start : forall rest ups,
  fold_left rstep start (rest, false, ups) = (rest, false, repeat dotdot (length start) ++ ups).
Proof.
  induction start as [|p start IH]; intros rest ups; cbn [fold_left length repeat app]; [reflexivity|].
  unfold rstep at 2. rewrite IH. f_equal.
  change (dotdot :: ups) with ([dotdot] ++ ups). rewrite app_assoc. f_equal.
  clear. induction (length start) as [|n IHn]; cbn; [reflexivity|]. now rewrite IHn.
Qed.

Lemma relpath_spec : forall s p,
  relpath p s = repeat dotdot (length s - lcp p s - 1) ++ skipn (lcp p s) p.
Proof.
  unfold relpath.
  induction s as [|y s IH]; intros p.
  - destruct p; reflexivity.
  - cbn [fold_left]. unfold rstep at 2.
    destruct p as [|x p].
    + rewrite rfold_ups. cbn [lcp length skipn]. rewrite app_nil_r.
      replace (S (length s) - 0 - 1) with (length s) by lia. reflexivity.
    + destruct (str_eqb x y) eqn:E.
      * specialize (IH p). cbn [lcp length skipn]. rewrite E.
        destruct (fold_left rstep s (p, true, [])) as [[r f] u]. exact IH.
      * rewrite rfold_ups. cbn [lcp length skipn]. rewrite E, app_nil_r.
        replace (S (length s) - 0 - 1) with (length s) by lia. reflexivity.
Qed.

Lemma list_mul_single {A} (x : A) z : py_list_mul [x] z = repeat x (Z.to_nat z).
Proof.
  unfold py_list_mul. induction (Z.to_nat z) as [|n IH]; cbn; [reflexivity|]. now rewrite IH.
Qed.
Lemma slice_from_nat {A} (l : list A) z n : z = Z.of_nat n -> py_slice_from l z = skipn n l.
Proof.
  intros ->. unfold py_slice_from, py_index.
  destruct (Z.ltb_spec (Z.of_nat n) 0); [lia|]. now rewrite Nat2Z.id.
Qed.

(* case analysis on the integer tests left in the goal (e.g. "if climbs < 0: climbs = 0") *)
Ltac tie_zcases :=
  rewrite ?Z.gtb_ltb, ?Z.geb_leb;
  cbv beta iota zeta delta [negb andb orb];
  repeat match goal with
  | |- context [Z.ltb ?a ?b] => destruct (Z.ltb_spec a b)
  | |- context [Z.leb ?a ?b] => destruct (Z.leb_spec a b)
  | |- context [Z.eqb ?a ?b] => destruct (Z.eqb_spec a b)
  end.

Lemma tie_relpath path start :
  relpath_pure path start = py_of_parts (relpath (py_parts path) (py_parts start)).
Proof.
  unfold relpath_pure. cbv zeta.
  first
  [ (* A *)
    tie_fold ref_rstep;
    rewrite <- relpath_pop_loop;
    destruct (fold_left ref_rstep _ _) as [a b]; reflexivity
  | (* B: the loop is the count [lcp]; the rest is arithmetic on lengths *)
    first [ tie_forb ref_cstep; rewrite forb_count | tie_forb ref_estep; rewrite forb_ecount ];
    rewrite relpath_spec;
    tie_zcases;
    rewrite ?list_mul_single;
    (f_equal; f_equal; [ f_equal; lia | apply slice_from_nat; lia ]) ].
Qed.

(* ------------------------------------------------------------------ split_links *)
(* reference step: state = (links yielded so far, pending type prefix or "") *)
Definition pend (nx : str) : option str := match nx with [] => None | _ => Some nx end.
Definition ref_sstep (st : list str * str) (t : str) : ctl (list str * str) :=
  if py_str_contains t [HASH] then
    if py_link_fullmatch (if str_eqb (snd st) [] then t else snd st ++ [SPACE] ++ t)
    then Next (fst st ++ [if str_eqb (snd st) [] then t else snd st ++ [SPACE] ++ t], [])
    else Raise E_ValueError
  else if str_eqb (snd st) [] then Next (fst st, t) else Raise E_ValueError.
Definition ref_sfinish (r : result (list str * str)) : result (list str) :=
  match r with
  | Ok st => if str_eqb (snd st) [] then Ok (fst st) else Err E_ValueError
  | Err e => Err e
  end.

Lemma ref_sloop toks : forall out nx,
  ref_sfinish (py_for ref_sstep toks (out, nx)) =
  match split_tokens toks (pend nx) with Ok l => Ok (out ++ l) | Err e => Err e end.
Proof.
  induction toks as [|t toks IH]; intros out nx.
  - cbn [py_for split_tokens ref_sfinish fst snd]. destruct nx; cbn; [now rewrite app_nil_r|reflexivity].
  - cbn [py_for split_tokens]. unfold ref_sstep at 1. cbn [fst snd].
    destruct (py_str_contains t [HASH]) eqn:Eh.
    + destruct nx as [|c nx']; cbn [str_eqb pend].
      * destruct (py_link_fullmatch t) eqn:Em.
        -- rewrite IH. cbn [pend]. destruct (split_tokens toks None); [now rewrite <- app_assoc|reflexivity].
        -- reflexivity.
      * destruct (py_link_fullmatch ((c :: nx') ++ [SPACE] ++ t)) eqn:Em.
        -- rewrite IH. cbn [pend]. destruct (split_tokens toks None); [now rewrite <- app_assoc|reflexivity].
        -- reflexivity.
    + destruct nx as [|c nx']; cbn [str_eqb pend].
      * rewrite IH. destruct t; reflexivity.
      * reflexivity.
Qed.

Lemma tie_split_links s : split_links s = split_links_model s.
Proof.
  unfold split_links. cbv zeta.
  tie_for ref_sstep.
  transitivity (ref_sfinish (py_for ref_sstep (py_split_ws s) ([], []))).
  - destruct (py_for ref_sstep (py_split_ws s) ([], [])) as [[o n]|e]; unfold ref_sfinish; tie_crush.
  - rewrite ref_sloop. unfold split_links_model. cbn [pend app].
    destruct (split_tokens (py_split_ws s) None); reflexivity.
Qed.
