(* C07: proofs about Model/Pods.v *)
From Coq Require Import ZArith NArith List Bool Lia.
Import ListNotations.
From V Require Import Model.Val Gen.PodsTab Model.Pods.
Open Scope N_scope.

(* ------------------------------------------------------------------ strings *)
Lemma seqb_refl s : str_eqb s s = true.
Proof. induction s as [|c s IH]; cbn; [reflexivity|]. now rewrite N.eqb_refl, IH. Qed.

Lemma seqb_eq a b : str_eqb a b = true <-> a = b.
Proof.
  revert b; induction a as [|x a IH]; intros [|y b]; cbn; split; intro H; try congruence; try reflexivity.
  - apply andb_true_iff in H as [H1 H2]. apply N.eqb_eq in H1. apply IH in H2. congruence.
  - inversion H; subst. now rewrite N.eqb_refl, seqb_refl.
Qed.

Lemma seqb_neq a b : str_eqb a b = false <-> a <> b.
Proof.
  split; intro H.
  - intro E. apply seqb_eq in E. congruence.
  - destruct (str_eqb a b) eqn:E; [|reflexivity]. apply seqb_eq in E. contradiction.
Qed.

(* ------------------------------------------------------------------ attribute lists *)
Lemma attr_get_set_same a d e : attr_get a (attr_set a d e) = Some d.
Proof.
  induction e as [|[k v] r IH]; cbn.
  - now rewrite seqb_refl.
  - destruct (str_eqb k a) eqn:E; cbn; rewrite E; [reflexivity|exact IH].
Qed.

Lemma attr_get_pop_same a e : attr_get a (attr_pop a e) = None.
Proof.
  induction e as [|[k v] r IH]; cbn; [reflexivity|].
  destruct (str_eqb k a) eqn:E; cbn; [exact IH|]. now rewrite E.
Qed.

Lemma attr_get_set_other a b d e : b <> a -> attr_get b (attr_set a d e) = attr_get b e.
Proof.
  intro Hne. induction e as [|[k v] r IH]; cbn.
  - assert (str_eqb a b = false) as -> by (apply seqb_neq; congruence). reflexivity.
  - destruct (str_eqb k a) eqn:E; cbn.
    + apply seqb_eq in E; subst k.
      assert (str_eqb a b = false) as -> by (apply seqb_neq; congruence). reflexivity.
    + destruct (str_eqb k b); [reflexivity|exact IH].
Qed.

Lemma attr_get_pop_other a b e : b <> a -> attr_get b (attr_pop a e) = attr_get b e.
Proof.
  intro Hne. induction e as [|[k v] r IH]; cbn; [reflexivity|].
  destruct (str_eqb k a) eqn:E; cbn.
  - apply seqb_eq in E; subst k.
    assert (str_eqb a b = false) as -> by (apply seqb_neq; congruence). exact IH.
  - destruct (str_eqb k b); [reflexivity|exact IH].
Qed.

Lemma others_set a d e : others a (attr_set a d e) = others a e.
Proof.
  unfold others. induction e as [|[k v] r IH]; cbn.
  - now rewrite seqb_refl.
  - destruct (str_eqb k a) eqn:E; cbn; rewrite E; cbn; [reflexivity|]. now rewrite IH.
Qed.

Lemma others_pop a e : others a (attr_pop a e) = others a e.
Proof.
  unfold others. induction e as [|[k v] r IH]; cbn; [reflexivity|].
  destruct (str_eqb k a) eqn:E; cbn; [exact IH|]. rewrite E. cbn. now rewrite IH.
Qed.

(* ------------------------------------------------------------------ BasePOD: the get/set algebra *)
Section Algebra.
  Variable V : Type.
  Variable c : codec V.
  Variable valid : V -> Prop.
  Variable norm : V -> V.
  (* the one obligation of a codec: what is written for a valid non-default value is accepted by
     lxml and reads back as the normal form of the value *)
  Hypothesis codec_rt : forall v, valid v -> c_isdef c v = false ->
    exists d, c_to c v = ROk d /\ xml_ok d = true /\ c_from c d = ROk (norm v).

  Definition may_write (writable : bool) (a : str) (e : list (str * str)) : Prop :=
    writable = true \/ attr_get a e = None.

  Lemma may_write_guard w a e : may_write w a e -> negb w && attr_has a e = false.
  Proof. unfold may_write, attr_has. intros [->| ->]; [reflexivity|]. now rewrite andb_false_r. Qed.

  Lemma alg_get_set w a e v : valid v -> c_isdef c v = false -> may_write w a e ->
    exists d, pod_set c w a e (Some v) = (attr_set a d e, None)
              /\ attr_get a (attr_set a d e) = Some d
              /\ c_to c v = ROk d
              /\ pod_get c a (attr_set a d e) = ROk (Some (norm v)).
  Proof.
    intros Hv Hd Hw. destruct (codec_rt v Hv Hd) as (d & Ht & Hx & Hf). exists d.
    unfold pod_set, pod_get. rewrite (may_write_guard _ _ _ Hw), Hd, Ht, Hx, attr_get_set_same, Hf. cbn.
    repeat split; reflexivity.
  Qed.

  Lemma alg_default_elided w a e v : c_isdef c v = true -> may_write w a e ->
    pod_set c w a e (Some v) = (attr_pop a e, None)
    /\ attr_get a (attr_pop a e) = None
    /\ pod_get c a (attr_pop a e) = ROk (c_default c).
  Proof.
    intros Hd Hw. unfold pod_set, pod_get. rewrite (may_write_guard _ _ _ Hw), Hd, attr_get_pop_same. auto.
  Qed.

  Lemma alg_none_elided w a e : may_write w a e ->
    pod_set c w a e None = (attr_pop a e, None)
    /\ attr_get a (attr_pop a e) = None
    /\ pod_get c a (attr_pop a e) = ROk (c_default c).
  Proof.
    intros Hw. unfold pod_set, pod_get. rewrite (may_write_guard _ _ _ Hw), attr_get_pop_same. auto.
  Qed.

  Lemma alg_absent_default a e : attr_get a e = None -> pod_get c a e = ROk (c_default c).
  Proof. intro H. unfold pod_get. now rewrite H. Qed.

  Lemma alg_readonly_rejects a e v : attr_get a e <> None -> pod_set c false a e v = (e, Some E_TypeError).
  Proof.
    intro H. unfold pod_set, attr_has. destruct (attr_get a e); [reflexivity|contradiction].
  Qed.

  (* whatever is assigned, successfully or not: no other attribute changes, and their order stays *)
  Lemma alg_frame w a e v : others a (fst (pod_set c w a e v)) = others a e
                            /\ forall b, b <> a -> attr_get b (fst (pod_set c w a e v)) = attr_get b e.
  Proof.
    unfold pod_set. destruct (negb w && attr_has a e); [now split|].
    destruct v as [x|].
    - destruct (c_isdef c x).
      + split; [apply others_pop|intros; now apply attr_get_pop_other].
      + destruct (c_to c x) as [d|er]; [|now split]. destruct (xml_ok d); [|now split].
        split; [apply others_set|intros; now apply attr_get_set_other].
    - split; [apply others_pop|intros; now apply attr_get_pop_other].
  Qed.

  (* an assignment that raises leaves the element exactly as it was *)
  Lemma alg_error_unchanged w a e v er : snd (pod_set c w a e v) = Some er -> fst (pod_set c w a e v) = e.
  Proof.
    unfold pod_set. destruct (negb w && attr_has a e); [reflexivity|].
    destruct v as [x|]; [|discriminate].
    destruct (c_isdef c x); [discriminate|].
    destruct (c_to c x) as [d|e']; [|reflexivity]. destruct (xml_ok d); [discriminate|reflexivity].
  Qed.
End Algebra.

(* ------------------------------------------------------------------ Int: decimal text <-> Z *)
Ltac bdestr :=
  repeat match goal with
  | |- context [?a <=? ?b] => destruct (N.leb_spec a b)
  | |- context [?a <? ?b] => destruct (N.ltb_spec a b)
  | |- context [?a =? ?b] => destruct (N.eqb_spec a b)
  end.

Lemma cp_ok_low c : 32 <= c -> c < 55296 -> cp_ok c = true.
Proof. intros. unfold cp_ok. bdestr; cbn; try reflexivity; lia. Qed.

Lemma is_digit_48 d : d < 10 -> is_digit (48 + d) = true.
Proof. intros. unfold is_digit. bdestr; cbn; try reflexivity; lia. Qed.

Lemma digs_spec fuel : forall n, n < 2 ^ N.of_nat fuel ->
  Forall (fun d => d < 10) (digs fuel n) /\ fold_left (fun a d => a * 10 + d) (digs fuel n) 0 = n /\ digs fuel n <> [].
Proof.
  induction fuel as [|f IH]; intros n Hn.
  - cbn in Hn. assert (n = 0) by lia. subst. cbn. repeat split; [constructor; [lia|constructor]|discriminate].
  - cbn [digs]. destruct (N.ltb_spec n 10) as [Hlt|Hge].
    + cbn. repeat split; [constructor; [lia|constructor]|discriminate].
    + assert (Hq : n / 10 < 2 ^ N.of_nat f).
      { apply N.div_lt_upper_bound; [lia|]. rewrite Nat2N.inj_succ, N.pow_succ_r' in Hn. set (p := 2 ^ N.of_nat f) in *. clearbody p. lia. }
      destruct (IH _ Hq) as (H1 & H2 & H3). repeat split.
      * apply Forall_app. split; [exact H1|]. constructor; [|constructor]. apply N.mod_lt. lia.
      * rewrite fold_left_app. cbn. rewrite H2. pose proof (N.div_mod' n 10). lia.
      * intro E. apply app_eq_nil in E. destruct E. discriminate.
Qed.

Lemma dec_val_map l : forall acc,
  fold_left (fun a c => a * 10 + (c - 48)) (map (fun d => 48 + d) l) acc = fold_left (fun a d => a * 10 + d) l acc.
Proof.
  induction l as [|x l IH]; intro acc; cbn [map fold_left]; [reflexivity|]. rewrite IH.
  replace (48 + x - 48) with x by lia. reflexivity.
Qed.

Lemma digits_map l : Forall (fun d => d < 10) l -> forallb is_digit (map (fun d => 48 + d) l) = true.
Proof. induction 1; cbn [map forallb]; [reflexivity|]. rewrite is_digit_48 by assumption. assumption. Qed.

Lemma N_dec_spec n : exists x l, x < 10 /\ N_dec n = (48 + x) :: l /\ forallb is_digit (N_dec n) = true /\ dec_val (N_dec n) = n.
Proof.
  unfold N_dec. destruct (digs_spec (N.to_nat (N.size n)) n) as (H1 & H2 & H3).
  { rewrite N2Nat.id. apply N.size_gt. }
  destruct (digs _ n) as [|x l] eqn:E; [congruence|].
  exists x, (map (fun d => 48 + d) l). inversion H1; subst. repeat split; try assumption.
  - rewrite <- E in *. now apply digits_map. 
  - unfold dec_val. now rewrite dec_val_map.
Qed.

Lemma N_parse_dec n : N_parse (N_dec n) = Some n.
Proof.
  destruct (N_dec_spec n) as (x & l & Hx & E & Hd & Hv). unfold N_parse. rewrite Hd, Hv. now rewrite E.
Qed.

Lemma Z_parse_dec z : Z_parse (Z_dec z) = ROk z.
Proof.
  unfold Z_dec. destruct (Z.ltb_spec z 0) as [Hneg|Hpos].
  - unfold Z_parse. rewrite N.eqb_refl, N_parse_dec. f_equal. rewrite N2Z.inj_abs_N. lia.
  - destruct (N_dec_spec (Z.abs_N z)) as (x & l & Hx & E & _ & _).
    pose proof (N_parse_dec (Z.abs_N z)) as HP. rewrite E in *. unfold Z_parse.
    destruct (N.eqb_spec (48 + x) 45); [lia|]. destruct (N.eqb_spec (48 + x) 43); [lia|].
    rewrite HP. f_equal. rewrite N2Z.inj_abs_N. lia.
Qed.

Lemma xml_ok_digits s : forallb is_digit s = true -> xml_ok s = true.
Proof.
  unfold xml_ok. induction s as [|c s IH]; cbn; [reflexivity|]. intro H. apply andb_true_iff in H as [H1 H2].
  rewrite IH by assumption. rewrite cp_ok_low; [reflexivity| |]; unfold is_digit in H1; apply andb_true_iff in H1 as [A B];
  apply N.leb_le in A, B; lia.
Qed.

Lemma xml_ok_Z_dec z : xml_ok (Z_dec z) = true.
Proof.
  destruct (N_dec_spec (Z.abs_N z)) as (x & l & Hx & E & Hd & _). apply xml_ok_digits in Hd.
  unfold Z_dec. destruct (z <? 0)%Z; [|exact Hd]. unfold xml_ok in *. cbn [forallb]. rewrite Hd. reflexivity.
Qed.

(* ------------------------------------------------------------------ instances of the codec obligation *)
(* String: every text lxml accepts *)
Lemma str_rt dflt v : xml_ok v = true -> str_eqb v dflt = false ->
  exists d, c_to (str_codec dflt) v = ROk d /\ xml_ok d = true /\ c_from (str_codec dflt) d = ROk v.
Proof. intros. exists v. cbn. auto. Qed.

Lemma pvmt_rt dflt v : xml_ok (pv_raw v) = true ->
  exists d, c_to (pvmt_codec dflt) v = ROk d /\ xml_ok d = true /\ c_from (pvmt_codec dflt) d = ROk (PVRules (pv_raw v)).
Proof. intros. exists (pv_raw v). cbn. auto. Qed.

(* Bool: the two texts of this tree's _to_xml are told apart by its _from_xml *)
Lemma bool_texts : str_eqb src_bool_true src_bool_read_true = true /\ str_eqb src_bool_false src_bool_read_true = false
                   /\ xml_ok src_bool_true = true /\ xml_ok src_bool_false = true.
Proof. vm_compute. auto. Qed.

Lemma bool_rt dflt v :
  exists d, c_to (bool_codec dflt) v = ROk d /\ xml_ok d = true /\ c_from (bool_codec dflt) d = ROk v.
Proof.
  destruct bool_texts as (A & B & C & D).
  destruct v; eexists; cbn; (split; [reflexivity|]); (split; [assumption|]); f_equal; assumption.
Qed.

Lemma int_rt dflt v :
  exists d, c_to (int_codec dflt) v = ROk d /\ xml_ok d = true /\ c_from (int_codec dflt) d = ROk v.
Proof. exists (Z_dec v). cbn. split; [reflexivity|]. split; [apply xml_ok_Z_dec|apply Z_parse_dec]. Qed.

Lemma int_isdef dflt v : c_isdef (int_codec dflt) v = true <-> v = dflt.
Proof. cbn. apply Z.eqb_eq. Qed.

(* ------------------------------------------------------------------ Enum: all tables of this tree *)
Definition member_ok (t : list (str * str)) (i : nat) : bool :=
  match nth_error t i with
  | Some (n, v) =>
      xml_ok v
      && match enum_by_value t v with Some j => Nat.eqb j i | None => false end
      && match enum_by_name t n with Some j => Nat.eqb j i | None => false end
  | None => false
  end.
Definition table_ok (t : list (str * str)) : bool := forallb (member_ok t) (seq 0 (length t)) && negb (Nat.eqb (length t) 0).
Definition tables_ok : bool := forallb (fun e => table_ok (snd e)) enum_tabs.

Lemma tables_ok_true : tables_ok = true.
Proof. vm_compute. reflexivity. Qed.

Lemma table_ok_of e : In e enum_tabs -> table_ok (snd e) = true.
Proof. intro H. pose proof tables_ok_true as T. unfold tables_ok in T. rewrite forallb_forall in T. now apply T. Qed.

Lemma member_ok_of t i : table_ok t = true -> (i < length t)%nat -> member_ok t i = true.
Proof.
  intros T Hi. unfold table_ok in T. apply andb_true_iff in T as [T _]. rewrite forallb_forall in T.
  apply T. apply in_seq. lia.
Qed.

(* by object *)
Lemma enum_obj_rt st t dflt i : table_ok t = true -> (i < length t)%nat ->
  exists d, c_to (enum_codec st t dflt) (EObj i) = ROk d /\ xml_ok d = true /\ c_from (enum_codec st t dflt) d = ROk (EObj i).
Proof.
  intros T Hi. pose proof (member_ok_of t i T Hi) as M. unfold member_ok in M.
  destruct (nth_error t i) as [[n v]|] eqn:E; [|discriminate].
  apply andb_true_iff in M as [M Mn]. apply andb_true_iff in M as [Mx Mv].
  exists v. cbn. rewrite E. cbn. split; [reflexivity|]. split; [assumption|].
  unfold enum_from. destruct (enum_by_value t v) as [j|]; [|discriminate]. apply Nat.eqb_eq in Mv. now subst.
Qed.

(* by name: the name of member i is written and read back as member i *)
Lemma enum_name_rt st t dflt i n v : table_ok t = true -> nth_error t i = Some (n, v) ->
  c_to (enum_codec st t dflt) (EName n) = ROk v /\ xml_ok v = true /\ c_from (enum_codec st t dflt) v = ROk (EObj i)
  /\ enum_norm t (EName n) = EObj i.
Proof.
  intros T E. assert (Hi : (i < length t)%nat) by (apply nth_error_Some; congruence).
  pose proof (member_ok_of t i T Hi) as M. unfold member_ok in M. rewrite E in M.
  apply andb_true_iff in M as [M Mn]. apply andb_true_iff in M as [Mx Mv].
  destruct (enum_by_name t n) as [j|] eqn:En; [|discriminate]. apply Nat.eqb_eq in Mn. subst j.
  cbn. rewrite En, E. cbn. split; [reflexivity|]. split; [assumption|].
  unfold enum_from. destruct (enum_by_value t v) as [j|]; [|discriminate]. apply Nat.eqb_eq in Mv. subst. auto.
Qed.

(* assigning the default member, or (for enums whose members compare equal to their names) its name, elides *)
Lemma enum_default_isdef st t dflt : c_isdef (enum_codec st t dflt) (EObj dflt) = true.
Proof. cbn. apply Nat.eqb_refl. Qed.
Lemma enum_default_name_isdef t dflt n v : nth_error t dflt = Some (n, v) -> c_isdef (enum_codec true t dflt) (EName n) = true.
Proof. intro E. cbn. rewrite E. cbn. apply seqb_refl. Qed.

(* an unknown name is rejected (KeyError) and nothing changes *)
Lemma enum_bad_name st t dflt s : enum_by_name t s = None -> c_to (enum_codec st t dflt) (EName s) = RErr E_KeyError.
Proof. intro H. cbn. now rewrite H. Qed.

(* ------------------------------------------------------------------ Float *)
Section FloatP.
  Variable F : Type.
  Variable frepr : F -> str.
  Variable fparse : str -> option (fl F).
  Variable feq : F -> F -> bool.
  (* CPython: float(repr(x)) == x for finite x (shortest round-trip repr); its text is ASCII; "*" is not a number *)
  Hypothesis repr_rt : forall f, fparse (frepr f) = Some (FFin f).
  Hypothesis repr_ok : forall f, xml_ok (frepr f) = true.
  Hypothesis marker_nan : fparse src_float_inf_marker = None.

  Lemma repr_not_marker f : str_eqb (frepr f) src_float_inf_marker = false.
  Proof.
    destruct (str_eqb (frepr f) src_float_inf_marker) eqn:E; [|reflexivity].
    apply seqb_eq in E. pose proof (repr_rt f) as R. rewrite E, marker_nan in R. discriminate.
  Qed.

  Lemma float_fin_rt dflt f :
    exists d, c_to (float_codec F frepr fparse feq dflt) (FFin f) = ROk d /\ xml_ok d = true
              /\ c_from (float_codec F frepr fparse feq dflt) d = ROk (FFin f).
  Proof.
    exists (frepr f). cbn [c_to c_from float_codec float_to]. split; [reflexivity|]. split; [apply repr_ok|].
    unfold float_from. rewrite repr_not_marker, andb_false_r, repr_rt. reflexivity.
  Qed.

  (* +inf: written as the marker; read back as +inf exactly when _from_xml knows the marker *)
  Lemma float_inf_rt dflt : float_reads_marker = true ->
    exists d, c_to (float_codec F frepr fparse feq dflt) FPInf = ROk d /\ xml_ok d = true
              /\ c_from (float_codec F frepr fparse feq dflt) d = ROk FPInf.
  Proof.
    intro Hfix. exists src_float_inf_marker. cbn [c_to c_from float_codec float_to]. split; [reflexivity|]. split; [vm_compute; reflexivity|].
    unfold float_from. now rewrite Hfix, seqb_refl.
  Qed.
  Lemma float_inf_unreadable dflt : float_reads_marker = false ->
    c_from (float_codec F frepr fparse feq dflt) src_float_inf_marker = RErr E_ValueError.
  Proof. intro H. cbn [c_from float_codec]. unfold float_from. now rewrite H, marker_nan. Qed.

  Lemma float_nan_rejected dflt w a e : snd (pod_set (float_codec F frepr fparse feq dflt) w a e (Some FNaN)) <> None
                                        /\ fst (pod_set (float_codec F frepr fparse feq dflt) w a e (Some FNaN)) = e.
  Proof. unfold pod_set. destruct (negb w && attr_has a e); cbn; split; congruence. Qed.
  Lemma float_ninf_rejected dflt w a e : snd (pod_set (float_codec F frepr fparse feq dflt) w a e (Some FNInf)) <> None
                                        /\ fst (pod_set (float_codec F frepr fparse feq dflt) w a e (Some FNInf)) = e.
  Proof. unfold pod_set. destruct (negb w && attr_has a e); cbn; split; congruence. Qed.
End FloatP.

(* this tree reads the marker back *)
Lemma float_marker_is_read : float_reads_marker = true.
Proof. vm_compute. reflexivity. Qed.

(* ------------------------------------------------------------------ HTML *)
Section HtmlP.
  Variable repair : str -> str.
  Hypothesis repair_idem : forall h, repair (repair h) = repair h.
  Lemma html_rt dflt h : xml_ok (repair h) = true ->
    exists d, c_to (html_codec repair dflt) h = ROk d /\ xml_ok d = true /\ c_from (html_codec repair dflt) d = ROk (repair h).
  Proof. intro H. exists (repair h). cbn. auto. Qed.
  (* what is read back is a fixed point: assigning it again writes the same text *)
  Lemma html_stable dflt h : c_to (html_codec repair dflt) (repair h) = c_to (html_codec repair dflt) h.
  Proof. cbn. now rewrite repair_idem. Qed.
End HtmlP.

(* ------------------------------------------------------------------ Datetime *)
Ltac Zify.zify_post_hook ::= Z.to_euclidean_division_equations.

Lemma dig_48 k : k < 10 -> dig (48 + k) = Some k.
Proof. intro H. unfold dig. rewrite is_digit_48 by assumption. f_equal. lia. Qed.

Lemma rd2_pad2 x r : x < 100 -> rd2 (pad2 x ++ r) = Some (x, r).
Proof.
  intro H. unfold pad2, rd2. cbn [app]. rewrite !dig_48 by lia. do 2 f_equal. lia.
Qed.
Lemma rd2_pad2_nil x : x < 100 -> rd2 (pad2 x) = Some (x, []).
Proof. intro H. rewrite <- (app_nil_r (pad2 x)). now apply rd2_pad2. Qed.
Lemma rd3_pad3 x r : x < 1000 -> rd3 (pad3 x ++ r) = Some (x, r).
Proof.
  intro H. unfold pad3, rd3. cbn [app]. rewrite dig_48 by lia. rewrite rd2_pad2 by lia. do 2 f_equal. lia.
Qed.
Lemma rd4_pad4 x r : x < 10000 -> rd4 (pad4 x ++ r) = Some (x, r).
Proof.
  intro H. unfold pad4, rd4. rewrite <- app_assoc. rewrite rd2_pad2 by lia. rewrite rd2_pad2 by lia. do 2 f_equal. lia.
Qed.

Lemma rev_tail6 (P : str) a b c d e f : rev (P ++ [a; b; c; d; e; f]) = f :: e :: d :: c :: b :: a :: rev P.
Proof. rewrite rev_app_distr. reflexivity. Qed.
Lemma rev_tail5 (P : str) a b c d e : rev (P ++ [a; b; c; d; e]) = e :: d :: c :: b :: a :: rev P.
Proof. rewrite rev_app_distr. reflexivity. Qed.
Lemma rev_cons6 (P : str) a b c d e f : rev (f :: e :: d :: c :: b :: a :: rev P) = P ++ [a; b; c; d; e; f].
Proof. rewrite <- rev_tail6. apply rev_involutive. Qed.
Lemma rev_cons5 (P : str) a b c d e : rev (e :: d :: c :: b :: a :: rev P) = P ++ [a; b; c; d; e].
Proof. rewrite <- rev_tail5. apply rev_involutive. Qed.

(* the colon surgery: +HH:MM -> +HHMM on writing, and back on reading *)
Lemma re_set_offset (P : str) sg a b c e :
  is_sign sg = true -> is_digit a = true -> is_digit b = true -> is_digit c = true -> is_digit e = true ->
  re_set (P ++ [sg; a; b; 58; c; e]) = P ++ [sg; a; b; c; e].
Proof.
  intros Hs Ha Hb Hc He. unfold re_set. rewrite rev_tail6. cbn [re_set_rev]. rewrite He, Hc, Hb, Ha, Hs. cbn [andb].
  apply rev_cons5.
Qed.
Lemma re_get_offset (P : str) sg a b c e :
  is_sign sg = true -> is_digit a = true -> is_digit b = true -> is_digit c = true -> is_digit e = true ->
  re_get (P ++ [sg; a; b; c; e]) = P ++ [sg; a; b; 58; c; e].
Proof.
  intros Hs Ha Hb Hc He. unfold re_get. rewrite rev_tail5. cbn [re_get_rev]. rewrite He, Hc, Hb, Ha, Hs. cbn [andb].
  apply rev_cons6.
Qed.

Lemma iso_off_shape x : d_omin x < 1440 ->
  exists sg a b c e, iso_off x = [sg; a; b; 58; c; e] /\ is_sign sg = true /\ is_digit a = true /\ is_digit b = true
                     /\ is_digit c = true /\ is_digit e = true.
Proof.
  intro H. unfold iso_off. do 5 eexists. split; [reflexivity|].
  split; [destruct (d_oneg x); reflexivity|]. repeat split; apply is_digit_48; lia.
Qed.

Lemma re_get_set_iso x : d_omin x < 1440 -> re_get (re_set (iso_ms x)) = iso_ms x.
Proof.
  intro H. destruct (iso_off_shape x H) as (sg & a & b & c & e & E & Hs & Ha & Hb & Hc & He).
  unfold iso_ms. rewrite E. rewrite re_set_offset, re_get_offset by assumption. reflexivity.
Qed.

Lemma ltb_true a b : a < b -> (a <? b) = true. Proof. intro. now apply N.ltb_lt. Qed.
Lemma leb_true a b : a <= b -> (a <=? b) = true. Proof. intro. now apply N.leb_le. Qed.

Lemma parse_iso_ms x : dt_valid x -> parse_iso (iso_ms x) = Some (trunc_ms x).
Proof.
  unfold dt_valid. destruct x as [y mo d h mi s us nv ng om].
  cbn [d_y d_mo d_d d_h d_mi d_s d_us d_naive d_oneg d_omin].
  intros (Hy1 & Hy & Hmo1 & Hmo & Hd1 & Hd & Hh & Hmi & Hs & Hus & Hom & Hnv & Hneg).
  unfold parse_iso, iso_ms, iso_prefix, trunc_ms. cbn [d_y d_mo d_d d_h d_mi d_s d_us d_naive d_oneg d_omin]. unfold pad4 at 1.
  repeat (rewrite <- app_assoc || rewrite <- app_comm_cons).
  unfold rd4. rewrite rd2_pad2 by lia. rewrite rd2_pad2 by lia. cbn [bind expect]. rewrite N.eqb_refl. cbn [bind].
  replace (100 * (y / 100) + y mod 100) with y by lia.
  rewrite rd2_pad2 by lia. cbn [bind expect]. rewrite N.eqb_refl. cbn [bind].
  rewrite rd2_pad2 by lia. cbn [bind expect]. rewrite N.eqb_refl. cbn [bind].
  rewrite rd2_pad2 by lia. cbn [bind expect]. rewrite N.eqb_refl. cbn [bind].
  rewrite rd2_pad2 by lia. cbn [bind expect]. rewrite N.eqb_refl. cbn [bind].
  rewrite rd2_pad2 by lia. cbn [bind expect]. rewrite N.eqb_refl. cbn [bind].
  rewrite rd3_pad3 by lia. cbn [bind].
  unfold iso_off. cbn [d_oneg d_omin].
  change [48 + om / 60 / 10; 48 + (om / 60) mod 10; 58; 48 + (om mod 60) / 10; 48 + (om mod 60) mod 10]
    with (pad2 (om / 60) ++ 58 :: pad2 (om mod 60)).
  assert (Hsg : is_sign (if ng then 45 else 43) = true) by (destruct ng; reflexivity).
  rewrite Hsg. rewrite rd2_pad2 by lia. cbn [bind expect]. rewrite N.eqb_refl. cbn [bind]. rewrite rd2_pad2_nil by lia. cbn [bind].
  rewrite (leb_true 1 y), (leb_true 1 mo), (leb_true mo 12), (leb_true 1 d), (leb_true d 31),
          (ltb_true h 24), (ltb_true mi 60), (ltb_true s 60), (ltb_true (om mod 60) 60), (ltb_true (om / 60) 24) by lia.
  cbn [andb].
  assert (Hz : negb (((if ng then 45 else 43) =? 45) && (60 * (om / 60) + om mod 60 =? 0)) = true).
  { destruct ng; [|reflexivity]. specialize (Hneg eq_refl).
    destruct (N.eqb_spec (60 * (om / 60) + om mod 60) 0); [lia|reflexivity]. }
  rewrite Hz. subst nv. f_equal. f_equal.
  - destruct ng; reflexivity.
  - lia.
Qed.

Lemma xml_ok_ascii s : Forall (fun c => 32 <= c /\ c < 128) s -> xml_ok s = true.
Proof.
  unfold xml_ok. induction 1 as [|c s [A B] _ IH]; cbn [forallb]; [reflexivity|].
  rewrite cp_ok_low by lia. exact IH.
Qed.

Lemma xml_ok_iso x : dt_valid x -> xml_ok (re_set (iso_ms x)) = true.
Proof.
  intros (Hy1 & Hy & Hmo1 & Hmo & Hd1 & Hd & Hh & Hmi & Hs & Hus & Hom & Hnv & Hneg).
  unfold iso_ms, iso_off.
  rewrite re_set_offset; [| destruct (d_oneg x); reflexivity | apply is_digit_48; lia ..].
  apply xml_ok_ascii. apply Forall_app; split.
  - unfold iso_prefix, pad4, pad3, pad2. cbn [app].
    repeat (apply Forall_cons; [split; lia|]). apply Forall_nil.
  - repeat (apply Forall_cons; [split; try lia; destruct (d_oneg x); lia|]). apply Forall_nil.
Qed.

Lemma dt_rt x : dt_valid x ->
  exists d, c_to (dt_codec local_utc) x = ROk d /\ xml_ok d = true /\ c_from (dt_codec local_utc) d = ROk (trunc_ms x).
Proof.
  intro Hv. pose proof Hv as (_ & _ & _ & _ & _ & _ & _ & _ & _ & _ & Hom & Hnv & _).
  exists (re_set (iso_ms x)). cbn [c_to c_from dt_codec]. unfold dt_to, dt_from, localize. rewrite Hnv.
  split; [reflexivity|]. split; [now apply xml_ok_iso|].
  rewrite re_get_set_iso by assumption. now rewrite parse_iso_ms.
Qed.

(* a naive datetime takes the local zone's offset first; shown for the zone the harness runs in *)
Lemma dt_naive_rt (local : dt -> dt) x : d_naive x = true -> dt_valid (local x) ->
  exists d, c_to (dt_codec local) x = ROk d /\ xml_ok d = true /\ c_from (dt_codec local) d = ROk (trunc_ms (local x)).
Proof.
  intros Hn Hv. pose proof Hv as (_ & _ & _ & _ & _ & _ & _ & _ & _ & _ & Hom & Hnv & _).
  exists (re_set (iso_ms (local x))). cbn [c_to c_from dt_codec]. unfold dt_to, dt_from, localize. rewrite Hn.
  split; [reflexivity|]. split; [now apply xml_ok_iso|].
  rewrite re_get_set_iso by assumption. now rewrite parse_iso_ms.
Qed.

(* ------------------------------------------------------------------ attribute text on disk: escape, then read *)
Definition esc_char_ok (c : N) : bool :=
  match esc_body c with
  | Some b => negb (memN 59 b) && match decode_ent b with Some x => x =? c | None => false end
  | None => false
  end.
Definition esc_class_ok (cls : list N) : bool :=
  forallb esc_char_ok cls && forallb (fun c => memN c cls) [9; 10; 13; 34; 38; 60].

Lemma esc_class_ok_src : esc_class_ok src_esc_class = true.
Proof. vm_compute. reflexivity. Qed.

Lemma memN_In c l : memN c l = true <-> In c l.
Proof.
  unfold memN. rewrite existsb_exists. split.
  - intros (x & Hx & E). apply N.eqb_eq in E. now subst.
  - intro H. exists c. split; [assumption|apply N.eqb_refl].
Qed.

Lemma attr_rd_ent b : forall acc t, memN 59 b = false ->
  attr_rd (Some acc) (b ++ 59 :: t)
  = match decode_ent (rev acc ++ b) with Some x => option_map (cons x) (attr_rd None t) | None => None end.
Proof.
  induction b as [|c b IH]; intros acc t H.
  - cbn [app attr_rd]. rewrite N.eqb_refl, app_nil_r. reflexivity.
  - unfold memN in H. cbn [existsb] in H. apply orb_false_iff in H as [H1 H2].
    cbn [app attr_rd]. rewrite N.eqb_sym in H1. rewrite H1. rewrite IH by exact H2.
    cbn [rev]. rewrite <- app_assoc. reflexivity.
Qed.

Lemma escape_read_cls cls : esc_class_ok cls = true ->
  forall s, exists t, escape_with cls s = ROk t /\ attr_read t = Some s.
Proof.
  intros Hok. unfold esc_class_ok in Hok. apply andb_true_iff in Hok as [Hc Hm].
  rewrite forallb_forall in Hc.
  cbn [forallb] in Hm. repeat (apply andb_true_iff in Hm as [? Hm]).
  induction s as [|c s (t & Et & Rt)].
  - exists []. split; reflexivity.
  - cbn [escape_with]. rewrite Et. destruct (memN c cls) eqn:Mc.
    + assert (Hin : In c cls) by now apply memN_In. specialize (Hc c Hin). unfold esc_char_ok in Hc.
      destruct (esc_body c) as [b|]; [|discriminate]. apply andb_true_iff in Hc as [Hb Hd].
      apply negb_true_iff in Hb. destruct (decode_ent b) as [x|] eqn:Ed; [|discriminate]. apply N.eqb_eq in Hd. subst x.
      eexists. split; [reflexivity|]. unfold attr_read. cbn [attr_rd]. rewrite N.eqb_refl.
      rewrite attr_rd_ent by exact Hb. cbn [rev app]. rewrite Ed. unfold attr_read in Rt. rewrite Rt. reflexivity.
    + exists (c :: t). split; [reflexivity|]. unfold attr_read in *. cbn [attr_rd].
      destruct (N.eqb_spec c 38) as [->|_]; [congruence|].
      destruct (N.eqb_spec c 60) as [->|_]; [congruence|].
      destruct (N.eqb_spec c 34) as [->|_]; [congruence|].
      destruct (N.eqb_spec c 9) as [->|_]; [congruence|].
      destruct (N.eqb_spec c 10) as [->|_]; [congruence|].
      destruct (N.eqb_spec c 13) as [->|_]; [congruence|].
      cbn [orb]. rewrite Rt. reflexivity.
Qed.

Lemma escape_read s : exists t, escape_attr s = ROk t /\ attr_read t = Some s.
Proof. apply escape_read_cls. apply esc_class_ok_src. Qed.

(* ------------------------------------------------------------------ linked text *)
Lemma strip_prefix_app p s : strip_prefix p (p ++ s) = Some s.
Proof. induction p as [|x p IH]; cbn; [reflexivity|]. now rewrite N.eqb_refl. Qed.

Lemma lt_nodes_stored name_of l :
  lt_esc_nodes true (map (fun p => PA (Some (HLINK ++ fst p)) (name_of (fst p)) 0 (snd p)) l)
  = ROk (flat_map stored1 (flat_map (fun p => [FLink (fst p); FText (snd p)]) l)).
Proof.
  induction l as [|[id tl] l IH]; [reflexivity|].
  cbn [map lt_esc_nodes]. rewrite IH. cbn [lt_esc_node fst snd]. rewrite strip_prefix_app. cbn [Nat.eqb].
  cbn [flat_map app stored1]. rewrite <- !app_assoc. reflexivity.
Qed.

Lemma lt_escape_stored name_of (c : cdoc) :
  lt_escape true (fst c) (cdoc_nodes name_of c) = ROk (stored (cdoc_frags c)).
Proof.
  unfold lt_escape, cdoc_nodes, stored, cdoc_frags. rewrite lt_nodes_stored. cbn [rmap flat_map stored1]. reflexivity.
Qed.

Lemma lt_tail_needed : exists (c : cdoc),
  lt_escape false (fst c) (cdoc_nodes (fun _ => []) c) <> ROk (stored (cdoc_frags c)).
Proof. exists ([], [([120], [121])]). vm_compute. discriminate. Qed.

(* ------------------------------------------------------------------ the table of all descriptors *)
Definition default_shape_ok (r : pod_row) : bool :=
  match r_kind r, r_default r with
  | 0, VS _ | 1, VS _ | 7, VS _ | 4, VS _ => true
  | 2, VB _ => true
  | 3, VZ _ => true
  | 5, VNone => true
  | 6, VZ d => match enum_tab (r_enum r) with
               | Some (_, t) => (0 <=? d)%Z && (Z.to_nat d <? length t)%nat
               | None => false end
  | _, _ => false
  end.
Definition row_ok (r : pod_row) : bool :=
  (r_kind r <? 8) && default_shape_ok r && negb (str_eqb (r_attr r) []) && xml_ok (r_attr r).

Lemma rows_ok : forallb row_ok pod_rows = true.
Proof. vm_compute. reflexivity. Qed.

Lemma row_ok_of r : In r pod_rows -> row_ok r = true.
Proof. intro H. pose proof rows_ok as T. rewrite forallb_forall in T. now apply T. Qed.

Lemma enum_row_table r : In r pod_rows -> r_kind r = 6 ->
  exists st t d, enum_tab (r_enum r) = Some (st, t) /\ r_default r = VZ (Z.of_nat d) /\ (d < length t)%nat /\ table_ok t = true.
Proof.
  intros Hin Hk. pose proof (row_ok_of r Hin) as R. unfold row_ok in R.
  apply andb_true_iff in R as [R _]. apply andb_true_iff in R as [R _]. apply andb_true_iff in R as [_ R].
  unfold default_shape_ok in R. rewrite Hk in R.
  revert R. destruct (r_default r) as [d| | | | |]; cbv beta iota; try (intro; discriminate).
  destruct (enum_tab (r_enum r)) as [[st t]|] eqn:E; [|intro; discriminate]. intro R.
  apply andb_true_iff in R as [R1 R2]. apply Z.leb_le in R1. apply Nat.ltb_lt in R2.
  exists st, t, (Z.to_nat d). repeat split; try assumption.
  - now rewrite Z2Nat.id.
  - unfold enum_tab in E. destruct (nth_error enum_tabs (r_enum r)) as [[[nm st'] t']|] eqn:E'; [|discriminate].
    injection E as <- <-. apply nth_error_In in E'. apply (table_ok_of _ E').
Qed.

(* ------------------------------------------------------------------ algebra + codec, per kind *)
Lemma rok_inj {A} (x y : A) : ROk x = ROk y -> x = y.
Proof. congruence. Qed.

Lemma str_attr_rt dflt w a e s : xml_ok s = true -> s <> dflt -> may_write w a e ->
  pod_set (str_codec dflt) w a e (Some s) = (attr_set a s e, None)
  /\ pod_get (str_codec dflt) a (attr_set a s e) = ROk (Some s).
Proof.
  intros Hx Hd Hw. apply seqb_neq in Hd.
  destruct (alg_get_set str (str_codec dflt) (fun v => xml_ok v = true) (fun v => v)
              (fun v H1 H2 => str_rt dflt v H1 H2) w a e s Hx Hd Hw) as (d & Hs & _ & Ht & Hg).
  cbn in Ht. apply rok_inj in Ht. subst d. now split.
Qed.

Lemma bool_attr_rt dflt w a e b : b <> dflt -> may_write w a e ->
  exists d, pod_set (bool_codec dflt) w a e (Some b) = (attr_set a d e, None)
            /\ d = (if b then src_bool_true else src_bool_false)
            /\ pod_get (bool_codec dflt) a (attr_set a d e) = ROk (Some b).
Proof.
  intros Hd Hw. assert (Hi : c_isdef (bool_codec dflt) b = false) by (destruct b, dflt; cbn; congruence).
  destruct (alg_get_set bool (bool_codec dflt) (fun _ => True) (fun v => v)
              (fun v _ _ => bool_rt dflt v) w a e b I Hi Hw) as (d & Hs & _ & Ht & Hg).
  exists d. cbn in Ht. apply rok_inj in Ht. now repeat split.
Qed.

Lemma int_attr_rt dflt w a e z : z <> dflt -> may_write w a e ->
  pod_set (int_codec dflt) w a e (Some z) = (attr_set a (Z_dec z) e, None)
  /\ pod_get (int_codec dflt) a (attr_set a (Z_dec z) e) = ROk (Some z).
Proof.
  intros Hd Hw. assert (Hi : c_isdef (int_codec dflt) z = false) by (cbn; now apply Z.eqb_neq).
  destruct (alg_get_set Z (int_codec dflt) (fun _ => True) (fun v => v)
              (fun v _ _ => int_rt dflt v) w a e z I Hi Hw) as (d & Hs & _ & Ht & Hg).
  cbn in Ht. apply rok_inj in Ht. subst d. now split.
Qed.

Lemma enum_attr_rt st t dflt w a e i : table_ok t = true -> (i < length t)%nat -> i <> dflt -> may_write w a e ->
  exists d, pod_set (enum_codec st t dflt) w a e (Some (EObj i)) = (attr_set a d e, None)
            /\ option_map snd (nth_error t i) = Some d
            /\ pod_get (enum_codec st t dflt) a (attr_set a d e) = ROk (Some (EObj i)).
Proof.
  intros T Hi Hd Hw. assert (Hdef : c_isdef (enum_codec st t dflt) (EObj i) = false) by (cbn; now apply Nat.eqb_neq).
  destruct (alg_get_set ev (enum_codec st t dflt) (fun v => v = EObj i) (fun v => v)
              (fun v H1 _ => eq_ind_r (fun v => exists d, c_to _ v = ROk d /\ xml_ok d = true /\ c_from _ d = ROk v)
                                      (enum_obj_rt st t dflt i T Hi) H1)
              w a e (EObj i) eq_refl Hdef Hw) as (d & Hs & _ & Ht & Hg).
  exists d. repeat split; try assumption.
  cbn in Ht. destruct (nth_error t i) as [m|]; [|discriminate]. cbn. f_equal. now apply rok_inj in Ht.
Qed.

Lemma enum_name_attr_rt st t dflt w a e i n v : table_ok t = true -> nth_error t i = Some (n, v) ->
  c_isdef (enum_codec st t dflt) (EName n) = false -> may_write w a e ->
  pod_set (enum_codec st t dflt) w a e (Some (EName n)) = (attr_set a v e, None)
  /\ pod_get (enum_codec st t dflt) a (attr_set a v e) = ROk (Some (EObj i)).
Proof.
  intros T E Hdef Hw.
  destruct (enum_name_rt st t dflt i n v T E) as (Ht & Hx & Hf & _).
  unfold pod_set, pod_get. rewrite (may_write_guard _ _ _ Hw), Hdef, Ht, Hx, attr_get_set_same, Hf. now split.
Qed.

Lemma dt_attr_rt w a e x : dt_valid x -> may_write w a e ->
  exists d, pod_set (dt_codec local_utc) w a e (Some x) = (attr_set a d e, None)
            /\ c_to (dt_codec local_utc) x = ROk d
            /\ pod_get (dt_codec local_utc) a (attr_set a d e) = ROk (Some (trunc_ms x)).
Proof.
  intros Hv Hw.
  destruct (alg_get_set dt (dt_codec local_utc) dt_valid trunc_ms (fun v H _ => dt_rt v H) w a e x Hv eq_refl Hw)
    as (d & Hs & _ & Ht & Hg).
  exists d. now repeat split.
Qed.

Section FloatAttr.
  Variable F : Type.
  Variable frepr : F -> str.
  Variable fparse : str -> option (fl F).
  Variable feq : F -> F -> bool.
  Hypothesis repr_rt : forall f, fparse (frepr f) = Some (FFin f).
  Hypothesis repr_ok : forall f, xml_ok (frepr f) = true.
  Hypothesis marker_nan : fparse src_float_inf_marker = None.
  Let C := float_codec F frepr fparse feq.

  Lemma float_attr_rt dflt w a e f : feq f dflt = false -> may_write w a e ->
    pod_set (C dflt) w a e (Some (FFin f)) = (attr_set a (frepr f) e, None)
    /\ pod_get (C dflt) a (attr_set a (frepr f) e) = ROk (Some (FFin f)).
  Proof.
    intros Hd Hw.
    destruct (alg_get_set (fl F) (C dflt) (fun v => v = FFin f) (fun v => v)
                (fun v H1 _ => eq_ind_r (fun v => exists d, c_to _ v = ROk d /\ xml_ok d = true /\ c_from _ d = ROk v)
                                        (float_fin_rt F frepr fparse feq repr_rt repr_ok marker_nan dflt f) H1)
                w a e (FFin f) eq_refl Hd Hw) as (d & Hs & _ & Ht & Hg).
    cbn in Ht. apply rok_inj in Ht. subst d. now split.
  Qed.

  Lemma float_inf_attr_rt dflt w a e : may_write w a e ->
    pod_set (C dflt) w a e (Some FPInf) = (attr_set a src_float_inf_marker e, None)
    /\ pod_get (C dflt) a (attr_set a src_float_inf_marker e) = ROk (Some FPInf).
  Proof.
    intros Hw.
    destruct (alg_get_set (fl F) (C dflt) (fun v => v = FPInf) (fun v => v)
                (fun v H1 _ => eq_ind_r (fun v => exists d, c_to _ v = ROk d /\ xml_ok d = true /\ c_from _ d = ROk v)
                                        (float_inf_rt F frepr fparse feq dflt float_marker_is_read) H1)
                w a e FPInf eq_refl eq_refl Hw) as (d & Hs & _ & Ht & Hg).
    cbn in Ht. apply rok_inj in Ht. subst d. now split.
  Qed.
End FloatAttr.

Lemma attr_set_idem a d e : attr_set a d (attr_set a d e) = attr_set a d e.
Proof.
  induction e as [|[k v] r IH]; cbn.
  - now rewrite seqb_refl.
  - destruct (str_eqb k a) eqn:E; cbn; rewrite E; [reflexivity|]. now rewrite IH.
Qed.

Section HtmlAttr.
  Variable repair : str -> str.
  Lemma html_attr_rt dflt w a e h : xml_ok (repair h) = true -> h <> dflt -> may_write w a e ->
    pod_set (html_codec repair dflt) w a e (Some h) = (attr_set a (repair h) e, None)
    /\ pod_get (html_codec repair dflt) a (attr_set a (repair h) e) = ROk (Some (repair h)).
  Proof.
    intros Hx Hd Hw. apply seqb_neq in Hd.
    destruct (alg_get_set str (html_codec repair dflt) (fun v => xml_ok (repair v) = true) repair
                (fun v H1 _ => html_rt repair dflt v H1) w a e h Hx Hd Hw) as (d & Hs & _ & Ht & Hg).
    cbn in Ht. apply rok_inj in Ht. subst d. now split.
  Qed.
  (* with idempotent repair, assigning what was read back changes nothing *)
  Hypothesis repair_idem : forall h, repair (repair h) = repair h.
  Lemma html_reassign dflt a e h : xml_ok (repair h) = true -> repair h <> dflt ->
    pod_set (html_codec repair dflt) true a (attr_set a (repair h) e) (Some (repair h)) = (attr_set a (repair h) e, None).
  Proof.
    intros Hx Hd.
    destruct (html_attr_rt dflt true a (attr_set a (repair h) e) (repair h)) as [Hs _].
    - now rewrite repair_idem.
    - assumption.
    - now left.
    - rewrite Hs, repair_idem, attr_set_idem. reflexivity.
  Qed.
End HtmlAttr.
