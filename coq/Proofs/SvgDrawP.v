From Coq Require Import ZArith NArith QArith List Bool Lia Lqa.
Import ListNotations.
From V Require Import Model.Val Model.SvgTypes Model.SvgDraw.
Open Scope N_scope.

(* ------------------------------------------------------------------ strings *)
Lemma seqb_eq : forall a b, seqb a b = true <-> a = b.
Proof.
  induction a as [|x a IH]; intros [|y b]; cbn; split; intro H; try reflexivity; try discriminate.
  - destruct (x =? y) eqn:E; [|discriminate]. apply N.eqb_eq in E. apply IH in H. now subst.
  - injection H as -> ->. rewrite N.eqb_refl. now apply IH.
Qed.
Lemma seqb_refl a : seqb a a = true.
Proof. now apply seqb_eq. Qed.
Lemma mem_str_In : forall s l, mem_str s l = true <-> In s l.
Proof.
  intros s l. unfold mem_str. rewrite existsb_exists. split.
  - intros [x [Hx He]]. apply seqb_eq in He. now subst.
  - intro H. exists s. split; [assumption|apply seqb_refl].
Qed.
Lemma subset_str_incl : forall a b, subset_str a b = true <-> incl a b.
Proof.
  induction a as [|x a IH]; intro b; cbn.
  - split; [intros _ y []|reflexivity].
  - destruct (mem_str x b) eqn:E.
    + rewrite IH. apply mem_str_In in E. split.
      * intros H y [<-|Hy]; [assumption|now apply H].
      * intros H y Hy. apply H. now right.
    + split; [discriminate|]. intro H. assert (In x b) by (apply H; now left).
      apply mem_str_In in H0. congruence.
Qed.

(* ------------------------------------------------------------------ groups *)
Section Groups.
  Variable T : tables.
  Variable dc : str.

  Definition grp (o : jobj) : option str * str := (o_id o, group_class o).

  Lemma place_groups st o d st' : place T st o d = Some st' -> d_groups st' = d_groups st ++ [grp o].
  Proof.
    unfold place. destruct d as [d|]; [|discriminate].
    destruct (fold_left (need_deco T) (dr_syms d) (Some (d_cache st))); [|discriminate].
    intro H. injection H as <-. reflexivity.
  Qed.

  Lemma fold_none objs :
    fold_left (fun st o => match st with None => None | Some st => draw_obj T dc st o end) objs None = None.
  Proof. induction objs; [reflexivity|assumption]. Qed.

  Lemma draw_all_from objs : forall st st',
    fold_left (fun st o => match st with None => None | Some st => draw_obj T dc st o end) objs (Some st) = Some st' ->
    d_groups st' = d_groups st ++ map grp objs.
  Proof.
    induction objs as [|o r IH]; intros st st' H; cbn in H.
    - injection H as <-. now rewrite app_nil_r.
    - destruct (draw_obj T dc st o) as [st1|] eqn:E; [|now rewrite fold_none in H].
      apply IH in H. rewrite H. unfold draw_obj in E. apply place_groups in E. rewrite E.
      now rewrite <- app_assoc.
  Qed.

  (* one group per drawn object, in order, carrying its id and "<Kind> <class> context-..." *)
  Theorem draw_all_groups objs st : draw_all T dc objs = Some st -> d_groups st = map grp objs.
  Proof. intro H. apply draw_all_from in H. exact H. Qed.
End Groups.

(* the group class attribute starts with the kind word, a blank, and the element's style class *)
Lemma group_class_shape o :
  exists rest, group_class o = kind_word (o_kind o) ++ 32 :: o_class o ++ rest.
Proof. unfold group_class. eexists. reflexivity. Qed.

(* ------------------------------------------------------------------ hidden elements *)
Lemma encode_contents_spec els :
  encode_contents els = map e_obj (filter (fun e => negb (elem_hidden e)) els).
Proof. reflexivity. Qed.

Lemma encode_in els o :
  In o (encode_contents els) <-> exists e, In e els /\ elem_hidden e = false /\ e_obj e = o.
Proof.
  unfold encode_contents. rewrite in_map_iff. split.
  - intros [e [He Hin]]. apply filter_In in Hin as [Hin Hv]. exists e. repeat split; try assumption.
    now apply negb_true_iff in Hv.
  - intros [e [Hin [Hv He]]]. exists e. split; [assumption|]. apply filter_In. split; [assumption|].
    now rewrite Hv.
Qed.

(* a box below a hidden or collapsed ancestor, an edge with a hidden end: hidden *)
Lemma hidden_by_ancestor e h c rest1 rest2 :
  e_anc e = rest1 ++ (h, c) :: rest2 -> h || c = true -> elem_hidden e = true.
Proof.
  intros Ha Hh. unfold elem_hidden. assert (anc_hidden (e_anc e) = true) as ->.
  { unfold anc_hidden. apply existsb_exists. exists (h, c). split; [rewrite Ha; apply in_elt|exact Hh]. }
  now rewrite orb_true_r.
Qed.
Lemma hidden_by_end e h a :
  In (h, a) (e_ends e) -> h || anc_hidden a = true -> elem_hidden e = true.
Proof.
  intros Hin Hh. unfold elem_hidden. assert (existsb (fun ha => fst ha || anc_hidden (snd ha)) (e_ends e) = true) as ->.
  { apply existsb_exists. exists (h, a). now split. }
  now rewrite orb_true_r.
Qed.

(* ------------------------------------------------------------------ viewBox arithmetic *)
(* int() truncation of a rational *)
Lemma quot_bounds_nonneg n d : (0 <= n)%Z -> (Z.quot n (Zpos d) * Zpos d <= n < (Z.quot n (Zpos d) + 1) * Zpos d)%Z.
Proof.
  intro H. rewrite Z.quot_div_nonneg by lia. pose proof (Z.div_mod n (Zpos d) ltac:(lia)).
  pose proof (Z.mod_pos_bound n (Zpos d) ltac:(lia)). nia.
Qed.
Lemma quot_bounds_neg n d : (n <= 0)%Z -> ((Z.quot n (Zpos d) - 1) * Zpos d < n <= Z.quot n (Zpos d) * Zpos d)%Z.
Proof.
  intro H. pose proof (quot_bounds_nonneg (- n) d ltac:(lia)) as B.
  rewrite Z.quot_opp_l in B by lia. nia.
Qed.

(* _intround with the constant 1/2: within 1/2 of the value for val >= -1/2 (round half up), and
   never further than 3/2 away (negative values are truncated towards zero after the shift) *)
Lemma intround_half_nonneg q : (-(1#2) <= q)%Q ->
  (inject_Z (intround_with (1#2) q) <= q + (1#2) /\ q - (1#2) < inject_Z (intround_with (1#2) q))%Q.
Proof.
  intro H. unfold intround_with. remember (q + (1#2))%Q as s eqn:Es.
  assert (0 <= s)%Q as Hs by (rewrite Es; lra).
  assert (0 <= Qnum s)%Z as Hn by (unfold Qle in Hs; cbn in Hs; lia).
  pose proof (quot_bounds_nonneg (Qnum s) (Qden s) Hn) as [B1 B2].
  set (k := Z.quot (Qnum s) (Zpos (Qden s))) in *.
  assert (inject_Z k <= s)%Q as L1 by (unfold Qle; cbn; lia).
  assert (s < inject_Z k + 1)%Q as L2.
  { setoid_replace (inject_Z k + 1)%Q with (inject_Z (k + 1)) by (rewrite inject_Z_plus; reflexivity).
    unfold Qlt; cbn; lia. }
  rewrite Es in *. split; lra.
Qed.
Lemma intround_half_any q :
  (q - (3#2) < inject_Z (intround_with (1#2) q) /\ inject_Z (intround_with (1#2) q) < q + (3#2))%Q.
Proof.
  unfold intround_with. remember (q + (1#2))%Q as s eqn:Es. set (k := Z.quot (Qnum s) (Zpos (Qden s))).
  destruct (Z_le_gt_dec 0 (Qnum s)) as [Hn|Hn].
  - pose proof (quot_bounds_nonneg (Qnum s) (Qden s) Hn) as [B1 B2]. fold k in B1, B2.
    assert (inject_Z k <= s)%Q as L1 by (unfold Qle; cbn; lia).
    assert (s < inject_Z k + 1)%Q as L2.
    { setoid_replace (inject_Z k + 1)%Q with (inject_Z (k + 1)) by (rewrite inject_Z_plus; reflexivity).
      unfold Qlt; cbn; lia. }
    rewrite Es in *. split; lra.
  - pose proof (quot_bounds_neg (Qnum s) (Qden s) ltac:(lia)) as [B1 B2]. fold k in B1, B2.
    assert (s <= inject_Z k)%Q as L1 by (unfold Qle; cbn; lia).
    assert (inject_Z k - 1 < s)%Q as L2.
    { setoid_replace (inject_Z k - 1)%Q with (inject_Z (k - 1)) by (unfold Zminus; rewrite inject_Z_plus; reflexivity).
      unfold Qlt; cbn; lia. }
    rewrite Es in *. split; lra.
Qed.
Lemma intround_int c z : (0 <= c)%Q -> (c < 1)%Q -> intround_with c (inject_Z z) = z \/ (z < 0)%Z.
Proof.
  intros H0 H1. destruct (Z_lt_ge_dec z 0) as [Hz|Hz]; [now right|left].
  unfold intround_with. remember (inject_Z z + c)%Q as s eqn:Es.
  assert (inject_Z z <= s)%Q as L1 by (rewrite Es; lra).
  assert (s < inject_Z z + 1)%Q as L2 by (rewrite Es; lra).
  assert (0 <= Qnum s)%Z as Hn.
  { assert (0 <= s)%Q as Hs. { assert (0 <= inject_Z z)%Q by (unfold Qle; cbn; lia). lra. }
    unfold Qle in Hs; cbn in Hs; lia. }
  pose proof (quot_bounds_nonneg (Qnum s) (Qden s) Hn) as [B1 B2].
  set (k := Z.quot (Qnum s) (Zpos (Qden s))) in *.
  unfold Qle in L1. cbn in L1.
  setoid_replace (inject_Z z + 1)%Q with (inject_Z (z + 1)) in L2 by (rewrite inject_Z_plus; reflexivity).
  unfold Qlt in L2. cbn in L2. nia.
Qed.

(* ------------------------------------------------------------------ reference closure of whole drawings *)
Lemma incl_flat_map {A B} (f : A -> list B) (l1 l2 : list A) : incl l1 l2 -> incl (flat_map f l1) (flat_map f l2).
Proof.
  intros H y Hy. apply in_flat_map in Hy as [x [Hx Hy]]. apply in_flat_map. exists x. split; [now apply H|assumption].
Qed.

Section Closure.
  Variable T : tables.

  (* the deco cache is closed under declared dependencies *)
  Definition cache_closed (c : list str) : Prop := forall n, In n c -> incl (row_deps T n) c.

  Definition dstep (f : nat) : option (list str) -> str -> option (list str) :=
    fun c d => match c with
               | None => None
               | Some c => if mem_str d c then Some c else add_deco f T d c
               end.
  Lemma dstep_none f ds : fold_left (dstep f) ds None = None.
  Proof. induction ds; [reflexivity|assumption]. Qed.

  Definition deco_ok (f : nat) : Prop := forall name c c',
    add_deco f T name c = Some c' -> cache_closed c -> cache_closed c' /\ incl c c' /\ In name c'.

  Lemma dstep_fold f : deco_ok f -> forall ds c c1,
    fold_left (dstep f) ds (Some c) = Some c1 -> cache_closed c ->
    cache_closed c1 /\ incl c c1 /\ incl ds c1.
  Proof.
    intros IHf. induction ds as [|d ds IH]; intros c c1 H Hc; cbn [fold_left] in H.
    - injection H as <-. repeat split; [assumption|apply incl_refl|intros x []].
    - unfold dstep at 2 in H. destruct (mem_str d c) eqn:E.
      + destruct (IH c c1 H Hc) as [H1 [H2 H3]]. repeat split; try assumption.
        intros x [<-|Hx]; [apply H2; now apply mem_str_In|now apply H3].
      + destruct (add_deco f T d c) as [c2|] eqn:E2; [|now rewrite dstep_none in H].
        destruct (IHf d c c2 E2 Hc) as [K1 [K2 K3]].
        destruct (IH c2 c1 H K1) as [H1 [H2 H3]]. repeat split; try assumption.
        * eapply incl_tran; eassumption.
        * intros x [<-|Hx]; [now apply H2|now apply H3].
  Qed.

  Lemma add_deco_ok : forall f, deco_ok f.
  Proof.
    induction f as [|f IHf]; intros name c c' H Hc; cbn [add_deco] in H; [discriminate|].
    destruct (sym_row T name) as [r|] eqn:Er; [|discriminate].
    change (fold_left _ (sy_deps r) (Some c)) with (fold_left (dstep f) (sy_deps r) (Some c)) in H.
    destruct (fold_left (dstep f) (sy_deps r) (Some c)) as [c1|] eqn:Ef; [|discriminate].
    injection H as <-. destruct (dstep_fold f IHf _ _ _ Ef Hc) as [H1 [H2 H3]]. repeat split.
    - intros n Hn. apply in_app_or in Hn as [Hn|[<-|[]]].
      + apply incl_appl. now apply H1.
      + unfold row_deps. rewrite Er. now apply incl_appl.
    - now apply incl_appl.
    - apply in_or_app. right. now left.
  Qed.

  Lemma need_deco_ok c n c' : need_deco T (Some c) n = Some c' -> cache_closed c ->
    cache_closed c' /\ incl c c' /\ In n c'.
  Proof.
    unfold need_deco. destruct (mem_str n c) eqn:E.
    - intro H. injection H as <-. intro Hc. repeat split; [assumption|apply incl_refl|now apply mem_str_In].
    - apply add_deco_ok.
  Qed.
  Lemma need_none ns : fold_left (need_deco T) ns None = None.
  Proof. induction ns; [reflexivity|assumption]. Qed.
  Lemma need_fold : forall ns c c', fold_left (need_deco T) ns (Some c) = Some c' -> cache_closed c ->
    cache_closed c' /\ incl c c' /\ incl ns c'.
  Proof.
    induction ns as [|n ns IH]; intros c c' H Hc; cbn [fold_left] in H.
    - injection H as <-. repeat split; [assumption|apply incl_refl|intros x []].
    - destruct (need_deco T (Some c) n) as [c1|] eqn:E; [|now rewrite need_none in H].
      destruct (need_deco_ok _ _ _ E Hc) as [K1 [K2 K3]]. destruct (IH _ _ H K1) as [H1 [H2 H3]].
      repeat split; [assumption|eapply incl_tran; eassumption|].
      intros x [<-|Hx]; [now apply H2|now apply H3].
  Qed.

  (* every symbol (registered or the Error fallback): references inside it are ids inside it or inside
     a declared dependency *)
  Definition tab_closed : Prop :=
    forall n, incl (row_refs T n) (row_ids T n ++ flat_map (row_ids T) (row_deps T n)).
  (* what one object writes refers only to gradients / markers it deploys itself and to the symbols it requests *)
  Definition obj_closed (dc : str) (o : jobj) : bool :=
    match draw1 T dc o with
    | Some d => subset_str (dr_refs d) (dr_defs d ++ flat_map (row_ids T) (dr_syms d))
    | None => false
    end.

  Definition inv (st : dstate) : Prop :=
    cache_closed (d_cache st) /\ incl (d_refs st) (d_defs st ++ flat_map (row_ids T) (d_cache st)).

  Lemma draw_obj_inv dc st o st' : draw_obj T dc st o = Some st' -> obj_closed dc o = true -> inv st -> inv st'.
  Proof.
    unfold draw_obj, place, obj_closed. destruct (draw1 T dc o) as [d|]; [|discriminate].
    destruct (fold_left (need_deco T) (dr_syms d) (Some (d_cache st))) as [c'|] eqn:E; [|discriminate].
    intros H Ho [I1 I2]. injection H as <-. cbn [d_cache d_refs d_defs].
    destruct (need_fold _ _ _ E I1) as [H1 [H2 H3]]. apply subset_str_incl in Ho. split; [assumption|].
    apply incl_app.
    - intros x Hx. apply I2 in Hx. apply in_app_or in Hx as [Hx|Hx].
      + apply in_or_app. left. apply in_or_app. now left.
      + apply in_or_app. right. exact (incl_flat_map (row_ids T) _ _ H2 x Hx).
    - intros x Hx. apply Ho in Hx. apply in_app_or in Hx as [Hx|Hx].
      + apply in_or_app. left. apply in_or_app. now right.
      + apply in_or_app. right. exact (incl_flat_map (row_ids T) _ _ H3 x Hx).
  Qed.

  Lemma draw_all_inv dc : forall objs st st',
    fold_left (fun st o => match st with None => None | Some st => draw_obj T dc st o end) objs (Some st) = Some st' ->
    forallb (obj_closed dc) objs = true -> inv st -> inv st'.
  Proof.
    induction objs as [|o r IH]; intros st st' H Ho Hi; cbn in H.
    - now injection H as <-.
    - cbn in Ho. apply andb_true_iff in Ho as [Ho1 Ho2].
      destruct (draw_obj T dc st o) as [st1|] eqn:E; [|now rewrite fold_none in H].
      eapply IH; [eassumption|assumption|]. eapply draw_obj_inv; eassumption.
  Qed.

  (* whole drawings, any number of elements in any order *)
  Theorem draw_all_closed dc objs st :
    tab_closed -> forallb (obj_closed dc) objs = true -> draw_all T dc objs = Some st ->
    incl (doc_refs T st) (doc_defs T st).
  Proof.
    intros Ht Ho H. assert (inv st) as [I1 I2].
    { eapply draw_all_inv; [exact H|exact Ho|]. split; [intros n []|intros x []]. }
    unfold doc_refs, doc_defs. apply incl_app; [exact I2|].
    intros x Hx. apply in_flat_map in Hx as [n [Hn Hx]]. apply Ht in Hx. apply in_or_app. right.
    apply in_app_or in Hx as [Hx|Hx].
    - apply in_flat_map. now exists n.
    - exact (incl_flat_map (row_ids T) _ _ (I1 n Hn) x Hx).
  Qed.

  (* the per-object condition does not look at the id or the context of the object *)
  Lemma obj_closed_ext dc o o' :
    o_kind o = o_kind o' -> o_class o = o_class o' -> o_over o = o_over o' -> o_label o = o_label o' ->
    o_nfloat o = o_nfloat o' -> o_nfeat o = o_nfeat o' -> obj_closed dc o = obj_closed dc o'.
  Proof.
    destruct o, o'; cbn. intros -> -> -> -> -> ->. reflexivity.
  Qed.

  (* the table condition follows from the per-row check *)
  Definition row_local_closedP (r : symbol_row) : bool :=
    subset_str (sy_refs r) (sy_ids r ++ flat_map (row_ids T) (sy_deps r)).
  Lemma tab_closed_from_rows : forallb row_local_closedP (t_symbols T) = true -> tab_closed.
  Proof.
    intros H n. unfold row_refs, row_ids at 1, row_deps. destruct (sym_row T n) as [r|] eqn:E; [|intros x []].
    assert (In r (t_symbols T)) as Hr.
    { unfold sym_row in E. destruct (find_symbol T n) as [r'|] eqn:E1.
      - injection E as <-. unfold find_symbol in E1. now apply find_some in E1.
      - unfold find_symbol in E. now apply find_some in E. }
    rewrite forallb_forall in H. specialize (H r Hr). now apply subset_str_incl.
  Qed.
End Closure.
