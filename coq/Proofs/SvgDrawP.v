From Coq Require Import ZArith NArith QArith List Bool Lia Lqa.
Import ListNotations.
From V Require Import Model.Val Model.SvgTypes Model.SvgDraw.
Open Scope N_scope.

(* ------------------------------------------------------------------ strings *)
Lemma seqb_eq : forall a b, seqb a b = true <-> a = b.
Proof.
  induction a as [|x a IH]; intros [|y b]; cbn; split; intro H; try reflexivity; try discriminate.
  - destruct (x =? y) eqn:E; [|discriminate]. apply N.eqb_eq in E. apply IH in H. now subst.
  - injection H as -> ->. rewrite N.eqb_refl. now apply IH.
Qed.
Lemma seqb_refl a : seqb a a = true.
Proof. now apply seqb_eq. Qed.
Lemma mem_str_In : forall s l, mem_str s l = true <-> In s l.
Proof.
  intros s l. unfold mem_str. rewrite existsb_exists. split.
  - intros [x [Hx He]]. apply seqb_eq in He. now subst.
  - intro H. exists s. split; [assumption|apply seqb_refl].
Qed.
Lemma subset_str_incl : forall a b, subset_str a b = true <-> incl a b.
Proof.
  induction a as [|x a IH]; intro b; cbn.
  - split; [intros _ y []|reflexivity].
  - destruct (mem_str x b) eqn:E.
    + rewrite IH. apply mem_str_In in E. split.
      * intros H y [<-|Hy]; [assumption|now apply H].
      * intros H y Hy. apply H. now right.
    + split; [discriminate|]. intro H. assert (In x b) by (apply H; now left).
      apply mem_str_In in H0. congruence.
Qed.

(* ------------------------------------------------------------------ groups *)
Section Groups.
  Variable T : tables.
  Variable dc : str.

  Definition grp (o : jobj) : option str * str := (o_id o, group_class o).

  Lemma place_groups st o d st' : place T st o d = Some st' -> d_groups st' = d_groups st ++ [grp o].
  Proof.
    unfold place. destruct d as [d|]; [|discriminate].
    destruct (fold_left (need_deco T) (dr_syms d) (Some (d_cache st))); [|discriminate].
    intro H. injection H as <-. reflexivity.
  Qed.

  Lemma fold_none objs :
    fold_left (fun st o => match st with None => None | Some st => draw_obj T dc st o end) objs None = None.
  Proof. induction objs; [reflexivity|assumption]. Qed.

  Lemma draw_all_from objs : forall st st',
    fold_left (fun st o => match st with None => None | Some st => draw_obj T dc st o end) objs (Some st) = Some st' ->
    d_groups st' = d_groups st ++ map grp objs.
  Proof.
    induction objs as [|o r IH]; intros st st' H; cbn in H.
    - injection H as <-. now rewrite app_nil_r.
    - destruct (draw_obj T dc st o) as [st1|] eqn:E; [|now rewrite fold_none in H].
      apply IH in H. rewrite H. unfold draw_obj in E. apply place_groups in E. rewrite E.
      now rewrite <- app_assoc.
  Qed.

  (* one group per drawn object, in order, carrying its id and "<Kind> <class> context-..." *)
  Theorem draw_all_groups objs st : draw_all T dc objs = Some st -> d_groups st = map grp objs.
  Proof. intro H. apply draw_all_from in H. exact H. Qed.
End Groups.

(* the group class attribute starts with the kind word, a blank, and the element's style class *)
Lemma group_class_shape o :
  exists rest, group_class o = kind_word (o_kind o) ++ 32 :: o_class o ++ rest.
Proof. unfold group_class. eexists. reflexivity. Qed.

(* ------------------------------------------------------------------ hidden elements *)
Lemma encode_contents_spec els :
  encode_contents els = map e_obj (filter (fun e => negb (elem_hidden e)) els).
Proof. reflexivity. Qed.

Lemma encode_in els o :
  In o (encode_contents els) <-> exists e, In e els /\ elem_hidden e = false /\ e_obj e = o.
Proof.
  unfold encode_contents. rewrite in_map_iff. split.
  - intros [e [He Hin]]. apply filter_In in Hin as [Hin Hv]. exists e. repeat split; try assumption.
    now apply negb_true_iff in Hv.
  - intros [e [Hin [Hv He]]]. exists e. split; [assumption|]. apply filter_In. split; [assumption|].
    now rewrite Hv.
Qed.

(* a box below a hidden or collapsed ancestor, an edge with a hidden end: hidden *)
Lemma hidden_by_ancestor e h c rest1 rest2 :
  e_anc e = rest1 ++ (h, c) :: rest2 -> h || c = true -> elem_hidden e = true.
Proof.
  intros Ha Hh. unfold elem_hidden. assert (anc_hidden (e_anc e) = true) as ->.
  { unfold anc_hidden. apply existsb_exists. exists (h, c). split; [rewrite Ha; apply in_elt|exact Hh]. }
  now rewrite orb_true_r.
Qed.
Lemma hidden_by_end e h a :
  In (h, a) (e_ends e) -> h || anc_hidden a = true -> elem_hidden e = true.
Proof.
  intros Hin Hh. unfold elem_hidden. assert (existsb (fun ha => fst ha || anc_hidden (snd ha)) (e_ends e) = true) as ->.
  { apply existsb_exists. exists (h, a). now split. }
  now rewrite orb_true_r.
Qed.

(* ------------------------------------------------------------------ viewBox arithmetic *)
(* int() truncation of a rational *)
Lemma quot_bounds_nonneg n d : (0 <= n)%Z -> (Z.quot n (Zpos d) * Zpos d <= n < (Z.quot n (Zpos d) + 1) * Zpos d)%Z.
Proof.
  intro H. rewrite Z.quot_div_nonneg by lia. pose proof (Z.div_mod n (Zpos d) ltac:(lia)).
  pose proof (Z.mod_pos_bound n (Zpos d) ltac:(lia)). nia.
Qed.
Lemma quot_bounds_neg n d : (n <= 0)%Z -> ((Z.quot n (Zpos d) - 1) * Zpos d < n <= Z.quot n (Zpos d) * Zpos d)%Z.
Proof.
  intro H. pose proof (quot_bounds_nonneg (- n) d ltac:(lia)) as B.
  rewrite Z.quot_opp_l in B by lia. nia.
Qed.

(* _intround with the constant 1/2: within 1/2 of the value for val >= -1/2 (round half up), and
   never further than 3/2 away (negative values are truncated towards zero after the shift) *)
Lemma intround_half_nonneg q : (-(1#2) <= q)%Q ->
  (inject_Z (intround_with (1#2) q) <= q + (1#2) /\ q - (1#2) < inject_Z (intround_with (1#2) q))%Q.
Proof.
  intro H. unfold intround_with. remember (q + (1#2))%Q as s eqn:Es.
  assert (0 <= s)%Q as Hs by (rewrite Es; lra).
  assert (0 <= Qnum s)%Z as Hn by (unfold Qle in Hs; cbn in Hs; lia).
  pose proof (quot_bounds_nonneg (Qnum s) (Qden s) Hn) as [B1 B2].
  set (k := Z.quot (Qnum s) (Zpos (Qden s))) in *.
  assert (inject_Z k <= s)%Q as L1 by (unfold Qle; cbn; lia).
  assert (s < inject_Z k + 1)%Q as L2.
  { setoid_replace (inject_Z k + 1)%Q with (inject_Z (k + 1)) by (rewrite inject_Z_plus; reflexivity).
    unfold Qlt; cbn; lia. }
  rewrite Es in *. split; lra.
Qed.
Lemma intround_half_any q :
  (q - (3#2) < inject_Z (intround_with (1#2) q) /\ inject_Z (intround_with (1#2) q) < q + (3#2))%Q.
Proof.
  unfold intround_with. remember (q + (1#2))%Q as s eqn:Es. set (k := Z.quot (Qnum s) (Zpos (Qden s))).
  destruct (Z_le_gt_dec 0 (Qnum s)) as [Hn|Hn].
  - pose proof (quot_bounds_nonneg (Qnum s) (Qden s) Hn) as [B1 B2]. fold k in B1, B2.
    assert (inject_Z k <= s)%Q as L1 by (unfold Qle; cbn; lia).
    assert (s < inject_Z k + 1)%Q as L2.
    { setoid_replace (inject_Z k + 1)%Q with (inject_Z (k + 1)) by (rewrite inject_Z_plus; reflexivity).
      unfold Qlt; cbn; lia. }
    rewrite Es in *. split; lra.
  - pose proof (quot_bounds_neg (Qnum s) (Qden s) ltac:(lia)) as [B1 B2]. fold k in B1, B2.
    assert (s <= inject_Z k)%Q as L1 by (unfold Qle; cbn; lia).
    assert (inject_Z k - 1 < s)%Q as L2.
    { setoid_replace (inject_Z k - 1)%Q with (inject_Z (k - 1)) by (unfold Zminus; rewrite inject_Z_plus; reflexivity).
      unfold Qlt; cbn; lia. }
    rewrite Es in *. split; lra.
Qed.
Lemma intround_int c z : (0 <= c)%Q -> (c < 1)%Q -> intround_with c (inject_Z z) = z \/ (z < 0)%Z.
Proof.
  intros H0 H1. destruct (Z_lt_ge_dec z 0) as [Hz|Hz]; [now right|left].
  unfold intround_with. remember (inject_Z z + c)%Q as s eqn:Es.
  assert (inject_Z z <= s)%Q as L1 by (rewrite Es; lra).
  assert (s < inject_Z z + 1)%Q as L2 by (rewrite Es; lra).
  assert (0 <= Qnum s)%Z as Hn.
  { assert (0 <= s)%Q as Hs. { assert (0 <= inject_Z z)%Q by (unfold Qle; cbn; lia). lra. }
    unfold Qle in Hs; cbn in Hs; lia. }
  pose proof (quot_bounds_nonneg (Qnum s) (Qden s) Hn) as [B1 B2].
  set (k := Z.quot (Qnum s) (Zpos (Qden s))) in *.
  unfold Qle in L1. cbn in L1.
  setoid_replace (inject_Z z + 1)%Q with (inject_Z (z + 1)) in L2 by (rewrite inject_Z_plus; reflexivity).
  unfold Qlt in L2. cbn in L2. nia.
Qed.
