(* Proofs about Model/GeomEdge.v: where default routes and snapped edge ends lie. *)
From Coq Require Import QArith Qabs Qminmax ZArith NArith List Bool Lqa.
Import ListNotations.
From V Require Import Model.Val Model.Geom Model.GeomEdge Gen.GeomConsts Proofs.GeomP.
Open Scope Q_scope.

Definition extremity (l : list (Q * Q)) : Q * Q := last l (0, 0).
Definition origin (l : list (Q * Q)) : Q * Q := hd (0, 0) l.

Lemma route_manhattan_ends src tgt :
  0 <= bw src -> 0 <= bh src -> 0 <= bw tgt -> 0 <= bh tgt ->
  exists l, route_manhattan src tgt = LOk l /\ on_outline src (origin l) /\ on_outline tgt (extremity l).
Proof.
  intros H1 H2 H3 H4. unfold route_manhattan.
  destruct (manhattan_sound src (center src) (vsub (center src) (center tgt)) H1 H2) as (sp & Es & Os).
  destruct (manhattan_sound tgt (center tgt) (vsub (center tgt) (center src)) H3 H4) as (tp & Et & Ot).
  rewrite Es, Et.
  destruct (Qlt_b (Qabs (snd sp - snd tp)) (Qabs (fst sp - fst tp))); eexists; (split; [reflexivity|]); split; assumption.
Qed.

Lemma route_tree_ends src tgt :
  0 <= bw src -> 0 <= bh src -> 0 <= bw tgt -> 0 <= bh tgt ->
  on_outline src (origin (route_tree src tgt)) /\ on_outline tgt (extremity (route_tree src tgt)).
Proof.
  intros H1 H2 H3 H4. unfold route_tree, origin, extremity, center, half. cbn [hd last fst snd].
  split; left; cbn [fst snd].
  - destruct (Qlt_b (by_ tgt + bh tgt * (1 # 2)) (by_ src + bh src * (1 # 2))); cbn [b2q];
      repeat split; try lra; (left; lra) || (right; lra).
  - destruct (Qlt_b (by_ src + bh src * (1 # 2)) (by_ tgt + bh tgt * (1 # 2))); cbn [b2q];
      repeat split; try lra; (left; lra) || (right; lra).
Qed.

Lemma edge_snap_manhattan_end tgt pi pn :
  0 <= bw tgt -> 0 <= bh tgt ->
  exists l, edge_snap_manhattan tgt pi pn = LOk l /\ on_outline tgt (extremity l).
Proof.
  intros H1 H2. unfold edge_snap_manhattan. cbn [vector_snap].
  match goal with |- context [snap_manhattan tgt ?p ?d] => destruct (manhattan_sound tgt p d H1 H2) as (e & E & O); rewrite E end.
  repeat match goal with |- context [if ?c then _ else _] => destruct c end;
    eexists; (split; [reflexivity|]); exact O.
Qed.

(* tree: when the snap keeps the end's x (always so for a non-port box) the new extremity is the snapped point *)
Lemma edge_snap_tree_partial tgt pi pn :
  veqb (vsub pi pn) (0, 0) = false ->
  exists e, vector_snap Tree tgt pi pn = Ok e /\ on_tree_side tgt pi e
            /\ (isclose (fst e) (fst pi) = true -> edge_snap_tree tgt pi pn = LOk [e]).
Proof.
  intros Hd. cbn [vector_snap]. destruct (tree_partial tgt pi (vsub pi pn) Hd) as (e & E & O).
  exists e. split; [exact E|]. split; [exact O|]. intros C. unfold edge_snap_tree. cbn [vector_snap]. now rewrite E, C.
Qed.

Lemma isclose_refl a : isclose a a = true.
Proof.
  unfold isclose, REL_TOL. apply Qle_bool_iff.
  setoid_replace (a - a) with 0 by ring. rewrite Qabs_pos by lra.
  pose proof (Qabs_nonneg a). pose proof (Q.le_max_l (Qabs a) (Qabs a)).
  assert (0 <= Qmax (Qabs a) (Qabs a)) by lra. nra.
Qed.

(* a box that is not a port: the tree snap never moves x, so the end is always the snapped point *)
Lemma edge_snap_tree_nonport tgt pi pn :
  bport tgt = false -> veqb (vsub pi pn) (0, 0) = false ->
  exists e, edge_snap_tree tgt pi pn = LOk [e] /\ on_tree_side tgt pi e.
Proof.
  intros Hp Hd. unfold edge_snap_tree. cbn [vector_snap]. unfold snap_tree. rewrite Hd, Hp.
  destruct (tree_bottom tgt pi (vsub pi pn)); cbn [fst]; rewrite isclose_refl; eexists; (split; [reflexivity|]);
    unfold on_tree_side; rewrite Hp; cbn [fst snd]; split; try reflexivity; (left; lra) || (right; lra).
Qed.
