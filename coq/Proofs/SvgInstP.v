(* C18 / facts about the tables regenerated from the tree under check: proved by evaluation over the
   finite tables (the bound is the table itself), lifted to statements with forallb_forall. *)
From Coq Require Import ZArith NArith QArith List Bool Lia.
Import ListNotations.
From V Require Import Model.Val Model.SvgTypes Model.SvgDraw Model.SvgInst Gen.SvgTables Proofs.SvgDrawP.
Open Scope N_scope.

(* stated on the unfolded form: the kernel must never be asked to convert the closed term
   [all_closed] other than by the VM *)
Lemma all_closed_true : forallb closed_dc diagram_classes = true.
Proof. vm_cast_no_check (eq_refl true). Qed.

Lemma packed_mk kc sh ov : packed_class (mk_obj kc sh ov) = packed_class (mk_obj kc (false, O, O) []).
Proof. reflexivity. Qed.
Lemma closed1_d_eq dc kc sh ov : closed1_d (dfl_of dc kc) (mk_obj kc sh ov) = closed1 dc (mk_obj kc sh ov).
Proof. unfold closed1, closed1_d, draw_obj, draw1, dfl_of. rewrite (packed_mk kc sh ov). reflexivity. Qed.

Theorem refs_closed_all_lemma : forall dc kc sh ov,
  In dc diagram_classes -> In kc (kinds_classes dc) -> In sh (shapes_of (fst kc)) -> In ov override_menu ->
  closed1 dc (mk_obj kc sh ov) = true.
Proof.
  intros dc kc sh ov Hdc Hkc Hsh Hov.
  pose proof (proj1 (forallb_forall closed_dc diagram_classes) all_closed_true dc Hdc) as H1.
  pose proof (proj1 (forallb_forall (closed_kc dc) (kinds_classes dc)) H1 kc Hkc) as H2.
  pose proof (proj1 (forallb_forall (closed_sh (dfl_of dc kc) kc) (shapes_of (fst kc))) H2 sh Hsh) as H3.
  pose proof (proj1 (forallb_forall (fun ov => closed1_d (dfl_of dc kc) (mk_obj kc sh ov)) override_menu) H3 ov Hov) as H4.
  rewrite <- closed1_d_eq. exact H4.
Qed.

(* a closed single-object drawing, spelled out: every referenced id is defined *)
Corollary refs_closed_all_incl : forall dc kc sh ov st,
  In dc diagram_classes -> In kc (kinds_classes dc) -> In sh (shapes_of (fst kc)) -> In ov override_menu ->
  draw_obj TBL dc st0 (mk_obj kc sh ov) = Some st -> incl (doc_refs TBL st) (doc_defs TBL st).
Proof.
  intros dc kc sh ov st Hdc Hkc Hsh Hov Hd.
  pose proof (refs_closed_all_lemma dc kc sh ov Hdc Hkc Hsh Hov) as H. unfold closed1 in H. rewrite Hd in H.
  now apply subset_str_incl.
Qed.
(* ... and drawing never raises on the domain *)
Corollary draws_all : forall dc kc sh ov,
  In dc diagram_classes -> In kc (kinds_classes dc) -> In sh (shapes_of (fst kc)) -> In ov override_menu ->
  draw_obj TBL dc st0 (mk_obj kc sh ov) <> None.
Proof.
  intros dc kc sh ov Hdc Hkc Hsh Hov Hd.
  pose proof (refs_closed_all_lemma dc kc sh ov Hdc Hkc Hsh Hov) as H. unfold closed1 in H. rewrite Hd in H. discriminate.
Qed.

Definition symbol_ok (r : symbol_row) : bool := row_local_closed TBL r && row_id_ok r.
Lemma symbols_ok_true : forallb symbol_ok SYMBOLS = true.
Proof. vm_cast_no_check (eq_refl true). Qed.

(* every registered symbol: its id is its registry key, and every reference inside it is to an id
   inside itself or inside one of its declared dependencies *)
Theorem symbol_registry_closed_lemma : forall r, In r SYMBOLS ->
  sy_id r = sy_key r /\ In (sy_key r) (sy_ids r) /\
  incl (sy_refs r) (sy_ids r ++ flat_map (row_ids TBL) (sy_deps r)).
Proof.
  intros r Hr. pose proof (proj1 (forallb_forall symbol_ok SYMBOLS) symbols_ok_true r Hr) as H.
  unfold symbol_ok in H. apply andb_true_iff in H as [H1 H2]. unfold row_id_ok in H2. apply andb_true_iff in H2 as [H2 H3].
  repeat split.
  - now apply seqb_eq.
  - now apply mem_str_In.
  - now apply subset_str_incl.
Qed.

(* ---- whole drawings built from elements of the domain ---- *)
Lemma all_obj_closed_true : forallb oclosed_dc diagram_classes = true.
Proof. vm_cast_no_check (eq_refl true). Qed.
Lemma rows_closed_true : forallb (row_local_closedP TBL) SYMBOLS = true.
Proof. vm_cast_no_check (eq_refl true). Qed.

Lemma obj_closed_d_eq dc kc sh ov : obj_closed_d (dfl_of dc kc) (mk_obj kc sh ov) = obj_closed TBL dc (mk_obj kc sh ov).
Proof. unfold obj_closed, obj_closed_d, draw1, dfl_of. rewrite (packed_mk kc sh ov). reflexivity. Qed.

Lemma obj_closed_domain : forall dc kc sh ov,
  In dc diagram_classes -> In kc (kinds_classes dc) -> In sh (shapes_of (fst kc)) -> In ov override_menu ->
  obj_closed TBL dc (mk_obj kc sh ov) = true.
Proof.
  intros dc kc sh ov Hdc Hkc Hsh Hov.
  pose proof (proj1 (forallb_forall oclosed_dc diagram_classes) all_obj_closed_true dc Hdc) as H1.
  pose proof (proj1 (forallb_forall (oclosed_kc dc) (kinds_classes dc)) H1 kc Hkc) as H2.
  pose proof (proj1 (forallb_forall (oclosed_sh (dfl_of dc kc) kc) (shapes_of (fst kc))) H2 sh Hsh) as H3.
  pose proof (proj1 (forallb_forall (fun ov => obj_closed_d (dfl_of dc kc) (mk_obj kc sh ov)) override_menu) H3 ov Hov) as H4.
  rewrite <- obj_closed_d_eq. exact H4.
Qed.

(* an element of the domain: kind, class, shape and override as enumerated; id and context are free *)
Definition in_domain (dc : str) (o : jobj) : Prop :=
  exists kc sh ov, In kc (kinds_classes dc) /\ In sh (shapes_of (fst kc)) /\ In ov override_menu /\
    o_kind o = fst kc /\ o_class o = snd kc /\ o_over o = ov /\
    o_label o = fst (fst sh) /\ o_nfloat o = snd (fst sh) /\ o_nfeat o = snd sh.

Lemma domain_objs_closed dc objs : In dc diagram_classes -> Forall (in_domain dc) objs ->
  forallb (obj_closed TBL dc) objs = true.
Proof.
  intros Hdc H. induction H as [|o r Ho Hr IH]; [reflexivity|]. cbn [forallb]. rewrite IH, andb_true_r.
  destruct Ho as [kc [sh [ov [Hkc [Hsh [Hov [E1 [E2 [E3 [E4 [E5 E6]]]]]]]]]]].
  rewrite (obj_closed_ext TBL dc o (mk_obj kc sh ov)); [now apply obj_closed_domain|..]; assumption.
Qed.

Theorem diagram_refs_closed_lemma : forall dc els st,
  In dc diagram_classes -> Forall (fun e => in_domain dc (e_obj e)) els ->
  draw_all TBL dc (encode_contents els) = Some st -> incl (doc_refs TBL st) (doc_defs TBL st).
Proof.
  intros dc els st Hdc Hd H. apply (draw_all_closed TBL dc (encode_contents els) st).
  - apply tab_closed_from_rows. exact rows_closed_true.
  - apply domain_objs_closed; [assumption|]. unfold encode_contents. apply Forall_map.
    apply Forall_forall. intros e He. apply filter_In in He as [He _]. rewrite Forall_forall in Hd. now apply Hd.
  - exact H.
Qed.

(* the padding is one margin on every side *)
Lemma padding_symmetric : PAD_POS_X = PAD_POS_Y /\ PAD_SIZE_X = (-2 * PAD_POS_X)%Z /\ PAD_SIZE_Y = (-2 * PAD_POS_Y)%Z
  /\ (PAD_POS_X = -10)%Z /\ INTROUND_ADD = (1#2).
Proof. repeat split. Qed.
