(* Proofs about Model/DeclSync.v: a second run of a well-formed sync document changes nothing *)
From Coq Require Import ZArith NArith List Bool Lia.
Import ListNotations.
From V Require Import Model.Val Model.DeclSync.

Lemma seq_refl s : str_eqb s s = true.
Proof. induction s as [|c s IH]; cbn; [reflexivity|]. now rewrite N.eqb_refl, IH. Qed.
Lemma seq_true a b : str_eqb a b = true -> a = b.
Proof.
  revert b; induction a as [|x a IH]; intros [|y b]; cbn; intro H; try congruence.
  apply andb_true_iff in H as [H1 H2]. apply N.eqb_eq in H1. apply IH in H2. congruence.
Qed.
Lemma seq_false_neq a b : str_eqb a b = false -> a <> b.
Proof. intros H ->. now rewrite seq_refl in H. Qed.

Scheme entry_mut := Induction for entry Sort Prop
  with entries_mut := Induction for entries Sort Prop
  with sgroups_mut := Induction for sgroups Sort Prop.
Combined Scheme sync_syntax_ind from entry_mut, entries_mut, sgroups_mut.

(* ------------------------------------------------------------------ attribute lists *)
Lemma get_app_l k a b : has_key k a = true -> get k (a ++ b) = get k a.
Proof.
  induction a as [|[k' v] a IH]; cbn; [discriminate|]. destruct (str_eqb k k'); cbn; auto.
Qed.
Lemma get_app_r k a b : has_key k a = false -> get k (a ++ b) = get k b.
Proof.
  induction a as [|[k' v] a IH]; cbn; [reflexivity|]. destruct (str_eqb k k'); cbn; [discriminate|auto].
Qed.
Lemma has_key_app {B} k (a b : list (str * B)) : has_key k (a ++ b) = has_key k a || has_key k b.
Proof. induction a as [|[k' v] a IH]; cbn; [reflexivity|]. now rewrite IH, orb_assoc. Qed.

Lemma get_in_nodup k v l : nodup_keys l = true -> In (k, v) l -> get k l = v /\ has_key k l = true.
Proof.
  induction l as [|[k' v'] l IH]; cbn; [tauto|]. intros ND [[= -> ->]|Hin].
  - now rewrite seq_refl.
  - apply andb_true_iff in ND as [N1 N2]. destruct (IH N2 Hin) as [G H]. destruct (str_eqb k k') eqn:E.
    + apply seq_true in E. subst k'. rewrite H in N1. discriminate.
    + cbn. auto.
Qed.

Lemma set_attr_noop k v l : has_key k l = true -> get k l = v -> set_attr k v l = l.
Proof.
  induction l as [|[k' v'] l IH]; cbn; [discriminate|]. destruct (str_eqb k k') eqn:E; cbn.
  - intros _ G. now rewrite G.
  - intros H G. now rewrite IH.
Qed.
Lemma get_set_attr_same k v l : get k (set_attr k v l) = v /\ has_key k (set_attr k v l) = true.
Proof.
  induction l as [|[k' v'] l IH]; cbn; [now rewrite seq_refl|]. destruct (str_eqb k k') eqn:E; cbn; rewrite E; cbn; auto.
Qed.
Lemma get_set_attr_other k k' v l : str_eqb k k' = false ->
  get k (set_attr k' v l) = get k l /\ has_key k (set_attr k' v l) = has_key k l.
Proof.
  intro N. induction l as [|[k2 v2] l IH]; cbn; [now rewrite N|].
  destruct (str_eqb k' k2) eqn:E; cbn.
  - apply seq_true in E. subst k2. now rewrite N.
  - destruct (str_eqb k k2); cbn; auto.
Qed.
Lemma str_eqb_sym a b : str_eqb a b = str_eqb b a.
Proof.
  destruct (str_eqb a b) eqn:E.
  - apply seq_true in E. subst. now rewrite seq_refl.
  - destruct (str_eqb b a) eqn:E2; [|reflexivity]. apply seq_true in E2. subst. now rewrite seq_refl in E.
Qed.

Lemma set_attrs_cons k v s l : set_attrs ((k, v) :: s) l = set_attrs s (set_attr k v l).
Proof. reflexivity. Qed.

Lemma get_set_attrs_other k s : forall l, has_key k s = false ->
  get k (set_attrs s l) = get k l /\ has_key k (set_attrs s l) = has_key k l.
Proof.
  induction s as [|[k' v] s IH]; intros l H; [auto|].
  cbn [has_key] in H. apply orb_false_iff in H as [H1 H2]. rewrite set_attrs_cons.
  destruct (IH (set_attr k' v l) H2) as [A B].
  destruct (get_set_attr_other k k' v l H1) as [C D]. now rewrite A, B, C, D.
Qed.

Lemma get_set_attrs_in k v s : forall l, nodup_keys s = true -> In (k, v) s ->
  get k (set_attrs s l) = v /\ has_key k (set_attrs s l) = true.
Proof.
  induction s as [|[k' v'] s IH]; intros l ND Hin; [destruct Hin|].
  cbn [nodup_keys] in ND. apply andb_true_iff in ND as [N1 N2]. rewrite set_attrs_cons.
  destruct Hin as [[= -> ->]|Hin].
  - apply negb_true_iff in N1. destruct (get_set_attrs_other k s (set_attr k v l) N1) as [A B].
    rewrite A, B. apply get_set_attr_same.
  - now apply IH.
Qed.

Lemma set_attrs_noop s l : (forall k v, In (k, v) s -> has_key k l = true /\ get k l = v) -> set_attrs s l = l.
Proof.
  induction s as [|[k v] s IH]; intro H; [reflexivity|]. rewrite set_attrs_cons.
  destruct (H k v (or_introl eq_refl)) as [A B]. rewrite (set_attr_noop k v l A B). apply IH.
  intros k' v' Hin. apply H. now right.
Qed.

Lemma set_attrs_idem s l : nodup_keys s = true -> set_attrs s (set_attrs s l) = set_attrs s l.
Proof.
  intro ND. apply set_attrs_noop. intros k v Hin. destruct (get_set_attrs_in k v s l ND Hin). auto.
Qed.

Lemma disjoint_keys_spec a b : disjoint_keys a b = true -> forall k v, In (k, v) a -> has_key k b = false.
Proof.
  unfold disjoint_keys. rewrite forallb_forall. intros H k v Hin. specialize (H (k, v) Hin). now apply negb_true_iff in H.
Qed.
Lemma has_key_in {B} k (l : list (str * B)) : has_key k l = true -> exists v, In (k, v) l.
Proof.
  induction l as [|[k' v] l IH]; cbn; [discriminate|]. destruct (str_eqb k k') eqn:E; cbn.
  - apply seq_true in E. subst. eauto.
  - intro H. destruct (IH H) as [v' Hv]. eauto.
Qed.
Lemma in_has_key {B} k (v : B) l : In (k, v) l -> has_key k l = true.
Proof.
  induction l as [|[k' v'] l IH]; cbn; [tauto|]. intros [[= -> ->]|H]; [now rewrite seq_refl|]. rewrite (IH H). apply orb_true_r.
Qed.
Lemma disjoint_keys_rev a b : disjoint_keys a b = true -> forall k, has_key k b = true -> has_key k a = false.
Proof.
  intros D k Hb. destruct (has_key k a) eqn:E; [|reflexivity]. destruct (has_key_in _ _ E) as [v Hv].
  rewrite (disjoint_keys_spec _ _ D k v Hv) in Hb. discriminate.
Qed.

(* ------------------------------------------------------------------ child lists *)
Lemma get_set_kids_same a l k : get_kids a (set_kids a l k) = l.
Proof. induction k as [|[a' x] k IH]; cbn; [now rewrite seq_refl|]. destruct (str_eqb a a') eqn:E; cbn; rewrite E; auto. Qed.
Lemma get_set_kids_other a a' l k : str_eqb a a' = false -> get_kids a (set_kids a' l k) = get_kids a k.
Proof.
  intro N. induction k as [|[a2 x] k IH]; cbn; [now rewrite N|]. destruct (str_eqb a' a2) eqn:E; cbn.
  - apply seq_true in E. subst. now rewrite N.
  - destruct (str_eqb a a2); auto.
Qed.
Lemma has_set_kids_same a l k : has_key a (set_kids a l k) = true.
Proof. induction k as [|[a' x] k IH]; cbn; [now rewrite seq_refl|]. destruct (str_eqb a a') eqn:E; cbn; rewrite E; auto. Qed.
Lemma has_set_kids_mono a a' l k : has_key a k = true -> has_key a (set_kids a' l k) = true.
Proof.
  induction k as [|[a2 x] k IH]; cbn; [discriminate|]. destruct (str_eqb a' a2) eqn:E; cbn.
  - auto.
  - destruct (str_eqb a a2); cbn; auto.
Qed.
Lemma set_kids_noop a k : has_key a k = true -> set_kids a (get_kids a k) k = k.
Proof.
  induction k as [|[a' x] k IH]; cbn; [discriminate|]. destruct (str_eqb a a') eqn:E; cbn; [reflexivity|].
  intro H. now rewrite IH.
Qed.

(* ------------------------------------------------------------------ sync_groups touches child lists only *)
Lemma sg_shape g : forall a k x', sync_groups g (Obj a k) = Some x' ->
  o_attrs x' = a /\ forall b, sync_groups g (Obj b k) = Some (Obj b (o_kids x')).
Proof.
  induction g as [|at_ es r IH]; intros a k x' H.
  - injection H as <-. cbn. auto.
  - cbn [sync_groups o_kids o_attrs] in *. destruct (sync_entries es (get_kids at_ k)) as [l'|]; [|discriminate].
    destruct (IH _ _ _ H) as [A B]. auto.
Qed.

Lemma sg_other_kids g : forall x x' a, sync_groups g x = Some x' -> mem_str a (group_attrs g) = false ->
  get_kids a (o_kids x') = get_kids a (o_kids x) /\ (has_key a (o_kids x) = true -> has_key a (o_kids x') = true).
Proof.
  induction g as [|at_ es r IH]; intros x x' a H M.
  - injection H as <-. auto.
  - cbn [sync_groups] in H. destruct (sync_entries es (get_kids at_ (o_kids x))) as [l'|]; [|discriminate].
    cbn [group_attrs mem_str] in M. apply orb_false_iff in M as [M1 M2].
    destruct (IH _ _ a H M2) as [A B]. cbn [o_kids] in A, B. split.
    + rewrite A. now apply get_set_kids_other.
    + intro Hk. apply B. now apply has_set_kids_mono.
Qed.

(* ------------------------------------------------------------------ matching *)
Lemma matches_ext f a k a' k' : (forall kv, In kv f -> get (fst kv) a = get (fst kv) a') ->
  matches f (Obj a k) = matches f (Obj a' k').
Proof.
  intro H. unfold matches. cbn [o_attrs]. induction f as [|kv f IH]; cbn; [reflexivity|].
  rewrite (H kv (or_introl eq_refl)). f_equal. apply IH. intros kv' Hin. apply H. now right.
Qed.
Lemma matches_name f x : has_key NAME f = true -> nodup_keys f = true -> matches f x = true ->
  get NAME (o_attrs x) = get NAME f.
Proof.
  intros HK ND M. destruct (has_key_in _ _ HK) as [v Hv]. destruct (get_in_nodup _ _ _ ND Hv) as [G _].
  unfold matches in M. rewrite forallb_forall in M. specialize (M _ Hv). cbn in M. apply seq_true in M. congruence.
Qed.

Lemma count_zero_none f l : count_matches f l = O -> forall x, In x l -> matches f x = false.
Proof.
  unfold count_matches. intros H x Hin. destruct (matches f x) eqn:E; [|reflexivity].
  assert (In x (filter (matches f) l)) by (apply filter_In; auto).
  destruct (filter (matches f) l); [contradiction|discriminate].
Qed.
Lemma count_app f a b : count_matches f (a ++ b) = (count_matches f a + count_matches f b)%nat.
Proof. unfold count_matches. now rewrite filter_app, app_length. Qed.

(* ------------------------------------------------------------------ mapM *)
Lemma mapM_id {A} (f : A -> option A) l : (forall x, In x l -> f x = Some x) -> mapM f l = Some l.
Proof.
  induction l as [|x l IH]; intro H; cbn; [reflexivity|]. rewrite (H x (or_introl eq_refl)), IH; auto.
  intros y Hy. apply H. now right.
Qed.
Lemma mapM_forall2 {A B} (f : A -> option B) l l' : mapM f l = Some l' -> Forall2 (fun x y => f x = Some y) l l'.
Proof.
  revert l'. induction l as [|x l IH]; intros l' H; cbn in H.
  - injection H as <-. constructor.
  - destruct (f x) as [y|] eqn:E; [|discriminate]. destruct (mapM f l) as [r|]; [|discriminate].
    injection H as <-. constructor; auto.
Qed.

Lemma Forall2_impl {A B} (P Q : A -> B -> Prop) l l' : (forall x y, P x y -> Q x y) -> Forall2 P l l' -> Forall2 Q l l'.
Proof. intros H F. induction F; constructor; auto. Qed.

(* ------------------------------------------------------------------ an entry is "stable" on a list:
   it finds exactly one candidate and re-applying it to that candidate changes nothing *)
Definition upd (e : entry) (x : obj) : option obj :=
  match sync_groups (e_nested e) x with
  | Some x' => Some (Obj (set_attrs (e_set e) (o_attrs x')) (o_kids x'))
  | None => None
  end.
Definition stable (e : entry) (l : list obj) : Prop :=
  count_matches (e_find e) l = 1%nat /\ forall x, In x l -> matches (e_find e) x = true -> upd e x = Some x.

Lemma stable_fixed e l : stable e l -> sync_entry e l = Some l.
Proof.
  destruct e as [f s g]. intros [C H]. cbn [sync_entry]. cbn [e_find] in C. rewrite C.
  apply mapM_id. intros x Hin. destruct (matches f x) eqn:M; [|reflexivity].
  specialize (H x Hin M). unfold upd in H. cbn [e_nested e_set] in H. exact H.
Qed.

(* elementwise relation that keeps an entry stable *)
Lemma stable_forall2 e l l1 :
  Forall2 (fun x y => matches (e_find e) y = matches (e_find e) x /\ (matches (e_find e) x = true -> y = x)) l l1 ->
  stable e l -> stable e l1.
Proof.
  intros F [C H]. split.
  - rewrite <- C. unfold count_matches. clear C H. induction F as [|x y l l1 [A B] F IH]; cbn; [reflexivity|].
    rewrite A. destruct (matches (e_find e) x); cbn; now rewrite IH.
  - clear C. induction F as [|x y l l1 [A B] F IH]; [intros ? []|].
    intros z [<-|Hz] M.
    + rewrite A in M. rewrite (B M). apply H; [now left|exact M].
    + apply IH; auto. intros w Hw. apply H. now right.
Qed.

Definition ename (e : entry) : str := get NAME (e_find e).

(* Lemma B: applying an entry with a different name keeps [e] stable *)
Lemma stable_step e e' l l1 : wf_entry e = true -> wf_entry e' = true -> str_eqb (ename e) (ename e') = false ->
  sync_entry e' l = Some l1 -> stable e l -> stable e l1.
Proof.
  destruct e as [f s g]. destruct e' as [f' s' g']. unfold ename. cbn [e_find wf_entry].
  intros W W' N H S.
  apply andb_true_iff in W as [W Wg]. apply andb_true_iff in W as [W Wd]. apply andb_true_iff in W as [W Ws].
  apply andb_true_iff in W as [Wk Wf].
  apply andb_true_iff in W' as [W' Wg']. apply andb_true_iff in W' as [W' Wd']. apply andb_true_iff in W' as [W' Ws'].
  apply andb_true_iff in W' as [Wk' Wf'].
  assert (NM : forall x, get NAME (o_attrs x) = get NAME f' -> matches f x = false).
  { intros x G. destruct (matches f x) eqn:M; [|reflexivity].
    pose proof (matches_name f x Wk Wf M) as G2. rewrite G in G2. rewrite <- G2, seq_refl in N. discriminate. }
  cbn [sync_entry] in H. destruct (count_matches f' l) as [|[|c]] eqn:C; [| |discriminate].
  - destruct (sync_groups g' (Obj (f' ++ s') [])) as [nw|] eqn:G; [|discriminate]. injection H as <-.
    destruct (sg_shape _ _ _ _ G) as [A _].
    assert (Mn : matches f nw = false).
    { apply NM. rewrite A. now apply get_app_l. }
    destruct S as [SC SH]. split.
    + cbn [e_find] in *. rewrite count_app, SC. unfold count_matches. cbn. now rewrite Mn.
    + intros x Hx M. apply in_app_or in Hx. destruct Hx as [Hx|[<-|[]]]; [now apply SH|].
      cbn [e_find] in M. congruence.
  - apply mapM_forall2 in H. eapply stable_forall2; [|exact S]. cbn [e_find].
    eapply Forall2_impl; [|exact H]. intros x y Hxy. cbn beta in Hxy.
    destruct (matches f' x) eqn:M'.
    + destruct x as [a k]. destruct (sync_groups g' (Obj a k)) as [x'|] eqn:G; [|discriminate].
      injection Hxy as <-. destruct (sg_shape _ _ _ _ G) as [A _].
      pose proof (matches_name f' (Obj a k) Wk' Wf' M') as Gn. cbn [o_attrs] in Gn.
      assert (M1 : matches f (Obj a k) = false) by (apply NM; exact Gn).
      assert (M2 : matches f (Obj (set_attrs s' (o_attrs x')) (o_kids x')) = false).
      { apply NM. cbn [o_attrs]. rewrite A.
        rewrite (proj1 (get_set_attrs_other NAME s' a (disjoint_keys_rev _ _ Wd' NAME Wk'))). exact Gn. }
      rewrite M1, M2. split; [reflexivity|discriminate].
    + injection Hxy as <-. auto.
Qed.

Lemma stable_steps e : wf_entry e = true -> forall r l l', wf_entries r = true ->
  mem_str (ename e) (entry_names r) = false -> sync_entries r l = Some l' -> stable e l -> stable e l'.
Proof.
  intros W r. induction r as [|e' r IH]; intros l l' Wr M H S.
  - injection H as <-. exact S.
  - cbn [sync_entries] in H. destruct (sync_entry e' l) as [l1|] eqn:E; [|discriminate].
    cbn [wf_entries] in Wr. apply andb_true_iff in Wr as [W' Wr].
    cbn [entry_names mem_str] in M. apply orb_false_iff in M as [M1 M2].
    eapply IH; [exact Wr|exact M2|exact H|]. eapply stable_step; [exact W|exact W'|exact M1|exact E|exact S].
Qed.

(* ------------------------------------------------------------------ the mutual induction *)
Definition P_entry (e : entry) : Prop :=
  wf_entry e = true -> forall l l1, sync_entry e l = Some l1 -> stable e l1.
Definition P_entries (es : entries) : Prop :=
  wf_entries es = true -> nodup_strs (entry_names es) = true ->
  forall l l', sync_entries es l = Some l' -> sync_entries es l' = Some l'.
Definition P_groups (g : sgroups) : Prop :=
  wf_groups g = true -> forall x x', sync_groups g x = Some x' -> sync_groups g x' = Some x'.

Lemma entry_establishes f s g : P_groups g -> P_entry (Entry f s g).
Proof.
  intros IHg W l l1 H. cbn [wf_entry] in W.
  apply andb_true_iff in W as [W Wg]. apply andb_true_iff in W as [W Wd]. apply andb_true_iff in W as [W Ws].
  apply andb_true_iff in W as [Wk Wf]. specialize (IHg Wg).
  assert (KEEP : forall a, forall kv, In kv f -> get (fst kv) (set_attrs s a) = get (fst kv) a).
  { intros a [k v] Hin. cbn. apply get_set_attrs_other. apply (disjoint_keys_rev _ _ Wd). now apply in_has_key with v. }
  cbn [sync_entry] in H. destruct (count_matches f l) as [|[|c]] eqn:C; [| |discriminate].
  - destruct (sync_groups g (Obj (f ++ s) [])) as [nw|] eqn:G; [|discriminate]. injection H as <-.
    destruct (sg_shape _ _ _ _ G) as [A _]. destruct nw as [an kn]. cbn [o_attrs] in A. subst an.
    assert (Mn : matches f (Obj (f ++ s) kn) = true).
    { unfold matches. apply forallb_forall. intros [k v] Hin. cbn [fst snd o_attrs].
      destruct (get_in_nodup _ _ _ Wf Hin) as [G1 G2]. rewrite (get_app_l k f s G2), G1. apply seq_refl. }
    split.
    + cbn [e_find]. rewrite count_app, C. unfold count_matches. cbn. now rewrite Mn.
    + intros x Hx M. cbn [e_find] in M. apply in_app_or in Hx. destruct Hx as [Hx|[<-|[]]].
      * rewrite (count_zero_none f l C x Hx) in M. discriminate.
      * unfold upd. cbn [e_nested e_set]. rewrite (IHg _ _ G). cbn [o_attrs o_kids]. f_equal. f_equal.
        apply set_attrs_noop. intros k v Hin. destruct (get_in_nodup _ _ _ Ws Hin) as [G1 G2].
        pose proof (disjoint_keys_spec _ _ Wd k v Hin) as Hf.
        rewrite has_key_app, G2, orb_true_r. split; [reflexivity|]. now rewrite (get_app_r k f s Hf).
  - apply mapM_forall2 in H.
    assert (F : Forall2 (fun x y => (matches f y = matches f x) /\
                                    (matches f y = true -> upd (Entry f s g) y = Some y)) l l1).
    { eapply Forall2_impl; [|exact H]. intros x y Hxy. cbn beta in Hxy. destruct (matches f x) eqn:M.
      - destruct x as [a k]. destruct (sync_groups g (Obj a k)) as [x'|] eqn:G; [|discriminate].
        injection Hxy as <-. destruct (sg_shape _ _ _ _ G) as [A B]. destruct x' as [a' k']. cbn [o_attrs o_kids] in *. subst a'.
        assert (My : matches f (Obj (set_attrs s a) k') = true).
        { rewrite <- M. apply matches_ext. intros kv Hin. apply KEEP. exact Hin. }
        split; [exact My|]. intros _. unfold upd. cbn [e_nested e_set].
        pose proof (IHg _ _ G) as Fix. destruct (sg_shape _ _ _ _ Fix) as [_ B2]. cbn [o_kids] in B2.
        rewrite (B2 (set_attrs s a)). cbn [o_attrs o_kids]. now rewrite (set_attrs_idem s a Ws).
      - injection Hxy as <-. split; [exact M|]. intro M2. congruence. }
    split.
    + cbn [e_find]. rewrite <- C. unfold count_matches. clear -F. induction F as [|x y l l1 [A _] F IH]; cbn; [reflexivity|].
      rewrite A. destruct (matches f x); cbn; now rewrite IH.
    + cbn [e_find]. clear -F. induction F as [|x y l l1 [_ B] F IH]; [intros ? []|].
      intros z [<-|Hz] M; auto.
Qed.

Lemma entries_step e r : P_entry e -> P_entries r -> P_entries (SCons e r).
Proof.
  intros He Hr W ND l l' H. cbn [wf_entries] in W. apply andb_true_iff in W as [We Wr].
  cbn [entry_names nodup_strs] in ND. apply andb_true_iff in ND as [N1 N2]. apply negb_true_iff in N1.
  cbn [sync_entries] in H. destruct (sync_entry e l) as [l1|] eqn:E; [|discriminate].
  pose proof (He We _ _ E) as S1.
  pose proof (stable_steps e We r l1 l' Wr N1 H S1) as S'.
  cbn [sync_entries]. rewrite (stable_fixed _ _ S'). exact (Hr Wr N2 _ _ H).
Qed.

Lemma groups_step a es r : P_entries es -> P_groups r -> P_groups (QCons a es r).
Proof.
  intros Hes Hr W x x' H. cbn [wf_groups] in W.
  apply andb_true_iff in W as [W Wr]. apply andb_true_iff in W as [W Na]. apply andb_true_iff in W as [Wes ND].
  apply negb_true_iff in Na.
  cbn [sync_groups] in H. destruct (sync_entries es (get_kids a (o_kids x))) as [l1|] eqn:E; [|discriminate].
  destruct (sg_other_kids _ _ _ a H Na) as [K1 K2]. cbn [o_kids] in K1, K2.
  rewrite get_set_kids_same in K1. specialize (K2 (has_set_kids_same a l1 (o_kids x))).
  cbn [sync_groups]. rewrite K1, (Hes Wes ND _ _ E).
  rewrite <- K1 at 1. rewrite (set_kids_noop a (o_kids x') K2).
  destruct x' as [a' k']. cbn [o_attrs o_kids]. exact (Hr Wr _ _ H).
Qed.

Lemma sync_fixed_all :
  (forall e, P_entry e) /\ (forall es, P_entries es) /\ (forall g, P_groups g).
Proof.
  apply sync_syntax_ind.
  - intros f s g IH. now apply entry_establishes.
  - intros _ _ l l' [= <-]. reflexivity.
  - intros e He r Hr. now apply entries_step.
  - intros _ x x' [= <-]. reflexivity.
  - intros a es Hes r Hr. now apply groups_step.
Qed.

(* ------------------------------------------------------------------ the property lemmas *)
Lemma sync_groups_idempotent g x x' : wf_groups g = true -> sync_groups g x = Some x' -> sync_groups g x' = Some x'.
Proof. intros W H. exact (proj2 (proj2 sync_fixed_all) g W x x' H). Qed.

Lemma created_or_matched_is_found e l l1 : wf_entry e = true -> sync_entry e l = Some l1 ->
  count_matches (e_find e) l1 = 1%nat /\ sync_entry e l1 = Some l1.
Proof.
  intros W H. pose proof (proj1 sync_fixed_all e W l l1 H) as S. split; [exact (proj1 S)|now apply stable_fixed].
Qed.

Lemma second_run_nothing g x x1 x2 : wf_groups g = true ->
  sync_groups g x = Some x1 -> sync_groups g x1 = Some x2 -> x2 = x1 /\ size x2 = size x1.
Proof.
  intros W H1 H2. rewrite (sync_groups_idempotent g x x1 W H1) in H2. injection H2 as <-. auto.
Qed.
