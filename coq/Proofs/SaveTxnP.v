(* C15 — proofs about Model/SaveTxn.v *)
From Coq Require Import ZArith NArith List Bool Lia Arith.
Import ListNotations.
From V Require Import Model.Val Model.PyPrims Model.SaveTxn Proofs.PathsP.

(* ---------------- the file-system map ---------------- *)
Lemma str_eqb_neq a b : a <> b -> str_eqb a b = false.
Proof. intro H. destruct (str_eqb a b) eqn:E; [|reflexivity]. apply str_eqb_eq in E. contradiction. Qed.

Lemma str_eq_dec (a b : str) : {a = b} + {a <> b}.
Proof. apply (list_eq_dec N.eq_dec). Qed.

Lemma get_set_same f n b : fs_get (fs_set f n b) n = Some b.
Proof. cbn. now rewrite str_eqb_refl. Qed.
Lemma get_set_other f n b m : m <> n -> fs_get (fs_set f n b) m = fs_get f m.
Proof. intro H. cbn. rewrite str_eqb_neq; [reflexivity|congruence]. Qed.
Lemma get_del_same f n : fs_get (fs_del f n) n = None.
Proof.
  induction f as [|[m b] f IH]; cbn; [reflexivity|].
  destruct (str_eqb m n) eqn:E; [exact IH|]. cbn. now rewrite E.
Qed.
Lemma get_del_other f n m : m <> n -> fs_get (fs_del f n) m = fs_get f m.
Proof.
  intro H. induction f as [|[x b] f IH]; cbn; [reflexivity|].
  destruct (str_eqb x n) eqn:E.
  - apply str_eqb_eq in E. subst. rewrite IH. rewrite str_eqb_neq; [reflexivity|congruence].
  - cbn. now rewrite IH.
Qed.

Lemma memS_In n l : memS n l = true <-> In n l.
Proof.
  unfold memS. rewrite existsb_exists. split.
  - intros [x [Hx E]]. apply str_eqb_eq in E. now subst.
  - intro H. exists n. split; [assumption|apply str_eqb_refl].
Qed.
Lemma memS_notIn n l : memS n l = false <-> ~ In n l.
Proof. rewrite <- memS_In. destruct (memS n l); split; intro H; congruence. Qed.

Lemma nodupS_NoDup l : nodupS l = true -> NoDup l.
Proof.
  induction l as [|x l IH]; cbn; intro H; [constructor|].
  apply andb_true_iff in H as [A B]. constructor; [|now apply IH].
  apply negb_true_iff, memS_notIn in A. exact A.
Qed.

Lemma NoDup_snoc {A} (l : list A) x : NoDup l -> ~ In x l -> NoDup (l ++ [x]).
Proof.
  induction l as [|y l IH]; cbn; intros H Hx; [constructor; [intros []|constructor]|].
  inversion H; subst. constructor.
  - intro Hin. apply in_app_or in Hin as [Hin|[<-|[]]]; [contradiction|]. apply Hx. now left.
  - apply IH; [assumption|]. intro. apply Hx. now right.
Qed.

Definition fs_eq (f g : list (str * str)) : Prop := forall m, fs_get f m = fs_get g m.

Section Txn.
  Variable tmp : str -> str.
  Variable decl : str.
  Variable U : list str.                       (* the names of the fragments that are saved *)
  Hypothesis Hinj : forall a b, In a U -> In b U -> tmp a = tmp b -> a = b.
  Hypothesis Hdisj : forall a b, In a U -> In b U -> tmp a <> b.

  Notation write_frag := (write_frag tmp decl true).
  Notation write_all := (write_all tmp decl true).
  Notation abort_loop := (abort_loop tmp).
  Notation commit_loop := (commit_loop tmp).

  (* ---------------- one fragment ---------------- *)
  Lemma write_frag_spec flt f txn k n c f' txn' k' e :
    write_frag flt f txn k n c = (f', txn', k', e) ->
    (forall m, m <> tmp n -> fs_get f' m = fs_get f m)
    /\ ((txn' = txn /\ f' = f /\ e <> None)
        \/ (txn' = txn ++ [n] /\ ~ In n txn /\ fs_get f' (tmp n) <> None
            /\ (e = None -> fs_get f' (tmp n) = Some (decl ++ c))))
    /\ (k <= k')%nat.
  Proof.
    unfold SaveTxn.write_frag. destruct (memS n txn) eqn:M.
    - intro H. inversion H; subst. repeat split; try lia. left. repeat split. discriminate.
    - apply memS_notIn in M. destruct (flt k) as [e0|].
      + intro H. inversion H; subst. repeat split; try lia. left. repeat split. discriminate.
      + destruct (flt (S k)) as [e1|]; [|destruct (flt (S (S k))) as [e2|]; [|destruct (flt (S (S (S k)))) as [e3|]]];
          match goal with |- context [flt ?kk] => destruct (flt kk) as [e4|] end;
          intro H; inversion H; subst; clear H;
          (split; [intros m Hm; repeat rewrite get_set_other by assumption; reflexivity|]);
          (split; [right; repeat split; try assumption;
                   [rewrite get_set_same; discriminate | intro X; try discriminate X; try (rewrite get_set_same; reflexivity)]
                  | lia]).
  Qed.

  (* ---------------- the write phase ---------------- *)
  Lemma write_all_spec flt : forall frags f txn k f' txn' k' e,
    incl (map fst frags) U -> incl txn U -> NoDup txn ->
    write_all flt f txn k frags = (f', txn', k', e) ->
    (forall m, (forall n, In n txn' -> ~ In n txn -> m <> tmp n) -> fs_get f' m = fs_get f m)
    /\ (forall n, In n txn' -> ~ In n txn -> fs_get f' (tmp n) <> None)
    /\ NoDup txn' /\ incl txn' U /\ incl txn txn'
    /\ (e = None -> txn' = txn ++ map fst frags
                    /\ forall n c, In (n, c) frags -> fs_get f' (tmp n) = Some (decl ++ c))
    /\ (k <= k')%nat.
  Proof.
    induction frags as [|[n c] frags IH]; intros f txn k f' txn' k' e HU Htx Hnd H; cbn in H.
    - inversion H; subst.
      split; [reflexivity|]. split; [intros n A B; contradiction|]. split; [assumption|].
      split; [assumption|]. split; [apply incl_refl|]. split; [|lia].
      intros _. split; [now rewrite app_nil_r|intros n c []].
    - destruct (write_frag flt f txn k n c) as [[[f1 txn1] k1] e1] eqn:W.
      destruct (write_frag_spec _ _ _ _ _ _ _ _ _ _ W) as (Fr & Cases & Hk).
      assert (HnU : In n U) by (apply HU; now left).
      assert (HU' : incl (map fst frags) U) by (intros x Hx; apply HU; now right).
      destruct Cases as [(-> & -> & Hne)|(-> & Hnin & Hex & Hfull)].
      + destruct e1 as [e1|]; [|congruence]. inversion H; subst.
        split; [reflexivity|]. split; [intros n0 A B; contradiction|]. split; [assumption|].
        split; [assumption|]. split; [apply incl_refl|]. split; [discriminate|lia].
      + assert (Htx1 : incl (txn ++ [n]) U) by (apply incl_app; [assumption|intros x [<-|[]]; assumption]).
        assert (Hnd1 : NoDup (txn ++ [n])) by now apply NoDup_snoc.
        destruct e1 as [e1|].
        * inversion H; subst.
          split; [intros m Hm; apply Fr; apply Hm; [apply in_or_app; right; now left|assumption]|].
          split; [intros n0 A B; apply in_app_or in A as [A|[<-|[]]]; [contradiction|assumption]|].
          split; [assumption|]. split; [assumption|]. split; [apply incl_appl, incl_refl|].
          split; [discriminate|lia].
        * specialize (Hfull eq_refl).
          destruct (IH _ _ _ _ _ _ _ HU' Htx1 Hnd1 H) as (Fr2 & Ex2 & Nd2 & In2 & Sub2 & Full2 & Hk2).
          assert (Hn' : In n txn') by (apply Sub2, in_or_app; right; now left).
          split.
          { intros m Hm. rewrite Fr2.
            - apply Fr. now apply Hm.
            - intros n0 A B. apply Hm; [assumption|]. intro C. apply B. apply in_or_app. now left. }
          split.
          { intros n0 A B. destruct (in_dec str_eq_dec n0 (txn ++ [n])) as [C|C].
            - apply in_app_or in C as [C|[C|[]]]; [contradiction|]. subst n0.
              rewrite Fr2; [assumption|]. intros n1 A1 B1 E. apply B1.
              assert (n1 = n) as -> by (apply Hinj; [now apply In2|assumption|now symmetry]).
              apply in_or_app. right. now left.
            - now apply Ex2. }
          split; [assumption|]. split; [assumption|].
          split; [intros x Hx; apply Sub2, in_or_app; now left|].
          split; [|lia].
          intros ->. destruct (Full2 eq_refl) as [-> Full].
          split; [cbn; now rewrite <- app_assoc|].
          intros n0 c0 [E|Hin]; [|now apply Full].
          inversion E; subst. rewrite Fr2; [assumption|].
          intros n1 A1 B1 E1. apply B1.
          assert (n1 = n0) as -> by (apply Hinj; [now apply In2|assumption|now symmetry]).
          apply in_or_app. right. now left.
  Qed.

  (* ---------------- the clean-up loops ---------------- *)
  Lemma abort_frame flt : forall l f k f' k' e, abort_loop flt f k l = (f', k', e) ->
    forall m, ~ In m (map tmp l) -> fs_get f' m = fs_get f m.
  Proof.
    induction l as [|n l IH]; intros f k f' k' e H m Hm; cbn in H.
    - now inversion H.
    - destruct (flt k); [now inversion H|].
      destruct (fs_get f (tmp n)); [|now inversion H].
      rewrite (IH _ _ _ _ _ H m).
      + apply get_del_other. intro E. apply Hm. left. now symmetry.
      + intro. apply Hm. now right.
  Qed.

  Lemma tmp_notin n l : In n U -> incl l U -> ~ In n l -> ~ In (tmp n) (map tmp l).
  Proof.
    intros Hn Hl Hnot Hin. apply in_map_iff in Hin as (x & Ex & Hx).
    apply Hinj in Ex; [subst; contradiction|now apply Hl|assumption].
  Qed.

  Lemma abort_ok flt : forall l f k, NoDup l -> incl l U ->
    (forall n, In n l -> fs_get f (tmp n) <> None) -> (forall j, (k <= j)%nat -> flt j = None) ->
    exists f' k', abort_loop flt f k l = (f', k', None) /\ (forall n, In n l -> fs_get f' (tmp n) = None).
  Proof.
    induction l as [|n l IH]; intros f k Hnd HU Hex Hflt; cbn.
    - eexists _, _. split; [reflexivity|intros n []].
    - rewrite (Hflt k (le_n _)).
      destruct (fs_get f (tmp n)) eqn:E; [|exfalso; apply (Hex n); [now left|assumption]].
      inversion Hnd; subst.
      assert (HnU : In n U) by (apply HU; now left).
      assert (HlU : incl l U) by (intros x Hx; apply HU; now right).
      destruct (IH (fs_del f (tmp n)) (S k)) as (f' & k' & R & Z); try assumption.
      + intros n' Hn'. rewrite get_del_other; [apply Hex; now right|].
        intro Eq. apply Hinj in Eq; [subst; contradiction|now apply HlU|assumption].
      + intros j Hj. apply Hflt. lia.
      + exists f', k'. split; [assumption|]. intros n' [<-|Hn']; [|now apply Z].
        rewrite (abort_frame _ _ _ _ _ _ _ R); [apply get_del_same|]. now apply tmp_notin.
  Qed.

  Lemma commit_spec flt : forall l f k f' k' e, NoDup l -> incl l U -> commit_loop flt f k l = (f', k', e) ->
    (forall m, ~ In m l -> ~ In m (map tmp l) -> fs_get f' m = fs_get f m)
    /\ (forall n, In n l -> fs_get f' n = fs_get f n
                          \/ (fs_get f' n = fs_get f (tmp n) /\ fs_get f (tmp n) <> None)).
  Proof.
    induction l as [|n l IH]; intros f k f' k' e Hnd HU H; cbn in H.
    - inversion H; subst. split; [reflexivity|intros n []].
    - destruct (flt k); [inversion H; subst; split; [reflexivity|intros; now left]|].
      destruct (fs_get f (tmp n)) as [b|] eqn:E; [|inversion H; subst; split; [reflexivity|intros; now left]].
      inversion Hnd; subst.
      assert (HnU : In n U) by (apply HU; now left).
      assert (HlU : incl l U) by (intros x Hx; apply HU; now right).
      destruct (IH _ _ _ _ _ H3 HlU H) as [P1 P2].
      assert (G : forall m, m <> tmp n -> fs_get (fs_del (fs_set f n b) (tmp n)) m
                                         = if str_eqb n m then Some b else fs_get f m).
      { intros m Hm. rewrite get_del_other by assumption. reflexivity. }
      split.
      + intros m A B. rewrite P1.
        * rewrite G; [|intro X; apply B; left; now symmetry].
          rewrite str_eqb_neq; [reflexivity|]. intro X. apply A. now left.
        * intro. apply A. now right.
        * intro. apply B. now right.
      + intros x [<-|Hx].
        * right. rewrite P1; [|assumption|].
          -- rewrite G; [|intro X; now apply (Hdisj n n)]. rewrite str_eqb_refl. split; [now symmetry|].
             rewrite E. discriminate.
          -- intro Hin. apply in_map_iff in Hin as (y & Ey & Hy). apply (Hdisj y n); auto.
        * assert (x <> n) by (intro; subst; contradiction).
          assert (HxU : In x U) by now apply HlU.
          destruct (P2 x Hx) as [L|[R1 R2]].
          -- left. rewrite L, G; [|intro X; now apply (Hdisj n x)].
             rewrite str_eqb_neq; [reflexivity|congruence].
          -- right. rewrite G in R1, R2; try (intro X; apply Hinj in X; congruence).
             rewrite str_eqb_neq in R1, R2; try (intro X; now apply (Hdisj x n)). now split.
  Qed.

  Lemma commit_ok flt : forall l f k, NoDup l -> incl l U ->
    (forall n, In n l -> fs_get f (tmp n) <> None) -> (forall j, (k <= j)%nat -> flt j = None) ->
    exists f' k', commit_loop flt f k l = (f', k', None)
      /\ (forall n, In n l -> fs_get f' n = fs_get f (tmp n) /\ fs_get f' (tmp n) = None).
  Proof.
    induction l as [|n l IH]; intros f k Hnd HU Hex Hflt; cbn.
    - eexists _, _. split; [reflexivity|intros n []].
    - rewrite (Hflt k (le_n _)).
      destruct (fs_get f (tmp n)) as [b|] eqn:E; [|exfalso; apply (Hex n); [now left|assumption]].
      inversion Hnd; subst.
      assert (HnU : In n U) by (apply HU; now left).
      assert (HlU : incl l U) by (intros x Hx; apply HU; now right).
      assert (G : forall m, m <> tmp n -> fs_get (fs_del (fs_set f n b) (tmp n)) m
                                         = if str_eqb n m then Some b else fs_get f m).
      { intros m Hm. rewrite get_del_other by assumption. reflexivity. }
      assert (Gx : forall x, In x l -> fs_get (fs_del (fs_set f n b) (tmp n)) (tmp x) = fs_get f (tmp x)).
      { intros x Hx. assert (x <> n) by (intro; subst; contradiction).
        rewrite G; [|intro X; apply Hinj in X; auto].
        rewrite str_eqb_neq; [reflexivity|]. intro X. apply (Hdisj x n); auto. }
      destruct (IH (fs_del (fs_set f n b) (tmp n)) (S k)) as (f' & k' & R & Z); try assumption.
      + intros x Hx. rewrite Gx by assumption. apply Hex. now right.
      + intros j Hj. apply Hflt. lia.
      + exists f', k'. split; [assumption|].
        destruct (commit_spec _ _ _ _ _ _ _ H2 HlU R) as [P1 _].
        intros x [<-|Hx].
        * split.
          -- rewrite P1; [|assumption|].
             ++ rewrite G; [|intro X; now apply (Hdisj n n)]. now rewrite str_eqb_refl.
             ++ intro Hin. apply in_map_iff in Hin as (y & Ey & Hy). apply (Hdisj y n); auto.
          -- rewrite P1.
             ++ apply get_del_same.
             ++ intro Hin. apply (Hdisj n (tmp n)); auto.
             ++ now apply tmp_notin.
        * destruct (Z x Hx) as [Z1 Z2]. split; [|assumption]. now rewrite Z1, Gx.
  Qed.

  Lemma todo_props order txn : NoDup order -> incl txn order ->
    NoDup (filter (fun n => memS n txn) order)
    /\ (forall n, In n (filter (fun n => memS n txn) order) <-> In n txn).
  Proof.
    intros Hnd Hin. split; [now apply NoDup_filter|].
    intro n. rewrite filter_In, memS_In. split; [tauto|]. intro H. split; [now apply Hin|assumption].
  Qed.

  (* ---------------- save ---------------- *)
  Notation save := (save tmp decl true).

  Section Save.
    Variables (f : list (str * str)) (frags : list (str * str)) (order : list str).
    Hypothesis HU : incl (map fst frags) U.
    Hypothesis Hord : NoDup order.
    Hypothesis Hcov : incl U order.
    Hypothesis Hfresh : forall n, In n U -> fs_get f (tmp n) = None.   (* no stale temporary files *)

    Lemma save_abort_general flt dry f1 txn k1 werr :
      write_all flt f [] 0 frags = (f1, txn, k1, werr) ->
      dry = true \/ werr <> None -> (forall j, (k1 <= j)%nat -> flt j = None) ->
      exists f2, save flt f true frags order dry = (f2, true, werr) /\ fs_eq f2 f.
    Proof.
      intros W Hab Hflt.
      destruct (write_all_spec flt frags f [] 0 f1 txn k1 werr HU (incl_nil_l _) (NoDup_nil _) W)
        as (Fr & Ex & Nd & InU & _ & _ & _).
      destruct (todo_props order txn Hord (fun x Hx => Hcov x (InU x Hx))) as [Tnd Tin].
      set (todo := filter (fun n => memS n txn) order) in *.
      assert (TU : incl todo U) by (intros x Hx; apply InU, Tin, Hx).
      destruct (abort_ok flt todo f1 k1 Tnd TU) as (f2 & k2 & R & Z); try assumption.
      { intros n Hn. apply Ex; [now apply Tin|intros []]. }
      exists f2. split.
      - unfold SaveTxn.save. cbn [negb]. rewrite W. fold todo.
        assert (C : dry || is_some werr = true).
        { destruct Hab as [->|Hne]; [reflexivity|]. destruct werr; [apply orb_true_r|congruence]. }
        rewrite C, R. reflexivity.
      - intro m. destruct (in_dec str_eq_dec m (map tmp todo)) as [Hin|Hnot].
        + apply in_map_iff in Hin as (n & <- & Hn). rewrite (Z n Hn). symmetry. apply Hfresh. now apply TU.
        + rewrite (abort_frame flt _ _ _ _ _ _ R m Hnot). apply Fr.
          intros n Hn _ E. apply Hnot. subst. apply in_map. now apply Tin.
    Qed.

    (* every file is either untouched or holds its complete new content — whatever faults happen *)
    Lemma save_never_partial flt dry f2 idle' res :
      save flt f true frags order dry = (f2, idle', res) ->
      idle' = true
      /\ (forall n c, In (n, c) frags -> fs_get f2 n = fs_get f n \/ fs_get f2 n = Some (decl ++ c))
      /\ (forall m, ~ In m U -> ~ In m (map tmp U) -> fs_get f2 m = fs_get f m).
    Proof.
      unfold SaveTxn.save. cbn [negb].
      destruct (write_all flt f [] 0 frags) as [[[f1 txn] k1] werr] eqn:W.
      destruct (write_all_spec flt frags f [] 0 f1 txn k1 werr HU (incl_nil_l _) (NoDup_nil _) W)
        as (Fr & Ex & Nd & InU & _ & Full & _).
      destruct (todo_props order txn Hord (fun x Hx => Hcov x (InU x Hx))) as [Tnd Tin].
      set (todo := filter (fun n => memS n txn) order) in *.
      assert (TU : incl todo U) by (intros x Hx; apply InU, Tin, Hx).
      assert (Fr' : forall m, ~ In m (map tmp U) -> fs_get f1 m = fs_get f m).
      { intros m Hm. apply Fr. intros n Hn _ E. apply Hm. subst. apply in_map. now apply InU. }
      assert (NU : forall n, In n U -> ~ In n (map tmp U)).
      { intros n Hn Hin. apply in_map_iff in Hin as (y & Ey & Hy). now apply (Hdisj y n). }
      destruct (dry || is_some werr) eqn:C.
      - destruct (abort_loop flt f1 k1 todo) as [[f2' k2] cerr] eqn:R. intro H. inversion H; subst. clear H.
        split; [reflexivity|].
        assert (A : forall m, ~ In m (map tmp U) -> fs_get f2 m = fs_get f m).
        { intros m Hm. rewrite (abort_frame flt _ _ _ _ _ _ R m); [now apply Fr'|].
          intro Hin. apply Hm. apply in_map_iff in Hin as (y & <- & Hy). apply in_map. now apply TU. }
        split.
        + intros n c Hin. left. apply A, NU, HU. apply in_map_iff. now exists (n, c).
        + intros m _ Hm. now apply A.
      - apply orb_false_iff in C as [-> C]. destruct werr; [discriminate|]. clear C.
        destruct (Full eq_refl) as [Etxn Fullc]. cbn in Etxn.
        destruct (commit_loop flt f1 k1 todo) as [[f2' k2] cerr] eqn:R. intro H. inversion H; subst f2' idle' res. clear H.
        destruct (commit_spec flt todo f1 k1 f2 k2 cerr Tnd TU R) as [P1 P2].
        split; [reflexivity|]. split.
        + intros n c Hin.
          assert (Hn : In n txn) by (rewrite Etxn; apply in_map_iff; now exists (n, c)).
          destruct (P2 n (proj2 (Tin n) Hn)) as [L|[R1 _]].
          * left. rewrite L. apply Fr', NU, InU, Hn.
          * right. rewrite R1. now apply Fullc.
        + intros m A B. rewrite P1.
          * now apply Fr'.
          * intro X. apply A, TU, X.
          * intro X. apply B. apply in_map_iff in X as (y & <- & Hy). apply in_map. now apply TU.
    Qed.

    Lemma save_commit_general flt f1 txn k1 :
      write_all flt f [] 0 frags = (f1, txn, k1, None) ->
      (forall j, (k1 <= j)%nat -> flt j = None) ->
      exists f2, save flt f true frags order false = (f2, true, None)
        /\ (forall n c, In (n, c) frags -> fs_get f2 n = Some (decl ++ c))
        /\ (forall m, ~ In m (map fst frags) -> fs_get f2 m = fs_get f m).
    Proof.
      intros W Hflt.
      destruct (write_all_spec flt frags f [] 0 f1 txn k1 None HU (incl_nil_l _) (NoDup_nil _) W)
        as (Fr & Ex & Nd & InU & _ & Full & _).
      destruct (Full eq_refl) as [Etxn Fullc]. cbn in Etxn.
      destruct (todo_props order txn Hord (fun x Hx => Hcov x (InU x Hx))) as [Tnd Tin].
      set (todo := filter (fun n => memS n txn) order) in *.
      assert (TU : incl todo U) by (intros x Hx; apply InU, Tin, Hx).
      destruct (commit_ok flt todo f1 k1 Tnd TU) as (f2 & k2 & R & Z); try assumption.
      { intros n Hn. apply Ex; [now apply Tin|intros []]. }
      destruct (commit_spec flt todo f1 k1 f2 k2 None Tnd TU R) as [P1 _].
      exists f2. split; [|split].
      - unfold SaveTxn.save. cbn [negb orb is_some]. rewrite W. fold todo. cbn [orb is_some]. now rewrite R.
      - intros n c Hin.
        assert (Hn : In n todo) by (apply Tin; rewrite Etxn; apply in_map_iff; now exists (n, c)).
        destruct (Z n Hn) as [Z1 _]. rewrite Z1. now apply Fullc.
      - intros m Hm. rewrite <- Etxn in Hm.
        destruct (in_dec str_eq_dec m (map tmp todo)) as [Hin|Hnot].
        + apply in_map_iff in Hin as (n & <- & Hn). destruct (Z n Hn) as [_ Z2]. rewrite Z2.
          symmetry. apply Hfresh. now apply TU.
        + rewrite P1; [|intro X; apply Hm; now apply Tin|assumption].
          apply Fr. intros n Hn _ E. apply Hnot. subst. apply in_map. now apply Tin.
    Qed.
  End Save.
End Txn.

(* ---------------- single faults and fault-free runs ---------------- *)
Section Single.
  Variable tmp : str -> str.
  Variable decl : str.
  Notation write_frag := (write_frag tmp decl true).
  Notation write_all := (write_all tmp decl true).

  Lemma write_frag_single k e f txn k0 n c f' txn' k' err :
    ~ In n txn ->
    write_frag (single_fault k e) f txn k0 n c = (f', txn', k', err) ->
    ((k0 <= k < k0 + 5)%nat -> err = Some e /\ (k < k')%nat)
    /\ ((k < k0 \/ k0 + 5 <= k)%nat -> err = None /\ k' = (k0 + 5)%nat)
    /\ (txn' = txn \/ txn' = txn ++ [n]).
  Proof.
    intros Hn. unfold SaveTxn.write_frag, single_fault. apply memS_notIn in Hn. rewrite Hn.
    destruct (Nat.eqb_spec k0 k).
    { intro H. inversion H; subst. split; [intros; split; [reflexivity|lia]|]. split; [lia|now left]. }
    destruct (Nat.eqb_spec (S k0) k).
    { destruct (Nat.eqb_spec (S (S k0)) k); [lia|].
      intro H. inversion H; subst. split; [intros; split; [reflexivity|lia]|]. split; [lia|now right]. }
    destruct (Nat.eqb_spec (S (S k0)) k).
    { destruct (Nat.eqb_spec (S (S (S k0))) k); [lia|].
      intro H. inversion H; subst. split; [intros; split; [reflexivity|lia]|]. split; [lia|now right]. }
    destruct (Nat.eqb_spec (S (S (S k0))) k).
    { destruct (Nat.eqb_spec (S (S (S (S k0)))) k); [lia|].
      intro H. inversion H; subst. split; [intros; split; [reflexivity|lia]|]. split; [lia|now right]. }
    destruct (Nat.eqb_spec (S (S (S (S k0)))) k).
    { intro H. inversion H; subst. split; [intros; split; [reflexivity|lia]|]. split; [lia|now right]. }
    intro H. inversion H; subst. split; [lia|]. split; [intros; split; [reflexivity|lia]|now right].
  Qed.

  Lemma write_all_single k e : forall frags f txn k0 f' txn' k' err,
    NoDup (map fst frags) -> (forall n, In n (map fst frags) -> ~ In n txn) ->
    write_all (single_fault k e) f txn k0 frags = (f', txn', k', err) ->
    ((k0 <= k < k0 + 5 * length frags)%nat -> err = Some e /\ (k < k')%nat)
    /\ ((k < k0 \/ k0 + 5 * length frags <= k)%nat -> err = None /\ k' = (k0 + 5 * length frags)%nat).
  Proof.
    induction frags as [|[n c] frags IH]; intros f txn k0 f' txn' k' err Hnd Hnot H; cbn [SaveTxn.write_all] in H.
    - inversion H; subst. cbn. split; [lia|]. intros; split; [reflexivity|lia].
    - destruct (write_frag (single_fault k e) f txn k0 n c) as [[[f1 txn1] k1] e1] eqn:W.
      cbn [map fst] in Hnd. inversion Hnd; subst.
      destruct (write_frag_single k e f txn k0 n c f1 txn1 k1 e1 (Hnot n (or_introl eq_refl)) W) as (A & B & T).
      simpl (length _). destruct e1 as [e1|].
      + inversion H; subst. split.
        * intros R. destruct (Nat.lt_ge_cases k (k0 + 5)) as [L|G].
          -- apply A. lia.
          -- destruct (B (or_intror G)). discriminate.
        * intros R. destruct (Nat.lt_ge_cases k k0) as [L|G]; [destruct (B (or_introl L)); discriminate|].
          assert (G5 : (k0 + 5 <= k)%nat) by (cbn in R; lia).
          destruct (B (or_intror G5)). discriminate.
      + assert (Hnot1 : forall x, In x (map fst frags) -> ~ In x txn1).
        { intros x Hx Hin. destruct T as [->| ->]; [apply (Hnot x); [now right|assumption]|].
          apply in_app_or in Hin as [Hin|[<-|[]]]; [apply (Hnot x); [now right|assumption]|contradiction]. }
        destruct (Nat.lt_ge_cases k (k0 + 5)) as [L|G].
        * destruct (Nat.lt_ge_cases k k0) as [L0|G0].
          -- destruct (B (or_introl L0)) as [_ ->].
             destruct (IH _ _ _ _ _ _ _ H3 Hnot1 H) as [_ IB]. split; [lia|].
             intros _. assert (X : (k < k0 + 5)%nat) by lia.
             destruct (IB (or_introl X)) as [-> ->]. split; [reflexivity|lia].
          -- destruct (A (conj G0 L)). discriminate.
        * destruct (B (or_intror G)) as [_ ->].
          destruct (IH _ _ _ _ _ _ _ H3 Hnot1 H) as [IA IB]. split.
          -- intros R. apply IA. lia.
          -- intros R. assert (X : (k < k0 + 5 \/ k0 + 5 + 5 * length frags <= k)%nat) by lia.
             destruct (IB X) as [-> ->]. split; [reflexivity|lia].
  Qed.

  Lemma write_all_nofault : forall frags f txn k0 f' txn' k' err,
    NoDup (map fst frags) -> (forall n, In n (map fst frags) -> ~ In n txn) ->
    write_all no_fault f txn k0 frags = (f', txn', k', err) -> err = None.
  Proof.
    induction frags as [|[n c] frags IH]; intros f txn k0 f' txn' k' err Hnd Hnot H; cbn [SaveTxn.write_all] in H.
    - now inversion H.
    - cbn [map fst] in Hnd. inversion Hnd; subst.
      unfold SaveTxn.write_frag, no_fault in H.
      assert (M : memS n txn = false) by (apply memS_notIn, Hnot; now left). rewrite M in H.
      eapply IH; [eassumption| |exact H].
      intros x Hx Hin. apply in_app_or in Hin as [Hin|[<-|[]]]; [apply (Hnot x); [now right|assumption]|contradiction].
  Qed.
End Single.

(* ---------------- the property theorems ---------------- *)
Section Top.
  Variable tmp : str -> str.
  Variable decl : str.
  Variables (f : list (str * str)) (frags : list (str * str)) (order : list str).
  Let U := map fst frags.
  Hypothesis Hnd : NoDup U.
  Hypothesis Hinj : forall a b, In a U -> In b U -> tmp a = tmp b -> a = b.
  Hypothesis Hdisj : forall a b, In a U -> In b U -> tmp a <> b.
  Hypothesis Hord : NoDup order.
  Hypothesis Hcov : incl U order.
  Hypothesis Hfresh : forall n, In n U -> fs_get f (tmp n) = None.
  Notation save := (save tmp decl true).

  Lemma failed_save_restores_l k e dry :
    (k < 5 * length frags)%nat ->
    exists f2, save (single_fault k e) f true frags order dry = (f2, true, Some e) /\ fs_eq f2 f.
  Proof.
    intro Hk.
    destruct (write_all tmp decl true (single_fault k e) f [] 0 frags) as [[[f1 txn] k1] werr] eqn:W.
    destruct (write_all_single tmp decl k e frags f [] 0 f1 txn k1 werr Hnd (fun _ _ X => X) W) as [A _].
    destruct (A ltac:(lia)) as [-> Hlt].
    apply (save_abort_general tmp decl U Hinj f frags order (incl_refl _) Hord Hcov Hfresh _ dry f1 txn k1 _ W).
    - right. discriminate.
    - intros j Hj. unfold single_fault. destruct (Nat.eqb_spec j k); [lia|reflexivity].
  Qed.

  Lemma dry_run_noop_l :
    exists f2, save no_fault f true frags order true = (f2, true, None) /\ fs_eq f2 f.
  Proof.
    destruct (write_all tmp decl true no_fault f [] 0 frags) as [[[f1 txn] k1] werr] eqn:W.
    assert (werr = None) as -> by exact (write_all_nofault tmp decl frags _ [] 0 f1 txn k1 werr Hnd (fun _ _ X => X) W).
    apply (save_abort_general tmp decl U Hinj f frags order (incl_refl _) Hord Hcov Hfresh _ true f1 txn k1 _ W).
    - now left.
    - reflexivity.
  Qed.

  Lemma commit_complete_l :
    exists f2, save no_fault f true frags order false = (f2, true, None)
      /\ (forall n c, In (n, c) frags -> fs_get f2 n = Some (decl ++ c))
      /\ (forall m, ~ In m U -> fs_get f2 m = fs_get f m).
  Proof.
    destruct (write_all tmp decl true no_fault f [] 0 frags) as [[[f1 txn] k1] werr] eqn:W.
    assert (werr = None) as -> by exact (write_all_nofault tmp decl frags _ [] 0 f1 txn k1 werr Hnd (fun _ _ X => X) W).
    apply (save_commit_general tmp decl U Hinj Hdisj f frags order (incl_refl _) Hord Hcov Hfresh _ f1 txn k1 W).
    reflexivity.
  Qed.

  (* a failed save followed by a retry: the retry commits everything *)
  Lemma retry_succeeds_l k e dry :
    (k < 5 * length frags)%nat ->
    exists f2 f3,
      save (single_fault k e) f true frags order dry = (f2, true, Some e)
      /\ save no_fault f2 true frags order false = (f3, true, None)
      /\ (forall n c, In (n, c) frags -> fs_get f3 n = Some (decl ++ c))
      /\ (forall m, ~ In m U -> fs_get f3 m = fs_get f m).
  Proof.
    intro Hk. destruct (failed_save_restores_l k e dry Hk) as (f2 & S1 & Eq).
    destruct (write_all tmp decl true no_fault f2 [] 0 frags) as [[[f1 txn] k1] werr] eqn:W.
    assert (werr = None) as -> by exact (write_all_nofault tmp decl frags _ [] 0 f1 txn k1 werr Hnd (fun _ _ X => X) W).
    assert (Hfresh2 : forall n, In n U -> fs_get f2 (tmp n) = None) by (intros n Hn; rewrite Eq; now apply Hfresh).
    destruct (save_commit_general tmp decl U Hinj Hdisj f2 frags order (incl_refl _) Hord Hcov Hfresh2 _ f1 txn k1 W
                ltac:(reflexivity)) as (f3 & S2 & C1 & C2).
    exists f2, f3. repeat split; try assumption. intros m Hm. rewrite C2 by assumption. apply Eq.
  Qed.

  Lemma never_partial_l flt dry f2 idle' res :
    save flt f true frags order dry = (f2, idle', res) ->
    idle' = true
    /\ (forall n c, In (n, c) frags -> fs_get f2 n = fs_get f n \/ fs_get f2 n = Some (decl ++ c))
    /\ (forall m, ~ In m U -> ~ In m (map tmp U) -> fs_get f2 m = fs_get f m).
  Proof.
    apply (save_never_partial tmp decl U Hinj Hdisj f frags order (incl_refl _) Hord Hcov).
  Qed.
End Top.

(* the side conditions, decided by computation for a concrete list of names *)
Lemma tmp_ok_sound tmp names :
  tmp_ok tmp names = true ->
  NoDup names
  /\ (forall a b, In a names -> In b names -> tmp a = tmp b -> a = b)
  /\ (forall a b, In a names -> In b names -> tmp a <> b).
Proof.
  unfold tmp_ok. intro H. apply andb_true_iff in H as [H C]. apply andb_true_iff in H as [A B].
  apply nodupS_NoDup in A. apply nodupS_NoDup in B. split; [assumption|]. split.
  - clear C. induction names as [|x l IH]; intros a b Ha Hb E; [destruct Ha|].
    cbn in B. inversion A; inversion B; subst.
    destruct Ha as [<-|Ha], Hb as [<-|Hb]; try reflexivity.
    + exfalso. apply H5. rewrite E. now apply in_map.
    + exfalso. apply H5. rewrite <- E. now apply in_map.
    + now apply IH.
  - rewrite forallb_forall in C. intros a b Ha Hb E. specialize (C a Ha).
    apply negb_true_iff, memS_notIn in C. apply C. now rewrite E.
Qed.
