(* C15 — proofs about Model/SaveTxn.v *)
From Coq Require Import ZArith NArith List Bool Lia Arith.
Import ListNotations.
From V Require Import Model.Val Model.PyPrims Model.SaveTxn Proofs.PathsP.

(* ---------------- the file-system map ---------------- *)
Lemma str_eqb_neq a b : a <> b -> str_eqb a b = false.
Proof. intro H. destruct (str_eqb a b) eqn:E; [|reflexivity]. apply str_eqb_eq in E. contradiction. Qed.

Lemma str_eq_dec (a b : str) : {a = b} + {a <> b}.
Proof. apply (list_eq_dec N.eq_dec). Qed.

Lemma get_set_same f n b : fs_get (fs_set f n b) n = Some b.
Proof. cbn. now rewrite str_eqb_refl. Qed.
Lemma get_set_other f n b m : m <> n -> fs_get (fs_set f n b) m = fs_get f m.
Proof. intro H. cbn. rewrite str_eqb_neq; [reflexivity|congruence]. Qed.
Lemma get_del_same f n : fs_get (fs_del f n) n = None.
Proof.
  induction f as [|[m b] f IH]; cbn; [reflexivity|].
  destruct (str_eqb m n) eqn:E; [exact IH|]. cbn. now rewrite E.
Qed.
Lemma get_del_other f n m : m <> n -> fs_get (fs_del f n) m = fs_get f m.
Proof.
  intro H. induction f as [|[x b] f IH]; cbn; [reflexivity|].
  destruct (str_eqb x n) eqn:E.
  - apply str_eqb_eq in E. subst. rewrite IH. rewrite str_eqb_neq; [reflexivity|congruence].
  - cbn. now rewrite IH.
Qed.

Lemma memS_In n l : memS n l = true <-> In n l.
Proof.
  unfold memS. rewrite existsb_exists. split.
  - intros [x [Hx E]]. apply str_eqb_eq in E. now subst.
  - intro H. exists n. split; [assumption|apply str_eqb_refl].
Qed.
Lemma memS_notIn n l : memS n l = false <-> ~ In n l.
Proof. rewrite <- memS_In. destruct (memS n l); split; intro H; congruence. Qed.

Lemma nodupS_NoDup l : nodupS l = true -> NoDup l.
Proof.
  induction l as [|x l IH]; cbn; intro H; [constructor|].
  apply andb_true_iff in H as [A B]. constructor; [|now apply IH].
  apply negb_true_iff, memS_notIn in A. exact A.
Qed.

Lemma NoDup_snoc {A} (l : list A) x : NoDup l -> ~ In x l -> NoDup (l ++ [x]).
Proof.
  induction l as [|y l IH]; cbn; intros H Hx; [constructor; [intros []|constructor]|].
  inversion H; subst. constructor.
  - intro Hin. apply in_app_or in Hin as [Hin|[<-|[]]]; [contradiction|]. apply Hx. now left.
  - apply IH; [assumption|]. intro. apply Hx. now right.
Qed.

Definition fs_eq (f g : list (str * str)) : Prop := forall m, fs_get f m = fs_get g m.

Section Txn.
  Variable tmp : str -> str.
  Variable decl : str.
  Variable U : list str.                       (* the names of the fragments that are saved *)
  Hypothesis Hinj : forall a b, In a U -> In b U -> tmp a = tmp b -> a = b.
  Hypothesis Hdisj : forall a b, In a U -> In b U -> tmp a <> b.

  Notation write_frag := (write_frag tmp decl true).
  Notation write_all := (write_all tmp decl true).
  Notation abort_loop := (abort_loop tmp).
  Notation commit_loop := (commit_loop tmp).

  (* ---------------- one fragment ---------------- *)
  Lemma write_frag_spec flt f txn k n c f' txn' k' e :
    write_frag flt f txn k n c = (f', txn', k', e) ->
    (forall m, m <> tmp n -> fs_get f' m = fs_get f m)
    /\ ((txn' = txn /\ f' = f /\ e <> None)
        \/ (txn' = txn ++ [n] /\ ~ In n txn /\ fs_get f' (tmp n) <> None
            /\ (e = None -> fs_get f' (tmp n) = Some (decl ++ c))))
    /\ (k <= k')%nat.
  Proof.
    unfold SaveTxn.write_frag. destruct (memS n txn) eqn:M.
    - intro H. inversion H; subst. repeat split; try lia. left. repeat split. discriminate.
    - apply memS_notIn in M. destruct (flt k) as [e0|].
      + intro H. inversion H; subst. repeat split; try lia. left. repeat split. discriminate.
      + destruct (flt (S k)) as [e1|]; [|destruct (flt (S (S k))) as [e2|]; [|destruct (flt (S (S (S k)))) as [e3|]]];
          match goal with |- context [flt ?kk] => destruct (flt kk) as [e4|] end;
          intro H; inversion H; subst; clear H;
          (split; [intros m Hm; repeat rewrite get_set_other by assumption; reflexivity|]);
          (split; [right; repeat split; try assumption;
                   [rewrite get_set_same; discriminate | intro X; try discriminate X; try (rewrite get_set_same; reflexivity)]
                  | lia]).
  Qed.

  (* ---------------- the write phase ---------------- *)
  Lemma write_all_spec flt : forall frags f txn k f' txn' k' e,
    incl (map fst frags) U -> incl txn U -> NoDup txn ->
    write_all flt f txn k frags = (f', txn', k', e) ->
    (forall m, (forall n, In n txn' -> ~ In n txn -> m <> tmp n) -> fs_get f' m = fs_get f m)
    /\ (forall n, In n txn' -> ~ In n txn -> fs_get f' (tmp n) <> None)
    /\ NoDup txn' /\ incl txn' U /\ incl txn txn'
    /\ (e = None -> txn' = txn ++ map fst frags
                    /\ forall n c, In (n, c) frags -> fs_get f' (tmp n) = Some (decl ++ c))
    /\ (k <= k')%nat.
  Proof.
    induction frags as [|[n c] frags IH]; intros f txn k f' txn' k' e HU Htx Hnd H; cbn in H.
    - inversion H; subst.
      split; [reflexivity|]. split; [intros n A B; contradiction|]. split; [assumption|].
      split; [assumption|]. split; [apply incl_refl|]. split; [|lia].
      intros _. split; [now rewrite app_nil_r|intros n c []].
    - destruct (write_frag flt f txn k n c) as [[[f1 txn1] k1] e1] eqn:W.
      destruct (write_frag_spec _ _ _ _ _ _ _ _ _ _ W) as (Fr & Cases & Hk).
      assert (HnU : In n U) by (apply HU; now left).
      assert (HU' : incl (map fst frags) U) by (intros x Hx; apply HU; now right).
      destruct Cases as [(-> & -> & Hne)|(-> & Hnin & Hex & Hfull)].
      + destruct e1 as [e1|]; [|congruence]. inversion H; subst.
        split; [reflexivity|]. split; [intros n0 A B; contradiction|]. split; [assumption|].
        split; [assumption|]. split; [apply incl_refl|]. split; [discriminate|lia].
      + assert (Htx1 : incl (txn ++ [n]) U) by (apply incl_app; [assumption|intros x [<-|[]]; assumption]).
        assert (Hnd1 : NoDup (txn ++ [n])) by now apply NoDup_snoc.
        destruct e1 as [e1|].
        * inversion H; subst.
          split; [intros m Hm; apply Fr; apply Hm; [apply in_or_app; right; now left|assumption]|].
          split; [intros n0 A B; apply in_app_or in A as [A|[<-|[]]]; [contradiction|assumption]|].
          split; [assumption|]. split; [assumption|]. split; [apply incl_appl, incl_refl|].
          split; [discriminate|lia].
        * specialize (Hfull eq_refl).
          destruct (IH _ _ _ _ _ _ _ HU' Htx1 Hnd1 H) as (Fr2 & Ex2 & Nd2 & In2 & Sub2 & Full2 & Hk2).
          assert (Hn' : In n txn') by (apply Sub2, in_or_app; right; now left).
          split.
          { intros m Hm. rewrite Fr2.
            - apply Fr. now apply Hm.
            - intros n0 A B. apply Hm; [assumption|]. intro C. apply B. apply in_or_app. now left. }
          split.
          { intros n0 A B. destruct (in_dec str_eq_dec n0 (txn ++ [n])) as [C|C].
            - apply in_app_or in C as [C|[<-|[]]]; [contradiction|].
              rewrite Fr2; [assumption|]. intros n1 A1 B1 E. apply B1.
              assert (n1 = n0) as -> by (apply Hinj; [now apply In2|assumption|now symmetry]).
              apply in_or_app. right. now left.
            - now apply Ex2. }
          split; [assumption|]. split; [assumption|].
          split; [intros x Hx; apply Sub2, in_or_app; now left|].
          split; [|lia].
          intros ->. destruct (Full2 eq_refl) as [-> Full].
          split; [cbn; now rewrite <- app_assoc|].
          intros n0 c0 [E|Hin]; [|now apply Full].
          inversion E; subst. rewrite Fr2; [assumption|].
          intros n1 A1 B1 E1. apply B1.
          assert (n1 = n0) as -> by (apply Hinj; [now apply In2|assumption|now symmetry]).
          apply in_or_app. right. now left.
  Qed.
End Txn.
