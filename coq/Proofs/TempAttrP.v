From Coq Require Import ZArith List Bool Lia.
Import ListNotations.
From V Require Import Model.Val Model.TempAttr.
Open Scope Z_scope.

Theorem with_temp_restores k v a : with_temp k v a = a.
Proof.
  unfold with_temp. induction a as [|[k' v'] r IH]; cbn [aget aset].
  - cbn. now rewrite Z.eqb_refl.
  - destruct (k' =? k) eqn:E.
    + cbn [restore aset]. rewrite Z.eqb_refl. apply Z.eqb_eq in E. now subst.
    + destruct (aget k r) as [old|]; cbn [restore aset adel] in *; rewrite E; now rewrite IH.
Qed.
(* inside the block the attribute has the temporary value and every other attribute reads as before *)
Lemma aget_aset_same k v a : aget k (aset k v a) = Some v.
Proof. induction a as [|[k' v'] r IH]; cbn; [now rewrite Z.eqb_refl|]. destruct (k' =? k) eqn:E; cbn; [now rewrite Z.eqb_refl|now rewrite E]. Qed.
Lemma aget_aset_other k v j a : j <> k -> aget j (aset k v a) = aget j a.
Proof.
  intros H. induction a as [|[k' v'] r IH]; cbn.
  - destruct (k =? j) eqn:E; [apply Z.eqb_eq in E; congruence|reflexivity].
  - destruct (k' =? k) eqn:E; cbn.
    + apply Z.eqb_eq in E. subst k'. destruct (k =? j) eqn:E2; [apply Z.eqb_eq in E2; congruence|reflexivity].
    + destruct (k' =? j); [reflexivity|exact IH].
Qed.
(* nesting (the edge factories nest two blocks on the same attribute): the inner block restores the outer value, the
   outer block the original *)
Theorem nested_temp_restores k v k2 v2 a :
  restore k (aget k a) (restore k2 (aget k2 (aset k v a)) (aset k2 v2 (aset k v a))) = a.
Proof. fold (with_temp k2 v2 (aset k v a)). rewrite with_temp_restores. apply with_temp_restores. Qed.
Theorem truthy_restore_refuted : with_temp_truthy 7 5 [(1, 3); (7, 0)] = [(1, 3)] /\ with_temp 7 5 [(1, 3); (7, 0)] = [(1, 3); (7, 0)].
Proof. split; reflexivity. Qed.
