(* Proofs about _round_version and update_namespaces (C02). *)
From Coq Require Import ZArith NArith List Bool Lia Permutation Sorted.
Import ListNotations.
From V Require Import Model.Val Model.XmlTree Gen.ExsConsts Model.SerExs Model.SerNs Proofs.SerExsP.
Open Scope N_scope.

Fixpoint count_dots (s : str) : nat :=
  match s with [] => O | c :: r => if c =? DOT then S (count_dots r) else count_dots r end.
Lemma count_dots_app a b : count_dots (a ++ b) = (count_dots a + count_dots b)%nat.
Proof. induction a as [|c a IH]; cbn; [reflexivity|]. destruct (c =? DOT); cbn; now rewrite IH. Qed.

Lemma index_dot_spec s a b : index_dot s = Some (a, b) -> s = a ++ DOT :: b /\ count_dots a = O.
Proof.
  revert a b; induction s as [|c s IH]; intros a b H; cbn in H; [discriminate|].
  destruct (N.eqb_spec c DOT) as [->|Hne].
  - inversion H; subst. now split.
  - destruct (index_dot s) as [[a' b']|]; [|discriminate]. inversion H; subst.
    destruct (IH a' b eq_refl) as [-> Hc]. split; [reflexivity|]. cbn.
    destruct (N.eqb_spec c DOT); [contradiction | exact Hc].
Qed.

Lemma rv_scan_spec p s pre r : rv_scan p s = Some (pre, r) ->
  s = pre ++ r /\ (count_dots pre <= p)%nat /\ (r <> [] -> count_dots pre = p).
Proof.
  revert s pre r; induction p as [|p IH]; intros s pre r H; cbn in H.
  - inversion H; subst. repeat split; cbn; intros; try lia; try reflexivity.
  - destruct s as [|c s].
    + inversion H; subst. repeat split; cbn; intros; try lia; try reflexivity; try congruence.
    + destruct (index_dot (c :: s)) as [[a b]|] eqn:Ei; [|discriminate].
      destruct (rv_scan p b) as [[pre' r']|] eqn:Er; [|discriminate]. inversion H; subst.
      apply index_dot_spec in Ei as [Es Ha]. destruct (IH _ _ _ Er) as (Hb & Hle & Heq).
      rewrite Es, Hb. split; [now rewrite <- app_assoc|].
      rewrite count_dots_app, Ha. cbn. change (DOT =? DOT) with true. cbn iota. split; [lia|].
      intro Hr. rewrite (Heq Hr). reflexivity.
Qed.

Lemma zero_parts_dots s b : count_dots (zero_parts s b) = count_dots s.
Proof.
  revert b; induction s as [|c s IH]; intro b; cbn; [reflexivity|].
  destruct (N.eqb_spec c DOT) as [->|Hne].
  - cbn. change (DOT =? DOT) with true. cbn iota. now rewrite IH.
  - destruct b; [apply IH|]. cbn. change (48 =? DOT) with false. cbn iota. apply IH.
Qed.
Lemma zero_parts_chars s b : Forall (fun c => c = 48 \/ c = DOT) (zero_parts s b).
Proof.
  revert b; induction s as [|c s IH]; intro b; cbn; [constructor|].
  destruct (c =? DOT); [constructor; [now right | apply IH]|].
  destruct b; [apply IH | constructor; [now left | apply IH]].
Qed.

(* _round_version: either the string is returned unchanged (fewer than prec dots), or a prefix
   holding the first prec dot-terminated parts is kept and in the remainder every part becomes "0";
   the number of parts never changes *)
Lemma round_version_spec v prec r : round_version v prec = ROk r ->
  count_dots r = count_dots v /\
  (r = v \/ exists pre rest, v = pre ++ rest /\ r = pre ++ zero_parts rest false
                             /\ (count_dots pre <= N.to_nat prec)%nat /\ (rest <> [] -> count_dots pre = N.to_nat prec)
                             /\ Forall (fun c => c = 48 \/ c = DOT) (zero_parts rest false)).
Proof.
  unfold round_version. destruct (prec =? 0); [discriminate|].
  destruct (rv_scan (N.to_nat prec) v) as [[pre rest]|] eqn:E; intro H; inversion H; subst.
  - apply rv_scan_spec in E as (Hv & Hle & Heq). split.
    + now rewrite Hv, !count_dots_app, zero_parts_dots.
    + right. exists pre, rest. repeat split; try assumption. apply zero_parts_chars.
  - split; [reflexivity | now left].
Qed.
Lemma round_version_prec0 v : round_version v 0 = RErr E_AssertionError.
Proof. reflexivity. Qed.

(* ------------------------------------------------------------------ the namespace map *)
Lemma assoc_str_app {A} k (a b : list (str * A)) :
  assoc_str k (a ++ b) = match assoc_str k a with Some v => Some v | None => assoc_str k b end.
Proof.
  induction a as [|[k' v] a IH]; cbn; [reflexivity|]. destruct (str_eqb k k'); [reflexivity | exact IH].
Qed.

Definition extends (m m' : list (str * str)) : Prop := forall k u, assoc_str k m = Some u -> assoc_str k m' = Some u.
Lemma extends_refl m : extends m m. Proof. intros k u H. exact H. Qed.
Lemma extends_trans a b c : extends a b -> extends b c -> extends a c.
Proof. intros H1 H2 k u H. now apply H2, H1. Qed.

Lemma ns_set_spec ns uri m m' : ns_set ns uri m = ROk m' -> assoc_str ns m' = Some uri /\ extends m m'.
Proof.
  unfold ns_set. destruct (assoc_str ns m) as [u|] eqn:E.
  - destruct (str_eqb u uri) eqn:Eu; [|discriminate]. intro H; inversion H; subst.
    apply str_eqb_eq' in Eu. subst. split; [exact E | apply extends_refl].
  - intro H; inversion H; subst. split.
    + rewrite assoc_str_app, E. cbn. now rewrite str_eqb_refl'.
    + intros k u Hk. now rewrite assoc_str_app, Hk.
Qed.

(* what one element contributes *)
Definition wanted (vps : list (str * str)) (x : str * option str) (uri : str) : Prop :=
  match assoc_str (before_colon (fst x)) NS_PLUGINS with
  | Some row => plugin_uri vps row = ROk uri
  | None => snd x = Some uri
  end.

Lemma ns_step_spec vps m x m' : ns_step vps m x = ROk m' ->
  extends m m' /\ forall uri, wanted vps x uri -> assoc_str (before_colon (fst x)) m' = Some uri.
Proof.
  unfold ns_step, wanted. destruct (assoc_str (before_colon (fst x)) NS_PLUGINS) as [row|].
  - destruct (plugin_uri vps row) as [uri|e]; [|discriminate]. intro H. apply ns_set_spec in H as [H1 H2].
    split; [exact H2|]. intros u Hu. inversion Hu; subst. exact H1.
  - destruct (snd x) as [uri|].
    + intro H. apply ns_set_spec in H as [H1 H2]. split; [exact H2|]. intros u Hu. inversion Hu; subst. exact H1.
    + intro H; inversion H; subst. split; [apply extends_refl|]. intros u Hu. discriminate.
Qed.

Lemma ns_fold_spec vps xs : forall m m', ns_fold vps m xs = ROk m' ->
  extends m m' /\ forall x uri, In x xs -> wanted vps x uri -> assoc_str (before_colon (fst x)) m' = Some uri.
Proof.
  induction xs as [|x xs IH]; intros m m' H; cbn in H.
  - inversion H; subst. split; [apply extends_refl | intros ? ? []].
  - destruct (ns_step vps m x) as [m1|] eqn:E; [|discriminate].
    apply ns_step_spec in E as [E1 E2]. destruct (IH _ _ H) as [I1 I2]. split; [eapply extends_trans; eassumption|].
    intros y uri [<-|Hin] Hw; [apply I1, E2, Hw | now apply I2].
Qed.

(* update_ns_closes: after a successful recomputation every prefix that an element's type uses
   is bound — to the plugin's URI (with the activated viewpoint's rounded version) when the prefix
   is a known plugin, else to what the element itself has in scope — and the seed prefixes are bound *)
Theorem compute_nsmap_closes vps xs m : compute_nsmap vps xs = ROk m ->
  (forall x uri, In x xs -> wanted vps x uri -> assoc_str (before_colon (fst x)) m = Some uri)
  /\ extends seed_map m.
Proof. unfold compute_nsmap. intro H. apply ns_fold_spec in H as [H1 H2]. split; assumption. Qed.

(* a failing recomputation is an exception before anything is written; success implies that every
   versioned plugin in use had its viewpoint activated *)
Lemma ns_fold_viewpoints vps xs : forall m m', ns_fold vps m xs = ROk m' ->
  forall x row, In x xs -> assoc_str (before_colon (fst x)) NS_PLUGINS = Some row -> exists uri, plugin_uri vps row = ROk uri.
Proof.
  induction xs as [|x xs IH]; intros m m' H y row Hin Hrow; [destruct Hin|]. cbn in H.
  destruct (ns_step vps m x) as [m1|] eqn:E; [|discriminate]. destruct Hin as [<-|Hin].
  - unfold ns_step in E. rewrite Hrow in E. destruct (plugin_uri vps row) as [uri|]; [now exists uri | discriminate].
  - eapply IH; eassumption.
Qed.

Lemma pinsert_perm x l : Permutation (pinsert x l) (x :: l).
Proof.
  induction l as [|y l IH]; cbn; [reflexivity|]. destruct (str_leb (fst x) (fst y)); [reflexivity|].
  rewrite IH. apply perm_swap.
Qed.
Lemma psort_perm l : Permutation (psort l) l.
Proof. induction l as [|x l IH]; cbn; [reflexivity|]. rewrite pinsert_perm. now constructor. Qed.
Definition p_le (a b : str * str) : Prop := str_leb (fst a) (fst b) = true.
Lemma pinsert_sorted x l : Sorted p_le l -> Sorted p_le (pinsert x l).
Proof.
  induction l as [|y l IH]; intro H; cbn.
  - repeat constructor.
  - destruct (str_leb (fst x) (fst y)) eqn:E.
    + constructor; [exact H | constructor; exact E].
    + inversion H as [|? ? Hs Hh]; subst. constructor; [now apply IH|].
      destruct l as [|z l]; cbn.
      * constructor. now apply str_leb_total.
      * destruct (str_leb (fst x) (fst z)); constructor; [now apply str_leb_total | now inversion Hh].
Qed.
Lemma psort_sorted l : Sorted p_le (psort l).
Proof. induction l as [|x l IH]; cbn; [constructor | now apply pinsert_sorted]. Qed.

Theorem update_namespaces_spec old vps xs out : update_namespaces old vps xs = ROk out ->
  exists m, compute_nsmap vps xs = ROk m /\
    match out with
    | None => dict_eqb old m = true                             (* same root object, nothing replaced *)
    | Some m' => dict_eqb old m = false /\ Permutation m' m /\ Sorted p_le m'
    end.
Proof.
  unfold update_namespaces. destruct (compute_nsmap vps xs) as [m|]; [|discriminate].
  destruct (dict_eqb old m) eqn:E; intro H; inversion H; subst; exists m; split; try reflexivity.
  - exact E.
  - split; [exact E|]. split; [apply psort_perm | apply psort_sorted].
Qed.

(* ------------------------------------------------------------------ what reload gives back for attribute values *)
Lemma unmap_attr_value nsmap kv n w : unmap_attr nsmap kv = ROk (n, w) -> XmlRead.dec_val w = snd kv.
Proof.
  unfold unmap_attr. destruct (unmap nsmap (fst kv)); [|discriminate]. intro H; inversion H; subst.
  unfold XmlRead.dec_val. now rewrite escape_text_roundtrip.
Qed.

(* ------------------------------------------------------------------ the two content-losing behaviours *)
Fixpoint has_cdata_end (s : str) : bool :=
  match s with
  | 93 :: ((93 :: 62 :: _) as r) => true
  | _ :: r => has_cdata_end r
  | [] => false
  end.
Lemma cdata_end_written cfg : fix_cdata cfg = false ->
  has_cdata_end (fst (ser_text cfg TEXT_CLASS true (Some [97; 93; 93; 62; 98]) 0)) = true.
Proof. destruct cfg as [c b]. cbn. intros ->. vm_compute. reflexivity. Qed.
Lemma cdata_end_fixed_example cfg : fix_cdata cfg = true ->
  fst (ser_text cfg TEXT_CLASS true (Some [97; 93; 93; 62; 98]) 0) = [97; 93; 93; 38; 103; 116; 59; 98].
Proof. destruct cfg as [c b]. cbn. intros ->. vm_compute. reflexivity. Qed.
Lemma blank_leaf_dropped cfg : fix_blank_leaf cfg = false -> text_written cfg true (Some [32]) = false.
Proof. destruct cfg as [c b]. cbn. intros ->. vm_compute. reflexivity. Qed.
Lemma blank_leaf_kept cfg t : fix_blank_leaf cfg = true -> t <> [] -> text_written cfg true (Some t) = true.
Proof. destruct cfg as [c b]. cbn. intros -> H. destruct t; [contradiction | reflexivity]. Qed.
