(* Proofs about the writer model: escaping (T1), attribute order (T2), wrapping and
   the pos/column relation (T3). *)
From Coq Require Import ZArith NArith List Bool Lia Permutation Sorted.
Import ListNotations.
From V Require Import Model.Val Model.XmlTree Gen.ExsConsts Model.SerExs Model.XmlRead.
Open Scope N_scope.

(* ------------------------------------------------------------------ basics *)
Lemma str_eqb_refl' s : str_eqb s s = true.
Proof. induction s as [|c s IH]; cbn; [reflexivity|]. now rewrite N.eqb_refl, IH. Qed.

Lemma str_eqb_eq' a b : str_eqb a b = true <-> a = b.
Proof.
  revert b; induction a as [|x a IH]; intros [|y b]; cbn; split; intro H; try congruence; try reflexivity.
  - apply andb_true_iff in H as [H1 H2]. apply N.eqb_eq in H1. apply IH in H2. congruence.
  - inversion H; subst. now rewrite N.eqb_refl, str_eqb_refl'.
Qed.

(* ------------------------------------------------------------------ hex *)
Lemma hexval_app s1 s2 a :
  hexval (s1 ++ s2) a = match hexval s1 a with Some v => hexval s2 v | None => None end.
Proof.
  revert a; induction s1 as [|c s1 IH]; intro a; cbn; [reflexivity|].
  destruct (hex_digit_val c); [apply IH | reflexivity].
Qed.

Lemma hex_digit_val_digit d : d < 16 -> hex_digit_val (hex_digit d) = Some d.
Proof.
  intro H. unfold hex_digit, hex_digit_val.
  destruct (N.ltb_spec d 10) as [L|L].
  - replace ((48 <=? 48 + d) && (48 + d <=? 57)) with true.
    + f_equal; lia.
    + symmetry; apply andb_true_iff; split; apply N.leb_le; lia.
  - replace ((48 <=? 55 + d) && (55 + d <=? 57)) with false.
    + replace ((65 <=? 55 + d) && (55 + d <=? 70)) with true.
      * f_equal; lia.
      * symmetry; apply andb_true_iff; split; apply N.leb_le; lia.
    + symmetry; apply andb_false_iff; right; apply N.leb_gt; lia.
Qed.

Lemma hex_go_acc fuel n acc : hex_go fuel n acc = hex_go fuel n [] ++ acc.
Proof.
  revert n acc; induction fuel as [|f IH]; intros n acc; cbn [hex_go]; [reflexivity|].
  destruct (n / 16 =? 0).
  - reflexivity.
  - rewrite IH. rewrite (IH (n / 16) [hex_digit (n mod 16)]). now rewrite <- app_assoc.
Qed.

Lemma hex_go_val fuel n : n < 16 ^ N.of_nat fuel -> (0 < fuel)%nat -> hexval (hex_go fuel n []) 0 = Some n.
Proof.
  revert n; induction fuel as [|f IH]; intros n Hn Hf; [lia|].
  cbn [hex_go].
  assert (Hm : n mod 16 < 16) by (apply N.mod_lt; lia).
  destruct (N.eqb_spec (n / 16) 0) as [E|E].
  - cbn [hexval]. rewrite hex_digit_val_digit by exact Hm. cbn [hexval]. f_equal.
    pose proof (N.div_mod n 16 ltac:(lia)). lia.
  - rewrite hex_go_acc, hexval_app.
    assert (Hd : n / 16 < 16 ^ N.of_nat f).
    { apply N.div_lt_upper_bound; [lia|]. rewrite Nat2N.inj_succ, N.pow_succ_r' in Hn. exact Hn. }
    destruct f as [|f'].
    { change (N.of_nat 0) with 0 in Hd. rewrite N.pow_0_r in Hd. exfalso. clear - E Hd. remember (n / 16) as q. lia. }
    rewrite IH by (try exact Hd; lia).
    cbn [hexval]. rewrite hex_digit_val_digit by exact Hm. cbn [hexval]. f_equal.
    pose proof (N.div_mod n 16 ltac:(lia)). lia.
Qed.

Lemma pos_lt_pow2 p : N.pos p < 2 ^ N.of_nat (Pos.size_nat p).
Proof.
  induction p as [p IH|p IH|]; cbn [Pos.size_nat]; rewrite ?Nat2N.inj_succ, ?N.pow_succ_r'; try lia.
Qed.

Lemma N_lt_pow16_size n : n < 16 ^ N.of_nat (S (N.size_nat n)).
Proof.
  rewrite Nat2N.inj_succ, N.pow_succ_r'.
  assert (H : n < 2 ^ N.of_nat (N.size_nat n) \/ n = 0).
  { destruct n as [|p]; [now right|left]. apply pos_lt_pow2. }
  assert (H2 : 2 ^ N.of_nat (N.size_nat n) <= 16 ^ N.of_nat (N.size_nat n)).
  { apply N.pow_le_mono_l. lia. }
  assert (0 < 16 ^ N.of_nat (N.size_nat n)) by (apply N.neq_0_lt_0, N.pow_nonzero; lia).
  destruct H; lia.
Qed.

Lemma hex_roundtrip n : hexval (hex n) 0 = Some n.
Proof. unfold hex. apply hex_go_val; [apply N_lt_pow16_size | lia]. Qed.

(* hex digits are plain ASCII letters/digits *)
Definition plain (c : N) : bool := ((48 <=? c) && (c <=? 57)) || ((65 <=? c) && (c <=? 90)) || ((97 <=? c) && (c <=? 122)).
Lemma hex_digit_plain d : d < 16 -> plain (hex_digit d) = true.
Proof.
  intro H. unfold plain, hex_digit. destruct (N.ltb_spec d 10).
  - apply orb_true_iff; left; apply orb_true_iff; left. apply andb_true_iff; split; apply N.leb_le; lia.
  - apply orb_true_iff; left; apply orb_true_iff; right. apply andb_true_iff; split; apply N.leb_le; lia.
Qed.
Lemma hex_go_plain fuel n acc : Forall (fun c => plain c = true) acc -> Forall (fun c => plain c = true) (hex_go fuel n acc).
Proof.
  revert n acc; induction fuel as [|f IH]; intros n acc H; cbn [hex_go]; [exact H|].
  assert (Hp : plain (hex_digit (n mod 16)) = true) by (apply hex_digit_plain, N.mod_lt; lia).
  destruct (n / 16 =? 0); [constructor; assumption | apply IH; constructor; assumption].
Qed.
Lemma hex_plain n : Forall (fun c => plain c = true) (hex n).
Proof. apply hex_go_plain. constructor. Qed.
Lemma hex_nonempty n : hex n <> [].
Proof.
  unfold hex. cbn [hex_go]. destruct (n / 16 =? 0); [discriminate|].
  rewrite hex_go_acc. intro H. apply app_eq_nil in H as [_ H]. discriminate.
Qed.

(* ------------------------------------------------------------------ unescape ∘ escape *)
Lemma unesc_ref_body body r acc :
  ~ In SEMI body ->
  unesc (body ++ SEMI :: r) (Some acc) =
  match decode_ref (rev acc ++ body) with
  | Some ch => match unesc r None with Some o => Some (ch :: o) | None => None end
  | None => None
  end.
Proof.
  revert acc; induction body as [|c body IH]; intros acc Hn.
  - cbn. rewrite app_nil_r. reflexivity.
  - cbn [app unesc]. destruct (N.eqb_spec c SEMI) as [E|E].
    + exfalso. apply Hn. now left.
    + rewrite IH by (intro; apply Hn; now right). cbn [rev]. now rewrite <- app_assoc.
Qed.

(* a reference "&" body ";" that decodes to c *)
Definition good_ref (c : N) (e : str) : Prop :=
  exists body, e = AMP :: body ++ [SEMI] /\ ~ In SEMI body /\ decode_ref body = Some c.

Lemma unesc_good_ref c e r : good_ref c e ->
  unesc (e ++ r) None = match unesc r None with Some o => Some (c :: o) | None => None end.
Proof.
  intros (body & -> & Hn & Hd). cbn [app unesc]. rewrite N.eqb_refl.
  rewrite <- app_assoc. cbn [app]. rewrite unesc_ref_body by exact Hn. cbn [rev app]. now rewrite Hd.
Qed.

Lemma plain_not c x : plain c = true -> plain x = false -> c <> x.
Proof. intros H1 H2 ->. congruence. Qed.

Lemma hex_ref_good c : good_ref c (AMP :: 35 :: 120 :: hex c ++ [SEMI]).
Proof.
  exists (35 :: 120 :: hex c). split; [reflexivity|]. split.
  - intros [H|[H|H]]; try discriminate.
    pose proof (hex_plain c) as F. rewrite Forall_forall in F. apply F in H. discriminate.
  - unfold decode_ref. destruct (hex c) eqn:E; [now apply hex_nonempty in E|].
    rewrite <- E. apply hex_roundtrip.
Qed.

(* boolean check of [good_ref] for the named entities (finite table) *)
Definition named_ok (c : N) : bool :=
  match assocN c ENTITY_NAMES with
  | Some n => negb (existsb (N.eqb SEMI) n) && match decode_ref n with Some c' => c' =? c | None => false end
  | None => false
  end.
Lemma named_ok_good c : named_ok c = true -> good_ref c (AMP :: match assocN c ENTITY_NAMES with Some n => n | None => [] end ++ [SEMI]).
Proof.
  unfold named_ok. destruct (assocN c ENTITY_NAMES) as [n|]; [|discriminate].
  intro H. apply andb_true_iff in H as [H1 H2].
  exists n. split; [reflexivity|]. split.
  - intro Hin. apply negb_true_iff in H1. rewrite <- not_true_iff_false in H1. apply H1.
    apply existsb_exists. exists SEMI. split; [exact Hin | apply N.eqb_refl].
  - destruct (decode_ref n) as [c'|]; [|discriminate]. apply N.eqb_eq in H2. now subst.
Qed.

Definition class_named_ok (cls : list (N * N)) : Prop :=
  forall c, in_ranges c cls = true -> (ORD_LOW <=? c) && (c <=? ORD_HIGH) = true -> named_ok c = true.

Lemma escape_char_good cls c : class_named_ok cls -> in_ranges c cls = true -> good_ref c (escape_char c).
Proof.
  intros Hc Hin. unfold escape_char. destruct ((ORD_LOW <=? c) && (c <=? ORD_HIGH)) eqn:E.
  - apply named_ok_good. now apply Hc.
  - apply hex_ref_good.
Qed.

Lemma escape_roundtrip_gen cls : in_ranges AMP cls = true -> class_named_ok cls ->
  forall s, unescape (escape cls s) = Some s.
Proof.
  intros Hamp Hc s. unfold unescape, escape. induction s as [|c s IH]; [reflexivity|].
  cbn [flat_map]. destruct (in_ranges c cls) eqn:E.
  - rewrite (unesc_good_ref c) by (now apply escape_char_good with cls). now rewrite IH.
  - cbn [app unesc]. destruct (N.eqb_spec c AMP) as [->|_]; [congruence|]. now rewrite IH.
Qed.

(* enumeration of a class, for finite checks *)
Fixpoint range_list (lo : N) (n : nat) : list N := match n with O => [] | S k => lo :: range_list (lo + 1) k end.
Definition members (cls : list (N * N)) : list N :=
  flat_map (fun r => range_list (fst r) (N.to_nat (snd r + 1 - fst r))) cls.
Lemma in_range_list c lo n : lo <= c -> c < lo + N.of_nat n -> In c (range_list lo n).
Proof.
  revert lo; induction n as [|n IH]; intros lo H1 H2; [lia|].
  cbn. destruct (N.eq_dec lo c) as [->|Hne]; [now left|right]. apply IH; lia.
Qed.
Lemma in_members c cls : in_ranges c cls = true -> In c (members cls).
Proof.
  induction cls as [|[lo hi] r IH]; cbn [in_ranges]; [discriminate|].
  intro H. apply orb_true_iff in H as [H|H].
  - apply andb_true_iff in H as [H1 H2]. apply N.leb_le in H1, H2.
    unfold members. cbn [flat_map]. apply in_or_app; left. cbn [fst snd].
    apply in_range_list; [exact H1|]. rewrite N2Nat.id. lia.
  - unfold members. cbn [flat_map]. apply in_or_app; right. now apply IH.
Qed.

Definition class_named_okb (cls : list (N * N)) : bool :=
  forallb (fun c => negb ((ORD_LOW <=? c) && (c <=? ORD_HIGH)) || named_ok c) (members cls).
Lemma class_named_okb_ok cls : class_named_okb cls = true -> class_named_ok cls.
Proof.
  unfold class_named_okb, class_named_ok. intros H c Hin Hr.
  rewrite forallb_forall in H. specialize (H c (in_members _ _ Hin)). rewrite Hr in H. exact H.
Qed.

Lemma escape_text_roundtrip s : unescape (escape TEXT_CLASS s) = Some s.
Proof. apply escape_roundtrip_gen; [vm_compute; reflexivity | apply class_named_okb_ok; vm_compute; reflexivity]. Qed.

(* ------------------------------------------------------------------ safety of the escaped text *)
(* characters that may not appear raw in a double-quoted attribute value / in character data *)
Definition raw_unsafe (c : N) : bool := in_ranges c TEXT_CLASS && negb (c =? AMP).
Definition names_safeb : bool :=
  forallb (fun p => forallb (fun c => negb (in_ranges c TEXT_CLASS)) (snd p)) ENTITY_NAMES.

Lemma plain_not_in_text_class : forallb (fun c => negb (in_ranges c TEXT_CLASS)) (members [(48,57);(65,90);(97,122)]) = true.
Proof. vm_compute. reflexivity. Qed.
Lemma plain_safe c : plain c = true -> in_ranges c TEXT_CLASS = false.
Proof.
  intro H. pose proof plain_not_in_text_class as F. rewrite forallb_forall in F.
  assert (Hin : In c (members [(48,57);(65,90);(97,122)])).
  { apply in_members. unfold plain in H. cbn [in_ranges]. now rewrite orb_false_r, <- orb_assoc in *. }
  specialize (F c Hin). now apply negb_true_iff in F.
Qed.

Lemma escape_char_safe m c : in_ranges m TEXT_CLASS = true -> In c (escape_char m) -> raw_unsafe c = false.
Proof.
  intros Hm. unfold escape_char. destruct ((ORD_LOW <=? m) && (m <=? ORD_HIGH)) eqn:E.
  - (* named: finite check over the members *)
    assert (F : forallb (fun m => negb ((ORD_LOW <=? m) && (m <=? ORD_HIGH)) ||
                 forallb (fun c => negb (raw_unsafe c))
                   (AMP :: match assocN m ENTITY_NAMES with Some n => n | None => [] end ++ [SEMI])) (members TEXT_CLASS) = true)
      by (vm_compute; reflexivity).
    rewrite forallb_forall in F. specialize (F m (in_members _ _ Hm)). rewrite E in F. cbn [negb orb] in F.
    rewrite forallb_forall in F. intro Hin. specialize (F c Hin). now apply negb_true_iff in F.
  - intros [<-|[<-|[<-|Hin]]]; try (vm_compute; reflexivity).
    apply in_app_or in Hin as [Hin|[<-|[]]]; [|vm_compute; reflexivity].
    pose proof (hex_plain m) as F. rewrite Forall_forall in F. apply F in Hin.
    unfold raw_unsafe. now rewrite (plain_safe _ Hin).
Qed.

Lemma escape_text_safe s c : In c (escape TEXT_CLASS s) -> raw_unsafe c = false.
Proof.
  unfold escape. intro H. apply in_flat_map in H as (m & _ & H).
  destruct (in_ranges m TEXT_CLASS) eqn:E.
  - now apply escape_char_safe with m.
  - destruct H as [<-|[]]. unfold raw_unsafe. now rewrite E.
Qed.

(* the comment pattern: byte-canonical (idempotent), never tree-faithful *)
Definition comment_class_closedb : bool :=
  forallb (fun m => forallb (fun c => negb (in_ranges c COMMENT_TEXT_CLASS)) (escape_char m)) (members COMMENT_TEXT_CLASS).
Lemma escape_comment_no_member s c : In c (escape COMMENT_TEXT_CLASS s) -> in_ranges c COMMENT_TEXT_CLASS = false.
Proof.
  unfold escape. intro H. apply in_flat_map in H as (m & _ & H).
  destruct (in_ranges m COMMENT_TEXT_CLASS) eqn:E.
  - assert (F : comment_class_closedb = true) by (vm_compute; reflexivity).
    unfold comment_class_closedb in F. rewrite forallb_forall in F. specialize (F m (in_members _ _ E)).
    rewrite forallb_forall in F. specialize (F c H). now apply negb_true_iff in F.
  - destruct H as [<-|[]]. exact E.
Qed.
Lemma escape_id cls s : (forall c, In c s -> in_ranges c cls = false) -> escape cls s = s.
Proof.
  induction s as [|c s IH]; intro H; [reflexivity|]. unfold escape in *. cbn [flat_map].
  rewrite (H c (or_introl eq_refl)). cbn [app]. f_equal. apply IH. intros x Hx. apply H. now right.
Qed.
Lemma escape_comment_idem s : escape COMMENT_TEXT_CLASS (escape COMMENT_TEXT_CLASS s) = escape COMMENT_TEXT_CLASS s.
Proof. apply escape_id. intros c. apply escape_comment_no_member. Qed.

(* ================================================================== T2: attribute order *)
Lemma str_leb_total a b : str_leb a b = false -> str_leb b a = true.
Proof.
  revert b; induction a as [|x a IH]; intros [|y b]; cbn; try congruence.
  destruct (N.ltb_spec x y), (N.ltb_spec y x); try congruence; try lia. apply IH.
Qed.
Lemma str_leb_refl a : str_leb a a = true.
Proof. induction a as [|x a IH]; cbn; [reflexivity|]. rewrite N.ltb_irrefl. exact IH. Qed.
Lemma str_leb_trans a b c : str_leb a b = true -> str_leb b c = true -> str_leb a c = true.
Proof.
  revert b c; induction a as [|x a IH]; intros [|y b] [|z c]; cbn; try congruence.
  destruct (N.ltb_spec x y), (N.ltb_spec y x), (N.ltb_spec y z), (N.ltb_spec z y), (N.ltb_spec x z), (N.ltb_spec z x);
    try congruence; try lia. apply IH.
Qed.
Lemma str_leb_antisym a b : str_leb a b = true -> str_leb b a = true -> a = b.
Proof.
  revert b; induction a as [|x a IH]; intros [|y b]; cbn; try congruence.
  destruct (N.ltb_spec x y), (N.ltb_spec y x); try congruence; try lia.
  intros H1 H2. f_equal; [lia | now apply IH].
Qed.

Lemma ns_leb_total a b : ns_leb a b = false -> ns_leb b a = true.
Proof.
  unfold ns_leb. destruct (N.ltb_spec (ns_rank a) (ns_rank b)), (N.ltb_spec (ns_rank b) (ns_rank a)); try congruence; try lia.
  apply str_leb_total.
Qed.
Lemma ns_leb_trans a b c : ns_leb a b = true -> ns_leb b c = true -> ns_leb a c = true.
Proof.
  unfold ns_leb.
  destruct (N.ltb_spec (ns_rank a) (ns_rank b)), (N.ltb_spec (ns_rank b) (ns_rank a)),
           (N.ltb_spec (ns_rank b) (ns_rank c)), (N.ltb_spec (ns_rank c) (ns_rank b)),
           (N.ltb_spec (ns_rank a) (ns_rank c)), (N.ltb_spec (ns_rank c) (ns_rank a)); try congruence; try lia.
  apply str_leb_trans.
Qed.

Definition ns_le (a b : str * str) : Prop := ns_leb (fst a) (fst b) = true.

Lemma ns_insert_perm x l : Permutation (ns_insert x l) (x :: l).
Proof.
  induction l as [|y l IH]; cbn; [reflexivity|].
  destruct (ns_leb (fst x) (fst y)); [reflexivity|].
  rewrite IH. apply perm_swap.
Qed.
Lemma ns_sort_perm l : Permutation (ns_sort l) l.
Proof.
  induction l as [|x l IH]; cbn; [reflexivity|]. rewrite ns_insert_perm. now constructor.
Qed.
Lemma ns_insert_sorted x l : Sorted ns_le l -> Sorted ns_le (ns_insert x l).
Proof.
  induction l as [|y l IH]; intro H; cbn.
  - repeat constructor.
  - destruct (ns_leb (fst x) (fst y)) eqn:E.
    + constructor; [exact H | constructor; exact E].
    + inversion H as [|? ? Hs Hh]; subst. constructor; [now apply IH|].
      destruct l as [|z l]; cbn.
      * constructor. now apply ns_leb_total.
      * destruct (ns_leb (fst x) (fst z)); constructor; [now apply ns_leb_total | now inversion Hh].
Qed.
Lemma ns_sort_sorted l : Sorted ns_le (ns_sort l).
Proof. induction l as [|x l IH]; cbn; [constructor | now apply ns_insert_sorted]. Qed.
Lemma ns_sort_strongly_sorted l : StronglySorted ns_le (ns_sort l).
Proof.
  apply Sorted_StronglySorted; [|apply ns_sort_sorted].
  intros a b c. unfold ns_le. apply ns_leb_trans.
Qed.
Lemma StronglySorted_filter {A} (R : A -> A -> Prop) f l : StronglySorted R l -> StronglySorted R (filter f l).
Proof.
  induction 1 as [|x l Hs IH Hf]; cbn; [constructor|].
  destruct (f x); [|exact IH]. constructor; [exact IH|].
  rewrite Forall_forall in *. intros y Hy. apply filter_In in Hy as [Hy _]. now apply Hf.
Qed.

(* the namespace declarations written on an element: those of element.nsmap whose prefix the
   parent does not have, in (rank, prefix) order, each spelled xmlns:<prefix> *)
Lemma ns_decls_spec nsmap parent_ns :
  exists l, ns_decls nsmap parent_ns = map (fun p => (XMLNS_PREFIX ++ fst p, snd p)) l
    /\ StronglySorted ns_le l
    /\ (forall p, In p l <-> In p nsmap /\ mem_str (fst p) parent_ns = false).
Proof.
  exists (filter (fun p => negb (mem_str (fst p) parent_ns)) (ns_sort nsmap)). split; [reflexivity|]. split.
  - apply StronglySorted_filter, ns_sort_strongly_sorted.
  - intro p. rewrite filter_In, negb_true_iff. split; intros [H1 H2]; split; try exact H2.
    + eapply Permutation_in; [apply ns_sort_perm | exact H1].
    + eapply Permutation_in; [symmetry; apply ns_sort_perm | exact H1].
Qed.

(* what the rank says: a lower rank comes first, whatever the names *)
Lemma ns_le_rank a b : ns_rank (fst a) < ns_rank (fst b) -> ns_le a b.
Proof. intro H. unfold ns_le, ns_leb. apply N.ltb_lt in H. now rewrite H. Qed.

Lemma qname_eqb_eq a b : qname_eqb a b = true <-> a = b.
Proof.
  destruct a as [u l], b as [u' l']. unfold qname_eqb. cbn. rewrite andb_true_iff, !str_eqb_eq'.
  split; [intros [-> ->]; reflexivity | intro H; inversion H; auto].
Qed.
Lemma qname_eqb_refl a : qname_eqb a a = true.
Proof. now apply qname_eqb_eq. Qed.
Lemma qname_eqb_sym a b : qname_eqb a b = qname_eqb b a.
Proof.
  destruct (qname_eqb a b) eqn:E.
  - apply qname_eqb_eq in E. subst. symmetry. apply qname_eqb_refl.
  - destruct (qname_eqb b a) eqn:E'; [|reflexivity]. apply qname_eqb_eq in E'. subst. now rewrite qname_eqb_refl in E.
Qed.

(* generic over the priority list *)
Definition sel (P : list qname) (attrs : list (qname * str)) : list (qname * str) :=
  flat_map (fun k => match find_attr k attrs with Some v => [(k, v)] | None => [] end) P.
Definition inP (P : list qname) (kv : qname * str) : bool := existsb (fun k => qname_eqb (fst kv) k) P.
Definition PRIO : list qname := map (fun p => QN (fst p) (snd p)) PRIORITY_ATTRS.

Lemma prio_present_sel attrs : prio_present attrs = sel PRIO attrs.
Proof.
  unfold prio_present, sel, PRIO. induction PRIORITY_ATTRS as [|p l IH]; cbn; [reflexivity|]. now rewrite IH.
Qed.
Lemma is_priority_inP kv : is_priority (fst kv) = inP PRIO kv.
Proof.
  unfold is_priority, inP, PRIO. induction PRIORITY_ATTRS as [|p l IH]; cbn; [reflexivity|]. now rewrite IH.
Qed.

Lemma filter_none {A} (f : A -> bool) l : (forall x, In x l -> f x = false) -> filter f l = [].
Proof.
  induction l as [|x l IH]; intro H; cbn; [reflexivity|].
  rewrite (H x (or_introl eq_refl)). apply IH. intros y Hy. apply H. now right.
Qed.
Lemma filter_key_find k attrs : NoDup (map fst attrs) ->
  filter (fun kv => qname_eqb (fst kv) k) attrs = match find_attr k attrs with Some v => [(k, v)] | None => [] end.
Proof.
  induction attrs as [|[k' v] r IH]; intro H; cbn; [reflexivity|].
  inversion H as [|? ? Hn Hd]; subst. rewrite (qname_eqb_sym k k').
  destruct (qname_eqb k' k) eqn:E.
  - apply qname_eqb_eq in E. subst k'. f_equal. apply filter_none.
    intros [k2 v2] Hin. cbn. destruct (qname_eqb k2 k) eqn:E2; [|reflexivity].
    apply qname_eqb_eq in E2. subst. exfalso. apply Hn. change k with (fst (k, v2)). now apply in_map.
  - now apply IH.
Qed.
Lemma filter_or_disjoint {A} (p q : A -> bool) l : (forall x, In x l -> p x = true -> q x = false) ->
  Permutation (filter (fun x => p x || q x) l) (filter p l ++ filter q l).
Proof.
  induction l as [|x l IH]; intro H; cbn; [reflexivity|].
  assert (IH' := IH (fun y Hy => H y (or_intror Hy))).
  destruct (p x) eqn:Ep; cbn.
  - rewrite (H x (or_introl eq_refl) Ep). now constructor.
  - destruct (q x); [|exact IH']. rewrite IH'. apply Permutation_middle.
Qed.
Lemma sel_filter P attrs : NoDup P -> NoDup (map fst attrs) -> Permutation (sel P attrs) (filter (inP P) attrs).
Proof.
  intros HP Ha. induction P as [|k P IH].
  - cbn. rewrite filter_none; [reflexivity | reflexivity].
  - inversion HP as [|? ? Hn Hd]; subst. unfold sel. cbn [flat_map]. fold (sel P attrs).
    rewrite <- (filter_key_find k attrs Ha).
    assert (Heq : filter (inP (k :: P)) attrs = filter (fun kv => qname_eqb (fst kv) k || inP P kv) attrs) by reflexivity.
    rewrite Heq, filter_or_disjoint.
    + apply Permutation_app_head. now apply IH.
    + intros [k2 v2] _ E. cbn in E. apply qname_eqb_eq in E. subst k2.
      unfold inP. cbn. destruct (existsb (fun k0 => qname_eqb k k0) P) eqn:Ex; [|reflexivity].
      apply existsb_exists in Ex as (k0 & Hin & Ek). apply qname_eqb_eq in Ek. subst. contradiction.
Qed.
Lemma filter_partition {A} (f : A -> bool) l : Permutation (filter f l ++ filter (fun x => negb (f x)) l) l.
Proof.
  induction l as [|x l IH]; cbn; [reflexivity|]. destruct (f x); cbn.
  - now constructor.
  - rewrite <- Permutation_middle. now constructor.
Qed.

Fixpoint nodup_qb (l : list qname) : bool :=
  match l with [] => true | x :: r => negb (existsb (qname_eqb x) r) && nodup_qb r end.
Lemma nodup_qb_ok l : nodup_qb l = true -> NoDup l.
Proof.
  induction l as [|x l IH]; cbn; [constructor|]. intro H. apply andb_true_iff in H as [H1 H2].
  constructor; [|now apply IH]. intro Hin. apply negb_true_iff in H1. rewrite <- not_true_iff_false in H1.
  apply H1, existsb_exists. exists x. split; [exact Hin | apply qname_eqb_refl].
Qed.
Lemma PRIO_nodup : NoDup PRIO.
Proof. apply nodup_qb_ok. vm_compute. reflexivity. Qed.

(* the attributes of the element, each exactly once: priority ones first, the rest after *)
Lemma attrs_partition attrs : NoDup (map fst attrs) ->
  Permutation (prio_present attrs ++ rest_attrs attrs) attrs.
Proof.
  intro H. rewrite prio_present_sel. rewrite (sel_filter PRIO attrs PRIO_nodup H).
  unfold rest_attrs.
  assert (E : filter (fun kv => negb (is_priority (fst kv))) attrs = filter (fun kv => negb (inP PRIO kv)) attrs).
  { apply filter_ext. intro kv. now rewrite is_priority_inP. }
  rewrite E. apply filter_partition.
Qed.

(* priority attributes appear in the order of the tuple in the source; only those present *)
Lemma prio_present_order attrs :
  map fst (prio_present attrs) = filter (fun k => match find_attr k attrs with Some _ => true | None => false end) PRIO.
Proof.
  rewrite prio_present_sel. unfold sel. induction PRIO as [|k P IH]; cbn; [reflexivity|].
  rewrite map_app, IH. destruct (find_attr k attrs); reflexivity.
Qed.

Lemma map_res_names nsmap l out : map_res (unmap_attr nsmap) l = ROk out ->
  List.length out = List.length l /\
  forall i kv, nth_error l i = Some kv ->
    exists n, unmap nsmap (fst kv) = ROk n /\ nth_error out i = Some (n, escape TEXT_CLASS (snd kv)).
Proof.
  revert out; induction l as [|x l IH]; intros out H; cbn in H.
  - inversion H; subst. split; [reflexivity|]. intros [|i] kv; discriminate.
  - unfold unmap_attr in H at 1. destruct (unmap nsmap (fst x)) as [n|e] eqn:En; [|discriminate].
    destruct (map_res (unmap_attr nsmap) l) as [r'|e] eqn:Er; [|discriminate].
    inversion H; subst. destruct (IH r' eq_refl) as [Hl Hn]. split; [cbn; now rewrite Hl|].
    intros [|i] kv Hk; cbn in *.
    + inversion Hk; subst. exists n. now split.
    + now apply Hn.
Qed.

Theorem unmapped_attrs_spec nsmap parent_ns attrs l :
  unmapped_attrs nsmap parent_ns attrs = ROk l ->
  exists pr rs,
    l = pr ++ ns_decls nsmap parent_ns ++ rs
    /\ map_res (unmap_attr nsmap) (prio_present attrs) = ROk pr
    /\ map_res (unmap_attr nsmap) (rest_attrs attrs) = ROk rs.
Proof.
  unfold unmapped_attrs. destruct (map_res (unmap_attr nsmap) (prio_present attrs)) as [pr|]; [|discriminate].
  destruct (map_res (unmap_attr nsmap) (rest_attrs attrs)) as [rs|]; [|discriminate].
  intro H. inversion H. now exists pr, rs.
Qed.

(* ================================================================== T3: wrapping, pos = column *)
(* the column reached after writing [s] starting in column [col] *)
Fixpoint column (s : str) (col : N) : N :=
  match s with [] => col | c :: r => if c =? 10 then column r 0 else column r (col + 1) end.
Lemma column_app s1 s2 col : column (s1 ++ s2) col = column s2 (column s1 col).
Proof. revert col; induction s1 as [|c s1 IH]; intro col; cbn; [reflexivity|]. destruct (c =? 10); apply IH. Qed.
Lemma column_no_nl s col : ~ In 10 s -> column s col = col + lenN s.
Proof.
  revert col; induction s as [|c s IH]; intros col H; cbn.
  - unfold lenN. cbn. lia.
  - destruct (N.eqb_spec c 10) as [->|_]; [exfalso; apply H; now left|].
    rewrite IH by (intro; apply H; now right). unfold lenN. cbn [List.length]. lia.
Qed.
Lemma lenN_app a b : lenN (a ++ b) = lenN a + lenN b.
Proof. unfold lenN. rewrite app_length. lia. Qed.
Lemma lenN_cons c a : lenN (c :: a) = 1 + lenN a.
Proof. unfold lenN. cbn [List.length]. lia. Qed.
Lemma column_linesep col : column LINESEP col = 0.
Proof. reflexivity. Qed.

Definition no_nl (s : str) : Prop := ~ In 10 s.
Lemma no_nl_app a b : no_nl a -> no_nl b -> no_nl (a ++ b).
Proof. unfold no_nl. intros Ha Hb H. apply in_app_or in H as [H|H]; auto. Qed.
Lemma indent_no_nl n : no_nl (indent_str n).
Proof.
  unfold indent_str. induction (N.to_nat n) as [|k IH]; cbn [repeat_str]; [intros []|].
  apply no_nl_app; [|exact IH]. unfold no_nl, INDENT. cbn. intuition discriminate.
Qed.

Definition attr_no_nl (nv : str * str) : Prop := no_nl (fst nv) /\ no_nl (snd nv).

(* 3a. the attribute loop keeps pos = column *)
Lemma lay_attrs_column ll root aind ats : no_nl aind -> Forall attr_no_nl ats ->
  forall pos force, column (fst (lay_attrs ll root aind pos force ats)) pos = snd (lay_attrs ll root aind pos force ats).
Proof.
  intros Hai H. induction H as [|[n v] r [Hn Hv] _ IH]; intros pos force; cbn [lay_attrs]; [reflexivity|].
  cbv zeta. cbn [fst snd] in *.
  set (brk := (ll <? pos) || force).
  set (pos1 := if brk then lenN aind else pos + 1).
  set (pos2 := pos1 + (lenN n + lenN v + 3)).
  specialize (IH pos2 (root && str_eqb n ROOT_BREAK_ATTR)).
  destruct (lay_attrs ll root aind pos2 (root && str_eqb n ROOT_BREAK_ATTR) r) as [o p] eqn:E.
  cbn [fst snd] in *.
  rewrite column_app.
  match goal with |- context [column ?sep pos] => assert (Hsep : column sep pos = pos1) end.
  { unfold pos1. destruct brk.
    - rewrite column_app, column_linesep, column_no_nl by exact Hai. lia.
    - reflexivity. }
  rewrite Hsep.
  rewrite column_app, (column_no_nl n) by exact Hn.
  change ([61; QUOT] ++ v ++ [QUOT] ++ o) with (61 :: QUOT :: v ++ [QUOT] ++ o).
  cbn [column]. change (61 =? 10) with false. change (QUOT =? 10) with false. cbn iota.
  rewrite column_app, (column_no_nl v) by exact Hv.
  cbn [app column]. change (QUOT =? 10) with false. cbn iota.
  rewrite <- IH. f_equal. unfold pos2. lia.
Qed.

(* 3b. the wrap rule: where a line break goes *)
Lemma lay_attrs_app ll root aind a1 a2 pos force :
  lay_attrs ll root aind pos force (a1 ++ a2) =
  let '(o1, p1) := lay_attrs ll root aind pos force a1 in
  let force' := match rev a1 with [] => force | (n, _) :: _ => root && str_eqb n ROOT_BREAK_ATTR end in
  let '(o2, p2) := lay_attrs ll root aind p1 force' a2 in (o1 ++ o2, p2).
Proof.
  revert pos force; induction a1 as [|[n v] a1 IH]; intros pos force.
  - cbn. destruct (lay_attrs ll root aind pos force a2); reflexivity.
  - cbn [app lay_attrs]. rewrite IH. cbv zeta.
    destruct (lay_attrs ll root aind _ _ a1) as [o1 p1].
    assert (Hf : match rev ((n, v) :: a1) with [] => force | (n0, _) :: _ => root && str_eqb n0 ROOT_BREAK_ATTR end
               = match rev a1 with [] => root && str_eqb n ROOT_BREAK_ATTR | (n0, _) :: _ => root && str_eqb n0 ROOT_BREAK_ATTR end).
    { cbn [rev]. destruct (rev a1) as [|[n0 v0] r0]; reflexivity. }
    rewrite Hf. destruct (lay_attrs ll root aind p1 _ a2) as [o2 p2].
    f_equal. rewrite <- !app_assoc. cbn [app]. rewrite <- !app_assoc. reflexivity.
Qed.

Theorem wrap_rule ll root aind a1 n v a2 pos :
  no_nl aind -> Forall attr_no_nl a1 ->
  let '(o1, _) := lay_attrs ll root aind pos false a1 in
  let forced := match rev a1 with [] => false | (n0, _) :: _ => root && str_eqb n0 ROOT_BREAK_ATTR end in
  exists o2,
    fst (lay_attrs ll root aind pos false (a1 ++ (n, v) :: a2))
    = o1 ++ (if (ll <? column o1 pos) || forced then LINESEP ++ aind else [32]) ++ n ++ [61; QUOT] ++ v ++ [QUOT] ++ o2.
Proof.
  intros Hai Ha. pose proof (lay_attrs_column ll root aind a1 Hai Ha pos false) as Hc.
  rewrite lay_attrs_app. destruct (lay_attrs ll root aind pos false a1) as [o1 p1]. cbn [fst snd] in Hc.
  cbn [lay_attrs].
  destruct (lay_attrs ll root aind _ _ a2) as [o2 p2]. exists o2. cbn [fst]. rewrite Hc. reflexivity.
Qed.

(* 3c. pos = column for whole elements without character data *)
Lemma relem_ind' (P : relem -> Prop) :
  (forall t a e tx ch tl, Forall P ch -> P (RElem t a e tx ch tl)) -> forall r, P r.
Proof.
  intro H. fix IH 1. intros [t a e tx ch tl]. apply H.
  induction ch as [|c ch IHc]; constructor; [apply IH | exact IHc].
Qed.

(* attribute-only trees: no text, no tails, ASCII tags, no raw newline in names/values, and no
   childless element of an always-expanded tag (for which pos is one short, see [pos_short_expanded]) *)
Inductive attr_only : relem -> Prop :=
| AO t a e ch : Forall (fun c => c < 128) t -> no_nl t -> Forall attr_no_nl a -> Forall attr_only ch ->
                e && is_nil ch = false ->
                attr_only (RElem t a e None ch None).

Lemma utf8_len_ascii t : Forall (fun c => c < 128) t -> utf8_len t = lenN t.
Proof.
  induction 1 as [|c t Hc _ IH]; [reflexivity|]. cbn [utf8_len]. rewrite IH, lenN_cons.
  unfold utf8_width. apply N.ltb_lt in Hc. now rewrite Hc.
Qed.

Lemma lay_children_column lay cfg cind ch :
  no_nl cind ->
  Forall (fun c => forall pos, column (fst (lay pos c)) pos = snd (lay pos c)) ch ->
  forall pos col tc, (ch = [] \/ tc = true -> col = pos) ->
    let '(o, p, tc') := lay_children lay cfg cind None ch pos tc in
    column o col = p /\ tc' = (if is_nil ch then tc else false).
Proof.
  intros Hci H. induction H as [|c ch Hc _ IH]; intros pos col tc Hcol; cbn [lay_children is_nil].
  - split; [cbn; apply Hcol; now left | reflexivity].
  - set (posc := if tc then pos else lenN cind).
    specialize (Hc posc). destruct (lay posc c) as [o p]. cbn [fst snd] in Hc.
    cbn [nonblank_opt]. specialize (IH p p false (fun _ => eq_refl)).
    destruct (lay_children lay cfg cind None ch p false) as [[ro pr] tcr]. destruct IH as [IH1 IH2].
    split.
    + rewrite column_app.
      match goal with |- context [column ?pre col] => assert (Hpre : column pre col = posc) end.
      { unfold posc. destruct tc; [cbn; apply Hcol; now right|].
        rewrite column_app, column_linesep, column_no_nl by exact Hci. lia. }
      rewrite Hpre, column_app, Hc. cbn [app]. exact IH1.
    + rewrite IH2. destruct ch; reflexivity.
Qed.

Theorem pos_is_column cfg ll r : attr_only r ->
  forall root ind pos, column (fst (lay_elem cfg ll root ind pos r)) pos = snd (lay_elem cfg ll root ind pos r).
Proof.
  induction r as [t a e tx ch tl IH] using relem_ind'. intros Hao root ind pos.
  inversion Hao as [? ? ? ? Ht Htn Ha Hch Hex]; subst.
  cbn [lay_elem]. rewrite (utf8_len_ascii t Ht).
  pose proof (lay_attrs_column ll root (indent_str (ind + 2)) a (indent_no_nl _) Ha (pos + 1 + lenN t) false) as Hat.
  destruct (lay_attrs ll root (indent_str (ind + 2)) (pos + 1 + lenN t) false a) as [ao pos1]. cbn [fst snd] in Hat.
  assert (Hhead : column (LT :: t ++ ao) pos = pos1).
  { cbn [column]. change (LT =? 10) with false. cbn iota. rewrite column_app, (column_no_nl t) by exact Htn.
    rewrite <- Hat. f_equal; lia. }
  cbn [is_none text_written andb].
  destruct (is_nil ch && negb e) eqn:Eleaf; cbn [fst snd].
  - rewrite column_app, Hhead. cbn. lia.
  - assert (Hne : ch <> []).
    { intros ->. cbn in Eleaf, Hex. destruct e; discriminate. }
    assert (Hall : Forall (fun c => forall p, column (fst (lay_elem cfg ll false (ind + 1) p c)) p = snd (lay_elem cfg ll false (ind + 1) p c)) ch).
    { rewrite Forall_forall in *. intros c Hc p. apply IH; [exact Hc | now apply Hch]. }
    pose proof (lay_children_column (fun posc c => lay_elem cfg ll false (ind + 1) posc c) cfg (indent_str (ind + 1)) ch
                  (indent_no_nl _) Hall pos1 (pos1 + 1) false) as Hc.
    destruct (lay_children _ cfg (indent_str (ind + 1)) None ch pos1 false) as [[co pos3] tc].
    destruct Hc as [Hc1 Hc2]; [intros [H|H]; [contradiction | discriminate]|].
    assert (Htc : tc = false) by (rewrite Hc2; destruct ch; [contradiction | reflexivity]).
    assert (Hnil : is_nil ch = false) by (destruct ch; [contradiction | reflexivity]).
    rewrite Htc, Hnil. cbn [negb andb fst snd].
    rewrite column_app, Hhead.
    cbn [app column]. change (GT =? 10) with false. cbn iota.
    rewrite column_app, Hc1.
    rewrite column_app, column_app, column_linesep, (column_no_nl (indent_str ind)) by apply indent_no_nl.
    cbn [column]. change (LT =? 10) with false. change (47 =? 10) with false. cbn iota.
    rewrite column_app, (column_no_nl t) by exact Htn. cbn. lia.
Qed.

(* the corner the theorem excludes: for a childless always-expanded element (<bodies></bodies>)
   the code does not count the '>' of the start tag, so pos is one short of the column *)
Lemma pos_short_expanded cfg ll :
  let r := RElem [98] [] true None [] None in
  column (fst (lay_elem cfg ll false 0 0 r)) 0 = snd (lay_elem cfg ll false 0 0 r) + 1.
Proof. destruct cfg as [[] []]; vm_compute; reflexivity. Qed.
