From Coq Require Import ZArith List Bool Lia Setoid.
Import ListNotations.
From V Require Import Model.Val Model.Graph.
Open Scope Z_scope.

(* ------------------------------------------------------------ association maps *)
Section AMapP.
  Context {V : Type}.
  Implicit Types (m : amap V) (k : Z).

  Lemma get_del_eq k m : get k (del k m) = None.
  Proof.
    induction m as [|[k' v] m IH]; cbn; [reflexivity|].
    destruct (k =? k') eqn:E; cbn; [exact IH|]. now rewrite E.
  Qed.
  Lemma get_del_neq k k' m : k <> k' -> get k (del k' m) = get k m.
  Proof.
    intro H. induction m as [|[k2 v] m IH]; cbn; [reflexivity|].
    destruct (k' =? k2) eqn:E; cbn.
    - apply Z.eqb_eq in E. subst k2. destruct (k =? k') eqn:E2; [apply Z.eqb_eq in E2; congruence|exact IH].
    - destruct (k =? k2); [reflexivity|exact IH].
  Qed.
  Lemma get_set_eq k v m : get k (set k v m) = Some v.
  Proof. unfold set. cbn. now rewrite Z.eqb_refl. Qed.
  Lemma get_set_neq k k' v m : k <> k' -> get k (set k' v m) = get k m.
  Proof.
    intro H. unfold set. cbn. destruct (k =? k') eqn:E; [apply Z.eqb_eq in E; congruence|]. now apply get_del_neq.
  Qed.
  Lemma get_In k v m : get k m = Some v -> In (k, v) m.
  Proof.
    induction m as [|[k' v'] m IH]; cbn; [discriminate|].
    destruct (k =? k') eqn:E; [apply Z.eqb_eq in E; intro H; inversion H; subst; now left|intro H; right; now apply IH].
  Qed.
  Lemma get_None_notin k m : get k m = None -> forall v, ~ In (k, v) m.
  Proof.
    induction m as [|[k' v'] m IH]; cbn; intros H v; [tauto|].
    destruct (k =? k') eqn:E; [discriminate|]. intros [Hin|Hin]; [inversion Hin; subst; now rewrite Z.eqb_refl in E|].
    now apply (IH H v).
  Qed.
  Lemma In_del k k' v m : In (k, v) (del k' m) <-> In (k, v) m /\ k <> k'.
  Proof.
    unfold del. rewrite filter_In. cbn. split; intros [H1 H2]; split; auto.
    - apply negb_true_iff in H2. intros ->. now rewrite Z.eqb_refl in H2.
    - apply negb_true_iff. destruct (k' =? k) eqn:E; [apply Z.eqb_eq in E; congruence|reflexivity].
  Qed.
End AMapP.

Lemma mem_In x l : mem x l = true <-> In x l.
Proof.
  unfold mem. rewrite existsb_exists. split.
  - intros [y [H1 H2]]. apply Z.eqb_eq in H2. now subst.
  - intro H. exists x. split; [exact H|apply Z.eqb_refl].
Qed.
Lemma mem_false x l : mem x l = false <-> ~ In x l.
Proof. rewrite <- mem_In. destruct (mem x l); split; intro H; congruence. Qed.

(* ------------------------------------------------------------ what the tree says *)
Definition pairs (ns : list node) : list (Z * Z) := flat_map (fun n => map (fun u => (u, nh n)) (nids n)) ns.
Definition xpairs (ns : list node) : list (Z * Z) :=
  flat_map (fun n => match nxt n with Some x => [(nh n, x)] | None => [] end) ns.
Definition Func (P : list (Z * Z)) : Prop := forall u h1 h2, In (u, h1) P -> In (u, h2) P -> h1 = h2.

Lemma pairs_app a b : pairs (a ++ b) = pairs a ++ pairs b.
Proof. unfold pairs. now rewrite flat_map_app. Qed.
Lemma xpairs_app a b : xpairs (a ++ b) = xpairs a ++ xpairs b.
Proof. unfold xpairs. now rewrite flat_map_app. Qed.
Lemma in_pairs u h ns : In (u, h) (pairs ns) <-> exists n, In n ns /\ nh n = h /\ In u (nids n).
Proof.
  unfold pairs. rewrite in_flat_map. split.
  - intros [n [Hn Hp]]. apply in_map_iff in Hp as [u' [E Hu]]. inversion E; subst. eauto.
  - intros [n [Hn [Hh Hu]]]. exists n. split; [exact Hn|]. apply in_map_iff. exists u. subst. auto.
Qed.
Lemma in_xpairs h x ns : In (h, x) (xpairs ns) <-> exists n, In n ns /\ nh n = h /\ nxt n = Some x.
Proof.
  unfold xpairs. rewrite in_flat_map. split.
  - intros [n [Hn Hp]]. destruct (nxt n) eqn:E; [|destruct Hp]. destruct Hp as [Hp|[]]. inversion Hp; subst. eauto.
  - intros [n [Hn [Hh Hx]]]. exists n. split; [exact Hn|]. rewrite Hx. left. now subst.
Qed.

(* the id index agrees with the tree *)
Definition IdOK (m : amap (option Z)) (ns : list node) : Prop :=
  (forall u h, get u m = Some (Some h) <-> In (u, h) (pairs ns)) /\ (forall u, get u m <> Some None).
Definition XtOK (m : amap Z) (ns : list node) : Prop :=
  forall h x, get h m = Some x <-> In (h, x) (xpairs ns).

(* ------------------------------------------------------------ indexing *)
Definition idx_step (ig : bool) (h : Z) (acc : res (amap (option Z))) (u : Z) : res (amap (option Z)) :=
  match acc with
  | RErr e => RErr e
  | ROk m =>
      match get u m with
      | Some (Some h') => if (h' =? h) || ig then ROk (set u (Some h) m) else RErr E_Corrupt
      | _ => ROk (set u (Some h) m)
      end
  end.
Lemma index_ids_fold ig h ids m : index_ids ig h ids m = fold_left (idx_step ig h) ids (ROk m).
Proof. reflexivity. Qed.

(* one id: succeeds when the id is free or already this element's *)
Lemma idx_step_ok h u m P :
  (forall u' h', get u' m = Some (Some h') <-> In (u', h') P) -> (forall u', get u' m <> Some None) ->
  Func (P ++ [(u, h)]) ->
  exists m', idx_step false h (ROk m) u = ROk m' /\
    (forall u' h', get u' m' = Some (Some h') <-> In (u', h') (P ++ [(u, h)])) /\ (forall u', get u' m' <> Some None).
Proof.
  intros HP HN HF. exists (set u (Some h) m).
  assert (Hstep : idx_step false h (ROk m) u = ROk (set u (Some h) m)).
  { unfold idx_step. destruct (get u m) as [[h'|]|] eqn:E; try reflexivity.
    apply HP in E. assert (h' = h) by (apply (HF u); [apply in_or_app; now left|apply in_or_app; right; now left]).
    subst. now rewrite Z.eqb_refl. }
  split; [exact Hstep|]. split.
  - intros u' h'. destruct (Z.eq_dec u' u) as [->|Hne].
    + rewrite get_set_eq. split.
      * intro H. inversion H; subst. apply in_or_app. right. now left.
      * intro H. f_equal. f_equal. apply (HF u); [apply in_or_app; right; now left|exact H].
    + rewrite get_set_neq by exact Hne. rewrite HP. rewrite in_app_iff. cbn. split; [tauto|].
      intros [H|[H|[]]]; [exact H|inversion H; congruence].
  - intros u'. destruct (Z.eq_dec u' u) as [->|Hne]; [rewrite get_set_eq; discriminate|].
    rewrite get_set_neq by exact Hne. apply HN.
Qed.

Lemma Func_prefix P Q : Func (P ++ Q) -> Func P.
Proof. intros H u h1 h2 H1 H2. apply (H u); apply in_or_app; now left. Qed.

Lemma index_ids_ok h ids : forall m P,
  (forall u' h', get u' m = Some (Some h') <-> In (u', h') P) -> (forall u', get u' m <> Some None) ->
  Func (P ++ map (fun u => (u, h)) ids) ->
  exists m', index_ids false h ids m = ROk m' /\
    (forall u' h', get u' m' = Some (Some h') <-> In (u', h') (P ++ map (fun u => (u, h)) ids)) /\
    (forall u', get u' m' <> Some None).
Proof.
  induction ids as [|u ids IH]; intros m P HP HN HF.
  - exists m. cbn. rewrite app_nil_r. auto.
  - cbn [map] in *. rewrite index_ids_fold. cbn [fold_left].
    assert (HF1 : Func (P ++ [(u, h)])).
    { apply (Func_prefix _ (map (fun u => (u, h)) ids)). now rewrite <- app_assoc. }
    destruct (idx_step_ok h u m P HP HN HF1) as [m1 [E1 [HP1 HN1]]]. rewrite E1.
    specialize (IH m1 (P ++ [(u, h)]) HP1 HN1). rewrite <- app_assoc in IH. cbn [app] in IH.
    destruct (IH HF) as [m' [E' H']]. exists m'. split; [exact E'|exact H'].
Qed.

(* whole node lists; the xtype index needs unique handles *)
Definition HFunc (ns : list node) : Prop := Func (xpairs ns).

Lemma index_nodes_ok add : forall ns ix,
  IdOK (idc ix) ns -> XtOK (xtc ix) ns -> Func (pairs (ns ++ add)) -> HFunc (ns ++ add) ->
  exists ix', index_nodes false add ix = ROk ix' /\ IdOK (idc ix') (ns ++ add) /\ XtOK (xtc ix') (ns ++ add).
Proof.
  induction add as [|n add IH]; intros ns ix [HP HN] HX HF HH.
  - exists ix. rewrite app_nil_r. cbn. split; [reflexivity|]. split; [split; assumption|assumption].
  - unfold index_nodes. cbn [fold_left]. unfold index_node at 2.
    replace (ns ++ n :: add) with ((ns ++ [n]) ++ add) in * by (now rewrite <- app_assoc).
    assert (HF1 : Func (pairs ns ++ map (fun u => (u, nh n)) (nids n))).
    { rewrite pairs_app in HF. apply Func_prefix in HF. rewrite pairs_app in HF. cbn in HF. now rewrite app_nil_r in HF. }
    destruct (index_ids_ok (nh n) (nids n) (idc ix) (pairs ns) HP HN HF1) as [m1 [E1 [HP1 HN1]]].
    rewrite E1.
    set (ix1 := mkIndex m1 _ _).
    assert (HI1 : IdOK (idc ix1) (ns ++ [n])).
    { split; [|unfold ix1; cbn [idc]; exact HN1]. intros u h. unfold ix1; cbn [idc]. rewrite HP1, pairs_app. cbn. now rewrite app_nil_r. }
    assert (HX1 : XtOK (xtc ix1) (ns ++ [n])).
    { intros h x. unfold ix1; cbn [xtc]. rewrite xpairs_app. unfold xpairs at 2. cbn [flat_map]. rewrite app_nil_r.
      destruct (nxt n) as [xn|] eqn:En.
      - destruct (Z.eq_dec h (nh n)) as [->|Hne].
        + rewrite get_set_eq. rewrite in_app_iff. cbn [In]. split.
          * intro H. inversion H; subst. right. now left.
          * intros [H|[H|[]]]; [|now inversion H]. f_equal.
            assert (Hf : Func (xpairs (ns ++ [n]))) by (unfold HFunc in HH; rewrite xpairs_app in HH; now apply Func_prefix in HH).
            apply (Hf (nh n)); rewrite xpairs_app; unfold xpairs at 2; cbn [flat_map]; rewrite En, app_nil_r; apply in_or_app; [right; now left|left; exact H].
        + rewrite get_set_neq by exact Hne. rewrite (HX h x), in_app_iff. cbn [In]. split; [tauto|].
          intros [H|[H|[]]]; [exact H|inversion H; congruence].
      - rewrite app_nil_r. apply HX. }
    specialize (IH (ns ++ [n]) ix1 HI1 HX1 HF HH). exact IH.
Qed.

Theorem rebuild_exact ns : Func (pairs ns) -> HFunc ns ->
  exists ix, rebuild false ns = ROk ix /\ IdOK (idc ix) ns /\ XtOK (xtc ix) ns.
Proof.
  intros HF HH. unfold rebuild.
  apply (index_nodes_ok ns [] empty_index); auto.
  - split; [intros u h; cbn; split; [discriminate|tauto]|intros u; cbn; discriminate].
  - intros h x. cbn. split; [discriminate|tauto].
Qed.

(* ------------------------------------------------------------ generic set / del folds *)
Definition setp {V} (m : amap V) (p : Z * V) : amap V := set (fst p) (snd p) m.
Definition FuncV {V} (P : list (Z * V)) : Prop := forall k v1 v2, In (k, v1) P -> In (k, v2) P -> v1 = v2.

Lemma set_list_ok {V} (Q : list (Z * V)) : forall (m : amap V) P,
  (forall k v, get k m = Some v <-> In (k, v) P) -> FuncV (P ++ Q) ->
  forall k v, get k (fold_left setp Q m) = Some v <-> In (k, v) (P ++ Q).
Proof.
  induction Q as [|[k0 v0] Q IH]; intros m P HP HF k v; cbn [fold_left].
  - rewrite app_nil_r. apply HP.
  - replace (P ++ (k0, v0) :: Q) with ((P ++ [(k0, v0)]) ++ Q) in * by (now rewrite <- app_assoc).
    apply IH; [|exact HF]. intros k' v'. unfold setp. cbn [fst snd].
    destruct (Z.eq_dec k' k0) as [->|Hne].
    + rewrite get_set_eq, in_app_iff. cbn [In]. split.
      * intro H. inversion H; subst. right. now left.
      * intros H. f_equal. apply (HF k0); apply in_or_app; left; apply in_or_app; [right; now left|].
        destruct H as [H|[H|[]]]; [now left|inversion H; subst; right; now left].
    + rewrite get_set_neq by exact Hne. rewrite HP, in_app_iff. cbn [In]. split; [tauto|].
      intros [H|[H|[]]]; [exact H|inversion H; congruence].
Qed.

Lemma del_list_ok {V} (K : list Z) : forall (m : amap V) k,
  get k (fold_left (fun m k => del k m) K m) = if mem k K then None else get k m.
Proof.
  induction K as [|k0 K IH]; intros m k; cbn [fold_left mem existsb]; [reflexivity|].
  rewrite IH. change (existsb (Z.eqb k) K) with (mem k K). destruct (mem k K); [now rewrite orb_true_r|].
  rewrite orb_false_r. destruct (k =? k0) eqn:E.
  - apply Z.eqb_eq in E. subst. apply get_del_eq.
  - apply get_del_neq. intros ->. now rewrite Z.eqb_refl in E.
Qed.

(* ------------------------------------------------------------ href sources *)
Definition hpairs (ns : list node) : list (Z * Z) :=
  flat_map (fun n => match nhref n with Some r => [(r, nh n)] | None => [] end) ns.
Definition HrOK (m : amap Z) (ns : list node) : Prop := forall r h, get r m = Some h <-> In (r, h) (hpairs ns).
Lemma hpairs_app a b : hpairs (a ++ b) = hpairs a ++ hpairs b.
Proof. unfold hpairs. now rewrite flat_map_app. Qed.

Lemma index_nodes_hrs ig add : forall ix ix', index_nodes ig add ix = ROk ix' -> hrs ix' = fold_left setp (hpairs add) (hrs ix).
Proof.
  induction add as [|n add IH]; intros ix ix' H.
  - cbn in H. now inversion H.
  - unfold index_nodes in H. cbn [fold_left] in H. destruct (index_node ig ix n) as [ix1|e] eqn:E1.
    + apply IH in H. rewrite H. unfold index_node in E1. destruct (index_ids _ _ _ _); [|discriminate].
      inversion E1; subst. cbn [hrs]. unfold hpairs at 2. cbn [flat_map]. destruct (nhref n); [|reflexivity].
      rewrite fold_left_app. reflexivity.
    + exfalso. clear -H. induction add as [|a add IHa]; cbn in H; [discriminate|auto].
Qed.

Lemma index_nodes_hrs_ok add ns ix ix' :
  HrOK (hrs ix) ns -> FuncV (hpairs (ns ++ add)) -> index_nodes false add ix = ROk ix' -> HrOK (hrs ix') (ns ++ add).
Proof.
  intros HO HF E. apply index_nodes_hrs in E. rewrite E. intros r h. rewrite hpairs_app.
  apply set_list_ok; [exact HO|now rewrite <- hpairs_app].
Qed.

(* ------------------------------------------------------------ un-indexing *)
Definition Regular (ns : list node) : Prop := Forall (fun n => forall u, In u (nall n) <-> In u (nids n)) ns.
Definition HandlesUnique (ns : list node) : Prop := NoDup (map nh ns).

Definition rm_ids (rm : list node) : list Z := flat_map nall rm.
Definition rm_xt (rm : list node) : list Z := flat_map (fun n => match nxt n with Some _ => [nh n] | None => [] end) rm.
Definition rm_hr (rm : list node) : list Z := flat_map (fun n => match nhref n with Some r => [r] | None => [] end) rm.
Definition dels {V} (K : list Z) (m : amap V) : amap V := fold_left (fun m k => del k m) K m.

Lemma dels_app {V} (a b : list Z) (m : amap V) : dels (a ++ b) m = dels b (dels a m).
Proof. unfold dels. apply fold_left_app. Qed.

(* what remove_nodes computes when it succeeds *)
Lemma remove_nodes_result rm : forall ix ix', remove_nodes rm ix = ROk ix' ->
  idc ix' = dels (rm_ids rm) (idc ix) /\ xtc ix' = dels (rm_xt rm) (xtc ix) /\ hrs ix' = dels (rm_hr rm) (hrs ix).
Proof.
  induction rm as [|n rm IH]; intros ix ix' H.
  - cbn in H. inversion H; subst. repeat split.
  - unfold remove_nodes in H. cbn [fold_left] in H. destruct (remove_node ix n) as [ix1|e] eqn:E1.
    + apply IH in H as (H1 & H2 & H3). unfold rm_ids, rm_xt, rm_hr in *. cbn [flat_map]. rewrite !dels_app.
      unfold remove_node in E1.
      destruct (nxt n) as [x|].
      * destruct (get (nh n) (xtc ix)); [|discriminate]. destruct (nhref n) as [r|].
        -- destruct (get r (hrs ix)); [|discriminate]. inversion E1; subst. cbn [idc xtc hrs] in *. rewrite H1, H2, H3. repeat split.
        -- inversion E1; subst. cbn [idc xtc hrs] in *. rewrite H1, H2, H3. repeat split.
      * destruct (nhref n) as [r|].
        -- destruct (get r (hrs ix)); [|discriminate]. inversion E1; subst. cbn [idc xtc hrs] in *. rewrite H1, H2, H3. repeat split.
        -- inversion E1; subst. cbn [idc xtc hrs] in *. rewrite H1, H2, H3. repeat split.
    + exfalso. clear -H. induction rm as [|a rm IHa]; cbn in H; [discriminate|auto].
Qed.

Lemma get_dels {V} K (m : amap V) k : get k (dels K m) = if mem k K then None else get k m.
Proof. apply del_list_ok. Qed.

Lemma NoDup_app_r {A} (a b : list A) : NoDup (a ++ b) -> NoDup b.
Proof. induction a as [|x a IH]; cbn; [auto|]. intro H. inversion H; auto. Qed.
Lemma NoDup_app_disj {A} (a b : list A) x : NoDup (a ++ b) -> In x a -> ~ In x b.
Proof.
  induction a as [|y a IH]; cbn; [tauto|]. intros H [->|Hx] Hb; inversion H; subst.
  - apply H2. apply in_or_app. now right.
  - now apply (IH H3 Hx).
Qed.

(* removal succeeds for nodes of the fragment with distinct handles and distinct hrefs *)
Lemma remove_nodes_succeeds rm : forall ix,
  (forall n, In n rm -> forall x, nxt n = Some x -> get (nh n) (xtc ix) <> None) ->
  (forall n, In n rm -> forall r, nhref n = Some r -> get r (hrs ix) <> None) ->
  NoDup (rm_xt rm) -> NoDup (rm_hr rm) ->
  exists ix', remove_nodes rm ix = ROk ix'.
Proof.
  induction rm as [|n rm IH]; intros ix HX HH NX NH; [eexists; reflexivity|].
  unfold remove_nodes. cbn [fold_left].
  assert (E : exists ix1, remove_node ix n = ROk ix1 /\ xtc ix1 = dels (rm_xt [n]) (xtc ix) /\ hrs ix1 = dels (rm_hr [n]) (hrs ix)).
  { unfold remove_node, rm_xt, rm_hr. cbn [flat_map]. destruct (nxt n) as [x|] eqn:Ex.
    - destruct (get (nh n) (xtc ix)) eqn:G; [|exfalso; eapply HX; [now left|exact Ex|exact G]].
      destruct (nhref n) as [r|] eqn:Er.
      + destruct (get r (hrs ix)) eqn:G2; [|exfalso; eapply HH; [now left|exact Er|exact G2]].
        eexists; repeat split.
      + eexists; repeat split.
    - destruct (nhref n) as [r|] eqn:Er.
      + destruct (get r (hrs ix)) eqn:G2; [|exfalso; eapply HH; [now left|exact Er|exact G2]].
        eexists; repeat split.
      + eexists; repeat split. }
  destruct E as [ix1 [E1 [EX EH]]]. rewrite E1.
  unfold rm_xt in NX; unfold rm_hr in NH. cbn [flat_map] in NX, NH.
  apply (IH ix1).
  - intros n' Hn' x Hx. rewrite EX, get_dels.
    destruct (mem (nh n') (rm_xt [n])) eqn:M.
    + exfalso. apply mem_In in M. unfold rm_xt in M. cbn [flat_map] in M. rewrite app_nil_r in M.
      apply (NoDup_app_disj _ _ (nh n') NX M). apply in_flat_map. exists n'. split; [exact Hn'|]. rewrite Hx. now left.
    + apply (HX n' (or_intror Hn') x Hx).
  - intros n' Hn' r Hr. rewrite EH, get_dels.
    destruct (mem r (rm_hr [n])) eqn:M.
    + exfalso. apply mem_In in M. unfold rm_hr in M. cbn [flat_map] in M. rewrite app_nil_r in M.
      apply (NoDup_app_disj _ _ r NH M). apply in_flat_map. exists n'. split; [exact Hn'|]. rewrite Hr. now left.
    + apply (HH n' (or_intror Hn') r Hr).
  - now apply NoDup_app_r in NX.
  - now apply NoDup_app_r in NH.
Qed.

(* ------------------------------------------------------------ the fragment invariant *)
Definition WF (ns : list node) : Prop :=
  Func (pairs ns) /\ NoDup (map nh ns) /\ NoDup (map fst (hpairs ns)) /\ Regular ns.
Definition FragOK (fr : frag) : Prop :=
  WF (fnodes fr) /\ IdOK (idc (fidx fr)) (fnodes fr) /\ XtOK (xtc (fidx fr)) (fnodes fr) /\ HrOK (hrs (fidx fr)) (fnodes fr).

Lemma NoDup_keys_FuncV {V} (P : list (Z * V)) : NoDup (map fst P) -> FuncV P.
Proof.
  induction P as [|[k v] P IH]; intros H k' v1 v2 H1 H2; [destruct H1|].
  cbn in H. apply NoDup_cons_iff in H as [Hni Hnd]. destruct H1 as [E1|H1], H2 as [E2|H2].
  - congruence.
  - inversion E1; subst. exfalso. apply Hni. apply in_map_iff. exists (k', v2). auto.
  - inversion E2; subst. exfalso. apply Hni. apply in_map_iff. exists (k', v1). auto.
  - now apply (IH Hnd k').
Qed.

Lemma xpairs_keys_incl ns k : In k (map fst (xpairs ns)) -> In k (map nh ns).
Proof.
  intro H. apply in_map_iff in H as [[h x] [E H]]. cbn in E. subst. apply in_xpairs in H as [n [Hn [Hh _]]].
  apply in_map_iff. eauto.
Qed.
Lemma NoDup_xpairs ns : NoDup (map nh ns) -> NoDup (map fst (xpairs ns)).
Proof.
  induction ns as [|n ns IH]; intro H; [constructor|]. cbn in H. apply NoDup_cons_iff in H as [Hni Hnd].
  unfold xpairs. cbn [flat_map]. destruct (nxt n); [|now apply IH]. cbn. constructor; [|now apply IH].
  intro Hin. apply Hni. now apply xpairs_keys_incl.
Qed.
Lemma WF_HFunc ns : WF ns -> HFunc ns.
Proof. intros (_ & H & _). apply NoDup_keys_FuncV. now apply NoDup_xpairs. Qed.
Lemma WF_hfunc ns : WF ns -> FuncV (hpairs ns).
Proof. intros (_ & _ & H & _). now apply NoDup_keys_FuncV. Qed.

(* ---- attaching a subtree (paired with idcache_index) ---- *)
Theorem attach_preserves fr f add :
  FragOK fr -> f = fname fr -> WF (fnodes fr ++ add) ->
  exists fr', step_frag false fr (Attach f add) = ROk fr' /\ FragOK fr' /\ fnodes fr' = fnodes fr ++ add.
Proof.
  intros (Hwf & HI & HX & HH) -> Hwf'. cbn [step_frag]. rewrite Z.eqb_refl.
  assert (Hig : ignores_dups false (fkd fr) = false \/ ignores_dups false (fkd fr) = true) by (destruct (ignores_dups false (fkd fr)); auto).
  destruct (index_nodes_ok add (fnodes fr) (fidx fr) HI HX (proj1 Hwf') (WF_HFunc _ Hwf')) as [ix' [E [HI' HX']]].
  (* the dup check never fires on well-formed input, so ignoring dups gives the same index *)
  assert (Eig : forall ig, index_nodes ig add (fidx fr) = ROk ix').
  { intro ig. destruct ig; [|exact E]. revert E. clear. revert ix'. generalize (fidx fr).
    induction add as [|n add IH]; intros ix ix' E; [exact E|].
    unfold index_nodes in *. cbn [fold_left] in *.
    assert (S : forall ix, index_node false ix n = RErr E_Corrupt \/ index_node true ix n = index_node false ix n).
    { intro i. unfold index_node. 
      assert (S2 : forall ids m, index_ids false (nh n) ids m = RErr E_Corrupt \/ index_ids true (nh n) ids m = index_ids false (nh n) ids m).
      { induction ids as [|u ids IHi]; intro m; [right; reflexivity|]. unfold index_ids. cbn [fold_left].
        destruct (get u m) as [[h'|]|]; try apply IHi.
        rewrite orb_true_r, orb_false_r. destruct (h' =? nh n); [apply IHi|]. left.
        clear. induction ids; cbn; auto. }
      destruct (S2 (nids n) (idc i)) as [S2'|S2']; rewrite S2'; auto. }
    destruct (S ix) as [S1|S1].
    - rewrite S1 in E. exfalso. clear -E. induction add; cbn in E; [discriminate|auto].
    - rewrite S1. destruct (index_node false ix n); [now apply IH|].
      exfalso. clear -E. induction add; cbn in E; [discriminate|auto]. }
  rewrite Eig. eexists. split; [reflexivity|]. split; [|reflexivity].
  split; [exact Hwf'|]. cbn [fnodes fidx]. split; [exact HI'|]. split; [exact HX'|].
  apply (index_nodes_hrs_ok add (fnodes fr) (fidx fr) ix' HH (WF_hfunc _ Hwf') E).
Qed.

(* ---- detaching a subtree (paired with idcache_remove) ---- *)
Lemma in_without n hs ns : In n (without hs ns) <-> In n ns /\ ~ In (nh n) hs.
Proof. unfold without. rewrite filter_In, negb_true_iff, mem_false. tauto. Qed.
Lemma in_only n hs ns : In n (only hs ns) <-> In n ns /\ In (nh n) hs.
Proof. unfold only. rewrite filter_In, mem_In. tauto. Qed.

Lemma NoDup_map_filter {A B} (f : A -> B) (p : A -> bool) l : NoDup (map f l) -> NoDup (map f (filter p l)).
Proof.
  induction l as [|x l IH]; intro H; [constructor|]. cbn in *. apply NoDup_cons_iff in H as [Hni Hnd].
  destruct (p x); [|now apply IH]. cbn. constructor; [|now apply IH].
  intro Hin. apply Hni. apply in_map_iff in Hin as [y [E Hy]]. apply filter_In in Hy as [Hy _]. apply in_map_iff. eauto.
Qed.
Lemma hpairs_filter_sub p ns : forall r h, In (r, h) (hpairs (filter p ns)) -> In (r, h) (hpairs ns).
Proof.
  intros r h H. unfold hpairs in *. apply in_flat_map in H as [n [Hn Hp]]. apply filter_In in Hn as [Hn _].
  apply in_flat_map. eauto.
Qed.
Lemma NoDup_hpairs_filter p ns : NoDup (map fst (hpairs ns)) -> NoDup (map fst (hpairs (filter p ns))).
Proof.
  induction ns as [|n ns IH]; intro H; [constructor|]. unfold hpairs in H. cbn [flat_map] in H. rewrite map_app in H.
  cbn [filter]. destruct (p n).
  - unfold hpairs. cbn [flat_map]. rewrite map_app. destruct (nhref n) as [r|].
    + cbn in *. apply NoDup_cons_iff in H as [Hni Hnd]. constructor; [|now apply IH].
      intro Hin. apply Hni. apply in_map_iff in Hin as [[r' h'] [E Hy]]. cbn in E. subst.
      apply hpairs_filter_sub in Hy. apply in_map_iff. exists (r, h'). auto.
    + cbn in *. now apply IH.
  - apply IH. now apply NoDup_app_r in H.
Qed.

Lemma WF_without hs ns : WF ns -> WF (without hs ns).
Proof.
  intros (HF & HN & HH & HR). repeat split.
  - intros u h1 h2 H1 H2. apply (HF u).
    + apply in_pairs in H1 as [n [Hn [E Hu]]]. apply in_without in Hn as [Hn _]. apply in_pairs. eauto.
    + apply in_pairs in H2 as [n [Hn [E Hu]]]. apply in_without in Hn as [Hn _]. apply in_pairs. eauto.
  - now apply NoDup_map_filter.
  - now apply NoDup_hpairs_filter.
  - unfold Regular in *. rewrite Forall_forall in *. intros n Hn. apply in_without in Hn as [Hn _]. now apply HR.
Qed.

Theorem detach_preserves fr f hs :
  FragOK fr -> f = fname fr ->
  exists fr', step_frag false fr (Detach f hs) = ROk fr' /\ FragOK fr' /\ fnodes fr' = without hs (fnodes fr).
Proof.
  intros (Hwf & [HI HIn] & HX & HH) ->. cbn [step_frag]. rewrite Z.eqb_refl.
  set (ns := fnodes fr) in *. set (rm := only hs ns).
  destruct Hwf as (HF & HN & HHn & HR).
  assert (Hrm_sub : forall n, In n rm -> In n ns) by (intros n Hn; now apply in_only in Hn).
  destruct (remove_nodes_succeeds rm (fidx fr)) as [ix' E].
  - intros n Hn x Hx G. assert (In (nh n, x) (xpairs ns)) by (apply in_xpairs; eauto).
    apply HX in H. congruence.
  - intros n Hn r Hr G. assert (In (r, nh n) (hpairs ns)).
    { unfold hpairs. apply in_flat_map. exists n. split; [auto|]. rewrite Hr. now left. }
    apply HH in H. congruence.
  - (* distinct handles among the removed nodes that carry a type *)
    assert (NoDup (map nh rm)) by (now apply NoDup_map_filter).
    clear -H. induction rm as [|n rm IH]; [constructor|]. cbn in H. apply NoDup_cons_iff in H as [Hni Hnd]. unfold rm_xt. cbn [flat_map].
    destruct (nxt n); [|now apply IH]. cbn. constructor; [|now apply IH].
    intro Hin. apply Hni. unfold rm_xt in Hin. apply in_flat_map in Hin as [n' [Hn' Hi]]. destruct (nxt n'); [|destruct Hi].
    destruct Hi as [<-|[]]. apply in_map_iff. eauto.
  - assert (Hn' : NoDup (map fst (hpairs rm))) by (now apply NoDup_hpairs_filter).
    assert (Eq : rm_hr rm = map fst (hpairs rm)).
    { clear. induction rm as [|n rm IH]; [reflexivity|]. unfold rm_hr, hpairs in *. cbn [flat_map]. rewrite map_app, IH.
      destruct (nhref n); reflexivity. }
    now rewrite Eq.
  - rewrite E. eexists. split; [reflexivity|]. split; [|reflexivity].
    destruct (remove_nodes_result rm (fidx fr) ix' E) as (E1 & E2 & E3).
    split; [apply WF_without; repeat split; assumption|]. cbn [fnodes fidx]. fold ns.
    split; [split|split].
    + (* id index *)
      intros u h. rewrite E1, get_dels. destruct (mem u (rm_ids rm)) eqn:M.
      * split; [discriminate|]. intro H. exfalso. apply mem_In in M. unfold rm_ids in M. apply in_flat_map in M as [n' [Hn' Hu']].
        apply in_pairs in H as [n [Hn [Eh Hu]]]. apply in_without in Hn as [Hn Hnot].
        apply in_only in Hn' as [Hn'1 Hn'2]. unfold Regular in HR. rewrite Forall_forall in HR. apply (HR n' Hn'1) in Hu'.
        assert (nh n = nh n'). { apply (HF u); apply in_pairs; eauto. } congruence.
      * rewrite (HI u h). apply mem_false in M. split.
        -- intro H. apply in_pairs in H as [n [Hn [Eh Hu]]]. apply in_pairs. exists n. split; [|auto].
           apply in_without. split; [exact Hn|]. intro Hhs. apply M. unfold rm_ids. apply in_flat_map. exists n.
           split; [apply in_only; auto|]. unfold Regular in HR. rewrite Forall_forall in HR. now apply (HR n Hn).
        -- intro H. apply in_pairs in H as [n [Hn [Eh Hu]]]. apply in_without in Hn as [Hn _]. apply in_pairs. eauto.
    + intro u. rewrite E1, get_dels. destruct (mem u (rm_ids rm)); [discriminate|apply HIn].
    + (* xtype index *)
      intros h x. rewrite E2, get_dels. destruct (mem h (rm_xt rm)) eqn:M.
      * split; [discriminate|]. intro H. exfalso. apply mem_In in M. unfold rm_xt in M. apply in_flat_map in M as [n' [Hn' Hi]].
        destruct (nxt n') eqn:En'; [|destruct Hi]. destruct Hi as [Eh|[]].
        apply in_xpairs in H as [n [Hn [Eh2 _]]]. apply in_without in Hn as [Hn Hnot]. apply in_only in Hn' as [_ Hn'2]. congruence.
      * rewrite (HX h x). apply mem_false in M. split.
        -- intro H. apply in_xpairs in H as [n [Hn [Eh Hx]]]. apply in_xpairs. exists n. split; [|auto].
           apply in_without. split; [exact Hn|]. intro Hhs. apply M. unfold rm_xt. apply in_flat_map. exists n.
           split; [apply in_only; auto|]. rewrite Hx. now left.
        -- intro H. apply in_xpairs in H as [n [Hn [Eh Hx]]]. apply in_without in Hn as [Hn _]. apply in_xpairs. eauto.
    + (* href sources *)
      intros r h. rewrite E3, get_dels. destruct (mem r (rm_hr rm)) eqn:M.
      * split; [discriminate|]. intro H. exfalso. apply mem_In in M. unfold rm_hr in M. apply in_flat_map in M as [n' [Hn' Hi]].
        destruct (nhref n') as [r'|] eqn:En'; [|destruct Hi]. destruct Hi as [Er|[]]. subst r'.
        unfold hpairs in H. apply in_flat_map in H as [n [Hn Hp]]. destruct (nhref n) as [r2|] eqn:En; [|destruct Hp].
        destruct Hp as [Ep|[]]. inversion Ep; subst. apply in_without in Hn as [Hn Hnot]. apply in_only in Hn' as [Hn'1 Hn'2].
        assert (nh n = nh n').
        { apply (NoDup_keys_FuncV _ HHn r); unfold hpairs; apply in_flat_map; [exists n|exists n']; split; auto; [rewrite En|rewrite En']; now left. }
        congruence.
      * rewrite (HH r h). apply mem_false in M. unfold hpairs. rewrite !in_flat_map. split.
        -- intros [n [Hn Hp]]. exists n. split; [|exact Hp]. apply in_without. split; [exact Hn|]. intro Hhs. apply M.
           unfold rm_hr. apply in_flat_map. exists n. split; [apply in_only; auto|]. destruct (nhref n); [|destruct Hp].
           destruct Hp as [Ep|[]]. inversion Ep. now left.
        -- intros [n [Hn Hp]]. apply in_without in Hn as [Hn _]. eauto.
Qed.

(* ------------------------------------------------------------ every history of paired operations *)
Definition FragsOK (frs : list frag) : Prop := Forall FragOK frs.

(* precondition of an operation in a state: only paired operations; an attached subtree keeps
   ids / handles / hrefs unique in the fragment that receives it (this is what the duplicate
   check of idcache_index and generate_uuid's freshness establish in the code) *)
Definition op_pre (frs : list frag) (o : op) : Prop :=
  match o with
  | Attach f add => forall fr, In fr frs -> fname fr = f -> WF (fnodes fr ++ add)
  | Detach _ _ => True
  | _ => False
  end.

Lemma step_frag_other fr o f : (match o with Attach g _ | Detach g _ | DetachForgetful g _ | Reserve g _ | Unreserve g _ => g end) = f ->
  f <> fname fr -> step_frag false fr o = ROk fr.
Proof.
  intros E Hne. destruct o; cbn in *; subst; (destruct (_ =? fname fr) eqn:Eq; [apply Z.eqb_eq in Eq; congruence|reflexivity]).
Qed.

Lemma step_all_preserves frs o :
  FragsOK frs -> op_pre frs o -> exists frs', step_all false frs o = ROk frs' /\ FragsOK frs'.
Proof.
  induction frs as [|fr frs IH]; intros HOK Hpre; [exists []; split; [reflexivity|constructor]|].
  apply Forall_cons_iff in HOK as [Hfr Hrest].
  assert (Hpre' : op_pre frs o).
  { destruct o; cbn in *; auto; intros fr' Hin; apply Hpre; now right. }
  destruct (IH Hrest Hpre') as [frs' [E' HOK']]. cbn [step_all]. 
  assert (Hs : exists fr', step_frag false fr o = ROk fr' /\ FragOK fr').
  { destruct o as [f add|f hs|f hs|f u|f u]; cbn in Hpre; try contradiction.
    - destruct (Z.eq_dec f (fname fr)) as [->|Hne].
      + destruct (attach_preserves fr (fname fr) add Hfr eq_refl (Hpre fr (or_introl eq_refl) eq_refl)) as [fr' [E1 [H1 _]]]. eauto.
      + exists fr. split; [|exact Hfr]. cbn. destruct (f =? fname fr) eqn:Eq; [apply Z.eqb_eq in Eq; congruence|reflexivity].
    - destruct (Z.eq_dec f (fname fr)) as [->|Hne].
      + destruct (detach_preserves fr (fname fr) hs Hfr eq_refl) as [fr' [E1 [H1 _]]]. eauto.
      + exists fr. split; [|exact Hfr]. cbn. destruct (f =? fname fr) eqn:Eq; [apply Z.eqb_eq in Eq; congruence|reflexivity]. }
  destruct Hs as [fr' [E1 H1]]. rewrite E1, E'. eexists. split; [reflexivity|]. now constructor.
Qed.

Fixpoint ops_pre (frs : list frag) (ops : list op) : Prop :=
  match ops with
  | [] => True
  | o :: r => op_pre frs o /\ forall frs', step_all false frs o = ROk frs' -> ops_pre frs' r
  end.

Theorem reachable_ok ops : forall frs, FragsOK frs -> ops_pre frs ops ->
  exists frs', run false ops frs = ROk frs' /\ FragsOK frs'.
Proof.
  induction ops as [|o ops IH]; intros frs HOK Hpre; [exists frs; split; [reflexivity|exact HOK]|].
  destruct Hpre as [Hp Hnext]. destruct (step_all_preserves frs o HOK Hp) as [frs1 [E1 H1]].
  unfold run. cbn [fold_left]. rewrite E1. apply IH; [exact H1|now apply Hnext].
Qed.

(* loading: the rebuilt index of a well-formed fragment is exact *)
Theorem load_ok name k ns : WF ns ->
  exists ix, rebuild false ns = ROk ix /\ FragOK (mkFrag name k ns ix).
Proof.
  intro Hwf. destruct (rebuild_exact ns (proj1 Hwf) (WF_HFunc _ Hwf)) as [ix [E [HI HX]]].
  exists ix. split; [exact E|]. split; [exact Hwf|]. cbn [fnodes fidx]. split; [exact HI|]. split; [exact HX|].
  unfold rebuild in E. apply (index_nodes_hrs_ok ns [] empty_index ix); [|now apply WF_hfunc|exact E].
  intros r h. cbn. split; [discriminate|tauto].
Qed.

(* ------------------------------------------------------------ user-visible corollaries *)
Lemma in_matches frs u h : In h (matches frs u) <-> exists fr, In fr frs /\ frag_lookup fr u = Some h.
Proof.
  unfold matches. rewrite in_flat_map. split.
  - intros [fr [Hfr Hin]]. destruct (frag_lookup fr u) eqn:E; [|destruct Hin]. destruct Hin as [<-|[]]. eauto.
  - intros [fr [Hfr E]]. exists fr. split; [exact Hfr|]. rewrite E. now left.
Qed.

Theorem matches_exact frs u h : FragsOK frs -> (In h (matches frs u) <-> In h (scan_uuid frs u)).
Proof.
  intro HOK. rewrite in_matches. unfold scan_uuid. rewrite in_flat_map. unfold FragsOK in HOK. rewrite Forall_forall in HOK.
  split; intros [fr [Hfr H]]; exists fr; (split; [exact Hfr|]); destruct (HOK fr Hfr) as (_ & [HI _] & _).
  - unfold frag_lookup in H. destruct (get u (idc (fidx fr))) as [[h'|]|] eqn:E; try discriminate. inversion H; subst.
    apply HI in E. apply in_pairs in E as [n [Hn [Eh Hu]]]. unfold owners. apply in_flat_map. exists n. split; [exact Hn|].
    apply mem_In in Hu. rewrite Hu. now left.
  - unfold owners in H. apply in_flat_map in H as [n [Hn Hi]]. destruct (mem u (nids n)) eqn:M; [|destruct Hi].
    destruct Hi as [<-|[]]. apply mem_In in M. unfold frag_lookup.
    assert (In (u, nh n) (pairs (fnodes fr))) by (apply in_pairs; eauto). apply HI in H. now rewrite H.
Qed.

(* model-wide uniqueness: at most one element owns an id *)
Definition GloballyUnique (frs : list frag) : Prop := forall u h1 h2, In h1 (scan_uuid frs u) -> In h2 (scan_uuid frs u) -> h1 = h2.

Lemma flat_map_all_nil {A B} (f : A -> list B) l : (forall x, In x l -> f x = []) -> flat_map f l = [].
Proof. induction l as [|x l IH]; intro H; [reflexivity|]. cbn. rewrite (H x (or_introl eq_refl)). apply IH. intros y Hy. apply H. now right. Qed.

Theorem by_uuid_sound frs u h : FragsOK frs -> by_uuid frs u = ROk h -> In h (scan_uuid frs u).
Proof.
  intros HOK H. unfold by_uuid in H. destruct (matches frs u) as [|h' [|? ?]] eqn:E; try discriminate. inversion H; subst.
  apply (matches_exact frs u h HOK). rewrite E. now left.
Qed.
Theorem by_uuid_missing frs u : FragsOK frs -> scan_uuid frs u = [] -> by_uuid frs u = RErr E_KeyError.
Proof.
  intros HOK H. unfold by_uuid. destruct (matches frs u) as [|h r] eqn:E; [reflexivity|].
  assert (In h (scan_uuid frs u)) by (apply (matches_exact frs u h HOK); rewrite E; now left). rewrite H in H0. destruct H0.
Qed.
(* completeness: an id owned by exactly one element of one fragment is found *)
Lemma matches_single frs : forall u h, FragsOK frs ->
  (forall fr, In fr frs -> forall h', frag_lookup fr u = Some h' -> h' = h) ->
  (exists fr, In fr frs /\ frag_lookup fr u = Some h) ->
  (forall fr1 fr2, In fr1 frs -> In fr2 frs -> frag_lookup fr1 u <> None -> frag_lookup fr2 u <> None -> fr1 = fr2) ->
  NoDup frs -> matches frs u = [h].
Proof.
  induction frs as [|fr frs IH]; intros u h HOK Hall [fr0 [Hin0 E0]] Hone Hnd; [destruct Hin0|].
  unfold matches. cbn [flat_map]. apply NoDup_cons_iff in Hnd as [Hni Hnd].
  destruct (frag_lookup fr u) as [h'|] eqn:E.
  - assert (h' = h) by (apply (Hall fr (or_introl eq_refl)); exact E). subst h'.
    assert (R : flat_map (fun fr => match frag_lookup fr u with Some h => [h] | None => [] end) frs = []).
    { apply flat_map_all_nil. intros fr' Hfr'. destruct (frag_lookup fr' u) eqn:E'; [|reflexivity].
      exfalso. assert (fr = fr') by (apply Hone; [now left|now right|congruence|congruence]). subst. contradiction. }
    now rewrite R.
  - cbn [app]. apply IH; auto.
    + now apply Forall_cons_iff in HOK as [_ H].
    + intros fr' Hfr'. apply Hall. now right.
    + destruct Hin0 as [->|Hin0]; [congruence|eauto].
    + intros fr1 fr2 H1 H2. apply Hone; now right.
Qed.

Lemma frag_lookup_owners fr u h : FragOK fr -> (frag_lookup fr u = Some h <-> In h (owners (fnodes fr) u)).
Proof.
  intros (_ & [HI _] & _). unfold frag_lookup, owners. rewrite in_flat_map. split.
  - destruct (get u (idc (fidx fr))) as [[h'|]|] eqn:E; try discriminate. intro H. inversion H; subst.
    apply HI in E. apply in_pairs in E as [n [Hn [Eh Hu]]]. exists n. split; [exact Hn|]. apply mem_In in Hu. rewrite Hu. now left.
  - intros [n [Hn Hi]]. destruct (mem u (nids n)) eqn:M; [|destruct Hi]. destruct Hi as [<-|[]]. apply mem_In in M.
    assert (H : In (u, nh n) (pairs (fnodes fr))) by (apply in_pairs; eauto). apply HI in H. now rewrite H.
Qed.

(* by_uuid succeeds exactly for the element that owns the id, when no other element does *)
Theorem by_uuid_complete frs u h : FragsOK frs -> NoDup frs ->
  In h (scan_uuid frs u) ->
  (forall h', In h' (scan_uuid frs u) -> h' = h) ->
  (forall fr1 fr2, In fr1 frs -> In fr2 frs -> owners (fnodes fr1) u <> [] -> owners (fnodes fr2) u <> [] -> fr1 = fr2) ->
  by_uuid frs u = ROk h.
Proof.
  intros HOK Hnd Hin Huniq Hone. unfold by_uuid. rewrite (matches_single frs u h); auto.
  - intros fr Hfr h' E. apply Huniq. unfold scan_uuid. apply in_flat_map. exists fr. split; [exact Hfr|].
    unfold FragsOK in HOK. rewrite Forall_forall in HOK. now apply (frag_lookup_owners fr u h' (HOK fr Hfr)).
  - unfold scan_uuid in Hin. apply in_flat_map in Hin as [fr [Hfr Ho]]. exists fr. split; [exact Hfr|].
    unfold FragsOK in HOK. rewrite Forall_forall in HOK. now apply (frag_lookup_owners fr u h (HOK fr Hfr)).
  - intros fr1 fr2 H1 H2 N1 N2. unfold FragsOK in HOK. rewrite Forall_forall in HOK. apply Hone; auto.
    + destruct (frag_lookup fr1 u) as [h1|] eqn:E; [|congruence]. apply (frag_lookup_owners fr1 u h1 (HOK fr1 H1)) in E.
      intro Z0. rewrite Z0 in E. destruct E.
    + destruct (frag_lookup fr2 u) as [h2|] eqn:E; [|congruence]. apply (frag_lookup_owners fr2 u h2 (HOK fr2 H2)) in E.
      intro Z0. rewrite Z0 in E. destruct E.
Qed.

(* search by type = scan of the semantic fragments *)
Theorem search_exact frs xts h : FragsOK frs -> (In h (search frs xts) <-> In h (scan_xt frs xts)).
Proof.
  intro HOK. unfold search, scan_xt. rewrite !in_flat_map. unfold FragsOK in HOK. rewrite Forall_forall in HOK.
  split; intros [fr [Hfr H]]; exists fr; (split; [exact Hfr|]); destruct (fkd fr); try exact H;
    destruct (HOK fr Hfr) as (_ & _ & HX & _).
  - unfold frag_search in H. apply in_flat_map in H as [[h' x'] [Hp Hi]]. cbn [fst] in Hi.
    destruct (get h' (xtc (fidx fr))) as [x|] eqn:E; [|destruct Hi]. destruct (mem x xts) eqn:M; [|destruct Hi].
    destruct Hi as [<-|[]]. apply HX in E. apply in_xpairs in E as [n [Hn [Eh Ex]]]. apply in_flat_map. exists n.
    split; [exact Hn|]. rewrite Ex, M. now left.
  - apply in_flat_map in H as [n [Hn Hi]]. destruct (nxt n) as [x|] eqn:Ex; [|destruct Hi]. destruct (mem x xts) eqn:M; [|destruct Hi].
    destruct Hi as [<-|[]]. assert (E : In (nh n, x) (xpairs (fnodes fr))) by (apply in_xpairs; eauto). apply HX in E.
    unfold frag_search. apply in_flat_map. exists (nh n, x). split; [now apply get_In|]. cbn [fst]. rewrite E, M. now left.
Qed.

(* ------------------------------------------------------------ what a forgetful site does *)
Definition demo_node : node := mkNode 7 None (Some 100) [42] [42] None.
Definition demo_frag : frag :=
  match rebuild false [demo_node] with ROk ix => mkFrag 0 Semantic [demo_node] ix | RErr _ => mkFrag 0 Semantic [] empty_index end.
Lemma demo_ok : FragOK demo_frag.
Proof.
  destruct (load_ok 0 Semantic [demo_node]) as [ix [E H]].
  - split; [|split; [|split]].
    + intros u h1 h2 H1 H2. cbn in H1, H2. destruct H1 as [H1|[]], H2 as [H2|[]]. congruence.
    + cbn. constructor; [intros []|constructor].
    + cbn. constructor.
    + constructor; [intro u; cbn; tauto|constructor].
  - unfold demo_frag. rewrite E. exact H.
Qed.
(* removing an element without un-indexing it: the lookup still returns it although it is gone *)
Theorem forgetful_detach_refuted :
  exists fr fr', FragOK fr /\ step_frag false fr (DetachForgetful 0 [7]) = ROk fr' /\
    by_uuid [fr'] 42 = ROk 7 /\ scan_uuid [fr'] 42 = [] /\ ~ FragOK fr'.
Proof.
  exists demo_frag. eexists. split; [exact demo_ok|]. split; [reflexivity|]. split; [reflexivity|]. split; [reflexivity|].
  intros (_ & [HI _] & _). specialize (HI 42 7). cbn in HI. destruct HI as [HI _]. now apply HI.
Qed.
(* ... whereas the paired operation keeps the invariant and the lookup fails *)
Example paired_detach_demo :
  exists fr', step_frag false demo_frag (Detach 0 [7]) = ROk fr' /\ by_uuid [fr'] 42 = RErr E_KeyError.
Proof. eexists. split; reflexivity. Qed.

(* ------------------------------------------------------------ duplicate check at load / save *)
Lemma inter_nonempty a b : inter a b <> [] <-> exists x, In x a /\ In x b.
Proof.
  unfold inter. split.
  - destruct (filter _ a) as [|x r] eqn:E; [congruence|]. intros _. exists x.
    assert (In x (filter (fun x => mem x b) a)) by (rewrite E; now left). apply filter_In in H as [H1 H2]. apply mem_In in H2. auto.
  - intros [x [H1 H2]] E. assert (In x (filter (fun x => mem x b) a)) by (apply filter_In; split; [auto|now apply mem_In]).
    rewrite E in H. destruct H.
Qed.

Lemma check_dups_go_spec trees : forall seen,
  check_dups_go seen trees = false <->
  (forall ids, In ids trees -> forall x, In x ids -> ~ In x seen) /\
  (forall i j ti tj, (i < j)%nat -> nth_error trees i = Some ti -> nth_error trees j = Some tj -> forall x, In x ti -> ~ In x tj).
Proof.
  induction trees as [|ids trees IH]; intro seen; cbn [check_dups_go].
  - split; [intros _; split; [intros ? []|intros i j ti tj _ H; destruct i; discriminate]|reflexivity].
  - rewrite orb_false_iff, IH. split.
    + intros [H0 [H1 H2]]. assert (Hi : forall x, In x seen -> ~ In x ids).
      { intros x Hs Hx. destruct (inter seen ids) eqn:E; [|discriminate]. assert (inter seen ids <> []) by (apply inter_nonempty; eauto). congruence. }
      split.
      * intros ids' [<-|Hin] x Hx Hs; [now apply (Hi x)|]. apply (H1 ids' Hin x Hx). apply in_or_app. now left.
      * intros i j ti tj Hlt Hti Htj x Hx Hx'. destruct j as [|j]; [lia|]. cbn in Htj. destruct i as [|i].
        -- cbn in Hti. inversion Hti; subst. apply nth_error_In in Htj. apply (H1 tj Htj x Hx'). apply in_or_app. now right.
        -- cbn in Hti. apply (H2 i j ti tj ltac:(lia) Hti Htj x Hx Hx').
    + intros [H1 H2]. split; [|split].
      * destruct (inter seen ids) as [|y r] eqn:E; [reflexivity|]. exfalso.
        assert (inter seen ids <> []) by congruence. apply inter_nonempty in H as [x [Hs Hx]]. apply (H1 ids (or_introl eq_refl) x Hx Hs).
      * intros ids' Hin x Hx Hs. apply in_app_or in Hs as [Hs|Hs].
        -- apply (H1 ids' (or_intror Hin) x Hx Hs).
        -- apply In_nth_error in Hin as [j Hj]. apply (H2 0%nat (S j) ids ids' ltac:(lia) eq_refl Hj x Hs Hx).
      * intros i j ti tj Hlt Hti Htj. apply (H2 (S i) (S j) ti tj ltac:(lia) Hti Htj).
Qed.

(* the load/save check accepts exactly when overridden or no id is shared between two fragments *)
Theorem check_duplicate_uuids_spec ignore trees :
  check_duplicate_uuids ignore trees = ROk tt <->
  ignore = true \/
  (forall i j ti tj, (i < j)%nat -> nth_error trees i = Some ti -> nth_error trees j = Some tj -> forall x, In x ti -> ~ In x tj).
Proof.
  unfold check_duplicate_uuids. destruct (check_dups_go [] trees) eqn:E.
  - destruct ignore; cbn; split; auto; try discriminate. intros [H|H]; [discriminate|].
    assert (check_dups_go [] trees = false) by (apply check_dups_go_spec; split; [intros ? ? ? ? []|exact H]). congruence.
  - cbn. split; [intros _|reflexivity]. right. now apply check_dups_go_spec in E as [_ E].
Qed.

(* ------------------------------------------------------------ fresh ids *)
Theorem generate_uuid_fresh frs want stream u : FragsOK frs ->
  generate_uuid frs want stream = ROk u -> scan_uuid frs u = [] /\ (forall w, want = Some w -> u = w).
Proof.
  intros HOK H. unfold generate_uuid in H.
  assert (Hfree : forall v, in_use frs v = false -> scan_uuid frs v = []).
  { intros v Hv. unfold in_use in Hv. destruct (matches frs v) eqn:E; [|discriminate].
    destruct (scan_uuid frs v) as [|h r] eqn:E2; [reflexivity|]. exfalso.
    assert (In h (matches frs v)) by (apply (matches_exact frs v h HOK); rewrite E2; now left). rewrite E in H0. destruct H0. }
  destruct want as [w|].
  - destruct (in_use frs w) eqn:E; [discriminate|]. inversion H; subst. split; [now apply Hfree|]. intros w' Hw. now inversion Hw.
  - split; [|discriminate]. destruct (first_free frs stream) as [v|] eqn:E; [|discriminate]. inversion H; subst.
    clear H. induction stream as [|s stream IH]; [discriminate|]. cbn in E. destruct (in_use frs s) eqn:Es; [now apply IH|].
    inversion E; subst. now apply Hfree.
Qed.
Theorem want_in_use_fails frs w stream h : FragsOK frs -> In h (scan_uuid frs w) -> generate_uuid frs (Some w) stream = RErr E_ValueError.
Proof.
  intros HOK Hin. unfold generate_uuid, in_use. apply (matches_exact frs w h HOK) in Hin. destruct (matches frs w); [destruct Hin|reflexivity].
Qed.

(* ------------------------------------------------------------ navigation across fragment boundaries *)
Definition all_nodes (frs : list frag) : list node := flat_map fnodes frs.
Definition is_placeholder_of (n p : node) : bool :=
  match nhref p with Some r => mem r (nall n) | None => false end.
(* specification: the parent in the single-file (glued) tree — by scanning the nodes, no index *)
Definition glued_parent (frs : list frag) (n : node) : option Z :=
  match npar n with
  | Some p => Some p
  | None => match find (is_placeholder_of n) (all_nodes frs) with Some p => npar p | None => None end
  end.

Definition GlobalHandles (frs : list frag) : Prop := NoDup (map nh (all_nodes frs)).

Lemma find_node_spec ns h n : NoDup (map nh ns) -> In n ns -> nh n = h -> find_node ns h = Some n.
Proof.
  induction ns as [|x ns IH]; intros Hnd Hin Hh; [destruct Hin|].
  cbn in Hnd. apply NoDup_cons_iff in Hnd as [Hni Hnd]. unfold find_node. cbn [find].
  destruct (nh x =? h) eqn:E.
  - apply Z.eqb_eq in E. destruct Hin as [->|Hin]; [reflexivity|].
    exfalso. apply Hni. apply in_map_iff. exists n. split; [congruence|exact Hin].
  - destruct Hin as [->|Hin]; [rewrite Hh, Z.eqb_refl in E; discriminate|]. now apply IH.
Qed.
Lemma find_node_none ns h : (forall n, In n ns -> nh n <> h) -> find_node ns h = None.
Proof.
  induction ns as [|x ns IH]; intro H; [reflexivity|]. unfold find_node. cbn [find].
  destruct (nh x =? h) eqn:E; [apply Z.eqb_eq in E; exfalso; apply (H x); [now left|exact E]|].
  apply IH. intros n Hn. apply H. now right.
Qed.

Lemma all_nodes_cons fr frs : all_nodes (fr :: frs) = fnodes fr ++ all_nodes frs.
Proof. reflexivity. Qed.

Lemma find_in_frags_spec frs : forall fr n, GlobalHandles frs -> In fr frs -> In n (fnodes fr) ->
  exists fr', find_in_frags frs (nh n) = Some (fr', n).
Proof.
  induction frs as [|f frs IH]; intros fr n Hg Hfr Hn; [destruct Hfr|].
  unfold GlobalHandles in Hg. rewrite all_nodes_cons, map_app in Hg. cbn [find_in_frags].
  destruct Hfr as [->|Hfr].
  - rewrite (find_node_spec (fnodes fr) (nh n) n); eauto.
    clear -Hg. induction (map nh (fnodes fr)) as [|a l IHl]; [constructor|]. cbn in Hg. apply NoDup_cons_iff in Hg as [H1 H2].
    constructor; [intro Hi; apply H1; apply in_or_app; now left|now apply IHl].
  - rewrite find_node_none.
    + apply (IH fr n); [now apply NoDup_app_r in Hg|exact Hfr|exact Hn].
    + intros m Hm E. apply (NoDup_app_disj _ _ (nh n) Hg).
      * apply in_map_iff. exists m. auto.
      * apply in_map_iff. exists n. split; [reflexivity|]. unfold all_nodes. apply in_flat_map. eauto.
Qed.

(* the index-based placeholder search finds a node whose href names the id *)
Lemma unfollow_sound frs u ph : FragsOK frs -> unfollow frs u = Some ph ->
  exists fr p, In fr frs /\ In p (fnodes fr) /\ nh p = ph /\ nhref p = Some u.
Proof.
  induction frs as [|f frs IH]; intros HOK H; [discriminate|]. apply Forall_cons_iff in HOK as [Hf Hrest].
  cbn [unfollow] in H. destruct (get u (hrs (fidx f))) as [h|] eqn:E.
  - inversion H; subst. destruct Hf as (_ & _ & _ & HH). apply HH in E. unfold hpairs in E. apply in_flat_map in E as [p [Hp Hi]].
    destruct (nhref p) as [r|] eqn:Er; [|destruct Hi]. destruct Hi as [Hi|[]]. inversion Hi; subst. exists f, p. repeat split; auto. now left.
  - destruct (IH Hrest H) as [fr [p [H1 H2]]]. exists fr, p. split; [now right|exact H2].
Qed.
Lemma unfollow_complete frs u fr p : FragsOK frs -> In fr frs -> In p (fnodes fr) -> nhref p = Some u ->
  exists ph, unfollow frs u = Some ph.
Proof.
  induction frs as [|f frs IH]; intros HOK Hfr Hp Hr; [destruct Hfr|]. apply Forall_cons_iff in HOK as [Hf Hrest].
  cbn [unfollow]. destruct (get u (hrs (fidx f))) as [h|] eqn:E; [eauto|].
  destruct Hfr as [->|Hfr]; [|now apply IH].
  exfalso. destruct Hf as (_ & _ & _ & HH). assert (In (u, nh p) (hpairs (fnodes fr))).
  { unfold hpairs. apply in_flat_map. exists p. split; [exact Hp|]. rewrite Hr. now left. }
  apply HH in H. congruence.
Qed.

(* Uniqueness of the placeholder: at most one node of the whole forest carries an href to one of
   the ids of [n] — this is what a well-formed fragmented model guarantees for a fragment root *)
Definition UniquePlaceholder (frs : list frag) (n : node) : Prop :=
  forall p1 p2, In p1 (all_nodes frs) -> In p2 (all_nodes frs) ->
    is_placeholder_of n p1 = true -> is_placeholder_of n p2 = true -> p1 = p2.

Lemma first_some_sound {A B} (f : A -> option B) l y : first_some f l = Some y -> exists x, In x l /\ f x = Some y.
Proof.
  induction l as [|a l IH]; cbn; [discriminate|]. destruct (f a) eqn:E.
  - intro H. inversion H; subst. exists a. auto.
  - intro H. destruct (IH H) as [x [H1 H2]]. exists x. auto.
Qed.
Lemma first_some_none {A B} (f : A -> option B) l : first_some f l = None -> forall x, In x l -> f x = None.
Proof.
  induction l as [|a l IH]; cbn; [intros _ x []|]. destruct (f a) eqn:E; [discriminate|].
  intros H x [<-|Hx]; [exact E|now apply IH].
Qed.

Theorem parent_of_glue frs fr n :
  FragsOK frs -> GlobalHandles frs -> In fr frs -> In n (fnodes fr) -> UniquePlaceholder frs n ->
  parent_of frs (nh n) = glued_parent frs n.
Proof.
  intros HOK Hg Hfr Hn Huniq. unfold parent_of, glued_parent.
  destruct (find_in_frags_spec frs fr n Hg Hfr Hn) as [fr' E]. rewrite E.
  destruct (npar n) as [p|]; [reflexivity|].
  destruct (first_some (unfollow frs) (nall n)) as [ph|] eqn:Efs.
  - apply first_some_sound in Efs as [u [Hu Hun]].
    destruct (unfollow_sound frs u ph HOK Hun) as [frp [p [Hfrp [Hp [Hph Hhr]]]]].
    destruct (find_in_frags_spec frs frp p Hg Hfrp Hp) as [frp' Ep]. rewrite Hph in Ep. rewrite Ep.
    assert (Hpl : is_placeholder_of n p = true) by (unfold is_placeholder_of; rewrite Hhr; now apply mem_In).
    assert (Hpin : In p (all_nodes frs)) by (unfold all_nodes; apply in_flat_map; eauto).
    destruct (find (is_placeholder_of n) (all_nodes frs)) as [p'|] eqn:Ef.
    + apply find_some in Ef as [Hp'in Hp'pl]. now rewrite (Huniq p' p Hp'in Hpin Hp'pl Hpl).
    + exfalso. eapply find_none in Ef; [|exact Hpin]. congruence.
  - destruct (find (is_placeholder_of n) (all_nodes frs)) as [p'|] eqn:Ef; [|reflexivity].
    exfalso. apply find_some in Ef as [Hp'in Hp'pl]. unfold is_placeholder_of in Hp'pl.
    destruct (nhref p') as [r|] eqn:Er; [|discriminate]. apply mem_In in Hp'pl.
    unfold all_nodes in Hp'in. apply in_flat_map in Hp'in as [frp [Hfrp Hp']].
    destruct (unfollow_complete frs r frp p' HOK Hfrp Hp' Er) as [ph Eu].
    pose proof (first_some_none _ _ Efs r Hp'pl). congruence.
Qed.

(* hence whole parent chains coincide with those of the glued tree *)
Fixpoint glued_ancestors_fuel (fuel : nat) (gp : Z -> option Z) (h : Z) : list Z :=
  match fuel with
  | O => []
  | S fuel => match gp h with Some p => p :: glued_ancestors_fuel fuel gp p | None => [] end
  end.
Theorem ancestors_glue frs gp : (forall h, parent_of frs h = gp h) ->
  forall fuel h, ancestors_fuel fuel frs h = glued_ancestors_fuel fuel gp h.
Proof.
  intros Hp. induction fuel as [|fuel IH]; intro h; [reflexivity|]. cbn. rewrite Hp. destruct (gp h); [now rewrite IH|reflexivity].
Qed.

(* ------------------------------------------------------------ non-trivial demo states (used by the
   hypothesis-satisfiability Examples of Props/C03, C04, C06, C10) *)
Ltac nodup_concrete := cbn; repeat (apply NoDup_cons; [cbn; intuition discriminate|]); apply NoDup_nil.
Ltac wf_concrete :=
  split; [|split; [|split]];
  [ intros u h1 h2 H1 H2; cbn in H1, H2; intuition congruence
  | nodup_concrete
  | nodup_concrete
  | repeat (apply Forall_cons; [intro u; cbn; tauto|]); apply Forall_nil ].

(* fragment 0: a root with two children, one of them the placeholder (href -> id 20) of fragment 1's root *)
Definition d_nodes : list node :=
  [mkNode 1 None (Some 100) [10] [10] None; mkNode 2 (Some 1) (Some 101) [11] [11] None;
   mkNode 3 (Some 1) (Some 102) [] [] (Some 20)].
(* a subtree of two elements attached below element 2 *)
Definition d_add : list node :=
  [mkNode 4 (Some 2) (Some 101) [12] [12] None; mkNode 5 (Some 4) None [13] [13] None].
(* fragment 1: root (id 20) with one child *)
Definition d2_nodes : list node :=
  [mkNode 6 None (Some 100) [20] [20] None; mkNode 7 (Some 6) (Some 101) [21] [21] None].
Definition d_ix : index := Eval vm_compute in match rebuild false d_nodes with ROk ix => ix | RErr _ => empty_index end.
Definition d2_ix : index := Eval vm_compute in match rebuild false d2_nodes with ROk ix => ix | RErr _ => empty_index end.
Definition d_frag : frag := mkFrag 0 Semantic d_nodes d_ix.
Definition d2_frag : frag := mkFrag 1 Semantic d2_nodes d2_ix.
Definition d_forest : list frag := [d_frag; d2_frag].

Lemma d_nodes_wf : WF d_nodes. Proof. wf_concrete. Qed.
Lemma d2_nodes_wf : WF d2_nodes. Proof. wf_concrete. Qed.
Lemma d_attach_wf : WF (fnodes d_frag ++ d_add). Proof. wf_concrete. Qed.
Lemma d_frag_ok : FragOK d_frag.
Proof. destruct (load_ok 0 Semantic d_nodes d_nodes_wf) as [ix [E H]]. vm_compute in E. injection E as <-. exact H. Qed.
Lemma d2_frag_ok : FragOK d2_frag.
Proof. destruct (load_ok 1 Semantic d2_nodes d2_nodes_wf) as [ix [E H]]. vm_compute in E. injection E as <-. exact H. Qed.
Lemma d_forest_ok : FragsOK d_forest.
Proof. apply Forall_cons; [exact d_frag_ok|]. apply Forall_cons; [exact d2_frag_ok|apply Forall_nil]. Qed.
Lemma d_forest_nodup : NoDup d_forest.
Proof. apply NoDup_cons; [intros [E|[]]; apply (f_equal fname) in E; discriminate E|]. apply NoDup_cons; [intros []|apply NoDup_nil]. Qed.
Lemma d_forest_handles : GlobalHandles d_forest.
Proof. unfold GlobalHandles. nodup_concrete. Qed.
