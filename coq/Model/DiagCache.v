(* C19 — diagram cache lookup (capellambse/model/diagram.py).
   Executable definitions only.

   conv        one format converter object: identity, `filename_extension`, has `from_cache`
   node/graph  the converter objects with their `depends` edge (Gen/DiagCacheGraph.v is the
               graph of /repo, regenerated on every run)
   walk        _walk_converters
   run_chain   _run_converter_chain (pretty_print=False) and the tail loop of __load_cache
   load_cache  AbstractDiagram.__load_cache: (file names opened on the cache handler, result)
   convert_chain  convert_format: the chain from the target down to (excluding) the source
   render      AbstractDiagram.render

   What the converters *do* (convert / from_cache) and what the internal renderer produces
   are section variables: the theorems hold for every behaviour of them. *)
From Coq Require Import ZArith NArith List Bool.
Import ListNotations.
From V Require Import Model.Val Model.PyPrims.

Record conv := { cv_id : N; cv_ext : option str; cv_fc : bool }.
Record node := { n_conv : conv; n_dep : option N }.

(* `ext = getattr(cv, "filename_extension", None); if not ext or not hasattr(cv, "from_cache"): continue` *)
Definition eligible (cv : conv) : option str :=
  match cv_ext cv with
  | Some (c :: e) => if cv_fc cv then Some (c :: e) else None
  | _ => None
  end.

Definition DOTC : N := 46.
Definition dot_ext (e : str) : bool := match e with c :: _ => N.eqb c DOTC | [] => false end.
Definition no_dot (s : str) : bool := negb (existsb (N.eqb DOTC) s).

(* ---------------- the converter graph ---------------- *)
Fixpoint find_node (g : list node) (id : N) : option node :=
  match g with
  | [] => None
  | n :: r => if N.eqb (cv_id (n_conv n)) id then Some n else find_node r id
  end.

(* _walk_converters; None = a `depends` that is not in the graph, or fuel exhausted (cycle) *)
Fixpoint walk (fuel : nat) (g : list node) (id : N) : option (list conv) :=
  match fuel with
  | O => None
  | S f =>
      match find_node g id with
      | None => None
      | Some n =>
          match n_dep n with
          | None => Some [n_conv n]
          | Some d => match walk f g d with Some r => Some (n_conv n :: r) | None => None end
          end
      end
  end.

Fixpoint lookup_entry (es : list (str * N)) (name : str) : option N :=
  match es with
  | [] => None
  | (n, id) :: r => if str_eqb n name then Some id else lookup_entry r name
  end.

Fixpoint nodupN (l : list N) : bool :=
  match l with [] => true | x :: r => negb (existsb (N.eqb x) r) && nodupN r end.

(* well-formedness of a (finite) graph + entry table, decided by computation *)
Definition chain_ok (chain : list conv) : bool :=
  nodupN (map cv_id chain)
  && forallb (fun cv => match eligible cv with Some e => dot_ext e | None => true end) chain.
Definition graph_ok (g : list node) (es : list (str * N)) : bool :=
  forallb (fun e => match walk (length g) g (snd e) with Some ch => chain_ok ch | None => false end) es.

Section Cache.
  Variable data : Type.
  Variable convert : N -> data -> result data.       (* cv.convert(data) / cv(data) *)
  Variable from_cache : N -> str -> result data.      (* cv.from_cache(bytes) *)
  Notation cache := (str -> option str).              (* file name -> content; None = FileNotFoundError *)

  Definition rbind {A B} (r : result A) (f : A -> result B) : result B :=
    match r with Ok a => f a | Err e => Err e end.

  (* for cv in reversed(chain): data = convert(cv, data) *)
  Fixpoint run_chain (chain : list conv) (d : data) : result data :=
    match chain with
    | [] => Ok d
    | cv :: rest => rbind (run_chain rest d) (convert (cv_id cv))
    end.

  Definition push (cv : conv) (r : option (list conv * conv * str)) :=
    match r with Some (pre, h, b) => Some (cv :: pre, h, b) | None => None end.

  (* the for/else loop of __load_cache: names opened, and (chain[:i], chain[i], bytes) on a hit *)
  Fixpoint probe (uuid : str) (c : cache) (chain : list conv) : list str * option (list conv * conv * str) :=
    match chain with
    | [] => ([], None)
    | cv :: rest =>
        match eligible cv with
        | Some e =>
            match c (uuid ++ e) with
            | Some b => ([uuid ++ e], Some ([], cv, b))
            | None => let '(o, r) := probe uuid c rest in ((uuid ++ e) :: o, push cv r)
            end
        | None => let '(o, r) := probe uuid c rest in (o, push cv r)
        end
    end.

  Definition load_cache (chain : list conv) (c : cache) (uuid : str) : list str * result data :=
    match probe uuid c chain with
    | (o, None) => (o, Err E_KeyError)
    | (o, Some (pre, h, b)) => (o, rbind (from_cache (cv_id h) b) (run_chain pre))
    end.

  (* convert_format(sourcefmt, targetfmt, data): chain = converters from the target down to,
     excluding, the source (compared by identity); not found -> ValueError *)
  Fixpoint take_until (src : N) (chain : list conv) : option (list conv) :=
    match chain with
    | [] => None
    | cv :: r => if N.eqb (cv_id cv) src then Some []
                 else match take_until src r with Some p => Some (cv :: p) | None => None end
    end.
  Definition convert_chain (src : N) (chain : list conv) (d : data) : result data :=
    match take_until src chain with
    | None => Err E_ValueError
    | Some pre => run_chain pre d
    end.

  (* names probed for a list of converters *)
  Definition names (uuid : str) (l : list conv) : list str :=
    flat_map (fun cv => match eligible cv with Some e => [uuid ++ e] | None => [] end) l.

  (* AbstractDiagram.render(fmt), pretty_print=False.
     g/es: converter graph and entry-point table; fmt = None -> the Diagram object itself;
     cache = None -> no diagram cache configured; allow = _allow_render;
     fresh = outcome of __render_fresh (the internal rendering engine). *)
  Definition render (g : list node) (es : list (str * N)) (fmt : option str) (cache_ : option cache)
             (allow : bool) (uuid : str) (fresh : result data) : list str * result data :=
    match fmt with
    | None => ([], fresh)
    | Some f =>
        match lookup_entry es f with
        | None => ([], Err E_ValueError)                      (* UnknownOutputFormat *)
        | Some id =>
            match walk (length g) g id with
            | None => ([], Err E_OutOfFuel)
            | Some chain =>
                match cache_ with
                | None => ([], rbind fresh (run_chain chain))
                | Some c =>
                    let '(o, r) := load_cache chain c uuid in
                    match r with
                    | Err 1%N (* KeyError *) =>
                        if allow then (o, rbind fresh (run_chain chain))
                        else (o, Err E_RuntimeError)
                    | _ => (o, r)
                    end
                end
            end
        end
    end.
End Cache.

(* ---------------- instantiation used by the correspondence check ----------------
   data is a [val]: from_cache id bytes = [id; bytes], convert id d = [id; d], unless the
   harness lists the converter as failing in this run (id, error code). *)
Fixpoint assocN (l : list (N * N)) (k : N) : option N :=
  match l with [] => None | (a, b) :: r => if N.eqb a k then Some b else assocN r k end.
Definition sym_convert (fails : list (N * N)) (id : N) (d : val) : result val :=
  match assocN fails id with Some e => Err e | None => Ok (VL [VZ (Z.of_N id); d]) end.
Definition sym_from_cache (fails : list (N * N)) (id : N) (b : str) : result val :=
  match assocN fails id with Some e => Err e | None => Ok (VL [VZ (Z.of_N id); VS b]) end.
Fixpoint assoc_str (l : list (str * str)) (k : str) : option str :=
  match l with [] => None | (a, b) :: r => if str_eqb a k then Some b else assoc_str r k end.

Definition dec_opt_str (v : val) : option (option str) :=
  match v with VNone => Some None | VS s => Some (Some s) | _ => None end.
Definition dec_conv (v : val) : option conv :=
  match v with
  | VL [VZ id; e; VB fc] =>
      match dec_opt_str e with
      | Some e => Some {| cv_id := Z.to_N id; cv_ext := e; cv_fc := fc |}
      | None => None
      end
  | _ => None
  end.
Definition dec_pairNN (v : val) : option (N * N) :=
  match v with VL [VZ a; VZ b] => Some (Z.to_N a, Z.to_N b) | _ => None end.
Definition dec_pairSS (v : val) : option (str * str) :=
  match v with VL [VS a; VS b] => Some (a, b) | _ => None end.
Definition dec_list {A} (f : val -> option A) (v : val) : option (list A) :=
  match v with VL l => all_some (map f l) | _ => None end.
Definition enc_res (r : list str * result val) : val :=
  VL [of_strs (fst r); match snd r with Ok d => d | Err e => VE e end].

(* [chain; conv-fails; from_cache-fails; cache files; uuid] -> [opened; result] *)
Definition w_load_cache (v : val) : val :=
  match v with
  | VL [ch; cf; ff; files; VS uuid] =>
      match dec_list dec_conv ch, dec_list dec_pairNN cf, dec_list dec_pairNN ff, dec_list dec_pairSS files with
      | Some ch, Some cf, Some ff, Some files =>
          enc_res (load_cache val (sym_convert cf) (sym_from_cache ff) ch (assoc_str files) uuid)
      | _, _, _, _ => bad
      end
  | _ => bad
  end.

(* [chain; conv-fails; data] -> result of _run_converter_chain *)
Definition w_run_chain (v : val) : val :=
  match v with
  | VL [ch; cf; d] =>
      match dec_list dec_conv ch, dec_list dec_pairNN cf with
      | Some ch, Some cf => match run_chain val (sym_convert cf) ch d with Ok d => d | Err e => VE e end
      | _, _ => bad
      end
  | _ => bad
  end.

(* synthetic graph: [[id; ext; fc; dep-or-None] ...], start id -> ids walked (VE OutOfFuel on a cycle) *)
Definition dec_node (v : val) : option node :=
  match v with
  | VL [VZ id; e; VB fc; d] =>
      match dec_opt_str e, (match d with VNone => Some None | VZ z => Some (Some (Z.to_N z)) | _ => None end) with
      | Some e, Some d => Some {| n_conv := {| cv_id := Z.to_N id; cv_ext := e; cv_fc := fc |}; n_dep := d |}
      | _, _ => None
      end
  | _ => None
  end.
Definition w_walk (v : val) : val :=
  match v with
  | VL [g; VZ start] =>
      match dec_list dec_node g with
      | Some g => match walk (length g) g (Z.to_N start) with
                  | Some ch => VL (map (fun cv => VZ (Z.of_N (cv_id cv))) ch)
                  | None => VE E_OutOfFuel
                  end
      | None => bad
      end
  | _ => bad
  end.

(* [graph; entries; src id; target name; conv-fails; data] -> convert_format *)
Definition dec_entry (v : val) : option (str * N) :=
  match v with VL [VS n; VZ id] => Some (n, Z.to_N id) | _ => None end.
Definition w_convert_format (v : val) : val :=
  match v with
  | VL [g; es; VZ src; VS tgt; cf; d] =>
      match dec_list dec_node g, dec_list dec_entry es, dec_list dec_pairNN cf with
      | Some g, Some es, Some cf =>
          match lookup_entry es tgt with
          | None => VE E_ValueError
          | Some id =>
              match walk (length g) g id with
              | None => VE E_OutOfFuel
              | Some ch => match convert_chain val (sym_convert cf) (Z.to_N src) ch d with Ok d => d | Err e => VE e end
              end
          end
      | _, _, _ => bad
      end
  | _ => bad
  end.
