(* MX / SerExs: the Eclipse-style XML writer of capellambse/loader/exs.py.
   Every function of the module is modelled (names in comments), including the [pos]
   column bookkeeping and its quirks.  The constants come from Gen/ExsConsts.v, which is
   re-extracted from the source on every run.

   The model is organised in two phases whose composition equals the interleaved Python:
     phase 1  [resolve]  : elem -> res relem     (_unmap_namespace, _unmapped_attrs, _escape of
                                                  attribute values, _ns_sortkey; may raise)
     phase 2  [lay_elem] : relem -> str * pos    (_serialize_element layout, _serialize_text,
                                                  _serialize_comment, serialize; total)
   Output is produced as code points; [utf8] is applied at the very end (every buffer.write
   encodes its piece separately, and encoding distributes over concatenation).

   [scfg] makes the two behaviours that proposed_fixes/C02-*.diff would change explicit
   parameters; [CFG] is the configuration of the source tree under check. *)
From Coq Require Import ZArith NArith List Bool.
Import ListNotations.
From V Require Import Model.Val Model.XmlTree Gen.ExsConsts.
Open Scope N_scope.

Record scfg := SCfg { fix_cdata : bool; fix_blank_leaf : bool }.
Definition CFG : scfg := SCfg FIX_CDATA_END FIX_BLANK_LEAF.

Inductive res (A : Type) := ROk (a : A) | RErr (e : N).
Arguments ROk {A} a. Arguments RErr {A} e.

Definition is_nil {A} (l : list A) : bool := match l with [] => true | _ => false end.
Definition is_none {A} (o : option A) : bool := match o with None => true | _ => false end.

(* ---------------- _escape_char / _escape ---------------- *)
Definition hex_digit (d : N) : N := if d <? 10 then 48 + d else 55 + d.
Fixpoint hex_go (fuel : nat) (n : N) (acc : str) : str :=
  match fuel with
  | O => acc
  | S f => let acc' := hex_digit (n mod 16) :: acc in
           if n / 16 =? 0 then acc' else hex_go f (n / 16) acc'
  end.
Definition hex (n : N) : str := hex_go (S (N.size_nat n)) n [].     (* f"{n:X}" *)

Definition AMP : N := 38. Definition SEMI : N := 59. Definition QUOT : N := 34.
Definition LT : N := 60. Definition GT : N := 62.

Definition escape_char (c : N) : str :=
  if (ORD_LOW <=? c) && (c <=? ORD_HIGH)
  then AMP :: match assocN c ENTITY_NAMES with Some n => n | None => [] end ++ [SEMI]
  else AMP :: 35 :: 120 :: hex c ++ [SEMI].
Definition escape (cls : list (N * N)) (s : str) : str :=
  flat_map (fun c => if in_ranges c cls then escape_char c else [c]) s.

(* "]]>" -> "]]&gt;"  (str.replace: leftmost, non-overlapping) — only with fix_cdata *)
Fixpoint cdata_fix (s : str) : str :=
  match s with
  | [] => []
  | c :: r =>
      if c =? 93 then
        match r with
        | c1 :: c2 :: r' => if (c1 =? 93) && (c2 =? GT) then [93; 93; AMP; 103; 116; SEMI] ++ cdata_fix r'
                            else c :: cdata_fix r
        | _ => c :: cdata_fix r
        end
      else c :: cdata_fix r
  end.
Definition esc_line (cfg : scfg) (cls : list (N * N)) (line : str) : str :=
  let e := escape cls line in if fix_cdata cfg then cdata_fix e else e.

(* ---------------- _serialize_text ---------------- *)
Fixpoint split_lines (s : str) (cur : str) : list str :=      (* text.split("\n"); cur reversed *)
  match s with
  | [] => [rev cur]
  | c :: r => if c =? 10 then rev cur :: split_lines r [] else split_lines r (c :: cur)
  end.
Fixpoint join_lines (sep : str) (l : list str) : str :=
  match l with
  | [] => []
  | [x] => x
  | x :: r => x ++ sep ++ join_lines sep r
  end.
Definition ser_text (cfg : scfg) (cls : list (N * N)) (multiline : bool) (text : option str) (pos : N) : str * N :=
  match text with
  | None => ([], pos)
  | Some [] => ([], pos)
  | Some t =>
      let ls := split_lines t [] in
      (join_lines (if multiline then LINESEP else []) (map (esc_line cfg cls) ls),
       lenN (last ls []) + (match ls with _ :: _ :: _ => pos | _ => 0 end))      (* len(line) + bool(i) * pos *)
  end.

(* (x or "").strip() is truthy *)
Definition py_nonblank (s : str) : bool := existsb (fun c => negb (in_ranges c PY_SPACE)) s.
Definition nonblank_opt (o : option str) : bool := match o with Some s => py_nonblank s | None => false end.
(* the test deciding whether element.text is written *)
Definition text_written (cfg : scfg) (leaf : bool) (text : option str) : bool :=
  match text with
  | None => false
  | Some s => if fix_blank_leaf cfg then negb (is_nil s) && (leaf || py_nonblank s) else py_nonblank s
  end.

(* ---------------- _unmap_namespace ---------------- *)
(* nsmap = {v: k for k, v in element.nsmap.items() if k}: the last prefix bound to a URI wins *)
Definition inv_lookup (uri : str) (nsmap : list (str * str)) : option str :=
  fold_left (fun acc p => if negb (is_nil (fst p)) && str_eqb (snd p) uri then Some (fst p) else acc) nsmap None.
Definition unmap (nsmap : list (str * str)) (q : qname) : res str :=
  if is_nil (q_local q) then RErr E_AssertionError
  else if is_nil (q_uri q) then ROk (q_local q)
  else match inv_lookup (q_uri q) nsmap with
       | None => RErr E_ValueError
       | Some p => ROk (p ++ [58] ++ q_local q)
       end.

(* ---------------- _ns_sortkey + sorted ---------------- *)
Definition ns_rank (p : str) : N := match assoc_str p NS_RANKS with Some r => r | None => NS_DEFAULT_RANK end.
Definition ns_leb (a b : str) : bool :=
  let ra := ns_rank a in let rb := ns_rank b in
  if ra <? rb then true else if rb <? ra then false else str_leb a b.
Fixpoint ns_insert (x : str * str) (l : list (str * str)) : list (str * str) :=
  match l with
  | [] => [x]
  | y :: r => if ns_leb (fst x) (fst y) then x :: l else y :: ns_insert x r
  end.
Definition ns_sort (l : list (str * str)) : list (str * str) := fold_right ns_insert [] l.

(* ---------------- _unmapped_attrs ---------------- *)
Fixpoint find_attr (k : qname) (l : list (qname * str)) : option str :=
  match l with [] => None | (k', v) :: r => if qname_eqb k k' then Some v else find_attr k r end.
Definition is_priority (k : qname) : bool := existsb (fun p => qname_eqb k (QN (fst p) (snd p))) PRIORITY_ATTRS.
Definition map_res {A B} (f : A -> res B) : list A -> res (list B) :=
  fix go (l : list A) : res (list B) :=
    match l with
    | [] => ROk []
    | x :: r => match f x with
                | RErr e => RErr e
                | ROk y => match go r with RErr e => RErr e | ROk r' => ROk (y :: r') end
                end
    end.
Definition unmap_attr (nsmap : list (str * str)) (kv : qname * str) : res (str * str) :=
  match unmap nsmap (fst kv) with RErr e => RErr e | ROk n => ROk (n, escape TEXT_CLASS (snd kv)) end.
Definition prio_present (attrs : list (qname * str)) : list (qname * str) :=
  flat_map (fun p => let k := QN (fst p) (snd p) in
                     match find_attr k attrs with Some v => [(k, v)] | None => [] end) PRIORITY_ATTRS.
Definition rest_attrs (attrs : list (qname * str)) : list (qname * str) :=
  filter (fun kv => negb (is_priority (fst kv))) attrs.
Definition ns_decls (nsmap : list (str * str)) (parent_ns : list str) : list (str * str) :=
  map (fun p => (XMLNS_PREFIX ++ fst p, snd p))
      (filter (fun p => negb (mem_str (fst p) parent_ns)) (ns_sort nsmap)).
Definition unmapped_attrs (nsmap : list (str * str)) (parent_ns : list str) (attrs : list (qname * str))
  : res (list (str * str)) :=
  match map_res (unmap_attr nsmap) (prio_present attrs) with
  | RErr e => RErr e
  | ROk pr =>
      match map_res (unmap_attr nsmap) (rest_attrs attrs) with
      | RErr e => RErr e
      | ROk rs => ROk (pr ++ ns_decls nsmap parent_ns ++ rs)
      end
  end.

(* ---------------- phase 1: resolve ---------------- *)
(* what the writer needs to know about an element once names are unmapped and values escaped *)
Inductive relem :=
| RElem (tag : str) (attrs : list (str * str)) (expanded : bool)
        (text : option str) (children : list relem) (tail : option str).
Definition r_tag (r : relem) := let 'RElem t _ _ _ _ _ := r in t.
Definition r_attrs (r : relem) := let 'RElem _ a _ _ _ _ := r in a.
Definition r_children (r : relem) := let 'RElem _ _ _ _ c _ := r in c.

Definition qname_string (q : qname) : str :=
  if is_nil (q_uri q) then q_local q else [123] ++ q_uri q ++ [125] ++ q_local q.

Fixpoint resolve (parent_map : list (str * str)) (e : elem) : res relem :=
  let 'Elem tag own attrs text ch tail := e in
  let nsmap := nsmap_of own parent_map in
  if existsb (fun p => is_nil (fst p)) nsmap then RErr E_AssertionError      (* assert None not in element.nsmap *)
  else
    match unmap nsmap tag with
    | RErr e => RErr e
    | ROk t =>
        match unmapped_attrs nsmap (map fst parent_map) attrs with
        | RErr e => RErr e
        | ROk ats =>
            match map_res (resolve nsmap) ch with
            | RErr e => RErr e
            | ROk ch' => ROk (RElem t ats (mem_str (qname_string tag) ALWAYS_EXPANDED_TAGS) text ch' tail)
            end
        end
    end.

(* ---------------- phase 2: layout ---------------- *)
Definition indent_str (n : N) : str := repeat_str INDENT (N.to_nat n).

(* the attribute loop of _serialize_element; [force] = force_break *)
Fixpoint lay_attrs (ll : N) (is_root : bool) (aind : str) (pos : N) (force : bool) (ats : list (str * str)) : str * N :=
  match ats with
  | [] => ([], pos)
  | (n, v) :: r =>
      let brk := (ll <? pos) || force in
      let sep := if brk then LINESEP ++ aind else [32] in
      let pos1 := if brk then lenN aind else pos + 1 in
      let pos2 := pos1 + (lenN n + lenN v + 3) in
      let '(o, p) := lay_attrs ll is_root aind pos2 (is_root && str_eqb n ROOT_BREAK_ATTR) r in
      (sep ++ n ++ [61; QUOT] ++ v ++ [QUOT] ++ o, p)
  end.

(* the loop over the children of _serialize_element; [lay posc c] lays out one child *)
Definition lay_children (lay : N -> relem -> str * N) (cfg : scfg) (cind : str) (tail : option str)
  : list relem -> N -> bool -> str * N * bool :=
  fix go (l : list relem) (pos : N) (tc : bool) {struct l} : str * N * bool :=
    match l with
    | [] => ([], pos, tc)
    | c :: rest =>
        let pre := if tc then [] else LINESEP ++ cind in
        let posc := if tc then pos else lenN cind in
        let '(o, p) := lay posc c in
        let tw := nonblank_opt tail in                        (* element.tail — sic, not child.tail *)
        let '(tlo, p') := if tw then ser_text cfg TEXT_CLASS false tail p else ([], p) in
        let '(ro, pr, tcr) := go rest p' tw in
        (pre ++ o ++ tlo ++ ro, pr, tcr)
    end.

Fixpoint lay_elem (cfg : scfg) (ll : N) (is_root : bool) (indent : N) (pos : N) (r : relem) {struct r} : str * N :=
  let 'RElem tag ats expanded text ch tail := r in
  let tl := utf8_len tag in                                   (* len(tag) — tag is already encoded *)
  let '(ao, pos1) := lay_attrs ll is_root (indent_str (indent + 2)) (pos + 1 + tl) false ats in
  let head := LT :: tag ++ ao in
  if is_none text && is_nil ch && negb expanded then (head ++ [47; GT], pos1 + 2)
  else
    let twr := text_written cfg (is_nil ch) text in
    let '(txo, pos2) := if twr then ser_text cfg TEXT_CLASS true text pos1 else ([], pos1) in
    let '(co, pos3, tc) :=
      lay_children (fun posc c => lay_elem cfg ll false (indent + 1) posc c) cfg (indent_str (indent + 1)) tail ch pos2 twr in
    let close_brk := negb (is_nil ch) && negb tc in
    let ind := indent_str indent in
    ((head ++ [GT] ++ txo ++ co ++ (if close_brk then LINESEP ++ ind else []) ++ [LT; 47] ++ tag ++ [GT]),
     (if close_brk then lenN ind else pos3) + tl + 3).

(* _serialize_comment (its [pos] argument is overwritten before use) *)
Definition lay_comment (cfg : scfg) (indent : N) (c : comment) : str * N :=
  let ind := indent_str indent in
  let '(txo, p) := ser_text cfg COMMENT_TEXT_CLASS false (Some (c_text c)) (lenN ind) in
  let head := LINESEP ++ ind ++ [LT; 33; 45; 45] ++ txo ++ [45; 45; GT] in
  if nonblank_opt (c_tail c)
  then let '(tlo, p') := ser_text cfg TEXT_CLASS false (c_tail c) p in (head ++ tlo, p')
  else (head ++ LINESEP ++ ind, lenN ind).

Fixpoint lay_comments (cfg : scfg) (cs : list comment) (pos : N) : str * N :=
  match cs with
  | [] => ([], pos)
  | c :: r => let '(o, p) := lay_comment cfg 0 c in
              let '(o', p') := lay_comments cfg r p in (o ++ o', p')
  end.

(* serialize(tree, line_length=ll, siblings=True) on resolved parts *)
Definition lay_doc (cfg : scfg) (ll : N) (before : list comment) (root : relem) (after : list comment) : str :=
  let '(bo, pos) := lay_comments cfg before 0 in
  let '(ro, _) := lay_elem cfg ll true 0 pos root in           (* return value ignored by serialize *)
  let 'RElem _ _ _ _ _ rtail := root in
  let '(to, pos') := if nonblank_opt rtail then ser_text cfg TEXT_CLASS true rtail pos else ([], pos) in
  let '(ao, _) := lay_comments cfg after pos' in
  bo ++ ro ++ to ++ ao ++ [10].

(* _declare("utf-8") *)
Definition declaration : str :=
  [60;63;120;109;108;32;118;101;114;115;105;111;110;61;34;49;46;48;34;32;101;110;99;111;100;105;110;103;61;34;85;84;70;45;56;34;63;62] ++ LINESEP.

Definition ser_doc (cfg : scfg) (ll : N) (d : doc) : res str :=
  match resolve [] (d_root d) with
  | RErr e => RErr e
  | ROk r => ROk (lay_doc cfg ll (d_before d) r (d_after d))
  end.
(* exs.write: declaration + payload, as bytes *)
Definition write_bytes (cfg : scfg) (ll : N) (d : doc) : res (list N) :=
  match ser_doc cfg ll d with RErr e => RErr e | ROk s => ROk (utf8 (declaration ++ s)) end.

(* ModelFile.write_xml: line length by fragment type (file suffix) *)
Definition line_length_of (suffix : str) : N := if mem_str suffix SEMANTIC_EXTS then LINE_LENGTH else MAXSIZE.

(* ---------------- val wrappers ---------------- *)
Definition cls_of (z : Z) : list (N * N) :=
  match z with 0%Z => TEXT_CLASS | 1%Z => COMMENT_TEXT_CLASS | _ => COMMENTS_CLASS end.
Definition w_escape (v : val) : val :=
  match v with VL [VZ k; VS s] => VS (escape (cls_of k) s) | _ => bad end.
Definition w_ser_text (v : val) : val :=
  match v with
  | VL [tx; VZ pos; VB ml; VZ k] =>
      match opt_str_of_val tx with
      | Some t => let '(o, p) := ser_text CFG (cls_of k) ml t (Z.to_N pos) in VL [VS (utf8 o); VZ (Z.of_N p)]
      | None => bad
      end
  | _ => bad
  end.
Definition w_ns_sorted (v : val) : val :=
  match as_strs v with Some l => of_strs (map fst (ns_sort (map (fun p => (p, [])) l))) | None => bad end.
Definition pairs_val (l : list (str * str)) : val := VL (map (fun p => VL [VS (fst p); VS (snd p)]) l).
(* _unmapped_attrs: VL [parent (VNone | VL pairs); elem] *)
Definition parent_of_val (v : val) : option (option (list (str * str))) :=
  match v with
  | VNone => Some None
  | VL l => match all_some (map pair_of_val l) with Some m => Some (Some m) | None => None end
  | _ => None
  end.
Definition w_unmapped (v : val) : val :=
  match v with
  | VL [pv; ev] =>
      match parent_of_val pv, elem_of_val ev with
      | Some par, Some e =>
          let pm := match par with Some m => m | None => [] end in
          let nsmap := nsmap_of (e_nsdecl e) pm in
          if existsb (fun p => is_nil (fst p)) nsmap then VE E_AssertionError else
          match unmapped_attrs nsmap (map fst pm) (e_attrs e) with
          | ROk l => pairs_val l
          | RErr c => VE c
          end
      | _, _ => bad
      end
  | _ => bad
  end.
(* _serialize_element(buffer, element, indent, pos=pos, line_length=ll) on a subtree:
   VL [parent; elem; VZ indent; VZ pos; VZ ll] -> VL [VS bytes; VZ pos] *)
Definition w_elem (v : val) : val :=
  match v with
  | VL [pv; ev; VZ ind; VZ pos; VZ ll] =>
      match parent_of_val pv, elem_of_val ev with
      | Some par, Some e =>
          match resolve (match par with Some m => m | None => [] end) e with
          | ROk r => let '(o, p) := lay_elem CFG (Z.to_N ll) (is_none par) (Z.to_N ind) (Z.to_N pos) r in
                     VL [VS (utf8 o); VZ (Z.of_N p)]
          | RErr c => VE c
          end
      | _, _ => bad
      end
  | _ => bad
  end.
(* exs.write(root, file, line_length=ll, siblings=True): VL [VL before; elem; VL after; VZ ll] -> VS bytes *)
Definition doc_of_val (b r a : val) : option doc :=
  match b, a with
  | VL bl, VL al =>
      match all_some (map comment_of_val bl), elem_of_val r, all_some (map comment_of_val al) with
      | Some b', Some r', Some a' => Some (Doc b' r' a')
      | _, _, _ => None
      end
  | _, _ => None
  end.
Definition w_doc (v : val) : val :=
  match v with
  | VL [b; r; a; VZ ll] =>
      match doc_of_val b r a with
      | Some d => match write_bytes CFG (Z.to_N ll) d with ROk s => VS s | RErr c => VE c end
      | None => bad
      end
  | _ => bad
  end.
(* ModelFile.write_xml: VL [VS suffix; VL before; elem; VL after] -> VS bytes *)
Definition w_file (v : val) : val :=
  match v with
  | VL [VS suf; b; r; a] =>
      match doc_of_val b r a with
      | Some d => match write_bytes CFG (line_length_of suf) d with ROk s => VS s | RErr c => VE c end
      | None => bad
      end
  | _ => bad
  end.
