(* C09 — deletion with reference purging, over an abstract element graph.
   Elements: handle, parent, own ids, reference attributes (exposed through an accessor or
   not) and, for link elements exposed through a LinkAccessor, the id they point to. *)
From Coq Require Import ZArith List Bool.
Import ListNotations.
From V Require Import Model.Val.
Open Scope Z_scope.

Record refattr := mkRef { ra_name : Z; ra_exposed : bool; ra_targets : list Z }.
Record el := mkEl {
  e_h : Z; e_par : option Z; e_ids : list Z;
  e_refs : list refattr;
  e_link : option Z          (* exposed link element: the id it follows *)
}.

Definition memz (x : Z) (l : list Z) : bool := existsb (Z.eqb x) l.
Definition find_el (ns : list el) (h : Z) : option el := find (fun n => e_h n =? h) ns.

(* is [h] inside the subtree rooted at one of [roots]?  walk up the parent chain *)
Fixpoint below_fuel (fuel : nat) (ns : list el) (roots : list Z) (h : Z) : bool :=
  memz h roots ||
  match fuel with
  | O => false
  | S fuel => match find_el ns h with
              | Some n => match e_par n with Some p => below_fuel fuel ns roots p | None => false end
              | None => false
              end
  end.
Definition below (ns : list el) (roots : list Z) (h : Z) : bool := below_fuel (length ns) ns roots h.

Definition ids_of (ns : list el) : list Z := flat_map e_ids ns.

Record outcome := mkOut { o_nodes : list el; o_removed : list Z }.

(* DirectProxyAccessor._delete for the target elements [ts] (one for `del lst[i]`, several for `del lst[a:b]`,
   `del obj.attr`, a declarative `delete:` with several entries): every reference from outside into any of the subtrees
   is purged — also when one holder's relation refers to several of the deleted objects *)
Definition delete_many (ns : list el) (ts : list Z) : outcome :=
  let inT := fun n => below ns ts (e_h n) in
  let tids := ids_of (filter inT ns) in
  let links := map e_h (filter (fun n => negb (inT n) && match e_link n with Some u => memz u tids | None => false end) ns) in
  let gone := fun n => inT n || below ns links (e_h n) in
  let purge := fun r => if ra_exposed r then mkRef (ra_name r) true (filter (fun u => negb (memz u tids)) (ra_targets r)) else r in
  mkOut (map (fun n => mkEl (e_h n) (e_par n) (e_ids n) (map purge (e_refs n)) (e_link n)) (filter (fun n => negb (gone n)) ns))
        (map e_h (filter gone ns)).
Definition delete (ns : list el) (t : Z) : outcome := delete_many ns [t].

(* a purge that handles each (holder, relation) pair only once — for the first deleted object it meets — as a seeded
   change to _delete did: remove_first drops one deleted target per exposed attribute, and only the link elements that
   follow the FIRST deleted id of their parent's relation go *)
Fixpoint remove_first (f : Z -> bool) (l : list Z) : list Z :=
  match l with [] => [] | x :: r => if f x then r else x :: remove_first f r end.
Definition delete_many_once (ns : list el) (ts : list Z) : outcome :=
  let inT := fun n => below ns ts (e_h n) in
  let tids := ids_of (filter inT ns) in
  let gone := fun n => inT n in
  let purge := fun r => if ra_exposed r then mkRef (ra_name r) true (remove_first (fun u => memz u tids) (ra_targets r)) else r in
  mkOut (map (fun n => mkEl (e_h n) (e_par n) (e_ids n) (map purge (e_refs n)) (e_link n)) (filter (fun n => negb (gone n)) ns))
        (map e_h (filter gone ns)).

(* a deletion refused while entering the purge contexts changes nothing *)
Definition delete_guarded (refuses : el -> bool) (ns : list el) (t : Z) : option outcome :=
  let inT := fun n => below ns [t] (e_h n) in
  let tids := ids_of (filter inT ns) in
  (* an accessor that refuses purging (PhysicalLinkEndsAccessor) holding a reference into T *)
  if existsb (fun n => negb (inT n) && refuses n &&
                       existsb (fun r => ra_exposed r && existsb (fun u => memz u tids) (ra_targets r)) (e_refs n)) ns
  then None else Some (delete ns t).

(* several targets in ONE call (`del obj.attr`: DirectProxyAccessor.__delete__ hands all members to _delete): every purge
   context of every target is entered before anything is removed, so one refusal anywhere leaves everything in place *)
Definition delete_guarded_many (refuses : el -> bool) (ns : list el) (ts : list Z) : option outcome :=
  let inT := fun n => below ns ts (e_h n) in
  let tids := ids_of (filter inT ns) in
  if existsb (fun n => negb (inT n) && refuses n &&
                       existsb (fun r => ra_exposed r && existsb (fun u => memz u tids) (ra_targets r)) (e_refs n)) ns
  then None else Some (delete_many ns ts).
(* the same targets deleted one call after the other (`del lst[a:b]`, a declarative `delete:` list, or _delete split per
   root as a seeded change did): (state reached, did a call raise?) *)
Fixpoint delete_seq (refuses : el -> bool) (ns : list el) (ts : list Z) : list el * bool :=
  match ts with
  | [] => (ns, false)
  | t :: r => match delete_guarded refuses ns t with
              | None => (ns, true)
              | Some o => delete_seq refuses (o_nodes o) r
              end
  end.

(* ---- wrappers ---- *)
Definition dec_optz (v : val) : option (option Z) := match v with VNone => Some None | VZ z => Some (Some z) | _ => None end.
Definition dec_zs (v : val) : option (list Z) := match v with VL l => all_some (map as_Z l) | _ => None end.
Definition dec_ref (v : val) : option refattr :=
  match v with
  | VL [VZ a; VB e; ts] => match dec_zs ts with Some ts => Some (mkRef a e ts) | None => None end
  | _ => None
  end.
Definition dec_el (v : val) : option el :=
  match v with
  | VL [VZ h; par; ids; VL refs; lk] =>
      match dec_optz par, dec_zs ids, all_some (map dec_ref refs), dec_optz lk with
      | Some par, Some ids, Some refs, Some lk => Some (mkEl h par ids refs lk)
      | _, _, _, _ => None
      end
  | _ => None
  end.
Definition enc_el_refs (n : el) : val :=
  VL [VZ (e_h n); VL (map (fun r => VL [VZ (ra_name r); VL (map VZ (ra_targets r))]) (e_refs n))].
(* input [nodes; target; watched handles]  ->  [removed handles (document order); refs of the watched survivors] *)
Definition w_delete (v : val) : val :=
  match v with
  | VL [VL ns; tv; ws] =>
      match all_some (map dec_el ns), dec_zs ws, (match tv with VZ t => Some [t] | _ => dec_zs tv end) with
      | Some ns, Some ws, Some ts =>
          let o := delete_many ns ts in
          VL [VL (map VZ (o_removed o));
              VL (map enc_el_refs (filter (fun n => memz (e_h n) ws) (o_nodes o)))]
      | _, _, _ => bad
      end
  | _ => bad
  end.
