(* C16 / GitTx: capellambse/filehandler/git.py  _GitTransaction, _WritableGitFile and
   GitFileHandler.open("w") as a state machine over an abstract git repository.
   Executable definitions only.

   Repository  = refs |-> commit id, commit store (id = position), commit = (parent, tree, message, author)
   tree        = path |-> bytes (association list, first binding wins)
   handler     = detached HEAD of its private work tree, index, work tree files, transaction slot,
                 the resolved revision name (handler.revision).
   The git plumbing commands are given their documented effect on this state
   (modelled, not verified; sampled against git 2.39 by harness/c16.py on every run).

   A fault schedule [option nat] counts the interruptible steps of a transaction
   (every GitFileHandler._git call, every open/write of a writable file): [Some k] makes
   the k-th step (0-based) raise instead of running; it fires once.

   The model follows the code WITH proposed_fixes/C16-dry-run-reset.diff applied
   (__rollback = reset --hard old_sha; clean -fdq  in the abort path, in the dry-run path and when
   the commit phase fails before the ref was updated). *)
From Coq Require Import ZArith NArith List Bool Arith.
Import ListNotations.
From V Require Import Model.Val.
Open Scope bool_scope.

(* ------------------------------------------------------------------ trees *)
Definition tree := list (str * str).
Notation cid := nat (only parsing).

Fixpoint lookup (p : str) (t : tree) : option str :=
  match t with
  | [] => None
  | (q, b) :: r => if str_eqb p q then Some b else lookup p r
  end.
Definition upd (p b : str) (t : tree) : tree := (p, b) :: t.
Definition in_dom (p : str) (t : tree) : bool := match lookup p t with Some _ => true | None => false end.
Definition restrict (keep : str -> bool) (t : tree) : tree := filter (fun e => keep (fst e)) t.

Definition opt_str_eqb (a b : option str) : bool :=
  match a, b with
  | Some x, Some y => str_eqb x y
  | None, None => true
  | _, _ => false
  end.
(* equality of the git tree objects two path maps hash to (git trees are canonical) *)
Definition tree_eqb (a b : tree) : bool :=
  forallb (fun p => opt_str_eqb (lookup p a) (lookup p b)) (map fst a ++ map fst b).

(* ------------------------------------------------------------------ state *)
Record commit := { cparent : option cid; ctree : tree; cmsg : str; cauthor : str * str }.

Record st := {
  refs : list (str * cid);
  commits : list commit;
  head : cid;            (* detached HEAD of the handler's work tree *)
  index : tree;
  wt : tree;             (* every file of the work tree, tracked or not *)
  slot : bool;           (* handler._transaction is not None *)
  rev : str;             (* handler.revision, e.g. refs/heads/main *)
  env_author : str * str (* GIT_AUTHOR_NAME / GIT_AUTHOR_EMAIL of the process *)
}.

Fixpoint lookup_ref (r : str) (l : list (str * cid)) : option cid :=
  match l with
  | [] => None
  | (q, c) :: t => if str_eqb r q then Some c else lookup_ref r t
  end.
Fixpoint set_ref (r : str) (c : cid) (l : list (str * cid)) : list (str * cid) :=
  match l with
  | [] => [(r, c)]
  | (q, d) :: t => if str_eqb r q then (q, c) :: t else (q, d) :: set_ref r c t
  end.
Definition tree_of (c : cid) (cs : list commit) : tree :=
  match nth_error cs c with Some cm => ctree cm | None => [] end.

Definition set_wt (w : tree) (s : st) : st :=
  {| refs := refs s; commits := commits s; head := head s; index := index s; wt := w;
     slot := slot s; rev := rev s; env_author := env_author s |}.
Definition set_index (i : tree) (s : st) : st :=
  {| refs := refs s; commits := commits s; head := head s; index := i; wt := wt s;
     slot := slot s; rev := rev s; env_author := env_author s |}.
Definition set_slot (b : bool) (s : st) : st :=
  {| refs := refs s; commits := commits s; head := head s; index := index s; wt := wt s;
     slot := b; rev := rev s; env_author := env_author s |}.
Definition set_head (c : cid) (s : st) : st :=
  {| refs := refs s; commits := commits s; head := c; index := index s; wt := wt s;
     slot := slot s; rev := rev s; env_author := env_author s |}.
Definition set_refs (r : list (str * cid)) (s : st) : st :=
  {| refs := r; commits := commits s; head := head s; index := index s; wt := wt s;
     slot := slot s; rev := rev s; env_author := env_author s |}.
Definition add_commit (cm : commit) (s : st) : st :=
  {| refs := refs s; commits := commits s ++ [cm]; head := head s; index := index s; wt := wt s;
     slot := slot s; rev := rev s; env_author := env_author s |}.

(* ------------------------------------------------------------------ plumbing *)
(* git add <p> : the work tree file becomes the index entry *)
Definition git_add (p : str) (s : st) : st :=
  match lookup p (wt s) with
  | Some b => set_index (upd p b (index s)) s
  | None => s
  end.
(* git reset --hard <c> : HEAD and index become c; tracked files are rewritten or removed,
   untracked files stay *)
Definition git_reset_hard (c : cid) (s : st) : st :=
  let t := tree_of c (commits s) in
  let untracked := restrict (fun p => negb (in_dom p (index s))) (wt s) in
  set_head c (set_index t (set_wt (t ++ untracked) s)).
(* git clean -fdq : untracked files are removed *)
Definition git_clean (s : st) : st :=
  set_wt (restrict (fun p => in_dom p (index s)) (wt s)) s.

(* ------------------------------------------------------------------ fault schedule *)
Definition tick (f : option nat) : bool * option nat :=
  match f with
  | Some O => (true, None)
  | Some (S n) => (false, Some n)
  | None => (false, None)
  end.

(* _GitTransaction.__rollback (proposed fix): reset --hard old ; clean -fdq.  false = it raised *)
Definition rollback (old : cid) (s : st) (f : option nat) : bool * st * option nat :=
  let '(x, f) := tick f in
  if x then (false, s, f) else
  let s := git_reset_hard old s in
  let '(x, f) := tick f in
  if x then (false, s, f) else
  (true, git_clean s, f).

(* ------------------------------------------------------------------ the with-body *)
Inductive bop :=
| BWrite (p b : str) (closed : bool)   (* open(p,"wb"); write(b); [close -> git add]  *)
| BRaise                               (* the caller's code raises (KeyError) *)
| BBadOpen (p : str)                   (* open(p,"wb") where the directory does not exist *)
| BNested.                             (* a second write_transaction() is entered *)

(* result: None = body ran to its end, Some e = exception e leaves the with-block *)
Fixpoint run_body (ops : list bop) (s : st) (f : option nat) : option N * st * option nat :=
  match ops with
  | [] => (None, s, f)
  | BWrite p b closed :: r =>
      let '(x, f) := tick f in                         (* Path.open("wb") *)
      if x then (Some E_OSError, s, f) else
      let s := set_wt (upd p [] (wt s)) s in           (* created / truncated *)
      let '(x, f) := tick f in                         (* file.write *)
      if x then (Some E_OSError, if closed then git_add p s else s, f) else
      let s := set_wt (upd p b (wt s)) s in
      if closed then
        let '(x, f) := tick f in                       (* close -> record_update -> git add *)
        if x then (Some E_OSError, s, f) else
        run_body r (git_add p s) f
      else run_body r s f
  | BRaise :: _ => (Some E_KeyError, s, f)
  | BBadOpen p :: _ =>
      let '(x, f) := tick f in
      if x then (Some E_OSError, s, f) else (Some E_FileNotFound, s, f)
  | BNested :: _ =>
      let '(x, f) := tick f in                         (* inner __enter__: rev-parse *)
      if x then (Some E_OSError, s, f) else (Some E_RuntimeError, s, f)
  end.

(* ------------------------------------------------------------------ target ref *)
Definition SLASH : N := 47.
Definition s_HEAD : str := [72;69;65;68]%N.
Definition s_uHEAD : str := [95;72;69;65;68]%N.
Definition s_refs_heads : str := [114;101;102;115;47;104;101;97;100;115;47]%N.
Definition HEX_MIN : nat := 4.

Fixpoint g_prefixb (p s : str) : bool :=
  match p, s with
  | [], _ => true
  | x :: p', y :: s' => N.eqb x y && g_prefixb p' s'
  | _, [] => false
  end.
Definition g_suffixb (p s : str) : bool := g_prefixb (List.rev p) (List.rev s).
Fixpoint last_seg_go (s cur : str) : str :=
  match s with
  | [] => List.rev cur
  | c :: r => if N.eqb c SLASH then last_seg_go r [] else last_seg_go r (c :: cur)
  end.
Definition last_seg (s : str) : str := last_seg_go s [].
Definition is_hex (c : N) : bool :=
  ((48 <=? c) && (c <=? 57) || (65 <=? c) && (c <=? 70) || (97 <=? c) && (c <=? 102))%N.
(* _git_object_name = re.compile("(^|/)([0-9a-fA-F]{4,}|(.+_)?HEAD)$").search, on strings without newline *)
Definition objectlike (s : str) : bool :=
  let l := last_seg s in
  (forallb is_hex l && (HEX_MIN <=? List.length l)%nat)
  || str_eqb l s_HEAD
  || (g_suffixb s_uHEAD s && (6 <=? List.length s)%nat).

Record opts := {
  dry_run : bool;
  ignore_empty : bool;
  remote_branch : option str;
  author : str * str;      (* author_name, author_email; empty = not given *)
  msg : str
}.
Definition is_empty (s : str) : bool := match s with [] => true | _ => false end.
(* targetref = remote_branch or filehandler.revision *)
Definition target_name (o : opts) (s : st) : str :=
  match remote_branch o with
  | Some b => if is_empty b then rev s else b
  | None => rev s
  end.
Definition full_ref (t : str) : str := if g_prefixb s_refs_heads t then t else s_refs_heads ++ t.
Definition target_ref (o : opts) (s : st) : str := full_ref (target_name o s).
Definition commit_author (o : opts) (s : st) : str * str :=
  (if is_empty (fst (author o)) then fst (env_author s) else fst (author o),
   if is_empty (snd (author o)) then snd (env_author s) else snd (author o)).

(* ------------------------------------------------------------------ the transaction *)
Inductive outcome :=
| Committed (c : cid)       (* one commit, target ref moved *)
| NoChange                  (* ignore_empty and tree-same: nothing created *)
| DryRun (c : cid)          (* commit object created, nothing else changed *)
| Aborted (e : N)           (* exception e left the with-block; rolled back *)
| RollbackFailed (e : N)    (* the rollback commands themselves were interrupted *)
| Refused (e : N).          (* __init__/__enter__ raised: no transaction was opened *)

(* except BaseException: if not ref_updated: __rollback(); raise     finally: slot := None *)
Definition cp_fail (old : cid) (e : N) (s : st) (f : option nat) : outcome * st * option nat :=
  let '(ok, s, f) := rollback old s f in
  (if ok then Aborted e else RollbackFailed E_OSError, set_slot false s, f).

Definition new_commit (o : opts) (old : cid) (t : tree) (s : st) : commit :=
  {| cparent := Some old; ctree := t; cmsg := msg o; cauthor := commit_author o s |}.

(* __commit; dry-run return; reset --soft; update-ref *)
Definition cp_go (o : opts) (tref : str) (old : cid) (t : tree) (s : st) (f : option nat)
  : outcome * st * option nat :=
  let '(x, f) := tick f in                              (* commit-tree t -p old *)
  if x then cp_fail old E_OSError s f else
  let c := List.length (commits s) in
  let s := add_commit (new_commit o old t s) s in
  if dry_run o then
    let '(ok, s', f) := rollback old s f in
    if ok then (DryRun c, set_slot false s', f) else cp_fail old E_OSError s' f
  else
  let '(x, f) := tick f in                              (* reset --soft c *)
  if x then cp_fail old E_OSError s f else
  let s := set_head c s in
  let '(x, f) := tick f in                              (* update-ref tref c *)
  if x then cp_fail old E_OSError s f else
  (Committed c, set_slot false (set_refs (set_ref tref c (refs s)) s), f).

(* the normal path of __exit__ *)
Definition commit_phase (o : opts) (tref : str) (old : cid) (s : st) (f : option nat)
  : outcome * st * option nat :=
  let '(x, f) := tick f in                              (* write-tree *)
  if x then cp_fail old E_OSError s f else
  let t := index s in
  if ignore_empty o then
    let '(x, f) := tick f in                            (* cat-file commit old *)
    if x then cp_fail old E_OSError s f else
    match nth_error (commits s) old with
    | None => cp_fail old E_Other s f
    | Some cm => if tree_eqb t (ctree cm) then (NoChange, set_slot false s, f) else cp_go o tref old t s f
    end
  else cp_go o tref old t s f.

Definition run_tx (o : opts) (body : list bop) (s : st) (f : option nat) : outcome * st * option nat :=
  if objectlike (target_name o s) then (Refused E_ValueError, s, f) else       (* __init__ *)
  let tref := target_ref o s in
  let '(x, f) := tick f in                              (* __enter__: rev-parse revision *)
  if x then (Refused E_OSError, s, f) else
  match lookup_ref (rev s) (refs s) with
  | None => (Refused E_Other, s, f)
  | Some old =>
      if slot s then (Refused E_RuntimeError, s, f) else
      let s := set_slot true s in
      let '(e, s, f) := run_body body s f in
      match e with
      | Some err =>
          let s := set_slot false s in
          let '(ok, s, f) := rollback old s f in
          (if ok then Aborted err else RollbackFailed E_OSError, s, f)
      | None => commit_phase o tref old s f
      end
  end.

(* GitFileHandler.open(name, "wb") : Some error, or None when a writable file is handed out *)
Definition open_w (s : st) : option N := if slot s then None else Some E_RuntimeError.

(* ------------------------------------------------------------------ histories *)
Inductive hop :=
| HTx (o : opts) (body : list bop) (fault : option nat)
| HWriteOutside.                       (* open(..., "wb") with no transaction *)

Definition run_hop (h : hop) (s : st) : outcome * st :=
  match h with
  | HTx o body f => let '(out, s', _) := run_tx o body s f in (out, s')
  | HWriteOutside => match open_w s with Some e => (Refused e, s) | None => (NoChange, s) end
  end.
Fixpoint run_history (hs : list hop) (s : st) : list (outcome * st) :=
  match hs with
  | [] => []
  | h :: r => let '(out, s') := run_hop h s in (out, s') :: run_history r s'
  end.

(* what the property speaks about *)
Fixpoint last_write (p : str) (ops : list bop) : option str :=
  match ops with
  | [] => None
  | BWrite q b true :: r =>
      match last_write p r with
      | Some x => Some x
      | None => if str_eqb p q then Some b else None
      end
  | _ :: r => last_write p r
  end.
Definition all_closed (ops : list bop) : bool :=
  forallb (fun o => match o with BWrite _ _ false => false | _ => true end) ops.

(* ------------------------------------------------------------------ wrappers for the correspondence *)
Fixpoint str_ltb (a b : str) : bool :=
  match a, b with
  | [], [] => false
  | [], _ :: _ => true
  | _ :: _, [] => false
  | x :: a', y :: b' => if N.ltb x y then true else if N.eqb x y then str_ltb a' b' else false
  end.
Fixpoint ins_key (k : str) (l : list str) : list str :=
  match l with
  | [] => [k]
  | x :: r => if str_eqb k x then l else if str_ltb k x then k :: l else x :: ins_key k r
  end.
Definition sorted_keys (t : tree) : list str := fold_right ins_key [] (map fst t).
Definition canon_tree (t : tree) : val :=
  VL (map (fun p => VL [VS p; match lookup p t with Some b => VS b | None => VNone end]) (sorted_keys t)).
Definition canon_refs (l : list (str * cid)) : val :=
  VL (map (fun r => VL [VS r; match lookup_ref r l with Some c => VZ (Z.of_nat c) | None => VNone end])
          (fold_right ins_key [] (map fst l))).
Definition outcome_val (o : outcome) : val :=
  match o with
  | Committed c => VL [VZ 0; VZ (Z.of_nat c)]
  | NoChange => VL [VZ 1]
  | DryRun c => VL [VZ 2; VZ (Z.of_nat c)]
  | Aborted e => VL [VZ 3; VE e]
  | RollbackFailed e => VL [VZ 3; VE e]   (* the caller sees an exception either way; the state differs *)
  | Refused e => VL [VZ 5; VE e]
  end.
Definition commit_val (cm : commit) : val :=
  VL [match cparent cm with Some p => VZ (Z.of_nat p) | None => VZ (-1) end;
      canon_tree (ctree cm); VS (cmsg cm); VS (fst (cauthor cm)); VS (snd (cauthor cm))].
(* observation after one hop: outcome, refs, HEAD, index, work tree, slot, commits created by this hop *)
Definition obs (before : st) (r : outcome * st) : val :=
  let '(out, s) := r in
  VL [outcome_val out; canon_refs (refs s); VZ (Z.of_nat (head s)); canon_tree (index s);
      canon_tree (wt s); VB (slot s);
      VL (map commit_val (skipn (List.length (commits before)) (commits s)))].
Fixpoint obs_history (hs : list hop) (s : st) : list val :=
  match hs with
  | [] => []
  | h :: r => let res := run_hop h s in obs s res :: obs_history r (snd res)
  end.

(* ---- decoding *)
Definition dec_pair (v : val) : option (str * str) :=
  match v with VL [VS a; VS b] => Some (a, b) | _ => None end.
Definition dec_tree (v : val) : option tree :=
  match v with VL l => all_some (map dec_pair l) | _ => None end.
Definition dec_commit (v : val) : option commit :=
  match v with
  | VL [VZ p; t; VS m; VS an; VS ae] =>
      match dec_tree t with
      | Some t' => Some {| cparent := if (p <? 0)%Z then None else Some (Z.to_nat p); ctree := t'; cmsg := m; cauthor := (an, ae) |}
      | None => None
      end
  | _ => None
  end.
Definition dec_ref (v : val) : option (str * cid) :=
  match v with VL [VS r; VZ c] => Some (r, Z.to_nat c) | _ => None end.
Definition dec_init (v : val) : option st :=
  match v with
  | VL [VL cs; VL rs; VZ h; VS rv; VS an; VS ae] =>
      match all_some (map dec_commit cs), all_some (map dec_ref rs) with
      | Some cs', Some rs' =>
          let t := tree_of (Z.to_nat h) cs' in
          Some {| refs := rs'; commits := cs'; head := Z.to_nat h; index := t; wt := t; slot := false;
                  rev := rv; env_author := (an, ae) |}
      | _, _ => None
      end
  | _ => None
  end.
Definition dec_bop (v : val) : option bop :=
  match v with
  | VL [VZ 0; VS p; VS b; VB c] => Some (BWrite p b c)
  | VL [VZ 1] => Some BRaise
  | VL [VZ 2; VS p] => Some (BBadOpen p)
  | VL [VZ 3] => Some BNested
  | _ => None
  end.
Definition dec_fault (v : val) : option (option nat) :=
  match v with VNone => Some None | VZ k => Some (Some (Z.to_nat k)) | _ => None end.
Definition dec_opts (v : val) : option opts :=
  match v with
  | VL [VB d; VB i; rb; VS an; VS ae; VS m] =>
      match rb with
      | VNone => Some {| dry_run := d; ignore_empty := i; remote_branch := None; author := (an, ae); msg := m |}
      | VS b => Some {| dry_run := d; ignore_empty := i; remote_branch := Some b; author := (an, ae); msg := m |}
      | _ => None
      end
  | _ => None
  end.
Definition dec_hop (v : val) : option hop :=
  match v with
  | VL [VZ 0; o; VL body; f] =>
      match dec_opts o, all_some (map dec_bop body), dec_fault f with
      | Some o', Some b', Some f' => Some (HTx o' b' f')
      | _, _, _ => None
      end
  | VL [VZ 1] => Some HWriteOutside
  | _ => None
  end.
(* input: [init; hops]  output: one observation per hop *)
Definition w_history (v : val) : val :=
  match v with
  | VL [i; VL hs] =>
      match dec_init i, all_some (map dec_hop hs) with
      | Some s, Some hs' => VL (obs_history hs' s)
      | _, _ => bad
      end
  | _ => bad
  end.
Definition w_objectlike (v : val) : val :=
  match v with VS s => VB (objectlike s) | _ => bad end.
Definition w_full_ref (v : val) : val :=
  match v with VS s => VS (full_ref s) | _ => bad end.
