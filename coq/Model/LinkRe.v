(* Recogniser for helpers.CROSS_FRAGMENT_LINK (re.VERBOSE):
     ^(?:(?:(?:(?P<xtype>[^ #]+)\ )?(?P<fragment>[^ #]+))?\#)?(?P<uuid>[A-Za-z0-9_-]+)$
   used with fullmatch.  The regex source text itself is a generated constant
   (Gen/Consts.v) compared with [link_re_expected] in Proofs/Ties.v. *)
From Coq Require Import ZArith NArith List Bool.
Import ListNotations.
From V Require Import Model.Val.
Open Scope N_scope.

Definition HASH : N := 35.
Definition SPACE : N := 32.
Definition uuid_char (c : N) : bool :=
  ((48 <=? c) && (c <=? 57)) || ((65 <=? c) && (c <=? 90)) || ((97 <=? c) && (c <=? 122))
  || (c =? 95) || (c =? 45).
Definition nsh_char (c : N) : bool := negb (c =? SPACE) && negb (c =? HASH).   (* [^ #] *)
Definition all_nonempty (p : N -> bool) (s : str) : bool :=
  match s with [] => false | _ => forallb p s end.

Fixpoint break_at (c : N) (s : str) (acc : str) : option (str * str) :=
  match s with
  | [] => None
  | x :: r => if x =? c then Some (rev acc, r) else break_at c r (x :: acc)
  end.

(* parsed link: (xtype option, fragment option, uuid) *)
Definition parse_link (s : str) : option (option str * option str * str) :=
  match break_at HASH s [] with
  | None => if all_nonempty uuid_char s then Some (None, None, s) else None
  | Some (l, u) =>
      if all_nonempty uuid_char u then
        match l with
        | [] => Some (None, None, u)
        | _ => match break_at SPACE l [] with
               | None => if all_nonempty nsh_char l then Some (None, Some l, u) else None
               | Some (xt, fr) =>
                   if all_nonempty nsh_char xt && all_nonempty nsh_char fr then Some (Some xt, Some fr, u) else None
               end
        end
      else None
  end.
Definition py_link_fullmatch (s : str) : bool := match parse_link s with Some _ => true | None => false end.

Definition format_link (xt fr : option str) (u : str) : str :=
  match fr with
  | None => HASH :: u
  | Some f => match xt with Some x => x ++ [SPACE] ++ f ++ [HASH] ++ u | None => f ++ [HASH] ++ u end
  end.

Definition w_parse_link (v : val) : val :=
  match v with
  | VS s => match parse_link s with
            | None => VNone
            | Some (xt, fr, u) =>
                VL [match xt with Some x => VS x | None => VNone end;
                    match fr with Some x => VS x | None => VNone end; VS u]
            end
  | _ => bad
  end.
