(* Universal value type used by the correspondence check.
   The harness (harness/lib.py: to_coq) writes Python values in this shape,
   every model exposes a [val -> val] wrapper, and [failing] reports the
   indices of the cases on which model output <> implementation output. *)
From Coq Require Import ZArith NArith List Bool.
Import ListNotations.

Definition str := list N.   (* code points (or bytes, < 256) *)

Inductive val :=
| VZ (z : Z)
| VS (s : str)
| VB (b : bool)
| VNone
| VL (l : list val)
| VE (e : N).               (* error enum, see harness/lib.py ERRS *)

Fixpoint str_eqb (a b : str) : bool :=
  match a, b with
  | [], [] => true
  | x :: a', y :: b' => N.eqb x y && str_eqb a' b'
  | _, _ => false
  end.

Fixpoint val_eqb (a b : val) {struct a} : bool :=
  match a, b with
  | VZ x, VZ y => Z.eqb x y
  | VS x, VS y => str_eqb x y
  | VB x, VB y => Bool.eqb x y
  | VNone, VNone => true
  | VE x, VE y => N.eqb x y
  | VL xs, VL ys =>
      (fix go (xs ys : list val) {struct xs} : bool :=
         match xs, ys with
         | [], [] => true
         | x :: xs', y :: ys' => val_eqb x y && go xs' ys'
         | _, _ => false
         end) xs ys
  | _, _ => false
  end.

(* error codes — keep in sync with harness/lib.py ERRS *)
Definition E_KeyError : N := 1.
Definition E_ValueError : N := 2.
Definition E_TypeError : N := 3.
Definition E_IndexError : N := 4.
Definition E_RuntimeError : N := 5.
Definition E_AssertionError : N := 6.
Definition E_FileNotFound : N := 7.
Definition E_OSError : N := 8.
Definition E_NotImplemented : N := 9.
Definition E_Corrupt : N := 10.
Definition E_NonUnique : N := 11.
Definition E_InvalidModification : N := 12.
Definition E_Unfulfilled : N := 13.
Definition E_OutOfFuel : N := 14.
Definition E_ZeroDivision : N := 15.
Definition E_Other : N := 16.
Definition E_Malformed : N := 17.   (* harness could not decode a case: never equal to an impl output *)
Definition E_KeyboardInterrupt : N := 18.
Definition E_AttributeError : N := 19.
Definition E_BrokenModel : N := 20.

Fixpoint failing_from (n : nat) (f : val -> val) (cases : list (val * val)) : list nat :=
  match cases with
  | [] => []
  | (i, o) :: cs =>
      if val_eqb (f i) o then failing_from (S n) f cs
      else n :: failing_from (S n) f cs
  end.
Definition failing := failing_from 0.

(* decoding helpers for wrappers *)
Definition as_str (v : val) : option str := match v with VS s => Some s | _ => None end.
Definition as_Z (v : val) : option Z := match v with VZ z => Some z | _ => None end.
Definition as_bool (v : val) : option bool := match v with VB b => Some b | _ => None end.
Definition as_list (v : val) : option (list val) := match v with VL l => Some l | _ => None end.
Fixpoint all_some {A} (l : list (option A)) : option (list A) :=
  match l with
  | [] => Some []
  | Some x :: r => match all_some r with Some r' => Some (x :: r') | None => None end
  | None :: _ => None
  end.
Definition as_strs (v : val) : option (list str) :=
  match v with VL l => all_some (map as_str l) | _ => None end.
Definition of_strs (l : list str) : val := VL (map VS l).
Definition bad : val := VE E_Malformed.
