(* C15 — MelodyLoader.save through LocalFileHandler's write transaction
   (capellambse/filehandler/local.py: open, write_transaction, _tmpname;
    capellambse/loader/core.py: save; capellambse/loader/exs.py: write).
   Executable definitions only.

   File system  = association list  name -> bytes   (first binding wins).
   Fault points are numbered in the order the implementation reaches them:
     per fragment   Path.open(tmp,"wb") ; exs.serialize ; f.write(declaration) ; f.write(payload) ;
                    f.close()  (on leaving the `with` block — also on the error path)
     then           unlink(tmp) per written file (abort / dry run)  or  replace(tmp, file) (commit)
   [flt k = Some e] injects exception e at the k-th fault point.

   [fixed] selects the behaviour of the transaction code:
     true   proposed_fixes/C15-txn-cleanup.diff applied: a name enters the transaction set only
            after its temporary file was opened, and the state is reset in a `finally`
     false  the code as found: the name is added before the open, and the reset is skipped
            when the clean-up loop raises. *)
From Coq Require Import ZArith NArith List Bool.
Import ListNotations.
From V Require Import Model.Val Model.PyPrims.

Notation fs := (list (str * str)) (only parsing).

Fixpoint fs_get (f : fs) (n : str) : option str :=
  match f with
  | [] => None
  | (m, b) :: r => if str_eqb m n then Some b else fs_get r n
  end.
Definition fs_set (f : fs) (n b : str) : fs := (n, b) :: f.
Fixpoint fs_del (f : fs) (n : str) : fs :=
  match f with
  | [] => []
  | (m, b) :: r => if str_eqb m n then fs_del r n else (m, b) :: fs_del r n
  end.
Definition memS (n : str) (l : list str) : bool := existsb (str_eqb n) l.
Definition is_some {A} (o : option A) : bool := match o with Some _ => true | None => false end.

Section Txn.
  Variable tmp : str -> str.            (* _tmpname *)
  Variable decl : str.                  (* the XML declaration exs.write emits first *)
  Variable fixed : bool.
  Variable flt : nat -> option N.

  (* one iteration of the loop in MelodyLoader.save:
       with handler.open(name, "wb") as f: tree.write_xml(f)          *)
  Definition write_frag (f : fs) (txn : list str) (k : nat) (n c : str) : fs * list str * nat * option N :=
    if memS n txn then (f, txn, k, Some E_RuntimeError)        (* File already written in this transaction *)
    else
      match flt k with                                         (* Path.open of the temporary file *)
      | Some e => (f, if fixed then txn else txn ++ [n], S k, Some e)
      | None =>
          let txn' := txn ++ [n] in
          let f0 := fs_set f (tmp n) [] in
          let '(f1, k1, berr) :=
            match flt (S k) with                               (* exs.serialize: all in memory *)
            | Some e => (f0, S (S k), Some e)
            | None =>
                match flt (S (S k)) with                       (* f.write(declaration) *)
                | Some e => (f0, S (S (S k)), Some e)
                | None =>
                    let fa := fs_set f0 (tmp n) decl in
                    match flt (S (S (S k))) with               (* f.write(payload) *)
                    | Some e => (fa, S (S (S (S k))), Some e)
                    | None => (fs_set fa (tmp n) (decl ++ c), S (S (S (S k))), None)
                    end
                end
            end in
          match flt k1 with                                    (* f.close() *)
          | Some e => (f1, txn', S k1, Some e)
          | None => (f1, txn', S k1, berr)
          end
      end.

  Fixpoint write_all (f : fs) (txn : list str) (k : nat) (frags : list (str * str)) : fs * list str * nat * option N :=
    match frags with
    | [] => (f, txn, k, None)
    | (n, c) :: r =>
        let '(f', txn', k', e) := write_frag f txn k n c in
        match e with
        | Some _ => (f', txn', k', e)
        | None => write_all f' txn' k' r
        end
    end.

  (* the `finally` loop of write_transaction *)
  Fixpoint abort_loop (f : fs) (k : nat) (l : list str) : fs * nat * option N :=
    match l with
    | [] => (f, k, None)
    | n :: r =>
        match flt k with
        | Some e => (f, S k, Some e)
        | None =>
            match fs_get f (tmp n) with
            | None => (f, S k, Some E_FileNotFound)            (* unlink of a file that is not there *)
            | Some _ => abort_loop (fs_del f (tmp n)) (S k) r
            end
        end
    end.
  Fixpoint commit_loop (f : fs) (k : nat) (l : list str) : fs * nat * option N :=
    match l with
    | [] => (f, k, None)
    | n :: r =>
        match flt k with
        | Some e => (f, S k, Some e)
        | None =>
            match fs_get f (tmp n) with
            | None => (f, S k, Some E_FileNotFound)
            | Some b => commit_loop (fs_del (fs_set f n b) (tmp n)) (S k) r
            end
        end
    end.

  (* save: [idle] = no transaction open on the handler; [order] = iteration order of the
     transaction set (a Python set: the order is an input); result = (files, idle afterwards, error) *)
  Definition save (f : fs) (idle : bool) (frags : list (str * str)) (order : list str) (dry : bool)
    : fs * bool * option N :=
    if negb idle then (f, false, Some E_RuntimeError)          (* Another transaction is already open *)
    else
      let '(f1, txn, k1, werr) := write_all f [] 0 frags in
      let todo := filter (fun n => memS n txn) order in
      let '(f2, _, cerr) := if dry || is_some werr then abort_loop f1 k1 todo else commit_loop f1 k1 todo in
      (f2, if fixed then true else negb (is_some cerr),
       match cerr with Some e => Some e | None => werr end).
End Txn.

Definition no_fault : nat -> option N := fun _ => None.
Definition single_fault (k : nat) (e : N) : nat -> option N := fun j => if Nat.eqb j k then Some e else None.
Fixpoint faults (l : list (nat * N)) : nat -> option N :=
  fun j => match l with [] => None | (k, e) :: r => if Nat.eqb j k then Some e else faults r j end.

(* ---------------- _tmpname on '/'-separated names ----------------
   prefix/suffix/limit are regenerated from local.py (Gen/SaveTxnConsts.v) and passed in. *)
Definition SLASHC : N := 47.
Fixpoint split_last_go (s : str) (dir cur : str) : str * str :=     (* dir, cur reversed *)
  match s with
  | [] => (rev dir, rev cur)
  | c :: r => if N.eqb c SLASHC then split_last_go r (c :: cur ++ dir) [] else split_last_go r dir (c :: cur)
  end.
Definition split_last (s : str) : str * str := split_last_go s [] [].   (* (directory incl. trailing '/', base name) *)
Definition tmpname (prefix suffix : str) (limit : nat) (n : str) : str :=
  let '(d, b) := split_last n in
  d ++ prefix ++ firstn (limit - (length prefix + length suffix)) b ++ suffix.

(* decidable side conditions of the theorems for a concrete finite set of names *)
Fixpoint nodupS (l : list str) : bool :=
  match l with [] => true | x :: r => negb (memS x r) && nodupS r end.
Definition tmp_ok (tmp : str -> str) (names : list str) : bool :=
  nodupS names && nodupS (map tmp names) && forallb (fun n => negb (memS (tmp n) names)) names.

(* ---------------- wrappers for the correspondence check ---------------- *)
Definition dec_frag (v : val) : option (str * str) :=
  match v with VL [VS a; VS b] => Some (a, b) | _ => None end.
Definition dec_fault (v : val) : option (nat * N) :=
  match v with VL [VZ k; VZ e] => Some (Z.to_nat k, Z.to_N e) | _ => None end.
Definition dec_all {A} (f : val -> option A) (v : val) : option (list A) :=
  match v with VL l => all_some (map f l) | _ => None end.
Definition enc_opt (o : option str) : val := match o with Some b => VS b | None => VNone end.

(* [prefix; suffix; limit; name] -> temporary name *)
Definition w_tmpname (v : val) : val :=
  match v with
  | VL [VS p; VS s; VZ lim; VS n] => VS (tmpname p s (Z.to_nat lim) n)
  | _ => bad
  end.

(* [[prefix; suffix; limit]; fixed; files; idle; frags; order; dry; faults; observe; observe-presence] ->
   [content-or-None of every name in observe; presence of every name in observe-presence;
    idle afterwards; error-or-None] *)
Definition w_save (v : val) : val :=
  match v with
  | VL [VL [VS p; VS s; VZ lim]; VB fixed; files; VB idle; frags; order; VB dry; fl; obs; obsp] =>
      match dec_all dec_frag files, dec_all dec_frag frags, as_strs order, dec_all dec_fault fl, as_strs obs, as_strs obsp with
      | Some files, Some frags, Some order, Some fl, Some obs, Some obsp =>
          let '(f2, idle', err) := save (tmpname p s (Z.to_nat lim)) [] fixed (faults fl) files idle frags order dry in
          VL [VL (map (fun n => enc_opt (fs_get f2 n)) obs); VL (map (fun n => VB (is_some (fs_get f2 n))) obsp); VB idle';
              match err with Some e => VE e | None => VNone end]
      | _, _, _, _, _, _ => bad
      end
  | _ => bad
  end.

(* [[prefix; suffix; limit]; names] -> are the theorems' side conditions true for these names *)
Definition w_tmp_ok (v : val) : val :=
  match v with
  | VL [VL [VS p; VS s; VZ lim]; names] =>
      match as_strs names with
      | Some names => VB (tmp_ok (tmpname p s (Z.to_nat lim)) names)
      | None => bad
      end
  | _ => bad
  end.
