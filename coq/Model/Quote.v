(* urllib.parse.quote / unquote at the byte level (the str <-> UTF-8 step is
   Python's codec and is not modelled; the harness passes UTF-8 bytes). *)
From Coq Require Import ZArith NArith List Bool.
Import ListNotations.
From V Require Import Model.Val.
Open Scope N_scope.

Definition PCT : N := 37.
Definition unreserved (c : N) : bool :=
  ((48 <=? c) && (c <=? 57)) || ((65 <=? c) && (c <=? 90)) || ((97 <=? c) && (c <=? 122))
  || (c =? 95) || (c =? 46) || (c =? 45) || (c =? 126).
Definition hexdigit (n : N) : N := if n <? 10 then 48 + n else 55 + n.     (* 0-9 A-F *)
Definition hexval (c : N) : option N :=
  if (48 <=? c) && (c <=? 57) then Some (c - 48)
  else if (65 <=? c) && (c <=? 70) then Some (c - 55)
  else if (97 <=? c) && (c <=? 102) then Some (c - 87)
  else None.
Definition memN (c : N) (l : list N) : bool := existsb (N.eqb c) l.

Definition quote1 (safe : list N) (b : N) : str :=
  if unreserved b || memN b safe then [b] else [PCT; hexdigit (b / 16); hexdigit (b mod 16)].
Definition quote (safe : list N) (bs : str) : str := flat_map (quote1 safe) bs.

Fixpoint unquote_fuel (fuel : nat) (s : str) : str :=
  match fuel with
  | O => []
  | S fuel =>
    match s with
    | [] => []
    | c :: r =>
        if c =? PCT then
          match r with
          | h :: l :: r' =>
              match hexval h, hexval l with
              | Some a, Some b => (16 * a + b) :: unquote_fuel fuel r'
              | _, _ => c :: unquote_fuel fuel r
              end
          | _ => c :: unquote_fuel fuel r
          end
        else c :: unquote_fuel fuel r
    end
  end.
Definition unquote (s : str) : str := unquote_fuel (length s) s.

Definition w_quote (v : val) : val :=
  match v with VL [VS safe; VS bs] => VS (quote safe bs) | _ => bad end.
Definition w_unquote (v : val) : val :=
  match v with VS s => VS (unquote s) | _ => bad end.
