(* C04 — object creation as the code performs it, with a failure point.
   new_uuid(parent): reserve the id; ModelElement.__init__: append the element (tree only), run the
   keyword setters — nested new objects are created, attached and indexed one after the other —,
   finally index the element.  On failure (after the fix): un-index the nested children, remove
   the element from the tree, drop the reservation. *)
From Coq Require Import ZArith List Bool.
Import ListNotations.
From V Require Import Model.Val Model.Graph.
Open Scope Z_scope.

Record request := mkReq {
  r_frag : Z;              (* fragment that receives the object *)
  r_uuid : Z;              (* the reserved id *)
  r_outer : node;          (* the new element (its nids contain r_uuid) *)
  r_nested : list node     (* elements created for keyword arguments, in order *)
}.

(* fail_at = None: success.  Some j: the (j+1)-th keyword after j nested creations raises
   (j = length nested: idcache_index of the outer element itself raises) *)
Definition create_ops (rq : request) (fail_at : option nat) : list op :=
  let f := r_frag rq in
  match fail_at with
  | None =>
      [Reserve f (r_uuid rq)] ++ map (fun n => Attach f [n]) (r_nested rq) ++ [Attach f [r_outer rq]]
  | Some j =>
      let done := firstn j (r_nested rq) in
      [Reserve f (r_uuid rq)] ++ map (fun n => Attach f [n]) done
      ++ [Detach f (map nh done)]          (* idcache_remove(child) for the nested children, then parent.remove(element) *)
      ++ [Unreserve f (r_uuid rq)]         (* new_uuid: cleanup_after_failure *)
  end.
Definition create (rq : request) (fail_at : option nat) (frs : list frag) : res (list frag) :=
  run false (create_ops rq fail_at) frs.

(* the handler before the fix: the element is removed from the tree, nested children stay indexed *)
Definition create_ops_old (rq : request) (j : nat) : list op :=
  let f := r_frag rq in
  let done := firstn j (r_nested rq) in
  [Reserve f (r_uuid rq)] ++ map (fun n => Attach f [n]) done
  ++ [DetachForgetful f (map nh done)] ++ [Unreserve f (r_uuid rq)].
