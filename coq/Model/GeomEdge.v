(* Model / GeomEdge: edge-end snapping and default routes of capellambse.aird._edge_factories
   (route_manhattan, route_tree, snap_manhattan, snap_tree) over exact rationals, on top of
   Model/Geom.v.  Executable definitions only.

   An edge end is described by the end point [pi] and its neighbour [pn]; the functions return the
   points that replace the end, listed from the neighbour's side outwards (so the last element is
   the new extremity of the edge).  This is what `points[i] = a; points.insert(i + (i > next_i), b)`
   produces for both the source end (i = 0) and the target end (i = len - 1). *)
From Coq Require Import QArith Qabs Qminmax ZArith NArith List Bool.
Import ListNotations.
From V Require Import Model.Val Model.Geom Gen.GeomConsts.
Open Scope Q_scope.

Inductive lres :=
| LOk (l : list (Q * Q))
| LErr (e : N).

(* math.isclose(a, b): rel_tol = 1e-09, abs_tol = 0 *)
Definition REL_TOL : Q := 1 # 1000000000.
Definition isclose (a b : Q) : bool := Qle_bool (Qabs (a - b)) (REL_TOL * Qmax (Qabs a) (Qabs b)).

(* ---- route_manhattan(source, target) for two boxes ---- *)
Definition route_manhattan (src tgt : box) : lres :=
  match snap_manhattan src (center src) (vsub (center src) (center tgt)),
        snap_manhattan tgt (center tgt) (vsub (center tgt) (center src)) with
  | Ok sp, Ok tp =>
      if Qlt_b (Qabs (snd sp - snd tp)) (Qabs (fst sp - fst tp)) then
        let p1 := ((fst sp + fst tp) / 2, snd sp) in
        LOk [sp; p1; (fst p1, snd tp); tp]
      else
        let p1 := (fst sp, (snd sp + snd tp) / 2) in
        LOk [sp; p1; (fst tp, snd p1); tp]
  | Err e, _ => LErr e
  | _, Err e => LErr e
  end.

(* ---- route_tree(source, target) for two label-less boxes (bounds = pos, size) ---- *)
Definition route_tree (src tgt : box) : list (Q * Q) :=
  let sc := center src in
  let tc := center tgt in
  let source_y := by_ src + bh src * b2q (Qlt_b (snd tc) (snd sc)) in
  let target_y := by_ tgt + bh tgt * b2q (Qlt_b (snd sc) (snd tc)) in
  let cy := (source_y + target_y) / 2 in
  [(fst sc, source_y); (fst sc, cy); (fst tc, cy); (fst tc, target_y)].

(* ---- snap_tree(points, i, next_i, target) ---- *)
Definition edge_snap_tree (tgt : box) (pi pn : Q * Q) : lres :=
  match vector_snap Tree tgt pi pn with
  | Err e => LErr e
  | Ok endpoint =>
      if isclose (fst endpoint) (fst pi) then LOk [endpoint]
      else LOk [(fst endpoint, snd pi); (fst endpoint, snd pn)]
  end.

(* ---- snap_manhattan(points, i, next_i, target) ----
   `math.isclose(axis.angleto(direction), 0)`: the direction lies exactly on its closest axis *)
Definition edge_snap_manhattan (tgt : box) (pi pn : Q * Q) : lres :=
  let direction := vsub pi pn in
  let axis := closestaxis direction in
  let manhattan := if negb (Qeq_bool (fst axis) 0) then Qeq_bool (snd direction) 0 else Qeq_bool (fst direction) 0 in
  let pi' :=
    if manhattan then pi
    else (* end @ abs(axis) + next @ (not axis.x, not axis.y) *)
      (fst pi * Qabs (fst axis) + fst pn * b2q (Qeq_bool (fst axis) 0),
       snd pi * Qabs (snd axis) + snd pn * b2q (Qeq_bool (snd axis) 0)) in
  match vector_snap Manhattan tgt pi' pn with
  | Err e => LErr e
  | Ok endpoint =>
      if negb (Qeq_bool (fst axis) 0) then
        if isclose (snd endpoint) (snd pi') then LOk [endpoint]
        else LOk [(fst endpoint, snd pi'); endpoint]
      else
        if isclose (fst endpoint) (fst pi') then LOk [endpoint]
        else LOk [(fst pi', snd endpoint); endpoint]
  end.

(* ================= wrappers ================= *)
Definition lclose (a b : list (Q * Q)) : bool :=
  (Nat.eqb (length a) (length b)) && forallb (fun ab => vclose (fst ab) (snd ab)) (combine a b).
Definition vecs_of_val (v : val) : option (list (Q * Q)) :=
  match v with VL l => all_some (map vec_of_val l) | _ => None end.
Definition val_of_lres (r : lres) : val :=
  match r with LOk l => VL (map val_of_vec l) | LErr e => VE e end.
Definition lagree (r : lres) (impl : val) : val :=
  match r, impl with
  | LErr e, VE e' => if N.eqb e e' then VB true else VE e
  | LOk l, VL _ => match vecs_of_val impl with
                   | Some w => if lclose l w then VB true else val_of_lres r
                   | None => bad
                   end
  | _, _ => val_of_lres r
  end.
Definition box_of_val (v : val) : option box :=
  match v with
  | VL [pos; size; VB port] =>
      match vec_of_val pos, vec_of_val size with
      | Some p, Some s => Some (mkbox (fst p) (snd p) (fst s) (snd s) port)
      | _, _ => None
      end
  | _ => None
  end.

(* input: [[kind (0 route_manhattan, 1 route_tree); src box; tgt box]; impl points] *)
Definition w_route (v : val) : val :=
  match v with
  | VL [VL [VZ k; a; b]; impl] =>
      match box_of_val a, box_of_val b with
      | Some a, Some b =>
          match k with
          | 0%Z => lagree (route_manhattan a b) impl
          | 1%Z => lagree (LOk (route_tree a b)) impl
          | _ => bad
          end
      | _, _ => bad
      end
  | _ => bad
  end.

(* input: [[kind (1 manhattan, 2 tree); tgt box; pi; pn]; impl replacement points, outwards] *)
Definition w_edge_snap (v : val) : val :=
  match v with
  | VL [VL [VZ k; b; pi; pn]; impl] =>
      match box_of_val b, vec_of_val pi, vec_of_val pn with
      | Some b, Some pi, Some pn =>
          match k with
          | 1%Z => lagree (edge_snap_manhattan b pi pn) impl
          | 2%Z => lagree (edge_snap_tree b pi pn) impl
          | _ => bad
          end
      | _, _, _ => bad
      end
  | _ => bad
  end.
