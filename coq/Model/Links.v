(* ML / Links: MelodyLoader.create_link's text formation and its resolution
   (fragment path: relpath_pure + quote; resolution: unquote + normalize with
   base = directory of the source fragment), and split_links as a recursive
   function on tokens. *)
From Coq Require Import ZArith NArith List Bool.
Import ListNotations.
From V Require Import Model.Val Model.Paths Model.PyPrims Model.Quote Model.LinkRe.
Open Scope N_scope.

(* str of PurePosixPath built from parts *)
Fixpoint join_with (sep : N) (l : list str) : str :=
  match l with
  | [] => []
  | [x] => x
  | x :: r => x ++ sep :: join_with sep r
  end.
Definition path_str (parts : list part) : str :=
  match parts with [] => [DOT] | _ => join_with SLASH parts end.

(* create_link, from the point where both fragments are known.
   [visual_from]: from_fragment.suffix in VISUAL_EXTS; [incl]: include_target_type argument *)
Fixpoint parts_eqb (a b : list str) : bool :=
  match a, b with
  | [], [] => true
  | x :: a', y :: b' => str_eqb x y && parts_eqb a' b'
  | _, _ => false
  end.

Definition create_link_text (from_frag to_frag : list part) (visual_from : bool) (incl : option bool)
           (to_type : option str) (uuid : str) : str :=
  if parts_eqb from_frag to_frag then HASH :: uuid
  else
    let include := match incl with Some b => b | None => negb visual_from end in
    let link := quote [SLASH] (path_str (relpath to_frag from_frag)) in
    if include then
      match to_type with
      | Some ty => ty ++ [SPACE] ++ link ++ [HASH] ++ uuid
      | None => link ++ [HASH] ++ uuid
      end
    else link ++ [HASH] ++ uuid.

(* the fragment a link names, seen from [from_frag] (what Capella/EMF resolves):
   unquote, split, normalize against the source fragment's directory *)
Definition resolve_fragment (from_frag : list part) (link : str) : option (list part) :=
  match parse_link link with
  | Some (_, Some fr, _) => Some (normalize_parts (removelast from_frag ++ posix_parts (unquote fr)))
  | Some (_, None, _) => Some from_frag
  | None => None
  end.

(* split_links on the token list (tokens = links.split()) *)
Fixpoint split_tokens (toks : list str) (pending : option str) : result (list str) :=
  match toks with
  | [] => match pending with None => Ok [] | Some _ => Err E_ValueError end
  | t :: r =>
      if py_str_contains t [HASH] then
        let full := match pending with Some x => x ++ [SPACE] ++ t | None => t end in
        if py_link_fullmatch full then
          match split_tokens r None with Ok l => Ok (full :: l) | Err e => Err e end
        else Err E_ValueError
      else
        match pending with
        | Some _ => Err E_ValueError
        | None => match t with [] => split_tokens r None | _ => split_tokens r (Some t) end
        end
  end.
Definition split_links_model (s : str) : result (list str) := split_tokens (py_split_ws s) None.

(* wrappers *)
Definition opt_str (v : val) : option (option str) :=
  match v with VNone => Some None | VS s => Some (Some s) | _ => None end.
Definition w_create_link (v : val) : val :=
  match v with
  | VL [f; t; VB vis; incl; ty; VS u] =>
      match as_strs f, as_strs t, opt_str ty with
      | Some f, Some t, Some ty =>
          let incl := match incl with VB b => Some b | _ => None end in
          VS (create_link_text f t vis incl ty u)
      | _, _, _ => bad
      end
  | _ => bad
  end.
Definition w_resolve_fragment (v : val) : val :=
  match v with
  | VL [f; VS l] => match as_strs f with
                    | Some f => match resolve_fragment f l with Some p => of_strs p | None => VNone end
                    | None => bad end
  | _ => bad
  end.
Definition w_split_links (v : val) : val :=
  match v with
  | VS s => match split_links_model s with Ok l => of_strs l | Err e => VE e end
  | _ => bad
  end.
