(* HTTPFileHandler.open: re.sub("%[%a-z]", lambda m: replace[m.group(0)], template) with the five
   percent-quoted components of the file name. *)
From Coq Require Import ZArith NArith List Bool.
Import ListNotations.
From V Require Import Model.Val Model.Quote.
Open Scope N_scope.

Definition is_lower (c : N) : bool := (97 <=? c) && (c <=? 122).

(* replacement table: %s %q %d %n %e %% ; any other %<lowercase> is a KeyError *)
Record comps := mkComps { c_full : str; c_dir : str; c_name : str; c_ext : str }.   (* raw UTF-8 bytes *)
Definition replacement (k : comps) (c : N) : option str :=
  if c =? 115 (* s *) then Some (quote [47] (c_full k))
  else if c =? 113 (* q *) then Some (quote [] (c_full k))
  else if c =? 100 (* d *) then Some (quote [47] (c_dir k))
  else if c =? 110 (* n *) then Some (quote [47] (c_name k))
  else if c =? 101 (* e *) then Some (quote [47] (c_ext k))
  else if c =? PCT then Some [PCT]
  else None.

Fixpoint subst (k : comps) (tpl : str) : option str :=
  match tpl with
  | [] => Some []
  | c :: r =>
      if c =? PCT then
        match r with
        | d :: r' =>
            if (d =? PCT) || is_lower d then
              match replacement k d, subst k r' with
              | Some rep, Some rest => Some (rep ++ rest)
              | _, _ => None
              end
            else option_map (cons c) (subst k r)
        | [] => Some [c]
        end
      else option_map (cons c) (subst k r)
  end.

Definition count (c : N) (s : str) : nat := length (filter (N.eqb c) s).

Definition w_http_url (v : val) : val :=
  match v with
  | VL [VS tpl; VS full; VS dir; VS name; VS ext] =>
      match subst (mkComps full dir name ext) tpl with Some u => VS u | None => VE E_KeyError end
  | _ => bad
  end.
